/-
  C09 (rows part) — the row-level views: ReadRows(all / visible only), ReadDeletedRows, ReadRowsWithDeleted.
  Property theorems only; helper lemmas are in Proofs/RowsViews.lean, Proofs/RowsDeleted.lean.  (`C09_bits`, `C09_local`,
  `C09_disjoint` on infomasks are in Props/C09.lean; ReadTuplesInRange's switch is area `block`; ScanAllDeletedRows is
  Props/C09Scan.lean.)

  Two layers.  Model-internal, for ARBITRARY bytes: `C09_exclusive`, `C09_views`, `C09_partition`, `C09_deleted`,
  `C09_decode_ignores_header` (how the views relate to each other, whatever the file is).  Spec-level, for well-formed
  FILES built by the Spec encoders from row versions with arbitrary header fields: `C09_deleted_file`,
  `C09_withDeleted_file` (which stored versions each view reports, and with which values; the live view is
  `C03.C03_file`), `C09_recovered_tuple`, `C09_recovered_file` (a recovered row = the row the same stored attributes
  decoded to before the delete).
-/
import PgVerif.Proofs.RowsDeleted
namespace PgVerif.Props.C09Rows
open PgVerif PgVerif.Model PgVerif.Spec PgVerif.Proofs PgVerif.Proofs.Rows

/-- No tuple is both live and deleted, whatever its header flags are (the two predicates the readers
use are mutually exclusive as Boolean functions of the three hint flags). -/
theorem C09_exclusive (t : HeapTuple) : ¬ (t.isVisible = true ∧ t.isDeleted = true) := by
  unfold HeapTuple.isVisible HeapTuple.isDeleted
  cases t.header.xminCommitted <;> cases t.header.xmaxInvalid <;> cases t.header.xmaxCommitted <;> simp

/-- **The views are filters of one list.**  For every byte string `f`, every schema and every scalar decoder:
let `es` be the all-tuples scan and `rs` the list of (tuple, decoded row) pairs of the tuples that decode to a
row.  Then ReadRows(all) returns the rows of `rs` in order; ReadRows(visible only) returns exactly the rows of
the pairs whose tuple satisfies its own `isVisible`; ReadRowsWithDeleted returns that same live list and the
rows of the pairs whose tuple satisfies its own `isDeleted`.  Hence live ⊆ all and deleted ⊆ all as
sub-multisets (they are sub-lists selected by predicates on the tuple alone), and by `C09_exclusive` no pair
is selected by both (`C09_partition` states the disjoint-sub-multiset clause with `List.Perm`).
(The hypothesis `hrs` only says that the scalar decoder does not fault on these tuples; see C10.  The third conjunct
is close to the model's own definition: Model.readRowsWithDeleted is written as decode-all-then-filter — the Go loop
decodes every tuple before classifying it, so this is the same computation — and the conjunct only removes the redundant
`!isVisible &&`.  What the two halves contain for a stored file is `C09_withDeleted_file`.) -/
theorem C09_views (dec : Dec) (f : Bytes) (cols : List Column) (es : List TupleEntry) (rs : List (HeapTuple × Row))
    (hes : readTuples f false = .ok es) (hrs : decodedEntries dec cols es = .ok rs) :
    readRows dec f cols false = .ok (rs.map (·.2)) ∧
    readRows dec f cols true = .ok ((rs.filter fun x => x.1.isVisible).map (·.2)) ∧
    readRowsWithDeleted dec f cols =
      .ok ((rs.filter fun x => x.1.isVisible).map (·.2), (rs.filter fun x => x.1.isDeleted).map (·.2)) := by
  refine ⟨?_, ?_, ?_⟩
  · have := collect_filter dec cols (fun _ => true) es rs hrs
    rw [List.filter_eq_self.mpr (fun _ _ => rfl), List.filter_eq_self.mpr (fun _ _ => rfl)] at this
    simp only [readRows, hes, ok_bind]
    exact this
  · have hvis : readTuples f true = .ok (es.filter fun e => e.tuple.isVisible) := by
      have := readTuplesFrom_filter f (f.length / 8192 + 1) 0
      unfold readTuples
      rw [this]
      unfold readTuples at hes
      rw [hes]; rfl
    simp only [readRows, hvis, ok_bind]
    exact collect_filter dec cols (fun t => t.isVisible) es rs hrs
  · simp only [readRowsWithDeleted, hes, ok_bind, hrs, pure_eq_ok]
    congr 2
    apply congrArg
    apply List.filter_congr
    intro x _
    have := C09_exclusive x.1
    cases hv : x.1.isVisible <;> cases hd : x.1.isDeleted <;> simp [hv, hd] at this ⊢

/-- **Live and deleted are disjoint sub-multisets of the all-tuples view.**  For every byte string `f` on which
the decoder does not fault: the live view, the deleted view and a rest (the rows of the tuples that are neither:
aborted or in-progress inserts, in-progress deletes) together are a permutation of the all-tuples view — every row of
the all-tuples view is in at most one of the two views, with its multiplicity. -/
theorem C09_partition (dec : Dec) (f : Bytes) (cols : List Column) (es : List TupleEntry) (rs : List (HeapTuple × Row))
    (hes : readTuples f false = .ok es) (hrs : decodedEntries dec cols es = .ok rs) :
    ∃ all live del rest, readRows dec f cols false = .ok all ∧ readRows dec f cols true = .ok live ∧
      readRowsWithDeleted dec f cols = .ok (live, del) ∧ List.Perm (live ++ del ++ rest) all := by
  obtain ⟨h1, h2, h3⟩ := C09_views dec f cols es rs hes hrs
  refine ⟨_, _, _, (rs.filter fun x => !x.1.isVisible && !x.1.isDeleted).map (·.2), h1, h2, h3, ?_⟩
  rw [← List.map_append, ← List.map_append]
  exact (three_way (fun x : HeapTuple × Row => x.1.isVisible) (fun x => x.1.isDeleted) rs
    (fun x _ => C09_exclusive x.1)).map _

/-- **Deleted-row recovery.**  With a non-empty schema, ReadDeletedRows reports one entry per tuple whose own
`isDeleted` holds (no other tuple, none missing), and their decoded rows are exactly the deleted view of
`C09_views`. -/
theorem C09_deleted (dec : Dec) (f : Bytes) (cols : List Column) (hne : cols ≠ []) (es : List TupleEntry)
    (rs : List (HeapTuple × Row)) (hes : readTuples f false = .ok es) (hrs : decodedEntries dec cols es = .ok rs) :
    ∃ ds, readDeletedRows dec f cols = .ok ds ∧
      ds.filterMap (·.data) = (rs.filter fun x => x.1.isDeleted).map (·.2) ∧
      ds.length = (es.filter fun e => e.tuple.isDeleted).length := by
  obtain ⟨ds, h1, h2, h3⟩ := collect_deleted dec cols hne es rs hrs
  exact ⟨ds, by simp only [readDeletedRows, hes, ok_bind, h1], h2, h3⟩

/-- **The record-level frame fact behind `C09_recovered_file`** (not the property clause itself): DecodeTuple does
not read the parsed header record at all (commit and delete hint flags, natts, t_hoff): the same bitmap and data
bytes decode alike under any header record. -/
theorem C09_decode_ignores_header (dec : Dec) (t : HeapTuple) (hdr' : TupleHeader) (cols : List Column) :
    decodeTuple dec { t with header := hdr' } cols = decodeTuple dec t cols :=
  decodeTuple_header dec t.header hdr' t.bitmap t.data cols

/-! ## Spec-level statements: the views of a well-formed heap FILE, from the stored row versions

`vers` are the row versions the file stores (Spec side: `Spec.formTupleH` = heap_form_tuple with arbitrary xmin /
xmax / cid / t_ctid / t_infomask2 flag bits, any t_infomask), `expRow dec cols r` is the row `C03_layout` says a
reader must report for `r` — a function of the schema, the attribute values and the stored attribute count, not of
any header field or hint bit. -/

/-- **ReadDeletedRows on a stored file.**  For every well-formed heap file (any pages, zero pages, line pointers
in any state and order, trailing partial block) whose stored tuples are the row versions `vers` (each given with
the byte offset of the page that holds it; `hvers` ties both to the file) of schema `cols`: ReadDeletedRows reports
exactly the versions whose own t_infomask says "deleter committed" (HEAP_XMAX_COMMITTED set, HEAP_XMAX_INVALID
clear) — no other version, none missing, in scan order — each with the offset of its page, the length of its data
area, and the row decoded as C03 says. -/
theorem C09_deleted_file (dec : Dec) (cols : List Col) (mcols : List Column) (bs : List Block) (tail : Bytes)
    (vers : List (RowVer × Nat)) (hb : ∀ b ∈ bs, b.WF) (ht : tail.length < 8192)
    (hm : ColsMatch 0 mcols cols) (hne : mcols ≠ [])
    (hvers : fileEntries bs = vers.map fun x => (formVer cols x.1, x.2)) (hwf : ∀ x ∈ vers, x.1.2.WF cols) :
    readDeletedRows dec (encHeap bs tail) mcols =
      collectM (expDeleted dec cols) (vers.filter fun x => deletedBits x.1.2.infomask) := by
  unfold readDeletedRows
  rw [scan_entries bs tail false hb ht]
  simp only [ok_bind, Bool.not_false, Bool.true_or, Rows.filter_true, hvers, List.map_map]
  rw [← Rows.collectM_map (entryOf ∘ fun x : RowVer × Nat => (formVer cols x.1, x.2)) (deletedStep dec mcols) vers,
    collectM_filter_none _ (fun x : RowVer × Nat => deletedBits x.1.2.infomask)]
  · apply collectM_congr
    intro x hx
    obtain ⟨hx, hd⟩ := List.mem_filter.mp hx
    simp only [Function.comp]
    rw [deletedStep_formed dec cols mcols x hm (hwf x hx) hne, if_pos hd]
  · intro x hx hd
    simp only [Function.comp]
    rw [deletedStep_formed dec cols mcols x hm (hwf x hx) hne, if_neg (by simp [hd])]
    rfl

/-- **ReadDeletedRows without a schema.**  For every well-formed heap file — ANY stored tuples, not only formed rows —
and no columns: one entry per stored tuple whose own t_infomask says "deleter committed", in scan order, with the offset
of its page and the length of its data area, and no decoded row. -/
theorem C09_deleted_file_nocols (dec : Dec) (bs : List Block) (tail : Bytes) (hb : ∀ b ∈ bs, b.WF) (ht : tail.length < 8192) :
    (readDeletedRows dec (encHeap bs tail) []).map (fun ds => ds.map fun d => (d.pageOffset, d.data.isNone, d.rawSize)) =
      .ok (((fileEntries bs).filter fun p => deletedBits p.1.infomask).map fun p => (p.2, true, p.1.data.length)) := by
  unfold readDeletedRows
  rw [scan_entries bs tail false hb ht]
  simp only [ok_bind, Bool.not_false, Bool.true_or, Rows.filter_true]
  exact deleted_nocols_full dec (fileEntries bs)

/-- **ReadRowsWithDeleted on a stored file.**  Same files.  Decode every stored version in scan order (`decodeAll`:
a decoder fault on any version is the fault of the call); the first result is then exactly the rows of the
versions whose own hint bits say live (inserter committed, no deleter committed), the second exactly the rows of
the versions whose hint bits say deleter committed — both in scan order, every row as C03 says. -/
theorem C09_withDeleted_file (dec : Dec) (cols : List Col) (mcols : List Column) (bs : List Block) (tail : Bytes)
    (vers : List RowVer) (hb : ∀ b ∈ bs, b.WF) (ht : tail.length < 8192)
    (hm : ColsMatch 0 mcols cols) (hne : mcols ≠ [])
    (hvers : fileTuples bs = vers.map (formVer cols)) (hwf : ∀ v ∈ vers, v.2.WF cols) :
    readRowsWithDeleted dec (encHeap bs tail) mcols =
      (decodeAll (fun v : RowVer => expRow dec cols v.2) vers >>= fun all =>
        pure ((all.filter fun q => liveBits q.1.2.infomask).map (·.2),
              (all.filter fun q => deletedBits q.1.2.infomask).map (·.2))) := by
  obtain ⟨es, hes, hmap⟩ := scan_tuples bs tail false hb ht
  unfold readRowsWithDeleted
  rw [hes]
  simp only [ok_bind]
  have hde : decodedEntries dec mcols es =
      (decodeAll (fun v : RowVer => expRow dec cols v.2) vers >>= fun all =>
        pure (all.map fun q => (mtuple (formVer cols q.1), q.2))) := by
    unfold decodedEntries
    rw [Rows.collectM_map (fun e : TupleEntry => e.tuple)
      (fun t => decodeTuple dec t mcols >>= fun r => pure (r.map fun row => (t, row))) es, hmap]
    simp only [Bool.not_false, Bool.true_or, Rows.filter_true, hvers, List.map_map]
    rw [← Rows.collectM_map (mtuple ∘ formVer cols)
      (fun t => decodeTuple dec t mcols >>= fun r => pure (r.map fun row => (t, row))) vers,
      ← collectM_decodeAll (fun v : RowVer => expRow dec cols v.2) (fun v row => (mtuple (formVer cols v), row)) vers]
    apply collectM_congr
    intro v hv
    simp only [Function.comp, formVer]
    rw [decodeTuple_formed dec cols mcols v.1 v.2 hm (hwf v hv) hne]
    cases expRow dec cols v.2 <;> rfl
  rw [hde]
  cases decodeAll (fun v : RowVer => expRow dec cols v.2) vers with
  | error e => rfl
  | ok all =>
    simp only [ok_bind, pure_eq_ok, List.filter_map, List.map_map]
    congr 2
    · congr 1
      apply List.filter_congr
      intro q _
      simp only [Function.comp, formVer, isVisible_mtuple, liveBits_form]
    · congr 1
      apply List.filter_congr
      intro q _
      simp only [Function.comp, formVer, isVisible_mtuple, isDeleted_mtuple, liveBits_form, deletedBits_form, isDeleted_excl]

/-- **Two byte images of one row decode alike.**  The stored bytes of a row before and after a delete / update
(other xmin / xmax / cid / t_ctid, other t_infomask2 flag bits, other t_infomask hint bits: `h, m` vs `h', m'`),
run through ParseHeapTuple and DecodeTuple, give the same row. -/
theorem C09_recovered_tuple (dec : Dec) (cols : List Col) (mcols : List Column) (h h' : HdrFields) (r : RowV) (m m' : Nat)
    (hh : h.WF) (hh' : h'.WF) (hmk : m < 65536) (hmk' : m' < 65536)
    (hm : ColsMatch 0 mcols cols) (hwf : r.WF cols) (hne : mcols ≠ []) :
    (parseHeapTuple (encTuple (formTupleH h' cols (r.withMask m'))) >>= fun ot =>
        match ot with
        | some t => decodeTuple dec t mcols
        | none => pure none) =
    (parseHeapTuple (encTuple (formTupleH h cols (r.withMask m))) >>= fun ot =>
        match ot with
        | some t => decodeTuple dec t mcols
        | none => pure none) := by
  exact (Props.C03.C03_scanned dec cols mcols h' _ hh' hm (withMask_WF cols r m' hwf hmk') hne).trans
    (Props.C03.C03_scanned dec cols mcols h _ hh hm (withMask_WF cols r m hwf hmk) hne).symm

/-- **Each recovered deleted row decodes to the values it had when it was live.**  Two well-formed files store,
position by position, the same rows `xs` (attribute values and stored attribute count): `before` holds row `x.row`
under header fields `x.hdrB` and t_infomask `x.maskB` (say: live), `after` holds it under `x.hdrA`, `x.maskA` (say:
after a DELETE or UPDATE set xmax, t_ctid, HEAP_XMAX_COMMITTED, HEAP_KEYS_UPDATED / HOT_UPDATED) in the page at
`x.offA`.  The page layouts of the two files are unrelated (pruning may have moved tuples).  If the all-tuples view
of `before` is `all` (one row per stored version, in scan order), then ReadDeletedRows on `after` recovers exactly
the rows `all` has at the positions whose `after` hint bits say "deleter committed": each recovered row equals,
value for value, the row the same stored attributes decoded to in `before`. -/
theorem C09_recovered_file (dec : Dec) (cols : List Col) (mcols : List Column)
    (before after : List Block) (tailB tailA : Bytes) (xs : List Twice) (all : List Row)
    (hbB : ∀ b ∈ before, b.WF) (hbA : ∀ b ∈ after, b.WF) (htB : tailB.length < 8192) (htA : tailA.length < 8192)
    (hm : ColsMatch 0 mcols cols) (hne : mcols ≠ [])
    (hB : fileTuples before = xs.map fun x => formVer cols x.verB)
    (hA : fileEntries after = xs.map fun x => (formVer cols x.verA.1, x.verA.2))
    (hwf : ∀ x ∈ xs, x.row.WF cols ∧ x.maskB < 65536 ∧ x.maskA < 65536)
    (hall : readRows dec (encHeap before tailB) mcols false = .ok all) :
    ∃ ds, readDeletedRows dec (encHeap after tailA) mcols = .ok ds ∧
      ds.map (·.data) = ((xs.zip all).filter fun q => deletedBits q.1.maskA).map fun q => some q.2 := by
  -- the all-tuples view of `before`
  have hB' : fileTuples before = (xs.map Twice.verB).map (formVer cols) := by rw [hB, List.map_map]; rfl
  rw [Props.C03.C03_file dec cols mcols before tailB false (xs.map Twice.verB) hbB htB hm hne hB'
    (by intro v hv
        obtain ⟨x, hx, rfl⟩ := List.mem_map.mp hv
        exact withMask_WF cols x.row x.maskB (hwf x hx).1 (hwf x hx).2.1)] at hall
  simp only [Bool.not_false, Bool.true_or, Rows.filter_true] at hall
  rw [← Rows.collectM_map Twice.verB] at hall
  have hall' : collectM (fun x : Twice => expRow dec cols x.row >>= fun b => pure (some b)) xs = .ok all := by
    rw [← hall]
    apply collectM_congr
    intro x _
    simp only [Twice.verB, RowV.withMask, expRow]
    cases expectedCols (varlenaVal dec) cols x.row.vals x.row.natts <;> rfl
  have hdec := decodeAll_of_collect (fun x : Twice => expRow dec cols x.row) xs all hall'
  -- the deleted view of `after`
  have hA' : fileEntries after = (xs.map Twice.verA).map fun x => (formVer cols x.1, x.2) := by rw [hA, List.map_map]; rfl
  rw [C09_deleted_file dec cols mcols after tailA (xs.map Twice.verA) hbA htA hm hne hA'
    (by intro v hv
        obtain ⟨x, hx, rfl⟩ := List.mem_map.mp hv
        exact withMask_WF cols x.row x.maskA (hwf x hx).1 (hwf x hx).2.2)]
  rw [List.filter_map, ← Rows.collectM_map Twice.verA]
  have hstep : collectM (fun x : Twice => expDeleted dec cols x.verA) (xs.filter ((fun x : RowVer × Nat => deletedBits x.1.2.infomask) ∘ Twice.verA)) =
      collectM (fun x : Twice => expRow dec cols x.row >>= fun row =>
        pure (some (⟨x.offA, some row, x.row.dataLen cols⟩ : DeletedRow))) (xs.filter fun x => deletedBits x.maskA) := rfl
  rw [hstep, collectM_filter_decodeAll (fun x : Twice => expRow dec cols x.row)
    (fun x row => (⟨x.offA, some row, x.row.dataLen cols⟩ : DeletedRow)) (fun x => deletedBits x.maskA) xs _ hdec]
  exact ⟨_, rfl, by simp [List.map_map, Function.comp_def]⟩

/-- non-vacuity of `C09_views`: a file holding one live and one deleted tuple, and what the views are -/
example : ∃ t, parseHeapTuple (zeros 18 ++ le 2 1 ++ le 2 0x0500 ++ [24, 0, 7]) = .ok (some t) ∧
    t.isDeleted = true ∧ t.isVisible = false ∧
    decodeTuple (fun b _ => pure (.int b.length)) t [⟨[97], 16, 1, 1, 99⟩] = .ok (some [([97], .int 1)]) := by
  refine ⟨_, rfl, ?_, ?_, ?_⟩
  · decide
  · decide
  · rfl

/-! ### non-vacuity of the file-level statements: a page holding a live version and the dead version an UPDATE left -/

def exVerCols : List Col := [⟨[97], 23, 4, 4⟩]
def exVerMCols : List Column := [⟨[97], 23, 4, 1, 105⟩]
def exLive : RowVer := ({ xmin := 700 }, { vals := [some (.fixed (le 4 7))], natts := 1, infomask := 0x0900 })
/-- xmax set, t_ctid → (0,1), HOT_UPDATED | KEYS_UPDATED, HEAP_XMIN_COMMITTED | HEAP_XMAX_COMMITTED -/
def exDead : RowVer :=
  ({ xmin := 699, xmax := 700, ctid := [0, 0, 0, 0, 1, 0], flags2 := 12 }, { vals := [some (.fixed (le 4 8))], natts := 1, infomask := 0x0500 })
def exVerPage : Page :=
  { hdr0 := zeros 12, special := 8192, version := 4, prune := 0, lps := [.normal 1, .normal 0], free := zeros 8104,
    slots := [([], formVer exVerCols exLive), ([], formVer exVerCols exDead)], tail := [] }

example : exVerPage.WF ∧ fileEntries [.page exVerPage] = [(exDead, 0), (exLive, 0)].map (fun x => (formVer exVerCols x.1, x.2)) := by
  decide +kernel
example : ColsMatch 0 exVerMCols exVerCols := by simp only [ColsMatch, ColMatch, exVerMCols, exVerCols]; decide
example : exLive.2.WF exVerCols ∧ exDead.2.WF exVerCols := by decide
/-- what `C09_deleted_file` says ReadDeletedRows reports for that page (decoder: "length of the payload") -/
example : collectM (expDeleted (fun b _ => pure (.int b.length)) exVerCols)
    ([(exDead, 0), (exLive, 0)].filter fun x => deletedBits x.1.2.infomask) = .ok [⟨0, some [([97], .int 4)], 4⟩] := by rfl

end PgVerif.Props.C09Rows
