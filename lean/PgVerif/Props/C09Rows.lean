/-
  C09 (rows part) — the row-level views: ReadRows(all / visible only), ReadDeletedRows, ReadRowsWithDeleted.
  Property theorems only; helper lemmas are in Proofs/RowsViews.lean.  (`C09_bits`, `C09_local`,
  `C09_disjoint` on infomasks are in Props/C09.lean; ReadTuplesInRange's switch is area `block`.)
-/
import PgVerif.Proofs.RowsViews
namespace PgVerif.Props.C09Rows
open PgVerif PgVerif.Model PgVerif.Proofs PgVerif.Proofs.Rows

/-- No tuple is both live and deleted, whatever its header flags are (the two predicates the readers
use are mutually exclusive as Boolean functions of the three hint flags). -/
theorem C09_exclusive (t : HeapTuple) : ¬ (t.isVisible = true ∧ t.isDeleted = true) := by
  unfold HeapTuple.isVisible HeapTuple.isDeleted
  cases t.header.xminCommitted <;> cases t.header.xmaxInvalid <;> cases t.header.xmaxCommitted <;> simp

/-- **The views are filters of one list.**  For every byte string `f`, every schema and every scalar decoder:
let `es` be the all-tuples scan and `rs` the list of (tuple, decoded row) pairs of the tuples that decode to a
row.  Then ReadRows(all) returns the rows of `rs` in order; ReadRows(visible only) returns exactly the rows of
the pairs whose tuple satisfies its own `isVisible`; ReadRowsWithDeleted returns that same live list and the
rows of the pairs whose tuple satisfies its own `isDeleted`.  Hence live ⊆ all and deleted ⊆ all as
sub-multisets (they are sub-lists selected by predicates on the tuple alone), and by `C09_exclusive` no pair
is selected by both: the live view and the deleted view are disjoint sub-multisets of the all-tuples view.
(The hypothesis `hrs` only says that the scalar decoder does not fault on these tuples; see C10.) -/
theorem C09_views (dec : Dec) (f : Bytes) (cols : List Column) (es : List TupleEntry) (rs : List (HeapTuple × Row))
    (hes : readTuples f false = .ok es) (hrs : decodedEntries dec cols es = .ok rs) :
    readRows dec f cols false = .ok (rs.map (·.2)) ∧
    readRows dec f cols true = .ok ((rs.filter fun x => x.1.isVisible).map (·.2)) ∧
    readRowsWithDeleted dec f cols =
      .ok ((rs.filter fun x => x.1.isVisible).map (·.2), (rs.filter fun x => x.1.isDeleted).map (·.2)) := by
  refine ⟨?_, ?_, ?_⟩
  · have := collect_filter dec cols (fun _ => true) es rs hrs
    rw [List.filter_eq_self.mpr (fun _ _ => rfl), List.filter_eq_self.mpr (fun _ _ => rfl)] at this
    simp only [readRows, hes, ok_bind]
    exact this
  · have hvis : readTuples f true = .ok (es.filter fun e => e.tuple.isVisible) := by
      have := readTuplesFrom_filter f (f.length / 8192 + 1) 0
      unfold readTuples
      rw [this]
      unfold readTuples at hes
      rw [hes]; rfl
    simp only [readRows, hvis, ok_bind]
    exact collect_filter dec cols (fun t => t.isVisible) es rs hrs
  · simp only [readRowsWithDeleted, hes, ok_bind, hrs, pure_eq_ok]
    congr 2
    apply congrArg
    apply List.filter_congr
    intro x _
    have := C09_exclusive x.1
    cases hv : x.1.isVisible <;> cases hd : x.1.isDeleted <;> simp [hv, hd] at this ⊢

/-- **Deleted-row recovery.**  With a non-empty schema, ReadDeletedRows reports one entry per tuple whose own
`isDeleted` holds (no other tuple, none missing), and their decoded rows are exactly the deleted view of
`C09_views`. -/
theorem C09_deleted (dec : Dec) (f : Bytes) (cols : List Column) (hne : cols ≠ []) (es : List TupleEntry)
    (rs : List (HeapTuple × Row)) (hes : readTuples f false = .ok es) (hrs : decodedEntries dec cols es = .ok rs) :
    ∃ ds, readDeletedRows dec f cols = .ok ds ∧
      ds.filterMap (·.data) = (rs.filter fun x => x.1.isDeleted).map (·.2) ∧
      ds.length = (es.filter fun e => e.tuple.isDeleted).length := by
  obtain ⟨ds, h1, h2, h3⟩ := collect_deleted dec cols hne es rs hrs
  exact ⟨ds, by simp only [readDeletedRows, hes, ok_bind, h1], h2, h3⟩

/-- **A recovered row decodes to the values it had when it was live.**  DecodeTuple does not read the tuple
header at all (xmin/xmax, commit and delete hint bits, natts, t_hoff): a deleted tuple decodes to exactly what
the same bitmap and data bytes decode to under any other header, in particular the header it had before the
delete set its xmax / hint bits. -/
theorem C09_recovered (dec : Dec) (t : HeapTuple) (hdr' : TupleHeader) (cols : List Column) :
    decodeTuple dec { t with header := hdr' } cols = decodeTuple dec t cols :=
  decodeTuple_header dec t.header hdr' t.bitmap t.data cols

/-- non-vacuity of `C09_views`: a file holding one live and one deleted tuple, and what the views are -/
example : ∃ t, parseHeapTuple (zeros 18 ++ le 2 1 ++ le 2 0x0500 ++ [24, 0, 7]) = .ok (some t) ∧
    t.isDeleted = true ∧ t.isVisible = false ∧
    decodeTuple (fun b _ => pure (.int b.length)) t [⟨[97], 16, 1, 1, 99⟩] = .ok (some [([97], .int 1)]) := by
  refine ⟨_, rfl, ?_, ?_, ?_⟩
  · decide
  · decide
  · rfl

end PgVerif.Props.C09Rows
