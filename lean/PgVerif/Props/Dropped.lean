/-
  Area `dropped` — pgdump/dropped.go reports exactly the dropped columns PostgreSQL has (the tree after
  fixes/dropped/01..02).

  As in C01 the model is parametric in the row reader `rr` (heap.go:ReadRows, area `rows`, refinement theorem
  C03_file): the theorems are about dropped.go's own logic — which pg_attribute layout it settles on, which rows
  it reports, what it copies from them, in which order, which schema it decodes the heap with — on top of ANY row
  reader.  The reader hypotheses
    `hread`           under the schema of the database's layout the reader delivers the live pg_attribute rows
                      (the nine fields dropped.go looks at),
    `hb16/hb15/hb12`  under the two other schemas no row shows a legal attalign/attstorage pair,
    `hcrows`          the reader delivers the live pg_class rows (C01's hypothesis; `dropped_find_exact_reader`)
  are equations about association lists keyed by string literals, which the kernel does not evaluate; they are
  re-checked at run time on every database of every generated cluster with the executable reader on the encoded
  catalogs (families `dropped_wf` / `dropped_any`: tags `hyp:attr=ok|FAIL`, `hyp:names=ok|FAIL`; counts are in the
  evidence histogram).  `dropped_schemas_are_layouts` is the static half of `hread`: the schema literals are,
  column by column, PostgreSQL's layouts, so C03_layout applies to them.
-/
import PgVerif.Proofs.Dropped
import PgVerif.Proofs.DroppedNames
import PgVerif.Proofs.Rows
namespace PgVerif.Props.Dropped
open PgVerif PgVerif.Model PgVerif.Spec PgVerif.Proofs.Dropped List
open PgVerif.Proofs.Rows (ColsMatch ColMatch)

/-- **The three schema literals of dropped.go are PostgreSQL's three pg_attribute layouts** (fix 01; the constants are
regenerated from the Go source on every check): column by column — name, type oid, length, and the alignment the
tuple decoder derives for it — the schema the tool uses for layout `l` is the initial segment, up to and including
`attisdropped`, of the specification's `pgAttributeCols l` (PostgreSQL 12–13: 18 columns, 14–15: 19, 16: 18).  So the
tool reads attlen, attnum, attbyval, attalign, attstorage and attisdropped from the bytes where PostgreSQL stores
them (C03_layout: matching columns are decoded from exactly their bytes).  On the tree before fix 01 this theorem does
not hold (there `attisdropped` of the 16 schema is the byte of `attnotnull`). -/
theorem dropped_schemas_are_layouts (l : Layout) :
    ColsMatch 0 (schemaOfLayout l) ((pgAttributeCols l).take (schemaOfLayout l).length) := by
  cases l with
  | v12 =>
    simp only [schemaOfLayout, schemaPGAttrDroppedV12, mkSchema, Generated.Dropped.schemaPGAttrDroppedV12, pgAttributeCols,
      List.map, List.take, List.length, ColsMatch, ColMatch, cOid, cName, cInt2, cInt4, cBool, cChar]
    simp [colAlign, alignFromChar, typeAlign_oid, typeAlign_name, typeAlign_int2, typeAlign_int4, typeAlign_bool, typeAlign_char]
  | v14 =>
    simp only [schemaOfLayout, schemaPGAttrDroppedV15, mkSchema, Generated.Dropped.schemaPGAttrDroppedV15, pgAttributeCols,
      List.map, List.take, List.length, ColsMatch, ColMatch, cOid, cName, cInt2, cInt4, cBool, cChar]
    simp [colAlign, alignFromChar, typeAlign_oid, typeAlign_name, typeAlign_int2, typeAlign_int4, typeAlign_bool, typeAlign_char]
  | v16 =>
    simp only [schemaOfLayout, schemaPGAttrDropped, mkSchema, Generated.Dropped.schemaPGAttrDropped, pgAttributeCols,
      List.map, List.take, List.length, ColsMatch, ColMatch, cOid, cName, cInt2, cInt4, cBool, cChar]
    simp [colAlign, alignFromChar, typeAlign_oid, typeAlign_name, typeAlign_int2, typeAlign_int4, typeAlign_bool, typeAlign_char]

/-- … and each ends with `attisdropped` -/
theorem dropped_schemas_end_with_attisdropped (l : Layout) :
    ((schemaOfLayout l).getLast?.map (·.name)) = some (strBytes "attisdropped") := by
  cases l <;> rfl

/-- **Every dropped attribute of every relation, exactly the specification's list.**
Let `d` be the content of a database whose pg_attribute is stored in layout `l` (PostgreSQL 12–13, 14–15 or 16),
every live attribute row being one PostgreSQL writes (`DroppedWF`: a legal attstorage; a dropped attribute has
atttypid 0, NOT NULL cleared, attnum > 0 and the name `........pg.dropped.<attnum>........`; attalign one of
c/s/i/d).  If the row reader, under the schema of layout `l`, delivers the live pg_attribute rows of `d` (as far as
the nine fields dropped.go looks at go), and under the two other schemas delivers no row with a legal
attalign/attstorage pair, then for every byte string `data` so read and every name table that names the relations
as the specification does, parseDroppedColumns returns exactly `Spec.expectedDropped d`: one entry per live
pg_attribute row with attisdropped and attnum > 0 — dead row versions (the column's row before the drop) and
system attributes ignored, NOT NULL columns not mistaken for dropped ones — each with the relation oid, attnum,
PostgreSQL's placeholder name, `dropped_<attnum>` as recovered name, type oid 0, and the attlen, attalign and
attbyval of the old type, ordered by relation oid and attnum.  (The printed type NAME is outside the comparison:
PostgreSQL has no type for oid 0.) -/
theorem dropped_columns_exact (rr : RowReader) (data : Bytes) (l : Layout) (d : DbContent) (names : List (Nat × Bytes))
    (r16 r15 r12 : List Row)
    (h16 : rr data schemaPGAttrDropped true = .ok r16) (h15 : rr data schemaPGAttrDroppedV15 true = .ok r15)
    (h12 : rr data schemaPGAttrDroppedV12 true = .ok r12)
    (hread : (rowsOfLayout l r16 r15 r12).map factsOfRow = d.att.live.map factsOfAttr)
    (hb16 : l ≠ .v16 → drAttrScore r16 = 0) (hb15 : l ≠ .v14 → drAttrScore r15 = 0) (hb12 : l ≠ .v12 → drAttrScore r12 = 0)
    (hwf : ∀ a ∈ d.att.live, a.DroppedWF ∧ AlignOK a)
    (hnames : ∀ a ∈ d.att.live, (mapGet names a.relid).getD [] = drRelNameOf d a.relid) :
    ∃ r, parseDroppedColumns rr data names = .ok r ∧
         r.map eraseTypeName = (expectedDropped d).map eraseTypeName := by
  have hsel := readAttrRows_select rr data l r16 r15 r12 h16 h15 h12
    (plausible_of_read _ _ hread hwf) hb16 hb15 hb12
  refine ⟨_, by simp only [parseDroppedColumns, hsel, ok_bind, pure_eq_ok]; rfl, ?_⟩
  rw [filterMap_droppedOfRow names _ _ hread hwf, drSortByRelNum_eq, drSortDropped_erase]
  unfold expectedDropped
  rw [drSortDropped_erase]
  congr 1
  rw [List.map_map, List.map_map]
  apply List.map_congr_left
  intro a ha
  have hal := (List.mem_filter.mp ha).1
  show eraseTypeName (modelInfo names a) = eraseTypeName (droppedInfo d a)
  unfold modelInfo droppedInfo eraseTypeName
  rw [hnames a hal]

/-- **Exactly once.**  Under the same hypotheses and PostgreSQL's uniqueness of (attrelid, attnum) among the live
rows: for every live dropped attribute `a` with attnum > 0 the result holds exactly one entry with `a`'s relation oid
and attnum, and it carries `a`'s attnum, attlen, attalign and attbyval. -/
theorem dropped_columns_once (rr : RowReader) (data : Bytes) (l : Layout) (d : DbContent) (names : List (Nat × Bytes))
    (r16 r15 r12 : List Row)
    (h16 : rr data schemaPGAttrDropped true = .ok r16) (h15 : rr data schemaPGAttrDroppedV15 true = .ok r15)
    (h12 : rr data schemaPGAttrDroppedV12 true = .ok r12)
    (hread : (rowsOfLayout l r16 r15 r12).map factsOfRow = d.att.live.map factsOfAttr)
    (hb16 : l ≠ .v16 → drAttrScore r16 = 0) (hb15 : l ≠ .v14 → drAttrScore r15 = 0) (hb12 : l ≠ .v12 → drAttrScore r12 = 0)
    (hwf : ∀ a ∈ d.att.live, a.DroppedWF ∧ AlignOK a)
    (hnames : ∀ a ∈ d.att.live, (mapGet names a.relid).getD [] = drRelNameOf d a.relid)
    (hnd : (d.att.live.map fun a => (a.relid, a.num)).Nodup)
    (a : AttrRow) (ha : a ∈ d.att.live) (hdrop : a.dropped = true) (hnum : 0 < a.num) :
    ∃ r, parseDroppedColumns rr data names = .ok r ∧
         (r.filter fun c => c.relOID == a.relid && c.attNum == a.num).map eraseTypeName = [eraseTypeName (droppedInfo d a)] := by
  obtain ⟨r, hr, heq⟩ := dropped_columns_exact rr data l d names r16 r15 r12 h16 h15 h12 hread hb16 hb15 hb12 hwf hnames
  refine ⟨r, hr, ?_⟩
  have hkey : ∀ (l : List DroppedColumnInfo),
      (l.filter fun c => c.relOID == a.relid && c.attNum == a.num).map eraseTypeName =
      (l.map eraseTypeName).filter fun c => c.relOID == a.relid && c.attNum == a.num := by
    intro l; rw [List.filter_map]; rfl
  rw [hkey, heq, ← hkey]
  -- the specification's list is a rearrangement of the live dropped attributes
  have hperm : expectedDropped d ~ (d.att.live.filter fun a => a.dropped && decide (a.num > 0)).map (droppedInfo d) :=
    drSortDropped_perm _
  have hfp := (hperm.filter fun c => c.relOID == a.relid && c.attNum == a.num)
  have hsingle : ((d.att.live.filter fun a => a.dropped && decide (a.num > 0)).map (droppedInfo d)).filter
      (fun c => c.relOID == a.relid && c.attNum == a.num) = [droppedInfo d a] := by
    rw [List.filter_map, List.filter_filter]
    have : (d.att.live.filter fun x => ((fun c : DroppedColumnInfo => c.relOID == a.relid && c.attNum == a.num) ∘ droppedInfo d) x &&
        (x.dropped && decide (x.num > 0))) = [a] := by
      apply filter_key_singleton d.att.live a ha hnd
      · simp [droppedInfo, hdrop, hnum]
      · intro x hx
        simp only [Function.comp, droppedInfo, Bool.and_eq_true, beq_iff_eq] at hx
        exact hx.1
    rw [this]; rfl
  rw [hsingle] at hfp
  rw [List.perm_singleton.mp hfp]
  rfl
where
  /-- in a list with pairwise distinct (relid, num) keys, a filter that accepts `a` and only elements with `a`'s key
  keeps exactly `a` -/
  filter_key_singleton (l : List AttrRow) (a : AttrRow) (ha : a ∈ l) (hnd : (l.map fun a => (a.relid, a.num)).Nodup)
      {p : AttrRow → Bool} (hpa : p a = true) (hp : ∀ x, p x = true → x.relid = a.relid ∧ x.num = a.num) :
      l.filter p = [a] := by
    induction l with
    | nil => cases ha
    | cons b bs ih =>
      simp only [List.map_cons, List.nodup_cons] at hnd
      by_cases hb : b = a
      · subst hb
        have hrest : bs.filter p = [] := by
          rw [List.filter_eq_nil_iff]
          intro x hx hpx
          obtain ⟨h1, h2⟩ := hp x hpx
          exact hnd.1 (List.mem_map.mpr ⟨x, hx, by rw [h1, h2]⟩)
        simp [hpa, hrest]
      · have ha' : a ∈ bs := by
          rcases List.mem_cons.mp ha with h | h
          · exact absurd h.symm hb
          · exact h
        have hpb : p b = false := by
          cases hpb : p b with
          | false => rfl
          | true =>
            obtain ⟨h1, h2⟩ := hp b hpb
            exact absurd (List.mem_map.mpr ⟨a, ha', by rw [h1, h2]⟩) hnd.1
        simp [hpb, ih ha' hnd.2]

/-- **The exported entry point.**  FindDroppedColumns on a file tree in which `global/1262` lists the database and
`base/<oid>/1249`, `base/<oid>/1259` are its catalogs returns — under the hypotheses of `dropped_columns_exact` for
the pg_attribute file, and with the relation names ParsePGClass yields — the database name, the number of dropped
columns PostgreSQL has there, and exactly the specification's list; for every iteration order of Go's table map. -/
theorem dropped_find_exact (rr : RowReader) (π : MapOrder TableInfo) (fs : Bytes → Option Bytes) (dbName : Bytes)
    (dbData attrData classData : Bytes) (dbs : List DatabaseInfo) (db : DatabaseInfo) (tables : List (Nat × TableInfo))
    (l : Layout) (d : DbContent) (r16 r15 r12 : List Row)
    (hfs : fs pathGlobal1262 = some dbData) (hdbs : parsePGDatabase rr dbData = .ok dbs) (hdb : drFindDb dbs dbName = some db)
    (hatt : fs (basePath db.oid 1249) = some attrData) (hcls : fs (basePath db.oid 1259) = some classData)
    (htab : parsePGClass rr classData = .ok tables)
    (h16 : rr attrData schemaPGAttrDropped true = .ok r16) (h15 : rr attrData schemaPGAttrDroppedV15 true = .ok r15)
    (h12 : rr attrData schemaPGAttrDroppedV12 true = .ok r12)
    (hread : (rowsOfLayout l r16 r15 r12).map factsOfRow = d.att.live.map factsOfAttr)
    (hb16 : l ≠ .v16 → drAttrScore r16 = 0) (hb15 : l ≠ .v14 → drAttrScore r15 = 0) (hb12 : l ≠ .v12 → drAttrScore r12 = 0)
    (hwf : ∀ a ∈ d.att.live, a.DroppedWF ∧ AlignOK a)
    (hnames : ∀ a ∈ d.att.live, (mapGet (drTableNamesOf π tables) a.relid).getD [] = drRelNameOf d a.relid) :
    ∃ res, findDroppedColumns rr π fs dbName = .ok (some res) ∧ res.database = dbName ∧
           res.droppedCount = (expectedDropped d).length ∧
           res.columns.map eraseTypeName = (expectedDropped d).map eraseTypeName := by
  obtain ⟨r, hr, heq⟩ := dropped_columns_exact rr attrData l d (drTableNamesOf π tables) r16 r15 r12 h16 h15 h12 hread
    hb16 hb15 hb12 hwf hnames
  refine ⟨{ database := dbName, droppedCount := r.length, columns := r }, ?_, rfl, ?_, heq⟩
  · simp only [findDroppedColumns, hfs, hdbs, hdb, hatt, hcls, htab, hr, ok_bind, pure_eq_ok]
  · show r.length = _
    rw [← List.length_map (f := eraseTypeName), heq, List.length_map]

/-- **FindDroppedColumns end to end, relative to the row reader only.**  For a database content `d` (live pg_class rows
with pairwise distinct oids, those with storage with pairwise distinct filenodes; live pg_attribute rows as PostgreSQL
writes them, stored in layout `l`): if the reader delivers the live pg_class rows for the pg_class file (C01's
hypothesis) and the live pg_attribute rows for the pg_attribute file under layout `l`'s schema (and nothing plausible
under the two other schemas), FindDroppedColumns returns the database name, the number of dropped columns and exactly
`Spec.expectedDropped d` — relation names included — for every iteration order of Go's table map. -/
theorem dropped_find_exact_reader (rr : RowReader) (π : MapOrder TableInfo) (hπ : ∀ l, π l ~ l) (fs : Bytes → Option Bytes)
    (dbName : Bytes) (dbData attrData classData : Bytes) (dbs : List DatabaseInfo) (db : DatabaseInfo)
    (l : Layout) (d : DbContent) (crows r16 r15 r12 : List Row)
    (hfs : fs pathGlobal1262 = some dbData) (hdbs : parsePGDatabase rr dbData = .ok dbs) (hdb : drFindDb dbs dbName = some db)
    (hatt : fs (basePath db.oid 1249) = some attrData) (hcls : fs (basePath db.oid 1259) = some classData)
    (hcr : rr classData schemaPGClass true = .ok crows) (hcrows : crows.map infoOfRow = d.cls.live.map infoOfRel)
    (hfn : ((d.cls.live.filter (·.filenode != 0)).map (·.filenode)).Nodup) (hoid : (d.cls.live.map (·.oid)).Nodup)
    (h16 : rr attrData schemaPGAttrDropped true = .ok r16) (h15 : rr attrData schemaPGAttrDroppedV15 true = .ok r15)
    (h12 : rr attrData schemaPGAttrDroppedV12 true = .ok r12)
    (hread : (rowsOfLayout l r16 r15 r12).map factsOfRow = d.att.live.map factsOfAttr)
    (hb16 : l ≠ .v16 → drAttrScore r16 = 0) (hb15 : l ≠ .v14 → drAttrScore r15 = 0) (hb12 : l ≠ .v12 → drAttrScore r12 = 0)
    (hwf : ∀ a ∈ d.att.live, a.DroppedWF ∧ AlignOK a) :
    ∃ res, findDroppedColumns rr π fs dbName = .ok (some res) ∧ res.database = dbName ∧
           res.droppedCount = (expectedDropped d).length ∧
           res.columns.map eraseTypeName = (expectedDropped d).map eraseTypeName := by
  obtain ⟨tables, htab, hnames⟩ := tableNames_exact rr π hπ classData crows d hcr hcrows hfn hoid
  exact dropped_find_exact rr π fs dbName dbData attrData classData dbs db tables l d r16 r15 r12 hfs hdbs hdb hatt hcls
    htab h16 h15 h12 hread hb16 hb15 hb12 hwf (fun a _ => hnames a.relid)

/-- **The recovery schema.**  Under the reader hypotheses of `dropped_columns_exact`, distinct (attrelid, attnum)
among the live rows and non-empty attribute names: for every relation oid, parseAllAttributes followed by
buildColumnsWithDropped — what GetDroppedColumnSchema returns and what RecoverDroppedColumnData decodes the heap
with — is exactly the specification's schema (`Spec.expectedSchema`): all live attributes of the relation with
attnum > 0 in attnum order, dropped ones included under `dropped_<attnum>`, live ones under their own names, each
with its type oid (0 for a dropped one), attlen, attnum and the attalign byte PostgreSQL stored — so a row written
before the drop is walked with the lengths and alignments it was formed with (C03). -/
theorem dropped_schema_exact (rr : RowReader) (data : Bytes) (l : Layout) (d : DbContent) (relOID : Nat)
    (r16 r15 r12 : List Row)
    (h16 : rr data schemaPGAttrDropped true = .ok r16) (h15 : rr data schemaPGAttrDroppedV15 true = .ok r15)
    (h12 : rr data schemaPGAttrDroppedV12 true = .ok r12)
    (hread : (rowsOfLayout l r16 r15 r12).map factsOfRow = d.att.live.map factsOfAttr)
    (hb16 : l ≠ .v16 → drAttrScore r16 = 0) (hb15 : l ≠ .v14 → drAttrScore r15 = 0) (hb12 : l ≠ .v12 → drAttrScore r12 = 0)
    (hwf : ∀ a ∈ d.att.live, a.DroppedWF ∧ AlignOK a) (hname : ∀ a ∈ d.att.live, a.name ≠ [])
    (hnd : (d.att.live.map fun a => (a.relid, a.num)).Nodup) :
    ∃ r, parseAllAttributes rr data relOID = .ok r ∧
         buildColumnsWithDropped r = (userAttrs d.att relOID).map (columnOf ∘ droppedSchemaCol) := by
  have hsel := readAttrRows_select rr data l r16 r15 r12 h16 h15 h12
    (plausible_of_read _ _ hread hwf) hb16 hb15 hb12
  refine ⟨_, by simp only [parseAllAttributes, hsel, ok_bind, pure_eq_ok]; rfl, ?_⟩
  rw [filterMap_attrOfRow relOID _ _ hread (fun a ha => (hwf a ha).2),
    drSortByAttNum_map _ (nums_nodup_of_rel _ relOID hnd)]
  unfold userAttrs
  apply buildColumns_map
  intro a ha
  have := (sortAttrs_perm _).mem_iff.mp ha
  exact hname a (List.mem_filter.mp this).1

/-- **Recovering the values.**  RecoverDroppedColumnData on a file tree with the database, its catalogs and the
table's heap file: under the hypotheses of `dropped_schema_exact`, if attribute number `attNum` is attribute `a` of
the table, the function hands the row reader the heap file together with exactly the specification's recovery
schema, and returns the reader's rows unchanged, for each row the entry `dropped_<attNum>` of that row (NULL when
the row has none) as the recovered value, and `a`'s description.  What the reader returns for a well-formed heap
under that schema is C03_file's business (area `rows`): each live row with every stored value — in particular the
value a row written before the drop still holds for the dropped column, and NULL for rows written later. -/
theorem dropped_recover_exact (rr : RowReader) (π : MapOrder TableInfo) (fs : Bytes → Option Bytes)
    (dbName tableName : Bytes) (attNum : Int)
    (dbData attrData classData tableData : Bytes) (dbs : List DatabaseInfo) (db : DatabaseInfo)
    (tables : List (Nat × TableInfo)) (t : TableInfo) (l : Layout) (d : DbContent) (r16 r15 r12 : List Row)
    (a : AttrRow) (rows : List Row)
    (hfs : fs pathGlobal1262 = some dbData) (hdbs : parsePGDatabase rr dbData = .ok dbs) (hdb : drFindDb dbs dbName = some db)
    (hcls : fs (basePath db.oid 1259) = some classData) (htab : parsePGClass rr classData = .ok tables)
    (ht : drFindTable π tables tableName = some t)
    (hatt : fs (basePath db.oid 1249) = some attrData)
    (h16 : rr attrData schemaPGAttrDropped true = .ok r16) (h15 : rr attrData schemaPGAttrDroppedV15 true = .ok r15)
    (h12 : rr attrData schemaPGAttrDroppedV12 true = .ok r12)
    (hread : (rowsOfLayout l r16 r15 r12).map factsOfRow = d.att.live.map factsOfAttr)
    (hb16 : l ≠ .v16 → drAttrScore r16 = 0) (hb15 : l ≠ .v14 → drAttrScore r15 = 0) (hb12 : l ≠ .v12 → drAttrScore r12 = 0)
    (hwf : ∀ a ∈ d.att.live, a.DroppedWF ∧ AlignOK a) (hname : ∀ a ∈ d.att.live, a.name ≠ [])
    (hnd : (d.att.live.map fun a => (a.relid, a.num)).Nodup)
    (ha : (userAttrs d.att t.oid).find? (fun x => x.num == attNum) = some a)
    (hheap : fs (basePath db.oid t.filenode) = some tableData)
    (hrows : rr tableData ((userAttrs d.att t.oid).map (columnOf ∘ droppedSchemaCol)) true = .ok rows) :
    ∃ res, recoverDroppedColumnData rr π fs dbName tableName attNum = .ok (some res) ∧
           res.rows = rows ∧
           res.values = rows.map (fun row => (row.lookup (droppedPrefix ++ drDecInt attNum)).getD .nil) ∧
           eraseTypeName res.column = eraseTypeName (drAttrInfo a) := by
  have hsel := readAttrRows_select rr attrData l r16 r15 r12 h16 h15 h12
    (plausible_of_read _ _ hread hwf) hb16 hb15 hb12
  have hall : parseAllAttributes rr attrData t.oid = .ok ((userAttrs d.att t.oid).map modelAttr) := by
    simp only [parseAllAttributes, hsel, ok_bind, pure_eq_ok]
    rw [filterMap_attrOfRow t.oid _ _ hread (fun a ha => (hwf a ha).2),
      drSortByAttNum_map _ (nums_nodup_of_rel _ t.oid hnd)]
    rfl
  have hcols : buildColumnsWithDropped ((userAttrs d.att t.oid).map modelAttr) =
      (userAttrs d.att t.oid).map (columnOf ∘ droppedSchemaCol) := by
    apply buildColumns_map
    intro x hx
    have := (sortAttrs_perm _).mem_iff.mp hx
    exact hname x (List.mem_filter.mp this).1
  have hfind : ((userAttrs d.att t.oid).map modelAttr).find? (fun c => c.attNum == attNum) = some (modelAttr a) := by
    rw [List.find?_map]
    have : ((fun c : DroppedColumnInfo => c.attNum == attNum) ∘ modelAttr) = fun x : AttrRow => x.num == attNum := rfl
    rw [this, ha]; rfl
  refine ⟨{ column := modelAttr a, values := rows.map fun row => (row.lookup (droppedKey attNum)).getD .nil, rows := rows },
    ?_, rfl, rfl, ?_⟩
  · simp only [recoverDroppedColumnData, hfs, hdbs, hdb, hcls, htab, ht, hatt, hall, hfind, hheap, hcols, hrows,
      ok_bind, pure_eq_ok]
  · show eraseTypeName (modelAttr a) = eraseTypeName (drAttrInfo a)
    unfold modelAttr drAttrInfo eraseTypeName drRecoveredName droppedKey
    rfl

/-- the decidable side conditions hold on a small pg_attribute (a NOT NULL column, a dropped text column whose dead
pre-drop row version is still there, a system attribute).  The reader hypotheses are equations between association
lists keyed by string literals, which the kernel does not evaluate; they are re-checked at run time on every
generated cluster (family `dropped_wf`: tag `hyp:attr=ok` when `Model.readRows` applied to the encoded pg_attribute
satisfies `hread`, `hb16`, `hb15`, `hb12`; counts are in the evidence histogram). -/
example :
    let att : HeapOf AttrRow :=
      [[⟨{ relid := 16384, name := [105, 100], typid := 23, len := 4, num := 1, align := 4, notnull := true }, 0x0900⟩,
        ⟨{ relid := 16384, name := [115], typid := 25, len := -1, num := 2, align := 4, storage := 120 }, 0x0500⟩,
        ⟨{ relid := 16384, name := pgDroppedName 2, typid := 0, len := -1, num := 2, align := 4, storage := 120, dropped := true }, 0x0900⟩,
        ⟨{ relid := 16384, name := [120], typid := 28, len := 4, num := -2, align := 4 }, 0x0900⟩]]
    (∀ a ∈ att.live, a.DroppedWF ∧ AlignOK a) ∧ (att.live.map fun a => (a.relid, a.num)).Nodup ∧
    (att.live.filter fun a => a.dropped && decide (a.num > 0)).length = 1 := by
  refine ⟨by decide, by decide, by decide⟩

end PgVerif.Props.Dropped

#print axioms PgVerif.Props.Dropped.dropped_columns_exact
#print axioms PgVerif.Props.Dropped.dropped_columns_once
#print axioms PgVerif.Props.Dropped.dropped_find_exact
#print axioms PgVerif.Props.Dropped.dropped_find_exact_reader
#print axioms PgVerif.Props.Dropped.dropped_schema_exact
#print axioms PgVerif.Props.Dropped.dropped_recover_exact
#print axioms PgVerif.Props.Dropped.dropped_schemas_are_layouts
