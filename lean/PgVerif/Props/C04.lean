/-
  C04 — scalar values decode to the value PostgreSQL stored; type names.
  Property theorems only; helper lemmas are in Proofs/Scalars*.lean.
-/
import PgVerif.Model.Scalars
import PgVerif.Spec.Scalars
namespace PgVerif.Props.C04
open PgVerif PgVerif.Model.Scalars PgVerif.Spec.Scalars PgVerif.Txt

/-- For every supported type oid, TypeName (its graph on 0..5000 is generated from the code by
executing it) returns PostgreSQL's name of that type. -/
theorem C04_typeName : ∀ e ∈ pgTypeNames, typeName e.1 = asc e.2 := by decide

/-- Conversely, every oid in 0..5000 to which TypeName gives a name (rather than `oid:<n>`) is a
supported type and the name is PostgreSQL's: the tool never shows a wrong type name. -/
theorem C04_typeName_only : ∀ e ∈ Generated.Scalars.typeNames, ∃ p ∈ pgTypeNames, p.1 = e.1 ∧ asc p.2 = e.2 := by decide

end PgVerif.Props.C04
