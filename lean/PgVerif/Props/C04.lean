/-
  C04 — scalar values decode to the value PostgreSQL stored; type names.
  Property theorems only; helper lemmas are in Proofs/ScalarsRT.lean (and ScalarsCal / ScalarsRange / ScalarsFrac /
  ScalarsJsonParse / TxtNumerals).

  Shape of every per-type theorem: for every well-formed abstract value `v` of the type (Spec.Scalars:
  `Val`, `WF` = valid stored value in the type's common range), running the model of DecodeType on
  PostgreSQL's stored representation `enc v` under the type's oid returns exactly `view v`, the value a
  correct tool must show.  `ext` (the decoders of other areas and `encoding/json`) is arbitrary, except in `C04_json`.

  Which types have what (the file has one round-trip theorem per type or type group, not "41, one per type"):
   * full round trip, every well-formed value: bool, "char", name, int2, int4, int8, oid, xid, cid, float4, float8 (bit
     pattern passed through), money (all of int64), text / varchar / bpchar / xml (non-empty valid UTF-8), bytea
     (non-empty), bit / varbit (every length), date, timestamp, timestamptz (years 0001..9999 and ±infinity, microsecond
     resolution), time, timetz (every zone −15:59:59..+15:59:59, microseconds), interval (int32 × int32 × int64,
     microseconds), uuid, macaddr, macaddr8, inet / cidr (v4, v6, every prefix length), point, lseg, box, line, circle
     (floats as bit patterns: `%g` is not modelled, the harness parses the text back), int4range, int8range, daterange,
     tsrange, tstzrange (all 32 flag bytes), json (`C04_json`: with the documented behaviour of encoding/json.Unmarshal,
     `Model.ScalarsJsonLib`, as the library);
     path, polygon (`C04_path`, `C04_polygon`: every stored value, A17 repaired by fixes/scalars/14; `C04_path_layouts`: the
     send/recv fallback never fires on a stored value), numrange (`C04_numrange`: every flag byte, every well-formed numeric
     bound incl. NaN / ±Infinity, both varlena header forms with the alignment padding, A16 repaired by fixes/scalars/15;
     with the numeric decoder of area numjson as `ext.decodeNumeric` and the ParseFloat contract of C05);
   * partial, because a recorded finding carves out the rest (explicit hypothesis, concrete counter-example theorem):
     tid (A11: only block numbers whose 16-bit halves are equal — among blocks 0..65535 that is block 0 only),
     pg_lsn (A10: only LSNs whose 32-bit halves are equal);
   * type names: `C04_typeName` / `C04_typeName_only` for the 51 scalar type oids and `C04_typeName_arrays` for the 51 array
     type oids (finding ARRNAME, repaired by fixes/scalars/13).
  Text renderings: the Spec's view is written from PostgreSQL's output formats and value definitions (see the header of
  Spec/Scalars.lean for what is its own and what it shares with the model: only the numeral library `PgVerif.Txt`, whose
  functions are characterised independently — `C04_numerals`).
-/
import PgVerif.Proofs.ScalarsRT
import PgVerif.Proofs.ScalarsBits
import PgVerif.Proofs.ScalarsTime
import PgVerif.Proofs.ScalarsRange
import PgVerif.Proofs.ScalarsMoney
import PgVerif.Proofs.ScalarsFrac
import PgVerif.Proofs.TxtNumerals
import PgVerif.Proofs.ScalarsJsonParse
import PgVerif.Proofs.ScalarsPath
import PgVerif.Proofs.ScalarsNumRange
namespace PgVerif.Props.C04
open PgVerif PgVerif.Model.Scalars PgVerif.Spec.Scalars PgVerif.Txt PgVerif.Proofs.ScalarsRT

/-- the round-trip statement for one abstract value -/
def RoundTrip (ext : Ext) (v : Val) : Prop := decodeType ext (enc v) v.typeOid = .ok (view v)

/-! ### type names -/

/-- For every supported type oid, TypeName (its graph on 0..5000 is generated from the code by
executing it) returns PostgreSQL's name of that type. -/
theorem C04_typeName : ∀ e ∈ pgTypeNames, typeName e.1 = asc e.2 := by decide

/-- Conversely, every oid in 0..5000 to which TypeName gives a name (rather than `oid:<n>`) is a
supported type and the name is PostgreSQL's: the tool never shows a wrong type name. -/
theorem C04_typeName_only : ∀ e ∈ Generated.Scalars.typeNames, ∃ p ∈ pgTypeNames ++ pgArrayTypeNames, p.1 = e.1 ∧ asc p.2 = e.2 := by decide +kernel

/-- Array types (finding ARRNAME, repaired by fixes/scalars/13): for every one of the 51 array types whose values DecodeType
decodes (the keys of `arrayElemTypes`, which are exactly the oids of `Spec.pgArrayTypeNames`), TypeName answers PostgreSQL's
pg_type.typname, `_` followed by the element type's name (`_int4`, `_text`, `_regproc` for 1008, `_int2vector` for 1006). -/
theorem C04_typeName_arrays :
    (∀ e ∈ pgArrayTypeNames, typeName e.1 = asc e.2) ∧
    (∀ e ∈ pgArrayTypeNames, (arrayElemTypes.lookup e.1).isSome = true) ∧
    (∀ p ∈ arrayElemTypes, (pgArrayTypeNames.lookup p.1).isSome = true) := by
  refine ⟨by decide, by decide, by decide⟩

/-! ### the numerals every text view is made of -/

/-- The numeral functions shared by the Spec's views and the model (`PgVerif.Txt`) are what their names say, by
characterisations that do not mention them (Proofs/TxtNumerals.lean: `decVal` / `hexVal` read a digit string most
significant digit first): `decNat n` is the decimal numeral of value `n` without leading zero, and the only one;
`padNat w n` is the only string of exactly `w` decimal digits with value `n` (for n < 10^w); `decInt` is injective;
`hexNat u n` is the hexadecimal numeral of `n` in the given case, without leading zero, the only one; `hexPad w n` the only
`w`-digit one; `hexBytes` is two hexadecimal digits per byte and injective.  A wrong numeral function could therefore not
satisfy the round-trip theorems of this file unnoticed. -/
theorem C04_numerals :
    (∀ n, Proofs.TxtNumerals.decVal (decNat n) = some n) ∧
    (∀ n s, Proofs.TxtNumerals.decVal s = some n → (s = [48] ∨ s.head? ≠ some 48) → s = decNat n) ∧
    (∀ w n s, s.length = w → 0 < w → Proofs.TxtNumerals.decVal s = some n → s = padNat w n) ∧
    (∀ w n, n < 10 ^ w → 0 < w → (padNat w n).length = w ∧ Proofs.TxtNumerals.decVal (padNat w n) = some n) ∧
    (∀ a b : Int, decInt a = decInt b → a = b) ∧
    (∀ u n, Proofs.TxtNumerals.hexVal u (hexNat u n) = some n) ∧
    (∀ u n s, Proofs.TxtNumerals.hexVal u s = some n → (s = [48] ∨ s.head? ≠ some 48) → s = hexNat u n) ∧
    (∀ w n s, s.length = w → 0 < w → Proofs.TxtNumerals.hexVal false s = some n → s = hexPad w n) ∧
    (∀ bs, (hexBytes bs).length = 2 * bs.length) ∧
    (∀ a b, hexBytes a = hexBytes b → a = b) :=
  ⟨Proofs.TxtNumerals.decNat_val, Proofs.TxtNumerals.decNat_unique,
   fun w n s h1 h2 h3 => Proofs.TxtNumerals.padNat_unique w n s h1 h2 h3,
   fun w n h hw => ⟨Proofs.TxtNumerals.padNat_of_lt w n h hw, Proofs.TxtNumerals.padNat_val w n⟩,
   Proofs.TxtNumerals.decInt_injective, Proofs.TxtNumerals.hexNat_val, Proofs.TxtNumerals.hexNat_unique,
   fun w n s h1 h2 h3 => Proofs.TxtNumerals.hexPad_unique w n s h1 h2 h3,
   Proofs.TxtNumerals.hexBytes_length, Proofs.TxtNumerals.hexBytes_injective⟩

/-! ### bool, "char", integers, oid / xid / cid, floats -/

/-- bool: both stored bytes decode to the stored truth value. -/
theorem C04_bool (ext : Ext) (b : Bool) : RoundTrip ext (.bool b) := by
  cases b <;> rfl

/-- "char": every byte value is shown as that byte. -/
theorem C04_char (ext : Ext) (c : UInt8) : RoundTrip ext (.char c) := by
  show decodeType ext [c] 18 = _
  rw [decodeType_18 ext [c] (by simp)]
  rfl

/-- int2: every value −32768..32767 decodes to itself. -/
theorem C04_int2 (ext : Ext) (i : Int) (h : (Val.int2 i).WF) : RoundTrip ext (.int2 i) := by
  show decodeType ext (le 2 (ofSigned 16 i)) 21 = .ok (.int i)
  rw [decodeType_21 ext _ (by simp)]
  simp only [decInt2, i16, uN_le1 2 _ (ofSigned_lt 16 i), ok_bind, pure_eq_ok]
  rw [toSigned_ofSigned16 i h]

/-- int4: every value −2³¹..2³¹−1 decodes to itself. -/
theorem C04_int4 (ext : Ext) (i : Int) (h : (Val.int4 i).WF) : RoundTrip ext (.int4 i) := by
  show decodeType ext (le 4 (ofSigned 32 i)) 23 = .ok (.int i)
  rw [decodeType_23 ext _ (by simp)]
  simp only [decInt4, i32, uN_le1 4 _ (ofSigned_lt 32 i), ok_bind, pure_eq_ok]
  rw [toSigned_ofSigned32 i h]

/-- int8: every value −2⁶³..2⁶³−1 decodes to itself. -/
theorem C04_int8 (ext : Ext) (i : Int) (h : (Val.int8 i).WF) : RoundTrip ext (.int8 i) := by
  show decodeType ext (le 8 (ofSigned 64 i)) 20 = .ok (.int i)
  rw [decodeType_20 ext _ (by simp)]
  simp only [decInt8, i64, uN_le1 8 _ (ofSigned_lt 64 i), ok_bind, pure_eq_ok]
  rw [toSigned_ofSigned64 i h]

/-- oid: every value 0..2³²−1 decodes to itself (unsigned). -/
theorem C04_oid (ext : Ext) (n : Nat) (h : (Val.oid n).WF) : RoundTrip ext (.oid n) := by
  have hn : n < 256 ^ 4 := by simpa [Val.WF, Val.wf] using h
  show decodeType ext (le 4 n) 26 = .ok (.int n)
  rw [decodeType_26 ext _ (by simp)]
  simp only [decU32, u32, uN_le1 4 n hn, ok_bind, pure_eq_ok]

/-- xid: every transaction id 0..2³²−1 decodes to itself, unsigned (A08 repaired: 3000000000 is not −1294967296). -/
theorem C04_xid (ext : Ext) (n : Nat) (h : (Val.xid n).WF) : RoundTrip ext (.xid n) := by
  have hn : n < 256 ^ 4 := by simpa [Val.WF, Val.wf] using h
  show decodeType ext (le 4 n) 28 = .ok (.int n)
  rw [decodeType_28 ext _ (by simp)]
  simp only [decU32, u32, uN_le1 4 n hn, ok_bind, pure_eq_ok]

/-- cid: every command id 0..2³²−1 decodes to itself, unsigned (A08 repaired). -/
theorem C04_cid (ext : Ext) (n : Nat) (h : (Val.cid n).WF) : RoundTrip ext (.cid n) := by
  have hn : n < 256 ^ 4 := by simpa [Val.WF, Val.wf] using h
  show decodeType ext (le 4 n) 29 = .ok (.int n)
  rw [decodeType_29 ext _ (by simp)]
  simp only [decU32, u32, uN_le1 4 n hn, ok_bind, pure_eq_ok]

/-- float4: all 2³² bit patterns (NaN payloads, ±0, subnormals, ±Inf included) come out unchanged. -/
theorem C04_float4 (ext : Ext) (b : Nat) (h : (Val.float4 b).WF) : RoundTrip ext (.float4 b) := by
  have hn : b < 256 ^ 4 := by simpa [Val.WF, Val.wf] using h
  show decodeType ext (le 4 b) 700 = .ok (.f32 b)
  rw [decodeType_700 ext _ (by simp)]
  simp only [decFloat4, u32, uN_le1 4 b hn, ok_bind, pure_eq_ok]

/-- float8: all 2⁶⁴ bit patterns come out unchanged. -/
theorem C04_float8 (ext : Ext) (b : Nat) (h : (Val.float8 b).WF) : RoundTrip ext (.float8 b) := by
  have hn : b < 256 ^ 8 := by simpa [Val.WF, Val.wf] using h
  show decodeType ext (le 8 b) 701 = .ok (.f64 b)
  rw [decodeType_701 ext _ (by simp)]
  simp only [decFloat8, u64, uN_le1 8 b hn, ok_bind, pure_eq_ok]

/-- money: every int64 amount of cents — from −9223372036854775808 to 9223372036854775807 — is shown as the exact
decimal `$[-]units.cc` (fix 11: integer arithmetic).  The Spec's view is written from the integer value
(sign, |c| / 100, `.`, two digits of |c| mod 100). -/
theorem C04_money (ext : Ext) (c : Int) (h : (Val.money c).WF) : RoundTrip ext (.money c) := by
  have hin : inI 64 c = true := h
  show decodeType ext (le 8 (ofSigned 64 c)) 790 = _
  rw [decodeType_790 ext _ (by simp)]
  simp only [decMoney, i64, uN_le1 8 _ (ofSigned_lt 64 c), ok_bind, pure_eq_ok, toSigned_ofSigned64 c hin]
  simp only [view, List.append_assoc]

/-- the defect repaired by fix 11, on the reviewer's witness: the former code `fmt.Sprintf("$%.2f", float64(cents)/100)`
(modelled exactly by `Txt.moneyText`: two correctly rounded binary64 operations, then `%.2f`) prints
7036874417766401 cents as `70368744177664.02`; the exact value is `70368744177664.01`.  (Below 10¹⁵ the old code was
right: `Proofs.Money.moneyText_exact`.) -/
theorem C04_money_old_defect :
    moneyText 7036874417766401 = asc "70368744177664.02" ∧
    view (.money 7036874417766401) = .str (asc "$70368744177664.01") := by
  exact ⟨by decide +kernel, rfl⟩

/-! ### text-like, bytea -/

/-- text / varchar / bpchar / xml: every non-empty valid UTF-8 string comes out byte for byte. -/
theorem C04_text (ext : Ext) (ty : TextTy) (s : Bytes) (h : (Val.text ty s).WF) : RoundTrip ext (.text ty s) := by
  have h' : s.length ≥ 1 ∧ utf8Valid s = true := by simpa [Val.WF, Val.wf] using h
  have hs : safeString s = s := by simp [safeString, h'.2]
  cases ty
  · show decodeType ext s 25 = .ok (.str s); rw [decodeType_25 ext s h'.1, hs]; rfl
  · show decodeType ext s 1043 = .ok (.str s); rw [decodeType_1043 ext s h'.1, hs]; rfl
  · show decodeType ext s 1042 = .ok (.str s); rw [decodeType_1042 ext s h'.1, hs]; rfl
  · show decodeType ext s 142 = .ok (.str s); rw [decodeType_142 ext s h'.1, hs]; rfl

/-- bytea: every non-empty byte string is shown as `\x` followed by two hex digits per byte. -/
theorem C04_bytea (ext : Ext) (b : Bytes) (h : (Val.bytea b).WF) : RoundTrip ext (.bytea b) := by
  have h' : b.length ≥ 1 := by simpa [Val.WF, Val.wf] using h
  show decodeType ext b 17 = _
  rw [decodeType_17 ext b h']; rfl

/-- json: the stored text is handed unchanged to `encoding/json.Unmarshal` and its result is returned.  With the library's
documented behaviour as the library (`Model.ScalarsJsonLib.jsonUnmarshal`: the neutral RFC 8259 parser `Spec.Json.parse`,
numbers to the nearest float64 with out-of-range as an error, objects as maps with the last duplicate winning), for EVERY
well-formed document — any nesting, strings with any bytes incl. quotes, backslashes and control characters (escaped by the
encoder), numbers ±m·10^e with m < 10^20, |e| ≤ 30 in all three notations (plain, decimal point, exponent), unique keys — and
each of the three whitespace styles, the decoded value is the document (numbers as the nearest float64).  The hypothesis
`hext` names the library model; that the real `encoding/json` behaves like it is the stated library contract, checked by
the correspondence run on every generated document (the driver uses this very function as `ext.jsonUnmarshal`).
(Replaces `C04_json_partial`, whose hypothesis was its own conclusion.) -/
theorem C04_json (ext : Ext) (hext : ext.jsonUnmarshal = Model.ScalarsJsonLib.jsonUnmarshal) (d : JV) (ws : Nat)
    (h : (Val.json d ws).WF) : RoundTrip ext (.json d ws) := by
  have h' : d.wf = true ∧ ws ≤ 2 := by simpa [Val.WF, Val.wf] using h
  show decodeType ext (d.render ws) 114 = .ok d.view
  rw [decodeType_114 ext _ (Proofs.ScalarsJsonParse.render_length_pos d ws)]
  simp [decJSON, hext, Proofs.ScalarsJsonParse.jsonUnmarshal_render d ws h'.1 h'.2]

/-- non-vacuity of `C04_json`: a scalar-model `Ext` whose JSON library is the library model exists (the other three decoders
do not matter here), and a nested document with an escape, a multi-byte character and the numbers −12.5, 10³⁰ and 2⁵³+1 is
well-formed in every whitespace style -/
example : ∃ ext : Ext, ext.jsonUnmarshal = Model.ScalarsJsonLib.jsonUnmarshal :=
  ⟨{ decodeArray := fun _ _ => pure .nil, decodeNumeric := fun _ => pure .nil, parseJSONB := fun _ => pure .nil,
     jsonUnmarshal := Model.ScalarsJsonLib.jsonUnmarshal }, rfl⟩

example : (Val.json (.obj [(asc "k", .arr [.num true 125 (-1), .num false 1 30, .num false 9007199254740993 0]),
    ([0xC3, 0xA9], .str [34, 10, 0xF0, 0x9F, 0x98, 0x80]), ([], .null)]) 2).WF := by decide

/-! ### time of day, interval -/

/-- time: every value 00:00:00 .. 24:00:00 (microsecond resolution) is shown as PostgreSQL shows it,
`hh:mm:ss[.ffffff]`: the fields are those of time2tm (successive division and subtraction, `Spec.timeFields`), the
fraction is printed when it is not zero, without trailing zeros (fix 12). -/
theorem C04_time (ext : Ext) (us : Nat) (h : (Val.time us).WF) : RoundTrip ext (.time us) := by
  have hu : us ≤ 86400000000 := by simpa [Val.WF, Val.wf] using h
  show decodeType ext (le 8 us) 1083 = _
  rw [decodeType_1083 ext _ (by simp)]
  simp only [decTime, i64, uN_le1 8 us (by omega), ok_bind, pure_eq_ok]
  rw [toSigned_small 64 us (by simp; omega), Proofs.ScalarsFrac.timeOfDay_text]
  rfl

/-- timetz: every time of day (microsecond resolution) with every zone offset −15:59:59..+15:59:59 is shown as
`hh:mm:ss[.ffffff]` followed by the full zone `+hh[:mm[:ss]]`, east positive (A13 repaired; fix 12 for the fraction). -/
theorem C04_timetz (ext : Ext) (us : Nat) (z : Int) (h : (Val.timetz us z).WF) : RoundTrip ext (.timetz us z) := by
  have h' : us ≤ 86400000000 ∧ -57600 < z ∧ z < 57600 := by
    simpa [Val.WF, Val.wf, and_assoc] using h
  have hz : inI 32 z = true := by simp [inI]; omega
  show decodeType ext (le 8 us ++ le 4 (ofSigned 32 z)) 1266 = _
  rw [decodeType_1266 ext _ (by simp)]
  have r1 : uN 8 (le 8 us ++ le 4 (ofSigned 32 z)) 0 = .ok us := uN_le0 8 us _ (by omega)
  have r2 : uN 4 (le 8 us ++ le 4 (ofSigned 32 z)) 8 = .ok (ofSigned 32 z) := by
    have := uN_le 4 (ofSigned 32 z) 8 (le 8 us) [] (by simp) (ofSigned_lt 32 z)
    simpa using this
  simp only [decTimeTZ, i64, i32, r1, r2, ok_bind, pure_eq_ok]
  rw [toSigned_small 64 us (by simp; omega), Proofs.ScalarsFrac.timeOfDay_text, toSigned_ofSigned32 z hz, fmtZone_eq]
  rfl

/-- interval: months, days and microseconds of every sign (all of int32 × int32 × int64) are all shown: the fields of
interval2itm (`Spec.intervalFields`: years, months, days, hours, minutes, seconds, microseconds by truncating division
and subtraction), each non-zero field with its own sign (A14 repaired), the seconds with their fraction at microsecond
resolution (`0.5s`, `-6.25s`; fix 12), `0` for the zero interval.  The notation is injective on the fields. -/
theorem C04_interval (ext : Ext) (months days us : Int) (h : (Val.interval months days us).WF) :
    RoundTrip ext (.interval months days us) := by
  have h' : inI 32 months = true ∧ inI 32 days = true ∧ inI 64 us = true := by
    simpa [Val.WF, Val.wf, and_assoc] using h
  show decodeType ext (le 8 (ofSigned 64 us) ++ le 4 (ofSigned 32 days) ++ le 4 (ofSigned 32 months)) 1186 = _
  rw [decodeType_1186 ext _ (by simp)]
  have r1 : uN 8 (le 8 (ofSigned 64 us) ++ le 4 (ofSigned 32 days) ++ le 4 (ofSigned 32 months)) 0 = .ok (ofSigned 64 us) := by
    rw [List.append_assoc]; exact uN_le0 8 _ _ (ofSigned_lt 64 us)
  have r2 : uN 4 (le 8 (ofSigned 64 us) ++ le 4 (ofSigned 32 days) ++ le 4 (ofSigned 32 months)) 8 = .ok (ofSigned 32 days) := by
    rw [List.append_assoc]; exact uN_le 4 _ 8 _ _ (by simp) (ofSigned_lt 32 days)
  have r3 : uN 4 (le 8 (ofSigned 64 us) ++ le 4 (ofSigned 32 days) ++ le 4 (ofSigned 32 months)) 12 = .ok (ofSigned 32 months) := by
    have := uN_le 4 (ofSigned 32 months) 12 (le 8 (ofSigned 64 us) ++ le 4 (ofSigned 32 days)) [] (by simp) (ofSigned_lt 32 months)
    simpa using this
  have hl : ¬ (le 8 (ofSigned 64 us) ++ le 4 (ofSigned 32 days) ++ le 4 (ofSigned 32 months)).length < 16 := by simp
  simp only [decodeInterval, hl, if_false, i64, i32, r1, r2, r3, ok_bind, pure_eq_ok]
  rw [toSigned_ofSigned64 us h'.2.2, toSigned_ofSigned32 days h'.2.1, toSigned_ofSigned32 months h'.1]
  refine (ite_ok_str _ (asc "0") _).trans ?_
  show Except.ok (GoVal.str _) = Except.ok (GoVal.str (intervalText months days us))
  rw [← Proofs.ScalarsFrac.interval_text months days us]

/-! ### geometric types with fixed width (floats carried as bit patterns, NaN payloads collapsed) -/

/-- point: both coordinates, for all bit patterns. -/
theorem C04_point (ext : Ext) (p : Pt) (h : (Val.point p).WF) : RoundTrip ext (.point p) := by
  have h' : p.1 < 2 ^ 64 ∧ p.2 < 2 ^ 64 := by simpa [Val.WF, Val.wf] using h
  show decodeType ext (encPt p) 600 = _
  rw [decodeType_600 ext _ (by simp [encPt_length])]
  simp only [decPoint, decodePoint_enc p h'.1 h'.2, ok_bind, pure_eq_ok]
  rfl

/-- lseg: both end points. -/
theorem C04_lseg (ext : Ext) (a b : Pt) (h : (Val.lseg a b).WF) : RoundTrip ext (.lseg a b) := by
  have h' : a.1 < 2 ^ 64 ∧ a.2 < 2 ^ 64 ∧ b.1 < 2 ^ 64 ∧ b.2 < 2 ^ 64 := by simpa [Val.WF, Val.wf, and_assoc] using h
  show decodeType ext (encPt a ++ encPt b) 601 = _
  rw [decodeType_601 ext _ (by simp [encPt_length])]
  have s1 : slice (encPt a ++ encPt b) 0 16 = .ok (encPt a) := slice_left _ _ 16 (encPt_length a)
  have s2 : slice (encPt a ++ encPt b) 16 32 = .ok (encPt b) :=
    slice_right _ _ 16 32 (encPt_length a) (by rw [encPt_length])
  simp only [decLseg, s1, s2, decodePoint_enc a h'.1 h'.2.1, decodePoint_enc b h'.2.2.1 h'.2.2.2, ok_bind, pure_eq_ok]
  rfl

/-- box: both corners. -/
theorem C04_box (ext : Ext) (a b : Pt) (h : (Val.box a b).WF) : RoundTrip ext (.box a b) := by
  have h' : a.1 < 2 ^ 64 ∧ a.2 < 2 ^ 64 ∧ b.1 < 2 ^ 64 ∧ b.2 < 2 ^ 64 := by simpa [Val.WF, Val.wf, and_assoc] using h
  show decodeType ext (encPt a ++ encPt b) 603 = _
  rw [decodeType_603 ext _ (by simp [encPt_length])]
  have s1 : slice (encPt a ++ encPt b) 0 16 = .ok (encPt a) := slice_left _ _ 16 (encPt_length a)
  have s2 : slice (encPt a ++ encPt b) 16 32 = .ok (encPt b) :=
    slice_right _ _ 16 32 (encPt_length a) (by rw [encPt_length])
  simp only [decBox, s1, s2, decodePoint_enc a h'.1 h'.2.1, decodePoint_enc b h'.2.2.1 h'.2.2.2, ok_bind, pure_eq_ok]
  rfl

/-- line: the three coefficients A, B, C. -/
theorem C04_line (ext : Ext) (a b c : Nat) (h : (Val.line a b c).WF) : RoundTrip ext (.line a b c) := by
  have h' : a < 2 ^ 64 ∧ b < 2 ^ 64 ∧ c < 2 ^ 64 := by simpa [Val.WF, Val.wf, and_assoc] using h
  show decodeType ext (le 8 a ++ le 8 b ++ le 8 c) 628 = _
  rw [decodeType_628 ext _ (by simp)]
  have r1 : uN 8 (le 8 a ++ le 8 b ++ le 8 c) 0 = .ok a := by
    rw [List.append_assoc]; exact uN_le0 8 _ _ (pow64 _ h'.1)
  have r2 : uN 8 (le 8 a ++ le 8 b ++ le 8 c) 8 = .ok b := by
    rw [List.append_assoc]; exact uN_le 8 _ 8 _ _ (by simp) (pow64 _ h'.2.1)
  have r3 : uN 8 (le 8 a ++ le 8 b ++ le 8 c) 16 = .ok c := by
    have := uN_le 8 c 16 (le 8 a ++ le 8 b) [] (by simp) (pow64 _ h'.2.2)
    simpa using this
  simp only [decLine, u64, r1, r2, r3, ok_bind, pure_eq_ok]
  rfl

/-- circle: centre and radius. -/
theorem C04_circle (ext : Ext) (c : Pt) (r : Nat) (h : (Val.circle c r).WF) : RoundTrip ext (.circle c r) := by
  have h' : c.1 < 2 ^ 64 ∧ c.2 < 2 ^ 64 ∧ r < 2 ^ 64 := by simpa [Val.WF, Val.wf, and_assoc] using h
  show decodeType ext (encPt c ++ le 8 r) 718 = _
  rw [decodeType_718 ext _ (by simp [encPt_length])]
  have r3 : uN 8 (encPt c ++ le 8 r) 16 = .ok r := by
    have := uN_le 8 r 16 (encPt c) [] (by simp [encPt_length]) (pow64 _ h'.2.2)
    simpa using this
  have hs : slice (encPt c ++ le 8 r) 0 16 = .ok (encPt c) := by
    rw [slice_ok _ _ _ (by simp [encPt_length]) (by omega)]
    simp [List.take_left' (encPt_length c)]
  simp only [decCircle, hs, decodePoint_enc c h'.1 h'.2.1, u64, r3, ok_bind, pure_eq_ok]
  rfl

/-! ### name, tid, pg_lsn, uuid, macaddr, macaddr8 -/

/-- name: every identifier of up to 63 non-NUL bytes, stored NUL-padded to 64 bytes, comes out exactly. -/
theorem C04_name (ext : Ext) (s : Bytes) (h : (Val.name s).WF) : RoundTrip ext (.name s) := by
  have h' : s.length < 64 ∧ s.contains 0 = false := by simpa [Val.WF, Val.wf] using h
  show decodeType ext (s ++ zeros (64 - s.length)) 19 = .ok (.str s)
  rw [decodeType_19 ext _ (by simp; omega)]
  simp only [pure_eq_ok, cstring_name s h'.1 h'.2]

/-- tid, partial: `(block,offset)` is right for every offset and every block number whose two 16-bit
halves are equal.  Missing: all other block numbers — the halves come out swapped (A11, pinned by
TestDecodeTid; recorded finding), see `C04_tid_finding`. -/
theorem C04_tid_partial (ext : Ext) (block off : Nat) (h : (Val.tid block off).WF)
    (hk : kfTid (.tid block off) = false) : RoundTrip ext (.tid block off) := by
  have h' : block < 2 ^ 32 ∧ off < 2 ^ 16 := by simpa [Val.WF, Val.wf] using h
  have hk' : block / 65536 = block % 65536 := by simpa [kfTid] using hk
  show decodeType ext (le 2 (block / 65536) ++ le 2 (block % 65536) ++ le 2 off) 27 = _
  rw [decodeType_27 ext _ (by simp)]
  have e : le 2 (block / 65536) ++ le 2 (block % 65536) = le 4 block := by
    rw [← le4_split _ _ (by omega)]; congr 1; omega
  have r1 : uN 4 (le 2 (block / 65536) ++ le 2 (block % 65536) ++ le 2 off) 0 = .ok block := by
    rw [e]; exact uN_le0 4 _ _ (by omega)
  have r2 : uN 2 (le 2 (block / 65536) ++ le 2 (block % 65536) ++ le 2 off) 4 = .ok off := by
    have := uN_le 2 off 4 (le 2 (block / 65536) ++ le 2 (block % 65536)) [] (by simp) (by omega)
    simpa using this
  simp only [decTid, u32, u16, r1, r2, ok_bind, pure_eq_ok]
  rfl

/-- the tid defect on a concrete stored value: block 65536, offset 5 (bytes 01 00 00 00 05 00) is
shown as `(1,5)`, not `(65536,5)`. -/
theorem C04_tid_finding (ext : Ext) : (Val.tid 65536 5).WF ∧ ¬ RoundTrip ext (.tid 65536 5) := by
  refine ⟨by decide, ?_⟩
  intro h
  have hm : decodeType ext (enc (.tid 65536 5)) 27 = .ok (.str [40, 49, 44, 53, 41]) := rfl
  unfold RoundTrip at h
  rw [show (Val.tid 65536 5).typeOid = 27 from rfl, hm] at h
  injection h with h
  injection h with h
  revert h; decide

/-- pg_lsn, partial: `%X/%X` is right for every LSN whose high and low 32-bit halves are equal.
Missing: all other LSNs — printed low/high (A10, pinned by TestDecodePgLsn; recorded finding). -/
theorem C04_pglsn_partial (ext : Ext) (v : Nat) (h : (Val.pglsn v).WF) (hk : kfPgLsn (.pglsn v) = false) :
    RoundTrip ext (.pglsn v) := by
  have h' : v < 2 ^ 64 := by simpa [Val.WF, Val.wf] using h
  have hk' : v / 4294967296 = v % 4294967296 := by simpa [kfPgLsn] using hk
  show decodeType ext (le 8 v) 3220 = _
  rw [decodeType_3220 ext _ (by simp)]
  have r1 : uN 4 (le 8 v) 0 = .ok (v % 4294967296) := by
    rw [le8_split]; exact uN_le0 4 _ _ (by omega)
  have r2 : uN 4 (le 8 v) 4 = .ok (v / 4294967296) := by
    rw [le8_split]
    have := uN_le 4 (v / 4294967296) 4 (le 4 (v % 4294967296)) [] (by simp) (by omega)
    simpa using this
  simp only [decPgLsn, u32, r1, r2, ok_bind, pure_eq_ok]
  show Except.ok (GoVal.str _) = Except.ok (GoVal.str (hexNat true (v / 2 ^ 32) ++ [47] ++ hexNat true (v % 2 ^ 32)))
  have e32 : (2 : Nat) ^ 32 = 4294967296 := by decide
  rw [e32, hk', ← hk', hk']

/-- the pg_lsn defect on a concrete stored value: FF/1 (bytes 01 00 00 00 ff 00 00 00) is shown as `1/FF`. -/
theorem C04_pglsn_finding (ext : Ext) : (Val.pglsn (255 * 2 ^ 32 + 1)).WF ∧ ¬ RoundTrip ext (.pglsn (255 * 2 ^ 32 + 1)) := by
  refine ⟨by decide, ?_⟩
  intro h
  have hm : decodeType ext (enc (.pglsn (255 * 2 ^ 32 + 1))) 3220 = .ok (.str [49, 47, 70, 70]) := rfl
  unfold RoundTrip at h
  rw [show (Val.pglsn (255 * 2 ^ 32 + 1)).typeOid = 3220 from rfl, hm] at h
  injection h with h
  injection h with h
  revert h; decide

/-- uuid: all 16 bytes in stored order, as 8-4-4-4-12 lower-case hex (A09 repaired). -/
theorem C04_uuid (ext : Ext) (b : Bytes) (h : (Val.uuid b).WF) : RoundTrip ext (.uuid b) := by
  have hl : b.length = 16 := by simpa [Val.WF, Val.wf] using h
  show decodeType ext b 2950 = _
  rw [decodeType_2950 ext b (by omega)]
  exact decUUID_view b hl

/-- macaddr: six bytes as `xx:xx:xx:xx:xx:xx`. -/
theorem C04_macaddr (ext : Ext) (b : Bytes) (h : (Val.macaddr b).WF) : RoundTrip ext (.macaddr b) := by
  have hl : b.length = 6 := by simpa [Val.WF, Val.wf] using h
  show decodeType ext b 829 = _
  rw [decodeType_829 ext b (by omega)]
  exact decMac6_view b hl

/-- macaddr8: eight bytes as `xx:xx:xx:xx:xx:xx:xx:xx`. -/
theorem C04_macaddr8 (ext : Ext) (b : Bytes) (h : (Val.macaddr8 b).WF) : RoundTrip ext (.macaddr8 b) := by
  have hl : b.length = 8 := by simpa [Val.WF, Val.wf] using h
  show decodeType ext b 774 = _
  rw [decodeType_774 ext b (by omega)]
  exact decMac8_view b hl

/-! ### bit strings, inet / cidr -/

/-- bit / varbit: every bit string of every length below 2³¹ is shown bit for bit, most significant
bit of each byte first, without the padding bits of the last byte. -/
theorem C04_bit (ext : Ext) (vb : Bool) (bits : List Bool) (h : (Val.bit vb bits).WF) : RoundTrip ext (.bit vb bits) := by
  have hl : bits.length < 2 ^ 31 := by simpa [Val.WF, Val.wf] using h
  have hlen : (packBits bits).length = (bits.length + 7) / 8 := packBitsN_length _ _
  have hd : decodeBitString (le 4 bits.length ++ packBits bits) = .ok (view (.bit vb bits)) := by
    unfold decodeBitString
    have h4 : ¬ (le 4 bits.length ++ packBits bits).length < 4 := by simp
    have r1 : uN 4 (le 4 bits.length ++ packBits bits) 0 = .ok bits.length := uN_le0 4 _ _ (by omega)
    simp only [h4, if_false, i32, r1, ok_bind, pure_eq_ok]
    rw [toSigned_small 32 _ (by simpa using hl)]
    by_cases h0 : bits.length = 0
    · have : bits = [] := List.eq_nil_of_length_eq_zero h0
      subst this; rfl
    · have hne : ((bits.length : Int) == 0) = false := by
        simp only [beq_eq_false_iff_ne, ne_eq]; omega
      simp only [hne, Bool.false_eq_true, if_false]
      have hav : ¬ ((bits.length : Int) > (((le 4 bits.length ++ packBits bits).length : Int) - 4) * 8) := by
        have hc : (le 4 bits.length ++ packBits bits).length = 4 + (bits.length + 7) / 8 := by
          simp only [List.length_append, le_length, hlen]
        rw [hc]; omega
      rw [if_neg hav, Int.toNat_natCast, bitChars_enc _ (by simp) bits bits.length 0 (by omega)]
      rfl
  cases vb
  · show decodeType ext (le 4 bits.length ++ packBits bits) 1560 = _
    rw [decodeType_1560 ext _ (by simp; omega), hd]
  · show decodeType ext (le 4 bits.length ++ packBits bits) 1562 = _
    rw [decodeType_1562 ext _ (by simp; omega), hd]

/-- inet / cidr: IPv4 and IPv6 addresses with every prefix length (0..32, 0..128): dotted decimal or
eight hexadecimal groups, followed by `/bits` unless the prefix is the full width. -/
theorem C04_inet (ext : Ext) (cidr v6 : Bool) (addr : Bytes) (bits : Nat) (h : (Val.inet cidr v6 addr bits).WF) :
    RoundTrip ext (.inet cidr v6 addr bits) := by
  cases v6
  · have h' : addr.length = 4 ∧ bits ≤ 32 := by simpa [Val.WF, Val.wf] using h
    have hl := h'.1
    obtain ⟨x0, t0, rfl, h0⟩ := exists_cons_of_length hl
    obtain ⟨x1, t1, rfl, h1⟩ := exists_cons_of_length h0
    obtain ⟨x2, t2, rfl, h2⟩ := exists_cons_of_length h1
    obtain ⟨x3, t3, rfl, h3⟩ := exists_cons_of_length h2
    have := List.eq_nil_of_length_eq_zero h3; subst this
    have hd := decodeInet_v4 x0 x1 x2 x3 bits h'.2
    cases cidr
    · show decodeType ext ([2, UInt8.ofNat bits] ++ [x0, x1, x2, x3]) 869 = _
      rw [decodeType_869 ext _ (by simp), hd]
    · show decodeType ext ([2, UInt8.ofNat bits] ++ [x0, x1, x2, x3]) 650 = _
      rw [decodeType_650 ext _ (by simp), hd]; rfl
  · have h' : addr.length = 16 ∧ bits ≤ 128 := by simpa [Val.WF, Val.wf] using h
    have hl := h'.1
    obtain ⟨x0, t0, rfl, h0⟩ := exists_cons_of_length hl
    obtain ⟨x1, t1, rfl, h1⟩ := exists_cons_of_length h0
    obtain ⟨x2, t2, rfl, h2⟩ := exists_cons_of_length h1
    obtain ⟨x3, t3, rfl, h3⟩ := exists_cons_of_length h2
    obtain ⟨x4, t4, rfl, h4⟩ := exists_cons_of_length h3
    obtain ⟨x5, t5, rfl, h5⟩ := exists_cons_of_length h4
    obtain ⟨x6, t6, rfl, h6⟩ := exists_cons_of_length h5
    obtain ⟨x7, t7, rfl, h7⟩ := exists_cons_of_length h6
    obtain ⟨x8, t8, rfl, h8⟩ := exists_cons_of_length h7
    obtain ⟨x9, t9, rfl, h9⟩ := exists_cons_of_length h8
    obtain ⟨x10, t10, rfl, h10⟩ := exists_cons_of_length h9
    obtain ⟨x11, t11, rfl, h11⟩ := exists_cons_of_length h10
    obtain ⟨x12, t12, rfl, h12⟩ := exists_cons_of_length h11
    obtain ⟨x13, t13, rfl, h13⟩ := exists_cons_of_length h12
    obtain ⟨x14, t14, rfl, h14⟩ := exists_cons_of_length h13
    obtain ⟨x15, t15, rfl, h15⟩ := exists_cons_of_length h14
    have := List.eq_nil_of_length_eq_zero h15; subst this
    have hd := decodeInet_v6 x0 x1 x2 x3 x4 x5 x6 x7 x8 x9 x10 x11 x12 x13 x14 x15 bits h'.2
    cases cidr
    · show decodeType ext ([3, UInt8.ofNat bits] ++ [x0, x1, x2, x3, x4, x5, x6, x7, x8, x9, x10, x11, x12, x13, x14, x15]) 869 = _
      rw [decodeType_869 ext _ (by simp), hd]
    · show decodeType ext ([3, UInt8.ofNat bits] ++ [x0, x1, x2, x3, x4, x5, x6, x7, x8, x9, x10, x11, x12, x13, x14, x15]) 650 = _
      rw [decodeType_650 ext _ (by simp), hd]; rfl

/-! ### date, timestamp, timestamptz -/

/-- date: every calendar day of years 0001..9999 is shown as that day (`YYYY-MM-DD`), and the two
reserved values as `infinity` / `-infinity` (A12 repaired).  Rests on `civil_pgDate`: the calendar
the tool prints with inverts PostgreSQL's day count on every valid date. -/
theorem C04_date (ext : Ext) (d : DateV) (h : (Val.date d).WF) : RoundTrip ext (.date d) := by
  show decodeType ext (le 4 (ofSigned 32 d.stored)) 1082 = _
  rw [decodeType_1082 ext _ (by simp)]
  exact decDate_enc d h

/-- timestamp / timestamptz: every instant of years 0001..9999 (microsecond resolution stored) is shown
as its calendar date and time of day at whole-second resolution (floor), and the two reserved values
as `infinity` / `-infinity` (A12 repaired: no 64-bit nanosecond overflow beyond 1708..2262). -/
theorem C04_timestamp (ext : Ext) (tz : Bool) (t : TsV) (h : (Val.timestamp tz t).WF) : RoundTrip ext (.timestamp tz t) := by
  cases tz
  · show decodeType ext (le 8 (ofSigned 64 t.stored)) 1114 = _
    rw [decodeType_1114 ext _ (by simp)]
    exact decTimestamp_enc t h
  · show decodeType ext (le 8 (ofSigned 64 t.stored)) 1184 = _
    rw [decodeType_1184 ext _ (by simp)]
    exact decTimestamp_enc t h

/-! ### ranges -/

/-- int4range, int8range, daterange, tsrange, tstzrange: for all 32 combinations of the flag bits
(EMPTY, LB_INC, UB_INC, LB_INF, UB_INF) and all well-formed bounds, the decoded text is PostgreSQL's
range_out form: `empty`, or bracket by the inclusive flags, each present bound as its element type
shows it, nothing for an infinite bound.  Includes the 8-byte-element ranges whose upper bound was
looked for at the wrong offset (A15 repaired). -/
theorem C04_range (ext : Ext) (ty : RangeTy) (hty : ty ≠ .num) (flags : Nat) (lo hi : Bound)
    (h : (Val.range ty flags lo hi).WF) : RoundTrip ext (.range ty flags lo hi) := by
  have h' : flags < 32 ∧ (rangeHasLower flags = false ∨ lo.wf ty = true) ∧ (rangeHasUpper flags = false ∨ hi.wf ty = true) := by
    simpa [Val.WF, Val.wf, and_assoc] using h
  unfold RoundTrip
  show decodeType ext (enc (.range ty flags lo hi)) ty.oid = _
  have hne : 1 ≤ (enc (.range ty flags lo hi)).length := by
    show 1 ≤ (le 4 ty.oid ++ (if rangeHasLower flags then encBoundAs ty lo else []) ++
      (if rangeHasUpper flags then
        boundPad (4 + (if rangeHasLower flags then encBoundAs ty lo else []).length) hi ++ encBoundAs ty hi else []) ++
      [UInt8.ofNat flags]).length
    simp only [List.length_append, le_length, List.length_cons, List.length_nil]; omega
  rw [decodeType_range ext _ ty.oid hne (by cases ty <;> decide) (by cases ty <;> decide)]
  exact decodeRange_rt ext ty hty flags lo hi h'.1
    (fun hl => by rcases h'.2.1 with h0 | h0; · rw [hl] at h0; cases h0
                  · exact h0)
    (fun hu => by rcases h'.2.2 with h0 | h0; · rw [hu] at h0; cases h0
                  · exact h0)

/-- non-vacuity: the witness of A15, `[-5000000000,5000000000)::int8range`, is a well-formed value -/
example : (Val.range .int8 2 (.int (-5000000000)) (.int 5000000000)).WF := by decide

/-- numrange (A16 repaired, fixes/scalars/15): for all 32 flag bytes and all well-formed numeric bounds — NaN, ±Infinity, any
sign, weight, display scale and digit string, in either numeric header form that can hold the value, stored as
range_serialize stores them: behind a 1-byte varlena header when payload + 1 ≤ 127 bytes, else behind a 4-byte header that is
int-aligned relative to the range's own 4-byte header, with zero bytes as padding — the decoded text is range_out's form
with each present bound shown as the float64 nearest to its value (what the tool returns for every numeric, property C05),
printed with `%v` = `%g` (carried as the bit pattern, Types/FStr.lean).  `hext` names the numeric decoder: the model of area
numjson (`Model.decodeNumeric`) with strconv.ParseFloat = `pf`; `hpf` is ParseFloat's documented contract (C05).  The array,
jsonb and JSON decoders of `ext` are arbitrary. -/
theorem C04_numrange (ext : Ext) (pf : Model.ParseFloat) (hpf : Spec.ParseFloatOK pf)
    (hext : ext.decodeNumeric = numExt pf) (flags : Nat) (lo hi : Bound) (h : (Val.range .num flags lo hi).WF) :
    RoundTrip ext (.range .num flags lo hi) := by
  have h' : flags < 32 ∧ (rangeHasLower flags = false ∨ lo.wf .num = true) ∧ (rangeHasUpper flags = false ∨ hi.wf .num = true) := by
    simpa [Val.WF, Val.wf, and_assoc] using h
  have hfb : (UInt8.ofNat flags).toNat = flags := u8_toNat flags (by omega)
  unfold RoundTrip
  show decodeType ext (enc (.range .num flags lo hi)) 3906 = _
  have hne : 5 ≤ (enc (.range .num flags lo hi)).length := by
    show 5 ≤ (le 4 3906 ++ (if rangeHasLower flags then encBoundAs .num lo else []) ++
      (if rangeHasUpper flags then
        boundPad (4 + (if rangeHasLower flags then encBoundAs .num lo else []).length) hi ++ encBoundAs .num hi else []) ++
      [UInt8.ofNat flags]).length
    simp only [List.length_append, le_length, List.length_cons, List.length_nil]; omega
  rw [decodeType_range ext _ 3906 (by omega) (by decide) (by decide)]
  unfold decodeRange
  rw [if_neg (by omega)]
  have hlast : idx (enc (.range .num flags lo hi)) ((enc (.range .num flags lo hi)).length - 1) = .ok (UInt8.ofNat flags) :=
    idx_last _ _
  rw [hlast]
  simp only [ok_bind, hfb, mask1]
  cases h0 : flags.testBit 0
  · simp only [Bool.false_eq_true, if_false, if_true]
    have key := decodeNumericRange_rt ext pf hpf hext flags lo hi h0
      (fun hl => by rcases h'.2.1 with h1 | h1; · rw [hl] at h1; cases h1
                    · exact h1)
      (fun hu => by rcases h'.2.2 with h1 | h1; · rw [hu] at h1; cases h1
                    · exact h1)
    rw [key]
  · simp only [if_true, pure_eq_ok]
    show Except.ok (lit "empty") = Except.ok (fstrS (numRangePieces flags lo hi))
    simp only [numRangePieces, h0, if_true]
    rfl

/-- non-vacuity of `C04_numrange`: an `Ext` with the numeric decoder of area numjson exists; the commit's witness `[1,9999)`
and a range whose upper bound (63 digits, 128 payload bytes) needs a 4-byte header behind 3 padding bytes are well-formed -/
example : ∃ ext : Ext, ext.decodeNumeric = numExt Spec.parseFloatRef :=
  ⟨{ decodeArray := fun _ _ => pure .nil, decodeNumeric := numExt Spec.parseFloatRef, parseJSONB := fun _ => pure .nil,
     jsonUnmarshal := fun _ => none }, rfl⟩

example : (Val.range .num 2 (.num (.fin false 0 0 [1]) .short) (.num (.fin false 0 0 [9999]) .short)).WF ∧
    (Val.range .num 2 (.num (.fin false 0 0 [1]) .short) (.num (.fin true 62 0 (List.replicate 63 9999)) .short)).WF ∧
    (Val.range .num 6 (.num .ninf .long) (.num .nan .short)).WF := by decide +kernel

/-- the defect repaired by fixes/scalars/15 on the commit's witness: the stored `[1,9999)` (bytes 42 0f 00 00, 0b 00 80 01 00,
0b 00 80 0f 27, 02) decodes to `[1,9999)` with both bounds as floats; the former code printed `[?,?)` -/
theorem C04_numrange_witness :
    decodeType { decodeArray := fun _ _ => pure .nil, decodeNumeric := numExt Spec.parseFloatRef, parseJSONB := fun _ => pure .nil,
                 jsonUnmarshal := fun _ => none }
      [0x42, 0x0f, 0, 0, 0x0b, 0, 0x80, 1, 0, 0x0b, 0, 0x80, 0x0f, 0x27, 2] 3906
    = .ok (.arr [.str [91], .f64 0x3FF0000000000000, .str [44], .f64 0x40C3878000000000, .str [41]]) := by
  rfl

/-- path (A17 repaired, fixes/scalars/14): every stored path — int32 npts, int32 closed, int32 dummy, then the points — with
1 ≤ npts < 2²⁷ points of any float64 bit patterns decodes to its points in order, in `(…)` when closed and `[…]` when open
(floats carried as bit patterns).  No carve-out. -/
theorem C04_path (ext : Ext) (closed : Bool) (pts : List Pt) (h : (Val.path closed pts).WF) :
    RoundTrip ext (.path closed pts) := by
  unfold RoundTrip
  show decodeType ext (enc (.path closed pts)) 602 = _
  have hl : 1 ≤ (enc (.path closed pts)).length := by
    show 1 ≤ (le 4 pts.length ++ le 4 (if closed then 1 else 0) ++ le 4 0 ++ pts.flatMap encPt).length
    simp only [List.length_append, le_length]; omega
  rw [decodeType_602 ext _ hl]
  exact decodePath_enc closed pts h

/-- polygon (A17 repaired): every stored polygon — int32 npts, the 32-byte bounding box, then the points — with
1 ≤ npts < 2²⁷ points decodes to its points in order, in `(…)`.  No carve-out. -/
theorem C04_polygon (ext : Ext) (bbox : Bytes) (pts : List Pt) (h : (Val.polygon bbox pts).WF) :
    RoundTrip ext (.polygon bbox pts) := by
  unfold RoundTrip
  show decodeType ext (enc (.polygon bbox pts)) 604 = _
  have hl : 1 ≤ (enc (.polygon bbox pts)).length := by
    show 1 ≤ (le 4 pts.length ++ bbox ++ pts.flatMap encPt).length
    simp only [List.length_append, le_length]; omega
  rw [decodeType_604 ext _ hl]
  exact decodePolygon_enc bbox pts h

/-- the two layouts decodePathOrPolygon knows can never both fit one value: the stored layout is accepted only when the
length is exactly header + 16·npts with header 12 (path) or 36 (polygon), i.e. ≡ 12 or 4 (mod 16); a send/recv value has
length 5 + 16·m.  So (1) a value accepted as stored is not a send/recv value, (2) a send/recv value is never read as stored
(TestDecodePath / TestDecodePolygon keep their meaning), and (3) on every stored path / polygon the stored reading is taken:
the fallback never fires on a stored value. -/
theorem C04_path_layouts :
    (∀ (data : Bytes) (oid n : Nat) (c : Bool), storedLayout data oid = .ok (some (n, c)) →
      data.length = storedFirst oid + 16 * n ∧ ¬ ∃ m : Nat, data.length = 5 + 16 * m) ∧
    (∀ (data : Bytes) (oid m : Nat), data.length = 5 + 16 * m → storedLayout data oid = .ok none) ∧
    (∀ (closed : Bool) (pts : List Pt), (Val.path closed pts).WF →
      storedLayout (enc (.path closed pts)) 602 = .ok (some (pts.length, closed))) ∧
    (∀ (bbox : Bytes) (pts : List Pt), (Val.polygon bbox pts).WF →
      storedLayout (enc (.polygon bbox pts)) 604 = .ok (some (pts.length, false))) :=
  ⟨fun data oid n c h => ⟨storedLayout_len data oid n c h, layouts_exclusive data oid n c h⟩,
   fun data oid m h => wire_not_stored data oid m h,
   fun closed pts h => stored_never_fallback_path closed pts h,
   fun bbox pts h => stored_never_fallback_polygon bbox pts h⟩

/-- the defect repaired by fixes/scalars/14 on the commit's witness: the stored open path `[(1,2)]` (01000000 00000000 00000000
and the point) decodes to `[(1,2)]` (the former code printed `()`); and the 53-byte send/recv vector shape of TestDecodePath
(flag byte 1, count 3) is still read in the send/recv layout -/
theorem C04_path_witness (ext : Ext) :
    (Val.path false [(0x3FF0000000000000, 0x4000000000000000)]).WF ∧
    decodeType ext (enc (.path false [(0x3FF0000000000000, 0x4000000000000000)])) 602 =
      .ok (.arr [.str [91, 40], .f64 0x3FF0000000000000, .str [44], .f64 0x4000000000000000, .str [41, 93]]) ∧
    storedLayout ([1] ++ le 4 3 ++ zeros 48) 602 = .ok none := by
  exact ⟨by decide, rfl, wire_not_stored _ 602 3 (by simp [le_length, zeros_length])⟩

/-- non-vacuity of the per-type hypotheses: boundary values of many types are well-formed, and the partial
theorems for tid / pg_lsn have values inside their hypotheses -/
example : (Val.int2 (-32768)).WF ∧ (Val.int8 9223372036854775807).WF ∧ (Val.xid 3000000000).WF ∧
    (Val.money (-999999999999999)).WF ∧ (Val.date (.fin 9999 12 31)).WF ∧ (Val.date (.fin 1 1 1)).WF ∧
    (Val.date (.fin 2000 2 29)).WF ∧ (Val.date .negInf).WF ∧ (Val.bit true [true, false, true, true, false]).WF ∧
    (Val.text .text [0xC3, 0xA9]).WF ∧ (Val.name (asc "pg_class")).WF ∧ (Val.time 86400000000).WF ∧
    (Val.uuid (zeros 16)).WF ∧ (Val.inet false false [10, 0, 0, 0] 24).WF ∧
    ((Val.tid 65537 7).WF ∧ kfTid (.tid 65537 7) = false) ∧
    ((Val.pglsn (7 * 2 ^ 32 + 7)).WF ∧ kfPgLsn (.pglsn (7 * 2 ^ 32 + 7)) = false) ∧
    (Val.path true [(0, 0), (0x3FF0000000000000, 0x3FF0000000000000)]).WF ∧ (Val.polygon (zeros 32) [(0, 0)]).WF ∧
    (Val.range .tstz 6 (.ts (.fin 1999 12 31 23 59 59 500000)) (.ts .posInf)).WF := by decide

/-! ### all types at once -/

/-- C04 for every abstract value: every well-formed stored value of every supported scalar type decodes
to the value a correct tool must show, except inside the two recorded classes that remain (pg_lsn and tid with unequal
halves: A10, A11, pinned by the repository's tests).  `hext` names the JSON library (`C04_json`), `hnum` / `hpf` the numeric
decoder and the ParseFloat contract (`C04_numrange`); the array and jsonb decoders of `ext` are arbitrary.  Partial exactly
by the two carve-outs `hk`. -/
theorem C04_all_partial (ext : Ext) (hext : ext.jsonUnmarshal = Model.ScalarsJsonLib.jsonUnmarshal)
    (pf : Model.ParseFloat) (hpf : Spec.ParseFloatOK pf) (hnum : ext.decodeNumeric = numExt pf) (v : Val) (h : v.WF)
    (hk : kfPgLsn v = false ∧ kfTid v = false) : RoundTrip ext v := by
  cases v with
  | bool b => exact C04_bool ext b
  | char c => exact C04_char ext c
  | name s => exact C04_name ext s h
  | int2 i => exact C04_int2 ext i h
  | int4 i => exact C04_int4 ext i h
  | int8 i => exact C04_int8 ext i h
  | oid n => exact C04_oid ext n h
  | xid n => exact C04_xid ext n h
  | cid n => exact C04_cid ext n h
  | tid b o => exact C04_tid_partial ext b o h hk.2
  | float4 b => exact C04_float4 ext b h
  | float8 b => exact C04_float8 ext b h
  | money c => exact C04_money ext c h
  | text ty s => exact C04_text ext ty s h
  | json d ws => exact C04_json ext hext d ws h
  | bytea b => exact C04_bytea ext b h
  | bit vb bits => exact C04_bit ext vb bits h
  | date d => exact C04_date ext d h
  | time us => exact C04_time ext us h
  | timetz us z => exact C04_timetz ext us z h
  | timestamp tz t => exact C04_timestamp ext tz t h
  | interval m d us => exact C04_interval ext m d us h
  | uuid b => exact C04_uuid ext b h
  | pglsn v => exact C04_pglsn_partial ext v h hk.1
  | macaddr b => exact C04_macaddr ext b h
  | macaddr8 b => exact C04_macaddr8 ext b h
  | inet c v6 a bits => exact C04_inet ext c v6 a bits h
  | point p => exact C04_point ext p h
  | lseg a b => exact C04_lseg ext a b h
  | box a b => exact C04_box ext a b h
  | line a b c => exact C04_line ext a b c h
  | circle c r => exact C04_circle ext c r h
  | path c pts => exact C04_path ext c pts h
  | polygon bb pts => exact C04_polygon ext bb pts h
  | range ty flags lo hi =>
    by_cases hty : ty = .num
    · subst hty; exact C04_numrange ext pf hpf hnum flags lo hi h
    · exact C04_range ext ty hty flags lo hi h

/-- non-vacuity of `C04_all_partial`: one `Ext` satisfies both library hypotheses -/
example : ∃ ext : Ext, ext.jsonUnmarshal = Model.ScalarsJsonLib.jsonUnmarshal ∧ ext.decodeNumeric = numExt Spec.parseFloatRef :=
  ⟨{ decodeArray := fun _ _ => pure .nil, decodeNumeric := numExt Spec.parseFloatRef, parseJSONB := fun _ => pure .nil,
     jsonUnmarshal := Model.ScalarsJsonLib.jsonUnmarshal }, rfl, rfl⟩

/-- non-vacuity of the hypotheses: a timestamp beyond year 2262, a negative interval, a `+05:30` zone and an
IPv6 /64 are well-formed values outside every recorded class -/
example : (Val.timestamp false (.fin 2300 1 1 0 0 0 0)).WF ∧ (Val.interval (-14) (-3) (-14706000000)).WF ∧
    (Val.timetz 52200000000 (-19800)).WF ∧ (Val.inet true true (zeros 15 ++ [1]) 64).WF ∧
    kfPgLsn (.timestamp false (.fin 2300 1 1 0 0 0 0)) = false := by decide

end PgVerif.Props.C04
