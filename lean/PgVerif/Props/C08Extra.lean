/-
  C08 statistics (topic E9) — toast.go:AnalyzeTOAST, the code AS IT IS.

  What it computes: for the database named `dbName`, one entry per VISIBLE tuple of base/<oid>/1259 whose data is at
  least 60 bytes long, whose bytes 48..51 (little endian) are a non-zero number `n`, for which base/<oid>/<n> is
  readable and holds at least one TOAST chunk: `(n, number of chunks, number of distinct chunk ids, total payload
  bytes)` — the tallies of `ReadTOASTTable` on that file, equal field by field to what `GetTOASTVerboseInfo` reports
  for it (so `Props.C08.C08_stats` applies to every relation it reaches).

  OBSERVATION (first made by the C10 audit, E3; no property quantifies over AnalyzeTOAST, the code is not patched):
  tuple-data offset 48 is not `reltoastrelid`.  In pg_class of PostgreSQL 12–16 the tuple data starts with `oid`
  (bytes 0..3) and `relname` (a 64-byte NUL-padded name, bytes 4..67); `reltoastrelid` is at offset 108.  Bytes 48..51
  are characters 44..47 of the relation NAME: for every relation whose name is shorter than 45 bytes they are zero and
  the relation is skipped, whatever its reltoastrelid; a relation with a long name is paired with the relation whose id
  its name happens to spell.  `C08_analyzeTOAST_reads_relname` states this for the model; family `extra` (op
  `analyze`) shows the same on the real code (tag `obs=…`).
-/
import PgVerif.Proofs.ExtraToast
import PgVerif.Proofs.HeapEnc
import PgVerif.Props.C08
import PgVerif.Proofs.ClusterStr
set_option linter.unusedSimpArgs false
namespace PgVerif.Props.C08Extra
open PgVerif PgVerif.Model PgVerif.Model.Extra PgVerif.Model.Toast PgVerif.Proofs.Extra

/-- **What AnalyzeTOAST returns.**  Let global/1262 be readable with `dbName` among its databases (oid ≠ 0), pg_class
readable with visible tuples `es`.  Then the result is, in tuple order, `analyzeEntryResult` of every tuple: nothing for
a tuple shorter than 60 bytes, for a zero at offset 48, for an unreadable file or a file without chunks; otherwise the
tallies of ReadTOASTTable on `base/<oid>/<number at offset 48>`. -/
theorem C08_analyzeTOAST (rr : RowReader) (fs : Bytes → Option Bytes) (dbName dbData classData : Bytes)
    (dbs : List DatabaseInfo) (es : List TupleEntry) (chunksOf : Bytes → List Chunk)
    (h1 : fs pathGlobal1262 = some dbData) (h2 : parsePGDatabase rr dbData = .ok dbs) (h3 : findDbOID dbs dbName ≠ 0)
    (h4 : fs (basePath (findDbOID dbs dbName) 1259) = some classData) (h5 : readTuples classData true = .ok es)
    (hc : ∀ d, readTOASTTable d = .ok (chunksOf d)) :
    analyzeTOAST rr fs dbName = .ok (some (es.filterMap fun e => analyzeEntryResult fs (findDbOID dbs dbName) e chunksOf)) := by
  unfold analyzeTOAST
  rw [h1]
  simp only [h2, ok_bind]
  rw [if_neg h3, h4]
  simp only [h5, ok_bind]
  rw [Proofs.collectM_map_ok (analyzeEntry fs (findDbOID dbs dbName)) (fun e => analyzeEntryResult fs (findDbOID dbs dbName) e chunksOf) es
    (fun e _ => analyzeEntry_eq fs _ e chunksOf hc)]
  rfl

/-- the hypotheses of `C08_analyzeTOAST` are satisfiable: a row reader that finds one pg_database row (oid 5, name "d"),
a tree in which every path holds an empty file -/
example : ∃ (rr : RowReader) (fs : Bytes → Option Bytes) (dbs : List DatabaseInfo),
    fs pathGlobal1262 = some [] ∧ parsePGDatabase rr [] = .ok dbs ∧ findDbOID dbs [100] ≠ 0 ∧
    fs (basePath (findDbOID dbs [100]) 1259) = some [] ∧ readTuples [] true = .ok [] := by
  refine ⟨fun _ _ _ => pure [[(strBytes "oid", .int 5), (strBytes "datname", .str [100])]], fun _ => some [], [⟨5, [100]⟩],
    rfl, ?_, by decide, rfl, rfl⟩
  have hne : (strBytes "datname" == strBytes "oid") = false := by
    rw [beq_eq_false_iff_ne]
    intro h
    exact absurd (Proofs.Cluster.strBytes_inj _ _ h) (by decide)
  simp [parsePGDatabase, getOID, getString, List.lookup, hne]

/-- the error cases: global/1262 unreadable; the name is not in pg_database; pg_class unreadable -/
theorem C08_analyzeTOAST_errors (rr : RowReader) (fs : Bytes → Option Bytes) (dbName : Bytes) :
    (fs pathGlobal1262 = none → analyzeTOAST rr fs dbName = .ok none) ∧
    (∀ dbData dbs, fs pathGlobal1262 = some dbData → parsePGDatabase rr dbData = .ok dbs → findDbOID dbs dbName = 0 →
        analyzeTOAST rr fs dbName = .ok none) ∧
    (∀ dbData dbs, fs pathGlobal1262 = some dbData → parsePGDatabase rr dbData = .ok dbs → findDbOID dbs dbName ≠ 0 →
        fs (basePath (findDbOID dbs dbName) 1259) = none → analyzeTOAST rr fs dbName = .ok none) := by
  refine ⟨?_, ?_, ?_⟩
  · intro h; unfold analyzeTOAST; rw [h]; rfl
  · intro dbData dbs h1 h2 h3
    unfold analyzeTOAST; rw [h1]; simp only [h2, ok_bind]; rw [if_pos h3]; rfl
  · intro dbData dbs h1 h2 h3 h4
    unfold analyzeTOAST; rw [h1]; simp only [h2, ok_bind]; rw [if_neg h3, h4]; rfl

/-- **Every entry is the tally of a TOAST relation file.**  Each reported entry names a relation `n` for which
base/<oid>/<n> exists and ReadTOASTTable finds chunks there, and its three numbers are that file's chunk count, number
of distinct chunk ids and total payload size. -/
theorem C08_analyzeTOAST_entries (fs : Bytes → Option Bytes) (dbOID : Nat) (e : TupleEntry) (chunksOf : Bytes → List Chunk)
    (i : TOASTInfo) (h : analyzeEntryResult fs dbOID e chunksOf = some i) :
    ∃ d, fs (basePath dbOID i.toastRelID) = some d ∧ chunksOf d ≠ [] ∧ i = toastTally i.toastRelID (chunksOf d) ∧
      i.toastRelID = rd 4 (e.tuple.data.drop 48) ∧ 60 ≤ e.tuple.data.length := by
  unfold analyzeEntryResult at h
  by_cases h60 : e.tuple.data.length < 60
  · rw [if_pos h60] at h; cases h
  · rw [if_neg h60] at h
    simp only at h
    by_cases h0 : rd 4 (List.drop 48 e.tuple.data) = 0
    · rw [if_pos h0] at h; cases h
    · rw [if_neg h0] at h
      cases hf : fs (basePath dbOID (rd 4 (List.drop 48 e.tuple.data))) with
      | none => rw [hf] at h; cases h
      | some d =>
        rw [hf] at h
        simp only at h
        by_cases hl : (chunksOf d).length = 0
        · rw [if_pos hl] at h; cases h
        · rw [if_neg hl] at h
          injection h with h
          subst h
          refine ⟨d, hf, ?_, rfl, rfl, by omega⟩
          intro hnil; rw [hnil] at hl; exact hl rfl

/-- **The tallies are GetTOASTVerboseInfo's.**  On the same chunk list AnalyzeTOAST's relation id, chunk count,
distinct-value count and total size equal the fields of the same names of GetTOASTVerboseInfo's report; hence on a
well-formed TOAST relation they are the statistics of its live rows (`Props.C08.C08_stats`). -/
theorem C08_analyzeTOAST_tallies (relid : Nat) (chunks : List Chunk) :
    (toastTally relid chunks).toastRelID = (buildInfo relid chunks).toastRelID ∧
    (toastTally relid chunks).totalChunks = (buildInfo relid chunks).totalChunks ∧
    (toastTally relid chunks).uniqueValues = (buildInfo relid chunks).uniqueValues ∧
    (toastTally relid chunks).totalSize = (buildInfo relid chunks).totalSize :=
  toastTally_eq_buildInfo relid chunks

/-- … spelled out on a well-formed TOAST relation with live rows `rows`: AnalyzeTOAST's tally of the encoded relation
counts the live rows, sums their payload sizes, and its `uniqueValues` is the number of distinct chunk ids among them
(`ids` lists each id that occurs, once).  Dead / aborted chunk versions are not counted. -/
theorem C08_analyzeTOAST_stats (relid : Nat) (lay : Spec.Toast.Layout) (h : lay.WF) (hne : lay.liveRows ≠ []) :
    ∃ chunks, readTOASTTable (Spec.Toast.encToastRel lay) = .ok chunks ∧
      (toastTally relid chunks).totalChunks = lay.liveRows.length ∧
      (toastTally relid chunks).totalSize = (lay.liveRows.map (·.data.length)).sum ∧
      ∃ ids : List Nat, ids.Pairwise (· ≠ ·) ∧ (∀ k, k ∈ ids ↔ ∃ r ∈ lay.liveRows, r.id = k) ∧
        (toastTally relid chunks).uniqueValues = ids.length := by
  obtain ⟨i, hi, hs⟩ := (Props.C08.C08_stats relid lay h).2 hne
  unfold getTOASTVerboseInfo getTOASTVerboseInfoWith at hi
  cases hc : readTOASTTable (Spec.Toast.encToastRel lay) with
  | error e => rw [hc] at hi; cases hi
  | ok chunks =>
    rw [hc] at hi
    simp only [ok_bind] at hi
    by_cases hl : chunks.length = 0
    · rw [if_pos hl] at hi; cases hi
    · rw [if_neg hl] at hi
      injection hi with hi; injection hi with hi
      have ht := toastTally_eq_buildInfo relid chunks
      unfold buildInfo at ht
      rw [hi] at ht
      refine ⟨chunks, rfl, ?_, ?_, i.values.map (·.chunkID), hs.valuesDistinct, ?_, ?_⟩
      · rw [ht.2.1]; exact hs.totalChunks
      · rw [ht.2.2.2]; exact hs.totalSize
      · intro k
        constructor
        · intro hk
          obtain ⟨x, hx, rfl⟩ := List.mem_map.1 hk
          obtain ⟨hcnt, hnz, _⟩ := hs.valuesTally x hx
          have : (lay.liveRows.filter (·.id == x.chunkID)) ≠ [] := by
            intro hnil; rw [hnil] at hcnt; exact hnz hcnt
          obtain ⟨r, hr⟩ := List.exists_mem_of_ne_nil _ this
          rw [List.mem_filter] at hr
          exact ⟨r, hr.1, by simpa using hr.2⟩
        · rintro ⟨r, hr, rfl⟩
          obtain ⟨x, hx, hxr⟩ := hs.valuesAll r hr
          exact List.mem_map.2 ⟨x, hx, hxr⟩
      · rw [ht.2.2.1, hs.unique, List.length_map]

/-- **The observation: offset 48 is inside relname.**  A pg_class tuple's data begins `oid (4 bytes) ++ relname (64
bytes, NUL padded) ++ …`.  For every such tuple whose name has at most 44 bytes, the number AnalyzeTOAST reads is 0 and
the tuple is skipped — whatever follows the name, `reltoastrelid` (offset 108) included, and whatever files exist. -/
theorem C08_analyzeTOAST_reads_relname (fs : Bytes → Option Bytes) (dbOID : Nat) (chunksOf : Bytes → List Chunk)
    (hdr : TupleHeader) (bm : Option Bytes) (off : Nat) (oid name rest : Bytes)
    (ho : oid.length = 4) (hn : name.length ≤ 44) :
    analyzeEntryResult fs dbOID ⟨⟨hdr, bm, oid ++ (name ++ zeros (64 - name.length)) ++ rest⟩, off⟩ chunksOf = none := by
  unfold analyzeEntryResult
  simp only
  by_cases h60 : (oid ++ (name ++ zeros (64 - name.length)) ++ rest).length < 60
  · rw [if_pos h60]
  · rw [if_neg h60]
    have hz : rd 4 (List.drop 48 (oid ++ (name ++ zeros (64 - name.length)) ++ rest)) = 0 := by
      have hsplit : zeros (64 - name.length) = zeros (44 - name.length) ++ (zeros 4 ++ zeros 16) := by
        unfold zeros
        rw [List.replicate_append_replicate, List.replicate_append_replicate]
        congr 1
        omega
      rw [hsplit]
      have hpre : (oid ++ (name ++ zeros (44 - name.length))).length = 48 := by
        simp only [List.length_append, zeros_length, ho]; omega
      have : oid ++ (name ++ (zeros (44 - name.length) ++ (zeros 4 ++ zeros 16))) ++ rest =
          (oid ++ (name ++ zeros (44 - name.length))) ++ (le 4 0 ++ (zeros 16 ++ rest)) := by
        simp only [List.append_assoc]
        rfl
      rw [this]
      have hd : List.drop 48 ((oid ++ (name ++ zeros (44 - name.length))) ++ (le 4 0 ++ (zeros 16 ++ rest))) =
          le 4 0 ++ (zeros 16 ++ rest) := List.drop_left' hpre
      rw [hd]
      exact rd_le 4 0 _ (by decide)
    rw [if_pos hz]

/-- a concrete pg_class-shaped tuple: oid 16384, name "t", reltoastrelid 16385 at offset 108 — skipped, although every
path holds a file -/
example : analyzeEntryResult (fun _ => some [1]) 5
    ⟨⟨⟨24, 33, 2304, true, true, false, false⟩, none,
      [0, 64, 0, 0] ++ ([116] ++ zeros (64 - [116].length)) ++ (zeros 40 ++ [1, 64, 0, 0] ++ zeros 20)⟩, 0⟩ (fun _ => [⟨1, 0, [1]⟩]) = none :=
  C08_analyzeTOAST_reads_relname _ 5 _ _ none 0 [0, 64, 0, 0] [116] _ rfl (by decide)

/-- a pg_class-shaped tuple whose relation is NAMED so that characters 44..47 of the name spell 7 -/
def longNameTuple : TupleEntry :=
  ⟨⟨⟨24, 33, 2304, true, true, false, false⟩, none, [0, 64, 0, 0] ++ (List.replicate 44 97 ++ [7] ++ zeros 19) ++ zeros 60⟩, 0⟩

/-- … and the converse: that relation is paired with relation 7 (three chunks of two values, four payload bytes) -/
example : analyzeEntryResult (fun _ => some [1]) 5 longNameTuple
    (fun _ => [⟨1, 0, [1, 2]⟩, ⟨1, 1, [3]⟩, ⟨2, 0, [4]⟩]) = some ⟨7, 3, 2, 4⟩ := by
  set_option maxRecDepth 4096 in decide

end PgVerif.Props.C08Extra
