/-
  C10 (area export) — the export functions cannot fault.
  sql.go and csv.go take structured values (DumpResult / DatabaseDump / TableDump), not bytes, and contain no slicing,
  indexing, division or type assertion that can fail: map lookups use the comma-ok form, loops range over the slices they
  index.  Accordingly the Lean models (Model/ExportSql.lean, Model/ExportCsv.lean) are total functions into byte strings,
  not into the fault monad, and totality is immediate: for EVERY dump — columns and rows that do not match, nil rows,
  duplicate or empty names, any nesting depth — a result exists.  What remains outside the model (Go-level stack depth on
  deep nesting, the writer's errors) is exercised by family `exportmut`.
-/
import PgVerif.Model.ExportCsv
namespace PgVerif.Props.C10.Export
open PgVerif PgVerif.Export PgVerif.Model.Export

/-- TableDump.ToSQL produces a text for every table, float rendering and row/column shape. -/
theorem C10_total_tableToSQL (F : FloatFmt) (t : TableDump) : ∃ r : Bytes, tableToSQL F t = r := ⟨_, rfl⟩

/-- DumpResult.ToSQL produces a text for every dump and every timestamp text. -/
theorem C10_total_toSQL (F : FloatFmt) (now : Bytes) (d : DumpResult) : ∃ r : Bytes, toSQL F now d = r := ⟨_, rfl⟩

/-- TableDump.ToCSV produces a text for every table. -/
theorem C10_total_tableToCSV (F : FloatFmt) (t : TableDump) : ∃ r : Bytes, tableToCSV F t = r := ⟨_, rfl⟩

/-- DumpResult.ToCSV produces a text for every dump. -/
theorem C10_total_toCSV (F : FloatFmt) (d : DumpResult) : ∃ r : Bytes, toCSV F d = r := ⟨_, rfl⟩

/-- formatSQLValue and formatCSVValue produce a text for every value of every kind and nesting. -/
theorem C10_total_formatValue (F : FloatFmt) (v : GoVal) :
    (∃ r : Bytes, formatSQLValue F v = r) ∧ (∃ r : Bytes, formatCSVValue F v = r) := ⟨⟨_, rfl⟩, ⟨_, rfl⟩⟩

end PgVerif.Props.C10.Export
