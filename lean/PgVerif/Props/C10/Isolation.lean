/-
  C10 — "Damage confined to one page, one tuple or one value does not change what is reported for the others":
  the tuple level and the value level (the page level is `Heap.C10_isolate_heap`, `Index.C10_isolate_index`,
  `Block.C10_isolate_checksum`, `Props.C17.C17_pages`).

  Tuple level (page.go:ParsePage, heap.go:ReadTuples): `C10_isolate_tuple`, `C10_isolate_tuple_file`.
  Value level (heap.go:DecodeTuple): `C10_isolate_value_before` (columns in front of a damaged value),
  `C10_isolate_value_after` (columns behind it: unchanged exactly when the damaged value still ends at the same
  offset), and the counter-example `C10_value_after_shift` showing that the second hypothesis cannot be dropped.
  Helper lemmas: Proofs/Isolation.lean, Proofs/IsolationRows.lean.  No well-formedness of any byte is assumed.
-/
import PgVerif.Proofs.Isolation
import PgVerif.Proofs.IsolationRows
import PgVerif.Proofs.PageSize
namespace PgVerif.Props.C10.Isolation
open PgVerif PgVerif.Model PgVerif.Proofs PgVerif.Proofs.Isolation

/-- **Tuple-level isolation in one page.**  `data` is a page (at least 8192 bytes) with a valid header `h` whose
line-pointer array parses to `pre ++ bad :: post`.  `data'` is ANY page of the same length that differs from `data` only
inside the storage `[bad.offset, bad.offset + bad.length)` of the one pointer `bad` — the tuple behind it damaged in any
way.  If that storage begins behind the line-pointer array and no other NORMAL pointer (flags = 1, length ≠ 0) overlaps
it — PostgreSQL never overlaps tuples; a pointer in any other state may point anywhere — then ParsePage reports on both
pages exactly the same tuples for `pre` (list `A`) and for `post` (list `B`), in the same order; only the entry of `bad`
itself (`r` vs `r'`: a tuple, another tuple, or nothing) can differ. -/
theorem C10_isolate_tuple (data data' : Bytes) (h : PageHeader) (pre post : List ItemID) (bad : ItemID)
    (hd : 8192 ≤ data.length) (hh : parseHeader data = .ok h) (hv : validHeader h = true)
    (hi : parseItems data h.lower = .ok (pre ++ bad :: post))
    (hagree : AgreeOutside data data' bad.offset (bad.offset + bad.length))
    (hlow : 24 + 4 * itemCount h.lower ≤ bad.offset)
    (hdis : ∀ it ∈ pre ++ post, it.flags = 1 → it.length ≠ 0 →
      it.offset + it.length ≤ bad.offset ∨ bad.offset + bad.length ≤ it.offset) :
    ∃ (A B : List HeapTuple) (r r' : Option HeapTuple),
      parsePage data = .ok (A ++ r.toList ++ B) ∧ parsePage data' = .ok (A ++ r'.toList ++ B) := by
  have hd' : 8192 ≤ data'.length := by rw [hagree.1]; exact hd
  have hh' : parseHeader data' = .ok h := by rw [parseHeader_eq hagree (by omega)]; exact hh
  have hi' : parseItems data' h.lower = .ok (pre ++ bad :: post) := by rw [parseItems_eq hagree _ hlow]; exact hi
  -- every other pointer is reported the same on both pages
  have hsame : ∀ it ∈ pre ++ post, pageItem data' h.upper it = pageItem data h.upper it := by
    intro it hit
    by_cases hn : it.flags = 1 ∧ it.length ≠ 0
    · exact pageItem_eq hagree _ _ (hdis it hit hn.1 hn.2)
    · have hc : (it.flags != 1 || it.length == 0) = true := by
        by_cases hf : it.flags = 1
        · have : it.length = 0 := by
            apply Classical.byContradiction; intro hl; exact hn ⟨hf, hl⟩
          simp [this]
        · simp [hf]
      unfold pageItem
      simp only [hc, if_true]
  obtain ⟨A, hA⟩ := collectM_total (pageItem data h.upper) pre (pageItem_total data hd h.upper)
  obtain ⟨B, hB⟩ := collectM_total (pageItem data h.upper) post (pageItem_total data hd h.upper)
  obtain ⟨r, hr⟩ := pageItem_total data hd h.upper bad
  obtain ⟨r', hr'⟩ := pageItem_total data' hd' h.upper bad
  have hA' : collectM (pageItem data' h.upper) pre = .ok A := by
    rw [collectM_congr _ (pageItem data h.upper) pre (fun x hx => hsame x (by simp [hx]))]; exact hA
  have hB' : collectM (pageItem data' h.upper) post = .ok B := by
    rw [collectM_congr _ (pageItem data h.upper) post (fun x hx => hsame x (by simp [hx]))]; exact hB
  refine ⟨A, B, r, r', ?_, ?_⟩
  · rw [parsePage_items data hd h hh hv _ hi]
    have := collectM_append (pageItem data h.upper) pre (bad :: post) A (r.toList ++ B) hA
      (collectM_append (pageItem data h.upper) [bad] post _ B (collectM_single _ bad r hr) hB)
    simpa using this
  · rw [parsePage_items data' hd' h hh' hv _ hi']
    have := collectM_append (pageItem data' h.upper) pre (bad :: post) A (r'.toList ++ B) hA'
      (collectM_append (pageItem data' h.upper) [bad] post _ B (collectM_single _ bad r' hr') hB')
    simpa using this

/-- **Tuple-level isolation in a file.**  The same inside a heap file `a ++ page ++ b` (`a` a whole number of pages):
damage to one tuple's storage in `page` changes nothing of what ReadTuples reports for the pages of `a`, for the
pages of `b`, or for the other tuples of `page` — the scan of the damaged file is the scan of `a`, then `page'`'s
tuples (which by `C10_isolate_tuple` differ from `page`'s only in the damaged tuple's entry), then the scan of `b`. -/
theorem C10_isolate_tuple_file (a page page' b : Bytes) (vis : Bool) (ha : a.length % 8192 = 0)
    (hp : page.length = 8192) (hp' : page'.length = 8192) :
    readTuples (a ++ (page ++ b)) vis =
      (do let ra ← readTuples a vis; let rp ← readTuples page vis; let rb ← readTuples b vis
          pure (ra ++ (rp ++ rb.map (shiftE 8192)).map (shiftE a.length))) ∧
    readTuples (a ++ (page' ++ b)) vis =
      (do let ra ← readTuples a vis; let rp ← readTuples page' vis; let rb ← readTuples b vis
          pure (ra ++ (rp ++ rb.map (shiftE 8192)).map (shiftE a.length))) := by
  constructor
  · rw [readTuples_append a (page ++ b) vis (a.length / 8192) (by omega),
      readTuples_append page b vis 1 (by omega), hp]
    cases readTuples a vis <;> cases readTuples page vis <;> cases readTuples b vis <;> rfl
  · rw [readTuples_append a (page' ++ b) vis (a.length / 8192) (by omega),
      readTuples_append page' b vis 1 (by omega), hp']
    cases readTuples a vis <;> cases readTuples page' vis <;> cases readTuples b vis <;> rfl

/-! ## value level: heap.go:DecodeTuple -/

/-- **Columns in front of a damaged value.**  Let the columns `cs₁` of a tuple decode (on the undamaged data) to the pairs
`ps` and end at data offset `e` — so the storage of the next column, the damaged one, begins at `e`.  Let `data'` be ANY
data of the same length with the same bytes below `e` whose byte at `e` is 18 in both or in neither (`SameUpTo`: the
damage may change everything from `e` on, except that it neither creates nor removes the external-pointer tag 18 in the
very first damaged byte — see `C10_value_before_lookahead` for why that one byte value matters).  Then DecodeTuple's column
loop reports on BOTH tuples exactly the pairs `ps` for `cs₁`, and continues with the remaining columns `cs₂` from the same
offset `e`: a damaged value does not change any column in front of it.  Holds for every schema (hostile lengths,
alignments, attribute numbers) and every scalar decoder. -/
theorem C10_isolate_value_before (dec : Dec) (hdr : TupleHeader) (bm : Option Bytes) (data data' : Bytes)
    (cs₁ cs₂ : List Column) (ps : List (Bytes × GoVal)) (e : Nat)
    (h1 : decodeColsOff dec ⟨hdr, bm, data⟩ cs₁ 0 0 = .ok (ps, e)) (hs : SameUpTo data data' e) :
    decodeCols dec ⟨hdr, bm, data⟩ (cs₁ ++ cs₂) 0 0 =
      (do let rest ← decodeCols dec ⟨hdr, bm, data⟩ cs₂ cs₁.length e; pure (ps ++ rest)) ∧
    decodeCols dec ⟨hdr, bm, data'⟩ (cs₁ ++ cs₂) 0 0 =
      (do let rest ← decodeCols dec ⟨hdr, bm, data'⟩ cs₂ cs₁.length e; pure (ps ++ rest)) := by
  have h2 := decodeColsOff_prefix dec hdr bm hs cs₁ 0 0 ps e h1 (Nat.le_refl _)
  constructor
  · rw [decodeCols_append, h1]; simp only [ok_bind, Nat.zero_add]
  · rw [decodeCols_append, h2]; simp only [ok_bind, Nat.zero_add]

/-- **Columns behind a damaged value** — what exactly holds.  The columns `cs₂` behind the columns `cs₁` (the last of
which is damaged) are decoded from the offset at which `cs₁` ended.  If the damage leaves the data length and all bytes
from `o` on intact and `cs₁` still ends at the same offset `e ≥ o` on the damaged tuple (a fixed-width value damaged in
place, a varlena whose length word survived), then `cs₂` decodes to exactly the same pairs on both tuples.  If the damaged
value's length changes, the columns behind it are read from a different offset and may all change, although their own
bytes are intact (`C10_value_after_shift`): DecodeTuple has no per-value framing that could prevent that. -/
theorem C10_isolate_value_after (dec : Dec) (hdr : TupleHeader) (bm : Option Bytes) (data data' : Bytes)
    (cs₁ cs₂ : List Column) (ps ps' : List (Bytes × GoVal)) (e o : Nat)
    (hl : data'.length = data.length) (hs : data'.drop o = data.drop o) (ho : o ≤ e)
    (h1 : decodeColsOff dec ⟨hdr, bm, data⟩ cs₁ 0 0 = .ok (ps, e))
    (h2 : decodeColsOff dec ⟨hdr, bm, data'⟩ cs₁ 0 0 = .ok (ps', e)) :
    decodeCols dec ⟨hdr, bm, data⟩ (cs₁ ++ cs₂) 0 0 =
      (do let rest ← decodeCols dec ⟨hdr, bm, data⟩ cs₂ cs₁.length e; pure (ps ++ rest)) ∧
    decodeCols dec ⟨hdr, bm, data'⟩ (cs₁ ++ cs₂) 0 0 =
      (do let rest ← decodeCols dec ⟨hdr, bm, data⟩ cs₂ cs₁.length e; pure (ps' ++ rest)) := by
  constructor
  · rw [decodeCols_append, h1]; simp only [ok_bind, Nat.zero_add]
  · rw [decodeCols_append, h2]; simp only [ok_bind, Nat.zero_add]
    rw [decodeCols_suffix dec hdr bm hl hs cs₂ cs₁.length e ho]

/-- the decoder of the examples: every value is its raw bytes -/
def rawDec : Dec := fun b _ => pure (.str b)

def exHdr : TupleHeader := ⟨0, 0, 0, false, false, false, false⟩
def colV (n : UInt8) : Column := ⟨[n], 25, -1, 0, 1⟩        -- a varlena column, alignment 1
def colC (n : UInt8) : Column := ⟨[n], 18, 1, 0, 1⟩         -- a 1-byte fixed column

/-- Why the "same end offset" hypothesis of `C10_isolate_value_after` cannot be dropped: the tuple `05 41 42` under the
schema (varlena a, 1-byte b) decodes to a = "A", b = "B"; damaging only the length byte of `a` (05 → 07) gives
a = "AB" and b = NULL — b changes although its own byte is intact. -/
theorem C10_value_after_shift :
    decodeCols rawDec ⟨exHdr, none, [0x05, 0x41, 0x42]⟩ [colV 97, colC 98] 0 0 = .ok [([97], .str [0x41]), ([98], .str [0x42])] ∧
    decodeCols rawDec ⟨exHdr, none, [0x07, 0x41, 0x42]⟩ [colV 97, colC 98] 0 0 = .ok [([97], .str [0x41, 0x42]), ([98], .nil)] := by
  constructor <;> rfl

/-- Why `SameUpTo` speaks about the byte at `e`: behind a `0x01` header ReadVarlena looks at the tag byte and consumes
18 bytes when it is 18 (an on-disk TOAST pointer) but only the header byte otherwise.  Here column `a` ends at offset 1
on the first tuple; changing only the byte AT offset 1 (00 → 12 hex) leaves a's value (NULL) unchanged but moves its end
to 18, so the column behind it is read from offset 18 instead of 1. -/
theorem C10_value_before_lookahead :
    decodeColsOff rawDec ⟨exHdr, none, 0x01 :: 0x00 :: List.replicate 17 0x41⟩ [colV 97] 0 0 = .ok ([([97], .nil)], 1) ∧
    decodeColsOff rawDec ⟨exHdr, none, 0x01 :: 0x12 :: List.replicate 17 0x41⟩ [colV 97] 0 0 = .ok ([([97], .nil)], 18) := by
  constructor <;> rfl

/-- the hypotheses of `C10_isolate_value_before` are satisfiable by a real damage: `05 41 | 42 43` vs `05 41 | ff 00` under
(varlena a), e = 2 -/
example : decodeColsOff rawDec ⟨exHdr, none, [0x05, 0x41, 0x42, 0x43]⟩ [colV 97] 0 0 = .ok ([([97], .str [0x41])], 2) ∧
    SameUpTo [0x05, 0x41, 0x42, 0x43] [0x05, 0x41, 0xff, 0x00] 2 := by
  refine ⟨rfl, rfl, ?_, ?_⟩
  · intro j hj
    match j, hj with
    | 0, _ => rfl
    | 1, _ => rfl
  · decide

/-- the hypotheses of `C10_isolate_tuple` are satisfiable: a page with two NORMAL pointers to disjoint tuples, the second
damaged -/
example : AgreeOutside [1, 2, 3, 4] [1, 9, 9, 4] 1 3 := by
  refine ⟨rfl, ?_⟩
  intro i hi
  match i, hi with
  | 0, _ => rfl
  | 1, h => omega
  | 2, h => omega
  | (n+3), _ => rfl

/-! ## resource clause at the tuple level: what one page can report -/

/-- **One page reports at most one page of tuple data — when line pointers do not share storage.**  For ANY page bytes
(at least 8192) with a valid header whose line-pointer array parses to `items`: if the storage areas of the pointers
ParsePage accepts (NORMAL, non-empty, inside `[pd_upper, 8192)`) are pairwise disjoint, the data bytes of all reported
tuples add up to at most 8192.  The hypothesis `hdis` is exactly the class carved out by the OPEN finding
`C10-page-alias`: PostgreSQL never overlaps tuples, ParsePage does not check it, and without it nothing bounds the sum
(n pointers to one tuple report n copies: family `resource`, cases 0–2, reports "amplified"). -/
theorem C10_size_parsePage_disjoint (data : Bytes) (h : PageHeader) (items : List ItemID) (ts : List HeapTuple)
    (hd : 8192 ≤ data.length) (hh : parseHeader data = .ok h) (hv : validHeader h = true)
    (hi : parseItems data h.lower = .ok items)
    (hdis : (items.filter (PageSize.accepted h.upper)).Pairwise PageSize.Disj)
    (hp : parsePage data = .ok ts) : (ts.map fun t => t.data.length).sum ≤ 8192 := by
  rw [parsePage_items data hd h hh hv items hi] at hp
  exact Nat.le_trans (PageSize.collect_weight data hd h.upper items ts hp) (PageSize.weight_le_page h.upper items hdis)

/-- the hypothesis is satisfiable (two accepted pointers with disjoint storage) and is what fails for aliasing pointers -/
example : ([⟨8000, 100, 1⟩, ⟨8100, 92, 1⟩].filter (PageSize.accepted 7000)).Pairwise PageSize.Disj := by
  simp [PageSize.accepted, PageSize.Disj]
example : ¬ ([⟨8000, 100, 1⟩, ⟨8000, 100, 1⟩].filter (PageSize.accepted 7000)).Pairwise PageSize.Disj := by
  simp [PageSize.accepted, PageSize.Disj]

end PgVerif.Props.C10.Isolation
