/-
  C10 — "Damage confined to one page, one tuple or one value does not change what is reported for the others":
  the tuple level and the value level (the page level is `Heap.C10_isolate_heap`, `Index.C10_isolate_index`,
  `Block.C10_isolate_checksum`, `Props.C17.C17_pages`).

  Tuple level (page.go:ParsePage, heap.go:ReadTuples): `C10_isolate_tuple`, `C10_isolate_tuple_file`.
  Value level (heap.go:DecodeTuple): `C10_isolate_value_before` (columns in front of a damaged value),
  `C10_isolate_value_after` (columns behind it: unchanged exactly when the damaged value still ends at the same
  offset), and the counter-example `C10_value_after_shift` showing that the second hypothesis cannot be dropped.
  Resource clause at the tuple level: `C10_size_parsePage`, `C10_size_readTuples` (unconditional since fix heap/02).
  Helper lemmas: Proofs/Isolation.lean, Proofs/IsolationRows.lean, Proofs/PageSize.lean.  No well-formedness of any byte
  is assumed.
-/
import PgVerif.Proofs.Isolation
import PgVerif.Proofs.IsolationRows
import PgVerif.Proofs.PageSize
namespace PgVerif.Props.C10.Isolation
open PgVerif PgVerif.Model PgVerif.Proofs PgVerif.Proofs.Isolation

/-- **Tuple-level isolation in one page.**  `data` is a page (at least 8192 bytes) with a valid header `h` whose
line-pointer array parses to `pre ++ bad :: post`.  `data'` is ANY page of the same length that differs from `data` only
inside the storage `[bad.offset, bad.offset + bad.length)` of the one pointer `bad` — the tuple behind it damaged in any
way.  If that storage begins behind the line-pointer array and no other NORMAL pointer (flags = 1, length ≠ 0) overlaps
it (otherwise the damage is not confined to ONE tuple; a pointer in any other state may point anywhere) then ParsePage
reports on both pages exactly the same tuples for `pre` (list `A`) and for `post` (list `B`), in the same order; only the
entry of `bad` itself (`r` vs `r'`: a tuple, another tuple, or nothing) can differ.  This holds with the overlap guard of
ParsePage (fix heap/02) in place: whether `bad` is reported or not changes what is claimed, but no other NORMAL pointer
touches that storage, and the pointers of `pre` / `post` may overlap EACH OTHER in any way (the guard then decides the
same on both pages). -/
theorem C10_isolate_tuple (data data' : Bytes) (h : PageHeader) (pre post : List ItemID) (bad : ItemID)
    (hd : 8192 ≤ data.length) (hh : parseHeader data = .ok h) (hv : validHeader h = true)
    (hi : parseItems data h.lower = .ok (pre ++ bad :: post))
    (hagree : AgreeOutside data data' bad.offset (bad.offset + bad.length))
    (hlow : 24 + 4 * itemCount h.lower ≤ bad.offset)
    (hdis : ∀ it ∈ pre ++ post, it.flags = 1 → it.length ≠ 0 →
      it.offset + it.length ≤ bad.offset ∨ bad.offset + bad.length ≤ it.offset) :
    ∃ (A B : List HeapTuple) (r r' : Option HeapTuple),
      parsePage data = .ok (A ++ r.toList ++ B) ∧ parsePage data' = .ok (A ++ r'.toList ++ B) := by
  have hd' : 8192 ≤ data'.length := by rw [hagree.1]; exact hd
  have hh' : parseHeader data' = .ok h := by rw [parseHeader_eq hagree (by omega)]; exact hh
  have hi' : parseItems data' h.lower = .ok (pre ++ bad :: post) := by rw [parseItems_eq hagree _ hlow]; exact hi
  -- every other pointer's own step is the same on both pages
  have hsame : ∀ it ∈ pre ++ post, pageItem data' h.upper it = pageItem data h.upper it := by
    intro it hit
    by_cases hn : it.flags = 1 ∧ it.length ≠ 0
    · exact pageItem_eq hagree _ _ (hdis it hit hn.1 hn.2)
    · have hc : (it.flags != 1 || it.length == 0) = true := by
        by_cases hf : it.flags = 1
        · have : it.length = 0 := by
            apply Classical.byContradiction; intro hl; exact hn ⟨hf, hl⟩
          simp [this]
        · simp [hf]
      unfold pageItem
      simp only [hc, if_true]
  have hsame_pre : ∀ it ∈ pre, pageItem data' h.upper it = pageItem data h.upper it := fun x hx => hsame x (by simp [hx])
  have hsame_post : ∀ it ∈ post, pageItem data' h.upper it = pageItem data h.upper it := fun x hx => hsame x (by simp [hx])
  -- what `pre` reports and claims is the same on both pages
  obtain ⟨A, hA⟩ := pageLoop_total data hd h.upper pre []
  have hA' : pageLoop data' h.upper pre [] = .ok A := by
    rw [pageLoop_congr h.upper pre [] [] hsame_pre (fun _ _ _ _ => rfl)]; exact hA
  have hc' : claimedBy data' h.upper pre [] = claimedBy data h.upper pre [] := claimedBy_congr h.upper pre [] hsame_pre
  obtain ⟨c1, hc1⟩ : ∃ c1, c1 = claimedBy data h.upper pre [] := ⟨_, rfl⟩
  -- `post` reports the same on both pages, whether or not `bad` was claimed
  obtain ⟨B, hB⟩ := pageLoop_total data hd h.upper post c1
  have hbad : ∀ it ∈ post, it.flags = 1 → it.length ≠ 0 → overlapsAny (c1 ++ [bad]) it = overlapsAny c1 it := by
    intro it hit h1 h2
    have hno : it.overlaps bad = false := by
      rw [overlaps_false_iff]
      rcases hdis it (by simp [hit]) h1 h2 with hl | hr
      · exact Or.inr hl
      · exact Or.inl hr
    rw [overlapsAny_append, overlapsAny_single, hno, Bool.or_false]
  have hB1 : pageLoop data h.upper post (c1 ++ [bad]) = .ok B := by
    rw [pageLoop_congr h.upper post c1 (c1 ++ [bad]) (fun _ _ => rfl) hbad]; exact hB
  have hB' : pageLoop data' h.upper post c1 = .ok B := by
    rw [pageLoop_congr h.upper post c1 c1 hsame_post (fun _ _ _ _ => rfl)]; exact hB
  have hB1' : pageLoop data' h.upper post (c1 ++ [bad]) = .ok B := by
    rw [pageLoop_congr h.upper post c1 (c1 ++ [bad]) hsame_post hbad]; exact hB
  obtain ⟨r, hr⟩ := pageItemG_total data hd h.upper c1 bad
  obtain ⟨r', hr'⟩ := pageItemG_total data' hd' h.upper c1 bad
  refine ⟨A, B, r, r', ?_, ?_⟩
  · rw [parsePage_items data hd h hh hv _ hi, pageLoop_append, hA, ← hc1]
    simp only [ok_bind]
    cases r with
    | none => rw [pageLoop_cons_none _ _ _ _ _ hr, hB]; simp
    | some t => rw [pageLoop_cons_some _ _ _ _ _ t hr, hB1]; simp
  · rw [parsePage_items data' hd' h hh' hv _ hi', pageLoop_append, hA', hc', ← hc1]
    simp only [ok_bind]
    cases r' with
    | none => rw [pageLoop_cons_none _ _ _ _ _ hr', hB']; simp
    | some t => rw [pageLoop_cons_some _ _ _ _ _ t hr', hB1']; simp

/-- **Tuple-level isolation in a file.**  The same inside a heap file `a ++ page ++ b` (`a` a whole number of pages):
damage to one tuple's storage in `page` changes nothing of what ReadTuples reports for the pages of `a`, for the
pages of `b`, or for the other tuples of `page` — the scan of the damaged file is the scan of `a`, then `page'`'s
tuples (which by `C10_isolate_tuple` differ from `page`'s only in the damaged tuple's entry), then the scan of `b`. -/
theorem C10_isolate_tuple_file (a page page' b : Bytes) (vis : Bool) (ha : a.length % 8192 = 0)
    (hp : page.length = 8192) (hp' : page'.length = 8192) :
    readTuples (a ++ (page ++ b)) vis =
      (do let ra ← readTuples a vis; let rp ← readTuples page vis; let rb ← readTuples b vis
          pure (ra ++ (rp ++ rb.map (shiftE 8192)).map (shiftE a.length))) ∧
    readTuples (a ++ (page' ++ b)) vis =
      (do let ra ← readTuples a vis; let rp ← readTuples page' vis; let rb ← readTuples b vis
          pure (ra ++ (rp ++ rb.map (shiftE 8192)).map (shiftE a.length))) := by
  constructor
  · rw [readTuples_append a (page ++ b) vis (a.length / 8192) (by omega),
      readTuples_append page b vis 1 (by omega), hp]
    cases readTuples a vis <;> cases readTuples page vis <;> cases readTuples b vis <;> rfl
  · rw [readTuples_append a (page' ++ b) vis (a.length / 8192) (by omega),
      readTuples_append page' b vis 1 (by omega), hp']
    cases readTuples a vis <;> cases readTuples page' vis <;> cases readTuples b vis <;> rfl

/-! ## value level: heap.go:DecodeTuple -/

/-- **Columns in front of a damaged value.**  Let the columns `cs₁` of a tuple decode (on the undamaged data) to the pairs
`ps` and end at data offset `e` — so the storage of the next column, the damaged one, begins at `e`.  Let `data'` be ANY
data of the same length with the same bytes below `e` whose byte at `e` is 18 in both or in neither (`SameUpTo`: the
damage may change everything from `e` on, except that it neither creates nor removes the external-pointer tag 18 in the
very first damaged byte — see `C10_value_before_lookahead` for why that one byte value matters).  Then DecodeTuple's column
loop reports on BOTH tuples exactly the pairs `ps` for `cs₁`, and continues with the remaining columns `cs₂` from the same
offset `e`: a damaged value does not change any column in front of it.  Holds for every schema (hostile lengths,
alignments, attribute numbers) and every scalar decoder. -/
theorem C10_isolate_value_before (dec : Dec) (hdr : TupleHeader) (bm : Option Bytes) (data data' : Bytes)
    (cs₁ cs₂ : List Column) (ps : List (Bytes × GoVal)) (e : Nat)
    (h1 : decodeColsOff dec ⟨hdr, bm, data⟩ cs₁ 0 0 = .ok (ps, e)) (hs : SameUpTo data data' e) :
    decodeCols dec ⟨hdr, bm, data⟩ (cs₁ ++ cs₂) 0 0 =
      (do let rest ← decodeCols dec ⟨hdr, bm, data⟩ cs₂ cs₁.length e; pure (ps ++ rest)) ∧
    decodeCols dec ⟨hdr, bm, data'⟩ (cs₁ ++ cs₂) 0 0 =
      (do let rest ← decodeCols dec ⟨hdr, bm, data'⟩ cs₂ cs₁.length e; pure (ps ++ rest)) := by
  have h2 := decodeColsOff_prefix dec hdr bm hs cs₁ 0 0 ps e h1 (Nat.le_refl _)
  constructor
  · rw [decodeCols_append, h1]; simp only [ok_bind, Nat.zero_add]
  · rw [decodeCols_append, h2]; simp only [ok_bind, Nat.zero_add]

/-- **Columns behind a damaged value** — what exactly holds.  The columns `cs₂` behind the columns `cs₁` (the last of
which is damaged) are decoded from the offset at which `cs₁` ended.  If the damage leaves the data length and all bytes
from `o` on intact and `cs₁` still ends at the same offset `e ≥ o` on the damaged tuple (a fixed-width value damaged in
place, a varlena whose length word survived), then `cs₂` decodes to exactly the same pairs on both tuples.  If the damaged
value's length changes, the columns behind it are read from a different offset and may all change, although their own
bytes are intact (`C10_value_after_shift`): DecodeTuple has no per-value framing that could prevent that. -/
theorem C10_isolate_value_after (dec : Dec) (hdr : TupleHeader) (bm : Option Bytes) (data data' : Bytes)
    (cs₁ cs₂ : List Column) (ps ps' : List (Bytes × GoVal)) (e o : Nat)
    (hl : data'.length = data.length) (hs : data'.drop o = data.drop o) (ho : o ≤ e)
    (h1 : decodeColsOff dec ⟨hdr, bm, data⟩ cs₁ 0 0 = .ok (ps, e))
    (h2 : decodeColsOff dec ⟨hdr, bm, data'⟩ cs₁ 0 0 = .ok (ps', e)) :
    decodeCols dec ⟨hdr, bm, data⟩ (cs₁ ++ cs₂) 0 0 =
      (do let rest ← decodeCols dec ⟨hdr, bm, data⟩ cs₂ cs₁.length e; pure (ps ++ rest)) ∧
    decodeCols dec ⟨hdr, bm, data'⟩ (cs₁ ++ cs₂) 0 0 =
      (do let rest ← decodeCols dec ⟨hdr, bm, data⟩ cs₂ cs₁.length e; pure (ps' ++ rest)) := by
  constructor
  · rw [decodeCols_append, h1]; simp only [ok_bind, Nat.zero_add]
  · rw [decodeCols_append, h2]; simp only [ok_bind, Nat.zero_add]
    rw [decodeCols_suffix dec hdr bm hl hs cs₂ cs₁.length e ho]

/-- the decoder of the examples: every value is its raw bytes -/
def rawDec : Dec := fun b _ => pure (.str b)

def exHdr : TupleHeader := ⟨0, 0, 0, false, false, false, false⟩
def colV (n : UInt8) : Column := ⟨[n], 25, -1, 0, 1⟩        -- a varlena column, alignment 1
def colC (n : UInt8) : Column := ⟨[n], 18, 1, 0, 1⟩         -- a 1-byte fixed column

/-- Why the "same end offset" hypothesis of `C10_isolate_value_after` cannot be dropped: the tuple `05 41 42` under the
schema (varlena a, 1-byte b) decodes to a = "A", b = "B"; damaging only the length byte of `a` (05 → 07) gives
a = "AB" and b = NULL — b changes although its own byte is intact. -/
theorem C10_value_after_shift :
    decodeCols rawDec ⟨exHdr, none, [0x05, 0x41, 0x42]⟩ [colV 97, colC 98] 0 0 = .ok [([97], .str [0x41]), ([98], .str [0x42])] ∧
    decodeCols rawDec ⟨exHdr, none, [0x07, 0x41, 0x42]⟩ [colV 97, colC 98] 0 0 = .ok [([97], .str [0x41, 0x42]), ([98], .nil)] := by
  constructor <;> rfl

/-- Why `SameUpTo` speaks about the byte at `e`: behind a `0x01` header ReadVarlena looks at the tag byte and consumes
18 bytes when it is 18 (an on-disk TOAST pointer) but only the header byte otherwise.  Here column `a` ends at offset 1
on the first tuple; changing only the byte AT offset 1 (00 → 12 hex) leaves a's value (NULL) unchanged but moves its end
to 18, so the column behind it is read from offset 18 instead of 1. -/
theorem C10_value_before_lookahead :
    decodeColsOff rawDec ⟨exHdr, none, 0x01 :: 0x00 :: List.replicate 17 0x41⟩ [colV 97] 0 0 = .ok ([([97], .nil)], 1) ∧
    decodeColsOff rawDec ⟨exHdr, none, 0x01 :: 0x12 :: List.replicate 17 0x41⟩ [colV 97] 0 0 = .ok ([([97], .nil)], 18) := by
  constructor <;> rfl

/-- the hypotheses of `C10_isolate_value_before` are satisfiable by a real damage: `05 41 | 42 43` vs `05 41 | ff 00` under
(varlena a), e = 2 -/
example : decodeColsOff rawDec ⟨exHdr, none, [0x05, 0x41, 0x42, 0x43]⟩ [colV 97] 0 0 = .ok ([([97], .str [0x41])], 2) ∧
    SameUpTo [0x05, 0x41, 0x42, 0x43] [0x05, 0x41, 0xff, 0x00] 2 := by
  refine ⟨rfl, rfl, ?_, ?_⟩
  · intro j hj
    match j, hj with
    | 0, _ => rfl
    | 1, _ => rfl
  · decide

/-- the hypotheses of `C10_isolate_tuple` are satisfiable: a page with two NORMAL pointers to disjoint tuples, the second
damaged -/
example : AgreeOutside [1, 2, 3, 4] [1, 9, 9, 4] 1 3 := by
  refine ⟨rfl, ?_⟩
  intro i hi
  match i, hi with
  | 0, _ => rfl
  | 1, h => omega
  | 2, h => omega
  | (n+3), _ => rfl

/-! ## resource clause at the tuple level: what one page can report -/

/-- **One page reports at most one page of tuple data — for EVERY byte string.**  Whatever `data` holds (any header, any
line-pointer array, pointers sharing storage in any way), the data bytes of all tuples ParsePage reports add up to at
most 8192.  ParsePage skips a NORMAL pointer whose storage overlaps the storage of a tuple it has already reported (fix
heap/02), so the reported tuples occupy pairwise disjoint pieces of the page.  Before the fix this held only under the
hypothesis that accepted pointers do not share storage (finding `C10-page-alias`: n pointers to one tuple reported n
copies; family `resource`, cases 0–2, now report "ok"). -/
theorem C10_size_parsePage (data : Bytes) (ts : List HeapTuple) (hp : parsePage data = .ok ts) :
    (ts.map fun t => t.data.length).sum ≤ 8192 :=
  PageSize.parsePage_dataSum_le data ts hp

/-- the same for a whole file: ReadTuples reports at most 8192 bytes of tuple data per whole page of the input — never
more tuple data than the file holds. -/
theorem C10_size_readTuples (data : Bytes) (vis : Bool) (es : List TupleEntry) (h : readTuples data vis = .ok es) :
    (es.map fun e => e.tuple.data.length).sum ≤ 8192 * (data.length / 8192) :=
  PageSize.readTuples_dataSum_le data vis es h

/-- ParsePage's guarded loop returns for every page of at least 8192 bytes, every pd_upper, every pointer list and
whatever is already claimed (totality of the new loop; `Heap.C10_total_parsePage` is the statement for ParsePage). -/
theorem C10_total_pageLoop (data : Bytes) (hd : 8192 ≤ data.length) (upper : Nat) (items claimed : List ItemID) :
    ∃ ts, pageLoop data upper items claimed = .ok ts :=
  pageLoop_total data hd upper items claimed

/-- the aliasing page of the finding in miniature: three NORMAL pointers to ONE 24-byte tuple at the end of an 8192-byte
page are reported as one tuple, not three -/
example :
    let lp : Bytes := le 4 (8168 + 2 ^ 15 + 2 ^ 17 * 24)
    let page : Bytes := zeros 12 ++ le 2 36 ++ le 2 8168 ++ le 2 8192 ++ le 2 0x2004 ++ zeros 4 ++ lp ++ lp ++ lp ++
      zeros (8168 - 36) ++ (zeros 20 ++ le 2 0x0900 ++ [24, 0])
    (parsePage page).toOption.map List.length = some 1 := by
  decide +kernel

end PgVerif.Props.C10.Isolation
