/-
  C10 for area numjson — corrupt or hostile input never crashes: totality of the numeric and JSONB
  decoders over ALL byte strings (the model is fault-aware: every Go index / slice expression is a
  possible `.error`; these theorems say none is reachable), and independence of the recursion fuel.
  Property theorems only; proofs in Proofs/Numeric.lean and Proofs/Jsonb.lean.
-/
import PgVerif.Proofs.Jsonb
namespace PgVerif.Props.C10.Numjson
open PgVerif PgVerif.Model PgVerif.Proofs

/-- `DecodeNumeric` returns for every byte string: no index or slice expression can panic. -/
theorem C10_total_decodeNumeric (bs : Bytes) : ∃ r, decodeNumeric bs = .ok r := decodeNumeric_total bs

/-- `decodeJNumeric` (numeric behind its varlena header, inside JSONB) returns for every byte string. -/
theorem C10_total_decodeJNumeric (bs : Bytes) : ∃ r, decodeJNumeric bs = .ok r := decodeJNumeric_total bs

/-- `DecodeType(data, OidNumeric)` returns for every byte string. -/
theorem C10_total_decodeTypeNumeric (bs : Bytes) : ∃ r, decodeTypeNumeric bs = .ok r :=
  decodeTypeNumeric_total bs

/-- `ParseJSONB` returns for every byte string — whatever the counts, flags, lengths and end offsets in
it, at any nesting (the count is no longer capped at 10 000, fix 10): no panic (this needs fix 07: a
HAS_OFF end offset below the entry's start gave a negative length and `data[off:off+length]` panicked;
with fix 10 the slices `entries[count:]`, `ends[count:]` and the index `ends[count-1]` are further possible
faults, none reachable), and the model's recursion budget is never
exhausted: the fuel `len(data)+1` handed out by `parseJSONB` is provably enough, because every child
slice starts after the 8 bytes of header and first JEntry.
SCOPE: this is a statement about index / slice faults and about the MODEL's recursion; it says nothing about the depth
of Go's call stack.  ParseJSONB recurses once per nesting level (one level costs 8 input bytes and ~0.5 KiB of stack):
within the property's 256 KiB inputs that is at most 32 768 levels / 17 MB of stack and returns (family `resource`,
case `decode 3802`); a 16 MiB document of pure nesting exceeds Go's 1 GB stack limit and dies with an unrecoverable
"stack overflow" (REVIEW.md F4) — outside C10's quantifier, not covered by this theorem. -/
theorem C10_total_parseJSONB (bs : Bytes) : ∃ r, parseJSONB bs = .ok r := parseJSONB_total bs

/-- Work bound, part 1 (fix 10: the count is bounded by the input, not by a constant): a container whose
header announces more children than the input can hold JEntry words for — `4 + count·4 > len(data)` —
is refused (nil) before any entry is read or anything is allocated.  So the entry array, the `ends`
array and the result slice / map are bounded by the length of the input, whatever the 28-bit count
field says (up to 2^28−1). -/
theorem C10_count_bounded (rec : Bytes → M JV) (data : Bytes) (h4 : 4 ≤ data.length)
    (hc : 0 < rd 4 data &&& 0x0FFFFFFF) (hbig : data.length < 4 + (rd 4 data &&& 0x0FFFFFFF) * 4) :
    parseContainer rec data = .ok .nil := by
  unfold parseContainer
  have hl : ¬ data.length < 4 := by omega
  simp (disch := omega) only [hl, if_false, uN_ok, ok_bind, pure_eq_ok, List.drop_zero]
  generalize rd 4 data = header at hc hbig ⊢
  generalize header &&& 0x0FFFFFFF = count at hc hbig ⊢
  by_cases hbad : ((!header &&& 0x20000000 != 0 && !header &&& 0x40000000 != 0)) = true
  · rw [if_pos hbad]
  · rw [if_neg hbad]
    have hc0 : (count == 0) = false := by simp; omega
    rw [hc0]
    simp only [Bool.false_eq_true, if_false]
    by_cases hobj : (header &&& 0x20000000 != 0) = true
    · simp only [hobj, if_true]
      rw [if_pos (by omega)]
    · simp only [hobj, Bool.false_eq_true, if_false]
      rw [if_pos (by omega)]

/-- Work bound, part 2 (fix 10: linear offsets; fix 08: monotone end offsets): for EVERY entry array the
single forward pass accepts, the spans handed to `decodeJEntry` have non-negative lengths and tile the
data area without overlap — entry `idx+1` starts exactly where entry `idx` ends.  Hence the children
of one container are disjoint slices of its data area, the inputs of all recursive calls of one nesting
level together are no longer than the input of that level, and the total work is bounded by the input
size times the nesting depth (k children can no longer alias the same bytes: A35). -/
theorem C10_children_disjoint (es ends : List Nat) (h : endsFrom 0 es = some ends) (idx : Nat) (hidx : idx < es.length) :
    0 ≤ (spanAt ends idx).2 ∧ (spanAt ends (idx+1)).1 = (spanAt ends idx).1 + (spanAt ends idx).2.toNat :=
  spanAt_tiling es ends h idx hidx

/-- non-vacuity: three entries (length 3, HAS_OFF end offset 7, length 2) — spans (0,3), (3,4), (7,2) -/
example : (endsFrom 0 [3, 0x80000007, 2]).map (fun ends => [spanAt ends 0, spanAt ends 1, spanAt ends 2]) =
    some [(0, 3), (3, 4), (7, 2)] := by rfl

/-- Fix 10 changes no offset: for EVERY entry array the forward pass accepts — hostile ones included, any
placement of HAS_OFF flags, any length — the (start, length) handed to `decodeJEntry` for entry `idx` is
exactly what `entryOffLen` (backward scan to the nearest HAS_OFF entry, then forward sum: quadratic on
entry arrays without HAS_OFF, the reason for the former cap of 10 000) returned. -/
theorem C10_offsets_unchanged (es ends : List Nat) (h : endsFrom 0 es = some ends) (idx : Nat) (hidx : idx < es.length) :
    entryOffLen es idx 0 = .ok ((spanAt ends idx).1, (spanAt ends idx).2) := by
  rw [entryOffLen_ok es idx 0 hidx, spanAt_eq_entryOffLen es ends h idx hidx]

/-- The result of `ParseJSONB` does not depend on surplus fuel: any fuel above the input length gives
the value `parseJSONB` gives.  (So the fuel is a device of the model, not a behaviour.) -/
theorem C10_fuel_parseJSONB (bs : Bytes) (fuel : Nat) (h : bs.length < fuel) :
    parseJSONBFuel fuel bs = parseJSONB bs :=
  parseJSONBFuel_fuel fuel (bs.length + 1) bs h (by omega)

/-- `DecodeType(data, OidJSONB)` (parser + fallbacks) returns for every byte string. -/
theorem C10_total_decodeTypeJSONB (bs : Bytes) : ∃ r, decodeTypeJSONB bs = .ok r := decodeTypeJSONB_total bs

/-- the witness of the panic repaired by fix 07 (array of two strings, entry 1 = HAS_OFF with end offset 2
below its start 10) is now answered with nil -/
example : parseJSONB (le 4 0x40000002 ++ le 4 0x8000000A ++ le 4 0x80000002 ++ zeros 16) = .ok .nil := by
  rfl

end PgVerif.Props.C10.Numjson
