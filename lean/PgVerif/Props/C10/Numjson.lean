/-
  C10 for area numjson — corrupt or hostile input never crashes: totality of the numeric and JSONB
  decoders over ALL byte strings (the model is fault-aware: every Go index / slice expression is a
  possible `.error`; these theorems say none is reachable), and independence of the recursion fuel.
  Property theorems only; proofs in Proofs/Numeric.lean and Proofs/Jsonb.lean.
-/
import PgVerif.Proofs.Jsonb
namespace PgVerif.Props.C10.Numjson
open PgVerif PgVerif.Model PgVerif.Proofs

/-- `DecodeNumeric` returns for every byte string: no index or slice expression can panic. -/
theorem C10_total_decodeNumeric (bs : Bytes) : ∃ r, decodeNumeric bs = .ok r := decodeNumeric_total bs

/-- `decodeJNumeric` (numeric behind its varlena header, inside JSONB) returns for every byte string. -/
theorem C10_total_decodeJNumeric (bs : Bytes) : ∃ r, decodeJNumeric bs = .ok r := decodeJNumeric_total bs

/-- `DecodeType(data, OidNumeric)` returns for every byte string. -/
theorem C10_total_decodeTypeNumeric (bs : Bytes) : ∃ r, decodeTypeNumeric bs = .ok r :=
  decodeTypeNumeric_total bs

/-- `ParseJSONB` returns for every byte string — whatever the counts, flags, lengths and end offsets in
it, at any nesting: no panic (this needs fix 07: a HAS_OFF end offset below the entry's start gave a
negative length and `data[off:off+length]` panicked), and the model's recursion budget is never
exhausted: the fuel `len(data)+1` handed out by `parseJSONB` is provably enough, because every child
slice starts after the 8 bytes of header and first JEntry. -/
theorem C10_total_parseJSONB (bs : Bytes) : ∃ r, parseJSONB bs = .ok r := parseJSONB_total bs

/-- The result of `ParseJSONB` does not depend on surplus fuel: any fuel above the input length gives
the value `parseJSONB` gives.  (So the fuel is a device of the model, not a behaviour.) -/
theorem C10_fuel_parseJSONB (bs : Bytes) (fuel : Nat) (h : bs.length < fuel) :
    parseJSONBFuel fuel bs = parseJSONB bs :=
  parseJSONBFuel_fuel fuel (bs.length + 1) bs h (by omega)

/-- `DecodeType(data, OidJSONB)` (parser + fallbacks) returns for every byte string. -/
theorem C10_total_decodeTypeJSONB (bs : Bytes) : ∃ r, decodeTypeJSONB bs = .ok r := decodeTypeJSONB_total bs

/-- the witness of the panic repaired by fix 07 (array of two strings, entry 1 = HAS_OFF with end offset 2
below its start 10) is now answered with nil -/
example : parseJSONB (le 4 0x40000002 ++ le 4 0x8000000A ++ le 4 0x80000002 ++ zeros 16) = .ok .nil := by
  rfl

end PgVerif.Props.C10.Numjson
