/-
  C10 (area "entry") — "never hangs" at the level of the FILE SYSTEM (fixes entry/02, 03, 04).

  Model: `Model/ExtraFS.lean` — a path names a `Kind` (regular bytes / fifo / endless device / directory / missing) and a
  read has the outcomes data / err / `blocks` (= the call does not return).

    * the code up to a054878 read the fixed-name files of a data directory with os.ReadFile: it can block
      (`C10_osReadFile_blocks`, exactly on a fifo or an endless device: `C10_osReadFile_blocks_iff`);
    * `readRegularFile` (pgdump/readfile.go) returns for EVERY kind (`C10_readRegularFile_never_blocks`), and wherever
      os.ReadFile returned it returns the same (`C10_readRegularFile_unchanged`); a link to a regular file is a regular
      file for it (`C10_readRegularFile_regular`: `Kind` is what the path resolves to);
    * the `path → Option Bytes` readers the models of the entry points take are exactly what readRegularFile hands over
      (`view`, `C10_view_iff`), so the existing totality theorems apply to EVERY kind-level file system: the corollaries
      `C10_anyKind_*` (no hypothesis about any file);
    * directory scans: the old filter `!e.IsDir()` selects entries whose read never returns
      (`C10_oldScan_blocks`); the new filter `e.Type().IsRegular()` selects only entries of type regular
      (`C10_newSelect_regular`), no read of a selected entry blocks (`C10_newSelect_read_returns`), the scan always
      finishes (`C10_newScan_returns`), and on a directory that holds only regular files and directories — everything
      PostgreSQL creates in base/<db>, global and pg_wal — both filters select the same entries and the scan gives the same
      result (`C10_scan_unchanged`).
-/
import PgVerif.Model.ExtraFS
import PgVerif.Props.C10.Extra
import PgVerif.Props.C10.Dropped
import PgVerif.Props.C10.DeletedScan
namespace PgVerif.Props.C10.EntryFS
open PgVerif PgVerif.Model PgVerif.Model.FSKind

/-! ## os.ReadFile and readRegularFile -/

/-- os.ReadFile does not return exactly when the path resolves to a FIFO or an endless device. -/
theorem C10_osReadFile_blocks_iff {π} (fs : FS π) (p : π) :
    osReadFile fs p = .blocks ↔ (fs p = .fifo ∨ fs p = .endless) := by
  unfold osReadFile
  cases h : fs p <;> simp

/-- The old read can block: there is a file system (one FIFO at the path) on which os.ReadFile never returns. -/
theorem C10_osReadFile_blocks : ∃ (fs : FS String) (p : String), osReadFile fs p = .blocks :=
  ⟨fun p => if p = "global/1262" then .fifo else .missing, "global/1262", by simp [osReadFile]⟩

/-- readRegularFile returns — data or an error — whatever the path names. -/
theorem C10_readRegularFile_never_blocks {π} (fs : FS π) (p : π) : readRegularFile fs p ≠ .blocks := by
  unfold readRegularFile statIsRegular osReadFile
  cases h : fs p <;> simp [Kind.isRegular]

/-- Wherever os.ReadFile returned (data or error), readRegularFile returns the same. -/
theorem C10_readRegularFile_unchanged {π} (fs : FS π) (p : π) (h : osReadFile fs p ≠ .blocks) :
    readRegularFile fs p = osReadFile fs p := by
  unfold readRegularFile statIsRegular osReadFile at *
  cases hk : fs p <;> simp_all [Kind.isRegular]

example : osReadFile (fun (_ : String) => Kind.regular [1, 2]) "x" ≠ .blocks := by decide
example : osReadFile (fun (_ : String) => Kind.dir) "x" ≠ .blocks := by decide

/-- A regular file — reached directly or through symbolic links — is read as before. -/
theorem C10_readRegularFile_regular {π} (fs : FS π) (p : π) (b : Bytes) (h : fs p = .regular b) :
    readRegularFile fs p = .data b := by
  simp [readRegularFile, statIsRegular, osReadFile, h, Kind.isRegular]

example : (fun (_ : String) => Kind.regular [7]) "x" = Kind.regular [7] := rfl

/-- Everything that is not a regular file is an error, exactly like a missing file. -/
theorem C10_readRegularFile_nonregular {π} (fs : FS π) (p : π) (h : (fs p).isRegular = false) :
    readRegularFile fs p = .err := by
  unfold readRegularFile statIsRegular osReadFile
  cases hk : fs p <;> simp_all [Kind.isRegular]

example : (Kind.fifo).isRegular = false := rfl

/-- The reader handed to the models is defined for a path exactly when it names a regular file, and gives its bytes. -/
theorem C10_view_iff {π} (fs : FS π) (p : π) (b : Bytes) : view fs p = some b ↔ fs p = .regular b := by
  unfold view readRegularFile statIsRegular osReadFile
  cases hk : fs p <;> simp [Kind.isRegular]

set_option linter.unusedSimpArgs false in
/-- A FIFO, a device and a directory are indistinguishable from a missing file for every entry point that reads through
readRegularFile: the reader of a file system equals the reader of the same file system with those paths removed. -/
theorem C10_view_nonregular_as_missing {π} (fs : FS π) :
    view fs = view (fun p => if (fs p).isRegular then fs p else .missing) := by
  funext p
  simp only [view, readRegularFile, statIsRegular, osReadFile]
  cases hk : fs p <;> simp [hk, Kind.isRegular]

/-! ## the entry points on an arbitrary kind-level file system

Their models take the reader as a parameter and their totality theorems hold for every reader; with `view fs` as the
reader they are statements about every data directory in which ANY path may be a FIFO, a device, a directory or missing. -/

theorem C10_anyKind_readControlFile (fs : FS String) (dir : String) :
    ∃ r, Model.readControlFile (view fs) dir = .ok r :=
  Control.C10_total_readControlFile (view fs) dir

theorem C10_anyKind_readGlobalRelMap (fs : FS String) (dir : String) :
    ∃ r, Model.readGlobalRelMap (view fs) dir = .ok r :=
  Entry.C10_total_readGlobalRelMap (view fs) dir

theorem C10_anyKind_readDatabaseRelMap (fs : FS String) (dir : String) (db : Nat) :
    ∃ r, Model.readDatabaseRelMap (view fs) dir db = .ok r :=
  Entry.C10_total_readDatabaseRelMap (view fs) dir db

theorem C10_anyKind_readAllRelMaps (fs : FS String) (parseDatabase : Bytes → List Nat) (dir : String) :
    ∃ r, Model.readAllRelMaps (view fs) parseDatabase dir = .ok r :=
  Entry.C10_total_readAllRelMaps (view fs) parseDatabase dir

theorem C10_anyKind_findSequences (fs : FS String) (env : Model.SeqEnv) (dir : String) (db : Bytes) :
    ∃ r, Model.findSequences { env with fs := view fs } dir db = .ok r :=
  Entry.C10_total_findSequences _ dir db

theorem C10_anyKind_scanAllSequences (fs : FS String) (env : Model.SeqEnv) (dir : String) :
    ∃ r, Model.scanAllSequences { env with fs := view fs } dir = .ok r :=
  Entry.C10_total_scanAllSequences _ dir

theorem C10_anyKind_extractPasswords (fs : FS Bytes) : ∃ r, Model.Extra.extractPasswords (view fs) = .ok r :=
  (Extra.C10_total_extractPasswords (view fs)).2

theorem C10_anyKind_dumpDataDir (X : Proofs.Entry.Render) (π : MapOrder TableInfo) (fs : FS Bytes) (o : Spec.Options) :
    ∃ r, Model.dumpDataDir (Extra.closedRR X) π (view fs) o = .ok r :=
  Cluster.C10_total_dumpDataDir _ (Entry.C10_closed_reader X) π (view fs) o

theorem C10_anyKind_listDatabases (X : Proofs.Entry.Render) (fs : FS Bytes) :
    ∃ r, Model.Extra.listDatabases (Extra.closedRR X) (view fs) = .ok r :=
  Extra.C10_closed_listDatabases X (view fs)

theorem C10_anyKind_analyzeTOAST (X : Proofs.Entry.Render) (fs : FS Bytes) (dbName : Bytes) :
    ∃ r, Model.Extra.analyzeTOAST (Extra.closedRR X) (view fs) dbName = .ok r :=
  Extra.C10_closed_analyzeTOAST X (view fs) dbName

theorem C10_anyKind_quickSearch (R : Spec.Search.Regex) (sh : GoVal → Bytes) (X : Proofs.Entry.Render)
    (π : MapOrder TableInfo) (fs : FS Bytes) (pattern : Bytes) :
    ∃ r, Model.Extra.quickSearchDir R sh (Extra.closedRR X) π (view fs) pattern = .ok r :=
  Extra.C10_closed_quickSearchDir R sh X π (view fs) pattern

theorem C10_anyKind_scanAllDeletedRows (X : Proofs.Entry.Render) (π : MapOrder TableInfo) (fs : FS Bytes)
    (o : Spec.Options) :
    ∃ r, Model.scanAllDeletedRows (Extra.closedRR X) (Entry.rowsDec X) π (view fs) o = .ok r :=
  DeletedScan.C10_total_scanAllDeletedRows_readRows (Entry.rowsDec X) (Entry.rowsDec_total X) π (view fs) o

theorem C10_anyKind_findDroppedColumns (X : Proofs.Entry.Render) (π : MapOrder TableInfo) (fs : FS Bytes)
    (dbName : Bytes) : ∃ r, Model.findDroppedColumns (Extra.closedRR X) π (view fs) dbName = .ok r :=
  Dropped.C10_total_findDroppedColumns _ (Entry.C10_closed_reader X) π (view fs) dbName

theorem C10_anyKind_scanDroppedColumns (X : Proofs.Entry.Render) (π : MapOrder TableInfo) (fs : FS Bytes) :
    ∃ r, Model.scanDroppedColumns (Extra.closedRR X) π (view fs) = .ok r :=
  Dropped.C10_total_scanDroppedColumns _ (Entry.C10_closed_reader X) π (view fs)

/-! ## directory scans (checksum.go, wal.go) -/

/-- The old filter lets a scan hang: a directory with ONE entry — a FIFO named like a relation file or a WAL segment —
passes `!e.IsDir()`, and the read of it never returns. -/
theorem C10_oldScan_blocks :
    ∃ es : List Entry, (∀ e ∈ es, e.consistent = true) ∧ FSKind.scan oldSelect es = none :=
  ⟨[⟨[49, 54, 51, 56, 52], .fifo, .fifo⟩], by decide, by decide⟩

/-- … and so does a symbolic link to a FIFO. -/
theorem C10_oldScan_blocks_link :
    ∃ es : List Entry, (∀ e ∈ es, e.consistent = true) ∧ FSKind.scan oldSelect es = none :=
  ⟨[⟨[49, 54, 51, 56, 52], .symlink, .fifo⟩], by decide, by decide⟩

/-- The new filter selects entries of type regular only. -/
theorem C10_newSelect_regular (es : List Entry) : ∀ e ∈ es.filter newSelect, e.type = .regular := by
  intro e he
  have := (List.mem_filter.mp he).2
  simpa [newSelect] using this

/-- Reading an entry the new filter selected returns (on a consistent directory: type regular means a regular file). -/
theorem C10_newSelect_read_returns (e : Entry) (hc : e.consistent = true) (hs : newSelect e = true) :
    readEntry e ≠ .blocks := by
  have ht : e.type = .regular := by simpa [newSelect] using hs
  unfold Entry.consistent at hc
  rw [ht] at hc
  unfold readEntry osReadFile
  cases hk : e.target <;> simp_all [Kind.isRegular]

example : (Entry.mk [49] .regular (.regular [0])).consistent = true ∧ newSelect (Entry.mk [49] .regular (.regular [0])) = true := by
  decide

/-- The repaired scans finish on every consistent directory, whatever it holds. -/
theorem C10_newScan_returns (es : List Entry) (hc : ∀ e ∈ es, e.consistent = true) :
    ∃ r, FSKind.scan newSelect es = some r := by
  induction es with
  | nil => exact ⟨[], rfl⟩
  | cons e rest ih =>
    obtain ⟨r, hr⟩ := ih (fun x hx => hc x (List.mem_cons_of_mem _ hx))
    unfold FSKind.scan
    by_cases hs : newSelect e = true
    · have hnb := C10_newSelect_read_returns e (hc e (List.mem_cons_self ..)) hs
      rw [if_pos hs]
      cases hre : readEntry e with
      | blocks => exact absurd hre hnb
      | data b => exact ⟨(e.name, b) :: r, by simp [hr]⟩
      | err => exact ⟨r, by simpa using hr⟩
    · rw [if_neg hs]; exact ⟨r, hr⟩

example : ∀ e ∈ [Entry.mk [49] .fifo .fifo, Entry.mk [50] .symlink .fifo, Entry.mk [51] .regular (.regular [])],
    e.consistent = true := by decide

/-- What the repaired scans read is what `Entry.bytes?` says: the bytes of the entries of type regular, in order. -/
theorem C10_newScan_eq (es : List Entry) (hc : ∀ e ∈ es, e.consistent = true) :
    FSKind.scan newSelect es = some (es.filterMap fun e => e.bytes?.map fun b => (e.name, b)) := by
  induction es with
  | nil => rfl
  | cons e rest ih =>
    have ih' := ih (fun x hx => hc x (List.mem_cons_of_mem _ hx))
    have hce := hc e (List.mem_cons_self ..)
    unfold FSKind.scan
    by_cases hs : newSelect e = true
    · have ht : e.type = .regular := by simpa [newSelect] using hs
      unfold Entry.consistent at hce
      rw [ht] at hce
      rw [if_pos hs]
      cases hk : e.target <;> simp_all [Kind.isRegular, readEntry, osReadFile, Entry.bytes?]
    · rw [if_neg hs, ih']
      simp [Entry.bytes?, hs]

/-- On a directory that holds only regular files and directories the two filters agree, entry by entry, and the scan
result is unchanged. -/
theorem C10_scan_unchanged (es : List Entry) (h : ∀ e ∈ es, e.type = .regular ∨ e.type = .dir) :
    es.filter oldSelect = es.filter newSelect ∧ FSKind.scan oldSelect es = FSKind.scan newSelect es := by
  induction es with
  | nil => exact ⟨rfl, rfl⟩
  | cons e rest ih =>
    obtain ⟨ih1, ih2⟩ := ih (fun x hx => h x (List.mem_cons_of_mem _ hx))
    have he : oldSelect e = newSelect e := by
      rcases h e (List.mem_cons_self ..) with ht | ht <;> simp [oldSelect, newSelect, ht]
    constructor
    · simp only [List.filter_cons, he, ih1]
    · unfold FSKind.scan
      rw [he, ih2]

example : ∀ e ∈ [Entry.mk [49] .regular (.regular [1]), Entry.mk [50] .dir .dir], e.type = .regular ∨ e.type = .dir := by
  decide

/-- The one entry kind whose treatment changes without a hang being at stake: a symbolic link named like a relation file
or a segment is no longer followed (pg_checksums tests lstat + S_ISREG the same way; PostgreSQL never creates one). -/
theorem C10_scan_link_not_followed (n b : Bytes) :
    FSKind.scan oldSelect [⟨n, .symlink, .regular b⟩] = some [(n, b)] ∧ FSKind.scan newSelect [⟨n, .symlink, .regular b⟩] = some [] := by
  constructor <;> simp [FSKind.scan, oldSelect, newSelect, readEntry, osReadFile]

end PgVerif.Props.C10.EntryFS
