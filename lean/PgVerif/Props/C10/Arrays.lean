/-
  C10 (area arrays) — the array decoder never faults, for every byte string and every type oid.

  The model (Model/Arrays.lean) is types.go:DecodeType's array branch, decodeArray and parseArrayElements after the
  guard patches 07–09 of /verif/fixes/arrays (the model is the code after the whole series 01–10).  Its slice/index primitives check against the length of the slice they
  are given, so "no fault" means: no Go panic AND no read beyond the value.  The `int32` multiplication of the
  dimensions wraps in the model exactly as in Go (`wrap32`); the theorems hold for whatever it wraps to.
  The element decoder (`DecodeType` on the element's bytes, area `scalars`) is a parameter: the array code is total
  for every element decoder that is itself total.

  Before the patches the corresponding goals are unprovable: witnesses are in the deterministic prefix of family
  `arraymut` (e.g. a 4-byte element header claiming length 0 → `raw[off+4:off]`).
-/
import PgVerif.Proofs.Arrays
namespace PgVerif.Props.C10.Arrays
open PgVerif PgVerif.Model.Arrays PgVerif.Proofs.Arrays

/-- parseArrayElements returns for every value, every claimed element count (up to 2^31 and beyond), every start
offset, every element width/alignment, with or without a null bitmap — provided the bitmap it is handed covers the
claimed count, which is what decodeArray's guard establishes. -/
theorem C10_total_parseArrayElements (dec : Dec) (hdec : DecTotal dec) (raw : Bytes) (elemOid elemLen elemAlign : Nat)
    (fixed : Bool) (nulls : Option Bytes) (count off : Nat) (h : ∀ bm, nulls = some bm → (count + 7) / 8 ≤ bm.length) :
    ∃ r, parseElems dec raw elemOid elemLen elemAlign fixed nulls count 0 off = .ok r :=
  parseElems_total dec hdec raw elemOid elemLen elemAlign fixed nulls count 0 off (by simpa using h)

/-- decodeArray returns (nil or a list) for every byte string and every element oid: hostile dimension counts,
dimensions whose product wraps around, data offsets before/inside/after the value, bitmaps longer than the value,
element headers with impossible lengths. -/
theorem C10_total_decodeArray (dec : Dec) (hdec : DecTotal dec) (raw : Bytes) (elemOid : Nat) :
    ∃ r, decodeArray dec raw elemOid = .ok r :=
  decodeArray_total dec hdec raw elemOid

/-- DecodeType returns for every byte string and every type oid (array oids go through decodeArray, every other oid
straight to the element decoder). -/
theorem C10_total_decodeType (dec : Dec) (hdec : DecTotal dec) (data : Bytes) (oid : Nat) :
    ∃ r, decodeType dec data oid = .ok r :=
  decodeType_total dec hdec data oid

/-- The allocation side, on the model: whatever the header claims (up to 2³¹−1 elements, wrapped products …), the
list decodeArray returns has at most 8·len(raw) entries — one per bit of a null bitmap that lies inside the value,
and without a bitmap at most one per byte after the header.  (Go pre-sizes the slice to min(count, len(raw)) and
appends; before patch 09 it reserved `count` entries up front: 32 GiB for a 20-byte value.) -/
theorem C10_size_decodeArray (dec : Dec) (raw : Bytes) (elemOid : Nat) (es : List GoVal)
    (h : decodeArray dec raw elemOid = .ok (.arr es)) : es.length ≤ 8 * raw.length :=
  decodeArray_size dec raw elemOid es h

/-- non-vacuity of the hypothesis: a total element decoder exists (the opaque one used by the `arrays` family) -/
example : DecTotal (fun bs _ => .ok (.str bs)) := fun bs _ => ⟨.str bs, rfl⟩

/-- the int32 wrap-around is really modelled: dimensions 65536 × 65537 multiply to 65536, not to 2^32 + 65536 -/
example : wrap32 (65536 * 65537) = 65536 := by decide

end PgVerif.Props.C10.Arrays
