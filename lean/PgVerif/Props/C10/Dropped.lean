/-
  C10 (area dropped) — every function of pgdump/dropped.go returns on ANY bytes and ANY file tree, relative to a
  total row reader: dropped.go is list processing on top of `ReadRows` and the catalog parsers, so the only way it
  can panic is through `ReadRows` (area `rows`: `C10.Rows.C10_total_readRows` shows ReadRows total for every total
  scalar decoder; `C10_total_*_readRows` below plug it in).  No well-formedness of any file is assumed: pg_database,
  pg_class, pg_attribute and the heap file are arbitrary byte strings, the file system an arbitrary partial function.
-/
import PgVerif.Model.Dropped
import PgVerif.Props.C10.Cluster
import PgVerif.Props.C10.Rows
namespace PgVerif.Props.C10.Dropped
open PgVerif PgVerif.Model PgVerif.Proofs
open PgVerif.Props.C10.Cluster (TotalReader C10_total_parsePGDatabase C10_total_parsePGClass)

/-- readAttrRowsWithDropped (three reads of pg_attribute, one per layout, and the choice between them) returns for
every byte string. -/
theorem C10_total_readAttrRowsWithDropped (rr : RowReader) (h : TotalReader rr) (data : Bytes) :
    ∃ r, readAttrRowsWithDropped rr data = .ok r := by
  obtain ⟨r16, h16⟩ := h data schemaPGAttrDropped true
  obtain ⟨r15, h15⟩ := h data schemaPGAttrDroppedV15 true
  obtain ⟨r12, h12⟩ := h data schemaPGAttrDroppedV12 true
  simp only [readAttrRowsWithDropped, h16, h15, h12, ok_bind, pure_eq_ok]
  exact ⟨_, rfl⟩

/-- parseDroppedColumns returns for every pg_attribute byte string and every table-name map. -/
theorem C10_total_parseDroppedColumns (rr : RowReader) (h : TotalReader rr) (data : Bytes) (names : List (Nat × Bytes)) :
    ∃ r, parseDroppedColumns rr data names = .ok r := by
  obtain ⟨rows, hr⟩ := C10_total_readAttrRowsWithDropped rr h data
  simp only [parseDroppedColumns, hr, ok_bind, pure_eq_ok]
  exact ⟨_, rfl⟩

/-- parseAllAttributes returns for every pg_attribute byte string and every relation oid. -/
theorem C10_total_parseAllAttributes (rr : RowReader) (h : TotalReader rr) (data : Bytes) (relOID : Nat) :
    ∃ r, parseAllAttributes rr data relOID = .ok r := by
  obtain ⟨rows, hr⟩ := C10_total_readAttrRowsWithDropped rr h data
  simp only [parseAllAttributes, hr, ok_bind, pure_eq_ok]
  exact ⟨_, rfl⟩

/-- FindDroppedColumns returns (a result or an error) for every file tree, database name and map iteration order. -/
theorem C10_total_findDroppedColumns (rr : RowReader) (h : TotalReader rr) (π : MapOrder TableInfo)
    (fs : Bytes → Option Bytes) (dbName : Bytes) : ∃ r, findDroppedColumns rr π fs dbName = .ok r := by
  unfold findDroppedColumns
  cases fs pathGlobal1262 with
  | none => exact ⟨_, rfl⟩
  | some dbData =>
    simp only
    obtain ⟨dbs, hd⟩ := C10_total_parsePGDatabase rr h dbData
    simp only [hd, ok_bind]
    cases drFindDb dbs dbName with
    | none => exact ⟨_, rfl⟩
    | some db =>
      simp only
      cases fs (basePath db.oid 1249) with
      | none => exact ⟨_, rfl⟩
      | some attrData =>
        simp only
        cases fs (basePath db.oid 1259) with
        | none => exact ⟨_, rfl⟩
        | some classData =>
          simp only
          obtain ⟨tables, ht⟩ := C10_total_parsePGClass rr h classData
          obtain ⟨cols, hc⟩ := C10_total_parseDroppedColumns rr h attrData (drTableNamesOf π tables)
          simp only [ht, hc, ok_bind, pure_eq_ok]
          exact ⟨_, rfl⟩

/-- ScanDroppedColumns returns for every file tree. -/
theorem C10_total_scanDroppedColumns (rr : RowReader) (h : TotalReader rr) (π : MapOrder TableInfo)
    (fs : Bytes → Option Bytes) : ∃ r, scanDroppedColumns rr π fs = .ok r := by
  unfold scanDroppedColumns
  cases fs pathGlobal1262 with
  | none => exact ⟨_, rfl⟩
  | some dbData =>
    simp only
    obtain ⟨dbs, hd⟩ := C10_total_parsePGDatabase rr h dbData
    simp only [hd, ok_bind]
    have : ∃ r, collectM (drScanOne rr π fs) dbs = .ok r := by
      apply collectM_total
      intro db
      unfold drScanOne
      by_cases h1 : Spec.isPrefixB (strBytes "template") db.name = true
      · rw [if_pos h1]; exact ⟨_, rfl⟩
      · rw [if_neg h1]
        obtain ⟨r, hr⟩ := C10_total_findDroppedColumns rr h π fs db.name
        simp only [hr, ok_bind]
        cases r <;> exact ⟨_, rfl⟩
    obtain ⟨r, hr⟩ := this
    simp only [hr, ok_bind, pure_eq_ok]
    exact ⟨_, rfl⟩

/-- GetDroppedColumnSchema returns for every file tree, database name and table name. -/
theorem C10_total_getDroppedColumnSchema (rr : RowReader) (h : TotalReader rr) (π : MapOrder TableInfo)
    (fs : Bytes → Option Bytes) (dbName tableName : Bytes) :
    ∃ r, getDroppedColumnSchema rr π fs dbName tableName = .ok r := by
  unfold getDroppedColumnSchema
  cases fs pathGlobal1262 with
  | none => exact ⟨_, rfl⟩
  | some dbData =>
    simp only
    obtain ⟨dbs, hd⟩ := C10_total_parsePGDatabase rr h dbData
    simp only [hd, ok_bind]
    cases drFindDb dbs dbName with
    | none => exact ⟨_, rfl⟩
    | some db =>
      simp only
      cases fs (basePath db.oid 1259) with
      | none => exact ⟨_, rfl⟩
      | some classData =>
        simp only
        obtain ⟨tables, ht⟩ := C10_total_parsePGClass rr h classData
        simp only [ht, ok_bind]
        cases drFindTable π tables tableName with
        | none => exact ⟨_, rfl⟩
        | some t =>
          simp only
          by_cases h0 : t.oid = 0
          · rw [if_pos h0]; exact ⟨_, rfl⟩
          · rw [if_neg h0]
            cases fs (basePath db.oid 1249) with
            | none => exact ⟨_, rfl⟩
            | some attrData =>
              simp only
              obtain ⟨attrs, ha⟩ := C10_total_parseAllAttributes rr h attrData t.oid
              simp only [ha, ok_bind, pure_eq_ok]
              exact ⟨_, rfl⟩

/-- RecoverDroppedColumnData returns for every file tree (the heap file of the table included: any bytes), database
name, table name and attribute number (zero and negative ones too). -/
theorem C10_total_recoverDroppedColumnData (rr : RowReader) (h : TotalReader rr) (π : MapOrder TableInfo)
    (fs : Bytes → Option Bytes) (dbName tableName : Bytes) (attNum : Int) :
    ∃ r, recoverDroppedColumnData rr π fs dbName tableName attNum = .ok r := by
  unfold recoverDroppedColumnData
  cases fs pathGlobal1262 with
  | none => exact ⟨_, rfl⟩
  | some dbData =>
    simp only
    obtain ⟨dbs, hd⟩ := C10_total_parsePGDatabase rr h dbData
    simp only [hd, ok_bind]
    cases drFindDb dbs dbName with
    | none => exact ⟨_, rfl⟩
    | some db =>
      simp only
      cases fs (basePath db.oid 1259) with
      | none => exact ⟨_, rfl⟩
      | some classData =>
        simp only
        obtain ⟨tables, ht⟩ := C10_total_parsePGClass rr h classData
        simp only [ht, ok_bind]
        cases drFindTable π tables tableName with
        | none => exact ⟨_, rfl⟩
        | some t =>
          simp only
          cases fs (basePath db.oid 1249) with
          | none => exact ⟨_, rfl⟩
          | some attrData =>
            simp only
            obtain ⟨attrs, ha⟩ := C10_total_parseAllAttributes rr h attrData t.oid
            simp only [ha, ok_bind]
            cases attrs.find? (fun c => c.attNum == attNum) with
            | none => exact ⟨_, rfl⟩
            | some col =>
              simp only
              cases fs (basePath db.oid t.filenode) with
              | none => exact ⟨_, rfl⟩
              | some tableData =>
                simp only
                obtain ⟨rows, hr⟩ := h tableData (buildColumnsWithDropped attrs) true
                simp only [hr, ok_bind, pure_eq_ok]
                exact ⟨_, rfl⟩

/-- ReadRows (area `rows`' model) with any total scalar decoder is a total reader … -/
theorem totalReader_readRows (dec : Dec) (hdec : Rows.TotalDec dec) : TotalReader (readRows dec) :=
  fun data cols vis => Rows.C10_total_readRows dec hdec data cols vis

/-- … hence the four exported entry points of dropped.go, on top of the modelled ReadRows, return for every file
tree whatsoever, for every scalar decoder that itself returns. -/
theorem C10_total_dropped_readRows (dec : Dec) (hdec : Rows.TotalDec dec) (π : MapOrder TableInfo)
    (fs : Bytes → Option Bytes) (dbName tableName : Bytes) (attNum : Int) :
    (∃ r, findDroppedColumns (readRows dec) π fs dbName = .ok r) ∧
    (∃ r, scanDroppedColumns (readRows dec) π fs = .ok r) ∧
    (∃ r, getDroppedColumnSchema (readRows dec) π fs dbName tableName = .ok r) ∧
    (∃ r, recoverDroppedColumnData (readRows dec) π fs dbName tableName attNum = .ok r) :=
  have h := totalReader_readRows dec hdec
  ⟨C10_total_findDroppedColumns _ h π fs dbName, C10_total_scanDroppedColumns _ h π fs,
   C10_total_getDroppedColumnSchema _ h π fs dbName tableName,
   C10_total_recoverDroppedColumnData _ h π fs dbName tableName attNum⟩

/-- the hypotheses are satisfiable: the decoder that renders nothing is total -/
example : Rows.TotalDec (fun _ _ => pure .nil) := fun _ _ => ⟨_, rfl⟩

end PgVerif.Props.C10.Dropped
