/-
  C10 (area toast) — nothing in pgdump/toast.go faults, for every byte string, every pointer, every chunk list.
  The models are those of toast.go with fixes/toast/01..04 applied (Model/Toast.lean, Model/Pglz.lean, Model/Lz4.lean);
  their slice/index primitives check against the length of the slice they are given, so "no fault" means: no Go panic
  (index, slice bounds, division by zero in `i % offset`) AND no read beyond the slice.

  Resource clause ("does not run or allocate beyond a small multiple of what the input size warrants"), second half of
  this file: SIZE of the results for arbitrary bytes (`C10_size_*`; the up-front `make([]byte, 0, allocHint(...))` is
  outside the model: family `toastmut` / `resource` watch the allocation) and TERMINATION within len(stream) iterations
  (`C10_fuel_*`: the model's iteration budget is never what ends a loop).  What the input "warrants" for a compressed
  value is its declared raw size as far as the format can deliver it: an LZ4 block expands at most 255 times (one
  extension byte = 255 output bytes), so 256 KiB of stream legitimately warrant 64 MiB of value; ReassembleTOAST never
  returns more than va_rawsize − 4 + the chunk bytes, on any of its paths (after fix toast/20 also on the zlib fallback).
-/
import PgVerif.Proofs.ToastTotal
import PgVerif.Proofs.ToastSize
namespace PgVerif.Props.C10.Toast
open PgVerif PgVerif.Model PgVerif.Model.Toast PgVerif.Proofs.Toast

/-- ParseTOASTPointer returns (a pointer or nil) for every byte string. -/
theorem C10_total_parseTOASTPointer (data : Bytes) : ∃ r, parseTOASTPointer data = .ok r :=
  parseTOASTPointer_total data

/-- IsTOASTPointer returns for every byte string. -/
theorem C10_total_isTOASTPointer (data : Bytes) : ∃ r, isTOASTPointer data = .ok r :=
  isTOASTPointer_total data

/-- ReadVarlena (as used for chunk_data) returns for every byte string: every header form, every claimed length. -/
theorem C10_total_readVarlena (data : Bytes) : ∃ r, readVarlena data = .ok r :=
  readVarlena_total data

/-- ReadTOASTTable returns for every byte string (any pages, any tuples, any chunk headers). -/
theorem C10_total_readTOASTTable (data : Bytes) : ∃ r, readTOASTTable data = .ok r :=
  readTOASTTable_total data

/-- decompressPGLZ returns (bytes or the error) for every stream and every claimed raw size: truncated tags, offsets
of 0 or beyond the output, missing extension bytes included; the index `start + i % offset` of the copy loop is
always inside the output. -/
theorem C10_total_decompressPGLZ (data : Bytes) (rawSize : Nat) : ∃ r, Pglz.decompressPGLZ data rawSize = .ok r :=
  decompressPGLZ_total data rawSize

/-- decompressLZ4 returns (bytes or the error) for every block and every claimed raw size: literal lengths running off
the end, truncated offsets, offset 0 or beyond the output, unterminated length extensions included. -/
theorem C10_total_decompressLZ4 (data : Bytes) (rawSize : Nat) : ∃ r, Lz4.decompressLZ4 data rawSize = .ok r :=
  decompressLZ4_total data rawSize

/-- ReassembleTOAST returns for every chunk list (duplicates, gaps, empty chunks), every value id, every pointer
(any raw size incl. 0..3 and 2^32−1, any method, compressed or not, or nil) and every behaviour of the zlib fallback. -/
theorem C10_total_reassembleTOAST (zlib : Bytes → Nat → Option Bytes) (chunks : List Chunk) (valueID : Nat) (ptr : Option Ptr) :
    ∃ r, reassembleTOAST zlib chunks valueID ptr = .ok r :=
  reassembleTOAST_total zlib chunks valueID ptr

/-- TOASTReader.ReadValue returns for every input, every set of loaded tables, and every outcome of reading the
relation file from the data directory. -/
theorem C10_total_readValue (zlib : Bytes → Nat → Option Bytes) (readFile : Nat → Option Bytes) (r : Reader) (data : Bytes) :
    ∃ x, readValue zlib readFile r data = .ok x :=
  readValue_total zlib readFile r data

/-- GetTOASTVerboseInfo returns for every relation id and every byte string. -/
theorem C10_total_getTOASTVerboseInfo (relid : Nat) (data : Bytes) : ∃ r, getTOASTVerboseInfo relid data = .ok r :=
  getTOASTVerboseInfo_total relid data

/-! ## resource clause: sizes and termination, arbitrary bytes -/

/-- decompressPGLZ never returns more than `rawSize` bytes, for every stream. -/
theorem C10_size_decompressPGLZ (data : Bytes) (rawSize : Nat) (d : Bytes)
    (h : Pglz.decompressPGLZ data rawSize = .ok (some d)) : d.length ≤ rawSize :=
  Proofs.ToastSize.decompressPGLZ_len data rawSize d h

/-- decompressLZ4, for every block: the result has at most `rawSize + len(stream)` bytes (matches stop at rawSize,
literals are copied without looking at it) and at most `255 · len(stream)` bytes (the expansion the LZ4 block format can
reach: one length-extension byte stands for 255 output bytes — a property of the format, not of this decoder). -/
theorem C10_size_decompressLZ4 (data : Bytes) (rawSize : Nat) (d : Bytes)
    (h : Lz4.decompressLZ4 data rawSize = .ok (some d)) : d.length ≤ rawSize + data.length ∧ d.length ≤ 255 * data.length :=
  Proofs.ToastSize.decompressLZ4_len data rawSize d h

/-- ReassembleTOAST, for every chunk list, value id and pointer: the value it returns is never longer than the chunk
bytes it was given for that value plus — for a compressed pointer — va_rawsize − 4.  `hz` is io.LimitReader's contract
for the zlib fallback (`zlib d n` = at most `n` bytes; fix toast/20 — before it the fallback was an unbounded
`io.ReadAll`: 256 KiB of chunk data → 203 MB, known finding C10-zlib-bomb). -/
theorem C10_size_reassembleTOAST (zlib : Bytes → Nat → Option Bytes) (hz : ZlibBounded zlib) (chunks : List Chunk)
    (valueID : Nat) (ptr : Option Ptr) (r : Bytes) (h : reassembleTOAST zlib chunks valueID ptr = .ok (some r)) :
    r.length ≤ (match ptr with | some p => p.rawSize - 4 | none => 0) + Proofs.ToastSize.chunkBytes chunks valueID :=
  Proofs.ToastSize.reassembleTOAST_len zlib hz chunks valueID ptr r h

/-- the hypothesis of `C10_size_reassembleTOAST` is satisfiable: a fallback that always fails, and one that returns a
prefix of its input -/
example : ZlibBounded (fun _ _ => none) := fun _ _ _ h => by cases h
example : ZlibBounded (fun d n => some (d.take n)) := fun d n z h => by
  cases h; simp only [List.length_take]; omega

/-- decompressPGLZ terminates by consuming input: with ANY iteration budget above len(stream) the outer loop gives the
same result, so the model's budget `len(stream)+1` is never what stops it (every outer iteration consumes the control
byte).  Together with `C10_total_decompressPGLZ`: the Go loop ends within len(stream) iterations on every input. -/
theorem C10_fuel_decompressPGLZ (data : Bytes) (rawSize g : Nat) (hg : data.length < g) (h4 : ¬ data.length < 4) :
    Pglz.decompressPGLZ data rawSize = (do let r ← Pglz.decompress rawSize g data []; pure (some r)) :=
  Proofs.ToastSize.decompressPGLZ_fuel data rawSize g hg h4

/-- decompressLZ4 likewise: every iteration of its main loop consumes the token byte. -/
theorem C10_fuel_decompressLZ4 (data : Bytes) (rawSize g : Nat) (hg : data.length < g) (h1 : ¬ data.length < 1) :
    Lz4.decompressLZ4 data rawSize = Lz4.loop rawSize g data [] :=
  Proofs.ToastSize.decompressLZ4_fuel data rawSize g hg h1

end PgVerif.Props.C10.Toast
