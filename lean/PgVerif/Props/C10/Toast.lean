/-
  C10 (area toast) — nothing in pgdump/toast.go faults, for every byte string, every pointer, every chunk list.
  The models are those of toast.go with fixes/toast/01..06, 20..22 applied (Model/Toast.lean, Model/Pglz.lean, Model/Lz4.lean);
  their slice/index primitives check against the length of the slice they are given, so "no fault" means: no Go panic
  (index, slice bounds, division by zero in `i % offset`) AND no read beyond the slice.

  Resource clause ("does not run or allocate beyond a small multiple of what the input size warrants"), second half of
  this file: SIZE of the results for arbitrary bytes, as bounds IN THE INPUT SIZE (`C10_size_*`).  The raw size a pointer
  declares is 4 bytes of an 18-byte datum the caller hands in — an attacker's number, not a measure of the input — so the
  bounds "≤ rawSize" are stated but are not what limits the cost; what does is the stream:
      pglz   ≤  91 · len(stream)   (a 3-byte tag stands for at most 18 + 255 = 273 bytes)
      LZ4    ≤ 255 · len(stream)   (one length-extension byte stands for 255 bytes)
      zlib fallback (a format PostgreSQL never writes to TOAST) ≤ min(rawSize, 255 · len(stored)) since fix toast/22
      ReassembleTOAST ≤ 255 · (chunk bytes of the value), on every path, for every pointer.
  These ratios are properties of the two formats (PostgreSQL itself stores 64 MiB of zeros as 256 KiB of LZ4), so a tool
  that returns the original value cannot stay below them: they are what "the input warrants" here, and the claim says so.
  ALLOCATION is not in the model: since fix toast/22 each decompressor allocates its result once, at exactly the size
  it produces (a counting pass over the stream first), the zlib fallback inflates twice for the same reason; family
  `resource` (cases lz4amp / pglzamp / zbomb with va_rawsize = 0xFFFFFFFF) and `toastmut` measure
  allocation ≤ 2·output + 8·input + 1 MiB on the real code.
  TERMINATION: `C10_terminates_*`: the loops in which an exhausted iteration budget is a FAULT give the model's (fault-free)
  answer with the budget len(stream)+1, so the Go loops leave their condition within that many iterations.
-/
import PgVerif.Proofs.ToastTotal
import PgVerif.Proofs.ToastSize
namespace PgVerif.Props.C10.Toast
open PgVerif PgVerif.Model PgVerif.Model.Toast PgVerif.Proofs.Toast

/-- ParseTOASTPointer returns (a pointer or nil) for every byte string. -/
theorem C10_total_parseTOASTPointer (data : Bytes) : ∃ r, parseTOASTPointer data = .ok r :=
  parseTOASTPointer_total data

/-- IsTOASTPointer returns for every byte string. -/
theorem C10_total_isTOASTPointer (data : Bytes) : ∃ r, isTOASTPointer data = .ok r :=
  isTOASTPointer_total data

/-- ReadVarlena (as used for chunk_data) returns for every byte string: every header form, every claimed length. -/
theorem C10_total_readVarlena (data : Bytes) : ∃ r, readVarlena data = .ok r :=
  readVarlena_total data

/-- ReadTOASTTable returns for every byte string (any pages, any tuples, any chunk headers). -/
theorem C10_total_readTOASTTable (data : Bytes) : ∃ r, readTOASTTable data = .ok r :=
  readTOASTTable_total data

/-- decompressPGLZ returns (bytes or the error) for every stream and every claimed raw size: truncated tags, offsets
of 0 or beyond the output, missing extension bytes included; the index `start + i % offset` of the copy loop is
always inside the output. -/
theorem C10_total_decompressPGLZ (data : Bytes) (rawSize : Nat) : ∃ r, Pglz.decompressPGLZ data rawSize = .ok r :=
  decompressPGLZ_total data rawSize

/-- decompressLZ4 returns (bytes or the error) for every block and every claimed raw size: literal lengths running off
the end, truncated offsets, offset 0 or beyond the output, unterminated length extensions included. -/
theorem C10_total_decompressLZ4 (data : Bytes) (rawSize : Nat) : ∃ r, Lz4.decompressLZ4 data rawSize = .ok r :=
  decompressLZ4_total data rawSize

/-- ReassembleTOAST returns for every chunk list (duplicates, gaps, empty chunks), every value id, every pointer
(any raw size incl. 0..3 and 2^32−1, any method, compressed or not, or nil) and every behaviour of the zlib fallback. -/
theorem C10_total_reassembleTOAST (zlib : Bytes → Nat → Option Bytes) (chunks : List Chunk) (valueID : Nat) (ptr : Option Ptr) :
    ∃ r, reassembleTOAST zlib chunks valueID ptr = .ok r :=
  reassembleTOAST_total zlib chunks valueID ptr

/-- TOASTReader.ReadValue returns for every input, every set of loaded tables, and every outcome of reading the
relation file from the data directory. -/
theorem C10_total_readValue (zlib : Bytes → Nat → Option Bytes) (readFile : Nat → Option Bytes) (r : Reader) (data : Bytes) :
    ∃ x, readValue zlib readFile r data = .ok x :=
  readValue_total zlib readFile r data

/-- GetTOASTVerboseInfo returns for every relation id and every byte string. -/
theorem C10_total_getTOASTVerboseInfo (relid : Nat) (data : Bytes) : ∃ r, getTOASTVerboseInfo relid data = .ok r :=
  getTOASTVerboseInfo_total relid data

/-! ## resource clause: sizes and termination, arbitrary bytes -/

/-- decompressPGLZ, for every stream and every claimed raw size: at most `rawSize` bytes, and — a bound in the input — at
most 91 bytes per stream byte (a 3-byte tag yields at most 273 bytes: the ratio of the pglz format). -/
theorem C10_size_decompressPGLZ (data : Bytes) (rawSize : Nat) (d : Bytes)
    (h : Pglz.decompressPGLZ data rawSize = .ok (some d)) : d.length ≤ rawSize ∧ d.length ≤ 91 * data.length :=
  ⟨Proofs.ToastSize.decompressPGLZ_len data rawSize d h, Proofs.ToastSize.decompressPGLZ_ratio data rawSize d h⟩

/-- decompressLZ4, for every block: the result has at most `rawSize + len(stream)` bytes (matches stop at rawSize,
literals are copied without looking at it) and — a bound in the input — at most `255 · len(stream)` bytes (the expansion
the LZ4 block format can reach: one length-extension byte stands for 255 output bytes — a property of the format, not of
this decoder). -/
theorem C10_size_decompressLZ4 (data : Bytes) (rawSize : Nat) (d : Bytes)
    (h : Lz4.decompressLZ4 data rawSize = .ok (some d)) : d.length ≤ rawSize + data.length ∧ d.length ≤ 255 * data.length :=
  Proofs.ToastSize.decompressLZ4_len data rawSize d h

/-- ReassembleTOAST, for every chunk list, value id and pointer: the value it returns is never longer than 255 times the
chunk bytes it was given for that value — WHATEVER the pointer declares (va_rawsize = 2^32 − 1 included) — and never longer
than those chunk bytes plus, for a compressed pointer, va_rawsize − 4.  `hz` is io.LimitReader's contract for the zlib
fallback (`zlib d n` = at most `n` bytes); the limit the fallback is given is min(va_rawsize − 4, 255 · stored bytes)
(fixes toast/20 and toast/22 — the first alone bounded it by va_rawsize only: pointer 0xFFFFFFFF, 256 KiB of chunk data →
203 MB; before both it was an unbounded `io.ReadAll`, known finding C10-zlib-bomb). -/
theorem C10_size_reassembleTOAST (zlib : Bytes → Nat → Option Bytes) (hz : ZlibBounded zlib) (chunks : List Chunk)
    (valueID : Nat) (ptr : Option Ptr) (r : Bytes) (h : reassembleTOAST zlib chunks valueID ptr = .ok (some r)) :
    r.length ≤ 255 * Proofs.ToastSize.chunkBytes chunks valueID ∧
    r.length ≤ (match ptr with | some p => p.rawSize - 4 | none => 0) + Proofs.ToastSize.chunkBytes chunks valueID :=
  have := Proofs.ToastSize.reassembleTOAST_len zlib hz chunks valueID ptr r h
  ⟨this.2, this.1⟩

/-- the ratio 255 of `C10_size_decompressLZ4` / `C10_size_reassembleTOAST` is the format's, not slack of the proof: the
13-byte LZ4 block `1F 41 0100 FF×8 00` with a declared raw size of 2^32 − 5 gives 1 + 19 + 8·255 = 2060 bytes (158 per
stream byte); with n extension bytes instead of 8 the quotient tends to 255. -/
example :
    (match Lz4.decompressLZ4 [0x1F, 0x41, 0x01, 0x00, 255, 255, 255, 255, 255, 255, 255, 255, 0] 4294967291 with
     | .ok (some r) => r.length
     | _ => 0) = 2060 := by
  decide +kernel

/-- the hypothesis of `C10_size_reassembleTOAST` is satisfiable: a fallback that always fails, and one that returns a
prefix of its input -/
example : ZlibBounded (fun _ _ => none) := fun _ _ _ h => by cases h
example : ZlibBounded (fun d n => some (d.take n)) := fun d n z h => by
  cases h; simp only [List.length_take]; omega

/-- decompressPGLZ TERMINATES within len(stream)+1 iterations of its outer loop, for every stream and raw size:
`Pglz.decompressB` is the same loop in which using up the iteration budget while the Go loop condition
(`pos < len(data) && len(result) < rawSize`) still holds is a FAULT (`.budget`); run with the budget len(stream)+1 it gives
exactly the model's answer — and the model never faults (`C10_total_decompressPGLZ`), so the budget fault is unreachable:
the condition is false after at most len(stream)+1 iterations (every iteration consumes at least the control byte). -/
theorem C10_terminates_decompressPGLZ (data : Bytes) (rawSize : Nat) (h4 : ¬ data.length < 4) :
    Pglz.decompressPGLZ data rawSize = (do let r ← Pglz.decompressB rawSize (data.length + 1) data []; pure (some r)) ∧
    ∃ r, (do let r ← Pglz.decompressB rawSize (data.length + 1) data []; pure (some r) : M (Option Bytes)) = .ok r := by
  have h := Proofs.ToastSize.decompressPGLZ_strict data rawSize h4
  exact ⟨h, by rw [← h]; exact decompressPGLZ_total data rawSize⟩

/-- decompressLZ4 likewise (`Lz4.loopB`; every iteration of the main loop consumes the token byte). -/
theorem C10_terminates_decompressLZ4 (data : Bytes) (rawSize : Nat) (h1 : ¬ data.length < 1) :
    Lz4.decompressLZ4 data rawSize = Lz4.loopB rawSize (data.length + 1) data [] ∧
    ∃ r, Lz4.loopB rawSize (data.length + 1) data [] = .ok r := by
  have h := Proofs.ToastSize.decompressLZ4_strict data rawSize h1
  exact ⟨h, by rw [← h]; exact decompressLZ4_total data rawSize⟩

/-- the budget fault of `decompressB` is real (the twin is not the lenient loop under another name): with a budget of 1 a
two-group stream is not finished -/
example : Pglz.decompressB 100 1 [0, 1, 2, 3, 4, 5, 6, 7, 8, 0, 9] [] = .error .budget := by rfl

/-- budget independence (the weaker statement the termination theorems replace, kept because Proofs use it): with ANY
iteration budget above len(stream) the model's outer loop gives the same result. -/
theorem C10_fuel_decompressPGLZ (data : Bytes) (rawSize g : Nat) (hg : data.length < g) (h4 : ¬ data.length < 4) :
    Pglz.decompressPGLZ data rawSize = (do let r ← Pglz.decompress rawSize g data []; pure (some r)) :=
  Proofs.ToastSize.decompressPGLZ_fuel data rawSize g hg h4

/-- decompressLZ4 likewise (budget independence). -/
theorem C10_fuel_decompressLZ4 (data : Bytes) (rawSize g : Nat) (hg : data.length < g) (h1 : ¬ data.length < 1) :
    Lz4.decompressLZ4 data rawSize = Lz4.loop rawSize g data [] :=
  Proofs.ToastSize.decompressLZ4_fuel data rawSize g hg h1

end PgVerif.Props.C10.Toast
