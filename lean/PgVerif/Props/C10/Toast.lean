/-
  C10 (area toast) — nothing in pgdump/toast.go faults, for every byte string, every pointer, every chunk list.
  The models are those of toast.go with fixes/toast/01..04 applied (Model/Toast.lean, Model/Pglz.lean, Model/Lz4.lean);
  their slice/index primitives check against the length of the slice they are given, so "no fault" means: no Go panic
  (index, slice bounds, division by zero in `i % offset`) AND no read beyond the slice.  Allocation (finding A34: the
  up-front `make([]byte, 0, rawSize)`) is outside the model; it is checked by the malformed family `toastmut`.
-/
import PgVerif.Proofs.ToastTotal
namespace PgVerif.Props.C10.Toast
open PgVerif PgVerif.Model PgVerif.Model.Toast PgVerif.Proofs.Toast

/-- ParseTOASTPointer returns (a pointer or nil) for every byte string. -/
theorem C10_total_parseTOASTPointer (data : Bytes) : ∃ r, parseTOASTPointer data = .ok r :=
  parseTOASTPointer_total data

/-- IsTOASTPointer returns for every byte string. -/
theorem C10_total_isTOASTPointer (data : Bytes) : ∃ r, isTOASTPointer data = .ok r :=
  isTOASTPointer_total data

/-- ReadVarlena (as used for chunk_data) returns for every byte string: every header form, every claimed length. -/
theorem C10_total_readVarlena (data : Bytes) : ∃ r, readVarlena data = .ok r :=
  readVarlena_total data

/-- ReadTOASTTable returns for every byte string (any pages, any tuples, any chunk headers). -/
theorem C10_total_readTOASTTable (data : Bytes) : ∃ r, readTOASTTable data = .ok r :=
  readTOASTTable_total data

/-- decompressPGLZ returns (bytes or the error) for every stream and every claimed raw size: truncated tags, offsets
of 0 or beyond the output, missing extension bytes included; the index `start + i % offset` of the copy loop is
always inside the output. -/
theorem C10_total_decompressPGLZ (data : Bytes) (rawSize : Nat) : ∃ r, Pglz.decompressPGLZ data rawSize = .ok r :=
  decompressPGLZ_total data rawSize

/-- decompressLZ4 returns (bytes or the error) for every block and every claimed raw size: literal lengths running off
the end, truncated offsets, offset 0 or beyond the output, unterminated length extensions included. -/
theorem C10_total_decompressLZ4 (data : Bytes) (rawSize : Nat) : ∃ r, Lz4.decompressLZ4 data rawSize = .ok r :=
  decompressLZ4_total data rawSize

/-- ReassembleTOAST returns for every chunk list (duplicates, gaps, empty chunks), every value id, every pointer
(any raw size incl. 0..3 and 2^32−1, any method, compressed or not, or nil) and every behaviour of the zlib fallback. -/
theorem C10_total_reassembleTOAST (zlib : Bytes → Option Bytes) (chunks : List Chunk) (valueID : Nat) (ptr : Option Ptr) :
    ∃ r, reassembleTOAST zlib chunks valueID ptr = .ok r :=
  reassembleTOAST_total zlib chunks valueID ptr

/-- TOASTReader.ReadValue returns for every input, every set of loaded tables, and every outcome of reading the
relation file from the data directory. -/
theorem C10_total_readValue (zlib : Bytes → Option Bytes) (readFile : Nat → Option Bytes) (r : Reader) (data : Bytes) :
    ∃ x, readValue zlib readFile r data = .ok x :=
  readValue_total zlib readFile r data

/-- GetTOASTVerboseInfo returns for every relation id and every byte string. -/
theorem C10_total_getTOASTVerboseInfo (relid : Nat) (data : Bytes) : ∃ r, getTOASTVerboseInfo relid data = .ok r :=
  getTOASTVerboseInfo_total relid data

end PgVerif.Props.C10.Toast
