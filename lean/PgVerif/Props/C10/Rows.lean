/-
  C10 (area rows) — row decoding, varlena reading and credential extraction never fault, for every byte
  string, every tuple and every schema (hostile Len / Num / Align / TypID values included).
  The scalar decoder is a parameter; the theorems assume only that IT does not fault (area `scalars` owns
  DecodeType) and show that nothing in heap.go / deleted.go / passwords.go / ReadVarlena adds a fault.
-/
import PgVerif.Proofs.Rows
import PgVerif.Proofs.HeapFile
import PgVerif.Proofs.InlineCompSize
namespace PgVerif.Props.C10.Rows
open PgVerif PgVerif.Model PgVerif.Proofs PgVerif.Proofs.Rows

/-- a scalar decoder that returns for every input -/
def TotalDec (dec : Dec) : Prop := ∀ b t, ∃ v, dec b t = .ok v

/-- ReadVarlena returns for every byte string: every index and slice in it is guarded, and the decompressors of the
inline-compressed branch (fix 09) return for every stream and every claimed raw size. -/
theorem C10_total_readVarlena (data : Bytes) : ∃ r, readVarlena data = .ok r := by
  unfold readVarlena
  by_cases h0 : data.length = 0
  · rw [if_pos h0]; exact ⟨_, rfl⟩
  · rw [if_neg h0, idx_ok data 0 (by omega)]
    simp only [ok_bind]
    split
    · split
      · exact ⟨_, rfl⟩
      · rw [slice_ok _ _ _ (by omega) (by omega)]; exact ⟨_, rfl⟩
    · split
      · split
        · rw [idx_ok data 1 (by omega)]
          simp only [ok_bind]
          split <;> exact ⟨_, rfl⟩
        · exact ⟨_, rfl⟩
      · split
        · exact ⟨_, rfl⟩
        · rw [uN_ok 4 data 0 (by omega)]
          simp only [ok_bind]
          split
          · exact ⟨_, rfl⟩
          · split
            · obtain ⟨v, hv⟩ := InlineComp.inlineDecompress_total data (rd 4 (data.drop 0) / 4) (by omega) (by omega)
              rw [hv]; exact ⟨_, rfl⟩
            · rw [slice_ok _ _ _ (by omega) (by omega)]; exact ⟨_, rfl⟩

/-- The inline-compressed branch of ReadVarlena (fix 09) returns for every byte string once ReadVarlena's own guards hold:
every stream (truncated tags, offsets before the start of the output, literal runs off the end), every claimed raw size,
every method value 0..3. -/
theorem C10_total_inlineDecompress (data : Bytes) (total : Nat) (h8 : 8 ≤ total) (hl : total ≤ data.length) :
    ∃ r, inlineDecompress data total = .ok r :=
  InlineComp.inlineDecompress_total data total h8 hl

/-- **Size, in the input.**  Whatever ReadVarlena returns for ANY byte string: it consumes at most the input (or the 18 / 4 /
1 bytes of a header it rejects), and the value it returns has at most 255 bytes per input byte (LZ4's densest encoding;
plain values: at most the input itself) — the 30-bit raw-size field of va_tcinfo, which a hostile file sets freely, is
no bound on what is produced: a stream that does not yield exactly that many bytes gives nil. -/
theorem C10_size_readVarlena (data v : Bytes) (n : Nat) (h : readVarlena data = .ok (some v, n)) :
    v.length ≤ 255 * data.length ∧ n ≤ data.length := by
  unfold readVarlena at h
  by_cases h0 : data.length = 0
  · rw [if_pos h0] at h; cases h
  · rw [if_neg h0, idx_ok data 0 (by omega)] at h
    simp only [ok_bind] at h
    split at h
    · split at h
      · cases h
      · rename_i hc
        rw [slice_ok _ _ _ (by omega) (by omega)] at h
        simp only [ok_bind, pure_eq_ok, Except.ok.injEq, Prod.mk.injEq, Option.some.injEq] at h
        obtain ⟨hv, hn⟩ := h
        subst hv; subst hn
        simp only [List.length_drop, List.length_take]; omega
    · split at h
      · split at h
        · rw [idx_ok data 1 (by omega)] at h
          simp only [ok_bind] at h
          split at h <;> cases h
        · cases h
      · split at h
        · cases h
        · rw [uN_ok 4 data 0 (by omega)] at h
          simp only [ok_bind] at h
          split at h
          · cases h
          · rename_i hc
            split at h
            · rename_i hz
              obtain ⟨w, hw⟩ := InlineComp.inlineDecompress_total data (rd 4 (data.drop 0) / 4) (by omega) (by omega)
              rw [hw] at h
              simp only [ok_bind, pure_eq_ok, Except.ok.injEq, Prod.mk.injEq] at h
              obtain ⟨hv, hn⟩ := h
              subst hv; subst hn
              have := (InlineComp.inlineDecompress_size data _ v hz.2 (by omega) hw).1
              omega
            · rw [slice_ok _ _ _ (by omega) (by omega)] at h
              simp only [ok_bind, pure_eq_ok, Except.ok.injEq, Prod.mk.injEq, Option.some.injEq] at h
              obtain ⟨hv, hn⟩ := h
              subst hv; subst hn
              simp only [List.length_drop, List.length_take]; omega

/-- readValue returns for every data, offset, type oid and attlen (negative, zero, huge …) as long as the
scalar decoder does. -/
theorem C10_total_readValue (dec : Dec) (hdec : TotalDec dec) (data : Bytes) (offset : Nat) (typid len : Int) :
    ∃ r, readValue dec data offset typid len = .ok r := by
  unfold readValue
  by_cases h0 : offset ≥ data.length
  · rw [if_pos h0]; exact ⟨_, rfl⟩
  · rw [if_neg h0, sliceFrom_ok _ _ (by omega)]
    simp only [ok_bind]
    split
    · split
      · exact ⟨_, rfl⟩
      · rename_i hpos hlt
        have hle : len.toNat ≤ (data.drop offset).length := by
          have h1 : (len.toNat : Int) = len := Int.toNat_of_nonneg (Int.le_of_lt hpos)
          have h2 : ¬ (((data.drop offset).length : Int) < (len.toNat : Int)) := by rw [h1]; exact hlt
          omega
        rw [sliceTo_ok _ _ hle]
        simp only [ok_bind]
        obtain ⟨v, hv⟩ := hdec ((data.drop offset).take len.toNat) typid
        rw [hv]; exact ⟨_, rfl⟩
    · split
      · obtain ⟨r, hr⟩ := C10_total_readVarlena (data.drop offset)
        rw [hr]
        simp only [ok_bind]
        split
        · exact ⟨_, rfl⟩
        · rename_i val _
          have : ∃ v, varlenaVal dec val typid = .ok v := by
            unfold varlenaVal
            split
            · exact ⟨_, rfl⟩
            · exact hdec val typid
          obtain ⟨v, hv⟩ := this
          rw [hv]; exact ⟨_, rfl⟩
      · exact ⟨_, rfl⟩

/-- The column loop of DecodeTuple returns for every tuple (any bitmap, any data) and every schema. -/
theorem C10_total_decodeCols (dec : Dec) (hdec : TotalDec dec) (t : HeapTuple) (cols : List Column) (i off : Nat) :
    ∃ r, decodeCols dec t cols i off = .ok r := by
  induction cols generalizing i off with
  | nil => exact ⟨_, rfl⟩
  | cons c cs ih =>
    simp only [decodeCols]
    generalize (if c.num = 0 then (i : Int) + 1 else c.num) = num
    by_cases hnl : t.isNull num = true
    · obtain ⟨r, hr⟩ := ih (i + 1) off
      rw [if_pos hnl, hr]; exact ⟨_, rfl⟩
    · rw [if_neg hnl, chooseAlign_eq]
      simp only [ok_bind]
      obtain ⟨r, hr⟩ := C10_total_readValue dec hdec t.data
        (Model.align off (if c.len = -1 ∧ off < t.data.length ∧ t.data[off]?.getD 0 ≠ 0 then 1 else colAlign c)) c.typid c.len
      rw [hr]
      simp only [ok_bind]
      obtain ⟨r2, hr2⟩ := ih (i + 1) (Model.align off (if c.len = -1 ∧ off < t.data.length ∧ t.data[off]?.getD 0 ≠ 0 then 1 else colAlign c) + r.2)
      rw [hr2]; exact ⟨_, rfl⟩

/-- DecodeTuple returns (a row or nil) for every tuple and every schema — negative / huge Len, Num beyond
the bitmap or negative, unknown Align bytes, data shorter than the schema needs. -/
theorem C10_total_decodeTuple (dec : Dec) (hdec : TotalDec dec) (t : HeapTuple) (cols : List Column) :
    ∃ r, decodeTuple dec t cols = .ok r := by
  unfold decodeTuple
  split
  · exact ⟨_, rfl⟩
  · obtain ⟨r, hr⟩ := C10_total_decodeCols dec hdec t cols 0 0
    rw [hr]; exact ⟨_, rfl⟩

/-- ReadRows returns for every byte string, every schema and both settings of the visibility switch. -/
theorem C10_total_readRows (dec : Dec) (hdec : TotalDec dec) (data : Bytes) (cols : List Column) (vis : Bool) :
    ∃ r, readRows dec data cols vis = .ok r := by
  obtain ⟨es, hes⟩ : ∃ es, readTuples data vis = .ok es := readTuplesFrom_total data vis _ 0
  simp only [readRows, hes, ok_bind]
  exact collectM_total _ es fun e => C10_total_decodeTuple dec hdec e.tuple cols

/-- … and so do ReadDeletedRows and ReadRowsWithDeleted. -/
theorem C10_total_readDeletedRows (dec : Dec) (hdec : TotalDec dec) (data : Bytes) (cols : List Column) :
    ∃ r, readDeletedRows dec data cols = .ok r := by
  obtain ⟨es, hes⟩ : ∃ es, readTuples data false = .ok es := readTuplesFrom_total data false _ 0
  simp only [readDeletedRows, hes, ok_bind]
  apply collectM_total
  intro e
  unfold deletedStep
  split
  · split
    · obtain ⟨r, hr⟩ := C10_total_decodeTuple dec hdec e.tuple cols
      rw [hr]; exact ⟨_, rfl⟩
    · exact ⟨_, rfl⟩
  · exact ⟨_, rfl⟩

theorem C10_total_readRowsWithDeleted (dec : Dec) (hdec : TotalDec dec) (data : Bytes) (cols : List Column) :
    ∃ r, readRowsWithDeleted dec data cols = .ok r := by
  obtain ⟨es, hes⟩ : ∃ es, readTuples data false = .ok es := readTuplesFrom_total data false _ 0
  simp only [readRowsWithDeleted, hes, ok_bind]
  have : ∃ rs, decodedEntries dec cols es = .ok rs := by
    apply collectM_total
    intro e
    obtain ⟨r, hr⟩ := C10_total_decodeTuple dec hdec e.tuple cols
    rw [hr]; exact ⟨_, rfl⟩
  obtain ⟨rs, hrs⟩ := this
  rw [hrs]; exact ⟨_, rfl⟩

/-- The per-tuple body of ParsePGAuthID returns for every tuple: the fixed offsets 0, 4, 68, 72, 80 are all
guarded (by `len(Data) < 70` and by the individual `offset+n <= len` tests). -/
theorem C10_total_authOne (t : HeapTuple) : ∃ r, authOne t = .ok r := by
  have hpw : ∀ off, ∃ pw, authPassword t off = .ok pw := by
    intro off
    unfold authPassword
    split
    · split
      · rw [sliceFrom_ok _ _ (by omega)]
        simp only [ok_bind]
        obtain ⟨r, hr⟩ := C10_total_readVarlena (t.data.drop (Model.align off 4))
        rw [hr]; exact ⟨_, rfl⟩
      · exact ⟨_, rfl⟩
    · exact ⟨_, rfl⟩
  unfold authOne
  by_cases h70 : t.data.length < 70
  · rw [if_pos h70]; exact ⟨_, rfl⟩
  · rw [if_neg h70, if_pos (by omega), uN_ok 4 t.data 0 (by omega)]
    simp only [ok_bind]
    rw [if_pos (by omega), sliceFrom_ok _ _ (by omega)]
    simp only [ok_bind]
    rw [if_pos (by omega), idx_ok _ _ (by omega)]
    simp only [ok_bind]
    by_cases h73 : 72 + 1 ≤ t.data.length
    · rw [if_pos h73, idx_ok _ _ (by omega)]
      simp only [ok_bind]
      obtain ⟨pw, hp⟩ := hpw (Model.align ((if 72 + 1 ≤ t.data.length then 73 else 72) + 2) 4 + 4)
      rw [hp]
      simp only [ok_bind]
      split <;> exact ⟨_, rfl⟩
    · rw [if_neg h73]
      simp only [ok_bind, pure_eq_ok]
      obtain ⟨pw, hp⟩ := hpw (Model.align ((if 72 + 1 ≤ t.data.length then 73 else 72) + 2) 4 + 4)
      rw [hp]
      simp only [ok_bind]
      split <;> exact ⟨_, rfl⟩

/-- ParsePGAuthID returns for every byte string. -/
theorem C10_total_parsePGAuthID (data : Bytes) : ∃ r, parsePGAuthID data = .ok r := by
  obtain ⟨es, hes⟩ : ∃ es, readTuples data false = .ok es := readTuplesFrom_total data false _ 0
  simp only [parsePGAuthID, hes, ok_bind]
  exact collectM_total _ es fun e => C10_total_authOne e.tuple

/-- ExtractPasswordsFromFiles returns (roles, or the reader's error) for every reader. -/
theorem C10_total_extractPasswordsFromFiles (reader : Bytes → Option Bytes) :
    ∃ r, extractPasswordsFromFiles reader = .ok r := by
  unfold extractPasswordsFromFiles
  split
  · exact ⟨_, rfl⟩
  · rename_i data _
    obtain ⟨r, hr⟩ := C10_total_parsePGAuthID data
    rw [hr]; exact ⟨_, rfl⟩

/-- Value isolation: a column's value and the number of bytes it consumes depend only on the data bytes from
the column's offset on — whatever bytes precede it (damaged or not) it decodes the same (`readValue` never
looks back). -/
theorem C10_isolate_value (dec : Dec) (pre pre' X : Bytes) (typid len : Int) :
    readValue dec (pre ++ X) pre.length typid len = readValue dec (pre' ++ X) pre'.length typid len := by
  rw [readValue_shift, readValue_shift]

/-- non-vacuity: the trivial decoder is total, and a hostile schema over a 3-byte tuple decodes -/
example : TotalDec (fun b _ => pure (.int b.length)) := fun _ _ => ⟨_, rfl⟩
example : decodeTuple (fun b _ => pure (.int b.length)) ⟨⟨0, 0, 0, false, false, false, true⟩, some [5], [3, 1, 18]⟩
    [⟨[97], 25, -1, -4, 255⟩, ⟨[98], 0, 9223372036854775807, 2, 0⟩, ⟨[99], 16, -7, 9999, 100⟩]
    = .ok (some [([97], .str []), ([98], .nil), ([99], .nil)]) := by rfl

end PgVerif.Props.C10.Rows
