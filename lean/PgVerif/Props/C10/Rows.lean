/-
  C10 (area rows) — row decoding, varlena reading and credential extraction never fault, for every byte
  string, every tuple and every schema (hostile Len / Num / Align / TypID values included).
  The scalar decoder is a parameter; the theorems assume only that IT does not fault (area `scalars` owns
  DecodeType) and show that nothing in heap.go / deleted.go / passwords.go / ReadVarlena adds a fault.
-/
import PgVerif.Proofs.Rows
namespace PgVerif.Props.C10.Rows
open PgVerif PgVerif.Model PgVerif.Proofs.Rows

/-- a scalar decoder that returns for every input -/
def TotalDec (dec : Dec) : Prop := ∀ b t, ∃ v, dec b t = .ok v

/-- ReadVarlena returns for every byte string: every index and slice in it is guarded. -/
theorem C10_total_readVarlena (data : Bytes) : ∃ r, readVarlena data = .ok r := by
  unfold readVarlena
  by_cases h0 : data.length = 0
  · rw [if_pos h0]; exact ⟨_, rfl⟩
  · rw [if_neg h0, idx_ok data 0 (by omega)]
    simp only [ok_bind]
    split
    · split
      · exact ⟨_, rfl⟩
      · rw [slice_ok _ _ _ (by omega) (by omega)]; exact ⟨_, rfl⟩
    · split
      · split
        · rw [idx_ok data 1 (by omega)]
          simp only [ok_bind]
          split <;> exact ⟨_, rfl⟩
        · exact ⟨_, rfl⟩
      · split
        · exact ⟨_, rfl⟩
        · rw [uN_ok 4 data 0 (by omega)]
          simp only [ok_bind]
          split
          · exact ⟨_, rfl⟩
          · rw [slice_ok _ _ _ (by omega) (by omega)]; exact ⟨_, rfl⟩

/-- readValue returns for every data, offset, type oid and attlen (negative, zero, huge …) as long as the
scalar decoder does. -/
theorem C10_total_readValue (dec : Dec) (hdec : TotalDec dec) (data : Bytes) (offset : Nat) (typid len : Int) :
    ∃ r, readValue dec data offset typid len = .ok r := by
  unfold readValue
  by_cases h0 : offset ≥ data.length
  · rw [if_pos h0]; exact ⟨_, rfl⟩
  · rw [if_neg h0, sliceFrom_ok _ _ (by omega)]
    simp only [ok_bind]
    split
    · split
      · exact ⟨_, rfl⟩
      · rename_i hpos hlt
        have hle : len.toNat ≤ (data.drop offset).length := by
          have h1 : (len.toNat : Int) = len := Int.toNat_of_nonneg (Int.le_of_lt hpos)
          have h2 : ¬ (((data.drop offset).length : Int) < (len.toNat : Int)) := by rw [h1]; exact hlt
          omega
        rw [sliceTo_ok _ _ hle]
        simp only [ok_bind]
        obtain ⟨v, hv⟩ := hdec ((data.drop offset).take len.toNat) typid
        rw [hv]; exact ⟨_, rfl⟩
    · split
      · obtain ⟨r, hr⟩ := C10_total_readVarlena (data.drop offset)
        rw [hr]
        simp only [ok_bind]
        split
        · exact ⟨_, rfl⟩
        · rename_i val _
          have : ∃ v, varlenaVal dec val typid = .ok v := by
            unfold varlenaVal
            split
            · exact ⟨_, rfl⟩
            · exact hdec val typid
          obtain ⟨v, hv⟩ := this
          rw [hv]; exact ⟨_, rfl⟩
      · exact ⟨_, rfl⟩

/-- The column loop of DecodeTuple returns for every tuple (any bitmap, any data) and every schema. -/
theorem C10_total_decodeCols (dec : Dec) (hdec : TotalDec dec) (t : HeapTuple) (cols : List Column) (i off : Nat) :
    ∃ r, decodeCols dec t cols i off = .ok r := by
  induction cols generalizing i off with
  | nil => exact ⟨_, rfl⟩
  | cons c cs ih =>
    simp only [decodeCols]
    split
    · obtain ⟨r, hr⟩ := ih (i + 1) off
      rw [hr]; exact ⟨_, rfl⟩
    · rw [chooseAlign_eq]
      simp only [ok_bind]
      obtain ⟨r, hr⟩ := C10_total_readValue dec hdec t.data
        (Model.align off (if c.len = -1 ∧ off < t.data.length ∧ t.data[off]?.getD 0 ≠ 0 then 1 else colAlign c)) c.typid c.len
      rw [hr]
      simp only [ok_bind]
      obtain ⟨r2, hr2⟩ := ih (i + 1) (Model.align off (if c.len = -1 ∧ off < t.data.length ∧ t.data[off]?.getD 0 ≠ 0 then 1 else colAlign c) + r.2)
      rw [hr2]; exact ⟨_, rfl⟩

/-- DecodeTuple returns (a row or nil) for every tuple and every schema — negative / huge Len, Num beyond
the bitmap or negative, unknown Align bytes, data shorter than the schema needs. -/
theorem C10_total_decodeTuple (dec : Dec) (hdec : TotalDec dec) (t : HeapTuple) (cols : List Column) :
    ∃ r, decodeTuple dec t cols = .ok r := by
  unfold decodeTuple
  split
  · exact ⟨_, rfl⟩
  · obtain ⟨r, hr⟩ := C10_total_decodeCols dec hdec t cols 0 0
    rw [hr]; exact ⟨_, rfl⟩

theorem collectM_total {α β} (f : α → M (Option β)) (xs : List α) (h : ∀ x, ∃ r, f x = .ok r) :
    ∃ r, collectM f xs = .ok r := by
  induction xs with
  | nil => exact ⟨_, rfl⟩
  | cons x xs ih =>
    obtain ⟨r, hr⟩ := h x
    obtain ⟨rs, hrs⟩ := ih
    simp only [collectM, hr, hrs, ok_bind]
    exact ⟨_, rfl⟩

/-- ReadRows adds no fault to the tuple scan: wherever `ReadTuples` returns, `ReadRows` returns. -/
theorem C10_total_readRows (dec : Dec) (hdec : TotalDec dec) (data : Bytes) (cols : List Column) (vis : Bool)
    (hscan : ∃ es, readTuples data vis = .ok es) : ∃ r, readRows dec data cols vis = .ok r := by
  obtain ⟨es, hes⟩ := hscan
  simp only [readRows, hes, ok_bind]
  exact collectM_total _ es fun e => C10_total_decodeTuple dec hdec e.tuple cols

/-- … and so do ReadDeletedRows and ReadRowsWithDeleted. -/
theorem C10_total_readDeletedRows (dec : Dec) (hdec : TotalDec dec) (data : Bytes) (cols : List Column)
    (hscan : ∃ es, readTuples data false = .ok es) : ∃ r, readDeletedRows dec data cols = .ok r := by
  obtain ⟨es, hes⟩ := hscan
  simp only [readDeletedRows, hes, ok_bind]
  apply collectM_total
  intro e
  unfold deletedStep
  split
  · split
    · obtain ⟨r, hr⟩ := C10_total_decodeTuple dec hdec e.tuple cols
      rw [hr]; exact ⟨_, rfl⟩
    · exact ⟨_, rfl⟩
  · exact ⟨_, rfl⟩

theorem C10_total_readRowsWithDeleted (dec : Dec) (hdec : TotalDec dec) (data : Bytes) (cols : List Column)
    (hscan : ∃ es, readTuples data false = .ok es) : ∃ r, readRowsWithDeleted dec data cols = .ok r := by
  obtain ⟨es, hes⟩ := hscan
  simp only [readRowsWithDeleted, hes, ok_bind]
  have : ∃ rs, decodedEntries dec cols es = .ok rs := by
    apply collectM_total
    intro e
    obtain ⟨r, hr⟩ := C10_total_decodeTuple dec hdec e.tuple cols
    rw [hr]; exact ⟨_, rfl⟩
  obtain ⟨rs, hrs⟩ := this
  rw [hrs]; exact ⟨_, rfl⟩

end PgVerif.Props.C10.Rows
