/-
  C10 (area block) — the block-range, segment and checksum entry points never fault, for every input.
  "No fault" = no Go panic (index / slice bounds / makeslice / divide by zero), no read beyond the slice
  handed to the function, and the loops' fuel is never exhausted.
  The models are those of the repaired code (/verif/fixes/block 01–07); before fix 05/06
  ReadMultiSegmentFile and GlobalBlockToSegment did fault (witnesses at the end).
-/
import PgVerif.Proofs.BlockRead
import PgVerif.Proofs.SegmentMulti
import PgVerif.Proofs.ChecksumAcct
import PgVerif.Proofs.HeapFile
namespace PgVerif.Props.C10.Block
open PgVerif PgVerif.Model PgVerif.Proofs PgVerif.Proofs.Block PgVerif.Proofs.SegmentMulti PgVerif.Proofs.ChecksumAcct

/-- ParseBlockRange returns (a range, nil or an error) for every byte string. -/
theorem C10_total_parseBlockRange (s : Bytes) : ∃ r, parseBlockRange s = .ok r :=
  parseBlockRange_total s

/-- ParseBlockInfo returns for every byte string and block number. -/
theorem C10_total_parseBlockInfo (data : Bytes) (bn : Nat) : ∃ r, parseBlockInfo data bn = .ok r :=
  parseBlockInfo_total data bn

/-- VerifyPageChecksum returns for every byte string, block number and checksum function. -/
theorem C10_total_verifyPageChecksum (ck : Bytes → Nat → Nat) (page : Bytes) (bn : Nat) :
    ∃ r, verifyPageChecksum ck page bn = .ok r :=
  verifyPageChecksum_total ck page bn

/-- computePageChecksum works on a copy that always has 8192 bytes = 2048 whole 4-byte words, whatever the length of the
input: so its constant-index writes (bytes 8 and 9) and its reads `pageCopy[i:i+4]` for `i = 0, 4, … 8188` are in range.
(A length fact about the copy, not a totality statement: the checksum function itself is the parameter `ck` of
`verifyPageChecksum`.) -/
theorem C10_computePageChecksum_copy_length (page : Bytes) :
    (pageCopy page).length = 8192 ∧ (words32 (pageCopy page)).length = 2048 := by
  refine ⟨pageCopy_length page, ?_⟩
  rw [words32_length, pageCopy_length]

/-- VerifyFileChecksums returns for every byte string, segment number and checksum function. -/
theorem C10_total_verifyFileChecksums (ck : Bytes → Nat → Nat) (data : Bytes) (seg : Nat) :
    ∃ r, verifyFileChecksums ck data seg = .ok r :=
  ⟨_, verifyFileChecksums_eq ck data seg⟩

/-- VerifyDataDirChecksums returns for every directory content. -/
theorem C10_total_verifyDataDirChecksums (ck : Bytes → Nat → Nat) (fs : DataDirFS) :
    ∃ r, verifyDataDirChecksums ck fs = .ok r := by
  cases h : fs.base with
  | none => exact ⟨_, verifyDataDirChecksums_noBase ck fs h⟩
  | some entries => exact ⟨_, verifyDataDirChecksums_eq ck fs entries h⟩

/-- ReadBlockRange returns for every file (shorter than 2^62 bytes, or missing) and every pair of Go ints. -/
theorem C10_total_readBlockRange (file : Option Bytes) (hlen : ∀ f, file = some f → f.length < 2 ^ 62)
    (r : Option BlockRange) : ∃ res, readBlockRange file r = .ok res :=
  readBlockRange_total file hlen r

/-- DumpBlockRange, DumpBinaryRange, GetBlockRangeStats, DumpBinaryBlock, ReadTuplesInRange return for every
file content and every request: the block loops stay inside what ReadBlockRange delivered. -/
theorem C10_total_dumpBlockRange (file : Option Bytes) (hlen : ∀ f, file = some f → f.length < 2 ^ 62)
    (r : Option BlockRange) : ∃ res, dumpBlockRange file r = .ok res := by
  unfold dumpBlockRange
  obtain ⟨res, h⟩ := readBlockRange_total file hlen r
  rw [h]
  cases res with
  | error e => exact ⟨_, rfl⟩
  | ok data =>
    obtain ⟨l, hl⟩ := dumpBlocks_total data (rangeStart r)
    simp only [ok_bind, hl, pure_eq_ok]
    exact ⟨_, rfl⟩

theorem C10_total_getBlockRangeStats (file : Option Bytes) (hlen : ∀ f, file = some f → f.length < 2 ^ 62)
    (r : Option BlockRange) : ∃ res, getBlockRangeStats file r = .ok res := by
  unfold getBlockRangeStats
  obtain ⟨res, h⟩ := C10_total_dumpBlockRange file hlen r
  rw [h]
  cases res with
  | error e => exact ⟨_, rfl⟩
  | ok l => exact ⟨_, rfl⟩

theorem C10_total_dumpBinaryRange {α} (hexDump : Bytes → α) (file : Option Bytes)
    (hlen : ∀ f, file = some f → f.length < 2 ^ 62) (r : Option BlockRange) :
    ∃ res, dumpBinaryRange hexDump file r = .ok res := by
  unfold dumpBinaryRange
  obtain ⟨res, h⟩ := readBlockRange_total file hlen r
  rw [h]
  cases res with
  | error e => exact ⟨_, rfl⟩
  | ok data =>
    obtain ⟨l, hl⟩ := dumpBinaryBlocks_total hexDump data (rangeStart r)
    simp only [ok_bind, hl, pure_eq_ok]
    exact ⟨_, rfl⟩

theorem C10_total_dumpBinaryBlock {α} (hexDump : Bytes → α) (file : Option Bytes)
    (hlen : ∀ f, file = some f → f.length < 2 ^ 62) (n : Int) :
    ∃ res, dumpBinaryBlock hexDump file n = .ok res := by
  unfold dumpBinaryBlock
  by_cases hn : n < 0
  · simp only [hn, if_true]; exact ⟨_, rfl⟩
  · simp only [hn, if_false]
    obtain ⟨res, h⟩ := readBlockRange_total file hlen (some ⟨n, n⟩)
    rw [h]
    cases res with
    | error e => exact ⟨_, rfl⟩
    | ok data => exact ⟨_, rfl⟩

theorem C10_total_readTuplesInRange (file : Option Bytes) (hlen : ∀ f, file = some f → f.length < 2 ^ 62)
    (r : Option BlockRange) (inc : Bool) : ∃ res, readTuplesInRange file r inc = .ok res := by
  unfold readTuplesInRange
  obtain ⟨res, h⟩ := readBlockRange_total file hlen r
  rw [h]
  cases res with
  | error e => exact ⟨_, rfl⟩
  | ok data =>
    obtain ⟨l, hl⟩ := readTuplesFrom_total data (!inc) (data.length / 8192 + 1) 0
    simp only [ok_bind, readTuples, hl, pure_eq_ok]
    exact ⟨_, rfl⟩

/-- ReadMultiSegmentFile (after fix 05) returns for EVERY set of segment files, every pair of Go ints and every
option value: no division by zero, no index out of range, the loop terminates within its fuel. -/
theorem C10_total_readMultiSegmentFile (fs : SegFS) (a b : Int) (opts : Option SegmentOptions) :
    ∃ r, readMultiSegmentFile fs a b opts = .ok r :=
  readMultiSegmentFile_total fs a b opts

/-- GlobalBlockToSegment (after fix 06) returns for every pair of Go ints. -/
theorem C10_total_globalBlockToSegment (g sz : Int) : ∃ r, globalBlockToSegment g sz = .ok r :=
  globalBlockToSegment_total g sz

/-- Block isolation for checksum verification: damage confined to one block does not change what is
reported for the others (arbitrary bytes, any checksum function). -/
theorem C10_isolate_checksum (ck : Bytes → Nat → Nat) (data data' : Bytes) (seg j : Nat)
    (hlen : data.length = data'.length) (hsame : ∀ i, i ≠ j → chunk data i = chunk data' i) :
    (fileResult ck data seg).errors.filter (fun e => e.blockNumber != blockNum seg j) =
      (fileResult ck data' seg).errors.filter (fun e => e.blockNumber != blockNum seg j) :=
  errors_isolated ck data data' seg j hlen hsame

/-- Why fixes 05/06 were needed — the loop body of the UNREPAIRED ReadMultiSegmentFile faults: with a segment
size below one block `blocksPerSegment` is 0 and the division panics; with a start ≤ −blocksPerSegment the
segment index is negative and `segments[segIdx]` panics.  (Witnesses replayed on the unpatched code:
`ReadMultiSegmentFile(p, 0, 1, &SegmentOptions{SegmentSize: 100})` → integer divide by zero;
`ReadMultiSegmentFile(p, -3, 1, &SegmentOptions{SegmentSize: 16384})` → index out of range [-1];
`GlobalBlockToSegment(5, 100)` → integer divide by zero.) -/
theorem C10_witness_multiLoop :
    multiLoop [some []] (listSegments [some []]) 0 1 none 3 0 = .error .divZero ∧
    multiLoop [some []] (listSegments [some []]) 2 1 none 3 (-3) = .error .index := by
  constructor <;> rfl

end PgVerif.Props.C10.Block
