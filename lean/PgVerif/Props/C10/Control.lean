/-
  C10 for area `control`: totality of the parsers of control.go, sequence.go and relmap.go (repaired tree):
  on every byte string the model returns a value or the error result — no Go panic (index / slice / divide
  fault) is reachable.  Helper lemmas in Proofs/ControlTotal.lean.
-/
import PgVerif.Proofs.ControlTotal
namespace PgVerif.Props.C10.Control
open PgVerif PgVerif.Proofs

attribute [local instance] exceptDecEq

/-- ParseControlFile returns (a record or the error) on every byte string. -/
theorem C10_total_parseControlFile (bs : Bytes) : ∃ r, Model.parseControlFile bs = .ok r :=
  parseControlFile_total bs

/-- ReadControlFile returns on every file system. -/
theorem C10_total_readControlFile (fs : String → Option Bytes) (dir : String) :
    ∃ r, Model.readControlFile fs dir = .ok r := by
  unfold Model.readControlFile
  split
  · exact ⟨none, rfl⟩
  · exact parseControlFile_total _

/-- ParseSequenceFile returns on every byte string (after repair 07; before it a 23-byte tuple with an
out-of-range t_hoff panicked, see `witness_seq_panic`). -/
theorem C10_total_parseSequenceFile (bs : Bytes) : ∃ r, Model.parseSequenceFile bs = .ok r :=
  parseSequenceFile_total bs

/-- IsSequenceFile returns on every byte string. -/
theorem C10_total_isSequenceFile (bs : Bytes) : ∃ r, Model.isSequenceFile bs = .ok r :=
  isSequenceFile_total bs

/-- ParseRelMapFile returns on every byte string (with fixes/control/21: the constant reads `data[520:524]` /
`data[504:508]` are guarded by relMapIsV16's length test / the 512-byte test). -/
theorem C10_total_parseRelMapFile (bs : Bytes) : ∃ r, Model.parseRelMapFile bs = .ok r :=
  parseRelMapFile_total bs

/-- relMapIsV16 (fixes/control/21) returns on every byte string and every count — its slices `data[0:520]`,
`data[520:524]`, `data[0:504]`, `data[504:508]` are reached only with at least 524 bytes — and answers "16" only then,
which is what makes the caller's `data[520:524]` safe. -/
theorem C10_total_relMapIsV16 (bs : Bytes) (n : Int) :
    ∃ b, Model.relMapIsV16 bs n = .ok b ∧ (b = true → 524 ≤ bs.length) :=
  relMapIsV16_total bs n

/-- The code as written was not total: a page with the sequence magic whose only tuple is 23 bytes long with
t_hoff = 0 makes `tupleData[24:]` panic (replayed on the real code by family seq_any_orig). -/
theorem witness_seq_panic : Model.Orig.parseSequenceFile seqPanicWitness = .error .slice := by
  decide +kernel

end PgVerif.Props.C10.Control
