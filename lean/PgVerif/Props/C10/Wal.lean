/-
  C10 (area wal) — the WAL parsers never fault, for every byte string (and every directory content).
-/
import PgVerif.Proofs.Wal
import PgVerif.Model.WalOrig
namespace PgVerif.Props.C10.Wal
open PgVerif PgVerif.Model.Wal PgVerif.Proofs.Wal

/-- The block-reference walk (parseBlockRefs, repaired layout) returns for every byte string and both
bimg_info conventions: every index and slice in it is guarded. -/
theorem C10_total_parseBlockRefs (data : Bytes) (magic : Nat) : ∃ r, parseBlockRefsFor data magic = .ok r :=
  parseBlockRefsFor_total data magic

/-- parseXLogRecord returns for every byte string, LSN and magic. -/
theorem C10_total_parseXLogRecord (data : Bytes) (lsn magic : Nat) : ∃ r, parseXLogRecord data lsn magic = .ok r :=
  parseXLogRecord_total data lsn magic

/-- continuationData (the reassembly of a record cut by a page end, fixes/wal/04) returns — the continuation
bytes or nil — for every byte string standing for the following pages and every number of bytes needed. -/
theorem C10_total_continuationData (following : Bytes) (need : Nat) : ∃ r, continuationData following need = .ok r :=
  continuationData_total following need

/-- parseWALPage returns (records, or the "skip this page" error) for every byte string of any length as the
page and every byte string as the pages that follow it. -/
theorem C10_total_parseWALPage (data following : Bytes) : ∃ r, parseWALPage data following = .ok r :=
  parseWALPage_total data following

/-- ParseWALFile returns for every byte string: whatever a segment file contains, no page and no record in
it can make the parser fault. -/
theorem C10_total_parseWALFile (data : Bytes) : ∃ r, parseWALFile data = .ok r :=
  parseWALFile_total data

/-- ScanWALDirectory returns a summary for every directory content (any names, any file contents). -/
theorem C10_total_scanWALDirectory (dir : Dir) : ∃ r, scanWALDirectory dir = .ok r :=
  scanWALDirectory_total dir

/-- GetRecentWALRecords returns for every directory content and EVERY limit (a Go int, negative values included:
fixes/entry/01 clamps them to 0). -/
theorem C10_total_getRecentWALRecords (dir : Dir) (limit : Int) :
    ∃ r, getRecentWALRecords dir limit = .ok r :=
  getRecent_total dir limit

/-- What fixes/entry/01 repaired: before it (Model/WalOrig.lean `getRecentWALRecords`, the same code without the
clamp) a negative limit made `allRecords[len(allRecords)-limit:]` go out of range even for an empty directory
(replayed on the then code: `impl-wal one waldir -1` panicked with "slice bounds out of range"); with the clamp the
same call returns no records. -/
theorem C10_getRecentWALRecords_negative_limit_before_fix :
    Model.WalOrig.getRecentWALRecords [] (-1) = .error .slice ∧ getRecentWALRecords [] (-1) = .ok [] := by
  constructor <;> rfl

end PgVerif.Props.C10.Wal
