/-
  C10 (area wal) — the WAL parsers never fault, for every byte string.
-/
import PgVerif.Proofs.Wal
namespace PgVerif.Props.C10.Wal
open PgVerif PgVerif.Model.Wal PgVerif.Proofs.Wal

end PgVerif.Props.C10.Wal
