/-
  C10 (area wal) — the WAL parsers never fault, for every byte string (and every directory content).
-/
import PgVerif.Proofs.Wal
namespace PgVerif.Props.C10.Wal
open PgVerif PgVerif.Model.Wal PgVerif.Proofs.Wal

/-- The block-reference walk (parseBlockRefs, repaired layout) returns for every byte string and both
bimg_info conventions: every index and slice in it is guarded. -/
theorem C10_total_parseBlockRefs (data : Bytes) (magic : Nat) : ∃ r, parseBlockRefsFor data magic = .ok r :=
  parseBlockRefsFor_total data magic

/-- parseXLogRecord returns for every byte string, LSN and magic. -/
theorem C10_total_parseXLogRecord (data : Bytes) (lsn magic : Nat) : ∃ r, parseXLogRecord data lsn magic = .ok r :=
  parseXLogRecord_total data lsn magic

/-- parseWALPage returns (records, or the "skip this page" error) for every byte string of any length. -/
theorem C10_total_parseWALPage (data : Bytes) : ∃ r, parseWALPage data = .ok r :=
  parseWALPage_total data

/-- ParseWALFile returns for every byte string: whatever a segment file contains, no page and no record in
it can make the parser fault. -/
theorem C10_total_parseWALFile (data : Bytes) : ∃ r, parseWALFile data = .ok r :=
  parseWALFile_total data

/-- ScanWALDirectory returns a summary for every directory content (any names, any file contents). -/
theorem C10_total_scanWALDirectory (dir : Dir) : ∃ r, scanWALDirectory dir = .ok r :=
  scanWALDirectory_total dir

/-- GetRecentWALRecords returns for every directory content and every limit ≥ 0. -/
theorem C10_total_getRecentWALRecords (dir : Dir) (limit : Int) (h : 0 ≤ limit) :
    ∃ r, getRecentWALRecords dir limit = .ok r :=
  getRecent_total dir limit h

/-- The hypothesis `0 ≤ limit` cannot be dropped: with a negative limit `allRecords[len(allRecords)-limit:]`
is out of range even for an empty directory (replayed on the real code: `impl-wal one waldir -1` panics with
"slice bounds out of range").  The limit is a caller-supplied parameter, not file content; no caller in
pgread passes a negative one. -/
theorem C10_getRecentWALRecords_negative_limit : getRecentWALRecords [] (-1) = .error .slice := by rfl

end PgVerif.Props.C10.Wal
