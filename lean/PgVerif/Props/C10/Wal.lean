/-
  C10 (area wal) — the WAL parsers never fault, for every byte string (and every directory content).
-/
import PgVerif.Proofs.Wal
import PgVerif.Model.WalOrig
namespace PgVerif.Props.C10.Wal
open PgVerif PgVerif.Model.Wal PgVerif.Proofs.Wal

/-- The block-reference walk (parseBlockRefs, repaired layout) returns for every byte string and both
bimg_info conventions: every index and slice in it is guarded. -/
theorem C10_total_parseBlockRefs (data : Bytes) (magic : Nat) : ∃ r, parseBlockRefsFor data magic = .ok r :=
  parseBlockRefsFor_total data magic

/-- parseXLogRecord returns for every byte string, LSN and magic. -/
theorem C10_total_parseXLogRecord (data : Bytes) (lsn magic : Nat) : ∃ r, parseXLogRecord data lsn magic = .ok r :=
  parseXLogRecord_total data lsn magic

/-- continuationData (the reassembly of a record cut by a page end, fixes/wal/04) returns — the continuation
bytes or nil — for every byte string standing for the following pages and every number of bytes needed. -/
theorem C10_total_continuationData (following : Bytes) (need : Nat) : ∃ r, continuationData following need = .ok r :=
  continuationData_total following need

/-- parseWALPage returns (records, or the "skip this page" error) for every byte string of any length as the
page and every byte string as the pages that follow it. -/
theorem C10_total_parseWALPage (data following : Bytes) : ∃ r, parseWALPage data following = .ok r :=
  parseWALPage_total data following

/-- ParseWALFile returns for every byte string: whatever a segment file contains, no page and no record in
it can make the parser fault. -/
theorem C10_total_parseWALFile (data : Bytes) : ∃ r, parseWALFile data = .ok r :=
  parseWALFile_total data

/-- ScanWALDirectory returns a summary for every directory content (any names, any file contents). -/
theorem C10_total_scanWALDirectory (dir : Dir) : ∃ r, scanWALDirectory dir = .ok r :=
  scanWALDirectory_total dir

/-- GetRecentWALRecords returns for every directory content and EVERY limit (a Go int, negative values included:
fixes/entry/01 clamps them to 0). -/
theorem C10_total_getRecentWALRecords (dir : Dir) (limit : Int) :
    ∃ r, getRecentWALRecords dir limit = .ok r :=
  getRecent_total dir limit

/-- The same for the `os.ReadDir` entries of pg_wal of every kind (fixes/entry/04: only regular files are opened, so a
FIFO, socket, device or directory with a segment's name cannot make the functions block or fail). -/
theorem C10_total_directory_entries (es : Entries) (limit : Int) :
    (∃ r, scanWALDirectoryOf es = .ok r) ∧ (∃ r, getRecentWALRecordsOf es limit = .ok r) :=
  ⟨scanWALDirectory_total _, getRecent_total _ limit⟩

/-- **Allocation of the reassembly (fixes/wal/11).**  The only buffer parseWALPage allocates by a length read from the
input, `make([]byte, 0, totalLen)` for a record continued on the following pages, is requested only when
`totalLen - len(recData) <= len(following)`: whatever xl_tot_len says (up to 2^32 − 1), the bytes handed on to
parseXLogRecord are never more than the rest of the page plus the following pages, i.e. never more than the input. -/
theorem C10_reassembly_bounded (tail following out : Bytes) (h : recordBytes tail following = .ok out) :
    out.length ≤ tail.length + following.length :=
  (recordBytes_length tail following out h).1

/-- the hypothesis of `C10_reassembly_bounded` is satisfiable: xl_tot_len = 2^32 − 1 with nothing following — the rest of
the page is handed on as it is -/
example : recordBytes [0xFF, 0xFF, 0xFF, 0xFF, 1, 2, 3, 4] [] = .ok [0xFF, 0xFF, 0xFF, 0xFF, 1, 2, 3, 4] := by rfl

/-- What fixes/entry/01 repaired: before it (Model/WalOrig.lean `getRecentWALRecords`, the same code without the
clamp) a negative limit made `allRecords[len(allRecords)-limit:]` go out of range even for an empty directory
(replayed on the then code: `impl-wal one waldir -1` panicked with "slice bounds out of range"); with the clamp the
same call returns no records. -/
theorem C10_getRecentWALRecords_negative_limit_before_fix :
    Model.WalOrig.getRecentWALRecords [] (-1) = .error .slice ∧ getRecentWALRecords [] (-1) = .ok [] := by
  constructor <;> rfl

end PgVerif.Props.C10.Wal
