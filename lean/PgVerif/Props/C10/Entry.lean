/-
  C10 (coverage audit, area "entry") — totality theorems for exported entry points of package pgdump that were
  modelled but had no totality theorem (see /verif/C10_COVERAGE.md): the path-taking wrappers of relmap.go and
  sequence.go, and the CLOSED form of DecodeType / DecodeTuple / ReadRows / the catalog parsers, in which the
  decoder parameters of the per-area theorems (`hdec`, `hext`, `TotalReader`) are discharged.
  No well-formedness of any input is assumed anywhere in this module.
-/
import PgVerif.Proofs.EntryWrappers
import PgVerif.Proofs.EntryClosed
import PgVerif.Props.C10.Rows
import PgVerif.Props.C10.Cluster
import PgVerif.Props.C10.Wal
namespace PgVerif.Props.C10.Entry
open PgVerif PgVerif.Proofs PgVerif.Proofs.Entry

/-! ## relmap.go: the file-reading wrappers -/

/-- ReadGlobalRelMap returns (a map, or the error) for every file system and data directory: the file may be
missing, empty, truncated or arbitrary bytes. -/
theorem C10_total_readGlobalRelMap (fs : String → Option Bytes) (dir : String) :
    ∃ r, Model.readGlobalRelMap fs dir = .ok r :=
  readGlobalRelMap_total fs dir

/-- ReadDatabaseRelMap returns for every file system, data directory and database oid. -/
theorem C10_total_readDatabaseRelMap (fs : String → Option Bytes) (dir : String) (db : Nat) :
    ∃ r, Model.readDatabaseRelMap fs dir db = .ok r :=
  readDatabaseRelMap_total fs dir db

/-- ReadAllRelMaps returns for every file system and whatever ParsePGDatabase makes of global/1262 (any list of
database oids: duplicates, zero, oids without a directory). -/
theorem C10_total_readAllRelMaps (fs : String → Option Bytes) (parseDatabase : Bytes → List Nat) (dir : String) :
    ∃ r, Model.readAllRelMaps fs parseDatabase dir = .ok r :=
  readAllRelMaps_total fs parseDatabase dir

/-! ## sequence.go: the cluster-level functions -/

/-- FindSequences returns (a list, or the error) for every file system, every result of the two catalog parsers
(any database list, any relation list: duplicates, zero oids, sequences without a file or with a damaged one) and every
database name. -/
theorem C10_total_findSequences (env : Model.SeqEnv) (dir : String) (db : Bytes) :
    ∃ r, Model.findSequences env dir db = .ok r :=
  findSequences_total env dir db

/-- ScanAllSequences returns for every file system and every result of the catalog parsers. -/
theorem C10_total_scanAllSequences (env : Model.SeqEnv) (dir : String) :
    ∃ r, Model.scanAllSequences env dir = .ok r :=
  scanAllSequences_total env dir

/-- non-vacuity: an environment in which FindSequences reaches a (damaged) sequence file and still returns -/
example : Model.findSequences
    { fs := fun p => if p == "D/global/1262" then some [] else if p == "D/base/5/1259" then some [] else some [1, 2, 3],
      parseDatabase := fun _ => [⟨5, [100]⟩], parseClass := fun _ => [⟨7, 7, [115], [83]⟩] } "D" [100] = .ok (some []) := by
  rfl

/-! ## wal.go: GetRecentWALRecords for every limit (with fix entry/01)

Before /verif/fixes/entry/01 `C10.Wal.C10_total_getRecentWALRecords` needed `0 ≤ limit`, and the hypothesis was real: a
negative limit panicked (`C10.Wal.C10_getRecentWALRecords_negative_limit_before_fix`).  fixes/entry/01 clamps a negative
limit to 0; it is applied to /repo, and the model of area wal (Model/Wal.lean `getRecentWALRecords`) now contains the
clamp, so `C10.Wal.C10_total_getRecentWALRecords` holds for every limit.  The definitions below predate that and are
kept: clamping twice is clamping once. -/

/-- GetRecentWALRecords as patched by fixes/entry/01: `if limit < 0 { limit = 0 }`, then the code area wal models -/
def getRecentWALRecordsClamped (dir : Model.Wal.Dir) (limit : Int) : M (List Model.Wal.Record) :=
  Model.Wal.getRecentWALRecords dir (if limit < 0 then 0 else limit)

/-- With the clamp, GetRecentWALRecords returns for every directory content and EVERY limit. -/
theorem C10_total_getRecentWALRecords_clamped (dir : Model.Wal.Dir) (limit : Int) :
    ∃ r, getRecentWALRecordsClamped dir limit = .ok r := by
  unfold getRecentWALRecordsClamped
  by_cases h : limit < 0
  · rw [if_pos h]; exact Wal.C10_total_getRecentWALRecords dir 0
  · rw [if_neg h]; exact Wal.C10_total_getRecentWALRecords dir limit

/-- The clamp changes nothing for the limits that worked before. -/
theorem getRecentWALRecordsClamped_eq (dir : Model.Wal.Dir) (limit : Int) (h : 0 ≤ limit) :
    getRecentWALRecordsClamped dir limit = Model.Wal.getRecentWALRecords dir limit := by
  unfold getRecentWALRecordsClamped
  rw [if_neg (by omega)]

/-- … and turns the panic into an empty answer: the witness of `C10_getRecentWALRecords_negative_limit_before_fix`, clamped. -/
example : getRecentWALRecordsClamped [] (-1) = .ok [] := by rfl

/-! ## DecodeType and everything above it, closed

The per-area totality theorems are relative: `C10.Scalars.C10_total_decodeType` assumes the array / numeric / jsonb
decoders return, `C10.Arrays.C10_total_decodeArray` assumes the element decoder returns, `C10.Rows.*` assume the value
decoder returns, `C10.Cluster.*` assume the row reader returns.  Below the assumptions are discharged against each
other: `decodeTypeC X` (Proofs/EntryClosed.lean) is the model of types.go:DecodeType with the array, numeric and JSONB
models plugged into the scalar model and the array elements decoded by DecodeType itself. -/

/-- DecodeType — the closed model: scalar switch + ranges (area scalars), arrays with elements decoded by DecodeType
(area arrays), numeric and JSONB (area numjson) — returns for EVERY byte string and EVERY type oid.  No hypothesis. -/
theorem C10_closed_decodeType (X : Render) (data : Bytes) (oid : Nat) : ∃ r, decodeTypeC X data oid = .ok r :=
  decodeTypeC_total X data oid

/-- The closed model is a fixed point of DecodeType's recursion: it equals the scalar model whose array branch calls
decodeArray with the closed model itself as element decoder.  (The unrolling that defines it is stationary from depth 2,
`decodeTypeN_stable`, because no element type of `arrayElemTypes` is an array type.)  So the theorem above is about
the function the Go code computes, not about a truncation of it. -/
theorem C10_closed_decodeType_fixpoint (X : Render) :
    decodeTypeC X = fun data oid => Model.Scalars.decodeType (extOf X (decodeTypeC X)) data oid :=
  decodeTypeC_fix X

/-- decodeArray with DecodeType as its element decoder returns for every byte string and every element oid. -/
theorem C10_closed_decodeArray (X : Render) (raw : Bytes) (elemOid : Nat) :
    ∃ r, Model.Arrays.decodeArray (decodeTypeC X) raw elemOid = .ok r :=
  Proofs.Arrays.decodeArray_total _ (decodeTypeN_total X 2) raw elemOid

/-- the value decoder of heap.go (column type ids are Go ints: a negative id is in no table of types.go and takes
the `default` branch, like id 0) -/
def rowsDec (X : Render) : Model.Dec := fun b t => decodeTypeC X b t.toNat

theorem rowsDec_total (X : Render) : Rows.TotalDec (rowsDec X) := fun b t => decodeTypeC_total X b t.toNat

/-- DecodeTuple with the closed DecodeType returns for every tuple and every schema. -/
theorem C10_closed_decodeTuple (X : Render) (t : Model.HeapTuple) (cols : List Model.Column) :
    ∃ r, Model.decodeTuple (rowsDec X) t cols = .ok r :=
  Rows.C10_total_decodeTuple _ (rowsDec_total X) t cols

/-- ReadRows with the closed DecodeType returns for every byte string, every schema, both visibility settings. -/
theorem C10_closed_readRows (X : Render) (data : Bytes) (cols : List Model.Column) (vis : Bool) :
    ∃ r, Model.readRows (rowsDec X) data cols vis = .ok r :=
  Rows.C10_total_readRows _ (rowsDec_total X) data cols vis

/-- ReadDeletedRows / ReadRowsWithDeleted with the closed DecodeType return for every byte string and schema. -/
theorem C10_closed_readDeletedRows (X : Render) (data : Bytes) (cols : List Model.Column) :
    ∃ r, Model.readDeletedRows (rowsDec X) data cols = .ok r :=
  Rows.C10_total_readDeletedRows _ (rowsDec_total X) data cols

theorem C10_closed_readRowsWithDeleted (X : Render) (data : Bytes) (cols : List Model.Column) :
    ∃ r, Model.readRowsWithDeleted (rowsDec X) data cols = .ok r :=
  Rows.C10_total_readRowsWithDeleted _ (rowsDec_total X) data cols

/-- ReadRows is a total row reader in the sense of area cluster: every theorem of `Props.C10.Cluster` applies to it. -/
theorem C10_closed_reader (X : Render) : Cluster.TotalReader (Model.readRows (rowsDec X)) :=
  fun data cols vis => C10_closed_readRows X data cols vis

/-- The three catalog parsers, closed: they return for every byte string (and version hint). -/
theorem C10_closed_catalogs (X : Render) (data : Bytes) (v : Int) :
    (∃ r, Model.parsePGDatabase (Model.readRows (rowsDec X)) data = .ok r) ∧
    (∃ r, Model.parsePGClass (Model.readRows (rowsDec X)) data = .ok r) ∧
    (∃ r, Model.parsePGAttribute (Model.readRows (rowsDec X)) data v = .ok r) :=
  ⟨Cluster.C10_total_parsePGDatabase _ (C10_closed_reader X) data, Cluster.C10_total_parsePGClass _ (C10_closed_reader X) data,
   Cluster.C10_total_parsePGAttribute _ (C10_closed_reader X) data v⟩

/-- DumpDatabaseFromFiles and DumpDataDir, closed: they return for arbitrary catalog bytes, any file reader / file
tree and all options. -/
theorem C10_closed_dump (X : Render) (π : Model.MapOrder Model.TableInfo) (o : Spec.Options) :
    (∀ classData attrData reader, ∃ r, Model.dumpDatabaseFromFiles (Model.readRows (rowsDec X)) π classData attrData reader o = .ok r) ∧
    (∀ fs, ∃ r, Model.dumpDataDir (Model.readRows (rowsDec X)) π fs o = .ok r) :=
  ⟨fun c a rd => Cluster.C10_total_dumpDatabaseFromFiles _ (C10_closed_reader X) π c a rd o,
   fun fs => Cluster.C10_total_dumpDataDir _ (C10_closed_reader X) π fs o⟩

/-- non-vacuity: renderers exist, and the closed model really decodes — an int4[] value {7} through the array branch
and the element through the scalar switch -/
def trivialRender : Render := ⟨fun _ => .nil, fun _ => .nil, fun _ => none⟩
example : decodeTypeC trivialRender (le 4 1 ++ le 4 0 ++ le 4 23 ++ le 4 1 ++ le 4 1 ++ le 4 7) 1007 = .ok (.arr [.int 7]) := by
  rfl

end PgVerif.Props.C10.Entry
