/-
  C10 (area cluster) — the catalog parsers, both dump paths and the remote client never fault on ANY bytes,
  relative to a total row reader: every function of catalog.go / pgdump.go / remote.go is list processing on
  top of `ReadRows` (and, for a table without columns, `ReadTuples`, which never faults: area `heap`), so the only way
  it can panic is through `ReadRows` (area `rows`: `C10.Rows.C10_total_readRows` shows ReadRows total for every total
  scalar decoder; `total_with_readRows` below plugs it in).  No well-formedness of any file is assumed.
-/
import PgVerif.Proofs.ClusterMap
import PgVerif.Proofs.HeapFile
namespace PgVerif.Props.C10.Cluster
open PgVerif PgVerif.Model PgVerif.Proofs PgVerif.Proofs.Cluster

/-- a row reader that returns on every input -/
def TotalReader (rr : RowReader) : Prop := ∀ data cols vis, ∃ r, rr data cols vis = .ok r

-- ReadRows itself is such a reader for every total scalar decoder: `PgVerif.Props.C10.Rows.C10_total_readRows`
-- (area `rows`; not imported here so that the two areas' modules build independently).

/-- ParsePGDatabase returns for every byte string. -/
theorem C10_total_parsePGDatabase (rr : RowReader) (h : TotalReader rr) (data : Bytes) :
    ∃ r, parsePGDatabase rr data = .ok r := by
  obtain ⟨rows, hr⟩ := h data schemaPGDatabase true
  simp only [parsePGDatabase, hr, ok_bind, pure_eq_ok]
  exact ⟨_, rfl⟩

/-- ParsePGClass returns for every byte string. -/
theorem C10_total_parsePGClass (rr : RowReader) (h : TotalReader rr) (data : Bytes) :
    ∃ r, parsePGClass rr data = .ok r := by
  obtain ⟨rows, hr⟩ := h data schemaPGClass true
  simp only [parsePGClass, hr, ok_bind, pure_eq_ok]
  exact ⟨_, rfl⟩

/-- readAttrRowsWithDropped (the automatic choice between the three pg_attribute layouts) returns for every byte string. -/
theorem C10_total_catReadAttrRowsAuto (rr : RowReader) (h : TotalReader rr) (data : Bytes) :
    ∃ r, catReadAttrRowsAuto rr data = .ok r := by
  obtain ⟨r16, h16⟩ := h data catSchemaAttr16 true
  obtain ⟨r15, h15⟩ := h data catSchemaAttr14 true
  obtain ⟨r12, h12⟩ := h data catSchemaAttr12 true
  simp only [catReadAttrRowsAuto, h16, h15, h12, ok_bind, pure_eq_ok]
  exact ⟨_, rfl⟩

/-- readAttrRows returns for every byte string and every version hint. -/
theorem C10_total_readAttrRows (rr : RowReader) (h : TotalReader rr) (data : Bytes) (v : Int) :
    ∃ r, readAttrRows rr data v = .ok r := by
  unfold readAttrRows
  by_cases h1 : v ≥ 16
  · rw [if_pos h1]; exact h _ _ _
  · rw [if_neg h1]
    by_cases h2 : v ≥ 14
    · rw [if_pos h2]; exact h _ _ _
    · rw [if_neg h2]
      by_cases h3 : v ≥ 12
      · rw [if_pos h3]; exact h _ _ _
      · rw [if_neg h3]; exact C10_total_catReadAttrRowsAuto rr h data

/-- ParsePGAttribute returns for every byte string and every version hint. -/
theorem C10_total_parsePGAttribute (rr : RowReader) (h : TotalReader rr) (data : Bytes) (v : Int) :
    ∃ r, parsePGAttribute rr data v = .ok r := by
  obtain ⟨rows, hr⟩ := C10_total_readAttrRows rr h data v
  simp only [parsePGAttribute, hr, ok_bind, pure_eq_ok]
  exact ⟨_, rfl⟩

/-- readTableRows returns for every byte string and every column list (none included). -/
theorem C10_total_readTableRows (rr : RowReader) (h : TotalReader rr) (data : Bytes) (cols : List Column) :
    ∃ r, readTableRows rr data cols = .ok r := by
  unfold readTableRows
  by_cases hc : cols.length > 0
  · rw [if_pos hc]; exact h data cols true
  · rw [if_neg hc]
    obtain ⟨es, he⟩ := readTuplesFrom_total data true (data.length / 8192 + 1) 0
    have he' : readTuples data true = .ok es := he
    simp only [he', ok_bind, pure_eq_ok]
    exact ⟨_, rfl⟩

/-- dumpTable returns whatever the catalog says about the table and whatever the file reader hands back
(garbage, nothing, an error). -/
theorem C10_total_dumpTable (rr : RowReader) (h : TotalReader rr) (fn : Nat) (info : TableInfo) (attrs : List AttrInfo)
    (reader : Option FileReader) (o : Spec.Options) : ∃ r, dumpTable rr fn info attrs reader o = .ok r := by
  unfold dumpTable
  simp only
  cases (if o.listOnly = true then none else reader) with
  | none => exact ⟨_, rfl⟩
  | some rd =>
    simp only
    cases rd fn with
    | none => exact ⟨_, rfl⟩
    | some data =>
      simp only
      by_cases hl : data.length = 0
      · rw [if_pos hl]; exact ⟨_, rfl⟩
      · rw [if_neg hl]
        obtain ⟨rows, hr⟩ := C10_total_readTableRows rr h data (attrs.map fun a => ⟨a.name, a.typid, a.len, a.num, a.align⟩)
        simp only [hr, ok_bind, pure_eq_ok]
        exact ⟨_, rfl⟩

/-- DumpDatabaseFromFiles returns for arbitrary catalog bytes, any file reader (including nil and one that
returns garbage or errors) and all options. -/
theorem C10_total_dumpDatabaseFromFiles (rr : RowReader) (h : TotalReader rr) (π : MapOrder TableInfo)
    (classData attrData : Bytes) (reader : Option FileReader) (o : Spec.Options) :
    ∃ r, dumpDatabaseFromFiles rr π classData attrData reader o = .ok r := by
  obtain ⟨tables, ht⟩ := C10_total_parsePGClass rr h classData
  obtain ⟨attrs, ha⟩ := C10_total_parsePGAttribute rr h attrData o.pgVersion
  simp only [dumpDatabaseFromFiles, ht, ha, ok_bind]
  apply collectM_total
  intro fn
  unfold dumpOne
  cases mapGet tables fn with
  | none => exact ⟨_, rfl⟩
  | some info =>
    simp only
    by_cases hk : keepTable o info = true
    · rw [if_pos hk]
      obtain ⟨t, htb⟩ := C10_total_dumpTable rr h fn info ((mapGet attrs info.oid).getD []) reader o
      simp only [htb, ok_bind, pure_eq_ok]
      exact ⟨_, rfl⟩
    · rw [if_neg hk]; exact ⟨_, rfl⟩

/-- DumpDataDir returns (a result or the read error of global/1262) for every file tree whatsoever. -/
theorem C10_total_dumpDataDir (rr : RowReader) (h : TotalReader rr) (π : MapOrder TableInfo)
    (fs : Bytes → Option Bytes) (o : Spec.Options) : ∃ r, dumpDataDir rr π fs o = .ok r := by
  unfold dumpDataDir
  cases fs pathGlobal1262 with
  | none => exact ⟨_, rfl⟩
  | some dbData =>
    simp only
    obtain ⟨dbs, hd⟩ := C10_total_parsePGDatabase rr h dbData
    simp only [hd, ok_bind]
    have : ∃ r, collectM (dumpDb rr π fs o) dbs = .ok r := by
      apply collectM_total
      intro db
      unfold dumpDb
      by_cases h1 : Spec.isPrefixB (strBytes "template") db.name = true
      · rw [if_pos h1]; exact ⟨_, rfl⟩
      · rw [if_neg h1]
        by_cases h2 : (o.dbFilter != [] && db.name != o.dbFilter) = true
        · rw [if_pos h2]; exact ⟨_, rfl⟩
        · rw [if_neg h2]
          simp only
          by_cases h3 : ((fs (basePath db.oid 1259)).getD []).length = 0
          · rw [if_pos h3]; exact ⟨_, rfl⟩
          · rw [if_neg h3]
            obtain ⟨ts, hts⟩ := C10_total_dumpDatabaseFromFiles rr h π ((fs (basePath db.oid 1259)).getD [])
              ((fs (basePath db.oid 1249)).getD []) (some fun fn => fs (basePath db.oid fn)) o
            simp only [hts, ok_bind, pure_eq_ok]
            exact ⟨_, rfl⟩
    obtain ⟨r, hr⟩ := this
    simp only [hr, ok_bind, pure_eq_ok]
    exact ⟨_, rfl⟩

/-- RemoteClient.Databases (cache-free meaning) returns for every remote reader. -/
theorem C10_total_databasesCold (rr : RowReader) (h : TotalReader rr) (fs : RemoteReader) :
    ∃ r, databasesCold rr fs = .ok r := by
  unfold databasesCold
  cases fs pathGlobal1262 with
  | none => exact ⟨_, rfl⟩
  | some d => exact C10_total_parsePGDatabase rr h d

/-- RemoteClient.loadCatalog (cache-free meaning) returns for every remote reader and database oid. -/
theorem C10_total_catalogCold (rr : RowReader) (h : TotalReader rr) (fs : RemoteReader) (db : Nat) :
    ∃ r, catalogCold rr fs db = .ok r := by
  unfold catalogCold
  cases fs (basePath db 1259) with
  | none => exact ⟨_, rfl⟩
  | some cd =>
    simp only
    obtain ⟨t, ht⟩ := C10_total_parsePGClass rr h cd
    simp only [ht, ok_bind]
    cases fs (basePath db 1249) with
    | none => exact ⟨_, rfl⟩
    | some ad =>
      simp only
      obtain ⟨c, hc⟩ := C10_total_parsePGAttribute rr h ad (rcVersionInt fs)
      simp only [hc, ok_bind, pure_eq_ok]
      exact ⟨_, rfl⟩

/-- RemoteClient.Query returns for every table descriptor, column list, projection and limit. -/
theorem C10_total_queryWith (rr : RowReader) (h : TotalReader rr) (fs : RemoteReader) (db : Nat) (t : Option TableInfo)
    (attrs : List AttrInfo) (o : Option QueryOptions) : ∃ r, queryWith rr fs db t attrs o = .ok r := by
  unfold queryWith
  cases t with
  | none => exact ⟨_, rfl⟩
  | some t =>
    simp only
    by_cases h0 : t.filenode = 0
    · rw [if_pos h0]; exact ⟨_, rfl⟩
    · rw [if_neg h0]
      cases fs (basePath db t.filenode) with
      | none => exact ⟨_, rfl⟩
      | some data =>
        simp only
        obtain ⟨rows, hr⟩ := C10_total_readTableRows rr h data (attrs.map fun a => ⟨a.name, a.typid, a.len, a.num, a.align⟩)
        simp only [hr, ok_bind, pure_eq_ok]
        exact ⟨_, rfl⟩

/-- RemoteClient.DumpTable returns for every table descriptor. -/
theorem C10_total_dumpTableWith (rr : RowReader) (h : TotalReader rr) (fs : RemoteReader) (db : Nat) (t : TableInfo)
    (attrs : List AttrInfo) : ∃ r, dumpTableWith rr fs db t attrs = .ok r := by
  obtain ⟨rows, hr⟩ := C10_total_queryWith rr h fs db (some t) attrs none
  simp only [dumpTableWith, hr, ok_bind, pure_eq_ok]
  exact ⟨_, rfl⟩

/-- A concrete total reader exists (so none of the above is vacuous): the reader that finds no rows. -/
example : TotalReader (fun _ _ _ => pure []) := fun _ _ _ => ⟨[], rfl⟩

end PgVerif.Props.C10.Cluster
