/-
  C10 — ScanAllDeletedRows (the tree after fixes/rows/07) never faults on ANY file tree, relative to a total row
  reader for the catalogs (`ReadRows`: `C10.Rows.C10_total_readRows`) and a total scalar decoder: the chain is list
  processing on top of ReadRows (catalogs) and ReadDeletedRows (tables).  No well-formedness of any file is assumed.
-/
import PgVerif.Proofs.DeletedScan
import PgVerif.Props.C10.Cluster
import PgVerif.Props.C10.Rows
namespace PgVerif.Props.C10.DeletedScan
open PgVerif PgVerif.Model PgVerif.Proofs PgVerif.Proofs.DeletedScan

/-- readDeletedTableRows returns for every byte string and every column list (none included). -/
theorem C10_total_readDeletedTableRows (dec : Dec) (hdec : C10.Rows.TotalDec dec) (data : Bytes) (cols : List Column) :
    ∃ r, readDeletedTableRows dec data cols = .ok r := by
  obtain ⟨ds, hd⟩ := C10.Rows.C10_total_readDeletedRows dec hdec data cols
  simp only [readDeletedTableRows, hd, ok_bind, pure_eq_ok]
  exact ⟨_, rfl⟩

/-- ScanAllDeletedRows returns (a result or the read error of global/1262) for every file tree whatsoever, all
options and every iteration order of Go's maps. -/
theorem C10_total_scanAllDeletedRows (rr : RowReader) (h : C10.Cluster.TotalReader rr) (dec : Dec) (hdec : C10.Rows.TotalDec dec)
    (π : MapOrder TableInfo) (fs : Bytes → Option Bytes) (o : Spec.Options) :
    ∃ r, scanAllDeletedRows rr dec π fs o = .ok r :=
  dumpDataDirRows_total rr (readDeletedTableRows dec) (C10_total_readDeletedTableRows dec hdec)
    (C10.Cluster.C10_total_parsePGDatabase rr h) (C10.Cluster.C10_total_parsePGClass rr h)
    (C10.Cluster.C10_total_parsePGAttribute rr h) π fs o

/-- … in particular with ReadRows itself as the catalog reader. -/
theorem C10_total_scanAllDeletedRows_readRows (dec : Dec) (hdec : C10.Rows.TotalDec dec)
    (π : MapOrder TableInfo) (fs : Bytes → Option Bytes) (o : Spec.Options) :
    ∃ r, scanAllDeletedRows (readRows dec) dec π fs o = .ok r :=
  C10_total_scanAllDeletedRows (readRows dec) (fun data cols vis => C10.Rows.C10_total_readRows dec hdec data cols vis) dec hdec π fs o

end PgVerif.Props.C10.DeletedScan
