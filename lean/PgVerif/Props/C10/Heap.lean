/-
  C10 (area heap) — the heap scan never faults, for every byte string.
-/
import PgVerif.Proofs.Heap
namespace PgVerif.Props.C10.Heap
open PgVerif PgVerif.Model PgVerif.Proofs

/-- ParseHeapTuple returns (a tuple or nil) for every byte string: no index or slice expression in it
can be out of range. -/
theorem C10_total_parseHeapTuple (data : Bytes) : ∃ r, parseHeapTuple data = .ok r := by
  unfold parseHeapTuple
  by_cases h : data.length < 23
  · simp [h]
  · simp (disch := omega) only [h, if_false, uN_ok, idx_ok, ok_bind, pure_eq_ok]
    split
    · exact ⟨_, rfl⟩
    · simp (disch := omega) only [sliceFrom_ok, ok_bind]
      split
      · split
        · simp (disch := omega) only [slice_ok, ok_bind]
          exact ⟨_, rfl⟩
        · exact ⟨_, rfl⟩
      · exact ⟨_, rfl⟩

end PgVerif.Props.C10.Heap
