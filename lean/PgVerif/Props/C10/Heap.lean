/-
  C10 (area heap) — the heap scan never faults, for every byte string.
  The model's slice/index primitives check against the length of the slice they are given (Go checks
  re-slicing against capacity), so "no fault" here means: no Go panic AND no read beyond the page/tuple slice.
-/
import PgVerif.Proofs.HeapFile
namespace PgVerif.Props.C10.Heap
open PgVerif PgVerif.Model PgVerif.Proofs

/-- ParseHeapTuple returns (a tuple or nil) for every byte string. -/
theorem C10_total_parseHeapTuple (data : Bytes) : ∃ r, parseHeapTuple data = .ok r :=
  parseHeapTuple_total data

/-- ParsePage returns for every byte string (any header, any pointer array, any tuple bytes). -/
theorem C10_total_parsePage (data : Bytes) : ∃ r, parsePage data = .ok r :=
  parsePage_total data

/-- ReadTuples returns for every byte string and both settings of the visibility switch. -/
theorem C10_total_readTuples (data : Bytes) (vis : Bool) : ∃ r, readTuples data vis = .ok r :=
  readTuplesFrom_total data vis _ 0

/-- Page isolation for heap scans, arbitrary bytes: replacing the bytes after a page-aligned prefix `a` does not
change what is reported for `a`'s pages, and replacing `a` by another prefix of the same length does not change
what is reported for the rest (both are immediate from the concatenation law). -/
theorem C10_isolate_heap (a b b' : Bytes) (vis : Bool) (h : a.length % 8192 = 0)
    (ra rb rb' : List TupleEntry) (h1 : readTuples a vis = .ok ra) (h2 : readTuples b vis = .ok rb)
    (h3 : readTuples b' vis = .ok rb') :
    readTuples (a ++ b) vis = .ok (ra ++ rb.map (shiftE a.length)) ∧
    readTuples (a ++ b') vis = .ok (ra ++ rb'.map (shiftE a.length)) := by
  constructor
  · rw [readTuples_append a b vis (a.length / 8192) (by omega), h1, h2]; rfl
  · rw [readTuples_append a b' vis (a.length / 8192) (by omega), h1, h3]; rfl

end PgVerif.Props.C10.Heap
