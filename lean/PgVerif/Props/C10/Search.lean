/-
  C10 (area search) — search and secret scan.
  search.go / secrets.go take decoded values (a dump), a pattern text and detectors.  The models
  (Model/Search.lean, Model/Secrets.lean) are plain functions, not in the fault monad: the Go code has no index,
  division, make or type assertion that could fail on them (map lookups, `range` loops, `append`, `fmt`), with ONE
  exception, the slice expression `s[i:i+len(substr)]` of `bytesContains`, which is re-modelled with the bounds-checked
  `slice` in Proofs/SearchTotal.lean and proved safe below.  For a plain Lean function "a result exists" is true by
  construction and is therefore NOT stated as a theorem (the earlier `C10_total_matchValue`, `C10_total_searchInDump`,
  `C10_isolate_cells` were such statements and have been removed; that SearchInDump's only failure is the error return
  for a pattern that does not compile is `Props.C15.C15_invalid`).  What is stated here: the slice is safe, damage is
  confined between databases at the level of the exported function, and short cells are skipped by the secret scan.
-/
import PgVerif.Props.C15
import PgVerif.Proofs.SearchTotal
namespace PgVerif.Props.C10.Search
open PgVerif PgVerif.Spec.Search PgVerif.Model.Search PgVerif.Proofs.Search

/-- `bytesContains` (secrets.go; the keyword pre-filter of ScanString): its slice expression `s[i:i+len(substr)]`,
written with Go's bounds check, never faults — for every text and every keyword, empty ones and keywords longer than
the text included — and the function returns exactly what the pure model `Model.Secrets.bytesContains` returns (which
`Props.C15.C15_contains` characterises as "substr occurs in s"). -/
theorem C10_total_bytesContains (s substr : Bytes) :
    Proofs.SearchTotal.bytesContainsM s substr = .ok (Model.Secrets.bytesContains s substr) :=
  Proofs.SearchTotal.bytesContainsM_eq s substr

/-- Isolation between databases, for the exported function: without a result limit (MaxResults ≤ 0), SearchInDump on a
dump made of the databases `d₁` followed by `d₂` fails iff it fails on either part (i.e. iff the pattern does not
compile), and otherwise returns the hits of `d₁` followed by the hits of `d₂` — what is reported for the databases of
`d₁` does not depend on the content of `d₂`, however damaged, and vice versa.  (With a limit the result is the
corresponding prefix: `Props.C15.C15_prefix`.) -/
theorem C10_isolate_search (R : Regex) (sh : GoVal → Bytes) (d₁ d₂ : Dump) (o : Opts) (hm : o.maxResults ≤ 0) :
    hits R sh (d₁ ++ d₂) o = (hits R sh d₁ o).bind fun a => (hits R sh d₂ o).map fun b => a ++ b := by
  rw [Props.C15.C15_prefix, Props.C15.C15_prefix, Props.C15.C15_prefix]
  unfold expected
  cases R.compile (effPattern o) with
  | none => rfl
  | some re =>
    have h : ¬ o.maxResults > 0 := by omega
    simp [h, allMatches]

/-- The secret scan skips short cells: a cell whose `%v` text is shorter than 8 bytes contributes no finding, for every
set of detectors (not a totality statement: the scan is a plain function). -/
theorem C10_scan_short_cell (dets : List Spec.Search.Detector) (sh : GoVal → Bytes) (db tbl : Bytes) (i : Nat) (row : Row) (c : Bytes)
    (h : (fmtV sh ((lookup c row).getD .nil)).length < 8) : Model.Secrets.scanCell dets sh db tbl i row c = [] := by
  simp only [Model.Secrets.scanCell]; rw [if_pos h]

/-- the hypothesis of `C10_isolate_search` is satisfiable and the statement is not empty: one database with a matching
cell on each side -/
example : (∃ o : Opts, o.maxResults ≤ 0) := ⟨{ pattern := [], caseSensitive := true, includeRow := false, maxResults := 0 }, by decide⟩

end PgVerif.Props.C10.Search
