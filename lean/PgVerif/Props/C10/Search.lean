/-
  C10 (area search) — search and secret scan return for every input.
  The models of search.go / secrets.go contain no slice expression, index, division or allocation that could fault
  (they only walk lists and maps), so they are total functions outright — there is no fault monad to discharge.
  What remains to state: the only failure is the documented error return, and damage is confined.
-/
import PgVerif.Props.C15
namespace PgVerif.Props.C10.Search
open PgVerif PgVerif.Spec.Search PgVerif.Model.Search PgVerif.Proofs.Search

/-- SearchInDump returns for every dump (any values, any nesting, duplicate or missing columns, empty tables), every
pattern (any byte string) and every option set: a result list when the effective pattern compiles, the error otherwise. -/
theorem C10_total_searchInDump (R : Regex) (sh : GoVal → Bytes) (d : Dump) (o : Opts) :
    (R.compile (effPattern o) = none ∧ searchInDump R sh d o = none) ∨
    (∃ re hs, R.compile (effPattern o) = some re ∧ searchInDump R sh d o = some hs) := by
  cases hc : R.compile (effPattern o) with
  | none => exact Or.inl ⟨rfl, (Props.C15.C15_invalid R sh d o).2 hc⟩
  | some re =>
    cases hs : searchInDump R sh d o with
    | none => rw [(Props.C15.C15_invalid R sh d o).1 hs] at hc; cases hc
    | some hs' => exact Or.inr ⟨re, hs', rfl, rfl⟩

/-- matchValue returns a boolean for every value (by construction); in particular NULL never matches, whatever the matcher. -/
theorem C10_total_matchValue (re : Bytes → Bool) (sh : GoVal → Bytes) (v : GoVal) :
    ∃ b, matchValue re sh v = b ∧ matchValue re sh .nil = false := ⟨_, rfl, rfl⟩

/-- Isolation between databases: what is reported for the databases of `d₁` does not depend on `d₂` and vice versa
(without a limit; with a limit the result is the prefix of this list). -/
theorem C10_isolate_search (re : Bytes → Bool) (sh : GoVal → Bytes) (incl : Bool) (d₁ d₂ : Dump) :
    allMatches re sh incl (d₁ ++ d₂) = allMatches re sh incl d₁ ++ allMatches re sh incl d₂ := by
  simp [allMatches]

/-- Isolation between cells: replacing the value of one column of a row changes nothing about the hits of the other
columns of that row (the cells of a row are tested one by one). -/
theorem C10_isolate_cells (re : Bytes → Bool) (sh : GoVal → Bytes) (o : Opts) (db tbl : Bytes) (i : Nat) (row : Row)
    (l₁ l₂ : List Bytes) :
    (l₁ ++ l₂).flatMap (colF re sh o db tbl i row) = l₁.flatMap (colF re sh o db tbl i row) ++ l₂.flatMap (colF re sh o db tbl i row) := by
  simp

/-- The secret scan returns for every dump and every set of detectors, including detectors that fail (`fromData = none`
is skipped); a cell whose text is shorter than 8 bytes contributes nothing. -/
theorem C10_total_scan (dets : List Spec.Search.Detector) (sh : GoVal → Bytes) (db tbl : Bytes) (i : Nat) (row : Row) (c : Bytes)
    (h : (fmtV sh ((lookup c row).getD .nil)).length < 8) : Model.Secrets.scanCell dets sh db tbl i row c = [] := by
  simp only [Model.Secrets.scanCell]; rw [if_pos h]

end PgVerif.Props.C10.Search
