/-
  C10 (area index) — ParseIndexFile and everything below it never faults, for every byte string.
  The model's slice/index primitives check against the length of the slice they are given (Go checks re-slicing
  against capacity), so "no fault" means: no Go panic AND no read beyond the page that is being parsed (in the code
  before fixes/index/06 a hash page with pd_special = 8180 read its flag word from the *next* page of the file).
  The code before the fixes did fault: `Proofs/IndexDefects.lean` (`A36_orig_parseIndexFile_faults`).
-/
import PgVerif.Proofs.IndexTotal
namespace PgVerif.Props.C10.Index
open PgVerif PgVerif.Model.Index PgVerif.Proofs.Index

/-- detectIndexType returns a type for every byte string (any pd_special, any trailer). -/
theorem C10_total_detectIndexType (page : Bytes) : ∃ r, detectIndexType page = .ok r :=
  detectIndexType_total page

/-- parseIndexPage returns for every byte string, page number and index type: every pd_special / pd_lower / pd_upper,
every method's special-space parser on a special space of any length (0 … 8191 bytes). -/
theorem C10_total_parseIndexPage (page : Bytes) (num t : Nat) : ∃ r, parseIndexPage page num t = .ok r :=
  parseIndexPage_total page num t

/-- the six special-space parsers return for every slice they are handed. -/
theorem C10_total_specialParsers (info : PageInfo) (sp : Bytes) :
    (∃ r, parseBTreePageSpecial info sp = .ok r) ∧ (∃ r, parseHashPageSpecial info sp = .ok r) ∧
    (∃ r, parseGiSTPageSpecial info sp = .ok r) ∧ (∃ r, parseGINPageSpecial info sp = .ok r) ∧
    (∃ r, parseSPGiSTPageSpecial info sp = .ok r) ∧ (∃ r, parseBRINPageSpecial info sp = .ok r) :=
  ⟨parseBTreePageSpecial_total _ _, parseHashPageSpecial_total _ _, parseGiSTPageSpecial_total _ _,
   parseGINPageSpecial_total _ _, parseSPGiSTPageSpecial_total _ _, parseBRINPageSpecial_total _ _⟩

/-- parseBTreeMeta returns (a metapage or nil) for every byte string. -/
theorem C10_total_parseBTreeMeta (page : Bytes) : ∃ r, parseBTreeMeta page = .ok r := parseBTreeMeta_total page

/-- parseHashMeta returns (a metapage or nil) for every byte string. -/
theorem C10_total_parseHashMeta (page : Bytes) : ∃ r, parseHashMeta page = .ok r := parseHashMeta_total page

/-- parseGINMeta returns (a metapage or nil) for every byte string. -/
theorem C10_total_parseGINMeta (page : Bytes) : ∃ r, parseGINMeta page = .ok r := parseGINMeta_total page

/-- ParseIndexFile returns (a report, or the "too small" error) for every byte string. -/
theorem C10_total_parseIndexFile (data : Bytes) : ∃ r, parseIndexFile data = .ok r :=
  parseIndexFile_total data

/-- Page isolation, arbitrary bytes: in the page loop of ParseIndexFile the record of page `i` is parseIndexPage of that page's
own 8192 bytes, whatever precedes (`a`) and follows (`b`) it in the file — damage in one page cannot change what is reported for
another (the access method, decided from block 0, is the only shared input).  Before fixes/index/06 this was false: a hash page
with pd_special = 8180 took its flag word from the first bytes of the next page. -/
theorem C10_isolate_index (a pg b : Bytes) (t n i : Nat) (ha : a.length = i * 8192) (hp : pg.length = 8192) :
    parsePages (a ++ pg ++ b) t (n + 1) i =
      (do let r ← parseIndexPage pg (i % 2 ^ 32) t
          let rest ← parsePages (a ++ pg ++ b) t n (i + 1)
          pure (r :: rest)) :=
  parsePages_step a pg b t n i ha hp

end PgVerif.Props.C10.Index
