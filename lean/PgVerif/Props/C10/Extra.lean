/-
  C10 (topic E9, "finish the model") — totality theorems for

    (1) the exported functions /verif/C10_COVERAGE.md listed as "not modelled" and whose models are in the fault monad:
        ListDatabases, DumpAll, AnalyzeTOAST, Search / QuickSearch / ScanForSecrets / SearchSecrets on a file tree,
        ScanDatabaseDump, FormatBinaryDump, RemoteClient.Credentials / Summary and SummaryResult.MarshalJSON
        (models: Model/ExtraCluster.lean, ExtraToast.lean, ExtraSearch.lean, ExtraDir.lean, ExtraBlock.lean);
    (2) every state-passing `rc*` model of the RemoteClient methods (Model/Remote.lean): each method returns for every
        file system, every argument and EVERY cache state — consistent or not — and hands back a consistent cache when it
        was given one (`Props.C11.CacheOK`), so the statements chain over any sequence of calls on one client.

  Each theorem comes in the form relative to a total row reader (`Cluster.TotalReader rr`, like `Props/C10/Cluster.lean`)
  and — where the row reader is the only parameter that can fault — CLOSED with the model of ReadRows over the closed
  DecodeType (`Entry.C10_closed_reader`): no hypothesis at all.  No well-formedness of any file is assumed anywhere.
  The correctness statements are in Props/C12Extra.lean, Props/C15Extra.lean, Props/C08Extra.lean.
-/
import PgVerif.Proofs.ExtraRemote
import PgVerif.Proofs.ExtraCluster
import PgVerif.Proofs.ExtraSearch
import PgVerif.Proofs.ExtraToast
import PgVerif.Proofs.ExtraBlock
import PgVerif.Props.C10.Entry
import PgVerif.Props.C10.Control
namespace PgVerif.Props.C10.Extra
open PgVerif PgVerif.Model PgVerif.Model.Extra PgVerif.Proofs.Extra PgVerif.Props.C10.Cluster PgVerif.Props.C11

/-- the row reader of the closed theorems: the model of heap.go:ReadRows over the closed model of DecodeType -/
abbrev closedRR (X : Proofs.Entry.Render) : RowReader := Model.readRows (Entry.rowsDec X)

/-! ## detect.go, pgdump.go:DumpAll -/

/-- ListDatabases returns for every file tree (global/1262 missing, empty, truncated, arbitrary bytes). -/
theorem C10_total_listDatabases (rr : RowReader) (h : TotalReader rr) (fs : Bytes → Option Bytes) :
    ∃ r, listDatabases rr fs = .ok r :=
  listDatabases_total rr h fs

/-- … closed: with ReadRows and DecodeType as modelled, no hypothesis. -/
theorem C10_closed_listDatabases (X : Proofs.Entry.Render) (fs : Bytes → Option Bytes) :
    ∃ r, listDatabases (closedRR X) fs = .ok r :=
  listDatabases_total _ (Entry.C10_closed_reader X) fs

/-- DetectAllDataDirs reports only directories that passed `isValidDataDir` (a non-empty regular `global/1262`), for every
answer of `os.Getenv` / `os.Stat`.  (DetectDataDir / DetectAllDataDirs parse no byte of any file and contain no index,
slice or division: there is no fault point and hence no totality statement — C10_COVERAGE.md, "no fault point".) -/
theorem C10_detect_valid (e : DetectEnv) : ∀ d ∈ detectAllDataDirs e, e.valid d = true :=
  detectAll_valid e

/-- DumpAll returns for every environment, every content of every detected directory and all options. -/
theorem C10_total_dumpAll (rr : RowReader) (h : TotalReader rr) (π : MapOrder TableInfo) (e : DetectEnv)
    (fsAt : Bytes → Bytes → Option Bytes) (o : Spec.Options) : ∃ r, dumpAll rr π e fsAt o = .ok r :=
  dumpAll_total rr h π e fsAt o

theorem C10_closed_dumpAll (X : Proofs.Entry.Render) (π : MapOrder TableInfo) (e : DetectEnv)
    (fsAt : Bytes → Bytes → Option Bytes) (o : Spec.Options) : ∃ r, dumpAll (closedRR X) π e fsAt o = .ok r :=
  dumpAll_total _ (Entry.C10_closed_reader X) π e fsAt o

/-! ## toast.go:AnalyzeTOAST -/

/-- AnalyzeTOAST returns (a list, or an error) for every file tree and every database name: pg_database, pg_class and
every TOAST relation file may be missing, truncated or arbitrary bytes.  Its one raw read, `u32(tuple.Data, 48)`, is
inside the tuple data because of the guard `len(tuple.Data) < 60`. -/
theorem C10_total_analyzeTOAST (rr : RowReader) (h : TotalReader rr) (fs : Bytes → Option Bytes) (dbName : Bytes) :
    ∃ r, analyzeTOAST rr fs dbName = .ok r :=
  analyzeTOAST_total rr h fs dbName

theorem C10_closed_analyzeTOAST (X : Proofs.Entry.Render) (fs : Bytes → Option Bytes) (dbName : Bytes) :
    ∃ r, analyzeTOAST (closedRR X) fs dbName = .ok r :=
  analyzeTOAST_total _ (Entry.C10_closed_reader X) fs dbName

/-- the loop body alone: every tuple entry, every file system -/
theorem C10_total_analyzeEntry (fs : Bytes → Option Bytes) (dbOID : Nat) (e : TupleEntry) :
    ∃ r, analyzeEntry fs dbOID e = .ok r :=
  analyzeEntry_total fs dbOID e

/-! ## search.go / secrets.go: the wrappers -/

/-- Search on a file tree returns for every tree, every pattern and option set, nil options included (every regex
engine, every scalar text). -/
theorem C10_total_searchDir (R : Spec.Search.Regex) (sh : GoVal → Bytes) (rr : RowReader) (h : TotalReader rr)
    (π : MapOrder TableInfo) (fs : Bytes → Option Bytes) (opts : Option Spec.Search.Opts) :
    ∃ r, searchDir R sh rr π fs opts = .ok r :=
  searchDir_total R sh rr h π fs opts

/-- QuickSearch returns for every tree and every pattern text (any bytes: it is quoted, never compiled as given). -/
theorem C10_total_quickSearchDir (R : Spec.Search.Regex) (sh : GoVal → Bytes) (rr : RowReader) (h : TotalReader rr)
    (π : MapOrder TableInfo) (fs : Bytes → Option Bytes) (pattern : Bytes) :
    ∃ r, quickSearchDir R sh rr π fs pattern = .ok r :=
  searchDir_total R sh rr h π fs _

theorem C10_closed_quickSearchDir (R : Spec.Search.Regex) (sh : GoVal → Bytes) (X : Proofs.Entry.Render)
    (π : MapOrder TableInfo) (fs : Bytes → Option Bytes) (pattern : Bytes) :
    ∃ r, quickSearchDir R sh (closedRR X) π fs pattern = .ok r :=
  searchDir_total R sh _ (Entry.C10_closed_reader X) π fs _

/-- ScanForSecrets returns for every tree, every option set and every detector list. -/
theorem C10_total_scanForSecretsDir (dets : List Spec.Search.Detector) (sh : GoVal → Bytes) (rr : RowReader)
    (h : TotalReader rr) (π : MapOrder TableInfo) (fs : Bytes → Option Bytes) (o : Spec.Options) :
    ∃ r, scanForSecretsDir dets sh rr π fs o = .ok r := by
  obtain ⟨d, hd⟩ := dumpedBy_total rr h π fs o
  exact ⟨scanForSecrets dets sh d, by simp only [scanForSecretsDir, hd, ok_bind, pure_eq_ok]⟩

/-- SearchSecrets returns for every tree and every detector list. -/
theorem C10_total_searchSecretsDir (dets : List Spec.Search.Detector) (sh : GoVal → Bytes)
    (red : Spec.Search.Finding → Bytes) (ver : Spec.Search.Finding → Bool) (rr : RowReader)
    (h : TotalReader rr) (π : MapOrder TableInfo) (fs : Bytes → Option Bytes) :
    ∃ r, searchSecretsDir dets sh red ver rr π fs = .ok r := by
  obtain ⟨d, hd⟩ := dumpedBy_total rr h π fs searchDumpOptions
  exact ⟨searchSecrets dets sh red ver d, by simp only [searchSecretsDir, hd, ok_bind, pure_eq_ok]⟩

-- The dump-level wrappers (QuickSearch / ScanForSecrets / SearchSecrets given DumpDataDir's result, ScanDatabaseDump,
-- regexp.QuoteMeta) are plain functions without index, slice or division: no fault point, no totality statement
-- (the former `C10_total_searchWrappers` was `∃ r, f x = r` and has been removed).

/-! ## blockrange.go:FormatBinaryDump, remote.go:MarshalJSON -/

-- FormatBinaryDump is `hex.Dump(data)`: no fault point (the former `C10_total_formatBinaryDump` was `∃ r, f x = r`).

/-- **What FormatBinaryDump prints**: one line per started 16-byte chunk and nothing else — line `i` renders bytes
`16·i … 16·i+15` of the input (fewer on the last line) at offset `16·i`; the empty input gives the empty text.  So the
dump shows every input byte exactly once, in order. -/
theorem C10_formatBinaryDump_lines (data : Bytes) :
    formatBinaryDump data =
      (List.range ((data.length + 15) / 16)).flatMap fun i =>
        CliRender.hexDumpLine (16 * i) ((data.drop (16 * i)).take 16) :=
  formatBinaryDump_lines data

-- SummaryResult.MarshalJSON builds a struct of strings, string slices and a string-keyed map (made with `make`, so the
-- `append` into `summary.Databases[db.Name]` never meets a nil map) and calls json.Marshal, which has no error case for
-- these types: no fault point (the former `C10_total_summaryMarshalJSON` was `∃ r, f x = r`).  Its content is
-- `Props.C12Extra.C12_summary_one_database`.

/-- RemoteClient.Credentials returns for every reader. -/
theorem C10_total_rcCredentials (fs : RemoteReader) : ∃ r, rcCredentials fs = .ok r :=
  rcCredentials_total fs

/-! ## one-line wrappers: ScanAllDeletedRows, ExtractPasswords, RemoteClient.Control -/

-- ScanAllDeletedRows: since fix rows/07 it returns the DELETED rows of every table; its model and totality theorem are
-- `Model.scanAllDeletedRows` (Model/DeletedScan.lean) and `Props.C10.DeletedScan.C10_total_scanAllDeletedRows`.

/-- ExtractPasswords is ExtractPasswordsFromFiles over the directory's files, and returns for every tree. -/
theorem C10_total_extractPasswords (fs : Bytes → Option Bytes) :
    extractPasswords fs = Model.extractPasswordsFromFiles fs ∧ ∃ r, extractPasswords fs = .ok r :=
  ⟨rfl, Rows.C10_total_extractPasswordsFromFiles fs⟩

/-- RemoteClient.Control returns for every reader (pg_control missing, short, or arbitrary bytes). -/
theorem C10_total_rcControl (fs : RemoteReader) : ∃ r, rcControl fs = .ok r := by
  unfold rcControl
  cases fs (strBytes "global/pg_control") with
  | none => exact ⟨_, rfl⟩
  | some d => exact Control.C10_total_parseControlFile d

/-! ## remote.go: the methods with the cache threaded through

`RcOK rr fs c m` (Proofs/ExtraRemote.lean): the method `m`, started in cache state `c`, returns some `(result, c')`, and
`c'` is consistent (`CacheOK`) if `c` was.  `c` is ARBITRARY: a cache holding garbage cannot make a method panic. -/

/-- what `RcOK` says, spelled out -/
theorem RcOK_iff (rr : RowReader) (fs : RemoteReader) {α} (c : Cache) (m : M (α × Cache)) :
    RcOK rr fs c m ↔ ∃ r c', m = .ok (r, c') ∧ (CacheOK rr fs c → CacheOK rr fs c') := Iff.rfl

theorem C10_total_rcDatabases (rr : RowReader) (h : TotalReader rr) (fs : RemoteReader) (c : Cache) :
    RcOK rr fs c (rcDatabases rr fs c) := rcDatabases_ok rr h fs c

/-- loadCatalog + the two cache reads (the helper `catalog` of remote.go) -/
theorem C10_total_rcCatalog (rr : RowReader) (h : TotalReader rr) (fs : RemoteReader) (db : Nat) (c : Cache) :
    RcOK rr fs c (rcCatalog rr fs db c) := rcCatalog_ok rr h fs db c

/-- Database(name): every name (empty, unknown, not UTF-8). -/
theorem C10_total_rcDatabase (rr : RowReader) (h : TotalReader rr) (fs : RemoteReader) (name : Bytes) (c : Cache) :
    RcOK rr fs c (rcDatabase rr fs name c) := rcDatabase_ok rr h fs name c

/-- Tables(dbOID): every oid, whether or not such a database exists. -/
theorem C10_total_rcTables (rr : RowReader) (h : TotalReader rr) (π : MapOrder TableInfo) (fs : RemoteReader) (db : Nat)
    (c : Cache) : RcOK rr fs c (rcTables rr π fs db c) := rcTables_ok rr h π fs db c

theorem C10_total_rcTablesByName (rr : RowReader) (h : TotalReader rr) (π : MapOrder TableInfo) (fs : RemoteReader)
    (name : Bytes) (c : Cache) : RcOK rr fs c (rcTablesByName rr π fs name c) := rcTablesByName_ok rr h π fs name c

theorem C10_total_rcTable (rr : RowReader) (h : TotalReader rr) (π : MapOrder TableInfo) (fs : RemoteReader) (db : Nat)
    (name : Bytes) (c : Cache) : RcOK rr fs c (rcTable rr π fs db name c) := rcTable_ok rr h π fs db name c

theorem C10_total_rcColumns (rr : RowReader) (h : TotalReader rr) (fs : RemoteReader) (db tbl : Nat) (c : Cache) :
    RcOK rr fs c (rcColumns rr fs db tbl c) := rcColumns_ok rr h fs db tbl c

theorem C10_total_rcColumnNames (rr : RowReader) (h : TotalReader rr) (fs : RemoteReader) (db tbl : Nat) (c : Cache) :
    RcOK rr fs c (rcColumnNames rr fs db tbl c) := rcColumnNames_ok rr h fs db tbl c

/-- Query(dbOID, table, opts): nil table, filenode 0, unreadable file, nil options, projections of unknown columns,
every limit (negative, zero, huge). -/
theorem C10_total_rcQuery (rr : RowReader) (h : TotalReader rr) (fs : RemoteReader) (db : Nat) (t : Option TableInfo)
    (o : Option QueryOptions) (c : Cache) : RcOK rr fs c (rcQuery rr fs db t o c) := rcQuery_ok rr h fs db t o c

theorem C10_total_rcQueryByName (rr : RowReader) (h : TotalReader rr) (π : MapOrder TableInfo) (fs : RemoteReader)
    (dbName tbl : Bytes) (o : Option QueryOptions) (c : Cache) : RcOK rr fs c (rcQueryByName rr π fs dbName tbl o c) :=
  rcQueryByName_ok rr h π fs dbName tbl o c

theorem C10_total_rcDumpTable (rr : RowReader) (h : TotalReader rr) (fs : RemoteReader) (db : Nat) (t : TableInfo)
    (c : Cache) : RcOK rr fs c (rcDumpTable rr fs db t c) := rcDumpTable_ok rr h fs db t c

theorem C10_total_rcDumpDatabase (rr : RowReader) (h : TotalReader rr) (π : MapOrder TableInfo) (fs : RemoteReader)
    (db : Nat) (c : Cache) : RcOK rr fs c (rcDumpDatabase rr π fs db c) := rcDumpDatabase_ok rr h π fs db c

theorem C10_total_rcDumpDatabaseByName (rr : RowReader) (h : TotalReader rr) (π : MapOrder TableInfo) (fs : RemoteReader)
    (name : Bytes) (c : Cache) : RcOK rr fs c (rcDumpDatabaseByName rr π fs name c) :=
  rcDumpDatabaseByName_ok rr h π fs name c

theorem C10_total_rcDumpAll (rr : RowReader) (h : TotalReader rr) (π : MapOrder TableInfo) (fs : RemoteReader) (c : Cache) :
    RcOK rr fs c (rcDumpAll rr π fs c) := rcDumpAll_ok rr h π fs c

/-- the `databases` object of MarshalJSON as Model/Remote.lean computes it -/
theorem C10_total_summaryDatabases (rr : RowReader) (h : TotalReader rr) (π : MapOrder TableInfo) (fs : RemoteReader)
    (c : Cache) : RcOK rr fs c (summaryDatabases rr π fs c) := summaryDatabases_ok rr h π fs c

/-- Summary() -/
theorem C10_total_rcSummary (rr : RowReader) (h : TotalReader rr) (π : MapOrder TableInfo) (fs : RemoteReader) (c : Cache) :
    RcOK rr fs c (rcSummary rr π fs c) := rcSummary_ok rr h π fs c

/-- **All of it, closed.**  With ReadRows / DecodeType as modelled, every RemoteClient method returns for every
reader, every argument and every cache state, and preserves cache consistency.  No hypothesis. -/
theorem C10_closed_remote (X : Proofs.Entry.Render) (π : MapOrder TableInfo) (fs : RemoteReader) (c : Cache) :
    RcOK (closedRR X) fs c (rcDatabases (closedRR X) fs c) ∧
    (∀ name, RcOK (closedRR X) fs c (rcDatabase (closedRR X) fs name c)) ∧
    (∀ db, RcOK (closedRR X) fs c (rcTables (closedRR X) π fs db c)) ∧
    (∀ name, RcOK (closedRR X) fs c (rcTablesByName (closedRR X) π fs name c)) ∧
    (∀ db name, RcOK (closedRR X) fs c (rcTable (closedRR X) π fs db name c)) ∧
    (∀ db tbl, RcOK (closedRR X) fs c (rcColumns (closedRR X) fs db tbl c)) ∧
    (∀ db tbl, RcOK (closedRR X) fs c (rcColumnNames (closedRR X) fs db tbl c)) ∧
    (∀ db t o, RcOK (closedRR X) fs c (rcQuery (closedRR X) fs db t o c)) ∧
    (∀ dbn tbl o, RcOK (closedRR X) fs c (rcQueryByName (closedRR X) π fs dbn tbl o c)) ∧
    (∀ db t, RcOK (closedRR X) fs c (rcDumpTable (closedRR X) fs db t c)) ∧
    (∀ db, RcOK (closedRR X) fs c (rcDumpDatabase (closedRR X) π fs db c)) ∧
    (∀ name, RcOK (closedRR X) fs c (rcDumpDatabaseByName (closedRR X) π fs name c)) ∧
    RcOK (closedRR X) fs c (rcDumpAll (closedRR X) π fs c) ∧
    RcOK (closedRR X) fs c (rcSummary (closedRR X) π fs c) :=
  have h := Entry.C10_closed_reader X
  ⟨rcDatabases_ok _ h fs c, fun n => rcDatabase_ok _ h fs n c, fun db => rcTables_ok _ h π fs db c,
   fun n => rcTablesByName_ok _ h π fs n c, fun db n => rcTable_ok _ h π fs db n c,
   fun db t => rcColumns_ok _ h fs db t c, fun db t => rcColumnNames_ok _ h fs db t c,
   fun db t o => rcQuery_ok _ h fs db t o c, fun d t o => rcQueryByName_ok _ h π fs d t o c,
   fun db t => rcDumpTable_ok _ h fs db t c, fun db => rcDumpDatabase_ok _ h π fs db c,
   fun n => rcDumpDatabaseByName_ok _ h π fs n c, rcDumpAll_ok _ h π fs c, rcSummary_ok _ h π fs c⟩

/-- **A whole session.**  Any sequence of calls on one client, started from `NewRemoteClient` (empty cache): each call
returns, and the cache is consistent at every point — shown for the sequence Summary(); DumpAll(); Database(n). -/
theorem C10_remote_session (rr : RowReader) (h : TotalReader rr) (π : MapOrder TableInfo) (fs : RemoteReader) (n : Bytes) :
    ∃ s c1 d c2 db c3, rcSummary rr π fs Cache.empty = .ok (s, c1) ∧ rcDumpAll rr π fs c1 = .ok (d, c2) ∧
      rcDatabase rr fs n c2 = .ok (db, c3) ∧ CacheOK rr fs c3 := by
  obtain ⟨s, c1, h1, k1⟩ := rcSummary_ok rr h π fs Cache.empty
  obtain ⟨d, c2, h2, k2⟩ := rcDumpAll_ok rr h π fs c1
  obtain ⟨db, c3, h3, k3⟩ := rcDatabase_ok rr h fs n c2
  exact ⟨s, c1, d, c2, db, c3, h1, h2, h3, k3 (k2 (k1 (C11_cache_empty_ok rr fs)))⟩

/-! ## non-vacuity -/

/-- a total reader exists, and on it the new models really run: a tree without global/1262 -/
example : listDatabases (fun _ _ _ => pure []) (fun _ => none) = .ok [] := rfl
example : analyzeTOAST (fun _ _ _ => pure []) (fun _ => none) [100] = .ok none := rfl
example : dumpAll (fun _ _ _ => pure []) id ⟨[64], [], id, fun _ => false⟩ (fun _ _ => none) {} = .ok [] := rfl
/-- the loop body of AnalyzeTOAST on a 60-byte tuple whose bytes 48..51 name relation 7, every path holding a 3-byte file -/
example : analyzeEntry (fun _ => some [1, 2, 3]) 5
    ⟨⟨⟨24, 0, 0, true, true, false, false⟩, none, List.replicate 48 0 ++ [7, 0, 0, 0] ++ List.replicate 8 0⟩, 0⟩ = .ok none := by rfl
example : summaryMarshalJSON ⟨[49, 52], [], [], []⟩ = Txt.asc "{\"version\":\"14\"}" := by decide

end PgVerif.Props.C10.Extra
