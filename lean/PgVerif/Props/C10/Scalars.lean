/-
  C10 for area `scalars`: DecodeType (types.go, as repaired by fixes/scalars/08-10) returns on every
  input.  Property theorems only; the lemmas are in Proofs/ScalarsTotal.lean.
-/
import PgVerif.Proofs.ScalarsTotal
namespace PgVerif.Props.C10.Scalars
open PgVerif PgVerif.Model.Scalars PgVerif.Proofs.Scalars

/-- For every byte string and every type oid, DecodeType returns a value (it does not panic on an
index, a slice bound or an allocation size): every scalar decoder of types.go — fixed-width types
behind the short-input guard, path/polygon with any count field, bit strings with any length
field, inet/cidr of any length, all range types with any flag byte — provided the three decoders
that belong to other areas (arrays, numeric, jsonb: the `Ext` parameters) return on every input. -/
theorem C10_total_decodeType (ext : Ext) (hext : ExtTotal ext) (bs : Bytes) (oid : Nat) :
    ∃ r, decodeType ext bs oid = .ok r :=
  decodeType_total ext hext bs oid

/-- the same for the scalar switch alone (no array dispatch): what a range bound re-enters -/
theorem C10_total_decodeScalar (ext : Ext) (hext : ExtTotal ext) (bs : Bytes) (oid : Nat) :
    ∃ r, decodeScalar ext bs oid = .ok r :=
  decodeScalar_total ext hext bs oid

/-- the hypothesis is satisfiable: decoders that always return -/
example : ExtTotal { decodeArray := fun _ _ => pure .nil, decodeNumeric := fun _ => pure .nil,
                     parseJSONB := fun _ => pure .nil, jsonUnmarshal := fun _ => none } :=
  ⟨fun _ _ => ⟨_, rfl⟩, fun _ => ⟨_, rfl⟩, fun _ => ⟨_, rfl⟩⟩

/-- Work bound of the bit-string decoder (A33, repaired): the text it builds is never longer than
eight characters per input byte, whatever the stored length field says. -/
theorem C10_bitstring_bounded (data : Bytes) (s : Bytes) (h : decodeBitString data = .ok (.str s)) :
    s.length ≤ 8 * data.length :=
  bitString_bounded data s h

end PgVerif.Props.C10.Scalars
