/-
  C18 — index files are classified and their page metadata reported exactly.
  Property theorems only; helper lemmas are in Proofs/Index*.lean.

  Spec side (Spec/Index.lean): an index file (any segment of it) = an access method, a list of 8 KiB pages — each with the
  page header fields (pd_lsn as {xlogid, xrecoff}, pd_lower, pd_upper, pd_special = 8192 − size of the method's special
  space), opaque body bytes and the method's opaque struct (btree 16, hash 16, gist 16, gin 8, spgist 8, brin 8 bytes) —, the
  metapage contents at offset 24 of block 0 when block 0 is flagged as the metapage (btree, hash, gin), and a trailing
  partial block.  Block 0 may be any page of the method.  `Spec.Index.fileView` is what a correct tool reports.

  Model side (Model/Index.lean): pgdump/index.go after fixes/index/01…09 (the code before them: Model/IndexOrig.lean;
  its failures on concrete pages: Proofs/IndexDefects.lean).

  `code am` is the tool's enum value of an access method (1 … 6); `C18_type_names` ties the numbering to PostgreSQL's names.
-/
import PgVerif.Proofs.IndexFile
namespace PgVerif.Props.C18
open PgVerif PgVerif.Model.Index PgVerif.Spec.Index PgVerif.Proofs.Index

/-- IndexType.String gives the six access methods PostgreSQL's names (`pg_am.amname`), in the tool's numbering. -/
theorem C18_type_names : ∀ am, typeString (code am) = am.name := typeString_code

/-- Classification: for every well-formed index file of any of the six access methods — any number of pages, block 0 a
metapage or any other page of the method, any flag words, links, levels, any B-tree cycle id up to MAX_BT_CYCLE_ID, any
trailing partial block — ParseIndexFile succeeds, reports the file's access method (number and name) and its page count. -/
theorem C18_classify (f : File) (h : f.WF) :
    ∃ r, parseIndexFile (encFile f) = .ok (some r) ∧ r.type = code f.am ∧ r.typeString = f.am.name ∧
      r.totalPages = f.pages.length ∧ r.pages.length = f.pages.length := by
  refine ⟨expectInfo f, parseIndexFile_enc f h, rfl, typeString_code f.am, rfl, ?_⟩
  exact expect_length f.pages 0

/-- Pages: the report has one record per page, in file order; read as a `PageView` (Go `int` fields are non-negative) record
`i` equals the Spec's view of page `i`: page number, flag word, meta/leaf/root/deleted bits, level (hash: bucket number of a
bucket page), previous/next (btree, hash) or right link (gist, gin), item count (`Spec.Index.itemCountOf`: the number of line
pointers (pd_lower − 24)/4 on pages that have a line pointer array; 0 on metapages, hash bitmap pages and BRIN range-map pages;
`maxoff` on GIN posting-tree pages), free space (pd_upper − pd_lower), LSN = xlogid·2^32 + xrecoff and its `%X/%X` text; every
record carries the file's access method. -/
theorem C18_pages (f : File) (h : f.WF) :
    ∃ r, parseIndexFile (encFile f) = .ok (some r) ∧ r.pages.map (viewOf f.am) = (fileView f).pages ∧
      ∀ pi ∈ r.pages, pi.indexType = code f.am ∧ pi.typeString = f.am.name ∧ 0 ≤ pi.itemCount ∧ 0 ≤ pi.freeSpace := by
  refine ⟨expectInfo f, parseIndexFile_enc f h, map_expect f.am f.pages h.1 0, ?_⟩
  apply forall_expect
  intro i p hp
  obtain ⟨hw, ha⟩ := h.1 p hp
  have hv := viewOf_expect p hw i
  refine ⟨?_, ?_, hv.2.1, hv.2.2⟩
  · rw [← ha]; cases hp' : p.op <;> simp [expectPage, hp']
  · rw [← ha, ← typeString_code]; cases hp' : p.op <;> simp [expectPage, hp']

/-- Flag names: for every page, a name is in the reported list EXACTLY when it is PostgreSQL's name (`Spec.Index.pgFlagNames`:
btpo_flags BTP_*, hasho_flag LH_* including the four state bits, GiST F_*, GIN_*, SPGIST_*, BRIN_EVACUATE_PAGE; printed without the
per-method macro prefix and, for the four hash page-type bits, without `_PAGE`) of a bit that is set in the page's flag word.
No bit PostgreSQL defines stays silent, no name is printed for a clear or undefined bit.  (The order of the list is not part of
the statement — nor of the property.) -/
theorem C18_flag_names (f : File) (h : f.WF) :
    ∃ r, parseIndexFile (encFile f) = .ok (some r) ∧ r.pages.length = f.pages.length ∧
      ∀ x ∈ r.pages.zip f.pages, NamesOK f.am x.2.op.flags x.1.flagStrings := by
  refine ⟨expectInfo f, parseIndexFile_enc f h, expect_length f.pages 0, ?_⟩
  apply zip_expect (fun pi p => NamesOK f.am p.op.flags pi.flagStrings) f.pages _ 0
  intro i p hp
  show NamesOK f.am p.op.flags (expectPage i p).flagStrings
  rw [expect_flagStrings, (h.1 p hp).2]
  exact flagStrings_ok f.am p.op.flags

/-- The table behind the names: every (mask, name) pair of the tool's flag-name lists (generated from the code by execution)
is a single bit of the 16-bit flag word and the name is PostgreSQL's for that bit of that access method. -/
theorem C18_name_table : ∀ am ∈ AM.all, ∀ e ∈ flagTable (code am),
    ∃ k ∈ List.range 16, e.1 = 2 ^ k ∧ shortFlagName am k = some e.2 := names_table_sound

/-- … and the table is complete with respect to PostgreSQL's: every flag bit PostgreSQL defines for an access method
(`Spec.Index.pgFlagNames` — 9 B-tree, 8 hash, 5 GiST, 8 GIN, 4 SP-GiST bits, 1 BRIN bit) has its (mask, name) entry. -/
theorem C18_name_table_complete : ∀ am ∈ AM.all, ∀ e ∈ pgFlagNames am,
    (2 ^ e.1, shortName am e.2) ∈ flagTable (code am) := names_table_complete

/-- Metapages: the reported metapage equals the stored one — btree (magic, version, root, level, fastroot, fastlevel), hash
(magic, version, maxbucket and maxbucket+1 buckets, highmask, lowmask, ffactor, ntuples as IEEE bits), gin (version, pending
head/tail/tail free size/pages/heap tuples, total/entry/data pages, entries) —, nil when block 0 is not a metapage (or the
method is gist/spgist/brin), and RootPage / Levels are the B-tree metapage's root and level (0 otherwise). -/
theorem C18_meta (f : File) (h : f.WF) :
    ∃ r, parseIndexFile (encFile f) = .ok (some r) ∧ r.metaInfo.map metaViewOf = (fileView f).metaPage ∧
      r.rootPage = (fileView f).rootPage ∧ r.levels = (fileView f).levels := by
  refine ⟨expectInfo f, parseIndexFile_enc f h, ?_, ?_, ?_⟩
  · simp only [expectInfo, fileView, Option.map_map]
    cases f.metaPage with
    | none => rfl
    | some m => simp [metaViewOf_expect]
  · simp only [expectInfo, fileView]
    cases f.metaPage with
    | none => rfl
    | some m => cases m <;> rfl
  · simp only [expectInfo, fileView]
    cases f.metaPage with
    | none => rfl
    | some m => cases m <;> rfl

/-- No confusion, part 1 — the decision is a function of the page trailer: on ANY two 8192-byte pages (no well-formedness)
that agree on pd_special (at one of the two real special-space sizes), on their last 16 bytes and on the first word after
the page header, detectIndexType gives the same answer. -/
theorem C18_no_confusion_depends (a b : Bytes) (ha : a.length = 8192) (hb : b.length = 8192)
    (hs : rd 2 (a.drop 16) = 8176 ∨ rd 2 (a.drop 16) = 8184) (e1 : rd 2 (a.drop 16) = rd 2 (b.drop 16))
    (e2 : a.drop 8176 = b.drop 8176) (e3 : rd 4 (a.drop 24) = rd 4 (b.drop 24)) :
    detectIndexType a = detectIndexType b := by
  rw [detect_eq, detect_eq, detectP_fn a ha hs, detectP_fn b hb (e1 ▸ hs), e1, e2, e3]

/-- No confusion, part 2 — ONE direction only: on ANY 8192-byte page whose pd_special is 8176 or 8184, IF the Spec's decision
procedure `classify` (a function of pd_special, the last 16 bytes and the first meta word: page ids 0xFF80/0xFF81 and B-tree
cycle ids ≤ 0xFF7F behind a 16-byte special space, 0xFF82, the BRIN page types and the eight GIN flag bits behind an 8-byte
one) names an access method, THEN detectIndexType returns that method.  This covers every trailer that carries the signature of
one of PostgreSQL's methods (exhaustively, not sampled), which is what the property quantifies over.  It says NOTHING about
trailers on which `classify` is `none` (pages of no PostgreSQL index): there the tool may still name a method
(`C18_no_confusion_converse_fails`), so "the tool agrees with the Spec on every possible trailer" is NOT a theorem. -/
theorem C18_no_confusion (page : Bytes) (hl : page.length = 8192)
    (hs : rd 2 (page.drop 16) = 8176 ∨ rd 2 (page.drop 16) = 8184) (am : AM)
    (hc : classify (rd 2 (page.drop 16)) (page.drop 8176) (rd 4 (page.drop 24)) = some am) :
    detectIndexType page = .ok (code am) := by
  rw [detect_eq, detectP_fn page hl hs, detectFn_classify _ _ _ _ hc]

/-- The converse of part 2 does not hold, and is not claimed: there are trailers that no PostgreSQL index page has (`classify`
= none) on which the tool nevertheless names a method — an 8-byte special space whose last word 0x0108 has an undefined GIN
bit, and a 16-byte special space ending in the SP-GiST page id 0xFF82 (the latter pinned by TestDetectIndexType). -/
theorem C18_no_confusion_converse_fails :
    (∃ page : Bytes, page.length = 8192 ∧ rd 2 (page.drop 16) = 8184 ∧
      classify (rd 2 (page.drop 16)) (page.drop 8176) (rd 4 (page.drop 24)) = none ∧
      (match detectIndexType page with | .ok t => t | .error _ => 0) = 4) ∧
    (∃ page : Bytes, page.length = 8192 ∧ rd 2 (page.drop 16) = 8176 ∧
      classify (rd 2 (page.drop 16)) (page.drop 8176) (rd 4 (page.drop 24)) = none ∧
      (match detectIndexType page with | .ok t => t | .error _ => 0) = 5) := by
  refine ⟨⟨zeros 16 ++ le 2 8184 ++ zeros 8172 ++ le 2 0x0108, ?_⟩, ⟨zeros 16 ++ le 2 8176 ++ zeros 8172 ++ le 2 0xFF82, ?_⟩⟩ <;>
    decide +kernel

/-- No confusion, part 3 (Spec side) — `classify` is right about PostgreSQL's pages: it names the access method of every
well-formed page of every method (a B-tree page flagged BTP_META carrying BTREE_MAGIC).  Being a function, it thereby shows
that no two methods share a trailer. -/
theorem C18_classify_spec (p : Page) (h : p.WF) (hm : MagicOK p) :
    classify p.special ((encPage p).drop 8176) (rd 4 ((encPage p).drop 24)) = some p.op.am :=
  classify_enc p h hm

/-! ### non-vacuity -/

/-- a two-page B-tree file — metapage (root = block 1, one level) and a leaf root page with three items — satisfies `File.WF`;
its view has two pages, a metapage and root page 1 -/
example :
    let m : Meta := .btree { version := 4, root := 1, level := 0, fastroot := 1, fastlevel := 0 }
    let p0 : Page := { xlogid := 0, xrecoff := 0x1000, checksum := 0, pdflags := 0, lower := 72, upper := 8176, psv := 8196, prune := 0,
                       body := encMeta m ++ zeros (8152 - 24), op := .btree 0 0 0 8 0 }
    let p1 : Page := { xlogid := 1, xrecoff := 0x2000, checksum := 0, pdflags := 0, lower := 36, upper := 8000, psv := 8196, prune := 0,
                       body := zeros 8152, op := .btree 0 0 0 3 0xFF7F }
    let f : File := { am := .btree, pages := [p0, p1], metaPage := some m, tail := [1, 2, 3] }
    f.WF ∧ (fileView f).pages.length = 2 ∧ (fileView f).rootPage = 1 ∧ ((fileView f).pages.map (·.itemCount)) = [0, 3] := by
  decide +kernel

/-- a GIN file whose block 0 is an entry-tree leaf page (no metapage) and a BRIN revmap page are well-formed too -/
example :
    let g : Page := { xlogid := 0, xrecoff := 8, checksum := 0, pdflags := 0, lower := 24, upper := 8184, psv := 8196, prune := 0,
                      body := zeros 8160, op := .gin 0xFFFFFFFF 0 2 }
    let b : Page := { g with op := .brin 0 0 1 0xF092 }
    (File.WF { am := .gin, pages := [g], metaPage := none, tail := [] }) ∧
    (File.WF { am := .brin, pages := [b, b], metaPage := none, tail := [] }) ∧ MagicOK g := by
  refine ⟨by decide +kernel, by decide +kernel, ?_⟩
  exact magicOK_of_not_btree _ (by decide)

/-- item counts from PostgreSQL's side: a GIN entry-tree leaf page with three line pointers and maxoff 0 holds 3 items; a GIN
posting-tree page with maxoff 7 holds 7 (its pd_lower does not count); a GIN metapage, a hash bitmap page and a BRIN range-map
page hold none -/
example :
    let g : Page := { xlogid := 0, xrecoff := 8, checksum := 0, pdflags := 0, lower := 36, upper := 8184, psv := 8196, prune := 0,
                      body := zeros 8160, op := .gin 0xFFFFFFFF 0 2 }
    itemCountOf g = 3 ∧ itemCountOf { g with op := .gin 5 7 1 } = 7 ∧ itemCountOf { g with op := .gin 5 7 8 } = 0 ∧
    itemCountOf { g with op := .hash 0 0 0 4 } = 0 ∧ itemCountOf { g with op := .brin 0 0 0 0xF092 } = 0 ∧
    itemCountOf { g with op := .brin 0 0 0 0xF093 } = 3 := by decide

/-- the hypotheses of `C18_no_confusion` are satisfiable by trailers of every method: the Spec's decision on six trailers -/
example :
    classify 8176 (zeros 12 ++ le 2 8 ++ le 2 0xFF7F) 0x053162 = some .btree ∧
    classify 8176 (zeros 14 ++ le 2 0xFF80) 0 = some .hash ∧ classify 8176 (zeros 14 ++ le 2 0xFF81) 0 = some .gist ∧
    classify 8184 (zeros 14 ++ le 2 0x00FF) 0 = some .gin ∧ classify 8184 (zeros 14 ++ le 2 0xFF82) 0 = some .spgist ∧
    classify 8184 (zeros 14 ++ le 2 0xF093) 0 = some .brin ∧ classify 8176 (zeros 12 ++ le 2 8 ++ le 2 0) 0 = none := by
  decide +kernel

end PgVerif.Props.C18
