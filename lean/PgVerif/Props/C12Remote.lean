/-
  C12 — the remote client against the directory dump and against the Spec (remediation R6; review findings B8, A5).

  `Props/C12.lean` has the statements that hold for every file system (DumpDataDir = DumpDatabaseFromFiles per database,
  name lookup, the CLI's decision table).  Here are the statements the property text is about:

    * every RemoteClient method, with whatever its cache holds, returns what its cache-free meaning computes
      (`C12_cache_transparent`);
    * RemoteClient.DumpTable reads the same file with the same columns as the directory dump's dumpTable
      (`C12_dumpTable_same_as_directory_dump`, model against model, any file system);
    * Query's projection and limit, as properties of the result (`C12_query_projection`, `C12_query_limit`);
    * on the file tree of a well-formed `Spec.Cluster` (same hypotheses as `C01_dump` at default options): Databases,
      Tables, Columns (under the PG_VERSION hint, and: the same as under the dump's automatic choice), Query, DumpTable,
      DumpDatabase, DumpAll against the Spec views, and DumpAll against DumpDataDir: the same databases and tables with the
      same columns and rows, minus EXACTLY the documented omissions of the remote dump (`Spec.remoteKeeps`: tables without
      rows, `sql_`-prefixed tables) plus one undocumented difference that is stated: a database without a directory is
      listed with no tables by DumpAll and left out by DumpDataDir.

  The open findings of area cluster (C01-TPL, A02, C01-SEG, C01-TBLSPC) are shared by all paths and carved out by the same
  hypotheses as in `C01_dump`.
-/
import PgVerif.Proofs.RemoteSpec
import PgVerif.Proofs.RemoteQuery
import PgVerif.Proofs.ClusterCatReal
import PgVerif.Props.C01
namespace PgVerif.Props.C12
open PgVerif PgVerif.Model PgVerif.Proofs PgVerif.Proofs.Cluster PgVerif.Proofs.Remote PgVerif.Props.C11 List
open PgVerif.Spec (TableDump DatabaseDump DumpResult Options Cluster DbContent DbRow ClassRow)

/-! ### the cache is transparent -/

/-- **No method depends on what the client has cached.**  Started with any cache that holds only what the two loaders
computed (`CacheOK`; the empty cache is one, and every method hands back such a cache), each of Databases, Database, Tables,
Table, Columns, Query, QueryByName, DumpTable, DumpDatabase and DumpAll returns exactly what its cache-free meaning
(Model/RemoteCold.lean) computes — value or fault — and leaves a consistent cache.  For every row reader, file system and
iteration order.  (Extends `C11_no_hidden_state_*` from the three listing methods to all of them.) -/
theorem C12_cache_transparent (rr : RowReader) (π : MapOrder TableInfo) (fs : RemoteReader) (c : Cache) :
    WarmAt rr fs c (rcDatabases rr fs c) (databasesCold rr fs) ∧
    (∀ n, WarmAt rr fs c (rcDatabase rr fs n c) (databaseCold rr fs n)) ∧
    (∀ db, WarmAt rr fs c (rcTables rr π fs db c) (tablesCold rr π fs db)) ∧
    (∀ db n, WarmAt rr fs c (rcTable rr π fs db n c) (tableCold rr π fs db n)) ∧
    (∀ db t, WarmAt rr fs c (rcColumns rr fs db t c) (columnsCold rr fs db t)) ∧
    (∀ db t o, WarmAt rr fs c (rcQuery rr fs db t o c) (queryCold rr fs db t o)) ∧
    (∀ d t o, WarmAt rr fs c (rcQueryByName rr π fs d t o c) (queryByNameCold rr π fs d t o)) ∧
    (∀ db t, WarmAt rr fs c (rcDumpTable rr fs db t c) (dumpTableCold rr fs db t)) ∧
    (∀ db, WarmAt rr fs c (rcDumpDatabase rr π fs db c) (dumpDatabaseCold rr π fs db)) ∧
    WarmAt rr fs c (rcDumpAll rr π fs c) (dumpAllCold rr π fs) :=
  ⟨warm_databases rr fs c, fun n => warm_database rr fs n c, fun db => warm_tables rr π fs db c,
   fun db n => warm_table rr π fs db n c, fun db t => warm_columns rr fs db t c, fun db t o => warm_query rr fs db t o c,
   fun d t o => warm_queryByName rr π fs d t o c, fun db t => warm_dumpTable rr fs db t c,
   fun db => warm_dumpDatabase rr π fs db c, warm_dumpAll rr π fs c⟩

/-- from a fresh client: the method's answer IS the cache-free meaning -/
theorem C12_fresh_client {α} (rr : RowReader) (fs : RemoteReader) (m : M (α × Cache)) (cold : M α)
    (h : WarmAt rr fs Cache.empty m cold) : Except.map (·.1) m = cold := by
  obtain ⟨c', _, hm⟩ := h (C11_cache_empty_ok rr fs)
  rw [hm]
  cases cold <;> rfl

/-- **Exec is cache-transparent too**: the command dispatcher (`Model.exec` = which method a command word reaches, run by
`execRun`) returns, with any consistent cache, what the cache-free dispatch returns. -/
theorem C12_exec_cache_transparent (rr : RowReader) (π : MapOrder TableInfo) (fs : RemoteReader) (args : List Bytes) (c : Cache) :
    WarmAt rr fs c (execRun rr π fs args c) (execCold rr π fs args) :=
  warm_exec rr π fs args c

/-- **`query <db> <table>` is QueryByName with limit 20, `dump <db>` is DumpDatabaseByName, `dump` is DumpAll**, `tables`,
`columns`, `query` without their arguments answer with the usage text, an unknown word with `unknown command: <word>`. -/
theorem C12_exec_dispatch (db t : Bytes) :
    exec [strBytes "query", db, t] = .query db t ∧ exec [strBytes "dump", db] = .dumpDb db ∧ exec [strBytes "dump"] = .dumpAll ∧
    exec [strBytes "tables", db] = .tables db ∧ exec [strBytes "columns", db, t] = .columns db t ∧
    exec [] = .summary ∧ exec [strBytes "summary"] = .summary ∧ exec [strBytes "dbs"] = .databases ∧
    exec [strBytes "databases"] = .databases ∧ exec [strBytes "version"] = .version ∧
    exec [strBytes "tables"] = .error (strBytes "usage: tables <database>") ∧
    exec [strBytes "query", db] = .error (strBytes "usage: query <database> <table>") ∧
    exec [strBytes "nosuch"] = .error (strBytes "unknown command: " ++ strBytes "nosuch") := by
  simp only [exec, strBytes_eq]
  refine ⟨?_, ?_, ?_, ?_, ?_, ?_, ?_, ?_, ?_, ?_, ?_, ?_, ?_⟩ <;> rfl

/-! ### the same rows: DumpTable / Query against dumpTable -/

/-- **RemoteClient.DumpTable = the directory dump's dumpTable** — model against model, for EVERY file system and every row
reader that yields no rows on an empty file (heap.go:ReadRows does: `readTableRows_empty`): for a table with a file name of
its own whose attributes all have attnum > 0 (what ParsePGAttribute returns), `DumpTable(db, t)` is
`dumpTable(t.Filenode, t, Columns(db, t.OID), reader base/<db>/·, default options)`: the same TableDump — oid, name, filenode,
kind, columns, rows, RowCount.  (The two functions differ in the text: dumpTable does not call the row reader on an empty
file, DumpTable filters `Num > 0` again; neither changes the result.) -/
theorem C12_dumpTable_same_as_directory_dump (rr : RowReader) (fs : RemoteReader) (db : Nat) (t : TableInfo) (A : List AttrInfo)
    (hcol : columnsCold rr fs db t.oid = .ok A) (hfn : t.filenode ≠ 0) (hnum : ∀ a ∈ A, a.num > 0)
    (hempty : ∀ cols, readTableRows rr [] cols = .ok []) :
    dumpTableCold rr fs db t = dumpTable rr t.filenode t A (some fun fn => fs (basePath db fn)) {} :=
  dumpTableCold_eq rr fs db t A hcol hfn hnum hempty

/-- the unrestricted Query (nil options) returns the rows of DumpTable -/
theorem C12_query_rows_of_dumpTable (rr : RowReader) (fs : RemoteReader) (db : Nat) (t : TableInfo) (td : TableDump)
    (h : dumpTableCold rr fs db t = .ok td) : queryCold rr fs db (some t) none = .ok td.rows ∧ td.rowCount = td.rows.length := by
  refine ⟨queryCold_rows rr fs db t td h, ?_⟩
  unfold dumpTableCold at h
  cases hq : queryCold rr fs db (some t) none with
  | error e => simp [hq] at h
  | ok rows =>
    simp only [hq, ok_bind] at h
    cases hc : columnsCold rr fs db t.oid with
    | error e => simp [hc] at h
    | ok A =>
      simp only [hc, ok_bind, pure_eq_ok] at h
      injection h with h; subst h; rfl

/-- **Projection.**  A row projected onto the requested columns has, for every key `k`: the row's value if `k` was
requested and the row has it, and no entry otherwise (requested names the row lacks are dropped; nothing else appears;
a name requested twice appears once). -/
theorem C12_query_projection (cols : List Bytes) (row : Row) (k : Bytes) :
    (projectRow cols row).lookup k = if k ∈ cols then row.lookup k else none :=
  projectRow_lookup cols row k

/-- **Projection and limit of a query.**  With options (columns `cs`, limit `n`) the result is obtained from the unrestricted
rows `rows0` of the same table: it has `min n |rows0|` rows when `n > 0` and `|rows0|` otherwise; its i-th row is the i-th
unrestricted row — projected (see `C12_query_projection`) when `cs` is not empty, unchanged otherwise. -/
theorem C12_query_limit (rr : RowReader) (fs : RemoteReader) (db : Nat) (t : TableInfo) (attrs : List AttrInfo) (o : QueryOptions)
    (rows0 : List Row) (h0 : queryWith rr fs db (some t) attrs none = .ok rows0) :
    ∃ rows, queryWith rr fs db (some t) attrs (some o) = .ok rows ∧
      rows.length = (if o.limit > 0 then min o.limit.toNat rows0.length else rows0.length) ∧
      ∀ i : Nat, i < rows.length → rows[i]? = (rows0[i]?).map (fun r => if o.columns.length > 0 then projectRow o.columns r else r) := by
  unfold queryWith at h0 ⊢
  simp only at h0 ⊢
  by_cases hf : t.filenode = 0
  · rw [if_pos hf] at h0 ⊢
    injection h0 with h0; subst h0
    refine ⟨[], rfl, by split <;> simp, by simp⟩
  · rw [if_neg hf] at h0 ⊢
    cases hfs : fs (basePath db t.filenode) with
    | none =>
      rw [hfs] at h0
      injection h0 with h0; subst h0
      refine ⟨[], rfl, by split <;> simp, by simp⟩
    | some data =>
      rw [hfs] at h0
      simp only at h0 ⊢
      cases hr : readTableRows rr data (attrs.map fun a => ⟨a.name, a.typid, a.len, a.num, a.align⟩) with
      | error e => simp [hr] at h0
      | ok rs =>
        simp only [hr, ok_bind, pure_eq_ok] at h0 ⊢
        injection h0 with h0; subst h0
        generalize hp : (if o.columns.length > 0 then rs.map (projectRow o.columns) else rs) = ps
        have hlen : ps.length = rs.length := by
          rw [← hp]; split <;> simp
        have hget : ∀ i : Nat, ps[i]? = (rs[i]?).map (fun r => if o.columns.length > 0 then projectRow o.columns r else r) := by
          intro i
          rw [← hp]
          by_cases hc : o.columns.length > 0
          · simp [hc]
          · simp only [hc, if_false]
            cases rs[i]? <;> rfl
        by_cases hl : o.limit > 0 ∧ (ps.length : Int) > o.limit
        · rw [if_pos hl]
          refine ⟨_, rfl, ?_, ?_⟩
          · rw [if_pos hl.1, length_take, hlen]
          · intro i hi
            rw [length_take] at hi
            rw [getElem?_take_of_lt (by omega), hget]
        · rw [if_neg hl]
          refine ⟨_, rfl, ?_, fun i _ => hget i⟩
          rw [hlen]
          by_cases h1 : o.limit > 0
          · rw [if_pos h1]
            have : ¬ (ps.length : Int) > o.limit := fun h2 => hl ⟨h1, h2⟩
            rw [hlen] at this
            omega
          · rw [if_neg h1]

/-! ### on the file tree of a cluster

The theorems below speak about `Spec.fsOf c` for clusters outside the cluster-level classes of the open findings of C01 that
concern WHERE the files lie and what the catalog rows mean: `hplain : c.Plain` (C01-SEG, C01-TBLSPC incl. the database's default
tablespace), `hid : c.IdentityMapped` (C01-MAPPED: the client reads `global/1262`, `base/<db>/1259`, `base/<db>/1249` by name and
never consults `pg_filenode.map`, like DumpDataDir), `hnm : c.NoFastDefaults` (C01-MISSINGVAL).  All access paths share these
defects (they agree with each other there — in being wrong), so they are carve-outs of the statements against the Spec, not
differences between the paths. -/

/-- the hypotheses of `C01_dump` at default options, in the form the remote theorems use them -/
theorem remoteDumpable_of_C01 (c : Cluster)
    (hdump : ∀ db ∈ c.dbs.live, Spec.selectedDb {} db = true → ∀ d, c.content.lookup db.oid = some d →
      DbDumpable c.layout d {} ∧ Spec.A02Free d {}) (hnm : c.NoFastDefaults) :
    ∀ db ∈ c.dbs.live, db.isTemplate = false → ∀ d, c.content.lookup db.oid = some d → RemoteDumpable d := by
  intro db hdb ht d hd
  exact remoteDumpable_of c.layout d (hdump db hdb (by simp [Spec.selectedDb, ht]) d hd) (hnm (db.oid, d) (lookup_mem_pair _ _ _ hd))

/-- **Databases.**  On the tree of a well-formed cluster a client lists every live database (template or not) with its oid
and name, in pg_database order — the list DumpDataDir walks. -/
theorem C12_remote_databases (dec : Dec) (hd : CatDec dec) (c : Cluster) (hwf : c.WF) (hplain : c.Plain) (hid : c.IdentityMapped) (hnm : c.NoFastDefaults) (c0 : Cache)
    (hc : CacheOK (readRows dec) (Spec.fsOf c) c0) :
    ∃ c', rcDatabases (readRows dec) (Spec.fsOf c) c0 = .ok (c.dbs.live.map fun d => ⟨d.oid, d.name⟩, c') := by
  obtain ⟨c', _, h⟩ := warm_databases (readRows dec) (Spec.fsOf c) c0 hc
  rw [databasesCold_tree dec hd c hwf _ (treeOf_fsOf c hwf.2.2.2.2.2.1 hplain hid hnm)] at h
  exact ⟨c', h⟩

theorem expectedRels_eq (d : DbContent) :
    Spec.expectedRels d = (relsOf d).map fun r => (⟨r.oid, r.filenode, r.name, [UInt8.ofNat r.kind]⟩ : Spec.RelEntry) := by
  unfold Spec.expectedRels relsOf
  have hs : ∀ l : List Spec.RelEntry, l.foldr Spec.insertRel [] = sortBy (·.filenode) l := by
    intro l
    unfold sortBy
    congr 1
    funext a l'
    induction l' with
    | nil => rfl
    | cons b bs ih => simp only [Spec.insertRel, insertBy, ih]
  rw [hs, sortBy_map _ ClassRow.filenode (fun e : Spec.RelEntry => e.filenode) (fun _ => rfl)]

/-- **Tables.**  For a database of the cluster with a directory, `Tables()` lists exactly the live relations with storage
(`Spec.expectedRels`: every relkind, relfilenode ≠ 0), each once with oid, filenode, name and relkind, in filenode order —
for every iteration order of the catalog map. -/
theorem C12_remote_tables_spec (dec : Dec) (hd : CatDec dec) (π : MapOrder TableInfo) (hπ : ∀ l, π l ~ l) (c : Cluster) (hwf : c.WF)
    (hplain : c.Plain) (hid : c.IdentityMapped) (hnm : c.NoFastDefaults) (oid : Nat) (d : DbContent) (hl : c.content.lookup oid = some d) (c0 : Cache)
    (hc : CacheOK (readRows dec) (Spec.fsOf c) c0) :
    ∃ ts c', rcTables (readRows dec) π (Spec.fsOf c) oid c0 = .ok (ts, c') ∧
      ts.map (fun t => (⟨t.oid, t.filenode, t.name, t.kind⟩ : Spec.RelEntry)) = Spec.expectedRels d := by
  obtain ⟨c', _, h⟩ := warm_tables (readRows dec) π (Spec.fsOf c) oid c0 hc
  rw [tablesCold_tree dec hd π hπ c hwf _ (treeOf_fsOf c hwf.2.2.2.2.2.1 hplain hid hnm) (rcVersionInt_fsOf c hwf.1 hwf.2.1) oid d hl] at h
  refine ⟨_, c', h, ?_⟩
  rw [expectedRels_eq, map_map]
  rfl

/-- **Columns.**  For a relation oid `k` of such a database `Columns()` returns the live pg_attribute rows of `k` with
attnum > 0 in attnum order, each with catalog name, type oid, attnum, attlen, attalign.  The client reads pg_attribute under
the version written in PG_VERSION, which always names the cluster's layout — no assumption on attstorage here. -/
theorem C12_remote_columns (dec : Dec) (hd : CatDec dec) (c : Cluster) (hwf : c.WF) (hplain : c.Plain) (hid : c.IdentityMapped) (hnm : c.NoFastDefaults) (oid : Nat) (d : DbContent)
    (hl : c.content.lookup oid = some d) (k : Nat) (hk : 0 < k) (c0 : Cache) (hc : CacheOK (readRows dec) (Spec.fsOf c) c0) :
    ∃ c', rcColumns (readRows dec) (Spec.fsOf c) oid k c0 = .ok ((Spec.userAttrs d.att k).map attrInfoOf, c') := by
  obtain ⟨c', _, h⟩ := warm_columns (readRows dec) (Spec.fsOf c) oid k c0 hc
  rw [columnsCold_tree dec hd c hwf _ (treeOf_fsOf c hwf.2.2.2.2.2.1 hplain hid hnm) (rcVersionInt_fsOf c hwf.1 hwf.2.1) oid d hl k hk] at h
  exact ⟨c', h⟩

/-- **The same columns under the client's hint and under the dump's automatic choice.**  The client parses pg_attribute
with the PG_VERSION hint, DumpDataDir / the CLI with hint 0 (automatic choice of the layout): on every encoded pg_attribute
whose live attstorage characters are legal (what the automatic choice needs) both give, for every relation oid, the same
attribute list. -/
theorem C12_columns_hint_independent (dec : Dec) (hd : CatDec dec) (c : Cluster) (hwf : c.WF) (att : Spec.HeapOf Spec.AttrRow)
    (hw : AttHeapWF c.layout att) (hst : ∀ a ∈ att.live, StorageOK a) (hnd : (att.live.map fun a => (a.relid, a.num)).Nodup) :
    ∃ m0 mv, parsePGAttribute (readRows dec) (Spec.encHeapOf (Spec.pgAttributeCols c.layout) (Spec.attrVals c.layout) att) 0 = .ok m0 ∧
      parsePGAttribute (readRows dec) (Spec.encHeapOf (Spec.pgAttributeCols c.layout) (Spec.attrVals c.layout) att) (c.pgVersion : Int) = .ok mv ∧
      ∀ k, 0 < k → (mapGet m0 k).getD [] = (mapGet mv k).getD [] := by
  obtain ⟨m0, h0, e0⟩ := parsePGAttribute_enc dec hd c.layout att 0 hw (Or.inr (Or.inr (Or.inr ⟨by decide, hst⟩))) hnd
  obtain ⟨mv, hv, ev⟩ := parsePGAttribute_enc dec hd c.layout att c.pgVersion hw (schemaOK_version c hwf.1 att) hnd
  exact ⟨m0, mv, h0, hv, fun k hk => by rw [e0 k hk, ev k hk]⟩

/-- **DumpTable and Query: the rows of the table.**  For a live ordinary table `r` (relkind `r`, own relfilenode, not
`pg_`-prefixed) of a database of the cluster, with the hypotheses of `C01_dump` on the database: `DumpTable(db, r)` returns
the Spec's table (`Spec.expectedTable` at default options: columns from the catalog join, rows = the live rows of the heap
file with the values that were stored, RowCount = their number), and `Query(db, r, nil)` returns its rows. -/
theorem C12_remote_dumpTable (dec : Dec) (hd : CatDec dec) (htot : C10.Rows.TotalDec dec) (c : Cluster) (hwf : c.WF) (hplain : c.Plain) (hid : c.IdentityMapped) (hnm : c.NoFastDefaults)
    (oid : Nat) (d : DbContent) (hl : c.content.lookup oid = some d) (hdd : RemoteDumpable d) (r : ClassRow) (hr : r ∈ d.cls.live)
    (hsel : Spec.selectedRel {} r = true) (c0 : Cache) (hc : CacheOK (readRows dec) (Spec.fsOf c) c0) :
    ∃ td c1 c2, rcDumpTable (readRows dec) (Spec.fsOf c) oid (infoOfRel r) c0 = .ok (td, c1) ∧
      normTable td = Spec.expectedTable (varlenaVal dec) d {} r ∧
      rcQuery (readRows dec) (Spec.fsOf c) oid (some (infoOfRel r)) none c0 = .ok (td.rows, c2) := by
  have htree := treeOf_fsOf c hwf.2.2.2.2.2.1 hplain hid hnm
  have hver := rcVersionInt_fsOf c hwf.1 hwf.2.1
  have hdwf : d.WF c.layout := hwf.2.2.2.2.2.2 (oid, d) (lookup_mem_pair _ _ _ hl)
  obtain ⟨_, _, _, hoid⟩ := dbWF_parts c.layout d hdwf
  obtain ⟨hk114, hfn0⟩ := selectedRel_kind {} r hsel
  have hcol := columnsCold_tree dec hd c hwf _ htree hver oid d hl r.oid (hoid r hr)
  have heq := dumpTableCold_eq (readRows dec) (Spec.fsOf c) oid (infoOfRel r) _ hcol hfn0 (by
    intro a ha
    obtain ⟨a', ha', rfl⟩ := mem_map.mp ha
    have h2 := (mem_filter.mp ((mem_sortAttrs a' _).mp ha')).2
    simp only [decide_eq_true_eq] at h2
    exact h2.2) (readTableRows_empty dec)
  obtain ⟨td, htd⟩ := C10.Cluster.C10_total_dumpTable (readRows dec)
    (fun data cols vis => C10.Rows.C10_total_readRows dec htot data cols vis) r.filenode (infoOfRel r)
    ((Spec.userAttrs d.att r.oid).map attrInfoOf) (some fun fn => Spec.fsOf c (basePath oid fn)) {}
  have hcold : dumpTableCold (readRows dec) (Spec.fsOf c) oid (infoOfRel r) = .ok td := by rw [heq]; exact htd
  obtain ⟨h1, h2, h3⟩ := hdd.files r hr hsel
  have hspec := dumpTable_spec dec c.layout d {} r (fun fn => Spec.fsOf c (basePath oid fn)) hr hk114 hfn0 hdwf
    (fun _ => htree.heap oid d hl r.filenode h1 h2 h3)
    (fun pages hp _ hne => hdd.readable r hr hsel pages hp hne)
    (fun pages hp hlo => hdd.inline hlo r hr hsel pages hp) hdd.nofast td htd
  obtain ⟨c1, _, hw1⟩ := warm_dumpTable (readRows dec) (Spec.fsOf c) oid (infoOfRel r) c0 hc
  obtain ⟨c2, _, hw2⟩ := warm_query (readRows dec) (Spec.fsOf c) oid (some (infoOfRel r)) none c0 hc
  rw [hcold] at hw1
  rw [queryCold_rows _ _ _ _ td hcold] at hw2
  exact ⟨td, c1, c2, hw1, hspec, hw2⟩

/-- **DumpDatabase.**  For a live database of the cluster, with the hypotheses of `C01_dump` on it: the client's dump has the
database's oid and name and the Spec's tables at default options minus exactly the documented omissions (tables without rows,
`sql_`-prefixed tables); no tables when the database has no directory. -/
theorem C12_remote_dumpDatabase (dec : Dec) (hd : CatDec dec) (htot : C10.Rows.TotalDec dec) (π : MapOrder TableInfo)
    (hπ : ∀ l, π l ~ l) (c : Cluster) (hwf : c.WF) (hplain : c.Plain) (hid : c.IdentityMapped) (hnm : c.NoFastDefaults) (db : DbRow) (hdb : db ∈ c.dbs.live)
    (hdump : ∀ d, c.content.lookup db.oid = some d → RemoteDumpable d) (c0 : Cache) (hc : CacheOK (readRows dec) (Spec.fsOf c) c0) :
    ∃ D c', rcDumpDatabase (readRows dec) π (Spec.fsOf c) db.oid c0 = .ok (some D, c') ∧
      normDb D = Spec.expectedRemoteDb (varlenaVal dec) db (c.content.lookup db.oid) := by
  obtain ⟨D, hD, hs⟩ := dumpDatabaseCold_tree dec hd htot π hπ c hwf _ (treeOf_fsOf c hwf.2.2.2.2.2.1 hplain hid hnm)
    (rcVersionInt_fsOf c hwf.1 hwf.2.1) db hdb hdump
  obtain ⟨c', _, hw⟩ := warm_dumpDatabase (readRows dec) π (Spec.fsOf c) db.oid c0 hc
  rw [hD] at hw
  exact ⟨D, c', hw, hs⟩

/-- **DumpAll against the Spec.**  On the tree of a cluster with the hypotheses of `C01_dump` at default options, a client's
`DumpAll()` returns and lists, in pg_database order, every live non-template database — `datistemplate` false, which under
`htpl` is what the client's name test decides — each as in `C12_remote_dumpDatabase`. -/
theorem C12_remote_all (dec : Dec) (hd : CatDec dec) (htot : C10.Rows.TotalDec dec) (π : MapOrder TableInfo) (hπ : ∀ l, π l ~ l)
    (c : Cluster) (hwf : c.WF) (htpl : Spec.TemplatesByName c) (hplain : c.Plain) (hid : c.IdentityMapped) (hnm : c.NoFastDefaults)
    (hdump : ∀ db ∈ c.dbs.live, Spec.selectedDb {} db = true → ∀ d, c.content.lookup db.oid = some d →
      DbDumpable c.layout d {} ∧ Spec.A02Free d {})
    (c0 : Cache) (hc : CacheOK (readRows dec) (Spec.fsOf c) c0) :
    ∃ R c', rcDumpAll (readRows dec) π (Spec.fsOf c) c0 = .ok (R, c') ∧
      R.map normDb = (c.dbs.live.filter fun db => !db.isTemplate).map fun db =>
        Spec.expectedRemoteDb (varlenaVal dec) db (c.content.lookup db.oid) := by
  have htree := treeOf_fsOf c hwf.2.2.2.2.2.1 hplain hid hnm
  obtain ⟨R, hR, hs⟩ := dumpAllLoopCold_tree dec hd htot π hπ c hwf _ htree (rcVersionInt_fsOf c hwf.1 hwf.2.1) htpl
    (remoteDumpable_of_C01 c hdump hnm) c.dbs.live (fun _ h => h)
  obtain ⟨c', _, hw⟩ := warm_dumpAll (readRows dec) π (Spec.fsOf c) c0 hc
  unfold dumpAllCold at hw
  rw [databasesCold_tree dec hd c hwf _ htree] at hw
  simp only [ok_bind] at hw
  have : (c.dbs.live.map fun d => (⟨d.oid, d.name⟩ : DatabaseInfo)) = c.dbs.live.map toInfo := rfl
  rw [this, hR] at hw
  exact ⟨R, c', hw, hs⟩

/-- **Summary.**  On the tree of a cluster whose template databases are the `template*`-named ones, the `databases` object of a
client's Summary (`SummaryResult.MarshalJSON`) has one entry per live non-template database that has at least one qualifying
table, in pg_database order: the database's name with the names of the Spec's tables of that database at default options
(ordinary tables, not `pg_`-prefixed, in filenode order — tables WITHOUT rows included, unlike the remote dump) that are
not `sql_`-prefixed.  Needs none of the heap-level hypotheses (only catalogs are read). -/
theorem C12_remote_summary (dec : Dec) (hd : CatDec dec) (π : MapOrder TableInfo) (hπ : ∀ l, π l ~ l) (c : Cluster) (hwf : c.WF)
    (htpl : Spec.TemplatesByName c) (hplain : c.Plain) (hid : c.IdentityMapped) (hnm : c.NoFastDefaults) (val : Spec.Val) (c0 : Cache) (hc : CacheOK (readRows dec) (Spec.fsOf c) c0) :
    ∃ c', summaryDatabases (readRows dec) π (Spec.fsOf c) c0 =
      .ok ((((c.dbs.live.filter fun db => !db.isTemplate).map fun db => (db.name, summaryNames val db (c.content.lookup db.oid))).filter
        fun e => e.2 ≠ []), c') := by
  have htree := treeOf_fsOf c hwf.2.2.2.2.2.1 hplain hid hnm
  obtain ⟨per, hper, hs⟩ := summaryLoopCold_tree dec hd π hπ c hwf _ htree (rcVersionInt_fsOf c hwf.1 hwf.2.1) htpl val
    c.dbs.live (fun _ h => h)
  obtain ⟨c', _, hw⟩ := warm_summaryDatabases (readRows dec) π (Spec.fsOf c) c0 hc
  unfold summaryDatabasesCold at hw
  rw [databasesCold_tree dec hd c hwf _ htree] at hw
  simp only [ok_bind] at hw
  have : (c.dbs.live.map fun d => (⟨d.oid, d.name⟩ : DatabaseInfo)) = c.dbs.live.map toInfo := rfl
  rw [this, hper] at hw
  simp only [ok_bind, pure_eq_ok] at hw
  refine ⟨c', ?_⟩
  rw [hw, ← hs]
  rfl

/-- the documented omissions applied to a database of the directory dump -/
def remoteView (d : DatabaseDump) : DatabaseDump := { d with tables := d.tables.filter Spec.remoteKeeps }

/-- **DumpAll against DumpDataDir: the same databases, tables, columns and rows, minus the documented omissions.**  On
the tree of a cluster as in `C01_dump` (default options): let `r` be what DumpDataDir returns and `R` what a client's DumpAll
returns.  Then the databases of `R` that have a directory are, in the same order, the databases of `r`, each with the tables
of `r` minus exactly the tables without rows and the `sql_`-prefixed tables (`Spec.remoteKeeps`) — same oid, name, filenode,
kind, columns, rows and row count (`normDb` blanks the type-name text of type oids the Spec has no name for; both paths print
it with the same function).  The only other difference between the two paths: `R` also lists, with no tables, the live
non-template databases that have no directory, which DumpDataDir leaves out. -/
theorem C12_remote_all_vs_directory_dump (dec : Dec) (hd : CatDec dec) (htot : C10.Rows.TotalDec dec) (π π' : MapOrder TableInfo)
    (hπ : ∀ l, π l ~ l) (hπ' : ∀ l, π' l ~ l) (c : Cluster) (hwf : c.WF) (htpl : Spec.TemplatesByName c) (hplain : c.Plain) (hid : c.IdentityMapped) (hnm : c.NoFastDefaults)
    (hdump : ∀ db ∈ c.dbs.live, Spec.selectedDb {} db = true → ∀ d, c.content.lookup db.oid = some d →
      DbDumpable c.layout d {} ∧ Spec.A02Free d {})
    (r : DumpResult) (hr : dumpDataDir (readRows dec) π (Spec.fsOf c) {} = .ok (some r)) :
    ∃ R c', rcDumpAll (readRows dec) π' (Spec.fsOf c) Cache.empty = .ok (R, c') ∧
      ((R.filter fun D => (c.content.lookup D.oid).isSome).map normDb) = (r.map normDb).map remoteView ∧
      ∀ D ∈ R, (c.content.lookup D.oid).isNone → D.tables = [] := by
  obtain ⟨R, c', hR, hs⟩ := C12_remote_all dec hd htot π' hπ' c hwf htpl hplain hid hnm hdump Cache.empty (C11_cache_empty_ok _ _)
  have hdir := C01.C01_dump dec hd π hπ c hwf {} htpl hplain hid hnm hdump r hr
  refine ⟨R, c', hR, ?_, ?_⟩
  · rw [hdir]
    have hoid : ∀ D : DatabaseDump, (normDb D).oid = D.oid := fun _ => rfl
    have h1 : (R.filter fun D => (c.content.lookup D.oid).isSome).map normDb =
        (R.map normDb).filter fun D => (c.content.lookup D.oid).isSome := by
      rw [filter_map]; rfl
    rw [h1, hs]
    unfold Spec.expectedDump
    have hsel : ∀ db : DbRow, Spec.selectedDb {} db = !db.isTemplate := by
      intro db; simp [Spec.selectedDb]
    rw [filter_congr (fun db _ => hsel db)]
    generalize (c.dbs.live.filter fun db => !db.isTemplate) = L
    induction L with
    | nil => rfl
    | cons db rest ih =>
      simp only [map_cons, filter_cons, filterMap_cons]
      cases hl : c.content.lookup db.oid with
      | none =>
        have : (Spec.expectedRemoteDb (varlenaVal dec) db none).oid = db.oid := rfl
        simp only [this, hl, Option.isSome_none, Bool.false_eq_true, if_false, Option.map_none]
        exact ih
      | some d =>
        have : (Spec.expectedRemoteDb (varlenaVal dec) db (some d)).oid = db.oid := rfl
        simp only [this, hl, Option.isSome_some, if_true, Option.map_some, map_cons]
        rw [ih]
        rfl
  · intro D hD hnone
    have hmem : normDb D ∈ R.map normDb := mem_map_of_mem hD
    rw [hs] at hmem
    obtain ⟨db, _, hdb⟩ := mem_map.mp hmem
    have hoid : D.oid = db.oid := by
      have := congrArg DatabaseDump.oid hdb
      cases hl : c.content.lookup db.oid <;> rw [hl] at this <;> exact this.symm
    rw [hoid] at hnone
    have hl : c.content.lookup db.oid = none := by simpa using hnone
    rw [hl] at hdb
    have := congrArg DatabaseDump.tables hdb
    simp only [Spec.expectedRemoteDb, normDb] at this
    exact map_eq_nil_iff.mp this.symm

/-- **With the model of the real value decoder**: `C12_remote_all_vs_directory_dump` instantiated with the composed model of
types.go:DecodeType (`rowsDec X`), for which both decoder hypotheses are theorems. -/
theorem C12_remote_all_vs_directory_dump_real (X : PgVerif.Proofs.Entry.Render) (π π' : MapOrder TableInfo)
    (hπ : ∀ l, π l ~ l) (hπ' : ∀ l, π' l ~ l) (c : Cluster) (hwf : c.WF) (htpl : Spec.TemplatesByName c) (hplain : c.Plain) (hid : c.IdentityMapped) (hnm : c.NoFastDefaults)
    (hdump : ∀ db ∈ c.dbs.live, Spec.selectedDb {} db = true → ∀ d, c.content.lookup db.oid = some d →
      DbDumpable c.layout d {} ∧ Spec.A02Free d {}) :
    ∃ r R c', dumpDataDir (readRows (C10.Entry.rowsDec X)) π (Spec.fsOf c) {} = .ok (some r) ∧
      rcDumpAll (readRows (C10.Entry.rowsDec X)) π' (Spec.fsOf c) Cache.empty = .ok (R, c') ∧
      ((R.filter fun D => (c.content.lookup D.oid).isSome).map normDb) = (r.map normDb).map remoteView := by
  obtain ⟨r, hr, _⟩ := C01.C01_dump_real X π hπ c hwf {} htpl hplain hid hnm hdump
  obtain ⟨R, c', hR, hs, _⟩ := C12_remote_all_vs_directory_dump _ (catDec_rowsDec X) (C10.Entry.rowsDec_total X) π π' hπ hπ' c hwf
    htpl hplain hid hnm hdump r hr
  exact ⟨r, R, c', hr, hR, hs⟩

/-! ### non-vacuity: the example cluster of Props/C01.lean satisfies every hypothesis -/

example : ∀ db ∈ C01.exCluster.dbs.live, Spec.selectedDb {} db = true → ∀ d, C01.exCluster.content.lookup db.oid = some d →
    DbDumpable C01.exCluster.layout d {} ∧ Spec.A02Free d {} := by
  intro db _ _ d hd
  have hlk : ∀ k, C01.exCluster.content.lookup k = some d → d = C01.exDb := by
    intro k hk
    have := lookup_mem_pair _ _ _ hk
    simp only [C01.exCluster, List.mem_singleton, Prod.mk.injEq] at this
    exact this.2
  rw [hlk _ hd]
  exact C01.exDb_dumpable {} (Or.inl rfl) rfl

/-- … and what the remote dump of it must be is not trivial: database 5 (`pg`) with table `t`, one live row; `template1` is not
listed -/
example : (((C01.exCluster.dbs.live.filter fun db => !db.isTemplate).map fun db =>
      Spec.expectedRemoteDb (fun b _ => pure (.int b.length)) db (C01.exCluster.content.lookup db.oid)).map fun d =>
      (d.oid, d.tables.map fun t => (t.name, t.rowCount))) = [(5, [([116], 1)])] := by
  delta Spec.expectedRemoteDb Spec.expectedDb Spec.selectedRel Spec.remoteKeeps
  simp only [strBytes_eq]
  decide

#print axioms C12_cache_transparent
#print axioms C12_fresh_client
#print axioms C12_exec_cache_transparent
#print axioms C12_exec_dispatch
#print axioms C12_dumpTable_same_as_directory_dump
#print axioms C12_query_rows_of_dumpTable
#print axioms C12_query_projection
#print axioms C12_query_limit
#print axioms remoteDumpable_of_C01
#print axioms C12_remote_databases
#print axioms expectedRels_eq
#print axioms C12_remote_tables_spec
#print axioms C12_remote_columns
#print axioms C12_columns_hint_independent
#print axioms C12_remote_dumpTable
#print axioms C12_remote_dumpDatabase
#print axioms C12_remote_all
#print axioms C12_remote_all_vs_directory_dump
#print axioms C12_remote_all_vs_directory_dump_real
#print axioms C12_remote_summary

end PgVerif.Props.C12
