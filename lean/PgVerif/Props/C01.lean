/-
  C01 — end-to-end dump reproduces the cluster's logical content (pgdump.go + catalog.go; the tree after
  fixes/rows/01..05 and fixes/cluster/01).

  The model is parametric in the row reader `rr` (heap.go:ReadRows, area `rows`, whose refinement theorem is
  C03_file): the theorems here are about the catalog / filter / join / dump logic on top of ANY row reader.
-/
import PgVerif.Proofs.ClusterDump
namespace PgVerif.Props.C01
open PgVerif PgVerif.Model PgVerif.Proofs PgVerif.Proofs.Cluster List
open PgVerif.Spec (TableDump DatabaseDump DumpResult Options)

/-- every table of a DumpDatabaseFromFiles result came out of dumpTable -/
theorem tables_from_dumpTable (rr : RowReader) (π : MapOrder TableInfo) (cd ad : Bytes) (reader : Option FileReader)
    (o : Options) (ts : List TableDump) (h : dumpDatabaseFromFiles rr π cd ad reader o = .ok ts) :
    ∀ t ∈ ts, ∃ fn info attrs, dumpTable rr fn info attrs reader o = .ok t := by
  unfold dumpDatabaseFromFiles at h
  cases h1 : parsePGClass rr cd with
  | error e => simp [h1] at h
  | ok tables =>
    cases h2 : parsePGAttribute rr ad o.pgVersion with
    | error e => simp [h1, h2] at h
    | ok attrs =>
      simp only [h1, h2, ok_bind] at h
      intro t ht
      obtain ⟨fn, _, hfn⟩ := collectM_ok _ _ _ h t ht
      unfold dumpOne at hfn
      cases hg : mapGet tables fn with
      | none => simp [hg] at hfn
      | some info =>
        simp only [hg] at hfn
        by_cases hk : keepTable o info = true
        · rw [if_pos hk] at hfn
          cases hd : dumpTable rr fn info ((mapGet attrs info.oid).getD []) reader o with
          | error e => simp [hd] at hfn
          | ok t' =>
            simp only [hd, ok_bind, pure_eq_ok] at hfn
            injection hfn with hfn; injection hfn with hfn; subst hfn
            exact ⟨fn, info, _, hd⟩
        · rw [if_neg hk] at hfn; simp at hfn

/-- every database of a DumpDataDir result came out of DumpDatabaseFromFiles -/
theorem dbs_from_files (rr : RowReader) (π : MapOrder TableInfo) (fs : Bytes → Option Bytes) (o : Options)
    (r : DumpResult) (h : dumpDataDir rr π fs o = .ok (some r)) :
    ∀ d ∈ r, ∃ cd ad reader, dumpDatabaseFromFiles rr π cd ad reader o = .ok d.tables := by
  unfold dumpDataDir at h
  cases hg : fs pathGlobal1262 with
  | none => simp [hg] at h
  | some dbData =>
    simp only [hg] at h
    cases hp : parsePGDatabase rr dbData with
    | error e => simp [hp] at h
    | ok dbs =>
      simp only [hp, ok_bind] at h
      cases hc : collectM (dumpDb rr π fs o) dbs with
      | error e => simp [hc] at h
      | ok r' =>
        simp only [hc, ok_bind, pure_eq_ok] at h
        injection h with h; injection h with h; subst h
        intro d hd
        obtain ⟨db, _, hdb⟩ := collectM_ok _ _ _ hc d hd
        unfold dumpDb at hdb
        split at hdb
        · simp at hdb
        · split at hdb
          · simp at hdb
          · simp only at hdb
            split at hdb
            · simp at hdb
            · cases hf : dumpDatabaseFromFiles rr π ((fs (basePath db.oid 1259)).getD []) ((fs (basePath db.oid 1249)).getD [])
                  (some fun fn => fs (basePath db.oid fn)) o with
              | error e => simp [hf] at hdb
              | ok ts =>
                simp only [hf, ok_bind, pure_eq_ok] at hdb
                injection hdb with hdb; injection hdb with hdb; subst hdb
                exact ⟨_, _, _, hf⟩

/-- **The reported row count always equals the number of rows returned** — for every row reader, every file
tree (well-formed or garbage), every iteration order and all options. -/
theorem C01_rowcount (rr : RowReader) (π : MapOrder TableInfo) (fs : Bytes → Option Bytes) (o : Options)
    (r : DumpResult) (h : dumpDataDir rr π fs o = .ok (some r)) :
    ∀ d ∈ r, ∀ t ∈ d.tables, t.rowCount = t.rows.length := by
  intro d hd t ht
  obtain ⟨cd, ad, reader, hf⟩ := dbs_from_files rr π fs o r h d hd
  obtain ⟨fn, info, attrs, hdt⟩ := tables_from_dumpTable rr π cd ad reader o d.tables hf t ht
  exact (dumpTable_shape rr fn info attrs reader o t hdt).2.2.2.2.2.1

/-- the same for the custom-file-reader entry point -/
theorem C01_rowcount_files (rr : RowReader) (π : MapOrder TableInfo) (cd ad : Bytes) (reader : Option FileReader)
    (o : Options) (ts : List TableDump) (h : dumpDatabaseFromFiles rr π cd ad reader o = .ok ts) :
    ∀ t ∈ ts, t.rowCount = t.rows.length := by
  intro t ht
  obtain ⟨fn, info, attrs, hdt⟩ := tables_from_dumpTable rr π cd ad reader o ts h t ht
  exact (dumpTable_shape rr fn info attrs reader o t hdt).2.2.2.2.2.1

/-- **Schema-only mode returns no rows**: with ListOnly every table has `Rows = nil` and `RowCount = 0`. -/
theorem C01_listonly_norows (rr : RowReader) (π : MapOrder TableInfo) (fs : Bytes → Option Bytes) (o : Options)
    (hl : o.listOnly = true) (r : DumpResult) (h : dumpDataDir rr π fs o = .ok (some r)) :
    ∀ d ∈ r, ∀ t ∈ d.tables, t.rows = [] ∧ t.rowCount = 0 := by
  intro d hd t ht
  obtain ⟨cd, ad, reader, hf⟩ := dbs_from_files rr π fs o r h d hd
  obtain ⟨fn, info, attrs, hdt⟩ := tables_from_dumpTable rr π cd ad reader o d.tables hf t ht
  have hs := dumpTable_shape rr fn info attrs reader o t hdt
  have hr := hs.2.2.2.2.2.2 hl
  exact ⟨hr, by rw [hs.2.2.2.2.2.1, hr]; rfl⟩

/-- **Schema-only mode returns the same tables and columns**: whenever the full dump of a database's files
returns, the ListOnly dump returns the same tables in the same order with the same oid, name, filenode, kind
and columns, and no rows. -/
theorem C01_listonly (rr : RowReader) (π : MapOrder TableInfo) (cd ad : Bytes) (reader : Option FileReader)
    (o : Options) (ts : List TableDump) (h : dumpDatabaseFromFiles rr π cd ad reader o = .ok ts) :
    dumpDatabaseFromFiles rr π cd ad reader { o with listOnly := true } = .ok (ts.map stripRows) := by
  unfold dumpDatabaseFromFiles at h ⊢
  cases h1 : parsePGClass rr cd with
  | error e => simp [h1] at h
  | ok tables =>
    cases h2 : parsePGAttribute rr ad o.pgVersion with
    | error e => simp [h1, h2] at h
    | ok attrs =>
      simp only [h1, h2, ok_bind] at h ⊢
      apply collectM_map_result _ _ stripRows _ _ h
      intro fn _ y hy
      unfold dumpOne at hy ⊢
      cases hg : mapGet tables fn with
      | none =>
        simp only [hg] at hy ⊢
        injection hy with hy; subst hy; rfl
      | some info =>
        simp only [hg] at hy ⊢
        by_cases hk : keepTable o info = true
        · rw [if_pos hk] at hy
          rw [if_pos (show keepTable { o with listOnly := true } info = true from hk)]
          cases hd : dumpTable rr fn info ((mapGet attrs info.oid).getD []) reader o with
          | error e => simp [hd] at hy
          | ok t =>
            simp only [hd, ok_bind, pure_eq_ok] at hy
            injection hy with hy; subst hy
            rw [dumpTable_listOnly rr fn info _ reader o t hd]
            rfl
        · rw [if_neg hk] at hy
          rw [if_neg (show ¬ keepTable { o with listOnly := true } info = true from hk)]
          injection hy with hy; subst hy; rfl

#print axioms C01_rowcount
#print axioms C01_rowcount_files
#print axioms C01_listonly_norows
#print axioms C01_listonly

end PgVerif.Props.C01
