/-
  C01 — end-to-end dump reproduces the cluster's logical content (pgdump.go + catalog.go; the tree after
  fixes/rows/01..05 and fixes/cluster/01, 08 (pg_attribute through the real layouts) and 09 (rows of tables without
  columns)).

  Remediation R6 (review findings B6, B14, C3, section "# C01"): the Spec no longer copies pgread's heuristics.  Four
  recorded OPEN findings (fixes/cluster/known_findings.json) are carved out as explicit hypotheses — `Spec.TemplatesByName`
  (C01-TPL: template database = name prefix instead of datistemplate), `Spec.A02Free` (A02: out-of-line values are dumped
  as nil; the inline-compressed half of A02 is repaired by fixes/rows/09 and no longer excluded), `Spec.Cluster.Plain` (C01-SEG: rows in segment files
  `<filenode>.N` are not read; C01-TBLSPC: relations outside the default tablespace are dumped without rows) — and the
  table filter is covered where Go's Unicode case folding is the Spec's ASCII folding (`GoCase.FilterStable`, part of `DbDumpable`).  The scalar
  decoder hypothesis `CatDec` is discharged for the composed model of DecodeType (`C01_catDec_real`, `C01_dump_real`).

  Remediation R11 (second review, points 3 and 5): two more recorded OPEN findings are explicit hypotheses —
  `Spec.Cluster.IdentityMapped` (C01-MAPPED: pgread opens global/1262, base/<db>/1259 and 1249 by name and never reads
  pg_filenode.map: after VACUUM FULL / CLUSTER of a mapped catalog the dump is empty, without an error) and
  `Spec.Cluster.NoFastDefaults` (C01-MISSINGVAL: a column added with a non-NULL fast default reads as nil in the rows written
  before the ALTER TABLE); `Spec.Cluster.Plain` now also says that every database lies in pg_default (C01-TBLSPC extended to
  pg_database.dattablespace).  `GoCase.FilterStable` is computed with Go's complete Unicode tables (Model/GoCaseTables.lean),
  so it is false for `Āb` / `āb` and every other pair Go folds together.

  The model is parametric in the row reader `rr` (heap.go:ReadRows, area `rows`, whose refinement theorem is
  C03_file): the theorems here are about the catalog / filter / join / dump logic on top of ANY row reader.
-/
import PgVerif.Proofs.ClusterClass
import PgVerif.Proofs.ClusterTree
import PgVerif.Proofs.ClusterHyp
import PgVerif.Proofs.ClusterDroppedTie
import PgVerif.Proofs.ClusterCatReal
import PgVerif.Props.C10.Cluster
import PgVerif.Props.C10.Rows
import PgVerif.Gen.Cluster
namespace PgVerif.Props.C01
open PgVerif PgVerif.Model PgVerif.Proofs PgVerif.Proofs.Cluster List
open PgVerif.Spec (TableDump DatabaseDump DumpResult Options)

/-- **The reported row count always equals the number of rows returned** — for every row reader, every file
tree (well-formed or garbage), every iteration order and all options. -/
theorem C01_rowcount (rr : RowReader) (π : MapOrder TableInfo) (fs : Bytes → Option Bytes) (o : Options)
    (r : DumpResult) (h : dumpDataDir rr π fs o = .ok (some r)) :
    ∀ d ∈ r, ∀ t ∈ d.tables, t.rowCount = t.rows.length := by
  intro d hd t ht
  obtain ⟨cd, ad, reader, hf⟩ := dbs_from_files rr π fs o r h d hd
  obtain ⟨fn, info, attrs, hdt⟩ := tables_from_dumpTable rr π cd ad reader o d.tables hf t ht
  exact (dumpTable_shape rr fn info attrs reader o t hdt).2.2.2.2.2.1

/-- the same for the custom-file-reader entry point -/
theorem C01_rowcount_files (rr : RowReader) (π : MapOrder TableInfo) (cd ad : Bytes) (reader : Option FileReader)
    (o : Options) (ts : List TableDump) (h : dumpDatabaseFromFiles rr π cd ad reader o = .ok ts) :
    ∀ t ∈ ts, t.rowCount = t.rows.length := by
  intro t ht
  obtain ⟨fn, info, attrs, hdt⟩ := tables_from_dumpTable rr π cd ad reader o ts h t ht
  exact (dumpTable_shape rr fn info attrs reader o t hdt).2.2.2.2.2.1

/-- **Schema-only mode returns no rows**: with ListOnly every table has `Rows = nil` and `RowCount = 0`. -/
theorem C01_listonly_norows (rr : RowReader) (π : MapOrder TableInfo) (fs : Bytes → Option Bytes) (o : Options)
    (hl : o.listOnly = true) (r : DumpResult) (h : dumpDataDir rr π fs o = .ok (some r)) :
    ∀ d ∈ r, ∀ t ∈ d.tables, t.rows = [] ∧ t.rowCount = 0 := by
  intro d hd t ht
  obtain ⟨cd, ad, reader, hf⟩ := dbs_from_files rr π fs o r h d hd
  obtain ⟨fn, info, attrs, hdt⟩ := tables_from_dumpTable rr π cd ad reader o d.tables hf t ht
  have hs := dumpTable_shape rr fn info attrs reader o t hdt
  have hr := hs.2.2.2.2.2.2 hl
  exact ⟨hr, by rw [hs.2.2.2.2.2.1, hr]; rfl⟩

/-- **Schema-only mode returns the same tables and columns**: whenever the full dump of a database's files
returns, the ListOnly dump returns the same tables in the same order with the same oid, name, filenode, kind
and columns, and no rows. -/
theorem C01_listonly (rr : RowReader) (π : MapOrder TableInfo) (cd ad : Bytes) (reader : Option FileReader)
    (o : Options) (ts : List TableDump) (h : dumpDatabaseFromFiles rr π cd ad reader o = .ok ts) :
    dumpDatabaseFromFiles rr π cd ad reader { o with listOnly := true } = .ok (ts.map stripRows) := by
  unfold dumpDatabaseFromFiles at h ⊢
  cases h1 : parsePGClass rr cd with
  | error e => simp [h1] at h
  | ok tables =>
    cases h2 : parsePGAttribute rr ad o.pgVersion with
    | error e => simp [h1, h2] at h
    | ok attrs =>
      simp only [h1, h2, ok_bind] at h ⊢
      apply collectM_map_result _ _ stripRows _ _ h
      intro fn _ y hy
      unfold dumpOne at hy ⊢
      cases hg : mapGet tables fn with
      | none =>
        simp only [hg] at hy ⊢
        injection hy with hy; subst hy; rfl
      | some info =>
        simp only [hg] at hy ⊢
        by_cases hk : keepTable o info = true
        · rw [if_pos hk] at hy
          rw [if_pos (show keepTable { o with listOnly := true } info = true from hk)]
          cases hd : dumpTable rr fn info ((mapGet attrs info.oid).getD []) reader o with
          | error e => simp [hd] at hy
          | ok t =>
            simp only [hd, ok_bind, pure_eq_ok] at hy
            injection hy with hy; subst hy
            rw [dumpTable_listOnly rr fn info _ reader o t hd]
            rfl
        · rw [if_neg hk] at hy
          rw [if_neg (show ¬ keepTable { o with listOnly := true } info = true from hk)]
          injection hy with hy; subst hy; rfl

/-- **Every ordinary user table that passes the filters, exactly once** (the pg_class half of `C01_dump`).
For every database content `d`, if the row reader hands ParsePGClass the live pg_class rows of `d` (as far as oid,
relname, relfilenode and relkind go — what C03_file gives for the encoded catalog) and `d` is well-formed (live
rows with storage have pairwise distinct filenodes, relkind is a byte), then the tables DumpDatabaseFromFiles
returns are, with their oid, name, filenode and kind, exactly the tables of the specification's expected dump
`Spec.expectedDb`: relkind `r`, relfilenode ≠ 0, not `pg_`-prefixed when skipping system tables, containing the
lower-cased filter — each once, dead row versions ignored, in the same (filenode) order; for every iteration order
of Go's table map, every pg_attribute content, every file reader and all options whose table filter is empty or ASCII
on ASCII relation names (`GoCase.FilterStable`: beyond ASCII Go lower-cases by Unicode tables and the Spec is silent).

`_partial`: the full `C01_dump` (below) also equates each table's columns (join of pg_attribute by relation oid,
attnum > 0 in attnum order, layout choice) and rows (`Spec.expectedTable`) with the model's; this theorem is the part
that holds for an arbitrary row reader. -/
theorem C01_dump_partial (rr : RowReader) (π : MapOrder TableInfo) (hπ : ∀ l, π l ~ l) (val : Spec.Val) (o : Options)
    (db : Spec.DbRow) (d : Spec.DbContent) (cd ad : Bytes) (reader : Option FileReader) (rows : List Row)
    (hr : rr cd schemaPGClass true = .ok rows) (hrows : rows.map infoOfRow = d.cls.live.map infoOfRel)
    (hnd : ((d.cls.live.filter (·.filenode != 0)).map (·.filenode)).Nodup) (hkind : ∀ r ∈ d.cls.live, r.kind < 256)
    (hasc : GoCase.FilterStable o d.cls.live)
    (ts : List TableDump) (h : dumpDatabaseFromFiles rr π cd ad reader o = .ok ts) :
    ts.map tableKey = (Spec.expectedDb val o db d).tables.map tableKey := by
  rw [dump_tables_of_live rr π hπ cd ad reader o rows d.cls.live hr hrows hnd hkind hasc ts h, expectedDb_keys]

/-- the decidable side conditions of `C01_dump_partial` hold for a small pg_class (a table, an index, a view).  The
reader hypothesis `hrows` (an equation between association lists keyed by string literals, which the kernel does
not evaluate) is re-checked at run time on every generated cluster instead: family `cluster_dump` tags each case
`hyp:class=ok` when `Model.readRows` applied to the encoded pg_class satisfies it, and `hyp:class=FAIL` otherwise
(counts are in the evidence histogram). -/
example :
    let live : List Spec.ClassRow := [{ oid := 16384, name := [116], kind := 114, filenode := 16390 },
                                      { oid := 16387, name := [105], kind := 105, filenode := 16387 },
                                      { oid := 16388, name := [118], kind := 118, filenode := 0 }]
    ((live.filter (·.filenode != 0)).map (·.filenode)).Nodup ∧ ∀ r ∈ live, r.kind < 256 := by
  refine ⟨by decide, by decide⟩

/-! ## The full dump theorem (extension E1)

From here on the row reader is the real one, `Model.readRows dec` (heap.go:ReadRows, area `rows`), and the files are
the ones a `Spec.Cluster` is encoded into (`Spec.fsOf`: PostgreSQL's real catalog layouts 12–13 / 14–15 / 16, heaps of
live and dead row versions over any number of pages).  The scalar decoder `dec` (DecodeType, area `scalars`) stays a
parameter: the catalog logic needs it only on the seven catalog column types (`CatDec dec`, which the decoder the
families run satisfies: `catDec_local`); the rendering of user values is `varlenaVal dec`, i.e. C04's business.

No finding is carved out any more: A03 and A04 were repaired by fixes/cluster/08 (ParsePGAttribute reads the three real
layouts, attalign included, and chooses the layout by looking at every row), A01z by fixes/cluster/09 (readTableRows);
the former hypotheses `RelReadable.aligned`, `RelReadable.nonempty` and the first-five-rows clause of `SchemaOK` are gone.
What remains explicit are conditions every real cluster meets but `Spec.Cluster.WF` does not state: attnums 1..n without
gaps (`RelReadable.dense`), a dumped table's file name is not that of a catalog or of a non-heap relation
(`DbDumpable.files`), a version hint — if one is given — that names the cluster's layout, and attstorage ∈ {p, e, m, x}
when there is none (`SchemaOK`: what the automatic choice of the layout looks at, besides attalign). -/

open PgVerif.Spec (Cluster DbContent Layout HeapOf AttrRow ClassRow DbRow)

/-- **ReadRows on pg_class gives ParsePGClass the live rows.**  For every pg_class heap in PostgreSQL's layout (33
attributes, of which the tool's schema knows the first 17; any number of pages; live and dead row versions) whose
rows have NUL-free names of at most 63 bytes, 32-bit oids and filenodes, and which fit their pages: the real row reader
returns one row per live version, in heap order, from which the tool reads the relation's oid, name, filenode and
relkind.  This is the reader hypothesis `hr`/`hrows` of `C01_dump_partial`, now proved. -/
theorem C01_class_reader (dec : Dec) (hd : CatDec dec) (cls : HeapOf ClassRow)
    (hv : ∀ s ∈ cls.versions, Spec.nameOK s.val.name ∧ s.val.oid < 2 ^ 32 ∧ s.val.filenode < 2 ^ 32 ∧ s.infomask < 65536)
    (hfit : Spec.pagesFit (cls.map fun pg => pg.map fun s => Spec.formRow Spec.pgClassCols (Spec.classVals s.val) s.infomask)) :
    ∃ rows, readRows dec (Spec.encHeapOf Spec.pgClassCols Spec.classVals cls) schemaPGClass true = .ok rows ∧
      rows.map infoOfRow = cls.live.map infoOfRel :=
  readRows_class dec hd cls hv hfit

/-- **Which tables, once, in filenode order — with the real reader** (`C01_dump_partial` without its reader
hypotheses): for every well-formed database content, every pg_attribute bytes, every file reader, iteration order
and options. -/
theorem C01_tables (dec : Dec) (hd : CatDec dec) (π : MapOrder TableInfo) (hπ : ∀ l, π l ~ l) (val : Spec.Val) (o : Options)
    (l : Layout) (db : DbRow) (d : DbContent) (hwf : d.WF l) (hasc : GoCase.FilterStable o d.cls.live) (ad : Bytes)
    (reader : Option FileReader) (ts : List TableDump)
    (h : dumpDatabaseFromFiles (readRows dec) π (Spec.encHeapOf Spec.pgClassCols Spec.classVals d.cls) ad reader o = .ok ts) :
    ts.map tableKey = (Spec.expectedDb val o db d).tables.map tableKey := by
  obtain ⟨hcls, _, hkind, _⟩ := dbWF_parts l d hwf
  obtain ⟨rows, hr, hrows⟩ := readRows_class dec hd d.cls hcls hwf.2.2.2.2.2.2.1
  exact C01_dump_partial (readRows dec) π hπ val o db d _ ad reader rows hr hrows hwf.2.2.1 hkind hasc ts h

/-- **ParsePGAttribute, every layout, hinted and chosen automatically.**  For every pg_attribute heap encoded in one of
PostgreSQL's three real layouts (row versions live and dead, any number of pages, in ANY order; names NUL-free ≤ 63
bytes, 32-bit oids, 16-bit attnum / attlen, attalign one of c/s/i/d) in which no live (attrelid, attnum) pair repeats, and
every version hint `ver` with `SchemaOK` (the hint names the layout — 16+, 14–15, 12–13 —; or there is no hint and every
live row's attstorage is one of p/e/m/x): ParsePGAttribute returns, and for every relation oid `k` the entry of the
returned map is exactly the live rows of `k` with attnum > 0, in attnum order, dead versions and system attributes
ignored, each with its catalog name, type oid, attnum, attlen and attalign character (`attrInfoOf`).  Nothing is
assumed about which rows come first (the former finding A04) and `Align` is the real attalign (the former A03). -/
theorem C01_attributes (dec : Dec) (hd : CatDec dec) (l : Layout) (att : HeapOf AttrRow) (ver : Nat) (hw : AttHeapWF l att)
    (hs : SchemaOK l att ver) (hnd : (att.live.map fun a => (a.relid, a.num)).Nodup) :
    ∃ m, parsePGAttribute (readRows dec) (Spec.encHeapOf (Spec.pgAttributeCols l) (Spec.attrVals l) att) (ver : Int) = .ok m ∧
      ∀ k, 0 < k → (mapGet m k).getD [] = (Spec.userAttrs att k).map attrInfoOf :=
  parsePGAttribute_enc dec hd l att ver hw hs hnd

/-- **The automatic choice finds the layout** (readAttrRows without a version hint, the only mode the CLI has): on a
pg_attribute heap of any of the three layouts with legal attstorage characters it returns the live rows read under the
file's own layout — whatever the rows are, however few, in whatever order (a PostgreSQL 16 file need not begin with
attnum 1..5: the former finding A04). -/
theorem C01_layout_choice (dec : Dec) (hd : CatDec dec) (l : Layout) (att : HeapOf AttrRow) (hw : AttHeapWF l att)
    (hst : ∀ a ∈ att.live, StorageOK a) :
    readAttrRows (readRows dec) (Spec.encHeapOf (Spec.pgAttributeCols l) (Spec.attrVals l) att) 0 = .ok (att.live.map (attrRowOf dec l)) :=
  readAttrRows_enc dec hd l att 0 hw (Or.inr (Or.inr (Or.inr ⟨by decide, hst⟩)))

/-- the automatic choice is dropped.go's `readAttrRowsWithDropped` as area `dropped` models it (the same function over the
same three layout tables), so that area's theorems about the choice speak about ParsePGAttribute's rows too -/
theorem C01_layout_choice_shared (rr : RowReader) (data : Bytes) :
    readAttrRows rr data 0 = readAttrRowsWithDropped rr data :=
  catReadAttrRowsAuto_eq_dropped rr data

/-- **DecodeTuple is handed the true alignment** (the former finding A03): the `Column` dumpTable builds from what
ParsePGAttribute read carries the attribute's attalign, for every type — known to `typeAlign` or not, a dropped column
(atttypid 0) included. -/
theorem C01_attalign (a : AttrRow) (h : a.align = 1 ∨ a.align = 2 ∨ a.align = 4 ∨ a.align = 8) :
    colAlign (toolColumn a) = a.align :=
  toolColumn_align a h

/-- **The tool's type names are PostgreSQL's** for every type oid the specification names. -/
theorem C01_typenames : ∀ p ∈ Spec.typeNames, Model.typeName (p.1 : Int) = strBytes p.2 := typeNames_agree

/-- **Columns of every dumped table = the catalog join.**  For every well-formed database content in every layout and
every options / version hint with `SchemaOK` (a hint, if given, names the layout), whatever the heap files and
the file reader are: the tables DumpDatabaseFromFiles returns are the specification's tables and each carries exactly
the specification's columns — the live pg_attribute rows of the relation's oid with attnum > 0, in attnum order, with
catalog name, type oid and (for the type oids the specification names; the others' text is blanked by `normCol`)
PostgreSQL's type name. -/
theorem C01_columns (dec : Dec) (hd : CatDec dec) (π : MapOrder TableInfo) (hπ : ∀ l, π l ~ l) (l : Layout)
    (d : DbContent) (o : Options) (db : DbRow) (val : Spec.Val) (reader : Option FileReader) (hwf : d.WF l)
    (hs : SchemaOK l d.att o.pgVersion) (hasc : GoCase.FilterStable o d.cls.live) (ts : List TableDump)
    (h : dumpDatabaseFromFiles (readRows dec) π (Spec.encHeapOf Spec.pgClassCols Spec.classVals d.cls)
          (Spec.encHeapOf (Spec.pgAttributeCols l) (Spec.attrVals l) d.att) reader o = .ok ts) :
    ts.map tableCols = (Spec.expectedDb val o db d).tables.map fun t => (tableKey t, t.columns) :=
  dumpDatabase_columns dec hd π hπ l d o db val reader hwf hs hasc ts h

/-- **Which databases are dumped.**  For every well-formed cluster (pg_database in the 12–14 or the 15–16 layout,
live and dead rows, any number of pages) in which the databases whose name starts with `template` are exactly the
`datistemplate` ones (`TemplatesByName`: open finding C01-TPL is about the others) and whose catalogs lie under `base/`
(`Plain`): the databases DumpDataDir lists on the cluster's file tree are, with oid and name and in pg_database heap
order, exactly the live non-template databases that equal the database filter if one is set and that have a directory —
whatever the table-level content, for every iteration order and all options. -/
theorem C01_databases (dec : Dec) (hd : CatDec dec) (π : MapOrder TableInfo) (c : Cluster) (hwf : c.WF)
    (htpl : Spec.TemplatesByName c) (hplain : c.Plain) (hid : c.IdentityMapped) (hnm : c.NoFastDefaults) (o : Options)
    (val : Spec.Val) (r : DumpResult) (h : dumpDataDir (readRows dec) π (Spec.fsOf c) o = .ok (some r)) :
    r.map dbKey = (Spec.expectedDump val c o).map dbKey :=
  dumpDataDir_databases dec hd π c o val (Spec.fsOf c) hwf (treeOf_fsOf c hwf.2.2.2.2.2.1 hplain hid hnm) htpl r h

/-- **Rows of one table = the live rows of its heap file, decoded.**  For a live ordinary table of a well-formed
database whose attnums have no gaps (`RelReadable`), dumpTable called with the catalog's columns and a reader serving
the encoded heap returns the specification's table: rows = the row versions of the heap whose own hint bits say live,
in page then line-pointer order, each decoded to what was stored (`Spec.storedRow`: NULLs, short and long varlena
headers, C strings, attributes beyond the stored count; every column read at its catalog alignment — the former A03 —; the
empty row `{}` for each live row of a table without columns — the former A01z), `RowCount` = their number; none when
schema-only.  Hypothesis `hinl` is the carve-out of the OPEN finding A02: no row of the heap holds
an out-of-line (TOASTed) value — for those `Spec.storedRow` demands the original value and pgread reports nil (witness in
known_findings.json).  Values compressed IN LINE are covered (`Spec.inlineDatum` holds for them since fixes/rows/09:
ReadVarlena returns the original bytes, `C03_compressed_inline`).  Hypothesis `hmiss` is the carve-out of the OPEN finding C01-MISSINGVAL: the
database records no fast default (`atthasmissing` / `attmissingval`) — where it does, PostgreSQL returns the default for the
attributes a row written before the ALTER TABLE does not store (`Spec.fillMissing`) and pgread reports nil. -/
theorem C01_rows (dec : Dec) (l : Layout) (d : DbContent) (o : Options) (r : ClassRow) (rd : FileReader)
    (hr : r ∈ d.cls.live) (hkind : r.kind = 114) (hfn : r.filenode ≠ 0) (hwf : d.WF l)
    (hreader : o.listOnly = false →
      rd r.filenode = (d.heaps.lookup r.filenode).map (Spec.encRowPages (Spec.colsOfFilenode d r.filenode)))
    (hok : ∀ pages, d.heaps.lookup r.filenode = some pages → o.listOnly = false → pages ≠ [] → RelReadable d r)
    (hinl : ∀ pages, d.heaps.lookup r.filenode = some pages → o.listOnly = false →
      ∀ pg ∈ pages, ∀ row ∈ pg, row.vals.all Spec.inlineDatum = true)
    (hmiss : d.missing = [])
    (t : TableDump)
    (h : dumpTable (readRows dec) r.filenode (infoOfRel r) ((Spec.userAttrs d.att r.oid).map attrInfoOf) (some rd) o = .ok t) :
    normTable t = Spec.expectedTable (varlenaVal dec) d o r :=
  dumpTable_spec dec l d o r rd hr hkind hfn hwf hreader hok hinl hmiss t h

/-- **C01: the dump of a cluster is the cluster's logical content** — outside the classes of the six recorded open
findings (C01-TPL, A02, C01-SEG, C01-TBLSPC, C01-MAPPED, C01-MISSINGVAL).  For every well-formed cluster `c` (`Spec.Cluster.WF`: PostgreSQL 12–16, any databases, relations of every kind,
catalog and user heaps of live and dead row versions over any number of pages), all options `o` (database filter, table
filter, schema-only, skip-system, version hint), every iteration order of Go's maps and every scalar decoder that handles
the catalog column types (`CatDec`; the composed model of DecodeType does: `C01_dump_real`), provided
  * `htpl` (carve-out of finding C01-TPL): the databases whose name starts with `template` are exactly those with
    `datistemplate` set;
  * `hplain` (carve-outs of C01-SEG and C01-TBLSPC): no heap is split into segment files, no relation lies outside
    its database's default tablespace, and every database's default tablespace is pg_default;
  * `hid` (carve-out of finding C01-MAPPED): pg_database and every database's pg_class and pg_attribute live under the
    file named after their oid (the relation maps `global/pg_filenode.map`, `base/<db>/pg_filenode.map`, which `Spec.fsOf`
    writes, say so) — after VACUUM FULL / CLUSTER of such a catalog they do not, and pgread, which never reads the maps,
    finds no databases / no tables / no columns;
  * `hnm` (carve-out of finding C01-MISSINGVAL): no database records a fast default (`atthasmissing` / `attmissingval`);
  * for every database that is dumped: `A02Free` (carve-out of finding A02: no row of a table dumped with its rows holds an
    out-of-line value; inline-compressed values are allowed) and `DbDumpable` (no finding: a version hint, if given, names the layout, and
    attstorage characters are legal; the dumped tables' attnums are dense; their files are theirs alone; the table filter,
    if any, and the relation names are strings on which Go's `ToLower` is ASCII lower-casing — `GoCase.FilterStable`):
whenever DumpDataDir on the cluster's file tree returns, its result is — database by database in pg_database order,
table by table in filenode order, column by column, row by row — `Spec.expectedDump`: every non-template database
(`datistemplate` false) passing the filter that has a directory; in it every ordinary table (relkind `r` with a
relfilenode of its own) passing the system-table and name filters, each exactly once; its columns from the join of
pg_attribute by relation oid (attnum > 0, attnum order); its rows exactly the live row versions of its heap file with
the values that were stored (rendered by `varlenaVal dec`); `RowCount` = number of rows; no rows when schema-only.
(`normDb` blanks the type-name text of type oids the specification has no name for; for the others `C01_typenames`
applies.) -/
theorem C01_dump (dec : Dec) (hd : CatDec dec) (π : MapOrder TableInfo) (hπ : ∀ l, π l ~ l) (c : Cluster) (hwf : c.WF) (o : Options)
    (htpl : Spec.TemplatesByName c) (hplain : c.Plain) (hid : c.IdentityMapped) (hnm : c.NoFastDefaults)
    (hdump : ∀ db ∈ c.dbs.live, Spec.selectedDb o db = true → ∀ d, c.content.lookup db.oid = some d →
      DbDumpable c.layout d o ∧ Spec.A02Free d o)
    (r : DumpResult) (h : dumpDataDir (readRows dec) π (Spec.fsOf c) o = .ok (some r)) :
    r.map normDb = Spec.expectedDump (varlenaVal dec) c o :=
  dumpDataDir_spec dec hd π hπ c o (Spec.fsOf c) hwf (treeOf_fsOf c hwf.2.2.2.2.2.1 hplain hid hnm) htpl hdump hnm r h

/-- … and DumpDataDir does return on such a tree (never the read error, never a fault) for every scalar decoder that
returns on every input — so `C01_dump` is not vacuous. -/
theorem C01_dump_returns (dec : Dec) (hd : CatDec dec) (htot : C10.Rows.TotalDec dec) (π : MapOrder TableInfo) (hπ : ∀ l, π l ~ l)
    (c : Cluster) (hwf : c.WF) (o : Options) (htpl : Spec.TemplatesByName c) (hplain : c.Plain) (hid : c.IdentityMapped) (hnm : c.NoFastDefaults)
    (hdump : ∀ db ∈ c.dbs.live, Spec.selectedDb o db = true → ∀ d, c.content.lookup db.oid = some d →
      DbDumpable c.layout d o ∧ Spec.A02Free d o) :
    ∃ r, dumpDataDir (readRows dec) π (Spec.fsOf c) o = .ok (some r) ∧ r.map normDb = Spec.expectedDump (varlenaVal dec) c o := by
  obtain ⟨r, hr⟩ := C10.Cluster.C10_total_dumpDataDir (readRows dec) (fun data cols vis => C10.Rows.C10_total_readRows dec htot data cols vis)
    π (Spec.fsOf c) o
  cases r with
  | none =>
    exfalso
    unfold dumpDataDir at hr
    rw [(treeOf_fsOf c hwf.2.2.2.2.2.1 hplain hid hnm).global] at hr
    simp only at hr
    cases hp : parsePGDatabase (readRows dec) (Spec.encHeapOf (Spec.pgDatabaseCols c.pgVersion) (Spec.dbVals c.pgVersion) c.dbs) with
    | error e => simp [hp] at hr
    | ok dbs =>
      simp only [hp, ok_bind] at hr
      cases hc : collectM (dumpDb (readRows dec) π (Spec.fsOf c) o) dbs with
      | error e => simp [hc] at hr
      | ok x => simp [hc] at hr
  | some r => exact ⟨r, hr, C01_dump dec hd π hπ c hwf o htpl hplain hid hnm hdump r hr⟩

/-- **The form checked at run time.**  Family `cluster_dump` evaluates `Model.ClusterHyp.dumpHypB` (the executable form
of the hypotheses `TemplatesByName`, `Plain`, `IdentityMapped`, `NoFastDefaults`, `A02Free` and `DbDumpable`) on every generated cluster and option
combination and tags the case `hyp:dump=ok` when it holds together with the Boolean mirror of `Cluster.WF`; on those cases
the theorem says the model's dump is the specification's.  The cases with `hyp:dump=no` carry the tag of the open finding
they fall under (`kf:C01-TPL`, `kf:A02`, `kf:C01-SEG`, `kf:C01-TBLSPC`, `kf:C01-MAPPED`, `kf:C01-MISSINGVAL`) or a label saying
why the Spec is silent (`hint=wrong`, `case=unicode` / `spec-silent-name`). -/
theorem C01_dump_checked (dec : Dec) (hd : CatDec dec) (π : MapOrder TableInfo) (hπ : ∀ l, π l ~ l) (c : Cluster) (hwf : c.WF)
    (o : Options) (hb : Model.ClusterHyp.dumpHypB c o = true)
    (r : DumpResult) (h : dumpDataDir (readRows dec) π (Spec.fsOf c) o = .ok (some r)) :
    r.map normDb = Spec.expectedDump (varlenaVal dec) c o :=
  C01_dump dec hd π hπ c hwf o (dumpHypB_sound c o hb).1 (dumpHypB_sound c o hb).2.1 (dumpHypB_sound c o hb).2.2.1
    (dumpHypB_sound c o hb).2.2.2.1 (dumpHypB_sound c o hb).2.2.2.2 r h

/-- the decoder the C01 families execute satisfies the decoder hypothesis -/
theorem C01_catDec_local : CatDec LocalDec.dec := catDec_local

/-- **The composed model of the real DecodeType satisfies the decoder hypothesis** (review finding B14): the closed
model `decodeTypeC` (scalar switch + ranges + arrays with elements decoded by DecodeType + numeric + JSONB, Props/C10/Entry.lean)
decodes the seven catalog column types as the catalog logic needs, for every choice of the three library renderers it
leaves abstract. -/
theorem C01_catDec_real (X : PgVerif.Proofs.Entry.Render) : CatDec (C10.Entry.rowsDec X) := catDec_rowsDec X

/-- **C01 with the model of the real value decoder.**  `C01_dump` and `C01_dump_returns` instantiated with
`rowsDec X` = the composed model of types.go:DecodeType: on every cluster and options as in `C01_dump`, DumpDataDir —
catalog parsers, row reader AND value decoder all the models of the real code — returns, and returns the expected dump,
each value rendered by the model of DecodeType applied to the bytes that were stored (what those renderings mean is
C04–C07's business). -/
theorem C01_dump_real (X : PgVerif.Proofs.Entry.Render) (π : MapOrder TableInfo) (hπ : ∀ l, π l ~ l) (c : Cluster) (hwf : c.WF)
    (o : Options) (htpl : Spec.TemplatesByName c) (hplain : c.Plain) (hid : c.IdentityMapped) (hnm : c.NoFastDefaults)
    (hdump : ∀ db ∈ c.dbs.live, Spec.selectedDb o db = true → ∀ d, c.content.lookup db.oid = some d →
      DbDumpable c.layout d o ∧ Spec.A02Free d o) :
    ∃ r, dumpDataDir (readRows (C10.Entry.rowsDec X)) π (Spec.fsOf c) o = .ok (some r) ∧
      r.map normDb = Spec.expectedDump (varlenaVal (C10.Entry.rowsDec X)) c o :=
  C01_dump_returns _ (catDec_rowsDec X) (C10.Entry.rowsDec_total X) π hπ c hwf o htpl hplain hid hnm hdump

/-! ### non-vacuity: a concrete cluster satisfies every hypothesis of `C01_dump` -/

def exAttr (relid : Nat) (num : Int) (name : Bytes) (typid : Nat) (len : Int) (align : Nat) : Spec.Stored AttrRow :=
  ⟨{ relid, name, typid, len, num, align }, 0x0900⟩

def exHeap : List (List Spec.RowV) :=
  [[{ vals := [some (.fixed (le 4 7)), some (.short [97])], natts := 2, infomask := 0x0900 },
    { vals := [some (.fixed (le 4 8)), none], natts := 2, infomask := 0x0500 }]]

def exDb : DbContent :=
  { cls := [[⟨{ oid := 16384, name := [116], kind := 114, filenode := 16390 }, 0x0900⟩]],
    att := [[exAttr 16384 1 [105, 100] 23 4 4, exAttr 16384 2 [110] 25 (-1) 4]],
    heaps := [(16390, exHeap)], raws := [] }

/-- a PostgreSQL 14 cluster: `template1` (no directory) and database `pg` with one table `t (id int4, n text)` holding
one live row (7, 'a') and one dead row (8, NULL) -/
def exCluster : Cluster :=
  { pgVersion := 14,
    dbs := [[⟨{ oid := 1, name := [116, 101, 109, 112, 108, 97, 116, 101, 49], isTemplate := true }, 0x0B00⟩,
             ⟨{ oid := 5, name := [112, 103] }, 0x0900⟩]],
    content := [(5, exDb)] }

set_option maxRecDepth 20000 in
theorem exDb_WF : exDb.WF .v14 := by
  unfold DbContent.WF
  refine ⟨by decide, by decide, by decide, by decide, by decide, by decide, by decide, by decide, by decide, ?_⟩
  intro h hh
  have : h = (16390, exHeap) := by simpa [exDb] using hh
  subst this
  refine ⟨by decide, ?_⟩
  simp only
  refine ⟨by decide, by decide, by decide⟩

set_option maxRecDepth 20000 in
theorem exCluster_WF : exCluster.WF := by
  unfold Cluster.WF
  have hl : Spec.locale = [101, 110, 95, 85, 83, 46, 85, 84, 70, 45, 56] := by unfold Spec.locale; rw [strBytes_eq]; rfl
  refine ⟨by decide, by decide, by decide, by decide, ?_, by decide, ?_⟩
  · simp only [exCluster, Spec.dbVals, hl]
    decide
  intro p hp
  have : p = (5, exDb) := by simpa [exCluster] using hp
  subst this
  exact exDb_WF

/-- **Inline-compressed values are inside the theorems (former half of finding A02, repaired by fixes/rows/09).**  A value
stored compressed in line does not violate `A02Free` (`Spec.inlineDatum` holds for it: only out-of-line values are
excluded), and what the dump must show for it (`Spec.storedVal`, "each value equal to what was stored") is the rendering of
the ORIGINAL bytes its pglz / LZ4 stream stands for — which is what the row's own bytes give through ReadVarlena
(`Spec.expectedVal`, proved against the model in `C03_layout` / `C03_compressed_inline`). -/
theorem C01_compressed_inline (val : Spec.Val) (tbl : List (Spec.Datum × Bytes)) (c : Spec.Col) (z : Spec.Comp) :
    Spec.inlineDatum (some (.compressed z)) = true ∧
    Spec.storedVal val tbl c (.compressed z) = val z.original c.typid ∧
    Spec.expectedVal val c (.compressed z) = val z.original c.typid := ⟨rfl, rfl, rfl⟩

/-- the example database is dumpable without a version hint (automatic choice) and with the true one, for every ASCII
table filter, and no value in it is out of line -/
theorem exDb_dumpable (o : Options) (hv : o.pgVersion = 0 ∨ o.pgVersion = 14) (hf : Spec.asciiB o.tableFilter = true) :
    DbDumpable .v14 exDb o ∧ Spec.A02Free exDb o := by
  refine ⟨⟨?_, GoCase.filterStable_ascii _ _ hf (by decide), ?_, ?_⟩, ?_⟩
  rotate_left 3
  · intro _ r hr _ pages hp pg hpg row hrow
    have hlive : exDb.cls.live = [{ oid := 16384, name := [116], kind := 114, filenode := 16390 }] := by decide
    rw [hlive] at hr
    have : r = { oid := 16384, name := [116], kind := 114, filenode := 16390 } := by simpa using hr
    subst this
    have hp' : pages = exHeap := by
      have : exDb.heaps.lookup 16390 = some exHeap := rfl
      rw [this] at hp; injection hp with hp; exact hp.symm
    subst hp'
    revert row
    revert pg
    decide
  · rcases hv with hv | hv <;> rw [hv]
    · exact Or.inr (Or.inr (Or.inr ⟨by decide, by decide⟩))
    · exact Or.inr (Or.inl ⟨by decide, by decide, rfl⟩)
  · intro r hr _
    have hlive : exDb.cls.live = [{ oid := 16384, name := [116], kind := 114, filenode := 16390 }] := by decide
    rw [hlive] at hr
    have : r = { oid := 16384, name := [116], kind := 114, filenode := 16390 } := by simpa using hr
    subst this
    exact ⟨by decide, by decide, rfl⟩
  · intro r hr _ pages _ _ _
    have hlive : exDb.cls.live = [{ oid := 16384, name := [116], kind := 114, filenode := 16390 }] := by decide
    rw [hlive] at hr
    have : r = { oid := 16384, name := [116], kind := 114, filenode := 16390 } := by simpa using hr
    subst this
    have hu : Spec.userAttrs exDb.att 16384 = [(exAttr 16384 1 [105, 100] 23 4 4).val, (exAttr 16384 2 [110] 25 (-1) 4).val] := by decide
    refine ⟨?_⟩
    show DenseFrom 0 (Spec.userAttrs exDb.att 16384)
    rw [hu]
    exact ⟨rfl, rfl, trivial⟩

example : Spec.TemplatesByName exCluster ∧ exCluster.Plain ∧ exCluster.IdentityMapped ∧ exCluster.NoFastDefaults := by
  refine ⟨?_, by decide, by decide, by decide⟩
  unfold Spec.TemplatesByName Spec.isTemplateName
  simp only [strBytes_eq]
  decide

example (o : Options) (hv : o.pgVersion = 0 ∨ o.pgVersion = 14) (hf : Spec.asciiB o.tableFilter = true) :
    ∀ db ∈ exCluster.dbs.live, Spec.selectedDb o db = true → ∀ d, exCluster.content.lookup db.oid = some d →
      DbDumpable exCluster.layout d o ∧ Spec.A02Free d o := by
  intro db _ _ d hd
  have hlk : ∀ k, exCluster.content.lookup k = some d → d = exDb := by
    intro k hk
    have := lookup_mem_pair _ _ _ hk
    simp only [exCluster, List.mem_singleton, Prod.mk.injEq] at this
    exact this.2
  rw [hlk _ hd]
  exact exDb_dumpable o hv hf

/-- the run-time check accepts the example cluster (no hint; true hint with a table filter `T`) -/
example : Model.ClusterHyp.dumpHypB exCluster {} = true ∧ Model.ClusterHyp.dumpHypB exCluster { pgVersion := 14, tableFilter := [84] } = true := by
  simp only [Model.ClusterHyp.dumpHypB, Model.ClusterHyp.dumpableB, Spec.selectedDb, Spec.TemplatesByName, Spec.isTemplateName,
    Spec.A02Free, Spec.selectedRel, strBytes_eq]
  decide

/-- … and the theorem's right-hand side on it is not trivial: database 5 with table `t`, two columns, one live row
(the dead row and `template1` are not reported) -/
example : ((Spec.expectedDump (fun b _ => pure (.int b.length)) exCluster {}).map fun d =>
      (d.oid, d.tables.map fun t => (t.name, t.columns.length, t.rowCount))) = [(5, [([116], 2, 1)])] := by
  delta Spec.expectedDump Spec.expectedDb Spec.selectedDb Spec.selectedRel
  simp only [strBytes_eq]
  decide

/-! ### the witnesses of the three repaired findings lie inside the theorem

The clusters of the fixed cases 1, 2, 3 of family `cluster_dump` (minus the template database and the bootstrap rows of
pg_attribute, which play no role): before fixes/cluster/08 and 09 each violated a hypothesis of `C01_dump` (`RelReadable.nonempty`,
`SchemaOK`'s first-five-rows clause, `RelReadable.aligned`); now each is well-formed, passes the run-time check, and the
theorem says its dump is the expected one — which holds the rows that used to be lost. -/

def exMiniDb (att : List (Spec.Stored AttrRow)) (heap : List (List Spec.RowV)) : DbContent :=
  { cls := [[⟨{ oid := 16384, name := [116], kind := 114, filenode := 16390 }, 0x0900⟩]],
    att := [att], heaps := [(16390, heap)], raws := [] }

def exMini (pgVersion : Nat) (d : DbContent) : Cluster :=
  { pgVersion, dbs := [[⟨{ oid := 5, name := [112, 103] }, 0x0900⟩]], content := [(5, d)] }

/-- former A01z: `CREATE TABLE t (); INSERT INTO t DEFAULT VALUES` -/
def exA01zHeap : List (List Spec.RowV) := [[{ vals := [], natts := 0, infomask := 0x0900 }]]
def exA01zDb : DbContent := exMiniDb [] exA01zHeap
def exA01z : Cluster := exMini 14 exA01zDb

/-- former A04: a PostgreSQL 16 pg_attribute of two rows, attnum 2 before attnum 1, read without a version hint -/
def exA04Heap : List (List Spec.RowV) := [[{ vals := [some (.fixed (le 4 7)), some (.short [97])], natts := 2, infomask := 0x0900 }]]
def exA04Db : DbContent := exMiniDb [exAttr 16384 2 [110] 25 (-1) 4, exAttr 16384 1 [105, 100] 23 4 4] exA04Heap
def exA04 : Cluster := exMini 16 exA04Db

/-- former A03: a dropped `name` column (atttypid 0, attlen 64, attalign 'c') between a bool and an int4 -/
def exA03Heap : List (List Spec.RowV) :=
  [[{ vals := [some (.fixed [1]), some (.fixed ([111, 108, 100] ++ zeros 61)), some (.fixed (le 4 42))], natts := 3, infomask := 0x0900 }]]
def exA03Db : DbContent :=
  exMiniDb [exAttr 16384 1 [102] 16 1 1,
            ⟨{ relid := 16384, name := [46, 112, 103, 46, 100, 46, 50, 46], typid := 0, len := 64, num := 2, align := 1, dropped := true }, 0x0900⟩,
            exAttr 16384 3 [110] 23 4 4] exA03Heap
def exA03 : Cluster := exMini 14 exA03Db

set_option maxRecDepth 20000 in
theorem exA01zDb_WF : exA01zDb.WF .v14 := by
  unfold DbContent.WF
  refine ⟨by decide, by decide, by decide, by decide, by decide, by decide, by decide, by decide, by decide, ?_⟩
  intro h hh
  have : h = (16390, exA01zHeap) := by simpa [exA01zDb, exMiniDb] using hh
  subst this
  refine ⟨by decide, ?_⟩
  simp only
  refine ⟨by decide, by decide, by decide⟩

set_option maxRecDepth 20000 in
theorem exA01z_WF : exA01z.WF := by
  unfold Cluster.WF
  have hl : Spec.locale = [101, 110, 95, 85, 83, 46, 85, 84, 70, 45, 56] := by unfold Spec.locale; rw [strBytes_eq]; rfl
  refine ⟨by decide, by decide, by decide, by decide, ?_, by decide, ?_⟩
  · simp only [exA01z, exMini, Spec.dbVals, hl]
    decide
  intro p hp
  have : p = (5, exA01zDb) := by simpa [exA01z, exMini] using hp
  subst this
  exact exA01zDb_WF

set_option maxRecDepth 20000 in
theorem exA04Db_WF : exA04Db.WF .v16 := by
  unfold DbContent.WF
  refine ⟨by decide, by decide, by decide, by decide, by decide, by decide, by decide, by decide, by decide, ?_⟩
  intro h hh
  have : h = (16390, exA04Heap) := by simpa [exA04Db, exMiniDb] using hh
  subst this
  refine ⟨by decide, ?_⟩
  simp only
  refine ⟨by decide, by decide, by decide⟩

set_option maxRecDepth 20000 in
theorem exA04_WF : exA04.WF := by
  unfold Cluster.WF
  have hl : Spec.locale = [101, 110, 95, 85, 83, 46, 85, 84, 70, 45, 56] := by unfold Spec.locale; rw [strBytes_eq]; rfl
  refine ⟨by decide, by decide, by decide, by decide, ?_, by decide, ?_⟩
  · simp only [exA04, exMini, Spec.dbVals, hl]
    decide
  intro p hp
  have : p = (5, exA04Db) := by simpa [exA04, exMini] using hp
  subst this
  exact exA04Db_WF

set_option maxRecDepth 20000 in
theorem exA03Db_WF : exA03Db.WF .v14 := by
  unfold DbContent.WF
  refine ⟨by decide, by decide, by decide, by decide, by decide, by decide, by decide, by decide, by decide, ?_⟩
  intro h hh
  have : h = (16390, exA03Heap) := by simpa [exA03Db, exMiniDb] using hh
  subst this
  refine ⟨by decide, ?_⟩
  simp only
  refine ⟨by decide, by decide, by decide⟩

set_option maxRecDepth 20000 in
theorem exA03_WF : exA03.WF := by
  unfold Cluster.WF
  have hl : Spec.locale = [101, 110, 95, 85, 83, 46, 85, 84, 70, 45, 56] := by unfold Spec.locale; rw [strBytes_eq]; rfl
  refine ⟨by decide, by decide, by decide, by decide, ?_, by decide, ?_⟩
  · simp only [exA03, exMini, Spec.dbVals, hl]
    decide
  intro p hp
  have : p = (5, exA03Db) := by simpa [exA03, exMini] using hp
  subst this
  exact exA03Db_WF

/-- the run-time form of the theorem's hypotheses accepts the three former witnesses (no version hint) -/
example : Model.ClusterHyp.dumpHypB exA01z {} = true ∧ Model.ClusterHyp.dumpHypB exA04 {} = true ∧
    Model.ClusterHyp.dumpHypB exA03 {} = true := by
  simp only [Model.ClusterHyp.dumpHypB, Model.ClusterHyp.dumpableB, Spec.selectedDb, Spec.TemplatesByName, Spec.isTemplateName,
    Spec.A02Free, Spec.selectedRel, strBytes_eq]
  decide

/-- **The three former witnesses are dumped correctly.**  On the file trees of the clusters that witnessed A01z (a table
without columns holding a row), A04 (a PostgreSQL 16 pg_attribute that does not begin with attnum 1..5, no version
hint) and A03 (a dropped `name` column before an int4), whenever DumpDataDir returns, its result is the expected dump —
for every scalar decoder that handles the catalog types and every iteration order. -/
theorem C01_former_witnesses (dec : Dec) (hd : CatDec dec) (π : MapOrder TableInfo) (hπ : ∀ l, π l ~ l) (c : Cluster)
    (hc : c = exA01z ∨ c = exA04 ∨ c = exA03) (r : DumpResult) (h : dumpDataDir (readRows dec) π (Spec.fsOf c) {} = .ok (some r)) :
    r.map normDb = Spec.expectedDump (varlenaVal dec) c {} := by
  have hb : Model.ClusterHyp.dumpHypB exA01z {} = true ∧ Model.ClusterHyp.dumpHypB exA04 {} = true ∧
      Model.ClusterHyp.dumpHypB exA03 {} = true := by
    simp only [Model.ClusterHyp.dumpHypB, Model.ClusterHyp.dumpableB, Spec.selectedDb, Spec.TemplatesByName, Spec.isTemplateName,
      Spec.A02Free, Spec.selectedRel, strBytes_eq]
    decide
  rcases hc with rfl | rfl | rfl
  · exact C01_dump_checked dec hd π hπ _ exA01z_WF {} hb.1 r h
  · exact C01_dump_checked dec hd π hπ _ exA04_WF {} hb.2.1 r h
  · exact C01_dump_checked dec hd π hπ _ exA03_WF {} hb.2.2 r h

/-- … and what is expected holds the rows that used to be lost: one empty row for the table without columns; two
columns and one row for the PostgreSQL 16 table; three columns and one row of three values for the third -/
example : ((Spec.expectedDump (fun b _ => pure (.int b.length)) exA01z {}).map fun d =>
      d.tables.map fun t => (t.columns.length, t.rowCount, t.rows.map (·.length))) = [[(0, 1, [0])]] ∧
    ((Spec.expectedDump (fun b _ => pure (.int b.length)) exA04 {}).map fun d =>
      d.tables.map fun t => (t.columns.map (·.name), t.rowCount)) = [[([[105, 100], [110]], 1)]] ∧
    ((Spec.expectedDump (fun b _ => pure (.int b.length)) exA03 {}).map fun d =>
      d.tables.map fun t => (t.columns.length, t.rowCount, t.rows.map (·.length))) = [[(3, 1, [3])]] := by
  delta Spec.expectedDump Spec.expectedDb Spec.selectedDb Spec.selectedRel
  simp only [strBytes_eq]
  refine ⟨?_, ?_, ?_⟩
  · decide
  · decide
  · decide

#print axioms C01_rowcount
#print axioms C01_dump_partial
#print axioms C01_rowcount_files
#print axioms C01_listonly_norows
#print axioms C01_listonly
#print axioms C01_class_reader
#print axioms C01_tables
#print axioms C01_attributes
#print axioms C01_layout_choice
#print axioms C01_layout_choice_shared
#print axioms C01_attalign
#print axioms C01_typenames
#print axioms C01_columns
#print axioms C01_databases
#print axioms C01_rows
#print axioms C01_dump
#print axioms C01_dump_returns
#print axioms C01_dump_checked
#print axioms C01_catDec_real
#print axioms C01_dump_real
#print axioms exCluster_WF
#print axioms C01_former_witnesses

end PgVerif.Props.C01
