/-
  C01 — end-to-end dump reproduces the cluster's logical content (pgdump.go + catalog.go; the tree after
  fixes/rows/01..05 and fixes/cluster/01).

  The model is parametric in the row reader `rr` (heap.go:ReadRows, area `rows`, whose refinement theorem is
  C03_file): the theorems here are about the catalog / filter / join / dump logic on top of ANY row reader.
-/
import PgVerif.Proofs.ClusterClass
namespace PgVerif.Props.C01
open PgVerif PgVerif.Model PgVerif.Proofs PgVerif.Proofs.Cluster List
open PgVerif.Spec (TableDump DatabaseDump DumpResult Options)

/-- **The reported row count always equals the number of rows returned** — for every row reader, every file
tree (well-formed or garbage), every iteration order and all options. -/
theorem C01_rowcount (rr : RowReader) (π : MapOrder TableInfo) (fs : Bytes → Option Bytes) (o : Options)
    (r : DumpResult) (h : dumpDataDir rr π fs o = .ok (some r)) :
    ∀ d ∈ r, ∀ t ∈ d.tables, t.rowCount = t.rows.length := by
  intro d hd t ht
  obtain ⟨cd, ad, reader, hf⟩ := dbs_from_files rr π fs o r h d hd
  obtain ⟨fn, info, attrs, hdt⟩ := tables_from_dumpTable rr π cd ad reader o d.tables hf t ht
  exact (dumpTable_shape rr fn info attrs reader o t hdt).2.2.2.2.2.1

/-- the same for the custom-file-reader entry point -/
theorem C01_rowcount_files (rr : RowReader) (π : MapOrder TableInfo) (cd ad : Bytes) (reader : Option FileReader)
    (o : Options) (ts : List TableDump) (h : dumpDatabaseFromFiles rr π cd ad reader o = .ok ts) :
    ∀ t ∈ ts, t.rowCount = t.rows.length := by
  intro t ht
  obtain ⟨fn, info, attrs, hdt⟩ := tables_from_dumpTable rr π cd ad reader o ts h t ht
  exact (dumpTable_shape rr fn info attrs reader o t hdt).2.2.2.2.2.1

/-- **Schema-only mode returns no rows**: with ListOnly every table has `Rows = nil` and `RowCount = 0`. -/
theorem C01_listonly_norows (rr : RowReader) (π : MapOrder TableInfo) (fs : Bytes → Option Bytes) (o : Options)
    (hl : o.listOnly = true) (r : DumpResult) (h : dumpDataDir rr π fs o = .ok (some r)) :
    ∀ d ∈ r, ∀ t ∈ d.tables, t.rows = [] ∧ t.rowCount = 0 := by
  intro d hd t ht
  obtain ⟨cd, ad, reader, hf⟩ := dbs_from_files rr π fs o r h d hd
  obtain ⟨fn, info, attrs, hdt⟩ := tables_from_dumpTable rr π cd ad reader o d.tables hf t ht
  have hs := dumpTable_shape rr fn info attrs reader o t hdt
  have hr := hs.2.2.2.2.2.2 hl
  exact ⟨hr, by rw [hs.2.2.2.2.2.1, hr]; rfl⟩

/-- **Schema-only mode returns the same tables and columns**: whenever the full dump of a database's files
returns, the ListOnly dump returns the same tables in the same order with the same oid, name, filenode, kind
and columns, and no rows. -/
theorem C01_listonly (rr : RowReader) (π : MapOrder TableInfo) (cd ad : Bytes) (reader : Option FileReader)
    (o : Options) (ts : List TableDump) (h : dumpDatabaseFromFiles rr π cd ad reader o = .ok ts) :
    dumpDatabaseFromFiles rr π cd ad reader { o with listOnly := true } = .ok (ts.map stripRows) := by
  unfold dumpDatabaseFromFiles at h ⊢
  cases h1 : parsePGClass rr cd with
  | error e => simp [h1] at h
  | ok tables =>
    cases h2 : parsePGAttribute rr ad o.pgVersion with
    | error e => simp [h1, h2] at h
    | ok attrs =>
      simp only [h1, h2, ok_bind] at h ⊢
      apply collectM_map_result _ _ stripRows _ _ h
      intro fn _ y hy
      unfold dumpOne at hy ⊢
      cases hg : mapGet tables fn with
      | none =>
        simp only [hg] at hy ⊢
        injection hy with hy; subst hy; rfl
      | some info =>
        simp only [hg] at hy ⊢
        by_cases hk : keepTable o info = true
        · rw [if_pos hk] at hy
          rw [if_pos (show keepTable { o with listOnly := true } info = true from hk)]
          cases hd : dumpTable rr fn info ((mapGet attrs info.oid).getD []) reader o with
          | error e => simp [hd] at hy
          | ok t =>
            simp only [hd, ok_bind, pure_eq_ok] at hy
            injection hy with hy; subst hy
            rw [dumpTable_listOnly rr fn info _ reader o t hd]
            rfl
        · rw [if_neg hk] at hy
          rw [if_neg (show ¬ keepTable { o with listOnly := true } info = true from hk)]
          injection hy with hy; subst hy; rfl

/-- **Every ordinary user table that passes the filters, exactly once** (the pg_class half of `C01_dump`).
For every database content `d`, if the row reader hands ParsePGClass the live pg_class rows of `d` (as far as oid,
relname, relfilenode and relkind go — what C03_file gives for the encoded catalog) and `d` is well-formed (live
rows with storage have pairwise distinct filenodes, relkind is a byte), then the tables DumpDatabaseFromFiles
returns are, with their oid, name, filenode and kind, exactly the tables of the specification's expected dump
`Spec.expectedDb`: relkind `r`, relfilenode ≠ 0, not `pg_`-prefixed when skipping system tables, containing the
lower-cased filter — each once, dead row versions ignored, in the same (filenode) order; for every iteration order
of Go's table map, every pg_attribute content, every file reader and all options.

`_partial`: the full `C01_dump` also equates each table's columns (join of pg_attribute by relation oid, attnum > 0
in attnum order, layout detection) and rows (`Spec.expectedTable`) with the model's.  Those two parts are checked at
run time on every generated cluster (family `cluster_dump`: model = spec outside the recorded classes A01z, A03,
A04) and, at the row level, proved by area `rows` (`C03_file`); they are not proved here. -/
theorem C01_dump_partial (rr : RowReader) (π : MapOrder TableInfo) (hπ : ∀ l, π l ~ l) (val : Spec.Val) (o : Options)
    (db : Spec.DbRow) (d : Spec.DbContent) (cd ad : Bytes) (reader : Option FileReader) (rows : List Row)
    (hr : rr cd schemaPGClass true = .ok rows) (hrows : rows.map infoOfRow = d.cls.live.map infoOfRel)
    (hnd : ((d.cls.live.filter (·.filenode != 0)).map (·.filenode)).Nodup) (hkind : ∀ r ∈ d.cls.live, r.kind < 256)
    (ts : List TableDump) (h : dumpDatabaseFromFiles rr π cd ad reader o = .ok ts) :
    ts.map tableKey = (Spec.expectedDb val o db d).tables.map tableKey := by
  rw [dump_tables_of_live rr π hπ cd ad reader o rows d.cls.live hr hrows hnd hkind ts h, expectedDb_keys]

/-- the decidable side conditions of `C01_dump_partial` hold for a small pg_class (a table, an index, a view).  The
reader hypothesis `hrows` (an equation between association lists keyed by string literals, which the kernel does
not evaluate) is re-checked at run time on every generated cluster instead: family `cluster_dump` tags each case
`hyp:class=ok` when `Model.readRows` applied to the encoded pg_class satisfies it, and `hyp:class=FAIL` otherwise
(counts are in the evidence histogram). -/
example :
    let live : List Spec.ClassRow := [{ oid := 16384, name := [116], kind := 114, filenode := 16390 },
                                      { oid := 16387, name := [105], kind := 105, filenode := 16387 },
                                      { oid := 16388, name := [118], kind := 118, filenode := 0 }]
    ((live.filter (·.filenode != 0)).map (·.filenode)).Nodup ∧ ∀ r ∈ live, r.kind < 256 := by
  refine ⟨by decide, by decide⟩

#print axioms C01_rowcount
#print axioms C01_dump_partial
#print axioms C01_rowcount_files
#print axioms C01_listonly_norows
#print axioms C01_listonly

end PgVerif.Props.C01
