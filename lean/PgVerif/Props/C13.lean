/-
  C13 — SQL and CSV exports cannot be broken or hijacked by stored data.
  Property theorems only; helper lemmas are in Proofs/SqlLex.lean, Proofs/CsvParse.lean, Proofs/ExportJson.lean.

  Spec side: `Spec.SqlLex` (PostgreSQL's lexer for text that reads the same with standard_conforming_strings on and off:
  a plain '…' constant holding a backslash has no setting-independent reading and is REFUSED; `E'…'` is read in scan.l's
  state xe under both settings; `next` recognises one token), `Spec.SqlExport` (which token sequence a dump must produce:
  every name and value exactly one token — or the fixed group of a signed number / ARRAY[…] — that decodes back; the
  statement forms are those PostgreSQL's grammar accepts: column lists, value lists and ARRAY[…] are never empty, a table
  without columns gets `INSERT … DEFAULT VALUES`, the empty array is '{}'), `Spec.Json` (RFC 8259), `Spec.Csv` (RFC 4180
  reader that, like the usual readers, skips empty lines), `Spec.CsvExport`.
  Model side: `Model.Export` = sql.go and csv.go after fixes/export 01–15.
  `Spec.SqlLex` refuses a NUL byte anywhere (fix 15): the scanner's input is a C string, psql drops the rest of a line after a
  NUL; `Spec.SqlExport.value F T` checks a value against the column type T: in an array-typed column the elements are values
  of pg_type's element type and the constructor is cast to the array type (fix 14).
  The per-token theorems are the injection-safety content: whatever bytes a stored name or value consists of, the
  lexer's token ends exactly where the tool's text for it ends, and decodes to the original.
  Assumptions that remain (not settings the dump can control): the text is read in an encoding in which the bytes `'` `"`
  `\` and the line ends never occur inside a multi-byte character (true of UTF-8 and of every PostgreSQL server encoding;
  not of the client-only encodings SJIS, BIG5, GBK, UHC, GB18030, JOHAB); names are at most 63 bytes (NAMEDATALEN).
-/
import PgVerif.Proofs.SqlLex
import PgVerif.Proofs.CsvParse
import PgVerif.Proofs.ExportJson
import PgVerif.Proofs.SqlDump
import PgVerif.Proofs.CsvKept
namespace PgVerif.Props.C13
open PgVerif PgVerif.Export PgVerif.Model.Export PgVerif.Proofs
open PgVerif.Spec.SqlLex (next next0 Tok)

/-- Identifiers: for EVERY non-empty byte string `n` without a NUL byte (pgread reads names with cstring(): a name ends at its
first NUL, so no stored name holds one; quotes, backslashes, dollars, semicolons, comment markers, line
breaks, control characters, upper case, key words, leading digits, non-ASCII …) the text `quoteIdent n`, followed by
anything that cannot continue an identifier (the tool writes a space, a comma or a parenthesis), is read by PostgreSQL's
lexer as exactly ONE token that ends exactly where `quoteIdent n` ends, and that token is the name `n`: a quoted
identifier with content `n`, or the bare word `n` where `n` is neither case-folded nor a key word PostgreSQL refuses as
a table or column name. -/
theorem C13_ident (n rest : Bytes) (hn : n ≠ []) (h0 : (0 : UInt8) ∉ n) (hb : SqlLex.IdentBoundary rest) :
    ∃ tok, next (quoteIdent n ++ rest) = some (some tok, rest) ∧ Spec.SqlExport.isName n tok = true :=
  SqlLex.next_quoteIdent n rest hn h0 hb

/-- String literals: for EVERY byte string `s` — NUL bytes included — the text `quoteLiteral s` (the string up to its first
NUL; `'…'` with quotes doubled when that has no backslash, `E'…'` with quotes and backslashes doubled when it has one),
followed by the end of input or by any byte that is not a quote, white space or a dash (the tool writes `,` `)` `]` or `:`),
is read as exactly one string constant whose value is `cstr s` — the C string PostgreSQL's own output functions deliver for
the datum (`C13_literal_value`: `s` itself when it holds no NUL) — ending exactly where the tool's text ends: no content can
close the literal early or extend it.  The lexer refuses a NUL anywhere (`C13_nul_refused`: the text written before fix 15
does not pass).  Because `Spec.SqlLex`
refuses every plain constant that holds a backslash and reads `E'…'` as scan.l does under both settings, this holds
whether the session that runs the dump has standard_conforming_strings on or off (`C13_plain_backslash_refused` shows
that the text written before fix 11 does not pass). -/
theorem C13_literal (s rest : Bytes) (hb : SqlLex.StrBoundary rest) :
    next (quoteLiteral s ++ rest) = some (some (.str (cstr s)), rest) :=
  SqlLex.next_quoteLiteral s rest hb

/-- the value of the constant: the string itself when it holds no NUL; in every case a prefix of it that holds no NUL and is
followed, in `s`, by a NUL or by nothing (the C string) -/
theorem C13_literal_value (s : Bytes) :
    ((0 : UInt8) ∉ s → cstr s = s) ∧ (0 : UInt8) ∉ cstr s ∧ (s = cstr s ∨ ∃ t, s = cstr s ++ 0 :: t) := by
  refine ⟨SqlLex.cstr_of_noNul s, SqlLex.cstr_noNul s, ?_⟩
  unfold cstr
  induction s with
  | nil => left; rfl
  | cons c s ih =>
    by_cases hc : c = 0
    · right; exact ⟨s, by simp [List.takeWhile, hc]⟩
    · have : (c != 0) = true := by simpa using hc
      simp only [List.takeWhile, this]
      rcases ih with h | ⟨t, h⟩
      · left; rw [← h]
      · right; exact ⟨t, by rw [List.cons_append, ← h]⟩

/-- The specification does not accept what fix 15 repaired: the constant written for a string that holds a NUL WITHOUT
cutting it (quotes doubled, `E'…'` when there is a backslash — the text before the fix) is refused by the lexer whatever
follows, e.g. `'<NUL>'` for the "char" value 0. -/
theorem C13_nul_refused (s rest : Bytes) (hs : (0 : UInt8) ∈ s) (hb : SqlLex.StrBoundary rest) :
    next (SqlLex.quoteLit s ++ rest) = none := by
  apply SqlLex.next_nul _ _ _ (SqlLex.next0_quoteLit s rest hb)
  unfold SqlLex.quoteLit
  have hmem : ∀ f : UInt8 → Bytes, f 0 = [0] → (0 : UInt8) ∈ s.flatMap f := fun f hf =>
    List.mem_flatMap.mpr ⟨0, hs, by rw [hf]; simp⟩
  split
  · simp only [List.mem_cons, List.mem_append]
    right; right; left; exact hmem _ (by decide)
  · simp only [List.mem_cons, List.mem_append]
    right; left; exact hmem _ (by decide)

/-- the hypotheses of `C13_nul_refused` hold for the "char" value 0 followed by `)`, and the conclusion evaluated on it: the
text `'<NUL>')` written before fix 15 does not tokenise, the text `'')` written now does -/
example : (0 : UInt8) ∈ ([0] : Bytes) ∧ SqlLex.StrBoundary [41] ∧ next ([39, 0, 39, 41] : Bytes) = none ∧
    next (quoteLiteral [0] ++ [41]) = some (some (.str []), [41]) := by
  refine ⟨by decide, ?_, by decide +kernel, by decide +kernel⟩
  intro c hc; simp at hc; subst hc; decide

/-- The specification does not accept what fix 11 repaired: a plain constant `'…'` (quotes doubled, nothing else) of a
string that holds a backslash is refused by the lexer whatever follows — e.g. the value `\'; DROP TABLE x; --`, which with
standard_conforming_strings = off is the string `'` followed by a live `DROP TABLE`. -/
theorem C13_plain_backslash_refused (s rest : Bytes) (hs : 92 ∈ s) (hb : SqlLex.StrBoundary rest) :
    next (39 :: (escapeQ 39 s ++ [39]) ++ rest) = none := by
  apply SqlLex.next_none_of_next0
  have hr : rest.head? ≠ some 39 := by intro h; exact (hb 39 h).1 rfl
  have h39 : Spec.SqlLex.isSpace 39 = false := by decide
  simp only [List.cons_append, List.append_assoc, List.nil_append, next0, h39]
  simp only [show ((39 : UInt8) = 45) = False by decide, show ((39 : UInt8) = 47) = False by decide, false_and, if_false,
    Bool.false_eq_true, if_true]
  rw [SqlLex.scanQuoted_escape 39 s rest hr]
  simp [hs]

/-- the hypotheses of `C13_plain_backslash_refused` hold for the witness value `\';` followed by `)`, and the conclusion
evaluated on it: the text `'\'';')` written before fix 11 does not tokenise -/
example : (92 : UInt8) ∈ ([92, 39, 59] : Bytes) ∧ SqlLex.StrBoundary [41] ∧ next (Spec.SqlLex.asc "'\\'';')") = none := by
  refine ⟨by decide, ?_, by decide +kernel⟩
  intro c hc; simp at hc; subst hc; decide

/-- Comment lines: for EVERY name `s`, prefix and suffix without line breaks and NUL bytes, the line `--` prefix commentText(s) suffix
followed by a line break is read as exactly one comment token that stops at that line break (the name cannot end the
comment: no CR or LF survives `commentText`), and the token decodes back to `s` under the convention `\\` `\n` `\r`. -/
theorem C13_comment (pre s suf rest : Bytes) (hp : ∀ c ∈ pre, Spec.SqlLex.isNewline c = false ∧ c ≠ 0)
    (hs : ∀ c ∈ suf, Spec.SqlLex.isNewline c = false ∧ c ≠ 0) (h0 : (0 : UInt8) ∉ s) :
    next (45 :: 45 :: (pre ++ commentText s ++ suf) ++ 10 :: rest) = some (some (.comment (pre ++ commentText s ++ suf)), 10 :: rest) ∧
    Spec.SqlExport.isNameComment pre s suf (.comment (pre ++ commentText s ++ suf)) = true := by
  refine ⟨SqlLex.next_comment _ _ ?_ ?_ (by intro c hc; simp at hc; subst hc; decide), SqlLex.isNameComment_ok pre s suf⟩
  · intro c hc
    simp only [List.mem_append] at hc
    rcases hc with (h | h) | h
    · exact (hp c h).1
    · exact SqlLex.commentText_noNewline s c h
    · exact (hs c h).1
  · intro hc
    simp only [List.mem_append] at hc
    rcases hc with (h | h) | h
    · exact (hp 0 h).2 rfl
    · exact SqlLex.commentText_noNul s h0 h
    · exact (hs 0 h).2 rfl

/-- JSON: for every map (any nesting of arrays and maps, hostile keys and strings with quotes, backslashes, control
characters, NaN and infinite floats) the text of `mapToJSON` is valid JSON (RFC 8259) and its value is the map: keys and
strings byte for byte, integers by their decimal text, NaN/±Inf as quoted strings, members in the given (sorted) order.
`FloatOK F` is the contract on the library's `%v` for floats (a parameter of the model): finite values print as JSON
numbers, NaN/±Inf as exactly "NaN" / "+Inf" / "-Inf". -/
theorem C13_json (F : FloatFmt) (hF : ExportJson.FloatOK F) (kvs : List (Bytes × GoVal)) :
    ∃ j, Spec.Json.parse (mapToJSON F kvs) = some j ∧ Spec.Json.agrees F (.obj kvs) j = true := by
  refine ⟨ExportJson.jsonOf F (.obj kvs), ?_, ExportJson.agrees_jsonOf F hF (.obj kvs)⟩
  have := ExportJson.parse_value F hF (.obj kvs)
  simpa [writeJSONValue, mapToJSON] using this

/-- the same as one Boolean: the spec's check of a JSON string token succeeds on the tool's text -/
theorem C13_json_check (F : FloatFmt) (hF : ExportJson.FloatOK F) (kvs : List (Bytes × GoVal)) :
    Spec.Json.textAgrees F (.obj kvs) (mapToJSON F kvs) = true :=
  ExportJson.textAgrees_mapToJSON F hF kvs

/-- Values: for EVERY type oid `typID` (the column's type) and EVERY cell value — NULL, booleans, integers of any sign, floats
(finite, NaN, ±Inf), strings of any bytes (NUL included), arrays nested to any depth (empty ones included), maps with hostile
keys — the text of `formatSQLValue` for that typID, followed by a comma, `)` or `]`, is read by PostgreSQL's lexer as exactly
the tokens `valueToks` and nothing of what follows is consumed; and the spec's decoder for a value of type `typID`
(`Spec.SqlExport.value`: NULL ⇔ nil; for json/jsonb ONE string constant holding valid JSON equal to the value; otherwise
TRUE/FALSE, `-`? number with the decimal text, one string constant with the bytes up to the first NUL, one string constant
holding valid JSON equal to the map, the string constant '{}' for the empty array, and ARRAY [ … ] with AT LEAST ONE element —
where, when `typID` is an array type of pg_type, every element is decoded as a value of pg_type's ELEMENT type (a jsonb[]
element is a JSON document in one string constant) and the constructor is followed by the cast `::typname`, so that NaN / ±Inf
in a float8[] / float4[] / numeric[] array and the elements of uuid[] / date[] / inet[] … arrays are read by the element
type's input function) accepts exactly these tokens.  The Spec's element types and type names are pg_type's
(`C13_array_types` ties pgread's tables to them).  `FloatOK`/`FloatSqlOK` are the contracts on the library's `%v` of floats. -/
theorem C13_value (F : FloatFmt) (hF : ExportJson.FloatOK F) (hS : SqlValue.FloatSqlOK F) (typID : Int) (v : GoVal) :
    (∀ rest : Bytes, SqlValue.closeB rest.head? →
      Spec.SqlLex.lex (formatSQLValue F typID v ++ rest) = (Spec.SqlLex.lex rest).map (SqlValue.valueToks F typID v ++ ·)) ∧
    ∀ more, Spec.SqlExport.value F typID v (SqlValue.valueToks F typID v ++ more) = some more :=
  ⟨SqlValue.reads_value F hS v typID typID (SqlArrayTypes.Pair.self typID),
   SqlValue.value_valueToks F hF v typID typID (SqlArrayTypes.Pair.self typID)⟩

/-- pgread's array type tables against PostgreSQL's catalog (`Spec.SqlExport.pgArrayTypes`, from pg_type.dat): the array
types pgread decodes (the keys of types.go:arrayElemTypes, read from the source on every run) are exactly the array types in
the Spec's scope; the element type is pg_type's typelem for every one of them except `_regproc` (1008: regproc, read as oid —
the same 4-byte representation, neither JSON nor an array); the table is what the executed code shows of it (for every oid in
-2..5999: is the cell [true] written with a cast, with which text, and is the element written as JSON text); and for every
array type the cast the code writes is ONE bare word that PostgreSQL folds to pg_type's typname. -/
theorem C13_array_types :
    Generated.Export.arrayElemTypes.map (·.1) = Spec.SqlExport.pgArrayTypes.map (·.1) ∧
    (∀ p ∈ Generated.Export.arrayElemTypes, (Spec.SqlExport.arrayType p.1).map (·.1) = some p.2 ∨
      (p.1 = 1008 ∧ p.2 = 26 ∧ (Spec.SqlExport.arrayType 1008).map (·.1) = some 24)) ∧
    Generated.Export.arrayCastProbe.map (fun e => (e.1, PgVerif.Export.asc e.2.1, e.2.2)) =
      Generated.Export.arrayElemTypes.map (fun p => (p.1, arrayCast p.1, isJsonOid p.2)) ∧
    (∀ ty ∈ Spec.SqlExport.pgArrayTypes.map (·.1),
      (Spec.SqlExport.arrayType ty).map (·.2) = some (Spec.SqlLex.fold (pgTypeToSQL (typeName ty) ty)) ∧
      arrayCast ty = PgVerif.Export.asc "::" ++ pgTypeToSQL (typeName ty) ty) := by
  refine ⟨SqlArrayTypes.gen_keys, SqlArrayTypes.elemTypes_typelem, SqlArrayTypes.probe_model, ?_⟩
  intro ty hty
  have hok := List.all_eq_true.mp SqlArrayTypes.keys_ok ty hty
  simp only [SqlArrayTypes.keyOK, Bool.and_eq_true, beq_iff_eq] at hok
  obtain ⟨⟨⟨⟨⟨h1, _⟩, h3⟩, _⟩, _⟩, _⟩ := hok
  obtain ⟨em, hem⟩ := Option.isSome_iff_exists.mp h3
  exact ⟨h1, by simp [arrayCast, hem]⟩

/-- Whole export (composition): for every dump whose database, table and column names hold no NUL byte (pgread reads names with
cstring()), whose table and column names are non-empty and whose column type texts read as bare words (`DumpOK`; true of
every type text pgread itself produces, see `C13_types`; tables may have no columns, no rows, or both), and every timestamp
text without a line break or NUL, the text of DumpResult.ToSQL tokenises under PostgreSQL's
lexer — the same way with standard_conforming_strings on and off — and the token sequence is exactly the one the property
demands (`Spec.SqlExport.checkDump` consumes it entirely): per database two comments carrying name and OID, per table a
comment, CREATE TABLE IF NOT EXISTS name ( column type, … ) ; and, for a table with columns and rows,
INSERT INTO name ( columns ) VALUES ( cells ), … ; with no empty list anywhere; for a table with rows but no columns
INSERT INTO name DEFAULT VALUES ; once per row.  Every database, table and column name and every value is exactly one
comment / identifier / literal token (or the fixed group of a signed number or of ARRAY[…] with at least one element) that
decodes back to the original (strings up to their first NUL), NULLs stay NULL, maps are valid JSON, and every cell is a value
of its column's type in the sense of `C13_value` (array elements typed by pg_type's element type, the constructor cast).
What "well-formed statement" means here is the token skeleton above, written from PostgreSQL's grammar (gram.y:
OptTableElementList may be empty; insert_column_list, the rows of VALUES and the element list of ARRAY[…] may not);
PostgreSQL's parser itself is not in the loop, and type checking of the values against the column types is not part of it. -/
theorem C13_sql (F : FloatFmt) (hF : ExportJson.FloatOK F) (hS : SqlValue.FloatSqlOK F) (now : Bytes)
    (hnow : ∀ c ∈ now, Spec.SqlLex.isNewline c = false ∧ c ≠ 0) (d : DumpResult) (ok : SqlDump.DumpOK d) :
    Spec.SqlExport.sqlSafe F d (toSQL F now d) = true := by
  unfold Spec.SqlExport.sqlSafe Spec.SqlExport.verdict
  rw [SqlDump.lex_toSQL F hS now hnow d ok]
  simp only [SqlDump.checkDump_dumpToks F hF now d ok]
  rfl

/-- the token sequence itself -/
theorem C13_sql_tokens (F : FloatFmt) (hS : SqlValue.FloatSqlOK F) (now : Bytes)
    (hnow : ∀ c ∈ now, Spec.SqlLex.isNewline c = false ∧ c ≠ 0) (d : DumpResult) (ok : SqlDump.DumpOK d) :
    Spec.SqlLex.lex (toSQL F now d) = some (SqlDump.dumpToks F now d) :=
  SqlDump.lex_toSQL F hS now hnow d ok

/-- One table on its own (TableDump.ToSQL), whatever text follows it. -/
theorem C13_sql_table (F : FloatFmt) (hF : ExportJson.FloatOK F) (hS : SqlValue.FloatSqlOK F) (t : TableDump) (ok : SqlTable.TableOK t) :
    (∀ rest : Bytes, Spec.SqlLex.lex (tableToSQL F t ++ rest) = (Spec.SqlLex.lex rest).map (SqlTable.tableToks F t ++ ·)) ∧
    ∀ more, Spec.SqlExport.table F t (SqlTable.tableToks F t ++ more) = some more :=
  ⟨fun rest => SqlTable.reads_table F hS t ok rest trivial, SqlTable.table_tableToks F hF t ok⟩

/-- The hypothesis of `C13_sql` on column types holds for every column pgread fills itself: for every type oid, the type
text written for (TypeName(oid), oid) — from the switch of pgTypeToSQL, or the upper-cased type name, or TEXT — reads as
one or more bare words. -/
theorem C13_types (oid : Int) : SqlTable.TypeTextOK (pgTypeToSQL (SqlDump.typeNameOf oid) oid) :=
  SqlDump.pgread_types_ok oid

/-- CSV, one table: for every table with at least one column (and whose header is not a single empty name) and ANY cell
texts — commas, quotes, CR, LF, leading spaces, empty strings, NULLs — an RFC 4180 reader (`Spec.Csv`, which keeps CR LF
inside quoted fields and skips empty lines) gets back exactly the header of column names followed by one record per row
whose fields are the texts csv.go chose for the cells (`cellCSV`: this theorem is about the FRAMING — no cell text can add,
drop or split a field or a record; which text stands for a value is csv.go's choice: NULL and the empty string are both
the empty field, and a cell whose array/map holds a NaN or infinite float is the empty field because json.Marshal fails).
(Includes the one-column rows with an empty field, which the unfixed code wrote as empty lines.) -/
theorem C13_csv (F : FloatFmt) (t : TableDump) (hc : t.columns ≠ []) (hh : t.columns.map (·.name) ≠ [[]]) :
    Spec.Csv.parse (tableToCSV F t) = some (t.columns.map (·.name) :: t.rows.map fun r => t.columns.map (cellCSV F r)) := by
  rw [CsvParse.tableToCSV_lines F t hc hh]
  apply CsvParse.parse_lines
  intro r hr
  simp only [CsvParse.expectedRecords, List.mem_cons, List.mem_map] at hr
  rcases hr with h | ⟨row, _, h⟩
  · subst h; simpa using hc
  · subst h; simpa using hc

/-- CSV, no value is dropped: the only cells written as the EMPTY field are NULL (nil, or a missing key) and the empty string.
Every boolean, number, non-empty string, array and map has a non-empty field text — for arrays and maps the text of
json.Marshal, or, when Marshal refuses the value because it holds a NaN or infinite float, the text of sql.go's JSON writer
(before fix 13 such a cell was silently written as the empty field, i.e. read back as NULL).  So the records of `C13_csv`
satisfy the spec's `valuesKept`.  `FloatOK F`: the contract on `%v` of floats (never the empty text). -/
theorem C13_csv_value_kept (F : FloatFmt) (hF : ExportJson.FloatOK F) :
    (∀ v : GoVal, formatCSVValue F v = [] → v = .nil ∨ v = .str []) ∧
    ∀ t : TableDump, Spec.CsvExport.valuesKept t (t.columns.map (·.name) :: t.rows.map fun r => t.columns.map (cellCSV F r)) = true :=
  ⟨CsvKept.formatCSVValue_nil F hF, CsvKept.valuesKept_model F hF⟩

/-- CSV, whole dump: the export is the concatenation, database by database and table by table, of one header line, the
table's CSV and one empty line; the header line is a single line (no name can break it), and the database and table names
are ONE OF its decodings (`headerOK` tries every occurrence of `, Table: ` as the separator: when the database name itself
contains `, Table: ` the line has several readings — (`a, Table: b`, `c`) and (`a`, `b, Table: c`) give the same line — so
the header does not identify the pair uniquely; the property asks only for the concatenation). -/
theorem C13_csv_multi (F : FloatFmt) (d : DumpResult) :
    toCSV F d = d.flatMap (fun db => db.tables.flatMap fun t => CsvParse.headerLine db.name t.name ++ [10] ++ tableToCSV F t ++ [10]) ∧
    ∀ db t : Bytes, (∀ c ∈ CsvParse.headerLine db t, (c == 10 || c == 13) = false) ∧
      Spec.CsvExport.headerOK db t (CsvParse.headerLine db t) = true := by
  constructor
  · rfl
  · intro db t
    exact ⟨CsvParse.headerLine_noNewline db t, CsvParse.headerOK_headerLine db t⟩

/-- CSV, whole dump, read back: a reader that takes the export section by section — one header line, then as many records
as the table has rows plus its header (skipping empty lines as standard readers do), then the empty separator line — finds,
for every database and table in order, a header line that decodes to the two names and exactly the table's records with the
same field texts, and nothing is left over.  (Tables without columns contribute a header line and no records.) -/
theorem C13_csv_sections (F : FloatFmt) (d : DumpResult) (h : ∀ db ∈ d, ∀ t ∈ db.tables, t.columns.map (·.name) ≠ [[]]) :
    Spec.CsvExport.sectionsVerdict (CsvParse.sectionsOf F d) (toCSV F d) = "ok" :=
  CsvParse.dump_sections_ok F d h

/-- non-vacuity of the hypotheses: a hostile name, a boundary the tool really writes, a table with a column -/
example : ([97, 59, 34, 10] : Bytes) ≠ [] ∧ SqlLex.IdentBoundary [32, 40] ∧ SqlLex.StrBoundary [44, 32] ∧ SqlLex.StrBoundary [] := by
  refine ⟨by decide, ?_, ?_, ?_⟩
  · intro c hc; simp at hc; subst hc; decide
  · intro c hc; simp at hc; subst hc; decide
  · intro c hc; simp at hc

/-- a concrete one-column table with an empty string, a missing value and a field full of separators: the hypotheses of
`C13_csv` hold, and the reader gets four records (evaluated, not just implied) -/
example :
    let t : TableDump := { name := [116], columns := [{ name := [99], type := [], typID := 25 }],
                           rows := [[([99], .str [])], [], [([99], .str [97, 44, 34, 10])]], rowCount := 3 }
    t.columns ≠ [] ∧ t.columns.map (·.name) ≠ [[]] ∧
    Spec.Csv.parse (tableToCSV SqlDump.exampleF t) = some [[[99]], [[]], [[]], [[97, 44, 34, 10]]] := by
  decide

/-- `valuesKept` has teeth: the records the code produced BEFORE fix 13 for a cell holding the array [1.5, NaN] (the empty
field) are rejected, the records after it are accepted -/
example :
    let t : TableDump := { name := [116], columns := [{ name := [97], type := [], typID := 1022 }, { name := [98], type := [], typID := 25 }],
                           rows := [[([97], .arr [.f64 0x3ff8000000000000, .f64 0x7ff8000000000001]), ([98], .str [120])]], rowCount := 1 }
    Spec.CsvExport.valuesKept t [[[97], [98]], [[], [120]]] = false ∧
    Spec.CsvExport.valuesKept t [[[97], [98]], [Spec.SqlLex.asc "[0,\"NaN\"]", [120]]] = true ∧
    Spec.CsvExport.valuesKept t (t.columns.map (·.name) :: t.rows.map fun r => t.columns.map (cellCSV SqlDump.exampleF r)) = true := by
  decide +kernel

/-- non-vacuity of the contracts on the float rendering: a rendering exists that satisfies both -/
example : ExportJson.FloatOK SqlDump.exampleF ∧ SqlValue.FloatSqlOK SqlDump.exampleF := SqlDump.exampleF_ok

/-- non-vacuity of `DumpOK`: a dump with a hostile database name, table name and column names, a jsonb and a float8 column -/
example :
    let d : DumpResult := [{ oid := 5, name := [100, 10, 45, 45], tables := [{
      name := [97, 59, 68, 82, 79, 80, 34, 39], rowCount := -1,
      columns := [{ name := [115, 101, 108, 101, 99, 116], type := SqlDump.typeNameOf 3802, typID := 3802 },
                  { name := [49, 10], type := SqlDump.typeNameOf 701, typID := 701 }],
      rows := [[([49, 10], .f64 0x7ff8000000000001), ([115, 101, 108, 101, 99, 116], .obj [([34, 92, 10], .str [39, 59])])]] }] }]
    SqlDump.DumpOK d := by
  intro d db hdb
  simp only [d, List.mem_singleton] at hdb
  subst hdb
  refine ⟨by decide, ?_⟩
  intro t ht
  simp only [List.mem_singleton] at ht
  subst ht
  refine ⟨by simp, by decide, ?_, by decide⟩
  intro c hc
  simp only [List.mem_cons, List.not_mem_nil, or_false] at hc
  rcases hc with h | h <;> subst h
  · exact ⟨by simp, C13_types 3802⟩
  · exact ⟨by simp, C13_types 701⟩

/-- the composition evaluated on that dump (kernel computation, independent of the proofs): the model's text tokenises and
the decoder consumes every token -/
example :
    let d : DumpResult := [{ oid := 5, name := [100, 10, 45, 45], tables := [{
      name := [97, 59, 68, 82, 79, 80, 34, 39], rowCount := -1,
      columns := [{ name := [115, 101, 108, 101, 99, 116], type := SqlDump.typeNameOf 3802, typID := 3802 },
                  { name := [49, 10], type := SqlDump.typeNameOf 701, typID := 701 }],
      rows := [[([49, 10], .f64 0x7ff8000000000001), ([115, 101, 108, 101, 99, 116], .obj [([34, 92, 10], .str [39, 59])])]] }] }]
    Spec.SqlExport.sqlSafe SqlDump.exampleF d (toSQL SqlDump.exampleF [84] d) = true := by
  decide +kernel

/-- the specification has teeth: the texts the UNFIXED code wrote for the table names `Users` and `a;DROP TABLE x;--`
(bare identifiers) are rejected — the first decodes to `users`, the second ends the statement and starts another -/
example :
    let t (n : String) : TableDump := { name := Spec.SqlLex.asc n, columns := [{ name := [99], type := [], typID := 25 }], rows := [], rowCount := 0 }
    (Spec.SqlExport.verdict (Spec.SqlExport.table SqlDump.exampleF (t "Users"))
      (Spec.SqlLex.asc "-- Table: Users (0 rows)\nCREATE TABLE IF NOT EXISTS Users (\n    c TEXT\n);\n\n") == "ok") = false ∧
    (Spec.SqlExport.verdict (Spec.SqlExport.table SqlDump.exampleF (t "a;DROP TABLE x;--"))
      (Spec.SqlLex.asc "-- Table: a;DROP TABLE x;-- (0 rows)\nCREATE TABLE IF NOT EXISTS a;DROP TABLE x;-- (\n    c TEXT\n);\n\n") == "ok") = false ∧
    (Spec.SqlExport.verdict (Spec.SqlExport.table SqlDump.exampleF (t "Users"))
      (tableToSQL SqlDump.exampleF (t "Users")) == "ok") = true := by
  decide +kernel

/-- tables WITHOUT COLUMNS and EMPTY ARRAYS are inside `DumpOK` (no hypothesis excludes them), and the composition evaluated on
such a dump (kernel computation): a zero-column table with two rows, an empty table without columns, an array column holding
the empty array, an array with an empty array inside, and the value `\'; DROP TABLE x; --` -/
example :
    let d : DumpResult := [{ oid := 1, name := [100], tables := [
      { name := [116], rowCount := 2, columns := [], rows := [[], []] },
      { name := [101], rowCount := 0, columns := [], rows := [] },
      { name := [117], rowCount := 1,
        columns := [{ name := [97], type := SqlDump.typeNameOf 1007, typID := 1007 }, { name := [98], type := SqlDump.typeNameOf 25, typID := 25 }],
        rows := [[([97], .arr []), ([98], .str [92, 39, 59, 32, 68, 82, 79, 80, 32, 84, 65, 66, 76, 69, 32, 120, 59, 32, 45, 45])],
                 [([97], .arr [.arr [], .int 1])]] }] }]
    SqlDump.DumpOK d ∧ Spec.SqlExport.sqlSafe SqlDump.exampleF d (toSQL SqlDump.exampleF [84] d) = true := by
  refine ⟨?_, by decide +kernel⟩
  intro db hdb
  simp only [List.mem_singleton] at hdb
  subst hdb
  refine ⟨by decide, ?_⟩
  intro t ht
  simp only [List.mem_cons, List.not_mem_nil, or_false] at ht
  rcases ht with h | h | h <;> subst h
  · exact ⟨by simp, by decide, by intro c hc; simp at hc, by decide⟩
  · exact ⟨by simp, by decide, by intro c hc; simp at hc, by decide⟩
  · refine ⟨by simp, by decide, ?_, by decide⟩
    intro c hc
    simp only [List.mem_cons, List.not_mem_nil, or_false] at hc
    rcases hc with h | h <;> subst h
    · exact ⟨by simp, C13_types 1007⟩
    · exact ⟨by simp, C13_types 25⟩

/-- the specification has teeth (2): the texts written BEFORE fixes 09–11 are rejected —
`INSERT INTO t () VALUES (), ();` for a table without columns (a syntax error in PostgreSQL), `ARRAY[]` for the empty
array ("cannot determine type of empty array"), and the plain constant `'\'';…'` for a string with a backslash (does not
even tokenise: its reading depends on standard_conforming_strings) — while the repaired texts are accepted -/
example :
    let t0 : TableDump := { name := [116], columns := [], rows := [[], []], rowCount := 2 }
    let ta (v : GoVal) : TableDump := { name := [116], columns := [{ name := [97], type := [], typID := 25 }], rows := [[([97], v)]], rowCount := 1 }
    let verdict (t : TableDump) (text : String) := Spec.SqlExport.verdict (Spec.SqlExport.table SqlDump.exampleF t) (Spec.SqlLex.asc text)
    verdict t0 "-- Table: t (2 rows)\nCREATE TABLE IF NOT EXISTS t (\n);\n\nINSERT INTO t () VALUES\n    (),\n    ();\n" = "bad:tok" ∧
    verdict t0 "-- Table: t (2 rows)\nCREATE TABLE IF NOT EXISTS t (\n);\n\nINSERT INTO t DEFAULT VALUES;\nINSERT INTO t DEFAULT VALUES;\n" = "ok" ∧
    verdict (ta (.arr [])) "-- Table: t (1 rows)\nCREATE TABLE IF NOT EXISTS t (\n    a TEXT\n);\n\nINSERT INTO t (a) VALUES\n    (ARRAY[]);\n" = "bad:tok" ∧
    verdict (ta (.arr [])) "-- Table: t (1 rows)\nCREATE TABLE IF NOT EXISTS t (\n    a TEXT\n);\n\nINSERT INTO t (a) VALUES\n    ('{}');\n" = "ok" ∧
    verdict (ta (.str [92, 39, 59])) "-- Table: t (1 rows)\nCREATE TABLE IF NOT EXISTS t (\n    a TEXT\n);\n\nINSERT INTO t (a) VALUES\n    ('\\'';');\n" = "bad:lex" ∧
    verdict (ta (.str [92, 39, 59])) "-- Table: t (1 rows)\nCREATE TABLE IF NOT EXISTS t (\n    a TEXT\n);\n\nINSERT INTO t (a) VALUES\n    (E'\\\\'';');\n" = "ok" := by
  refine ⟨by decide +kernel, by decide +kernel, by decide +kernel, by decide +kernel, by decide +kernel, by decide +kernel⟩

/-- the specification has teeth (3): the texts written BEFORE fixes 14 and 15 are rejected — a jsonb[] value
["abc", 5, [], {"a":1}] written as ARRAY['abc', 5, '{}', '{"a":1}'] (elements that are not JSON documents, no cast), a float8[]
value [1, NaN] written as ARRAY[1, 'NaN'] (without the cast PostgreSQL reads 'NaN' as an integer), the "char" value 0 written
as a raw NUL inside the constant (does not tokenise) — while the repaired texts (the model's, evaluated) are accepted; an
int4[] value in an array-typed column needs the cast, in a text column it does not -/
example :
    let ta (ty : Int) (v : GoVal) : TableDump := { name := [116], columns := [{ name := [97], type := SqlDump.typeNameOf ty, typID := ty }], rows := [[([97], v)]], rowCount := 1 }
    let verdict (t : TableDump) (text : Bytes) := Spec.SqlExport.verdict (Spec.SqlExport.table SqlDump.exampleF t) text
    let pre (ty : String) := Spec.SqlLex.asc ("-- Table: t (1 rows)\nCREATE TABLE IF NOT EXISTS t (\n    a " ++ ty ++ "\n);\n\nINSERT INTO t (a) VALUES\n    (")
    let vj : GoVal := .arr [.str [97, 98, 99], .int 5, .arr [], .obj [([97], .int 1)]]
    let vf : GoVal := .arr [.int 1, .f64 0x7ff8000000000001]
    verdict (ta 3807 vj) (pre "_JSONB" ++ Spec.SqlLex.asc "ARRAY['abc', 5, '{}', '{\"a\":1}']);\n") = "bad:tok" ∧
    verdict (ta 3807 vj) (pre "_JSONB" ++ Spec.SqlLex.asc "ARRAY['\"abc\"', '5', '[]', '{\"a\":1}']);\n") = "bad:tok" ∧
    verdict (ta 3807 vj) (pre "_JSONB" ++ Spec.SqlLex.asc "ARRAY['\"abc\"', '5', '[]', '{\"a\":1}']::_JSONB);\n") = "ok" ∧
    verdict (ta 3807 vj) (tableToSQL SqlDump.exampleF (ta 3807 vj)) = "ok" ∧
    verdict (ta 1022 vf) (pre "_FLOAT8" ++ Spec.SqlLex.asc "ARRAY[1, 'NaN']);\n") = "bad:tok" ∧
    verdict (ta 1022 vf) (pre "_FLOAT8" ++ Spec.SqlLex.asc "ARRAY[1, 'NaN']::_FLOAT8);\n") = "ok" ∧
    verdict (ta 1022 vf) (tableToSQL SqlDump.exampleF (ta 1022 vf)) = "ok" ∧
    verdict (ta 25 vf) (pre "TEXT" ++ Spec.SqlLex.asc "ARRAY[1, 'NaN']);\n") = "ok" ∧
    verdict (ta 18 (.str [0])) (pre "CHAR" ++ [39, 0, 39] ++ Spec.SqlLex.asc ");\n") = "bad:lex" ∧
    verdict (ta 18 (.str [0])) (pre "CHAR" ++ Spec.SqlLex.asc "'');\n") = "ok" ∧
    verdict (ta 18 (.str [0])) (tableToSQL SqlDump.exampleF (ta 18 (.str [0]))) = "ok" ∧
    verdict (ta 25 (.str [97, 0, 39, 41, 59])) (pre "TEXT" ++ Spec.SqlLex.asc "'a');\n") = "ok" := by
  refine ⟨by decide +kernel, by decide +kernel, by decide +kernel, by decide +kernel, by decide +kernel, by decide +kernel,
    by decide +kernel, by decide +kernel, by decide +kernel, by decide +kernel, by decide +kernel, by decide +kernel⟩

end PgVerif.Props.C13
