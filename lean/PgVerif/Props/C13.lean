/-
  C13 — SQL and CSV exports cannot be broken or hijacked by stored data.
  Property theorems only; helper lemmas are in Proofs/SqlLex.lean, Proofs/CsvParse.lean, Proofs/ExportJson.lean.

  Spec side: `Spec.SqlLex` (PostgreSQL's lexer, standard_conforming_strings = on; `next` recognises one token),
  `Spec.SqlExport` (which token sequence a dump must produce: every name and value exactly one token — or the fixed group
  of a signed number / ARRAY[…] — that decodes back), `Spec.Json` (RFC 8259), `Spec.Csv` (RFC 4180 reader that, like the
  usual readers, skips empty lines), `Spec.CsvExport`.  Model side: `Model.Export` = sql.go and csv.go after fixes/export 01–07.
  The per-token theorems are the injection-safety content: whatever bytes a stored name or value consists of, the
  lexer's token ends exactly where the tool's text for it ends, and decodes to the original.
-/
import PgVerif.Proofs.SqlLex
import PgVerif.Proofs.CsvParse
import PgVerif.Proofs.ExportJson
namespace PgVerif.Props.C13
open PgVerif PgVerif.Export PgVerif.Model.Export PgVerif.Proofs
open PgVerif.Spec.SqlLex (next Tok)

/-- Identifiers: for EVERY non-empty byte string `n` (quotes, backslashes, dollars, semicolons, comment markers, line
breaks, control characters, upper case, key words, leading digits, non-ASCII …) the text `quoteIdent n`, followed by
anything that cannot continue an identifier (the tool writes a space, a comma or a parenthesis), is read by PostgreSQL's
lexer as exactly ONE token that ends exactly where `quoteIdent n` ends, and that token is the name `n`: a quoted
identifier with content `n`, or the bare word `n` where `n` is neither case-folded nor a key word PostgreSQL refuses as
a table or column name. -/
theorem C13_ident (n rest : Bytes) (hn : n ≠ []) (hb : SqlLex.IdentBoundary rest) :
    ∃ tok, next (quoteIdent n ++ rest) = some (some tok, rest) ∧ Spec.SqlExport.isName n tok = true :=
  SqlLex.next_quoteIdent n rest hn hb

/-- String literals: for EVERY byte string `s` the text `quoteLiteral s`, followed by the end of input or by any byte
that is neither a quote nor white space (the tool writes `,` `)` or `]`), is read as exactly one string constant whose
value is `s`, ending exactly where the tool's text ends: no content can close the literal early or extend it. -/
theorem C13_literal (s rest : Bytes) (hb : SqlLex.StrBoundary rest) :
    next (quoteLiteral s ++ rest) = some (some (.str s), rest) :=
  SqlLex.next_quoteLiteral s rest hb

/-- Comment lines: for EVERY name `s`, prefix and suffix without line breaks, the line `--` prefix commentText(s) suffix
followed by a line break is read as exactly one comment token that stops at that line break (the name cannot end the
comment: no CR or LF survives `commentText`), and the token decodes back to `s` under the convention `\\` `\n` `\r`. -/
theorem C13_comment (pre s suf rest : Bytes) (hp : ∀ c ∈ pre, Spec.SqlLex.isNewline c = false)
    (hs : ∀ c ∈ suf, Spec.SqlLex.isNewline c = false) :
    next (45 :: 45 :: (pre ++ commentText s ++ suf) ++ 10 :: rest) = some (some (.comment (pre ++ commentText s ++ suf)), 10 :: rest) ∧
    Spec.SqlExport.isNameComment pre s suf (.comment (pre ++ commentText s ++ suf)) = true := by
  refine ⟨SqlLex.next_comment _ _ ?_ (by intro c hc; simp at hc; subst hc; decide), SqlLex.isNameComment_ok pre s suf⟩
  intro c hc
  simp only [List.mem_append] at hc
  rcases hc with (h | h) | h
  · exact hp c h
  · exact SqlLex.commentText_noNewline s c h
  · exact hs c h

/-- JSON: for every map (any nesting of arrays and maps, hostile keys and strings with quotes, backslashes, control
characters, NaN and infinite floats) the text of `mapToJSON` is valid JSON (RFC 8259) and its value is the map: keys and
strings byte for byte, integers by their decimal text, NaN/±Inf as quoted strings, members in the given (sorted) order.
`FloatOK F` is the contract on the library's `%v` for floats (a parameter of the model): finite values print as JSON
numbers, NaN/±Inf as exactly "NaN" / "+Inf" / "-Inf". -/
theorem C13_json (F : FloatFmt) (hF : ExportJson.FloatOK F) (kvs : List (Bytes × GoVal)) :
    ∃ j, Spec.Json.parse (mapToJSON F kvs) = some j ∧ Spec.Json.agrees F (.obj kvs) j = true := by
  refine ⟨ExportJson.jsonOf F (.obj kvs), ?_, ExportJson.agrees_jsonOf F hF (.obj kvs)⟩
  have := ExportJson.parse_value F hF (.obj kvs)
  simpa [writeJSONValue, mapToJSON] using this

/-- the same as one Boolean: the spec's check of a JSON string token succeeds on the tool's text -/
theorem C13_json_check (F : FloatFmt) (hF : ExportJson.FloatOK F) (kvs : List (Bytes × GoVal)) :
    Spec.Json.textAgrees F (.obj kvs) (mapToJSON F kvs) = true :=
  ExportJson.textAgrees_mapToJSON F hF kvs

/-- CSV, one table: for every table with at least one column (and whose header is not a single empty name) and ANY cell
texts — commas, quotes, CR, LF, leading spaces, empty strings, NULLs — a standard CSV reader gets back exactly the header
of column names followed by one record per row with the same field texts.  (Includes the one-column rows with an empty
field, which the unfixed code wrote as empty lines.) -/
theorem C13_csv (F : FloatFmt) (t : TableDump) (hc : t.columns ≠ []) (hh : t.columns.map (·.name) ≠ [[]]) :
    Spec.Csv.parse (tableToCSV F t) = some (t.columns.map (·.name) :: t.rows.map fun r => t.columns.map (cellCSV F r)) := by
  rw [CsvParse.tableToCSV_lines F t hc hh]
  apply CsvParse.parse_lines
  intro r hr
  simp only [CsvParse.expectedRecords, List.mem_cons, List.mem_map] at hr
  rcases hr with h | ⟨row, _, h⟩
  · subst h; simpa using hc
  · subst h; simpa using hc

/-- CSV, whole dump: the export is the concatenation, database by database and table by table, of one header line, the
table's CSV and one empty line; the header line is a single line (no name can break it) that decodes back to the
database and table names. -/
theorem C13_csv_multi (F : FloatFmt) (d : DumpResult) :
    toCSV F d = d.flatMap (fun db => db.tables.flatMap fun t => CsvParse.headerLine db.name t.name ++ [10] ++ tableToCSV F t ++ [10]) ∧
    ∀ db t : Bytes, (∀ c ∈ CsvParse.headerLine db t, (c == 10 || c == 13) = false) ∧
      Spec.CsvExport.headerOK db t (CsvParse.headerLine db t) = true := by
  constructor
  · rfl
  · intro db t
    exact ⟨CsvParse.headerLine_noNewline db t, CsvParse.headerOK_headerLine db t⟩

/-- non-vacuity of the hypotheses: a hostile name, a boundary the tool really writes, a table with a column -/
example : ([97, 59, 34, 10] : Bytes) ≠ [] ∧ SqlLex.IdentBoundary [32, 40] ∧ SqlLex.StrBoundary [44, 32] ∧ SqlLex.StrBoundary [] := by
  refine ⟨by decide, ?_, ?_, ?_⟩
  · intro c hc; simp at hc; subst hc; decide
  · intro c hc; simp at hc; subst hc; decide
  · intro c hc; simp at hc

end PgVerif.Props.C13
