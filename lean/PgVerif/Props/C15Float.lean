/-
  C15 — the text a float cell is searched as (fix search/06: search.go `floatText`).
  Property theorems only; helper lemmas are in Proofs/SearchFloat.lean.

  Spec side (Spec/SearchFloat.lean): `f64Text bits` / `f32Text bits` — computed from the IEEE-754 bit pattern by exact
  natural-number arithmetic: `NaN` / `Infinity` / `-Infinity`; otherwise sign, then the SHORTEST decimal digits `d · 10^k`
  lying in the float's round-to-nearest-even interval (largest k; nearer of two; even on an exact tie), written
  positionally (64 bits: numeric / JSON number / float8) or in C's %g layout (32 bits: float4).
  Model side (Model/SearchShow.lean): `searchScalar` = search.go `scalarText` → `floatText(f, bitSize)`, with
  `strconv.FormatFloat(f, fmt, -1, bitSize)` as its documented behaviour.  That the real strconv produces these texts is
  what family `floattext` checks on generated floats (the real code's text is recovered from its match results).
-/
import PgVerif.Proofs.SearchFloat
import PgVerif.Props.C15
namespace PgVerif.Props.C15Float
open PgVerif PgVerif.Spec.Search PgVerif.Spec.SearchFloat PgVerif.Model.Search PgVerif.Model.SearchShow
open PgVerif.Proofs.SearchFloat

/-- **Model = specification.**  The text search.go's `scalarText` gives a float64 / float32 (through `floatText`) is the
specified one, for every bit pattern; every other scalar keeps `%v`. -/
theorem C15_float_model_eq_spec : searchScalar = searchSh showScalar := by
  funext v
  cases v with
  | f64 b =>
    simp only [searchScalar, searchSh, Model.SearchShow.floatText, f64Text, Spec.SearchFloat.floatText, formatFloat]
    generalize decode 52 11 b = D
    cases hs : D.special <;> cases hn : D.neg <;> cases hf : (D.frac != 0) <;> simp [hs, hn, hf, sNaN, sInfinity, sMinus]
  | f32 b =>
    simp only [searchScalar, searchSh, Model.SearchShow.floatText, f32Text, Spec.SearchFloat.floatText, formatFloat]
    generalize decode 23 8 b = D
    cases hs : D.special <;> cases hn : D.neg <;> cases hf : (D.frac != 0) <;> simp [hs, hn, hf, sNaN, sInfinity, sMinus]
  | nil => rfl
  | bool b => rfl
  | int i => rfl
  | str s => rfl
  | arr xs => rfl
  | obj kvs => rfl

/-! ### non-finite values -/

/-- **NaN, Infinity, -Infinity (64 bits).**  Exponent field all ones: a non-zero fraction reads `NaN` (whatever the sign
and payload), a zero fraction `Infinity` / `-Infinity` by the sign bit — PostgreSQL's spellings for float8 and numeric
(fmt's %v had `NaN`, `+Inf`, `-Inf`). -/
theorem C15_float_nonfinite64 (bits : Nat) (he : bits / 2 ^ 52 % 2 ^ 11 = 2047) :
    f64Text bits = if bits % 2 ^ 52 ≠ 0 then sNaN else if bits / 2 ^ 63 % 2 = 1 then sMinus ++ sInfinity else sInfinity := by
  simp only [f64Text, Spec.SearchFloat.floatText, decode, he]
  by_cases hf : bits % 2 ^ 52 = 0 <;> by_cases hn : bits / 2 ^ 63 % 2 = 1 <;> simp [hf, hn]

/-- **… and 32 bits.** -/
theorem C15_float_nonfinite32 (bits : Nat) (he : bits / 2 ^ 23 % 2 ^ 8 = 255) :
    f32Text bits = if bits % 2 ^ 23 ≠ 0 then sNaN else if bits / 2 ^ 31 % 2 = 1 then sMinus ++ sInfinity else sInfinity := by
  simp only [f32Text, Spec.SearchFloat.floatText, decode, he]
  by_cases hf : bits % 2 ^ 23 = 0 <;> by_cases hn : bits / 2 ^ 31 % 2 = 1 <;> simp [hf, hn]

example : f64Text 0x7ff0000000000000 = [73, 110, 102, 105, 110, 105, 116, 121] /- Infinity -/ ∧ f64Text 0xfff0000000000000 = [45, 73, 110, 102, 105, 110, 105, 116, 121] /- -Infinity -/ ∧
    f64Text 0x7ff8000000000001 = [78, 97, 78] /- NaN -/ ∧ f64Text 0xfff8000000000000 = [78, 97, 78] /- NaN -/ ∧
    f32Text 0x7f800000 = [73, 110, 102, 105, 110, 105, 116, 121] /- Infinity -/ ∧ f32Text 0xff800000 = [45, 73, 110, 102, 105, 110, 105, 116, 121] /- -Infinity -/ ∧ f32Text 0xffc00000 = [78, 97, 78] /- NaN -/ := by
  decide

/-! ### positional: no exponent notation at any magnitude -/

/-- **A finite float64 is searched positionally.**  Whatever the magnitude (5e-324 … 1.8e308), the text of a finite
64-bit float is an optional `-` followed by digits with at most a point among them: there is no exponent marker (`e`), no
`+`, nothing else.  (fmt's %v switches to `1e+21`-style at 21 digits and `1e-05` below 1e-4; the band-only repair of
patch 05 left both.) -/
theorem C15_float_positional (bits : Nat) (hfin : bits / 2 ^ 52 % 2 ^ 11 ≠ 2047) :
    ∃ body, f64Text bits = (if bits / 2 ^ 63 % 2 = 1 then sMinus else []) ++ body ∧ ∀ c ∈ body, c = 46 ∨ (48 ≤ c ∧ c ≤ 57) := by
  have hs : (decode 52 11 bits).special = false := by
    show (bits / 2 ^ 52 % 2 ^ 11 == 2 ^ 11 - 1) = false
    simpa using hfin
  have hn : (decode 52 11 bits).neg = (bits / 2 ^ 63 % 2 == 1) := rfl
  rw [f64Text, floatText_finite _ _ hs, hn]
  refine ⟨(if ((decode 52 11 bits).m == 0) = true then [48]
      else positional (shortest (decode 52 11 bits).fin).fst (shortest (decode 52 11 bits).fin).snd), ?_, ?_⟩
  · congr 1
    by_cases h : bits / 2 ^ 63 % 2 = 1 <;> simp [h]
  · intro c hc
    split at hc
    · simp only [List.mem_singleton] at hc; subst hc; exact Or.inr ⟨by decide, by decide⟩
    · exact positional_bytes _ _ c hc

/-- no text of a 64-bit float cell — finite or not — contains an exponent marker or a plus sign -/
theorem C15_float_no_exponent (bits : Nat) : (101 : UInt8) ∉ f64Text bits ∧ (43 : UInt8) ∉ f64Text bits := by
  by_cases hfin : bits / 2 ^ 52 % 2 ^ 11 = 2047
  · rw [C15_float_nonfinite64 bits hfin]
    split
    · decide
    · split <;> decide
  · obtain ⟨body, hb, hbody⟩ := C15_float_positional bits hfin
    rw [hb]
    have h1 : ∀ x : UInt8, x = 101 ∨ x = 43 → x ∉ body := by
      intro x hx hmem
      rcases hbody x hmem with h | ⟨h1, h2⟩
      · rcases hx with rfl | rfl <;> exact absurd h (by decide)
      · rcases hx with rfl | rfl
        · exact absurd h2 (by decide)
        · exact absurd h1 (by decide)
    constructor
    · intro hm
      rcases List.mem_append.mp hm with hm | hm
      · split at hm
        · exact absurd hm (by decide)
        · exact absurd hm (by simp)
      · exact h1 _ (Or.inl rfl) hm
    · intro hm
      rcases List.mem_append.mp hm with hm | hm
      · split at hm
        · exact absurd hm (by decide)
        · exact absurd hm (by simp)
      · exact h1 _ (Or.inr rfl) hm

/-! ### integers -/

set_option maxRecDepth 8192 in
/-- **An integer-valued float64 below 2^53 is searched as the integer's decimal text.**  Take a 64-bit pattern with
biased exponent `be` in 1 … 1075 (a normal number whose unit in the last place is at most 1, i.e. a value below 2^53)
whose value `(2^52 + fraction) · 2^(be − 1075)` is the natural number `N`.  Its text is `N` in decimal (all digits, no
point, no exponent), with `-` in front when the sign bit is set.  So numeric `1000000000000000`, JSONB `{"n": 1e15}` and
a float8 1e15 — all the float64 0x430c6bf526340000 — are found by the pattern `^1000000000000000$`. -/
theorem C15_float_integer (bits N : Nat) (hbe1 : 1 ≤ bits / 2 ^ 52 % 2 ^ 11) (hbe2 : bits / 2 ^ 52 % 2 ^ 11 ≤ 1075)
    (hval : 2 ^ 52 + bits % 2 ^ 52 = N * 2 ^ (1075 - bits / 2 ^ 52 % 2 ^ 11)) :
    f64Text bits = (if bits / 2 ^ 63 % 2 = 1 then sMinus else []) ++ dec N := by
  generalize hbe : bits / 2 ^ 52 % 2 ^ 11 = be at hbe1 hbe2 hval
  generalize hfr : bits % 2 ^ 52 = frac at hval
  have hP : 0 < 2 ^ (1075 - be) := Nat.two_pow_pos _
  generalize hPd : 2 ^ (1075 - be) = P at hval hP
  simp only [f64Text, Spec.SearchFloat.floatText, decode, hbe, hfr]
  have hs : (be == 2 ^ 11 - 1) = false := by simp; omega
  have h0 : (be == 0) = false := by simp; omega
  have hm : (2 ^ 52 + frac == 0) = false := by simp
  have he : be - (2 ^ (11 - 1) - 1 + 52) = 0 := by simp; omega
  have hq : 2 ^ (11 - 1) - 1 + 52 - be = 1075 - be := by simp
  simp only [hs, h0, hm, he, hq, hPd, Bool.false_eq_true, if_false, Nat.pow_zero, Nat.mul_one]
  congr 1
  · by_cases hn : bits / 2 ^ 63 % 2 = 1 <;> simp [hn]
  · apply positional_shortest_int
    constructor
    · show 4 * (2 ^ 52 + frac) = N * (4 * P)
      rw [hval, Nat.mul_left_comm]
    · show 2 * (4 * (2 ^ 52 + frac) + 2) ≤ 2 * (4 * (2 ^ 52 + frac)) + 4 * P
      omega
    · show 2 * (4 * (2 ^ 52 + frac)) ≤ 2 * (if (frac == 0 && decide (be > 1)) = true then 4 * (2 ^ 52 + frac) - 1 else 4 * (2 ^ 52 + frac) - 2) + 4 * P
      split <;> omega
    · show (if (frac == 0 && decide (be > 1)) = true then 4 * (2 ^ 52 + frac) - 1 else 4 * (2 ^ 52 + frac) - 2) < 4 * (2 ^ 52 + frac)
      split <;> omega
    · show 4 * (2 ^ 52 + frac) < 4 * (2 ^ 52 + frac) + 2
      omega
    · show 0 < 4 * P
      omega

/-- the hypotheses of `C15_float_integer` hold for the float64 1e15 (witness of fix search/06), for 1, for 2^53 − 1 and
for −1000000 -/
example : (1 ≤ 0x430c6bf526340000 / 2 ^ 52 % 2 ^ 11 ∧ 0x430c6bf526340000 / 2 ^ 52 % 2 ^ 11 ≤ 1075 ∧
      2 ^ 52 + 0x430c6bf526340000 % 2 ^ 52 = 10 ^ 15 * 2 ^ (1075 - 0x430c6bf526340000 / 2 ^ 52 % 2 ^ 11)) ∧
    (2 ^ 52 + 0x3ff0000000000000 % 2 ^ 52 = 1 * 2 ^ (1075 - 0x3ff0000000000000 / 2 ^ 52 % 2 ^ 11)) ∧
    (2 ^ 52 + 0x433fffffffffffff % 2 ^ 52 = (2 ^ 53 - 1) * 2 ^ (1075 - 0x433fffffffffffff / 2 ^ 52 % 2 ^ 11)) ∧
    (2 ^ 52 + 0xc12e848000000000 % 2 ^ 52 = 1000000 * 2 ^ (1075 - 0xc12e848000000000 / 2 ^ 52 % 2 ^ 11)) := by decide

/-- **1e15** (the witness): the text is `1000000000000000`. -/
theorem C15_float_1e15 : f64Text 0x430c6bf526340000 = [49, 48, 48, 48, 48, 48, 48, 48, 48, 48, 48, 48, 48, 48, 48, 48] /- 1000000000000000 -/ := by
  rw [C15_float_integer 0x430c6bf526340000 (10 ^ 15) (by decide) (by decide) (by decide)]
  decide

/-- more texts, by evaluation: 0.00001 (numeric's text; %v has 1e-05), 1e21, 0.1, −0; float32 1e6 and 1234567 in
float4's layout, 100000 and 0.0001 still positional -/
example : f64Text 0x3ee4f8b588e368f1 = [48, 46, 48, 48, 48, 48, 49] /- 0.00001 -/ ∧ f64Text 0x444b1ae4d6e2ef50 = [49, 48, 48, 48, 48, 48, 48, 48, 48, 48, 48, 48, 48, 48, 48, 48, 48, 48, 48, 48, 48, 48] /- 1000000000000000000000 -/ ∧
    f64Text 0x3fb999999999999a = [48, 46, 49] /- 0.1 -/ ∧ f64Text 0x8000000000000000 = [45, 48] /- -0 -/ ∧
    f32Text 0x49742400 = [49, 101, 43, 48, 54] /- 1e+06 -/ ∧ f32Text 0x4996b438 = [49, 46, 50, 51, 52, 53, 54, 55, 101, 43, 48, 54] /- 1.234567e+06 -/ ∧
    f32Text 0x47c35000 = [49, 48, 48, 48, 48, 48] /- 100000 -/ ∧ f32Text 0x38d1b717 = [48, 46, 48, 48, 48, 49] /- 0.0001 -/ ∧ f32Text 0x3727c5ac = [49, 101, 45, 48, 53] /- 1e-05 -/ := by
  decide

/-! ### the digits read back -/

/-- **Round trip.**  Whenever the search for the shortest digits of a finite positive float `F` finds a decimal `d · 10^k`
(it always does on the floats the families generate; totality over all bit patterns and minimality of the digit count
are checked by family `floattext` against the real code, not proved), that decimal lies in `F`'s round-to-nearest-even
interval: read back by a correctly rounding parser it is the same float, so the searched text denotes the stored value
and no other. -/
theorem C15_float_reads_back (F : Spec.SearchFloat.Fin)
    (h : (searchPos F (startExp F)).isSome = true ∨ (searchNeg F 400 1).isSome = true) :
    ReadsBack F (shortest F).1 (shortest F).2 :=
  shortest_reads_back F h

/-- the hypothesis holds e.g. for 0.1 (digits found among the negative exponents), 1e15 and the float32 1234567 -/
example : (searchNeg (decode 52 11 0x3fb999999999999a).fin 400 1).isSome = true ∧
    (searchPos (decode 52 11 0x430c6bf526340000).fin (startExp (decode 52 11 0x430c6bf526340000).fin)).isSome = true ∧
    (searchPos (decode 23 8 0x4996b438).fin (startExp (decode 23 8 0x4996b438).fin)).isSome = true := by decide

/-! ### the search -/

/-- **A float cell is reported iff the pattern matches its text.**  In a well-formed dump searched without a limit, the
cell `(db, tbl, i, col)` holding the 64-bit float `b` is among the hits exactly when the compiled pattern matches
`f64Text b`; likewise a 32-bit float and `f32Text b`.  (Model: search.go after fix search/06.) -/
theorem C15_float_cell (R : Regex) (d : Dump) (hw : Dump.WF d) (o : Opts) (re : Bytes → Bool)
    (hc : R.compile (effPattern o) = some re) (hlim : o.maxResults ≤ 0)
    (db tbl : Bytes) (i : Nat) (col : Bytes) (row : Row) (v : GoVal) (t : Bytes)
    (hv : (∃ b, v = .f64 b ∧ t = f64Text b) ∨ (∃ b, v = .f32 b ∧ t = f32Text b))
    (hcell : IsCell d db tbl i col v row) :
    (∃ hs, hits R searchScalar d o = some hs ∧
      ({ db := db, table := tbl, row := i, col := col, value := v, fullRow := if o.includeRow then some row else none } : Hit) ∈ hs)
    ↔ re t = true := by
  have hm : cellMatches re searchScalar v = re t := by
    rw [C15_float_model_eq_spec]
    rcases hv with ⟨b, rfl, rfl⟩ | ⟨b, rfl, rfl⟩ <;> simp [cellMatches, searchSh]
  constructor
  · rintro ⟨hs, hh, hmem⟩
    obtain ⟨_, _, hcm, _⟩ := C15.C15_sound R searchScalar d hw o re hc hs hh _ hmem
    rw [← hm]; exact hcm
  · intro hr
    exact C15.C15_complete R searchScalar d hw o re hc (Or.inl hlim) db tbl i col v row hcell (by rw [hm]; exact hr)

/-- the hypotheses of `C15_float_cell` are satisfiable, and its right-hand side holds for the witness: table `acct(n)`
with the row `{n: 1e15}`, pattern `^1000000000000000$` of the small engine -/
example :
    let d : Dump := [{ name := [100], tables := [{ name := [116], columns := [[110]], rows := [[([110], .f64 0x430c6bf526340000)]] }] }]
    let o : Opts := { pattern := [94, 49, 48, 48, 48, 48, 48, 48, 48, 48, 48, 48, 48, 48, 48, 48, 48, 36] /- ^1000000000000000$ -/, caseSensitive := true, includeRow := false, maxResults := 0 }
    Dump.WF d ∧ IsCell d [100] [116] 0 [110] (.f64 0x430c6bf526340000) [([110], .f64 0x430c6bf526340000)] ∧
    (∃ re, Model.SearchRe.litRegex.compile (effPattern o) = some re ∧ re (f64Text 0x430c6bf526340000) = true) := by
  refine ⟨?_, ?_, ?_⟩
  · intro db hdb t ht r hr
    simp only [List.mem_singleton] at hdb; subst hdb
    simp only [List.mem_singleton] at ht; subst ht
    simp only [List.mem_singleton] at hr; subst hr
    simp [Row.WF]
  · exact ⟨_, List.mem_singleton.mpr rfl, rfl, _, List.mem_singleton.mpr rfl, rfl, rfl, List.mem_singleton.mpr rfl⟩
  · rw [C15_float_1e15]
    refine ⟨_, rfl, ?_⟩
    decide

end PgVerif.Props.C15Float
