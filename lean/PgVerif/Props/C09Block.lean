/-
  C09 (area block) — ReadTuplesInRange applies the visibility switch the same way round as every other
  reader (after fix 02 of /verif/fixes/block: `ReadTuples(data, !includeDeleted)`).
  Property theorems only.
-/
import PgVerif.Proofs.Heap
import PgVerif.Model.Block
import PgVerif.Proofs.BlockRead
namespace PgVerif.Props.C09Block
open PgVerif PgVerif.Model PgVerif.Proofs

/-- For every file, range and switch: when ReadBlockRange delivers `data`, ReadTuplesInRange with
`includeDeleted = true` is the all-tuples scan of exactly those bytes, and with `includeDeleted = false`
it is the visible-only scan of them — the switch is the negation of ReadTuples' `visibleOnly`; when
ReadBlockRange rejects the request, so does ReadTuplesInRange, with the same error. -/
theorem C09_switch (file : Option Bytes) (r : Option BlockRange) (inc : Bool) :
    readTuplesInRange file r inc =
      match readBlockRange file r with
      | .error f => .error f
      | .ok (.error e) => .ok (.error e)
      | .ok (.ok data) => (readTuples data (!inc)).map .ok := by
  unfold readTuplesInRange
  cases readBlockRange file r with
  | error f => rfl
  | ok res =>
    cases res with
    | error e => rfl
    | ok data =>
      simp only [ok_bind]
      cases readTuples data (!inc) <;> rfl

/-- The two settings of the switch are related as in every other reader: the `includeDeleted = false`
result is the `includeDeleted = true` result filtered by each tuple's own visibility predicate (so
the live view is a sub-list of the all-tuples view, and a tuple's classification depends on nothing
but its own header bits — C09_bits). -/
theorem C09_switch_views (file : Option Bytes) (r : Option BlockRange) (data : Bytes)
    (h : readBlockRange file r = .ok (.ok data)) :
    readTuplesInRange file r true = (readTuples data false).map .ok ∧
    readTuplesInRange file r false =
      (readTuples data false).map (fun es => .ok (es.filter fun e => e.tuple.isVisible)) := by
  rw [C09_switch, C09_switch, h]
  refine ⟨rfl, ?_⟩
  show (readTuples data true).map Except.ok = _
  unfold readTuples
  rw [readTuplesFrom_filter]
  cases readTuplesFrom data false (data.length / 8192 + 1) 0 <;> rfl

/-- non-vacuity of the hypothesis of C09_switch_views: for every file of at least one block (and below
2^62 bytes) the whole-file request delivers all its whole blocks -/
example (f : Bytes) (h1 : 8192 ≤ f.length) (h2 : f.length < 2 ^ 62) :
    readBlockRange (some f) none = .ok (.ok (f.take (f.length / 8192 * 8192))) := by
  have := PgVerif.Proofs.Block.readBlockRange_bytes f h2 none
  rw [show PgVerif.Proofs.Block.toRange none = none from rfl] at this
  rw [this, PgVerif.Proofs.Block.resolve_core]
  unfold PgVerif.Proofs.Block.resolveCore PgVerif.Proofs.Block.clampStop PgVerif.Proofs.Block.reqStart
    PgVerif.Proofs.Block.reqStop
  have a1 : ¬ (0 ≥ f.length / 8192) := by omega
  have a2 : ¬ (0 > f.length / 8192 - 1) := by omega
  simp only [a1, a2, if_false, PgVerif.Proofs.Block.readResult, Nat.zero_mul, List.drop_zero, Nat.sub_zero]
  rw [show f.length / 8192 - 1 + 1 = f.length / 8192 by omega]

end PgVerif.Props.C09Block
