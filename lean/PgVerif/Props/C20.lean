/-
  C20 — sequence state and relation-map files are reported exactly.
  Property theorems only; helper lemmas are in Proofs/Sequence.lean and Proofs/Relmap.lean.
  The sequence model is that of sequence.go with the repairs 05–07 of /verif/fixes/control applied; the
  `witness_*` theorems show the defects on the model of the code as written.  relmap.go: with fixes/control/09
  (both layouts: PostgreSQL 12–15 and 16); FindSequences with fixes/control/08 (filenode order).
-/
import PgVerif.Proofs.Sequence
import PgVerif.Proofs.Relmap
import PgVerif.Proofs.ControlTotal
import PgVerif.Model.SequenceOrig
import PgVerif.Model.RelmapOrig
import PgVerif.Generated.Control
import PgVerif.Gen.Control
namespace PgVerif.Props.C20
open PgVerif PgVerif.Spec PgVerif.Proofs

attribute [local instance] exceptDecEq

/-- Sequence state.  For every well-formed sequence page — last_value anywhere in the int64 range (including the
values whose low 32 bits are 20, 21 or 23), any log_cnt, is_called either way, any tuple header length 23..255,
any other header bytes — ParseSequenceFile succeeds and reports exactly the stored last_value and is_called
(the remaining record fields are left at their zero values). -/
theorem C20_seq (p : SeqPage) (h : p.WF) :
    Model.parseSequenceFile (encSeqPage p) = .ok (some { lastValue := p.st.lastValue, isCalled := p.st.isCalled }) :=
  parseSequenceFile_enc p h

/-- non-vacuity, on a value of the class that used to fail: last_value = 2^32 + 20, is_called = true -/
example : (Gen.plainSeqPage (2 ^ 32 + 20) true).WF := by decide

/-- Recognition.  For every buffer of at least one page, IsSequenceFile answers true iff pd_special is non-zero,
the four bytes it points at lie inside the page, and they hold the u32 sequence magic 0x1717; shorter buffers are
never sequences. -/
theorem C20_isseq (p : Bytes) (hp : p.length ≥ 8192) : Model.isSequenceFile p = .ok (isSeqPage p) :=
  isSequenceFile_eq p hp

theorem C20_isseq_short (p : Bytes) (hp : p.length < 8192) : Model.isSequenceFile p = .ok false :=
  isSequenceFile_short p hp

/-- an encoded sequence page is recognised -/
example : isSeqPage (encSeqPage (Gen.plainSeqPage 42 true)) = true := by decide +kernel

/-- Listing.  For every file system and every database `d` found under the requested name (oid ≠ 0): if every
relkind-'S' relation the pg_class parser reports for `d` has a well-formed sequence page as its file
base/<d.oid>/<relfilenode>, FindSequences returns exactly those relations, nothing else, each once — in ascending
relfilenode order, WHATEVER order Go's `range` over the parsed map yields them in (`env.order`: any rearrangement;
fixes/control/08) — each with its own name, oid, filenode and the last_value / is_called stored in its own file.
`hmap` is what "the parser returns a Go map" means: every relfilenode is the key of one entry.
Relative to the pg_class / pg_database parsers, which are parameters here (other areas; every `seqfind` case checks the
lists given to the model against the real ParsePGClass / ParsePGDatabase), and for databases stored under
base/<oid>/ (a database in another tablespace makes the real FindSequences return an error: not covered). -/
theorem C20_find (env : Model.SeqEnv) (dir : String) (dbName dbData classData : Bytes) (d : Model.DbInfo)
    (pageOf : Model.ClassInfo → SeqPage)
    (hπ : (env.order (env.parseClass classData)).Perm (env.parseClass classData))
    (hmap : KeySort.DistinctKeys (fun c : Model.ClassInfo => c.filenode) (env.parseClass classData))
    (h1 : env.fs (dir ++ "/global/1262") = some dbData)
    (h2 : (env.parseDatabase dbData).find? (·.name == dbName) = some d) (h3 : d.oid ≠ 0)
    (h4 : env.fs (dir ++ "/base/" ++ toString d.oid ++ "/1259") = some classData)
    (h5 : ∀ c ∈ env.parseClass classData, c.kind = [83] → (pageOf c).WF ∧
      env.fs (dir ++ "/base/" ++ toString d.oid ++ "/" ++ toString c.filenode) = some (encSeqPage (pageOf c))) :
    Model.findSequences env dir dbName =
      .ok (some (((Model.keySort (·.filenode) (env.parseClass classData)).filter fun c => c.kind == [83]).map
        fun c => listed c (pageOf c))) :=
  findSequences_enc env dir dbName dbData classData d pageOf hπ hmap h1 h2 h3 h4 h5

/-- a concrete cluster satisfying the hypotheses: database 5 "d" with table 80 (file 88) and sequence 70 (file 77,
last_value 2^32+20, called); the map is iterated back to front -/
def exEnv : Model.SeqEnv :=
  { fs := fun p =>
      if p = "D/global/1262" then some [1] else if p = "D/base/5/1259" then some [2]
      else if p = "D/base/5/77" then some (encSeqPage (Gen.plainSeqPage (2 ^ 32 + 20) true)) else none
    parseDatabase := fun _ => [⟨5, [100]⟩]
    parseClass := fun _ => [⟨88, 80, [116], [114]⟩, ⟨77, 70, [115], [83]⟩]
    order := List.reverse }

set_option maxRecDepth 100000 in
example : Model.findSequences exEnv "D" [100] =
    .ok (some [{ name := [115], oid := 70, filenode := 77, lastValue := 2 ^ 32 + 20, isCalled := true }]) := by
  have := C20_find exEnv "D" [100] [1] [2] ⟨5, [100]⟩ (fun _ => Gen.plainSeqPage (2 ^ 32 + 20) true)
    (List.reverse_perm _) (by unfold KeySort.DistinctKeys; decide)
    (by decide) (by decide) (by decide) (by decide)
    (by intro c hc hk
        refine ⟨by decide, ?_⟩
        have : c = ⟨77, 70, [115], [83]⟩ := by
          simp [exEnv] at hc
          rcases hc with rfl | rfl
          · simp at hk
          · rfl
        subst this; decide +kernel)
  exact this

/-- Relation map, PostgreSQL 12–15 layout (62 slots, crc at 504, 4 bytes of padding: 512 bytes).  For every well-formed
map (0..62 mappings of arbitrary 32-bit oids and filenodes, duplicates allowed, any unused slots, any stored crc, any
padding) followed by any tail that does not make the file exactly 524 bytes long (files of 512 bytes and longer —
a genuine file has no tail), ParseRelMapFile reports the magic, the count, the mappings in stored order and the stored
crc.  (A 524-byte file is read as the PostgreSQL 16 layout — `C20_relmap_v16`; PostgreSQL itself writes and reads exactly
sizeof(RelMapFile) bytes, so a 12–15 file with 12 trailing bytes does not occur.) -/
theorem C20_relmap (m : RelMap) (h : m.WF) (tail : Bytes) (ht : tail.length ≠ 12) :
    Model.parseRelMapFile (encRelMap m ++ tail) =
      .ok (some { magic := relmapMagic, numMappings := m.mappings.length, mappings := m.mappings.map toMapping, crc := m.crc }) :=
  parseRelMapFile_enc m h tail ht

set_option maxRecDepth 100000 in
example : (RelMap.mk [(1262, 1262), (1259, 16384), (1262, 7)] (zeros (8 * 59)) 0xDEADBEEF (zeros 4)).WF := by decide +kernel

/-- Relation map, PostgreSQL 16 layout (64 slots, crc at 520, no padding: 524 bytes; fixes/control/09).  For every
well-formed map (0..64 mappings, any unused slots, any stored crc), ParseRelMapFile on the 524-byte file reports the magic,
the count, the mappings in stored order and the stored crc. -/
theorem C20_relmap_v16 (m : RelMap) (h : m.WF16) :
    Model.parseRelMapFile (encRelMap m) =
      .ok (some { magic := relmapMagic, numMappings := m.mappings.length, mappings := m.mappings.map toMapping, crc := m.crc }) :=
  parseRelMapFile_enc16 m h

set_option maxRecDepth 100000 in
/-- non-vacuity: a PostgreSQL 16 map with 64 mappings, 524 bytes long -/
example : (RelMap.mk ((List.range 64).map fun i => (1000 + i, 2000 + i)) [] 0x15E3B201 []).WF16 ∧
    (encRelMap (RelMap.mk ((List.range 64).map fun i => (1000 + i, 2000 + i)) [] 0x15E3B201 [])).length = 524 := by
  decide +kernel

/-- the defect fixes/control/09 removes (REVIEW B7), on the model of the code as written: on a PostgreSQL 16 file with two
mappings and stored crc 0x15E3B201 it reported the mapoid of slot 62 (here 0) as the crc -/
theorem witness_B7_crc :
    (Model.Orig.parseRelMapFile (encRelMap (RelMap.mk [(1262, 1262), (1259, 16384)] (zeros (8 * 62)) 0x15E3B201 []))).map
      (fun r => r.map (·.crc)) = .ok (some 0) := by decide +kernel

/-- … and it rejected the counts 63 and 64, which are legal in PostgreSQL 16 -/
theorem witness_B7_count :
    Model.Orig.parseRelMapFile (encRelMap (RelMap.mk ((List.range 64).map fun i => (1000 + i, 2000 + i)) [] 7 [])) = .ok none := by
  decide +kernel

/-- Rejection, for every byte string: a file shorter than 512 bytes, a wrong magic, or a count that is negative or
above the layout's maximum (64 in a 524-byte file, 62 otherwise) is rejected … -/
theorem C20_relmap_reject (bs : Bytes)
    (h : bs.length < 512 ∨ rdAt 4 0 bs ≠ 0x592717 ∨ toSigned 32 (rdAt 4 4 bs) < 0 ∨
      toSigned 32 (rdAt 4 4 bs) > maxCountFor bs.length) :
    Model.parseRelMapFile bs = .ok none :=
  parseRelMapFile_reject bs h

/-- … and whatever is accepted has at least 512 bytes, the magic and a count in 0..62 (0..64 in a 524-byte file). -/
theorem C20_relmap_accept (bs : Bytes) (rm : Model.RelMapFile) (h : Model.parseRelMapFile bs = .ok (some rm)) :
    bs.length ≥ 512 ∧ rm.magic = 0x592717 ∧ rdAt 4 0 bs = 0x592717 ∧ 0 ≤ rm.numMappings ∧
    rm.numMappings ≤ maxCountFor bs.length ∧ rm.numMappings = toSigned 32 (rdAt 4 4 bs) :=
  parseRelMapFile_accept bs rm h

example : maxCountFor 512 = 62 ∧ maxCountFor 524 = 64 ∧ maxCountFor 8192 = 62 := by decide

/-- Lookups.  GetFilenode / GetOID return the first stored match, or 0 when there is none. -/
theorem C20_lookup (ms : List (Nat × Nat)) (k : Nat) :
    Model.relMapGetFilenode (ms.map toMapping) k = filenodeOf ms k ∧ Model.relMapGetOID (ms.map toMapping) k = oidOf ms k :=
  ⟨relMapGetFilenode_eq ms k, relMapGetOID_eq ms k⟩

example : filenodeOf [(1262, 1262), (1259, 16384), (1262, 7)] 1262 = 1262 ∧ oidOf [(5, 9), (6, 9)] 9 = 5 ∧
    filenodeOf [(5, 9)] 6 = 0 := by decide

/-- GetEnhancedMappings keeps every mapping, in stored order, and only adds a name. -/
theorem C20_enhanced (names : List (Nat × String)) (ms : List Model.RelMapping) :
    (Model.getEnhancedMappings names ms).map (fun e => (⟨e.oid, e.filenode⟩ : Model.RelMapping)) = ms := by
  unfold Model.getEnhancedMappings
  induction ms with
  | nil => rfl
  | cons m t ih => simp only [List.map_cons, ih]

/-- the constants the model uses are the code's (Generated/Control.lean is produced by executing the code) -/
theorem C20_constants : Generated.Control.relMapMagic = relmapMagic ∧ Generated.Control.relMapMaxMappings = relmapMax ∧
    Generated.Control.sequenceMagic = seqMagic := by decide

/-! ### the defects the repairs remove, on the model of the code as written (Model.Orig) -/

/-- A62a: last_value = 20 (low word looks like the type oid of int8) made the parser fail -/
theorem witness_A62_guess :
    Model.Orig.parseSequenceFile (encSeqPage (Gen.plainSeqPage 20 true)) = .ok none := by decide +kernel

/-- A62b: is_called was never read -/
theorem witness_A62_called :
    Model.Orig.parseSequenceFile (encSeqPage (Gen.plainSeqPage 42 true)) = .ok (some { lastValue := 42, isCalled := false }) := by
  decide +kernel

/-- A63: the magic was compared as u16: a page whose special space holds 0xABCD1717 was accepted -/
theorem witness_A63 :
    Model.Orig.isSequenceFile (zeros 16 ++ le 2 8184 ++ zeros (8184 - 18) ++ le 4 0xABCD1717 ++ zeros 4) = .ok true := by
  decide +kernel

end PgVerif.Props.C20
