/-
  C20 — sequence state and relation-map files are reported exactly.
  Property theorems only; helper lemmas are in Proofs/Sequence.lean and Proofs/Relmap.lean.
  The sequence model is that of sequence.go with the repairs 05–07 of /verif/fixes/control applied; the
  `witness_*` theorems show the defects on the model of the code as written.  relmap.go: with fixes/control/09, 21
  (both layouts: PostgreSQL 12–15 and 16, told apart by the stored crc); FindSequences with fixes/control/08 (filenode order).
-/
import PgVerif.Proofs.Sequence
import PgVerif.Proofs.Relmap
import PgVerif.Proofs.ControlTotal
import PgVerif.Model.SequenceOrig
import PgVerif.Model.RelmapOrig
import PgVerif.Generated.Control
import PgVerif.Gen.Control
namespace PgVerif.Props.C20
open PgVerif PgVerif.Spec PgVerif.Proofs

attribute [local instance] exceptDecEq

/-- Sequence state.  For every well-formed sequence page — last_value anywhere in the int64 range (including the
values whose low 32 bits are 20, 21 or 23), any log_cnt, is_called either way, any tuple header length 23..255,
any other header bytes — ParseSequenceFile succeeds and reports exactly the stored last_value and is_called
(the remaining record fields are left at their zero values). -/
theorem C20_seq (p : SeqPage) (h : p.WF) :
    Model.parseSequenceFile (encSeqPage p) = .ok (some { lastValue := p.st.lastValue, isCalled := p.st.isCalled }) :=
  parseSequenceFile_enc p h

/-- non-vacuity, on a value of the class that used to fail: last_value = 2^32 + 20, is_called = true -/
example : (Gen.plainSeqPage (2 ^ 32 + 20) true).WF := by decide

/-- Recognition.  For every buffer of at least one page, IsSequenceFile answers true iff pd_special is non-zero,
the four bytes it points at lie inside the page, and they hold the u32 sequence magic 0x1717; shorter buffers are
never sequences. -/
theorem C20_isseq (p : Bytes) (hp : p.length ≥ 8192) : Model.isSequenceFile p = .ok (isSeqPage p) :=
  isSequenceFile_eq p hp

theorem C20_isseq_short (p : Bytes) (hp : p.length < 8192) : Model.isSequenceFile p = .ok false :=
  isSequenceFile_short p hp

/-- an encoded sequence page is recognised -/
example : isSeqPage (encSeqPage (Gen.plainSeqPage 42 true)) = true := by decide +kernel

/-- Listing.  For every file system and every database `d` found under the requested name (oid ≠ 0): if every
relkind-'S' relation the pg_class parser reports for `d` has a well-formed sequence page as its file
base/<d.oid>/<relfilenode>, FindSequences returns exactly those relations, nothing else, each once — in ascending
relfilenode order, WHATEVER order Go's `range` over the parsed map yields them in (`env.order`: any rearrangement;
fixes/control/08) — each with its own name, oid, filenode and the last_value / is_called stored in its own file.
`hmap` is what "the parser returns a Go map" means: every relfilenode is the key of one entry.
Relative to the pg_class / pg_database parsers, which are parameters here (other areas; every `seqfind` case checks the
lists given to the model against the real ParsePGClass / ParsePGDatabase), and for databases stored under
base/<oid>/ (a database in another tablespace makes the real FindSequences return an error: not covered). -/
theorem C20_find (env : Model.SeqEnv) (dir : String) (dbName dbData classData : Bytes) (d : Model.DbInfo)
    (pageOf : Model.ClassInfo → SeqPage)
    (hπ : (env.order (env.parseClass classData)).Perm (env.parseClass classData))
    (hmap : KeySort.DistinctKeys (fun c : Model.ClassInfo => c.filenode) (env.parseClass classData))
    (h1 : env.fs (dir ++ "/global/1262") = some dbData)
    (h2 : (env.parseDatabase dbData).find? (·.name == dbName) = some d) (h3 : d.oid ≠ 0)
    (h4 : env.fs (dir ++ "/base/" ++ toString d.oid ++ "/1259") = some classData)
    (h5 : ∀ c ∈ env.parseClass classData, c.kind = [83] → (pageOf c).WF ∧
      env.fs (dir ++ "/base/" ++ toString d.oid ++ "/" ++ toString c.filenode) = some (encSeqPage (pageOf c))) :
    Model.findSequences env dir dbName =
      .ok (some (((Model.keySort (·.filenode) (env.parseClass classData)).filter fun c => c.kind == [83]).map
        fun c => listed c (pageOf c))) :=
  findSequences_enc env dir dbName dbData classData d pageOf hπ hmap h1 h2 h3 h4 h5

/-- a concrete cluster satisfying the hypotheses: database 5 "d" with table 80 (file 88) and sequence 70 (file 77,
last_value 2^32+20, called); the map is iterated back to front -/
def exEnv : Model.SeqEnv :=
  { fs := fun p =>
      if p = "D/global/1262" then some [1] else if p = "D/base/5/1259" then some [2]
      else if p = "D/base/5/77" then some (encSeqPage (Gen.plainSeqPage (2 ^ 32 + 20) true)) else none
    parseDatabase := fun _ => [⟨5, [100]⟩]
    parseClass := fun _ => [⟨88, 80, [116], [114]⟩, ⟨77, 70, [115], [83]⟩]
    order := List.reverse }

set_option maxRecDepth 100000 in
example : Model.findSequences exEnv "D" [100] =
    .ok (some [{ name := [115], oid := 70, filenode := 77, lastValue := 2 ^ 32 + 20, isCalled := true }]) := by
  have := C20_find exEnv "D" [100] [1] [2] ⟨5, [100]⟩ (fun _ => Gen.plainSeqPage (2 ^ 32 + 20) true)
    (List.reverse_perm _) (by unfold KeySort.DistinctKeys; decide)
    (by decide) (by decide) (by decide) (by decide)
    (by intro c hc hk
        refine ⟨by decide, ?_⟩
        have : c = ⟨77, 70, [115], [83]⟩ := by
          simp [exEnv] at hc
          rcases hc with rfl | rfl
          · simp at hk
          · rfl
        subst this; decide +kernel)
  exact this

/-! ### relation map

Two layouts with the same magic (PostgreSQL 12–15: 62 slots, crc at 504, 4 bytes of padding, 512 bytes; PostgreSQL 16:
64 slots, crc at 520, 524 bytes).  Since fixes/control/21 the layout is asked of the image, not of its length
(`relMapIsV16`): fewer than 524 bytes → 12–15; a count above 62 → 16; else the layout whose stored CRC-32C verifies
(`Spec.relmapCrcOk`, PostgreSQL's own check; 16 first); when neither verifies, the exact size.  "The expected report"
below = the magic, the count, the mappings in stored order and the stored crc. -/

/-- Relation map, PostgreSQL 12–15 layout.  For every well-formed map (0..62 mappings of arbitrary 32-bit oids and
filenodes, duplicates allowed, any unused slots, any padding) that is INTACT (the stored crc is the CRC-32C of the 504
bytes before it — what PostgreSQL writes and demands), followed by ANY tail (a file read into a larger buffer, a padded
copy, 12 bytes that make it 524 long …), ParseRelMapFile gives the expected report — unless the same bytes are also a
valid PostgreSQL 16 image (`h16`: they verify at 520 too).  That carve-out is inherent, not a defect: the image then IS,
member by member, an intact 16 map (`C20_relmap_overlap`), and it does occur (`C20_relmap_collision`). -/
theorem C20_relmap (m : RelMap) (h : m.WF) (hi : m.Intact .v12) (tail : Bytes)
    (h16 : relmapCrcOk .v16 (encRelMap m ++ tail) = false) :
    Model.parseRelMapFile (encRelMap m ++ tail) =
      .ok (some { magic := relmapMagic, numMappings := m.mappings.length, mappings := m.mappings.map toMapping, crc := m.crc }) :=
  parseRelMapFile_enc m h tail (isV16Of_enc12 m h tail h16 (Or.inl hi))

/-- a three-mapping map with the crc PostgreSQL stores -/
def exMap12 : RelMap := Gen.withTrueCrc (RelMap.mk [(1262, 1262), (1259, 16384), (1262, 7)] (zeros (8 * 59)) 0 (zeros 4))

set_option maxRecDepth 100000 in
/-- non-vacuity: it is well-formed and intact, and padded with zeros to 600 bytes it does not verify as a 16 image -/
example : exMap12.WF ∧ exMap12.Intact .v12 ∧ relmapCrcOk .v16 (encRelMap exMap12 ++ zeros 88) = false := by decide +kernel

/-- The genuine file (and anything up to 523 bytes), unconditionally: a well-formed 12–15 map with ANY stored crc (valid
or not) followed by fewer than 12 bytes gets the expected report.  PostgreSQL writes exactly 512 bytes. -/
theorem C20_relmap_file (m : RelMap) (h : m.WF) (tail : Bytes) (ht : tail.length < 12) :
    Model.parseRelMapFile (encRelMap m ++ tail) =
      .ok (some { magic := relmapMagic, numMappings := m.mappings.length, mappings := m.mappings.map toMapping, crc := m.crc }) :=
  parseRelMapFile_enc m h tail (isV16Of_enc12_short m h tail ht)

set_option maxRecDepth 100000 in
example : (RelMap.mk [(1262, 1262), (1259, 16384), (1262, 7)] (zeros (8 * 59)) 0xDEADBEEF (zeros 4)).WF := by decide +kernel

/-- A damaged 12–15 file (any stored crc) in a longer buffer: as long as the bytes do not verify as a 16 image and the
buffer is not exactly 524 bytes long (the size of a 16 file — there the size decides, as before fixes/control/21), the
expected report, with the stored (wrong) crc. -/
theorem C20_relmap_damaged (m : RelMap) (h : m.WF) (tail : Bytes) (ht : tail.length ≠ 12)
    (h16 : relmapCrcOk .v16 (encRelMap m ++ tail) = false) :
    Model.parseRelMapFile (encRelMap m ++ tail) =
      .ok (some { magic := relmapMagic, numMappings := m.mappings.length, mappings := m.mappings.map toMapping, crc := m.crc }) :=
  parseRelMapFile_enc m h tail (isV16Of_enc12 m h tail h16 (Or.inr ht))

set_option maxRecDepth 100000 in
example : (RelMap.mk [(5, 6)] (zeros (8 * 61)) 0xDEADBEEF (zeros 4)).WF ∧
    relmapCrcOk .v16 (encRelMap (RelMap.mk [(5, 6)] (zeros (8 * 61)) 0xDEADBEEF (zeros 4)) ++ zeros 13) = false := by
  decide +kernel

/-- Relation map, PostgreSQL 16 layout (fixes/control/09, 21).  For every well-formed INTACT 16 map (0..64 mappings, any
unused slots, the crc PostgreSQL stores) followed by ANY tail — none (the genuine 524-byte file), one byte, zero padding to
8 KiB — the expected report.  No side condition: the 16 check is tried first. -/
theorem C20_relmap_v16 (m : RelMap) (h : m.WF16) (hi : m.Intact .v16) (tail : Bytes) :
    Model.parseRelMapFile (encRelMap m ++ tail) =
      .ok (some { magic := relmapMagic, numMappings := m.mappings.length, mappings := m.mappings.map toMapping, crc := m.crc }) :=
  parseRelMapFile_enc16 m h tail (isV16Of_enc16 m h tail (Or.inl hi))

/-- a PostgreSQL 16 map with 2 mappings and the crc PostgreSQL stores -/
def exMap16 : RelMap := Gen.withTrueCrc (RelMap.mk [(1262, 1262), (1259, 16384)] (zeros (8 * 62)) 0 [])

set_option maxRecDepth 100000 in
example : exMap16.WF16 ∧ exMap16.Intact .v16 ∧ (encRelMap exMap16).length = 524 := by decide +kernel

/-- … and 63 or 64 mappings fit no other layout: whatever the stored crc and whatever follows. -/
theorem C20_relmap_v16_full (m : RelMap) (h : m.WF16) (hn : m.mappings.length > 62) (tail : Bytes) :
    Model.parseRelMapFile (encRelMap m ++ tail) =
      .ok (some { magic := relmapMagic, numMappings := m.mappings.length, mappings := m.mappings.map toMapping, crc := m.crc }) :=
  parseRelMapFile_enc16 m h tail (isV16Of_enc16 m h tail (Or.inr (Or.inl hn)))

set_option maxRecDepth 100000 in
/-- non-vacuity: a PostgreSQL 16 map with 64 mappings, 524 bytes long -/
example : (RelMap.mk ((List.range 64).map fun i => (1000 + i, 2000 + i)) [] 0x15E3B201 []).WF16 ∧
    (encRelMap (RelMap.mk ((List.range 64).map fun i => (1000 + i, 2000 + i)) [] 0x15E3B201 [])).length = 524 ∧
    (RelMap.mk ((List.range 64).map fun i => (1000 + i, 2000 + i)) [] 0x15E3B201 []).mappings.length > 62 := by
  decide +kernel

/-- A damaged 16 file (any stored crc) of exactly 524 bytes: the expected report, with the stored (wrong) crc — unless the
bytes verify as a 12–15 image (`h12`; the same inherent overlap, seen from the other side). -/
theorem C20_relmap_v16_damaged (m : RelMap) (h : m.WF16) (h12 : relmapCrcOk .v12 (encRelMap m) = false) :
    Model.parseRelMapFile (encRelMap m) =
      .ok (some { magic := relmapMagic, numMappings := m.mappings.length, mappings := m.mappings.map toMapping, crc := m.crc }) := by
  have := parseRelMapFile_enc16 m h [] (isV16Of_enc16 m h [] (Or.inr (Or.inr ⟨rfl, by simpa using h12⟩)))
  simpa using this

set_option maxRecDepth 100000 in
example : (RelMap.mk [(1262, 1262), (1259, 16384)] (zeros (8 * 62)) 0x15E3B201 []).WF16 ∧
    relmapCrcOk .v12 (encRelMap (RelMap.mk [(1262, 1262), (1259, 16384)] (zeros (8 * 62)) 0x15E3B201 [])) = false := by
  decide +kernel

/-- The layouts overlap byte for byte.  The image of ANY well-formed 12–15 map followed by at least 12 bytes is, member
by member, the image of a well-formed 16 map with the same mappings (slots 62 and 63 = the old crc, padding and the next 8
bytes; crc = the four bytes at 520) followed by the rest.  So nothing in the bytes but the crc tells the layouts apart, and
the carve-outs `h16` / `h12` above are inherent. -/
theorem C20_relmap_overlap (m : RelMap) (h : m.WF) (tail : Bytes) (ht : 12 ≤ tail.length) :
    (as16 m tail).WF16 ∧ (as16 m tail).mappings = m.mappings ∧
    encRelMap m ++ tail = encRelMap (as16 m tail) ++ tail.drop 12 :=
  ⟨as16_wf m h tail ht, rfl, as16_enc m tail ht⟩

/-- The corner is inhabited — for EVERY intact 12–15 map and every 8 bytes `t8`: the 524-byte image
map ++ t8 ++ CRC-32C(map ++ t8) verifies under BOTH layouts; it is an intact 12–15 file with 12 trailing bytes and an
intact 16 file at once, and ParseRelMapFile reads it as the 16 one (crc = the last four bytes), where the 12–15 reading
has crc = `m.crc`.  No reader can do better on these bytes. -/
theorem C20_relmap_collision (m : RelMap) (h : m.WF) (hi : m.Intact .v12) (t8 : Bytes) (h8 : t8.length = 8) :
    relmapCrcOk .v12 (encRelMap m ++ (t8 ++ le 4 (crc32c (encRelMap m ++ t8)))) = true ∧
    relmapCrcOk .v16 (encRelMap m ++ (t8 ++ le 4 (crc32c (encRelMap m ++ t8)))) = true ∧
    Model.parseRelMapFile (encRelMap m ++ (t8 ++ le 4 (crc32c (encRelMap m ++ t8)))) =
      .ok (some { magic := relmapMagic, numMappings := m.mappings.length, mappings := m.mappings.map toMapping,
                  crc := crc32c (encRelMap m ++ t8) }) := by
  obtain ⟨c12, c16⟩ := collision_both m h hi t8 h8
  refine ⟨c12, c16, ?_⟩
  have ht : 12 ≤ (t8 ++ le 4 (crc32c (encRelMap m ++ t8))).length := by simp [h8]
  have hd : (t8 ++ le 4 (crc32c (encRelMap m ++ t8))).drop 12 = [] := by
    apply List.drop_eq_nil_of_le; simp [h8]
  have hw := as16_wf m h _ ht
  have he := as16_enc m _ ht
  rw [hd] at he
  have hint : (as16 m (t8 ++ le 4 (crc32c (encRelMap m ++ t8)))).Intact .v16 := by
    have := enc16_crcOk16 _ hw []
    rw [← he, c16] at this
    unfold RelMap.Intact
    exact (beq_iff_eq.mp this.symm)
  have hp := parseRelMapFile_enc16 _ hw [] (isV16Of_enc16 _ hw [] (Or.inl hint))
  rw [← he] at hp
  rw [hp]
  have hc : (as16 m (t8 ++ le 4 (crc32c (encRelMap m ++ t8)))).crc = crc32c (encRelMap m ++ t8) := by
    show rd 4 ((t8 ++ le 4 (crc32c (encRelMap m ++ t8))).drop 8) = _
    rw [List.drop_left' h8]
    have := rd_le 4 (crc32c (encRelMap m ++ t8)) [] (crc32c_lt _)
    simpa using this
  rw [hc]; rfl

set_option maxRecDepth 100000 in
/-- on the example map the two readings differ: the 16 reading's crc is not the stored 12–15 crc -/
example : exMap12.WF ∧ exMap12.Intact .v12 ∧ crc32c (encRelMap exMap12 ++ zeros 8) ≠ exMap12.crc := by decide +kernel

/-- the defect fixes/control/09 removes (REVIEW B7), on the model of the code as written: on a PostgreSQL 16 file with two
mappings and stored crc 0x15E3B201 it reported the mapoid of slot 62 (here 0) as the crc -/
theorem witness_B7_crc :
    (Model.Orig.parseRelMapFile (encRelMap (RelMap.mk [(1262, 1262), (1259, 16384)] (zeros (8 * 62)) 0x15E3B201 []))).map
      (fun r => r.map (·.crc)) = .ok (some 0) := by decide +kernel

/-- … and it rejected the counts 63 and 64, which are legal in PostgreSQL 16 -/
theorem witness_B7_count :
    Model.Orig.parseRelMapFile (encRelMap (RelMap.mk ((List.range 64).map fun i => (1000 + i, 2000 + i)) [] 7 [])) = .ok none := by
  decide +kernel

set_option maxRecDepth 100000 in
/-- the defect fixes/control/21 removes, on the model of the code between patches 09 and 21 (layout by `len(data) == 524`):
the intact 16 map `exMap16` followed by one byte (or zero-padded to 8 KiB: family relmap #120) was read with the 12–15
layout — the mapoid of slot 62 (here 0) reported as the crc — where the repaired code reports the stored crc -/
theorem witness_R21_crc :
    (Model.Orig.parseRelMapFileBySize (encRelMap exMap16 ++ [0])).map (fun r => r.map (·.crc)) = .ok (some 0) ∧
    (Model.parseRelMapFile (encRelMap exMap16 ++ [0])).map (fun r => r.map (·.crc)) = .ok (some exMap16.crc) ∧
    exMap16.crc ≠ 0 := by
  refine ⟨by decide +kernel, ?_, by decide +kernel⟩
  rw [C20_relmap_v16 exMap16 (by decide +kernel) (by decide +kernel) [0]]; rfl

set_option maxRecDepth 100000 in
/-- … and 64 mappings followed by one byte (family relmap #121) were rejected ("invalid number of mappings: 64") -/
theorem witness_R21_count :
    Model.Orig.parseRelMapFileBySize (encRelMap (RelMap.mk ((List.range 64).map fun i => (1000 + i, 2000 + i)) [] 7 []) ++ [0]) = .ok none ∧
    ∃ rm, Model.parseRelMapFile (encRelMap (RelMap.mk ((List.range 64).map fun i => (1000 + i, 2000 + i)) [] 7 []) ++ [0]) = .ok (some rm) ∧
      rm.numMappings = 64 := by
  refine ⟨by decide +kernel, _, C20_relmap_v16_full _ (by decide +kernel) (by decide +kernel) [0], rfl⟩

/-- Acceptance, for EVERY byte string: ParseRelMapFile returns a map iff the image has at least 512 bytes, the magic
0x592717 and a possible count — `Spec.relmapCountOk`: 0 ≤ count ≤ MAX_MAPPINGS of a layout whose struct fits in the
image (0..62 from 512 bytes on, 0..64 from 524 bytes on).  Images with a wrong magic or an impossible count are
rejected, and nothing else is. -/
theorem C20_relmap_accept_iff (bs : Bytes) :
    (∃ rm, Model.parseRelMapFile bs = .ok (some rm)) ↔
      512 ≤ bs.length ∧ rdAt 4 0 bs = 0x592717 ∧ relmapCountOk bs.length (toSigned 32 (rdAt 4 4 bs)) :=
  parseRelMapFile_accept_iff bs

/-- Rejection: a file shorter than 512 bytes, a wrong magic or an impossible count gives the error return (no panic). -/
theorem C20_relmap_reject (bs : Bytes)
    (h : bs.length < 512 ∨ rdAt 4 0 bs ≠ 0x592717 ∨ ¬ relmapCountOk bs.length (toSigned 32 (rdAt 4 4 bs))) :
    Model.parseRelMapFile bs = .ok none := by
  obtain ⟨r, hr⟩ := parseRelMapFile_total bs
  cases r with
  | none => exact hr
  | some rm =>
    obtain ⟨a1, a2, a3⟩ := (parseRelMapFile_accept_iff bs).mp ⟨rm, hr⟩
    rcases h with h | h | h
    · omega
    · exact absurd a2 h
    · exact absurd a3 h

example : ¬ relmapCountOk 8192 (toSigned 32 (2 ^ 32 - 1)) ∧ ¬ relmapCountOk 512 63 ∧ ¬ relmapCountOk 8192 65 := by decide

/-- … and whatever is accepted has at least 512 bytes, the magic, the stored count, which is a possible one, and no
more mappings than the count. -/
theorem C20_relmap_accept (bs : Bytes) (rm : Model.RelMapFile) (h : Model.parseRelMapFile bs = .ok (some rm)) :
    bs.length ≥ 512 ∧ rm.magic = 0x592717 ∧ rdAt 4 0 bs = 0x592717 ∧ relmapCountOk bs.length rm.numMappings ∧
    rm.numMappings = toSigned 32 (rdAt 4 4 bs) ∧ rm.mappings.length ≤ rm.numMappings.toNat :=
  parseRelMapFile_accept bs rm h

/-- The count bound in numbers: an accepted count lies in 0..64, in 0..62 when the image is shorter than 524 bytes. -/
theorem C20_relmap_count_bound (bs : Bytes) (rm : Model.RelMapFile) (h : Model.parseRelMapFile bs = .ok (some rm)) :
    0 ≤ rm.numMappings ∧ rm.numMappings ≤ 64 ∧ (bs.length < 524 → rm.numMappings ≤ 62) ∧ rm.mappings.length ≤ 64 := by
  obtain ⟨_, _, _, hc, _, hm⟩ := parseRelMapFile_accept bs rm h
  have s12 : RelMapLayout.v12.size = 512 := by decide
  have s16 : RelMapLayout.v16.size = 524 := by decide
  have m12 : RelMapLayout.v12.maxMappings = 62 := rfl
  have m16 : RelMapLayout.v16.maxMappings = 64 := rfl
  unfold relmapCountOk relmapCountFits at hc
  rw [s12, s16, m12, m16] at hc
  omega

set_option maxRecDepth 100000 in
example : ∃ rm, Model.parseRelMapFile (encRelMap exMap16) = .ok (some rm) :=
  ⟨_, by have := C20_relmap_v16 exMap16 (by decide +kernel) (by decide +kernel) []; simpa using this⟩

/-- Lookups.  GetFilenode / GetOID return the first stored match, or 0 when there is none. -/
theorem C20_lookup (ms : List (Nat × Nat)) (k : Nat) :
    Model.relMapGetFilenode (ms.map toMapping) k = filenodeOf ms k ∧ Model.relMapGetOID (ms.map toMapping) k = oidOf ms k :=
  ⟨relMapGetFilenode_eq ms k, relMapGetOID_eq ms k⟩

example : filenodeOf [(1262, 1262), (1259, 16384), (1262, 7)] 1262 = 1262 ∧ oidOf [(5, 9), (6, 9)] 9 = 5 ∧
    filenodeOf [(5, 9)] 6 = 0 := by decide

/-- GetEnhancedMappings keeps every mapping, in stored order, and only adds a name. -/
theorem C20_enhanced (names : List (Nat × String)) (ms : List Model.RelMapping) :
    (Model.getEnhancedMappings names ms).map (fun e => (⟨e.oid, e.filenode⟩ : Model.RelMapping)) = ms := by
  unfold Model.getEnhancedMappings
  induction ms with
  | nil => rfl
  | cons m t ih => simp only [List.map_cons, ih]

/-- the constants the model uses are the code's (Generated/Control.lean is produced by executing the code) -/
theorem C20_constants : Generated.Control.relMapMagic = relmapMagic ∧ Generated.Control.relMapMaxMappings = relmapMax ∧
    Generated.Control.sequenceMagic = seqMagic := by decide

/-! ### the defects the repairs remove, on the model of the code as written (Model.Orig) -/

/-- A62a: last_value = 20 (low word looks like the type oid of int8) made the parser fail -/
theorem witness_A62_guess :
    Model.Orig.parseSequenceFile (encSeqPage (Gen.plainSeqPage 20 true)) = .ok none := by decide +kernel

/-- A62b: is_called was never read -/
theorem witness_A62_called :
    Model.Orig.parseSequenceFile (encSeqPage (Gen.plainSeqPage 42 true)) = .ok (some { lastValue := 42, isCalled := false }) := by
  decide +kernel

/-- A63: the magic was compared as u16: a page whose special space holds 0xABCD1717 was accepted -/
theorem witness_A63 :
    Model.Orig.isSequenceFile (zeros 16 ++ le 2 8184 ++ zeros (8184 - 18) ++ le 4 0xABCD1717 ++ zeros 4) = .ok true := by
  decide +kernel

end PgVerif.Props.C20
