/-
  C07 — array values decode to their elements and NULL positions.
  Property theorems only; helper lemmas are in Proofs/Arrays*.lean.

  Spec side (Spec/Arrays.lean): an array is (element type from the Spec's own pg_type table, 0..6 dimensions, lower
  bounds, one optional datum per element in row-major order); `encArray` is PostgreSQL's on-disk layout (dataoffset
  counted from the varlena start, null bitmap LSB first with bit set = present, data at MAXALIGN, every stored element
  aligned to the element type's typalign relative to the varlena start, fixed elements of typlen bytes, varlena
  elements with 1-byte or 4-byte headers, ndim = 0 for the empty array).
  Model side (Model/Arrays.lean): types.go's array code after the patches of /verif/fixes/arrays, parametric in the
  element decoder `dec` = `DecodeType` on the element's bytes.

  Two things the statements below do NOT say, because the code's result cannot carry them:
   * the result is the FLAT list of the elements in storage order; `decodeArray` never reads the dimension sizes beyond
     their product, nor the lower bounds: `{{1,2},{3,4}}` and `{1,2,3,4}` decode to the same list, and "every lower
     bound" of the property's quantifier is covered only in the sense that no lower bound disturbs the element list;
   * "NULL exactly at the NULL positions" is relative to the element decoder: the theorems place `dec payload` at every
     non-NULL position, but the REAL `DecodeType` answers nil — the same Go value as for a NULL — for an element whose bytes
     it cannot decode (a numeric with a non-digit word, a value shorter than its fixed width); for the valid stored values
     of C04/C05/C06 it never does (their round-trip theorems return non-nil values), and the composed function
     (array + real element decoders) is compared with the real code, values and all, by family `sc_closed`.
-/
import PgVerif.Proofs.ArraysEnc
import PgVerif.Proofs.ArraysTables
import PgVerif.Model.Scalars
namespace PgVerif.Props.C07
open PgVerif PgVerif.Model.Arrays PgVerif.Proofs.Arrays
open PgVerif.Spec.Arrays (PgArray Datum encArray view viewElems elemView elemValue emptyValue pgArrayTypes)

/-- For EVERY element decoder `dec` and every well-formed array — any array type of the table, 0..6 dimensions, any
lower bounds, any number of elements up to PostgreSQL's MaxArraySize, any NULL pattern (none … all; also a stored
bitmap without any NULL), fixed elements of
any width/alignment, varlena elements with short or long headers of any length — decoding the stored value yields the
elements in storage (row-major) order: nil exactly at the NULL positions, and at every other position the scalar
decoding (`dec`) of exactly that element's bytes with the element type's oid (`Spec.Arrays.elemView`: a
variable-length element whose payload is empty is the empty string for text, varchar, bpchar, xml and `\\x` for bytea —
a value, not NULL — and `dec` of the empty byte string for any other type).  If `dec` faults (panics) on some
element, the array decoding faults, and on the first such element in storage order.  The empty array (ndim = 0) yields
the empty list. -/
theorem C07_elems (dec : Dec) (a : PgArray) (h : a.WF) :
    decodeType dec (encArray a) a.et.arrayOid = view dec a :=
  decodeType_enc dec a h

/-- The same for an element decoder that never faults, in closed form: the result is the list of the elements with
`nil` for NULL and otherwise `f payload elemOid` — except that a variable-length element with an empty payload of a
text-like type is the empty string (`\\x` for bytea), a value distinct from NULL (`Spec.Arrays.elemValue`). -/
theorem C07_elems_pure (f : Bytes → Nat → GoVal) (a : PgArray) (h : a.WF) :
    decodeType (fun b o => .ok (f b o)) (encArray a) a.et.arrayOid
      = .ok (.arr (a.elems.map fun e => match e with | none => .nil | some d => elemValue f a.et.decodeAs d)) := by
  rw [C07_elems _ a h]
  unfold view
  have he : ∀ d : Datum, elemView (fun b o => .ok (f b o)) a.et.decodeAs d = .ok (elemValue f a.et.decodeAs d) := by
    intro d
    cases d with
    | fixed bs => rfl
    | short p =>
      simp only [elemView, elemValue]
      split
      · cases emptyValue a.et.decodeAs <;> rfl
      · rfl
    | long p =>
      simp only [elemView, elemValue]
      split
      · cases emptyValue a.et.decodeAs <;> rfl
      · rfl
  have hv : ∀ es : List (Option Datum), viewElems (fun b o => .ok (f b o)) a.et.decodeAs es
      = .ok (es.map fun e => match e with | none => GoVal.nil | some d => elemValue f a.et.decodeAs d) := by
    intro es
    induction es with
    | nil => rfl
    | cons e es ih => cases e <;> simp [viewElems, ih, he]
  rw [hv]; rfl

/-- The empty array is reported as an empty list (a value), not as nil (which is how a NULL is reported). -/
theorem C07_empty (dec : Dec) (a : PgArray) (h : a.WF) (hd : a.dims = []) :
    decodeType dec (encArray a) a.et.arrayOid = .ok (.arr []) := by
  rw [C07_elems dec a h]
  obtain ⟨_, _, _, _, _, hcnt, _⟩ := h
  rw [if_pos hd] at hcnt
  unfold view; rw [hcnt.1]; rfl

/-- The array tables of the code are PostgreSQL's pg_type.  `arrayElemTypes` — the table of both Lean models of DecodeType —
is read from the map literal in the current Go source on every run (`Generated.Arrays.arrayElemTypes` for `Model.Arrays`,
`Generated.Scalars.arrayElemTypes` for `Model.Scalars`: one per area's harness; the last conjunct proves them equal, so a
stale or diverging copy breaks this theorem); the code's behaviour is observed by executing it (`Generated.Arrays`: which
oids DecodeType treats as arrays; with which width — or as varlenas — and alignment it reads their elements; which scalar
decoders give the same answers as the element decoder it applies).  For every array type of the Spec's table the code reads
elements of width typlen (varlenas for typlen = −1) aligned to typalign and decodes them as the element type; the code
treats no other oid up to 5000 as an array; the source table has exactly the observed array oids as keys, its element oid
is among the observed element decoders, and it is the Spec's `decodeAs` (pg_type's element type; `regproc` is stored as
an oid); the element layout the model derives from it is the observed one. -/
theorem C07_tables :
    (∀ t ∈ pgArrayTypes,
      t.arrayOid ∈ Generated.Arrays.arrayOids ∧
      Generated.Arrays.layout.lookup t.arrayOid = some ((if t.typlen > 0 then t.typlen.toNat else 0), t.typalign) ∧
      t.decodeAs ∈ (Generated.Arrays.elemCands.lookup t.arrayOid).getD [] ∧
      arrayElemTypes.lookup t.arrayOid = some t.decodeAs) ∧
    (∀ o ∈ Generated.Arrays.arrayOids, o ∈ pgArrayTypes.map (·.arrayOid)) ∧
    (∀ o ∈ Generated.Arrays.arrayOids, (arrayElemTypes.lookup o).isSome = true) ∧
    (∀ p ∈ arrayElemTypes, p.1 ∈ Generated.Arrays.arrayOids) ∧
    (∀ r ∈ Generated.Arrays.elemCands, (match arrayElemTypes.lookup r.1 with | some e => decide (e ∈ r.2) | none => false) = true) ∧
    (∀ r ∈ Generated.Arrays.layout, (arrayElemTypes.lookup r.1).map elemLayout = some (r.2.1, decide (0 < r.2.1), r.2.2)) ∧
    Model.Scalars.arrayElemTypes = arrayElemTypes := by
  refine ⟨by decide, by decide, gen_arrayOids_sub, model_arrayOids_sub, gen_elemCands, gen_layout, by decide⟩

/-- non-vacuity: `{1,NULL,3}::int4[]` (one dimension, lower bound 1, a NULL in the middle),
`{1,2}::int4[]` stored with an all-present null bitmap, a two-dimensional
`macaddr[]` (6-byte elements with 4-byte alignment, lower bounds 0 and −5), a `text[]` mixing a short-header, a NULL
and a long-header element, and the empty `timetz[]` are all well-formed -/
example :
    let int4 := pgArrayTypes.getD 6 default
    let mac := pgArrayTypes.getD 23 default
    let text := pgArrayTypes.getD 8 default
    let timetz := pgArrayTypes.getD 31 default
    int4.arrayOid = 1007 ∧ mac.arrayOid = 1040 ∧ text.arrayOid = 1009 ∧ timetz.arrayOid = 1270 ∧
    (⟨int4, [3], [1], [some (.fixed [1, 0, 0, 0]), none, some (.fixed [3, 0, 0, 0])], false⟩ : PgArray).WF ∧
    (⟨int4, [2], [1], [some (.fixed [1, 0, 0, 0]), some (.fixed [2, 0, 0, 0])], true⟩ : PgArray).WF ∧
    (⟨mac, [2, 1], [0, -5], [some (.fixed [1, 2, 3, 4, 5, 6]), some (.fixed [7, 8, 9, 10, 11, 12])], false⟩ : PgArray).WF ∧
    (⟨text, [3], [1], [some (.short [97]), none, some (.long [98, 98])], false⟩ : PgArray).WF ∧
    (⟨timetz, [], [], [], false⟩ : PgArray).WF := by
  decide

/-- … and the encoder lays `{1,NULL,3}` out as PostgreSQL does: dataoffset 32 counted from the varlena start, bitmap
byte 0b101, seven bytes of padding, the two stored elements -/
example :
    encArray ⟨pgArrayTypes.getD 6 default, [3], [1], [some (.fixed [1, 0, 0, 0]), none, some (.fixed [3, 0, 0, 0])], false⟩
      = [1, 0, 0, 0, 32, 0, 0, 0, 23, 0, 0, 0, 3, 0, 0, 0, 1, 0, 0, 0, 5, 0, 0, 0, 0, 0, 0, 0, 1, 0, 0, 0, 3, 0, 0, 0] := by
  decide

end PgVerif.Props.C07
