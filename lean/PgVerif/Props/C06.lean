/-
  C06 — JSONB documents decode to an equal JSON document.
  Property theorems only; helper lemmas are in Proofs/Jsonb.lean and Proofs/JsonbRound.lean.
-/
import PgVerif.Proofs.JsonbRound
namespace PgVerif.Props.C06
open PgVerif PgVerif.Model PgVerif.Proofs

/-- The arithmetic core, for every container size and ANY placement of HAS_OFF flags (PostgreSQL's
stride of 32 over the combined key+value entry array is one instance): for children of lengths `lens`
and arbitrary types, encoded as JEntries that carry the child's length — or, where flagged, the end
offset of the child —, `entryOffLen` returns for every index the child's start (the sum of the
lengths before it) and its length.  No bound on the number of entries; the only size hypothesis is
PostgreSQL's own (the data area is below 2^28 bytes, so that every value fits the 28-bit field). -/
theorem C06_offsets (lens tys : List Nat) (flags : Nat → Bool) (idx base : Nat) (hidx : idx < lens.length)
    (hsmall : pre lens lens.length < 0x10000000) (hty : ∀ i, tys.getD i 0 < 8) :
    entryOffLen (encE lens tys flags) idx base = .ok (base + pre lens idx, (lens.getD idx 0 : Int)) := by
  rw [entryOffLen_ok _ _ _ (by rw [encE_length]; exact hidx)]
  rw [entryOffLenPure_encE lens tys flags hsmall hty idx base hidx]

/-- non-vacuity: 40 children of length 3 with HAS_OFF on every 32nd entry — entry 33 starts at 99 -/
example : entryOffLen (encE (List.replicate 40 3) [] (fun i => i % 32 == 0)) 33 0 = .ok (99, 3) := by
  rfl

/-- The full statement of C06 for the parser as it is: for every well-formed document (object keys
sorted and distinct, numerics well-formed) whose containers stay within the implementation's limit of
10 000 elements / pairs and whose encoding is below 2^28 bytes, parsing PostgreSQL's binary encoding
yields the document's view (same nesting, keys, values, order; numbers by exact value).
This is a definition (the goal), not a theorem; `C06_roundtrip_partial` proves it for the documents
without objects. -/
def C06_roundtrip_statement : Prop :=
  ∀ j : Spec.Json, j.wf = true → countsOK j = true → (Spec.encJsonb j).length < 0x10000000 →
    (parseJSONB (Spec.encJsonb j)).map JV.toView = .ok j.view

/-- Round trip, proved for every document built from arrays (nested to any depth, any size up to the
implementation's 10 000-element limit — hence crossing the 32-entry offset stride any number of times —
including empty arrays at any depth), strings of any length, booleans, null and well-formed numerics
(any amount of alignment padding), as a container root or a scalar root: `ParseJSONB` applied to
PostgreSQL's encoding returns exactly the document (numbers by their exact value, see C05).
What is missing for the full statement: objects (`arraysOnly` excludes them).  The ingredients that are
specific to objects are proved separately — `C06_offsets` covers the shared key/value entry array with
offsets counted over the whole array — but the induction step for `parseJSONBObject` (keys, then values
at index count+i, then the Go map built from pairwise distinct keys) is not done; objects are covered by
the correspondence runs only. -/
theorem C06_roundtrip_partial (j : Spec.Json) (hs : arraysOnly j = true)
    (hsize : (Spec.encJsonb j).length < 0x10000000) :
    (parseJSONB (Spec.encJsonb j)).map JV.toView = .ok j.view :=
  roundtrip_arraysOnly j hs hsize

/-- non-vacuity: `["hi", -0.5, [null, true, []], []]` satisfies the hypotheses -/
example : arraysOnly (.arr [.str [0x68, 0x69], .num (.fin true (-1) 1 [5000]) false,
      .arr [.null, .bool true, .arr []], .arr []]) = true ∧
    (Spec.encJsonb (.arr [.str [0x68, 0x69], .num (.fin true (-1) 1 [5000]) false,
      .arr [.null, .bool true, .arr []], .arr []])).length < 0x10000000 := by
  decide

end PgVerif.Props.C06
