/-
  C06 — JSONB documents decode to an equal JSON document.
  Property theorems only; helper lemmas are in Proofs/Jsonb.lean, Proofs/JsonbRound.lean and Proofs/JsonbGo.lean.

  Numbers.  `ParseJSONB` returns Go values, and a JSON number in Go is a `float64`: the code builds the exact decimal
  text of the stored numeric and returns `strconv.ParseFloat` of it (C05).  Two levels are therefore stated:
   * `C06_roundtrip` — exact: the document with every number read as the decimal its text denotes (`JV.toView`);
     this is "same nesting, keys, values, order" with numbers compared by their exact value, a quantity the code holds
     only as text;
   * `C06_roundtrip_go` — what the caller gets: under ParseFloat's contract (`Spec.ParseFloatOK`) the returned Go value
     is the document with every number replaced by the float64 NEAREST to it.  Numbers are thus compared AS DOUBLES:
     two stored numbers that round to the same double (9007199254740993 and 9007199254740992) decode to the same value —
     inherent to float64 JSON numbers, not a loss the property excludes ("to double precision", C05).
  Outside these statements: Go's `int` is taken as unbounded (true on 64-bit platforms: offsets stay below 2^28·len/4; on
  a 32-bit `int` the running end offset of hostile entry arrays could wrap); the recursion ParseJSONB → decodeJEntry →
  ParseJSONB has no depth limit in the code — the model is total at any depth, the Go stack is not (≈ 272 bytes per level:
  fatal only beyond ≈ 3.7 million levels ≈ 30 MB of input; family jsonb_alias runs 4 000 and 8 000 levels).
-/
import PgVerif.Proofs.JsonbKeys
import PgVerif.Proofs.JsonbGo
namespace PgVerif.Props.C06
open PgVerif PgVerif.Model PgVerif.Proofs

/-- The arithmetic core, for every container size and ANY placement of HAS_OFF flags (PostgreSQL's
stride of 32 over the combined key+value entry array is one instance): for children of lengths `lens`
and arbitrary types, encoded as JEntries that carry the child's length — or, where flagged, the end
offset of the child —, the single forward pass of `ParseJSONB` (fix 10) accepts the entry array and
returns exactly the prefix sums `lens[0], lens[0]+lens[1], …` as end offsets; hence the loops of
parseJSONBArray / parseJSONBObject hand to `decodeJEntry`, for every index, the child's start (the
sum of the lengths before it) and its length.  No bound on the number of entries; the only size
hypothesis is PostgreSQL's own (the data area is below 2^28 bytes, so that every value fits the 28-bit
field). -/
theorem C06_offsets (lens tys : List Nat) (flags : Nat → Bool)
    (hsmall : pre lens lens.length < 0x10000000) (hty : ∀ i, tys.getD i 0 < 8) :
    endsFrom 0 (encE lens tys flags) = some (presFrom lens 0 lens.length) ∧
    (∀ idx, idx < lens.length → (presFrom lens 0 lens.length).getD idx 0 = pre lens (idx + 1)) ∧
    (∀ idx, idx < lens.length →
      spanAt (presFrom lens 0 lens.length) idx = (pre lens idx, (lens.getD idx 0 : Int))) :=
  ⟨endsFrom_encE lens tys flags hsmall hty,
   fun idx h => by rw [getD_presFrom lens 0 _ idx h, Nat.zero_add],
   fun idx h => spanAt_presFrom lens idx h⟩

/-- non-vacuity: 40 children of length 3 with HAS_OFF on every 32nd entry — the forward pass gives the end
offsets 3, 6, …, 120; entry 33 starts at 99 -/
example : (endsFrom 0 (encE (List.replicate 40 3) [] (fun i => i % 32 == 0))).map (fun ends => (ends.getD 39 0, spanAt ends 33)) =
    some (120, (99, 3)) := by
  rfl

/-- The same for `entryOffLen` / `endOffset` (backward scan to the nearest HAS_OFF entry, then forward
sum), which ParseJSONB used before fix 10 and which are still in the source: they return the same start
and length for every index. -/
theorem C06_offsets_entryOffLen (lens tys : List Nat) (flags : Nat → Bool) (idx base : Nat) (hidx : idx < lens.length)
    (hsmall : pre lens lens.length < 0x10000000) (hty : ∀ i, tys.getD i 0 < 8) :
    entryOffLen (encE lens tys flags) idx base = .ok (base + pre lens idx, (lens.getD idx 0 : Int)) := by
  rw [entryOffLen_ok _ _ _ (by rw [encE_length]; exact hidx)]
  rw [entryOffLenPure_encE lens tys flags hsmall hty idx base hidx]

/-- non-vacuity: 40 children of length 3 with HAS_OFF on every 32nd entry — entry 33 starts at 99 -/
example : entryOffLen (encE (List.replicate 40 3) [] (fun i => i % 32 == 0)) 33 0 = .ok (99, 3) := by
  rfl

/-- What a caller of `DecodeType(data, OidJSONB)` sees: a decoded document, or (fallback) a raw string. -/
def docOf : DecodeRes → Option Spec.JView
  | .val v => some v.toView
  | .raw _ => none

/-- Round trip.  For EVERY well-formed JSON document — any nesting of objects and arrays, object keys
in PostgreSQL's strict (length, bytes) order, strings and keys of any length below 2^28, every
well-formed numeric, booleans, null; empty objects and arrays at any depth; a container root or a
scalar root; containers with any number of elements / pairs (fix 10 removed the implementation's cap
of 10 000, former finding J10K) — whose encoding is below 2^28 bytes (PostgreSQL's own limit for the
offsets), `ParseJSONB` applied to PostgreSQL's binary encoding returns exactly the document: same
nesting, same keys, same values (numbers by the exact value of the decimal text handed to ParseFloat, see C05 and
`C06_roundtrip_go` for the float64 actually returned), same order.  The 32-entry
offset stride is crossed any number of times in the key half, the value half and in arrays; any amount
of alignment padding. -/
theorem C06_roundtrip (j : Spec.Json) (h : j.wf = true)
    (hsize : (Spec.encJsonb j).length < 0x10000000) :
    (parseJSONB (Spec.encJsonb j)).map JV.toView = .ok j.view :=
  roundtrip_covered j (covered_of_wf j h) hsize

/-- Round trip at the level of the Go value returned.  Let `pf` be a text-to-float64 conversion with ParseFloat's contract.
For every well-formed document with an encoding below 2^28 bytes, `ParseJSONB` returns the document — same nesting, keys,
strings, booleans, nulls, order — with every number being the float64 nearest to the stored numeric's exact value
(bit for bit; NaN / ±Infinity as such).  Go `int(0)` (a numeric stored without digits) is read as the float64 0
(`Spec.numAsF64`).  Numbers are compared as doubles: see the file header. -/
theorem C06_roundtrip_go (pf : ParseFloat) (hpf : Spec.ParseFloatOK pf) (j : Spec.Json) (h : j.wf = true)
    (hsize : (Spec.encJsonb j).length < 0x10000000) :
    (parseJSONB (Spec.encJsonb j)).map (fun v => Spec.numAsF64 (v.toGo pf)) = .ok j.view.toGo := by
  have hr := roundtrip_covered j (covered_of_wf j h) hsize
  cases hp : parseJSONB (Spec.encJsonb j) with
  | error e => rw [hp] at hr; simp [Except.map] at hr
  | ok v =>
    rw [hp] at hr
    simp only [Except.map, Except.ok.injEq] at hr ⊢
    rw [← hr]
    exact JsonbGo.jv_toGo pf hpf v (by rw [hr]; exact JsonbGo.view_decodable j)

/-- the float64 caveat on a concrete document: `[9007199254740993]` comes back as `[9007199254740992.0]`, which IS the
nearest double of the stored number -/
example : (Spec.Json.arr [.num (.fin false 3 0 [9007, 1992, 5474, 993]) false]).view.toGo = .arr [.f64 0x4340000000000000] := by
  have h : (Spec.Numeric.fin false 3 0 [9007, 1992, 5474, 993]).view.bits = 0x4340000000000000 := by decide +kernel
  show GoVal.arr [GoVal.f64 (Spec.Numeric.fin false 3 0 [9007, 1992, 5474, 993]).view.bits] = _
  rw [h]

/-- The same with the weaker hypothesis actually used by the proof: object keys need only be pairwise
distinct (`covered`), not sorted. -/
theorem C06_roundtrip_distinct_keys (j : Spec.Json) (hs : covered j = true)
    (hsize : (Spec.encJsonb j).length < 0x10000000) :
    (parseJSONB (Spec.encJsonb j)).map JV.toView = .ok j.view :=
  roundtrip_covered j hs hsize

/-- Through `DecodeType(data, OidJSONB)`: the same document, and never the raw-string fallback — in
particular `{}`, `[]` (fix 05) and the document `null` (fix 06), which used to come back as strings of
raw bytes.  (The distinction document / fallback is the model's: in Go both a JSON string document and the fallback are a
`string`; for a string root the two could only be told apart by content — the fallback is the raw encoding, which begins
with the container header bytes.) -/
theorem C06_decodeType (j : Spec.Json) (h : j.wf = true)
    (hsize : (Spec.encJsonb j).length < 0x10000000) :
    (decodeTypeJSONB (Spec.encJsonb j)).map docOf = .ok (some j.view) := by
  have hr := C06_roundtrip j h hsize
  by_cases hn : j.view = .null
  · -- the only document whose view is null is `null`
    have : (Spec.encJsonb j) = Spec.encJsonb .null := by
      cases j with
      | null => rfl
      | bool b => exact absurd hn (by simp [Spec.Json.view])
      | num n l => exact absurd hn (by simp [Spec.Json.view])
      | str s => exact absurd hn (by simp [Spec.Json.view])
      | arr xs => exact absurd hn (by simp [Spec.Json.view])
      | obj kvs => exact absurd hn (by simp [Spec.Json.view])
    rw [this, hn]
    rfl
  · unfold decodeTypeJSONB
    have hl : ((Spec.encJsonb j).length == 0) = false := by
      cases hp : parseJSONB (Spec.encJsonb j) with
      | error e => rw [hp] at hr; simp [Except.map] at hr
      | ok v =>
        by_cases h0 : (Spec.encJsonb j).length = 0
        · have : Spec.encJsonb j = [] := List.eq_nil_of_length_eq_zero h0
          rw [this] at hp hr
          have : parseJSONB [] = .ok .nil := rfl
          rw [this] at hr
          simp only [Except.map, Except.ok.injEq] at hr
          exact absurd hr.symm hn
        · simpa using h0
    simp only [hl, Bool.false_eq_true, if_false]
    cases hp : parseJSONB (Spec.encJsonb j) with
    | error e => rw [hp] at hr; simp [Except.map] at hr
    | ok v =>
      rw [hp] at hr
      simp only [Except.map, Except.ok.injEq] at hr
      simp only [ok_bind]
      have hnil : isNil v = false := by
        cases v with
        | nil => exact absurd hr.symm hn
        | _ => rfl
      simp only [hnil, Bool.not_false, if_true, pure_eq_ok, Except.map, docOf, hr]

/-- a concrete document: `{"a": ["hi", -0.5, [null, true, []], {}], "bb": {}}` -/
def sampleDoc : Spec.Json :=
  .obj [([0x61], .arr [.str [0x68, 0x69], .num (.fin true (-1) 1 [5000]) false,
      .arr [.null, .bool true, .arr []], .obj []]), ([0x62, 0x62], .obj [])]

/-- non-vacuity: it satisfies the hypotheses of `C06_roundtrip` -/
example : sampleDoc.wf = true ∧ (Spec.encJsonb sampleDoc).length < 0x10000000 := by
  have h : (Spec.encJsonb sampleDoc).length = 84 := rfl
  exact ⟨rfl, by omega⟩

end PgVerif.Props.C06
