/-
  C06 — JSONB documents decode to an equal JSON document.
  Property theorems only; helper lemmas are in Proofs/Jsonb.lean.
-/
import PgVerif.Model.JsonbView
namespace PgVerif.Props.C06
open PgVerif PgVerif.Model

/-- placeholder while the pipeline is brought up -/
theorem C06_empty_total : totalLen [] = 0 := rfl

end PgVerif.Props.C06
