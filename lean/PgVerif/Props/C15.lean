/-
  C15 — search and secret scan report exactly the matching cells.
  Property theorems only; helper lemmas are in Proofs/Search.lean, Proofs/SearchMain.lean, Proofs/Secrets.lean.

  Spec side (Spec/Search.lean): a dump is a list of databases → tables (declared columns, rows) → rows (finite maps
  column → value, `Row.WF` = distinct keys).  `cellMatches re sh v` says when a value matches (strings directly,
  JSON objects through their keys and values, arrays through their elements, NULL never, other scalars through their
  text `sh`).  `allMatches` lists every matching cell in (database, table, row, column) order; `expected` is the view:
  error for a pattern that does not compile, else the first MaxResults elements of `allMatches`.
  Everything is parametric in the regex engine `R : Regex` (Go's `regexp`: `compile p = none` iff `p` is not valid
  RE2 syntax; a leading `(?i)` = case-insensitive — with Go's engine that is Unicode simple case folding: `(?i)k` also
  matches U+212A KELVIN SIGN, `(?i)é` matches `É`; what `(?i)` means is the engine's business and is exercised against
  the real engine by the families `search` (ASCII) and `searchuni` (non-ASCII case pairs)), in the scalar text `sh`
  (`fmt` `%v`), and for the secret scan in the detectors (`keywords`, `fromData`; a real detector's verdict depends on
  the whole text it is given, so every hypothesis about a detector below is about ONE text: the cell's).
  "Case-insensitively unless asked otherwise" = the effective pattern `Spec.effPattern` (`(?i)` in front unless
  CaseSensitive) that `C15_prefix` is stated with.  MaxResults: a positive value is a bound (`C15_bound`); 0 is the
  documented "unlimited" and negative values behave the same (`C15_unlimited`).  The model is the code AFTER fixes search/01 and search/02 (rows walked in column order); the
  original loops, with Go's map iteration order as an explicit parameter, are `Model.SearchOrig` (finding A39).
-/
import PgVerif.Proofs.SearchMain
import PgVerif.Proofs.SearchOrig
import PgVerif.Proofs.Secrets
import PgVerif.Model.SearchRe
namespace PgVerif.Props.C15
open PgVerif PgVerif.Spec.Search PgVerif.Model.Search PgVerif.Proofs.Search
open scoped List

/-- **Prefix / exactness.**  For every dump (no well-formedness needed), every option set, every regex engine and
scalar text: SearchInDump returns an error when the effective pattern (with `(?i)` in front unless CaseSensitive) does
not compile, and otherwise exactly the first MaxResults matching cells in (database, table, row, column) order — all of
them when MaxResults ≤ 0 — each with database, table, row index, column, the cell's value, and the full row iff IncludeRow. -/
theorem C15_prefix (R : Regex) (sh : GoVal → Bytes) (d : Dump) (o : Opts) : hits R sh d o = expected R sh d o :=
  search_eq_expected R sh d o

/-- **Invalid patterns.**  The search fails exactly when the effective pattern does not compile; no dump makes it fail. -/
theorem C15_invalid (R : Regex) (sh : GoVal → Bytes) (d : Dump) (o : Opts) :
    searchInDump R sh d o = none ↔ R.compile (effPattern o) = none := by
  have h := search_eq_expected R sh d o
  simp only [expected] at h
  cases hc : R.compile (effPattern o) with
  | none => rw [hc] at h; simpa using h
  | some re => rw [hc] at h; cases hs : searchInDump R sh d o <;> simp [hs] at h ⊢

/-- **The directory entry point.**  `Search` on a directory whose dump is `d` returns what `SearchInDump` returns on `d`
(so every theorem above applies to it); nil options and an unreadable directory give the error. -/
theorem C15_search_entry (R : Regex) (sh : GoVal → Bytes) (d : Dump) (o : Opts) :
    search R sh (some d) (some o) = searchInDump R sh d o ∧ search R sh (some d) none = none ∧
    search R sh none (some o) = none := by
  refine ⟨?_, rfl, ?_⟩
  · simp only [search, searchInDump]
  · simp only [search]; cases R.compile _ <;> rfl

/-- **No limit.**  `MaxResults = 0` is the documented "unlimited" (search.go: `MaxResults int // Maximum results
(0 = unlimited)`), and a negative value behaves the same: the result is then EVERY matching cell, in cell order.
(So "never more than the requested maximum" is a statement about MaxResults > 0 only: `C15_bound`.) -/
theorem C15_unlimited (R : Regex) (sh : GoVal → Bytes) (d : Dump) (o : Opts) (hmax : o.maxResults ≤ 0) (re : Bytes → Bool)
    (hc : R.compile (effPattern o) = some re) : hits R sh d o = some (allMatches re sh o.includeRow d) := by
  rw [C15_prefix]
  simp only [expected, hc]
  rw [if_neg (by omega)]

/-- **Bound.**  With MaxResults > 0 never more than MaxResults hits are returned. -/
theorem C15_bound (R : Regex) (sh : GoVal → Bytes) (d : Dump) (o : Opts) (hmax : o.maxResults > 0)
    (hs : List Hit) (h : hits R sh d o = some hs) : (hs.length : Int) ≤ o.maxResults := by
  rw [C15_prefix] at h
  simp only [expected] at h
  cases hc : R.compile (effPattern o) with
  | none => rw [hc] at h; cases h
  | some re =>
    rw [hc] at h
    simp only [hmax, if_true, Option.some.injEq] at h
    subst h
    simp only [List.length_take]
    omega

/-- **Soundness.**  In a well-formed dump every hit names a real cell — there is a database of that name with a table of
that name whose row number `h.row` has the binding `h.col ↦ h.value` — and that value matches the pattern; the hit
carries that very row iff IncludeRow. -/
theorem C15_sound (R : Regex) (sh : GoVal → Bytes) (d : Dump) (hw : Dump.WF d) (o : Opts) (re : Bytes → Bool)
    (hc : R.compile (effPattern o) = some re) (hs : List Hit) (hh : hits R sh d o = some hs) :
    ∀ h ∈ hs, ∃ row, IsCell d h.db h.table h.row h.col h.value row ∧ cellMatches re sh h.value = true ∧
      h.fullRow = if o.includeRow then some row else none := by
  rw [C15_prefix] at hh
  simp only [expected, hc, Option.some.injEq] at hh
  intro h hmem
  have hall : h ∈ allMatches re sh o.includeRow d := by
    subst hh
    by_cases hmax : o.maxResults > 0
    · rw [if_pos hmax] at hmem; exact List.mem_of_mem_take hmem
    · rw [if_neg hmax] at hmem; exact hmem
  obtain ⟨D, hD, t, ht, row, i, hri, cv, hcv, hm, rfl⟩ := (mem_allMatches re sh o.includeRow d h).1 hall
  have hrw := wf_row_of_getElem? d hw D hD t ht i row hri
  exact ⟨row, ⟨D, hD, rfl, t, ht, rfl, hri, (mem_rowCells t.columns row hrw cv).1 hcv⟩, hm, rfl⟩

/-- **Completeness.**  In a well-formed dump, when there is no limit (MaxResults ≤ 0) or the limit is not smaller than
the number of matching cells, every matching cell of every table of every database is reported, with its coordinates,
its value and (iff IncludeRow) its row. -/
theorem C15_complete (R : Regex) (sh : GoVal → Bytes) (d : Dump) (hw : Dump.WF d) (o : Opts) (re : Bytes → Bool)
    (hc : R.compile (effPattern o) = some re)
    (hlim : o.maxResults ≤ 0 ∨ ((allMatches re sh o.includeRow d).length : Int) ≤ o.maxResults)
    (db tbl : Bytes) (i : Nat) (col : Bytes) (v : GoVal) (row : Row)
    (hcell : IsCell d db tbl i col v row) (hm : cellMatches re sh v = true) :
    ∃ hs, hits R sh d o = some hs ∧
      ({ db := db, table := tbl, row := i, col := col, value := v, fullRow := if o.includeRow then some row else none } : Hit) ∈ hs := by
  rw [C15_prefix]
  simp only [expected, hc]
  refine ⟨_, rfl, ?_⟩
  obtain ⟨D, hD, rfl, t, ht, rfl, hri, hcv⟩ := hcell
  have hrw := wf_row_of_getElem? d hw D hD t ht i row hri
  have hall := (mem_allMatches re sh o.includeRow d _).2
    ⟨D, hD, t, ht, row, i, hri, (col, v), (mem_rowCells t.columns row hrw (col, v)).2 hcv, hm, rfl⟩
  by_cases hmax : o.maxResults > 0
  · rw [if_pos hmax, List.take_of_length_le]
    · exact hall
    · rcases hlim with h | h <;> omega
  · rw [if_neg hmax]; exact hall

/-- **Row attachment.**  Every hit carries the full row it was found in when IncludeRow is set, and no row otherwise
(for every dump; which row that is, is part of `C15_sound`). -/
theorem C15_row (R : Regex) (sh : GoVal → Bytes) (d : Dump) (o : Opts) (hs : List Hit) (hh : hits R sh d o = some hs) :
    ∀ h ∈ hs, h.fullRow.isSome = o.includeRow := by
  rw [C15_prefix] at hh
  simp only [expected] at hh
  cases hc : R.compile (effPattern o) with
  | none => rw [hc] at hh; cases hh
  | some re =>
    rw [hc] at hh
    simp only [Option.some.injEq] at hh
    intro h hmem
    have hall : h ∈ allMatches re sh o.includeRow d := by
      subst hh
      by_cases hmax : o.maxResults > 0
      · rw [if_pos hmax] at hmem; exact List.mem_of_mem_take hmem
      · rw [if_neg hmax] at hmem; exact hmem
    obtain ⟨D, _, t, _, row, i, _, cv, _, _, rfl⟩ := (mem_allMatches re sh o.includeRow d h).1 hall
    cases o.includeRow <;> rfl

/-- **Exactly the matching cells, as multisets.**  On a well-formed dump `allMatches` — hence, by `C15_prefix`, the
result of an unlimited search — is a rearrangement of `matchingCells`: every matching cell of every row of every
table of every database is reported exactly once, and nothing else is. -/
theorem C15_exact (re : Bytes → Bool) (sh : GoVal → Bytes) (incl : Bool) (d : Dump) (hw : Dump.WF d) :
    allMatches re sh incl d ~ matchingCells re sh incl d := by
  simp only [allMatches, matchingCells]
  show (d.flatMap fun D => D.tables.flatMap fun t => t.rows.zipIdx.flatMap (rowHits re sh incl D.name t.name t.columns)) ~ _
  apply Proofs.SearchOrig.perm_flatMap_congr; intro D hD
  apply Proofs.SearchOrig.perm_flatMap_congr; intro t ht
  apply Proofs.SearchOrig.perm_flatMap_congr; intro ri hri
  have hrw : Row.WF ri.1 := wf_row_of_getElem? d hw D hD t ht ri.2 ri.1 (List.mem_zipIdx_iff_getElem?.1 hri)
  exact ((rowCells_perm t.columns ri.1 hrw).filter _).map _

/-- **Multiset form, one row.**  In a row that is a map, the cells visited in column order are a
rearrangement of the row's bindings: each binding is visited exactly once. -/
theorem C15_cells_once (cols : List Bytes) (row : Row) (h : Row.WF row) : rowCells cols row ~ row :=
  rowCells_perm cols row h

/-- **Column order.**  When the declared columns are exactly the row's keys (the normal case: rows decoded from a table
with that schema), the cells are visited in declaration order. -/
theorem C15_column_order (cols : List Bytes) (row : Row) (hn : cols.Nodup) (hk : ∀ c, c ∈ cols ↔ c ∈ row.map (·.1)) :
    colOrder cols row = cols := by
  have hd : ∀ (cs seen : List Bytes), cs.Nodup → (∀ c ∈ cs, c ∈ row.map (·.1) ∧ c ∉ seen) →
      declaredIn (row.map (·.1)) seen cs = cs := by
    intro cs
    induction cs with
    | nil => intro _ _ _; rfl
    | cons c cs ih =>
      intro seen hnd hall
      have hc := hall c List.mem_cons_self
      have hnd' := List.nodup_cons.1 hnd
      have : ((row.map (·.1)).contains c && !seen.contains c) = true := by
        simp only [Bool.and_eq_true, List.contains_iff_mem, Bool.not_eq_true', ← Bool.not_eq_true]; exact hc
      simp only [declaredIn]
      rw [if_pos this, ih (c :: seen) hnd'.2]
      intro x hx
      refine ⟨(hall x (List.mem_cons_of_mem _ hx)).1, ?_⟩
      intro hmem
      rcases List.mem_cons.1 hmem with rfl | h
      · exact hnd'.1 hx
      · exact (hall x (List.mem_cons_of_mem _ hx)).2 h
  have hdecl := hd cols [] hn (fun c hc => ⟨(hk c).1 hc, List.not_mem_nil⟩)
  simp only [colOrder, hdecl]
  have : (row.map (·.1)).filter (fun k => !cols.contains k) = [] := by
    rw [List.filter_eq_nil_iff]
    intro k hkm
    simp only [Bool.not_eq_true', ← Bool.not_eq_true, List.contains_iff_mem, Classical.not_not]
    exact (hk k).2 hkm
  rw [this]
  simp

/-- **Order independence (C11 for search hits).**  Go walks a map in an arbitrary order; the order in which the fixed
code visits the columns of a row does not depend on it. -/
theorem C15_order_independent (cols : List Bytes) (r₁ r₂ : Row) (hp : r₁ ~ r₂) : rowKeys cols r₁ = rowKeys cols r₂ := by
  rw [rowKeys_eq, rowKeys_eq]; exact colOrder_order_independent cols r₁ r₂ hp

/-- `matchMap` (an "exists" over a Go map) does not depend on the iteration order either. -/
theorem C15_matchMap_order_independent (re : Bytes → Bool) (sh : GoVal → Bytes) (m₁ m₂ : List (Bytes × GoVal))
    (hp : m₁ ~ m₂) : matchMap re sh m₁ = matchMap re sh m₂ := matchMap_perm re sh hp

/-- **When does a value match** (the property's wording, independent of the code's recursion).  `matchValue` answers
true exactly when the pattern matches one of the value's texts `searchTexts`: the string itself for a string; for a JSON
object one of its keys or, recursively, a text of one of its values; for an array, recursively, a text of one of its
elements; for any other scalar its `%v` text; NULL has no text and never matches (not even the empty pattern). -/
theorem C15_matchValue (re : Bytes → Bool) (sh : GoVal → Bytes) (v : GoVal) :
    matchValue re sh v = true ↔ ∃ t ∈ searchTexts sh v, re t = true := by
  rw [matchValue_eq, cellMatches_texts, List.any_eq_true]

/-- the texts of a nested value: keys, strings at every depth, scalar texts; none for NULL -/
example : searchTexts (fun _ => [63])
    (.obj [([107], .arr [.str [97], .nil, .obj [([75], .int 5)]]), ([110], .nil)]) = [[107], [97], [75], [63], [110]] := by
  decide

/-! ### the original loops, for EVERY map iteration order -/

/-- **Original code, completeness as multisets.**  Whatever order the runtime walks the maps in (`π r` any rearrangement
of `r`), on a well-formed dump without an effective limit the original loops return a rearrangement of `allMatches`:
every matching cell exactly once.  (Only the ORDER depended on `π` — and, under a smaller limit, the choice: `A39_witness`.) -/
theorem C15_orig_complete (π : Row → Row) (hπ : ∀ r, π r ~ r) (R : Regex) (sh : GoVal → Bytes) (d : Dump) (hw : Dump.WF d)
    (o : Opts) (re : Bytes → Bool) (hc : R.compile (effPattern o) = some re)
    (hlim : o.maxResults ≤ 0 ∨ ((allMatches re sh o.includeRow d).length : Int) ≤ o.maxResults) :
    ∃ hs, Model.SearchOrig.origHits π R sh d o = some hs ∧ hs ~ allMatches re sh o.includeRow d := by
  have hp := Proofs.SearchOrig.allOrig_perm π hπ re sh o d hw
  refine ⟨_, by rw [Model.SearchOrig.origHits, Proofs.SearchOrig.search_eq, hc]; rfl, ?_⟩
  show (if o.maxResults > 0 then List.take o.maxResults.toNat (Proofs.SearchOrig.allOrig π re sh o d)
        else Proofs.SearchOrig.allOrig π re sh o d) ~ _
  by_cases hmax : o.maxResults > 0
  · rw [if_pos hmax, List.take_of_length_le]
    · exact hp
    · rw [hp.length_eq]; rcases hlim with h | h <;> omega
  · rw [if_neg hmax]; exact hp

/-- **Original code, soundness and bound.**  For every iteration order every returned hit is an element of `allMatches`
(so, by `mem_allMatches`, a matching cell with its coordinates, value and row), and with MaxResults > 0 there are at
most MaxResults of them. -/
theorem C15_orig_sound_bound (π : Row → Row) (hπ : ∀ r, π r ~ r) (R : Regex) (sh : GoVal → Bytes) (d : Dump) (hw : Dump.WF d)
    (o : Opts) (re : Bytes → Bool) (hc : R.compile (effPattern o) = some re) (hs : List Hit)
    (hh : Model.SearchOrig.origHits π R sh d o = some hs) :
    (∀ h ∈ hs, h ∈ allMatches re sh o.includeRow d) ∧ (o.maxResults > 0 → (hs.length : Int) ≤ o.maxResults) := by
  have hp := Proofs.SearchOrig.allOrig_perm π hπ re sh o d hw
  rw [Model.SearchOrig.origHits, Proofs.SearchOrig.search_eq, hc] at hh
  simp only [Option.map_some, Option.some.injEq] at hh
  subst hh
  constructor
  · intro h hmem
    apply hp.mem_iff.1
    by_cases hmax : o.maxResults > 0
    · rw [if_pos hmax] at hmem; exact List.mem_of_mem_take hmem
    · rw [if_neg hmax] at hmem; exact hmem
  · intro hmax
    rw [if_pos hmax, List.length_take]
    omega

/-! ### finding A39 on the original code -/

/-- **A39 (original code).**  One table, one row with two text columns, pattern matching both, MaxResults = 1: if the
runtime walks the row's map as stored the hit is column `a`, if it walks it in reverse the hit is column `b` — the SET of
hits depends on Go's map iteration order.  (The fixed code returns `a` in both cases: `C15_order_independent`.) -/
theorem A39_witness :
    let row : Row := [([97], .str [120]), ([98], .str [120])]
    let d : Dump := [{ name := [100], tables := [{ name := [116], columns := [[97], [98]], rows := [row] }] }]
    let o : Opts := { pattern := [120], caseSensitive := false, includeRow := false, maxResults := 1 }
    ((Model.SearchOrig.searchInDump id Model.SearchOrig.anyRegex (fun _ => []) d o).map (·.map (·.column))) = some [[97]] ∧
    ((Model.SearchOrig.searchInDump List.reverse Model.SearchOrig.anyRegex (fun _ => []) d o).map (·.map (·.column))) = some [[98]] ∧
    ((Model.Search.searchInDump Model.SearchOrig.anyRegex (fun _ => []) d o).map (·.map (·.column))) = some [[97]] := by
  decide

/-! ### secret scan -/

open PgVerif.Model.Secrets PgVerif.Proofs.Secrets

/-- `bytesContains` is the substring test; `containsIgnoreCase` is the substring test on the ASCII-lower-cased texts. -/
theorem C15_contains (s sub : Bytes) :
    bytesContains s sub = occursIn sub s ∧ containsIgnoreCase s sub = occursIn (lower sub) (lower s) :=
  ⟨bytesContains_eq s sub, containsIgnoreCase_eq s sub⟩

/-- **Secret scan, exactly.**  For every dump, every detector set and every scalar text, ScanDumpResult returns
`expectedFindings`: cell by cell in (database, table, row, column) order, for each cell whose text (`%v`) has at least
8 bytes, for each detector in order whose keyword pre-filter passes ON THAT TEXT and which does not fail, each of its
results, tagged with the cell's database, table, column and row index.  Nothing else, nothing twice. -/
theorem C15_secret_exact (dets : List Detector) (sh : GoVal → Bytes) (d : Dump) :
    scanDumpResult dets sh d = expectedFindings dets sh d :=
  scan_eq_expected dets sh d

/-- **… each cell once.**  On a well-formed dump (rows are maps) the findings are, as a multiset, the findings of every
stored binding of every row: no cell is skipped and none is scanned twice. -/
theorem C15_secret_cells_once (dets : List Detector) (sh : GoVal → Bytes) (d : Dump) (hw : Dump.WF d) :
    scanDumpResult dets sh d ~ allCellFindings dets sh d := by
  rw [C15_secret_exact]
  simp only [expectedFindings, allCellFindings]
  apply Proofs.SearchOrig.perm_flatMap_congr; intro D hD
  apply Proofs.SearchOrig.perm_flatMap_congr; intro t ht
  apply Proofs.SearchOrig.perm_flatMap_congr; intro ri hri
  have hrw : Row.WF ri.1 := wf_row_of_getElem? d hw D hD t ht ri.2 ri.1 (List.mem_zipIdx_iff_getElem?.1 hri)
  exact (rowCells_perm t.columns ri.1 hrw).flatMap_right _

/-- **A planted token is reported — what that requires.**  Take a cell of a well-formed dump whose text `fmtV sh v`
has at least 8 bytes.  If some detector `det` of the scanner (hk) passes its keyword pre-filter on THAT text (it has no
keywords, or one of them occurs in the cell's own text, as is or ignoring ASCII case) and (hd) reports the result `r`
on THAT text, then the scan returns a finding with that cell's database, table, row index and column and with `r`'s
detector name and raw text.  Nothing is assumed about any other text: a real detector's verdict depends on what
surrounds the token (word boundaries, greedy character classes, a keyword within reach), and it is the cell's own text
— not the column name, not a neighbouring cell — that decides (`C15_secret_needs_keyword`). -/
theorem C15_secret (dets : List Detector) (sh : GoVal → Bytes) (d : Dump) (hw : Dump.WF d) (db tbl : Bytes) (i : Nat)
    (col : Bytes) (v : GoVal) (row : Row) (hcell : IsCell d db tbl i col v row) (hlen : 8 ≤ (fmtV sh v).length)
    (det : Detector) (hdet : det ∈ dets) (hk : keywordPass det (fmtV sh v) = true)
    (found : List DetResult) (hd : det.fromData (fmtV sh v) = some found) (r : DetResult) (hr : r ∈ found) :
    ({ detector := r.detector, db := db, table := tbl, col := col, row := i, raw := r.raw } : Finding)
      ∈ scanDumpResult dets sh d := by
  obtain ⟨D, hD, rfl, t, ht, rfl, hri, hcv⟩ := hcell
  have hrw := wf_row_of_getElem? d hw D hD t ht i row hri
  rw [C15_secret_exact]
  simp only [expectedFindings, List.mem_flatMap]
  refine ⟨D, hD, t, ht, (row, i), List.mem_zipIdx_iff_getElem?.2 hri, (col, v), (mem_rowCells t.columns row hrw (col, v)).2 hcv, ?_⟩
  simp only [cellFindings]
  rw [if_neg (by omega)]
  exact List.mem_map.2 ⟨r, (mem_scanText dets _ r).2 ⟨det, hdet, hk, found, hd, hr⟩, rfl⟩

/-- **The keyword must be in the cell.**  A detector that has keywords, none of which occurs in a text (neither as is
nor ignoring ASCII case), contributes nothing for that text, whatever its `fromData` would say; so a cell on whose text
no detector passes the pre-filter yields no finding at all.  E.g. a bare Heroku-format UUID alone in a cell is not
reported (the Heroku detector's keyword `heroku` is not in the cell), although `HEROKU_API_KEY=<uuid>` in one cell is. -/
theorem C15_secret_needs_keyword (dets : List Detector) (sh : GoVal → Bytes) (db tbl : Bytes) (i : Nat) (cv : Bytes × GoVal)
    (h : ∀ det ∈ dets, keywordPass det (fmtV sh cv.2) = false) : cellFindings dets sh db tbl i cv = [] := by
  simp only [cellFindings]
  have : scanText dets (fmtV sh cv.2) = [] := by
    simp only [scanText, List.flatMap_eq_nil_iff]
    intro det hdet
    rw [h det hdet]; rfl
  rw [this]; simp

/-- **Coordinates of findings are real.**  Every finding of the scan names a cell of the dump whose text has at least
8 bytes, and comes from a detector of the scanner that passed its pre-filter on that cell's text and reported that
result on it. -/
theorem C15_secret_sound (dets : List Detector) (sh : GoVal → Bytes) (d : Dump) (hw : Dump.WF d) (f : Finding)
    (hf : f ∈ scanDumpResult dets sh d) :
    ∃ v row, IsCell d f.db f.table f.row f.col v row ∧ 8 ≤ (fmtV sh v).length ∧
      ∃ det ∈ dets, keywordPass det (fmtV sh v) = true ∧ ∃ found, det.fromData (fmtV sh v) = some found ∧
        (⟨f.detector, f.raw⟩ : DetResult) ∈ found := by
  rw [C15_secret_exact] at hf
  simp only [expectedFindings, List.mem_flatMap] at hf
  obtain ⟨D, hD, t, ht, ri, hri, cv, hcv, hcell⟩ := hf
  have hri' := List.mem_zipIdx_iff_getElem?.1 hri
  have hrw := wf_row_of_getElem? d hw D hD t ht ri.2 ri.1 hri'
  have hcv' := (mem_rowCells t.columns ri.1 hrw cv).1 hcv
  simp only [cellFindings] at hcell
  by_cases hlen : (fmtV sh cv.2).length < 8
  · rw [if_pos hlen] at hcell; cases hcell
  · rw [if_neg hlen] at hcell
    obtain ⟨res, hres, rfl⟩ := List.mem_map.1 hcell
    exact ⟨cv.2, ri.1, ⟨D, hD, rfl, t, ht, rfl, hri', hcv'⟩, by omega, (mem_scanText dets _ res).1 hres⟩

/-! ### the hypotheses are satisfiable (non-vacuity) -/

/-- a concrete well-formed dump with a nested JSON cell; pattern `^b` (case-insensitive through `(?i)`) of the small
regex engine; two cells match (`B`-something at top level, and the key `Bee` inside the JSON object) -/
example :
    let row : Row := [([105, 100], .int 7), ([110], .str [66, 111, 98]), ([106], .obj [([66, 101, 101], .arr [.nil, .str [122]])])]
    let d : Dump := [{ name := [100], tables := [{ name := [116], columns := [[105, 100], [110], [106]], rows := [row] }] }]
    let o : Opts := { pattern := [94, 98], caseSensitive := false, includeRow := false, maxResults := 0 }
    Dump.WF d ∧ ((hits Model.SearchRe.litRegex (fun _ => []) d o).map (·.map (·.col))) = some [[110], [106]] := by
  refine ⟨?_, by decide +kernel⟩
  intro db hdb t ht r hr
  simp only [List.mem_cons, List.not_mem_nil, or_false] at hdb; subst hdb
  simp only [List.mem_cons, List.not_mem_nil, or_false] at ht; subst ht
  simp only [List.mem_cons, List.not_mem_nil, or_false] at hr; subst hr
  simp only [Row.WF]; decide

/-- the hypotheses of `C15_column_order` hold for a row decoded with its table's schema -/
example :
    let cols : List Bytes := [[105, 100], [110]]
    let row : Row := [([110], .str [66]), ([105, 100], .int 7)]
    cols.Nodup ∧ (∀ c, c ∈ cols ↔ c ∈ row.map (·.1)) ∧ colOrder cols row = cols := by
  refine ⟨by decide, ?_, by decide +kernel⟩
  intro c; simp only [List.map_cons, List.map_nil, List.mem_cons, List.not_mem_nil, or_false]
  exact ⟨fun h => h.elim Or.inr Or.inl, fun h => h.elim Or.inr Or.inl⟩

/-- an iteration order that is not the stored one: walking every map backwards is a legitimate `π` -/
example : ∀ r : Row, (fun r : Row => r.reverse) r ~ r := fun r => List.reverse_perm r

/-- the hypotheses of `C15_secret` are satisfiable by a detector that is NOT uniform in the surrounding text (here:
it reports the token only when the text is exactly the token — stricter than any boundary-anchored real detector):
keyword `glpat-`, cell text = the token `glpat-AB` -/
example :
    let tok : Bytes := [103, 108, 112, 97, 116, 45, 65, 66]
    let det : Detector := { keywords := [[103, 108, 112, 97, 116, 45]],
                            fromData := fun s => some (if s = tok then [⟨[71], tok⟩] else []) }
    let row : Row := [([107], .str tok)]
    let d : Dump := [{ name := [100], tables := [{ name := [116], columns := [[107]], rows := [row] }] }]
    Dump.WF d ∧ IsCell d [100] [116] 0 [107] (.str tok) row ∧ 8 ≤ (fmtV (fun _ => []) (.str tok)).length ∧
      keywordPass det (fmtV (fun _ => []) (.str tok)) = true ∧
      det.fromData (fmtV (fun _ => []) (.str tok)) = some [⟨[71], tok⟩] ∧
      det.fromData (120 :: tok) = some [] := by
  refine ⟨?_, ⟨_, List.mem_cons_self, rfl, _, List.mem_cons_self, rfl, rfl, List.mem_cons_self⟩, by decide, by decide, by decide, by decide⟩
  intro db hdb t ht r hr
  simp only [List.mem_cons, List.not_mem_nil, or_false] at hdb; subst hdb
  simp only [List.mem_cons, List.not_mem_nil, or_false] at ht; subst ht
  simp only [List.mem_cons, List.not_mem_nil, or_false] at hr; subst hr
  simp only [Row.WF]; decide

/-- the hypothesis of `C15_secret_needs_keyword` is satisfiable: a bare UUID-shaped text and a detector keyed on `heroku` -/
example :
    keywordPass { keywords := [[104, 101, 114, 111, 107, 117]], fromData := fun _ => some [] }
      [49, 50, 51, 52, 53, 54, 55, 56, 45, 49, 50, 51, 52] = false := by decide

end PgVerif.Props.C15
