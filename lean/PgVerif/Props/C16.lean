/-
  C16 — pg_control fields and CRC verdict equal the stored control data.
  Property theorems only; helper lemmas are in Proofs/Crc.lean and Proofs/Control.lean.
  The model is that of control.go with the repairs of /verif/fixes/control (01–04) applied; the
  `witness_*` theorems at the end show, on the model of the code as it was written, the defects those
  repairs remove.
-/
import PgVerif.Proofs.Control
import PgVerif.Proofs.ControlTotal
import PgVerif.Model.ControlOrig
import PgVerif.Generated.Control
import PgVerif.Spec.ControlAnchor
import PgVerif.Gen.Control
namespace PgVerif.Props.C16
open PgVerif PgVerif.Spec PgVerif.Proofs

attribute [local instance] exceptDecEq

/-- Fields.  For every well-formed control data `c` (every field anywhere in its range: 64-bit identifiers and
LSNs, any int32 state, counters up to 2^32−1, wal_level 0..2, limits 0..2^31−1, legal block and WAL segment
sizes, any checksum version), every stored crc value and every amount of zero padding after the 296-byte
struct (0, 7896, anything): ParseControlFile succeeds on PostgreSQL's encoding and every reported field —
identifier, versions, state and its name, checkpoint/redo LSN text, redo WAL file name, timelines, xid/oid/
multixact counters, checkpoint time, WAL level name, settings, sizes, float-format and checksum flags, the
stored crc and the CRC verdict — equals the spec's view of `c`; the verdict is "valid" iff the stored crc is
the CRC-32C (bit-serial definition) of the 288 bytes before it. -/
theorem C16_fields (c : ControlData) (h : c.WF) (crc pad : Nat) (hcrc : crc < 2 ^ 32) :
    ∃ f, Model.parseControlFile (encControl c crc pad) = .ok (some f) ∧ f.toView = viewControl c crc :=
  parseControlFile_enc c h crc pad hcrc

/-- The same through ReadControlFile when the data directory holds the image at global/pg_control. -/
theorem C16_fields_read (c : ControlData) (h : c.WF) (crc pad : Nat) (hcrc : crc < 2 ^ 32)
    (fs : String → Option Bytes) (dir : String) (hfs : fs (dir ++ "/global/pg_control") = some (encControl c crc pad)) :
    ∃ f, Model.readControlFile fs dir = .ok (some f) ∧ f.toView = viewControl c crc := by
  unfold Model.readControlFile; rw [hfs]; exact parseControlFile_enc c h crc pad hcrc

/-- non-vacuity: a typical PostgreSQL 16 control data is well-formed, and its image parses to its view -/
example : Gen.typicalControl.WF := by decide
example : (viewControl Gen.typicalControl 7).redoWALFile = "000000010000000000000001" := by decide

/-- CRC table.  The 256-entry table built by makeCRC32CTable's shift-and-xor loop is the table of remainders
of the bit-serial definition (entry i = eight division steps from the byte i). -/
theorem C16_crc_table : Model.makeCRC32CTable = Spec.crc32cTable := table_eq

/-- two well-known entries of the CRC-32C table, computed by the kernel -/
example : Model.makeCRC32CTable.getD 1 0#32 = 0xF26B8303#32 ∧ Model.makeCRC32CTable.getD 255 0#32 = 0xAD7D5351#32 := by
  decide +kernel

/-- CRC verdict, every byte string of every length: the table-driven fold of verifyCRC32C accepts `x` iff `x`
is the bit-serial CRC-32C (reflected polynomial 0x82F63B78, init and final xor 0xFFFFFFFF) of the bytes. -/
theorem C16_crc (bs : Bytes) (x : Nat) : Model.verifyCRC32C bs x = (x == Spec.crc32c bs) :=
  verifyCRC32C_eq bs x

/-- Detection.  Whatever the image: if the verdict is "valid", then after any change confined to one of the covered
bytes (in particular after every single-bit flip of the body) the verdict is "invalid" … -/
theorem C16_crc_detects (pre post : Bytes) (x y : UInt8) (crc : Nat)
    (hv : Model.verifyCRC32C (pre ++ x :: post) crc = true) (hxy : x ≠ y) :
    Model.verifyCRC32C (pre ++ y :: post) crc = false := by
  rw [C16_crc] at hv ⊢
  have h1 : crc = Spec.crc32c (pre ++ x :: post) := by simpa using hv
  have h2 := crc32c_byte_change pre post x y hxy
  simp only [beq_eq_false_iff_ne, ne_eq]
  rw [h1]; exact h2

/-- … and so it is after any change of the stored crc. -/
theorem C16_crc_detects_stored (bs : Bytes) (crc crc' : Nat) (hv : Model.verifyCRC32C bs crc = true) (h : crc' ≠ crc) :
    Model.verifyCRC32C bs crc' = false := by
  rw [C16_crc] at hv ⊢
  have h1 : crc = Spec.crc32c bs := by simpa using hv
  simp only [beq_eq_false_iff_ne, ne_eq]
  rw [← h1]; exact h

example : Model.verifyCRC32C ([1, 2] ++ 3 :: [4]) (Spec.crc32c [1, 2, 3, 4]) = true := by decide +kernel

/-- anchors of the bit-serial definition: the standard check string, and the control file a real PostgreSQL 10
server wrote (its stored CRC at offset 288 is 0xDB3E2024) -/
example : Spec.crc32c "123456789".toUTF8.toList = 0xE3069283 := by decide +kernel
set_option maxRecDepth 100000 in
example : Spec.crc32c (pg10ControlImage.take 288) = 0xDB3E2024 ∧ rdAt 4 288 pg10ControlImage = 0xDB3E2024 := by
  decide +kernel

/-- Redo WAL file name.  For every redo location below 2^64, every timeline and every legal WAL segment size
(2^20 … 2^30) the formatted name is PostgreSQL's XLogFileName: timeline, segno / (2^32/segsz), segno % (2^32/segsz),
each as %08X (no truncation of either quotient occurs). -/
theorem C16_walfile (redo tli segsz : Nat) (hr : redo < 2 ^ 64) (hs : segsz ∈ legalSegSizes) :
    Model.formatWALFilename redo tli segsz = .ok (Spec.xlogFileName tli redo segsz) :=
  formatWALFilename_eq redo tli segsz hr hs

example : Spec.xlogFileName 1 0x69300F358 (2 ^ 24) = "000000010000000600000093" := by decide
example : (2 : Nat) ^ 24 ∈ legalSegSizes := by decide

/-- LSN text: `%X/%X` of the high and low halves, for every 64-bit value. -/
theorem C16_lsn (lsn : Nat) (h : lsn < 2 ^ 64) : Model.ctlFormatLSN lsn = Spec.lsnText lsn := ctlFormatLSN_eq lsn h

/-- Names.  DBState.String is pg_controldata's wording on the seven defined states and "unknown (n)" on every
other int32; the WAL level names are PostgreSQL's; and the model agrees with the graphs of DBState.String,
the WAL level naming and inferPGVersion obtained by executing the Go code (Generated/Control.lean, re-created
from the code on every run) on the breakpoint grids. -/
theorem C16_names (s : Int) : Model.dbStateString s = Spec.stateName s := dbStateString_eq s

theorem C16_names_wal (n : Nat) (h : n ≤ 2) : Model.walLevelName n = Spec.walLevelNames.getD n "" := walLevel_name n h

theorem C16_names_state_graph : ∀ p ∈ Generated.Control.dbStateGraph, Model.dbStateString p.1 = p.2 := by decide

theorem C16_names_wal_graph : ∀ p ∈ Generated.Control.walLevelGraph, Model.walLevelName p.1 = p.2 := by decide

set_option maxRecDepth 100000 in
theorem C16_names_version_graph :
    ∀ p ∈ Generated.Control.inferPGVersionGraph, Model.inferPGVersion p.1.1 p.1.2 = p.2 := by decide +kernel

/-! ### the defects the repairs remove, on the model of the code as written (Model.Orig) -/

/-- A50: on a typical image the storage-section search finds nothing (it looks for 8, _, 8192, _, 8192 from offset
220 on; the real fields are maxAlign@204, floatFormat@208, blcksz@216), so sizes were defaults and checksums "off" -/
theorem witness_A50 : Model.Orig.findStorageSection (encControl Gen.typicalControl 0 0) 220 = .ok 0 := by decide +kernel

/-- A49: with max_worker_processes = 0 the settings search skips the real section (180) and locks onto offset 244 -/
theorem witness_A49 :
    Model.Orig.findConfigSection (encControl { Gen.typicalControl with maxWorkerProcesses := 0 } 0 0) 180 = .ok 244 := by
  decide +kernel

/-- A51: the name as written used timeline 1, 16 MiB segments and `segNo >> 32` — wrong for the redo location of the
real PostgreSQL 10 file (0x6/9300F358, whose WAL file is 000000010000000600000093) -/
theorem witness_A51 : Model.Orig.formatWALFilename 0x69300F358 1 = "000000010000000000000693" := by decide

end PgVerif.Props.C16
