/-
  C16 — pg_control fields and CRC verdict equal the stored control data.
  Property theorems only; helper lemmas are in Proofs/Crc.lean and Proofs/Control.lean.
  The model is that of control.go with the repairs of /verif/fixes/control (01–04, 10, 22) applied; the
  `witness_*` theorems at the end show, on the model of the code as it was written, the defects those
  repairs remove.
  What "every reported field" means below: `Spec.ControlView` has 45 fields — 41 of the 51 members of ControlFileData
  before the crc (float format and data_checksum_version as flags), the stored crc, and three derived ones (state name,
  redo WAL file name, CRC verdict).  The 10 stored members the tool does not report at all (time, unloggedLSN,
  minRecoveryPoint, minRecoveryPointTLI, backupStartPoint, backupEndPoint, backupEndRequired, the two pass-by-value
  bytes at 248/249, mock_authentication_nonce) are outside the property's list and outside the
  theorems.  `pg_version_major` is a 46th reported field, inferred from the two version numbers: `C16_version_*`.
-/
import PgVerif.Proofs.Control
import PgVerif.Proofs.ControlTotal
import PgVerif.Proofs.ControlAny
import PgVerif.Model.ControlOrig
import PgVerif.Generated.Control
import PgVerif.Spec.ControlAnchor
import PgVerif.Gen.Control
namespace PgVerif.Props.C16
open PgVerif PgVerif.Spec PgVerif.Proofs

attribute [local instance] exceptDecEq

/-- Fields.  For every well-formed control data `c` (every field anywhere in its range: 64-bit identifiers and
LSNs, any int32 state, counters up to 2^32−1, wal_level 0..2, limits 0..2^31−1, legal block and WAL segment
sizes, any checksum version), every stored crc value and every amount of zero padding after the 296-byte
struct (0, 7896, anything): ParseControlFile succeeds on PostgreSQL's encoding and every reported field —
identifier, versions, state and its name, checkpoint/redo LSN text, redo WAL file name, timelines, xid/oid/
multixact counters, checkpoint time, WAL level name, settings, sizes, float-format and checksum flags, the
stored crc and the CRC verdict — equals the spec's view of `c`; the verdict is "valid" iff the stored crc is
the CRC-32C (bit-serial definition) of the 288 bytes before it. -/
theorem C16_fields (c : ControlData) (h : c.WF) (crc pad : Nat) (hcrc : crc < 2 ^ 32) :
    ∃ f, Model.parseControlFile (encControl c crc pad) = .ok (some f) ∧ f.toView = viewControl c crc :=
  parseControlFile_enc c h crc pad hcrc

/-- The same through ReadControlFile when the data directory holds the image at global/pg_control. -/
theorem C16_fields_read (c : ControlData) (h : c.WF) (crc pad : Nat) (hcrc : crc < 2 ^ 32)
    (fs : String → Option Bytes) (dir : String) (hfs : fs (dir ++ "/global/pg_control") = some (encControl c crc pad)) :
    ∃ f, Model.readControlFile fs dir = .ok (some f) ∧ f.toView = viewControl c crc := by
  unfold Model.readControlFile; rw [hfs]; exact parseControlFile_enc c h crc pad hcrc

/-- CRC verdict on ANY image.  For every byte string of at least 296 bytes — any field values, any bytes in the struct's
padding holes and after the struct — ParseControlFile succeeds, reports the four bytes at offset 288 as the stored crc,
and reports the CRC valid iff they are the CRC-32C (bit-serial definition, `Spec.crc32c`) of the 288 bytes before them;
the two reported version numbers are the stored ones and `pg_version_major` is inferPGVersion of them. -/
theorem C16_crc_any_image (bs : Bytes) (h : bs.length ≥ 296) :
    ∃ f, Model.parseControlFile bs = .ok (some f) ∧ f.crc = rdAt 4 288 bs ∧
      f.crcValid = (rdAt 4 288 bs == crc32c (bs.take 288)) ∧
      f.pgControlVersion = rdAt 4 8 bs ∧ f.catalogVersionNo = rdAt 4 12 bs ∧
      f.pgVersionMajor = Model.inferPGVersion (rdAt 4 8 bs) (rdAt 4 12 bs) :=
  parseControlFile_any bs h

/-- non-vacuity: a typical PostgreSQL 16 control data is well-formed, and its image parses to its view -/
example : Gen.typicalControl.WF := by decide
example : (viewControl Gen.typicalControl 7).redoWALFile = "000000010000000000000001" := by decide

/-- CRC table.  The 256-entry table built by makeCRC32CTable's shift-and-xor loop is the table of remainders
of the bit-serial definition (entry i = eight division steps from the byte i). -/
theorem C16_crc_table : Model.makeCRC32CTable = Spec.crc32cTable := table_eq

/-- two well-known entries of the CRC-32C table, computed by the kernel -/
example : Model.makeCRC32CTable.getD 1 0#32 = 0xF26B8303#32 ∧ Model.makeCRC32CTable.getD 255 0#32 = 0xAD7D5351#32 := by
  decide +kernel

/-- CRC verdict, every byte string of every length: the table-driven fold of verifyCRC32C accepts `x` iff `x`
is the bit-serial CRC-32C (reflected polynomial 0x82F63B78, init and final xor 0xFFFFFFFF) of the bytes. -/
theorem C16_crc (bs : Bytes) (x : Nat) : Model.verifyCRC32C bs x = (x == Spec.crc32c bs) :=
  verifyCRC32C_eq bs x

/-- Detection.  Whatever the image: if the verdict is "valid", then after any change confined to one of the covered
bytes (in particular after every single-bit flip of the body) the verdict is "invalid" … -/
theorem C16_crc_detects (pre post : Bytes) (x y : UInt8) (crc : Nat)
    (hv : Model.verifyCRC32C (pre ++ x :: post) crc = true) (hxy : x ≠ y) :
    Model.verifyCRC32C (pre ++ y :: post) crc = false := by
  rw [C16_crc] at hv ⊢
  have h1 : crc = Spec.crc32c (pre ++ x :: post) := by simpa using hv
  have h2 := crc32c_byte_change pre post x y hxy
  simp only [beq_eq_false_iff_ne, ne_eq]
  rw [h1]; exact h2

/-- … and so it is after any change of the stored crc. -/
theorem C16_crc_detects_stored (bs : Bytes) (crc crc' : Nat) (hv : Model.verifyCRC32C bs crc = true) (h : crc' ≠ crc) :
    Model.verifyCRC32C bs crc' = false := by
  rw [C16_crc] at hv ⊢
  have h1 : crc = Spec.crc32c bs := by simpa using hv
  simp only [beq_eq_false_iff_ne, ne_eq]
  rw [← h1]; exact h

example : Model.verifyCRC32C ([1, 2] ++ 3 :: [4]) (Spec.crc32c [1, 2, 3, 4]) = true := by decide +kernel

/-- anchors of the bit-serial definition: the standard check string, and the control file a real PostgreSQL 10
server wrote (its stored CRC at offset 288 is 0xDB3E2024) -/
example : Spec.crc32c "123456789".toUTF8.toList = 0xE3069283 := by decide +kernel
set_option maxRecDepth 100000 in
example : Spec.crc32c (pg10ControlImage.take 288) = 0xDB3E2024 ∧ rdAt 4 288 pg10ControlImage = 0xDB3E2024 := by
  decide +kernel

/-- Redo WAL file name.  For every redo location below 2^64, every timeline and every legal WAL segment size
(2^20 … 2^30) the formatted name is PostgreSQL's XLogFileName: timeline, segno / (2^32/segsz), segno % (2^32/segsz),
each as %08X (no truncation of either quotient occurs). -/
theorem C16_walfile (redo tli segsz : Nat) (hr : redo < 2 ^ 64) (hs : segsz ∈ legalSegSizes) :
    Model.formatWALFilename redo tli segsz = .ok (Spec.xlogFileName tli redo segsz) :=
  formatWALFilename_eq redo tli segsz hr hs

example : Spec.xlogFileName 1 0x69300F358 (2 ^ 24) = "000000010000000600000093" := by decide
example : (2 : Nat) ^ 24 ∈ legalSegSizes := by decide

/-- LSN text: `%X/%X` of the high and low halves, for every 64-bit value. -/
theorem C16_lsn (lsn : Nat) (h : lsn < 2 ^ 64) : Model.ctlFormatLSN lsn = Spec.lsnText lsn := ctlFormatLSN_eq lsn h

/-- Names.  DBState.String is pg_controldata's wording on the seven defined states; on every other int32 it is
"unknown (n)" — the TOOL's wording, which the Spec adopts (pg_controldata prints "unrecognized status code" there; the
property asks for the state to equal the stored field, which is reported as the number beside the name); the WAL level
names are PostgreSQL's; and the model agrees with the graphs of DBState.String,
the WAL level naming and inferPGVersion obtained by executing the Go code (Generated/Control.lean, re-created
from the code on every run) on the breakpoint grids. -/
theorem C16_names (s : Int) : Model.dbStateString s = Spec.stateName s := dbStateString_eq s

theorem C16_names_wal (n : Nat) (h : n ≤ 2) : Model.walLevelName n = Spec.walLevelNames.getD n "" := walLevel_name n h

theorem C16_names_state_graph : ∀ p ∈ Generated.Control.dbStateGraph, Model.dbStateString p.1 = p.2 := by decide

theorem C16_names_wal_graph : ∀ p ∈ Generated.Control.walLevelGraph, Model.walLevelName p.1 = p.2 := by decide

set_option maxRecDepth 100000 in
theorem C16_names_version_graph :
    ∀ p ∈ Generated.Control.inferPGVersionGraph, Model.inferPGVersion p.1.1 p.1.2 = p.2 := by decide +kernel

/-- Major version (REVIEW B12; fixes/control/10, 22).  For every pair (PG_CONTROL_VERSION, CATALOG_VERSION_NO) a released
PostgreSQL 12, 13, 14, 15, 16 or 17 writes (`Spec.pgReleases`: 1201/201909212, 1300/202007201, 1300/202107181,
1300/202209061, 1300/202307071, 1700/202406281) inferPGVersion answers that major version. -/
theorem C16_version_major (cv cat M : Nat) (h : pgMajorOf cv cat = some M) : Model.inferPGVersion cv cat = M := by
  unfold pgMajorOf at h
  cases hf : pgReleases.find? (fun r => r.2.1 == cv && r.2.2 == cat) with
  | none => simp [hf] at h
  | some r =>
    have hm := List.mem_of_find?_eq_some hf
    have hp := List.find?_some hf
    simp only [hf, Option.map_some, Option.some.injEq] at h
    simp only [Bool.and_eq_true, beq_iff_eq] at hp
    obtain ⟨h1, h2⟩ := hp
    subst h h1 h2
    simp only [pgReleases, List.mem_cons, List.not_mem_nil, or_false] at hm
    rcases hm with rfl | rfl | rfl | rfl | rfl | rfl <;> decide

/-- … and so does ParseControlFile (`pg_version_major` of the report) on every well-formed image carrying such a pair,
whatever the other fields, the stored crc and the padding are. -/
theorem C16_version_major_file (c : ControlData) (h : c.WF) (crc pad : Nat) (hcrc : crc < 2 ^ 32) (M : Nat)
    (hM : pgMajorOf c.pgControlVersion c.catalogVersionNo = some M) :
    ∃ f, Model.parseControlFile (encControl c crc pad) = .ok (some f) ∧ f.pgVersionMajor = M := by
  obtain ⟨f, h1, _, h3⟩ := parseControlFile_enc_full c h crc pad hcrc
  exact ⟨f, h1, by rw [h3]; exact C16_version_major _ _ _ hM⟩

/-- non-vacuity: the typical control data is a PostgreSQL 16 one -/
example : pgMajorOf Gen.typicalControl.pgControlVersion Gen.typicalControl.catalogVersionNo = some 16 := by decide

/-- Known releases only (fixes/control/22), for EVERY pair of 32-bit (or any) numbers: when the catalog version is the
one of a released major 12–17 the answer is that major (whatever the control version: the catalog version decides);
for every other catalog version the answer is below 12 — never the name of a release of this table — and it is
0 = unknown under every control version ≥ 1201 (PostgreSQL 12 and later). -/
theorem C16_version_bands (cv cat : Nat) :
    (∀ M, pgMajorOfCatalog cat = some M → Model.inferPGVersion cv cat = M) ∧
    (pgMajorOfCatalog cat = none → Model.inferPGVersion cv cat < 12 ∧ (cv ≥ 1201 → Model.inferPGVersion cv cat = 0)) :=
  ⟨fun M h => inferPGVersion_of_catalog cv cat M h, fun h => inferPGVersion_unknown cv cat h⟩

example : pgMajorOfCatalog 202406281 = some 17 ∧ pgMajorOfCatalog 202406280 = none := by decide

/-- A reported major of 12 or more is never wrong: it is reported only for the catalog version of that release.
(The bands of fixes/control/10 reported 12..16 for 2^32 − 5 catalog versions no release carries: `witness_R22`.) -/
theorem C16_version_never_wrong (cv cat M : Nat) (h : Model.inferPGVersion cv cat = M) (hM : M ≥ 12) :
    pgMajorOfCatalog cat = some M := by
  cases hc : pgMajorOfCatalog cat with
  | some M' => rw [← h, inferPGVersion_of_catalog cv cat M' hc]
  | none => have := (inferPGVersion_unknown cv cat hc).1; omega

example : Model.inferPGVersion 1300 202209061 = 15 ∧ 15 ≥ 12 := by decide

/-- The report is the Spec's (`Spec.majorReport`): wherever the Spec speaks — a released pair → its major; control
version ≥ 1201 with a catalog version of no release → 0 — inferPGVersion answers exactly that. -/
theorem C16_version_report (cv cat M : Nat) (h : majorReport cv cat = some M) : Model.inferPGVersion cv cat = M := by
  unfold majorReport at h
  cases hp : pgMajorOf cv cat with
  | some M' =>
    simp only [hp, Option.some.injEq] at h
    subst h; exact C16_version_major cv cat M' hp
  | none =>
    simp only [hp] at h
    cases hc : pgMajorOfCatalog cat with
    | some M' => simp [hc] at h
    | none =>
      simp only [hc] at h
      by_cases hcv : cv ≥ 1201
      · rw [if_pos hcv] at h
        injection h with h
        rw [← h]; exact (inferPGVersion_unknown cv cat hc).2 hcv
      · rw [if_neg hcv] at h; cases h

/-- … and so does ParseControlFile on every well-formed image, whatever the other fields, the crc and the padding. -/
theorem C16_version_report_file (c : ControlData) (h : c.WF) (crc pad : Nat) (hcrc : crc < 2 ^ 32) (M : Nat)
    (hM : majorReport c.pgControlVersion c.catalogVersionNo = some M) :
    ∃ f, Model.parseControlFile (encControl c crc pad) = .ok (some f) ∧ f.pgVersionMajor = M := by
  obtain ⟨f, h1, _, h3⟩ := parseControlFile_enc_full c h crc pad hcrc
  exact ⟨f, h1, by rw [h3]; exact C16_version_report _ _ _ hM⟩

/-- non-vacuity: a PostgreSQL 16 control file whose catalog version is a development snapshot's → unknown -/
example : ({ Gen.typicalControl with catalogVersionNo := 202307072 } : ControlData).WF ∧
    majorReport 1300 202307072 = some 0 := by decide

/-! ### the defects the repairs remove, on the model of the code as written (Model.Orig) -/

/-- R22 (fixes/control/22): the bands of fixes/control/10 named a release for pairs no release writes — (1201, 0) and
(1300, 0) → 12, PostgreSQL 17's own numbers (1700, 202406281) and (1300, 202406281) → 16, (1800, 202506291) → 16 — where the
Spec says 17 for the PostgreSQL 17 pair and 0 = unknown for the others; the repaired code answers the Spec's. -/
theorem witness_R22 :
    Model.Orig.inferPGVersionBands 1201 0 = 12 ∧ Model.Orig.inferPGVersionBands 1300 0 = 12 ∧
    Model.Orig.inferPGVersionBands 1700 202406281 = 16 ∧ Model.Orig.inferPGVersionBands 1300 202406281 = 16 ∧
    Model.Orig.inferPGVersionBands 1800 202506291 = 16 ∧
    majorReport 1201 0 = some 0 ∧ majorReport 1300 0 = some 0 ∧ majorReport 1700 202406281 = some 17 ∧
    majorReport 1800 202506291 = some 0 ∧
    Model.inferPGVersion 1201 0 = 0 ∧ Model.inferPGVersion 1300 0 = 0 ∧ Model.inferPGVersion 1700 202406281 = 17 ∧
    Model.inferPGVersion 1300 202406281 = 17 ∧ Model.inferPGVersion 1800 202506291 = 0 := by decide

/-- B12: as written, genuine PostgreSQL 12, 13 and 14 control files were reported as 13, 15 and 15 -/
theorem witness_B12 : Model.Orig.inferPGVersion 1201 201909212 = 13 ∧ Model.Orig.inferPGVersion 1300 202007201 = 15 ∧
    Model.Orig.inferPGVersion 1300 202107181 = 15 := by decide

/-- A50: on a typical image the storage-section search finds nothing (it looks for 8, _, 8192, _, 8192 from offset
220 on; the real fields are maxAlign@204, floatFormat@208, blcksz@216), so sizes were defaults and checksums "off" -/
theorem witness_A50 : Model.Orig.findStorageSection (encControl Gen.typicalControl 0 0) 220 = .ok 0 := by decide +kernel

/-- A49: with max_worker_processes = 0 the settings search skips the real section (180) and locks onto offset 244 -/
theorem witness_A49 :
    Model.Orig.findConfigSection (encControl { Gen.typicalControl with maxWorkerProcesses := 0 } 0 0) 180 = .ok 244 := by
  decide +kernel

/-- A51: the name as written used timeline 1, 16 MiB segments and `segNo >> 32` — wrong for the redo location of the
real PostgreSQL 10 file (0x6/9300F358, whose WAL file is 000000010000000600000093) -/
theorem witness_A51 : Model.Orig.formatWALFilename 0x69300F358 1 = "000000010000000000000693" := by decide

end PgVerif.Props.C16
