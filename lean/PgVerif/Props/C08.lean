/-
  C08 — TOASTed and compressed values are reassembled to the original bytes; TOAST pointer fields;
  per-table TOAST statistics.  Property theorems only; helper lemmas are in Proofs/ToastPtr.lean, Proofs/Pglz.lean,
  Proofs/Lz4.lean, Proofs/ToastRel.lean, Proofs/ToastReasm.lean, Proofs/ToastStats.lean.

  Spec side: Spec/Pglz.lean (token lists, `expand` = what a stream stands for, `renderPglz` = pg_lzcompress.c's byte
  layout), Spec/Lz4.lean (sequences, `expand`, `render` = LZ4 block format), Spec/Toast.lean (18-byte external pointer,
  toasted value = original / stored form / chunking / pointer, rows of the TOAST relation, layouts = rows placed on heap
  pages in any order together with other values' rows and rows of aborted insertions).
  Model side: Model/Toast.lean, Model/Pglz.lean, Model/Lz4.lean = pgdump/toast.go with fixes/toast/01..06, 20..22 applied.

  LIVENESS OF A CHUNK (what "dead chunk versions" means in every theorem below).  A row of the TOAST relation is LIVE iff
  PostgreSQL's TOAST snapshot sees it: `Spec.Toast.toastVisible infomask xmin` = HeapTupleSatisfiesToast
  (heapam_visibility.c, 12–16) = HEAP_XMIN_COMMITTED set, or else HEAP_XMIN_INVALID not set and t_xmin ≠ 0.  The rule reads
  the tuple header only: no commit log, no t_xmax, no XMAX hint bit.  `Layout.liveRows`, `Layout.Stores` and the statistics
  are defined through it.  So
    * a chunk nobody has hinted yet (0x0802: the state of every chunk until the first VACUUM or pruning of the TOAST
      relation) is live — the tool read TOAST relations with the heap rule of C09 before fixes/toast/21 (XMIN_COMMITTED
      hinted and deleter not committed), did not see such chunks and returned nil for the value: `C08_unhinted_witness`;
    * the chunks of a DELETED value (xmax committed, 0x0502) are live as long as they are on the page: PostgreSQL decides
      whether a value is alive by the visibility of the main tuple that points to it, never by its chunks, and the tool
      reads the value behind the pointer of a deleted main row (ReadDeletedRows) the same way;
    * a DEAD CHUNK VERSION in the property's sense is a row left by an aborted insertion (HEAP_XMIN_INVALID without
      HEAP_XMIN_COMMITTED: 0x0202, 0x0A02, …) or a cancelled speculative insertion (t_xmin 0): these are the only rows
      that can carry the (chunk_id, chunk_seq) of a visible chunk — value ids are not reused while rows with them exist —
      and they are not read, whatever they contain.
-/
import PgVerif.Proofs.ToastReasm
import PgVerif.Proofs.ToastStats
import PgVerif.Proofs.ToastHoles
namespace PgVerif.Props.C08
open PgVerif PgVerif.Model PgVerif.Model.Toast PgVerif.Spec PgVerif.Spec.Toast PgVerif.Proofs.Toast

/-- what the parsed pointer exposes (the fields the property names) -/
def viewOfPtr (p : Ptr) : PtrView := ⟨p.rawSize, p.extSize, p.valueID, p.toastRelID, p.isCompressed, p.method⟩

/-- Pointer: for all 2^128 combinations of the four stored fields (raw size, external size + method bits,
value id, TOAST relation id) — and whatever bytes follow the 18-byte pointer — ParseTOASTPointer returns
exactly the fields PostgreSQL recorded, the compression method from the top two bits of va_extinfo, and
"compressed" iff the external size is smaller than the raw size minus the 4-byte header. -/
theorem C08_pointer (p : ExtPtr) (h : p.WF) (trailing : Bytes) :
    (parseTOASTPointer (encExtPtr p ++ trailing)).map (fun r => r.map viewOfPtr) = .ok (some (ptrView p)) := by
  rw [parseTOASTPointer_enc p h trailing]; rfl

/-- non-vacuity: a compressed LZ4 pointer with distinctive fields is well-formed and reported compressed -/
example : (⟨10004, 2500, 1, 0x11223344, 16385⟩ : ExtPtr).WF ∧
    (ptrView ⟨10004, 2500, 1, 0x11223344, 16385⟩).isCompressed = true := by decide

/-- pglz: for EVERY valid token stream — any mix of literals and matches, every tag form (2-byte tags for lengths
3..17, 3-byte tags for 18..273, offsets 1..4095), overlapping copies (offset < length) included, any number of control
groups, the last one partial — decompressPGLZ applied to the rendered stream and the exact raw size returns exactly the
bytes the tokens stand for.  (Streams shorter than 4 bytes are rejected by the Go function; no compressed external
value has one: `Proofs.Pglz.pglz_stream_ge4`.) -/
theorem C08_pglz (ts : List Pglz.Tok) (h : Pglz.PglzWF ts) (h4 : 4 ≤ (Pglz.renderPglz ts).length) :
    Model.Pglz.decompressPGLZ (Pglz.renderPglz ts) (Pglz.expand ts).length = .ok (some (Pglz.expand ts)) :=
  PgVerif.Proofs.Pglz.decompressPGLZ_render ts h h4

/-- non-vacuity: literals, a short overlapping match, an extended-length match at offset 1, a match reaching back 300 bytes -/
example : Pglz.PglzWF [.lit 0x61, .lit 0x62, .lit 0x63, .mat 3 30, .mat 1 273, .lit 0x7A, .mat 2 18, .mat 300 17] ∧
    4 ≤ (Pglz.renderPglz [.lit 0x61, .lit 0x62, .lit 0x63, .mat 3 30, .mat 1 273, .lit 0x7A, .mat 2 18, .mat 300 17]).length := by
  decide

/-- LZ4: for EVERY valid block — any number of sequences, literal runs and match lengths of any size (with any number of
0xFF extension bytes), offsets 1..65535 within the output produced so far, overlapping matches included, followed by
a last literal-only sequence (possibly empty) — decompressLZ4 applied to the rendered block and the exact raw size
returns exactly the bytes the block stands for. -/
theorem C08_lz4 (b : Lz4.Block) (h : Lz4.Lz4WF b) :
    Model.Lz4.decompressLZ4 (Lz4.render b) (Lz4.expand b).length = .ok (some (Lz4.expand b)) :=
  PgVerif.Proofs.Lz4.decompressLZ4_render b h

/-- non-vacuity: a match overlapping itself, a 300-byte run, a 20-literal sequence, 5 last literals -/
example : Lz4.Lz4WF ⟨[⟨[0x61, 0x62, 0x63], 3, 30⟩, ⟨[], 1, 300⟩, ⟨List.replicate 20 7, 20, 19⟩], [1, 2, 3, 4, 5]⟩ := by
  decide

/-- the chunks ReadTOASTTable returns for a layout: one per LIVE row (live = seen by PostgreSQL's TOAST snapshot,
`Spec.Toast.toastVisible`: see the head of this file), in physical order, with the row's id, sequence number and bytes -/
theorem C08_chunks (lay : Layout) (h : lay.WF) :
    readTOASTTable (encToastRel lay) = .ok (lay.liveRows.map toChunk) :=
  readTOASTTable_layout lay h

/-- Reassembly: for every well-formed layout of a TOAST relation — rows on any number of pages in ANY physical order,
mixed with other values' rows (live or deleted) and with dead chunk versions (rows of aborted or cancelled insertions,
whatever their contents and their xmax bits) — and every value `v` (1 byte .. 1 GiB, stored plain, pglz- or
LZ4-compressed, cut into chunks of any sizes) that the relation `Stores`: the rows PostgreSQL's TOAST snapshot sees with
`v`'s id are exactly `v`'s chunks (each once, any order; in any hint state: unhinted, hinted committed, frozen, with any
xmax): reading the relation, parsing the 18-byte pointer PostgreSQL left in the main tuple, and reassembling returns
exactly the original bytes of `v`.  Holds for every behaviour of the zlib fallback (it is never reached). -/
theorem C08_reassemble (zlib : Bytes → Nat → Option Bytes) (lay : Layout) (hl : lay.WF) (v : ToastValue) (hv : v.WF)
    (hs : lay.Stores v) :
    (do let chunks ← readTOASTTable (encToastRel lay)
        match ← parseTOASTPointer (encExtPtr (ptrOf v)) with
        | none => pure none
        | some p => reassembleTOAST zlib chunks p.valueID (some p)) = .ok (some v.content.original) := by
  rw [readTOASTTable_layout lay hl, parse_ptrOf v hv]
  simp only [ok_bind]
  apply reassemble_value zlib _ v hv
  rw [List.filter_map]
  exact hs.map toChunk

/-! #### pages as deletes + VACUUM leave them

`encToastRelH lay holes` puts non-NORMAL line pointers (`Spec.Toast.Hole`: LP_UNUSED — all-zero —, LP_DEAD without or with
storage, LP_REDIRECT) before, between and behind the NORMAL pointers of every page's rows; `LayoutHWF` = every page is a
well-formed PostgreSQL page (`Spec.Page.WF`) and every row is well-formed.  The holes carry no tuple: the chunks, the
reassembled value and the statistics are those of the dense relation. -/

/-- `C08_chunks` on pages with holes anywhere in the pointer arrays -/
theorem C08_chunks_holes (lay : Layout) (holes : List Holes) (h : LayoutHWF lay holes) :
    readTOASTTable (encToastRelH lay holes) = .ok (lay.liveRows.map toChunk) :=
  readTOASTTable_layoutH lay holes h

/-- `C08_reassemble` on pages with holes: whatever unused, dead (with or without storage) and redirect pointers lie before,
between and behind the pointers of the chunks, the value the relation `Stores` is returned byte for byte -/
theorem C08_reassemble_holes (zlib : Bytes → Nat → Option Bytes) (lay : Layout) (holes : List Holes)
    (hl : LayoutHWF lay holes) (v : ToastValue) (hv : v.WF) (hs : lay.Stores v) :
    (do let chunks ← readTOASTTable (encToastRelH lay holes)
        match ← parseTOASTPointer (encExtPtr (ptrOf v)) with
        | none => pure none
        | some p => reassembleTOAST zlib chunks p.valueID (some p)) = .ok (some v.content.original) := by
  rw [readTOASTTable_layoutH lay holes hl, parse_ptrOf v hv]
  simp only [ok_bind]
  apply reassemble_value zlib _ v hv
  rw [List.filter_map]
  exact hs.map toChunk

/-- `C08_stats_any_order` on pages with holes -/
theorem C08_stats_holes (π : GroupOrder) (hπ : ∀ l, (π l).Perm l) (relid : Nat) (lay : Layout) (holes : List Holes)
    (h : LayoutHWF lay holes) :
    (lay.liveRows = [] → getTOASTVerboseInfoWith π relid (encToastRelH lay holes) = .ok none) ∧
    (lay.liveRows ≠ [] → ∃ i, getTOASTVerboseInfoWith π relid (encToastRelH lay holes) = .ok (some i) ∧
      StatsOK relid lay.liveRows i) :=
  verboseInfo_layoutH_with π hπ relid lay holes h

/-- a two-chunk value on a page whose pointer array reads UNUSED, NORMAL (chunk 1), UNUSED, DEAD with storage (a stale
version of chunk 0), NORMAL (chunk 0), REDIRECT, DEAD, and a second page holding nothing but an unused pointer -/
def holesValue : ToastValue := { id := 7, relid := 16385, content := .plain [1, 2, 3], cuts := [2, 1] }
def holesLayout : Layout := [[{ row := { id := 7, seq := 1, data := [3] } }, { row := { id := 7, seq := 0, data := [1, 2] } }], []]
def holesHoles : List Holes :=
  [[[Hole.unused], [Hole.unused, Hole.deadStored { row := { id := 7, seq := 0, data := [9, 9] } }], [Hole.redirect 2, Hole.dead]],
   [[Hole.unused]]]

/-- non-vacuity of the hypotheses of `C08_reassemble_holes` -/
example : LayoutHWF holesLayout holesHoles ∧ holesValue.WF ∧ holesLayout.Stores holesValue ∧
    ((toastPageH (holesLayout.getD 0 []) (holesHoles.getD 0 [])).lps.map fun l => decide (l.slot?.isSome)) =
      [false, true, false, false, true, false, false] := by
  decide +kernel

/-- a one-chunk value, toasted by a transaction that committed -/
def unhintedValue : ToastValue := { id := 7, relid := 16385, content := .plain [1, 2, 3], cuts := [3] }
/-- its chunk in the state every freshly inserted tuple has (0x0802: XMAX_INVALID; no XMIN hint yet) — what a TOAST
relation looks like until its first VACUUM -/
def unhintedFresh : Layout := [[{ row := { id := 7, seq := 0, data := [1, 2, 3] }, infomask := 0x0802 }]]
/-- the same value stored next to leftovers with its id: an aborted insertion (0x0A02), a cancelled speculative insertion
(t_xmin 0), and before them the chunk of another, DELETED value (0x0502, xmax committed) -/
def unhintedMixed : Layout :=
  [[{ row := { id := 6, seq := 0, data := [6, 6] }, infomask := 0x0502, xmax := 900 },
    { row := { id := 7, seq := 0, data := [9, 9] }, infomask := 0x0A02, xmin := 650 },
    { row := { id := 7, seq := 0, data := [8] }, infomask := 0x0802, xmin := 0 },
    { row := { id := 7, seq := 0, data := [1, 2, 3] }, infomask := 0x0802 }]]

/-- **The defect repaired by fixes/toast/21 (finding `C08-unhinted-chunks`), on the model.**  The relation holding the
unhinted chunk is well-formed and stores the value; the repaired reader returns the original bytes (also next to an
aborted version, a cancelled insertion and a deleted value's chunk, which shows up as a chunk of its own id); the reader
the tool used before — the heap scan with `visibleOnly` = C09's hint-bit rule, `ReadTuples(data, true)` — finds NO tuple
in the same file, so ReassembleTOAST had no chunk and returned nil. -/
theorem C08_unhinted_witness :
    unhintedValue.WF ∧ unhintedFresh.WF ∧ unhintedFresh.Stores unhintedValue ∧
    (do let chunks ← readTOASTTable (encToastRel unhintedFresh)
        match ← parseTOASTPointer (encExtPtr (ptrOf unhintedValue)) with
        | none => pure none
        | some p => reassembleTOAST (fun _ _ => none) chunks p.valueID (some p)) = .ok (some [1, 2, 3]) ∧
    (readTuples (encToastRel unhintedFresh) true).map List.length = .ok 0 ∧
    unhintedMixed.WF ∧ unhintedMixed.Stores unhintedValue ∧
    readTOASTTable (encToastRel unhintedMixed) = .ok [⟨6, 0, [6, 6]⟩, ⟨7, 0, [1, 2, 3]⟩] := by
  have hv : unhintedValue.WF := by decide +kernel
  have h1 : unhintedFresh.WF := by decide +kernel
  have h2 : unhintedMixed.WF := by decide +kernel
  have hs : unhintedFresh.Stores unhintedValue := by decide +kernel
  refine ⟨hv, h1, hs, C08_reassemble _ _ h1 _ hv hs, ?_, h2, by decide +kernel, ?_⟩
  · have hb : ∀ b ∈ unhintedFresh.map (fun pg => Block.page (toastPage pg)), b.WF := by
      intro b hb
      simp only [List.mem_map] at hb
      obtain ⟨pg, hpg, rfl⟩ := hb
      exact toastPage_wf pg (h1 pg hpg).1 (h1 pg hpg).2
    have := PgVerif.Proofs.scan_enc _ [] true hb (by simp)
    have he : PgVerif.Proofs.scanViewVis true 0 (unhintedFresh.map fun pg => Block.page (toastPage pg)) = [] := by
      decide +kernel
    rw [he] at this
    unfold encToastRel
    cases hr : readTuples (encHeap (unhintedFresh.map fun pg => Block.page (toastPage pg)) []) true with
    | error e => rw [hr] at this; simp [Except.map] at this
    | ok es =>
      rw [hr] at this
      simp only [Except.map, Except.ok.injEq, List.map_eq_nil_iff] at this
      subst this; rfl
  · rw [C08_chunks _ h2]
    have : unhintedMixed.liveRows.map toChunk = [⟨6, 0, [6, 6]⟩, ⟨7, 0, [1, 2, 3]⟩] := by decide +kernel
    rw [this]

/-- The same through TOASTReader.ReadValue with the relation loaded under the pointer's relation id. -/
theorem C08_readValue (zlib : Bytes → Nat → Option Bytes) (readFile : Nat → Option Bytes) (lay : Layout) (hl : lay.WF)
    (v : ToastValue) (hv : v.WF) (hs : lay.Stores v) (others : List (Nat × List Chunk)) (hasDir : Bool) :
    (do let chunks ← readTOASTTable (encToastRel lay)
        let r ← readValue zlib readFile ⟨(v.relid, chunks) :: others, hasDir⟩ (encExtPtr (ptrOf v))
        pure r.1) = .ok (some v.content.original) := by
  rw [readTOASTTable_layout lay hl]
  simp only [ok_bind, readValue, parse_ptrOf v hv]
  have hlk : List.lookup (mptr v).toastRelID ((v.relid, lay.liveRows.map toChunk) :: others) = some (lay.liveRows.map toChunk) := by
    simp [mptr, List.lookup]
  simp only [hlk, Option.isNone_some, Bool.false_and, Bool.false_eq_true, if_false, pure_eq_ok, ok_bind]
  have := reassemble_value zlib (lay.liveRows.map toChunk) v hv (by rw [List.filter_map]; exact hs.map toChunk)
  have hid : (mptr v).valueID = v.id := rfl
  rw [hid, this]
  rfl

/-- **Relations do not mix**: chunk ids are unique only within one TOAST relation.  With a reader that holds any
number of other relations *before and after* the pointer's own — none of the earlier ones under the pointer's relation
id, but with any chunks at all, in particular chunks carrying the same value id — `ReadValue` returns the original
bytes of the value stored in the relation the pointer names. -/
theorem C08_readValue_isolated (zlib : Bytes → Nat → Option Bytes) (readFile : Nat → Option Bytes) (lay : Layout) (hl : lay.WF)
    (v : ToastValue) (hv : v.WF) (hs : lay.Stores v) (pre post : List (Nat × List Chunk)) (hasDir : Bool)
    (hpre : ∀ t ∈ pre, t.1 ≠ v.relid) :
    (do let chunks ← readTOASTTable (encToastRel lay)
        let r ← readValue zlib readFile ⟨pre ++ (v.relid, chunks) :: post, hasDir⟩ (encExtPtr (ptrOf v))
        pure r.1) = .ok (some v.content.original) := by
  rw [readTOASTTable_layout lay hl]
  simp only [ok_bind, readValue, parse_ptrOf v hv]
  have hlk : List.lookup (mptr v).toastRelID (pre ++ (v.relid, lay.liveRows.map toChunk) :: post)
      = some (lay.liveRows.map toChunk) := by
    have hk : (mptr v).toastRelID = v.relid := rfl
    rw [hk]
    induction pre with
    | nil => simp
    | cons t pre ih =>
      have ht : t.1 ≠ v.relid := hpre t (List.mem_cons_self ..)
      have ht' : (v.relid == t.1) = false := by
        simp only [beq_eq_false_iff_ne, ne_eq]; exact fun h => ht h.symm
      obtain ⟨k, c⟩ := t
      simp only [List.cons_append, List.lookup, ht']
      exact ih (fun u hu => hpre u (List.mem_cons_of_mem _ hu))
  simp only [hlk, Option.isNone_some, Bool.false_and, Bool.false_eq_true, if_false, pure_eq_ok, ok_bind]
  have := reassemble_value zlib (lay.liveRows.map toChunk) v hv (by rw [List.filter_map]; exact hs.map toChunk)
  have hid : (mptr v).valueID = v.id := rfl
  rw [hid, this]
  rfl

/-- Reassembly from ANY well-formed heap file (the general form of `C08_reassemble`): blocks = formatted pages with
pointers in any state, tuples anywhere on the page with junk between them, all-zero blocks, a trailing partial block;
the only assumptions are that every stored t_xmin fits its 4 bytes (`xminOK`), that the data areas of the LIVE tuples
(`liveDatas`: the tuples PostgreSQL's TOAST snapshot sees, `Spec.Toast.toastVisible`) are rows of a TOAST relation (dead
tuples may hold anything) and that the live rows with `chunk_id = v.id` are exactly `v`'s chunks in some order. -/
theorem C08_reassemble_heap (zlib : Bytes → Nat → Option Bytes) (bs : List Block) (tail : Bytes) (hb : ∀ b ∈ bs, b.WF)
    (hx : ∀ b ∈ bs, xminOK b) (ht : tail.length < 8192) (rows : List Row) (hr : ∀ r ∈ rows, r.WF) (hd : liveDatas bs = rows.map rowData)
    (v : ToastValue) (hv : v.WF) (hs : (rows.filter fun r => r.id == v.id).Perm (chunkRows v)) :
    (do let chunks ← readTOASTTable (encHeap bs tail)
        match ← parseTOASTPointer (encExtPtr (ptrOf v)) with
        | none => pure none
        | some p => reassembleTOAST zlib chunks p.valueID (some p)) = .ok (some v.content.original) := by
  rw [readTOASTTable_heap bs tail hb hx ht, hd, collectM_rows rows hr, parse_ptrOf v hv]
  simp only [ok_bind]
  apply reassemble_value zlib _ v hv
  rw [List.filter_map]
  exact hs.map toChunk

/-- the block hypotheses of `C08_reassemble_heap` are satisfiable by the real thing: the pages of every well-formed layout are
well-formed blocks whose tuples carry 32-bit xmins (this is how `C08_chunks` / `C08_reassemble` are obtained from it) -/
example (lay : Layout) (h : lay.WF) : ∀ b ∈ lay.map (fun pg => Block.page (toastPage pg)), b.WF ∧ xminOK b := by
  intro b hb
  simp only [List.mem_map] at hb
  obtain ⟨pg, hpg, rfl⟩ := hb
  exact ⟨toastPage_wf pg (h pg hpg).1 (h pg hpg).2, xminOK_toastPage pg (h pg hpg).2⟩

/-- non-vacuity: a two-chunk plain value and a pglz-compressed value in one relation, stored out of order on two pages
with a dead version of a chunk (an aborted insertion) in between: the layout is well-formed and stores both values -/
example :
    let v1 : ToastValue := { id := 7, relid := 16385, content := .plain [1, 2, 3, 4, 5], cuts := [3, 2] }
    let ts : List Pglz.Tok := [.lit 0x61, .mat 1 273, .mat 1 20]
    let v2 : ToastValue := { id := 8, relid := 16385, content := .pglz ts, cuts := [4, 1, 7] }
    let dead : Entry := { row := { id := 7, seq := 0, data := [9, 9] }, infomask := 0x0A02 }
    let lay : Layout := [[{ row := { id := 7, seq := 1, data := [4, 5] } }, dead, { row := { id := 8, seq := 2, data := (v2.content.stored.drop 5) } }],
                         [{ row := { id := 8, seq := 0, data := v2.content.stored.take 4 } }, { row := { id := 7, seq := 0, data := [1, 2, 3] } },
                          { row := { id := 8, seq := 1, data := (v2.content.stored.drop 4).take 1 } }]]
    v1.WF ∧ v2.WF ∧ lay.WF ∧ lay.Stores v1 ∧ lay.Stores v2 := by
  decide +kernel

/-- Statistics: for every well-formed layout and every order in which Go's `range` yields the entries of the value map
(`π`: any rearrangement), GetTOASTVerboseInfo reports nil when the relation has no live chunk, and otherwise a report that
satisfies `StatsOK` for the LIVE rows (live = seen by PostgreSQL's TOAST snapshot, see the head of this file: rows of
aborted / cancelled insertions are not counted, the chunks of deleted values still on the pages are): total chunk count, total bytes, the average as the quotient of these two, exactly one entry per
distinct chunk id with that value's chunk count (non-zero) and byte total, the entries in ascending chunk id order
(fixes/toast/05; `StatsOK.values_unique`: this fixes the list completely), the number of such entries as `unique_values`,
their maximum chunk count, and a distribution map (a Go map: rendered by key) holding under every occurring chunk count the
number of values with that count.  `CompressionStats` and the per-value `is_compressed` / `raw_size` / `ext_size` are not
covered: the Go code never fills them (they cannot be derived from the TOAST relation alone; always 0 / false in the JSON).
The harness compares against the rendering `Spec.Toast.stats` of the same tallies, `Values` in the order returned. -/
theorem C08_stats_any_order (π : GroupOrder) (hπ : ∀ l, (π l).Perm l) (relid : Nat) (lay : Layout) (h : lay.WF) :
    (lay.liveRows = [] → getTOASTVerboseInfoWith π relid (encToastRel lay) = .ok none) ∧
    (lay.liveRows ≠ [] → ∃ i, getTOASTVerboseInfoWith π relid (encToastRel lay) = .ok (some i) ∧ StatsOK relid lay.liveRows i) :=
  verboseInfo_layout_with π hπ relid lay h

/-- the same for the order-free name `getTOASTVerboseInfo` (= any order, by `C11Maps.C11_toastInfo_order_independent`) -/
theorem C08_stats (relid : Nat) (lay : Layout) (h : lay.WF) :
    (lay.liveRows = [] → getTOASTVerboseInfo relid (encToastRel lay) = .ok none) ∧
    (lay.liveRows ≠ [] → ∃ i, getTOASTVerboseInfo relid (encToastRel lay) = .ok (some i) ∧ StatsOK relid lay.liveRows i) :=
  verboseInfo_layout relid lay h

/-- and the report is exactly the Spec's rendering as far as `Values` goes: any report satisfying `StatsOK` lists the
same entries in the same order -/
theorem C08_stats_values_unique (relid : Nat) (rows : List Row) (i j : VerboseInfo)
    (hi : StatsOK relid rows i) (hj : StatsOK relid rows j) : i.values = j.values :=
  StatsOK.values_unique hi hj

example : (List.reverse : GroupOrder) [(1, []), (2, [])] = [(2, []), (1, [])] ∧ ∀ l, ((List.reverse : GroupOrder) l).Perm l :=
  ⟨rfl, fun l => List.reverse_perm l⟩

/-- non-vacuity: three live rows of two values and a dead one (aborted insertion); value 7 has 2 chunks / 5 bytes, value 8
one unhinted chunk / 1 byte -/
example :
    let lay : Layout := [[{ row := { id := 7, seq := 1, data := [4, 5] } }, { row := { id := 7, seq := 0, data := [9, 9] }, infomask := 0x0A02 },
                          { row := { id := 8, seq := 0, data := [6] }, infomask := 0x0802 }], [{ row := { id := 7, seq := 0, data := [1, 2, 3] } }]]
    lay.WF ∧ lay.liveRows.length = 3 ∧
      (stats lay.liveRows).values = [⟨7, 2, 5⟩, ⟨8, 1, 1⟩] ∧ (stats lay.liveRows).distribution = [(1, 1), (2, 1)] := by
  decide +kernel

end PgVerif.Props.C08
