/-
  C08 — TOASTed and compressed values are reassembled to the original bytes; TOAST pointer fields;
  per-table TOAST statistics.  Property theorems only; helper lemmas are in Proofs/Toast*.lean, Proofs/Pglz.lean,
  Proofs/Lz4.lean.
-/
import PgVerif.Proofs.ToastPtr
namespace PgVerif.Props.C08
open PgVerif PgVerif.Model.Toast PgVerif.Spec.Toast PgVerif.Proofs.Toast

/-- what the parsed pointer exposes (the fields the property names) -/
def viewOfPtr (p : Ptr) : PtrView := ⟨p.rawSize, p.extSize, p.valueID, p.toastRelID, p.isCompressed, p.method⟩

/-- Pointer: for all 2^128 combinations of the four stored fields (raw size, external size + method bits,
value id, TOAST relation id) — and whatever bytes follow the 18-byte pointer — ParseTOASTPointer returns
exactly the fields PostgreSQL recorded, the compression method from the top two bits of va_extinfo, and
"compressed" iff the external size is smaller than the raw size minus the 4-byte header. -/
theorem C08_pointer (p : ExtPtr) (h : p.WF) (trailing : Bytes) :
    (parseTOASTPointer (encExtPtr p ++ trailing)).map (fun r => r.map viewOfPtr) = .ok (some (ptrView p)) := by
  rw [parseTOASTPointer_enc p h trailing]; rfl

/-- non-vacuity: a compressed LZ4 pointer with distinctive fields is well-formed and reported compressed -/
example : (⟨10004, 2500, 1, 0x11223344, 16385⟩ : ExtPtr).WF ∧
    (ptrView ⟨10004, 2500, 1, 0x11223344, 16385⟩).isCompressed = true := by decide

end PgVerif.Props.C08
