/-
  C12 (topic E9) — the entry points that reach a cluster WITHOUT naming DumpDataDir give the same databases, tables and
  rows as DumpDataDir on the same directory:

    ListDatabases   the databases of global/1262 exactly once each (those ParsePGDatabase finds — the list DumpDataDir
                    walks), ordered non-templates first, then by name; every database DumpDataDir dumps is listed
    DumpAll         one DumpDataDir result per detected directory, in detection order; with $PGDATA pointing at a valid
                    directory and no other installation on the machine: exactly `[DumpDataDir($PGDATA)]`
    Summary / MarshalJSON   the `databases` object lists, per non-template database name, the ordinary non-pg_/sql_
                    tables of Tables(db) in filenode order

  Models: Model/ExtraCluster.lean (same parameters as Model/Cluster.lean: row reader, map order, file system).
  Helper lemmas: Proofs/ExtraCluster.lean.
-/
import PgVerif.Proofs.ExtraCluster
import PgVerif.Proofs.ClusterStr
set_option linter.unusedSimpArgs false
namespace PgVerif.Props.C12Extra
open PgVerif PgVerif.Model PgVerif.Model.Extra PgVerif.Proofs.Extra PgVerif.Props.C10.Cluster
open scoped List

/-- **ListDatabases = the databases DumpDataDir walks, reordered.**  When global/1262 is readable and ParsePGDatabase
makes `dbs` of it, ListDatabases returns a permutation of `dbs` (every database once, none invented, none lost) in which
no template precedes a non-template and, within each of the two groups, names ascend in byte order. -/
theorem C12_listDatabases (rr : RowReader) (fs : Bytes → Option Bytes) (data : Bytes) (dbs : List DatabaseInfo)
    (hf : fs pathGlobal1262 = some data) (hp : parsePGDatabase rr data = .ok dbs) :
    ∃ l, listDatabases rr fs = .ok l ∧ l ~ dbs ∧
      l.Pairwise (fun a b => (xcIsTemplate a.name = true → xcIsTemplate b.name = true) ∧
                             (xcIsTemplate a.name = xcIsTemplate b.name → bytesLe a.name b.name = true)) :=
  listDatabases_spec rr fs data dbs hf hp

/-- the hypotheses of `C12_listDatabases` are satisfiable with a non-trivial list: a row reader that finds two
pg_database rows (oid 5 "z", oid 6 "a") -/
example : ∃ (rr : RowReader) (fs : Bytes → Option Bytes) (data : Bytes) (dbs : List DatabaseInfo),
    fs pathGlobal1262 = some data ∧ parsePGDatabase rr data = .ok dbs ∧ dbs = [⟨5, [122]⟩, ⟨6, [97]⟩] := by
  refine ⟨fun _ _ _ => pure [[(strBytes "oid", .int 5), (strBytes "datname", .str [122])],
                             [(strBytes "oid", .int 6), (strBytes "datname", .str [97])]], fun _ => some [], [], _, rfl, ?_, rfl⟩
  have hne : (strBytes "datname" == strBytes "oid") = false := by
    rw [beq_eq_false_iff_ne]
    intro h
    exact absurd (Proofs.Cluster.strBytes_inj _ _ h) (by decide)
  simp [parsePGDatabase, getOID, getString, List.lookup, hne]

/-- no global/1262: nil -/
theorem C12_listDatabases_missing (rr : RowReader) (fs : Bytes → Option Bytes) (hf : fs pathGlobal1262 = none) :
    listDatabases rr fs = .ok [] := by
  simp only [listDatabases, hf]; rfl

/-- **Every database of the dump is a listed database.**  For every tree, all options and every map order: each database
DumpDataDir puts in its result carries the oid and the name of an entry of ListDatabases on the same tree, and that
entry is not a template. -/
theorem C12_dump_databases_listed (rr : RowReader) (π : MapOrder TableInfo) (fs : Bytes → Option Bytes) (o : Spec.Options)
    (r : Spec.DumpResult) (l : List DatabaseInfo) (hd : dumpDataDir rr π fs o = .ok (some r)) (hl : listDatabases rr fs = .ok l) :
    ∀ d ∈ r, ∃ db ∈ l, db.oid = d.oid ∧ db.name = d.name ∧ xcIsTemplate db.name = false := by
  unfold dumpDataDir at hd
  unfold listDatabases at hl
  cases hf : fs pathGlobal1262 with
  | none => rw [hf] at hd; cases hd
  | some data =>
    rw [hf] at hd hl
    simp only at hd hl
    cases hp : parsePGDatabase rr data with
    | error e => rw [hp] at hd; cases hd
    | ok dbs =>
      rw [hp] at hd hl
      simp only [ok_bind, pure_eq_ok] at hd hl
      cases hc : collectM (dumpDb rr π fs o) dbs with
      | error e => rw [hc] at hd; cases hd
      | ok ds =>
        rw [hc] at hd
        simp only [ok_bind, pure_eq_ok] at hd
        injection hd with hd; injection hd with hd; subst hd
        injection hl with hl; subst hl
        intro d hdm
        obtain ⟨db, hdb, hstep⟩ := Proofs.collectM_ok _ _ _ hc d hdm
        refine ⟨db, (goInsertionSort_perm listDbLess dbs).symm.subset hdb, ?_⟩
        unfold dumpDb at hstep
        by_cases h1 : Spec.isPrefixB (strBytes "template") db.name = true
        · rw [if_pos h1] at hstep; cases hstep
        · rw [if_neg h1] at hstep
          by_cases h2 : (o.dbFilter != [] && db.name != o.dbFilter) = true
          · rw [if_pos h2] at hstep; cases hstep
          · rw [if_neg h2] at hstep
            simp only at hstep
            by_cases h3 : ((fs (basePath db.oid 1259)).getD []).length = 0
            · rw [if_pos h3] at hstep; cases hstep
            · rw [if_neg h3] at hstep
              cases ht : dumpDatabaseFromFiles rr π ((fs (basePath db.oid 1259)).getD []) ((fs (basePath db.oid 1249)).getD [])
                  (some fun fn => fs (basePath db.oid fn)) o with
              | error e => rw [ht] at hstep; cases hstep
              | ok ts =>
                rw [ht] at hstep
                simp only [ok_bind, pure_eq_ok] at hstep
                injection hstep with hstep; injection hstep with hstep; subst hstep
                exact ⟨rfl, rfl, by simpa [xcIsTemplate] using h1⟩

/-- **DumpAll = DumpDataDir over the detected directories.**  For every environment and every content of the
directories, DumpAll is the list of the (non-error) DumpDataDir results of the detected directories, in detection
order, under the same options — same databases, tables and rows, because it is literally the same computation. -/
theorem C12_dumpAll (rr : RowReader) (π : MapOrder TableInfo) (e : DetectEnv) (fsAt : Bytes → Bytes → Option Bytes)
    (o : Spec.Options) :
    dumpAll rr π e fsAt o = collectM (fun dir => dumpDataDir rr π (fsAt dir) o) (detectAllDataDirs e) :=
  dumpAll_eq rr π e fsAt o

/-- **$PGDATA alone.**  $PGDATA is set and valid, no other candidate path holds a cluster: DumpAll returns exactly
`[DumpDataDir($PGDATA, opts)]` (nothing when that call reports the error). -/
theorem C12_dumpAll_pgdata (rr : RowReader) (π : MapOrder TableInfo) (e : DetectEnv) (fsAt : Bytes → Bytes → Option Bytes)
    (o : Spec.Options) (h1 : e.pgdata ≠ []) (h2 : e.valid e.pgdata = true)
    (h3 : ∀ p ∈ e.candidates, e.valid (e.expand p) = false ∨ e.expand p = e.pgdata) :
    dumpAll rr π e fsAt o = (dumpDataDir rr π (fsAt e.pgdata) o >>= fun r => pure r.toList) := by
  rw [dumpAll_eq, detectAll_pgdata_only e h1 h2 h3]
  simp only [collectM]
  cases dumpDataDir rr π (fsAt e.pgdata) o with
  | error err => rfl
  | ok r => cases r <;> rfl

/-- **One result per detected directory.**  When `isValidDataDir` is read off the same file trees DumpDataDir reads
(global/1262 present and non-empty), no detected directory is dropped: DumpAll returns exactly as many dumps as
DetectAllDataDirs returns directories. -/
theorem C12_dumpAll_one_per_dir (rr : RowReader) (h : TotalReader rr) (π : MapOrder TableInfo) (e : DetectEnv)
    (fsAt : Bytes → Bytes → Option Bytes) (o : Spec.Options) (hv : e.valid = validBy fsAt) :
    ∃ rs, dumpAll rr π e fsAt o = .ok rs ∧ rs.length = (detectAllDataDirs e).length := by
  rw [dumpAll_eq]
  apply collectM_length_of_some
  intro dir hdir
  have := detectAll_valid e dir hdir
  rw [hv] at this
  exact dumpDataDir_some_of_valid rr h π fsAt o dir this

/-- nothing detected: nil -/
theorem C12_dumpAll_none (rr : RowReader) (π : MapOrder TableInfo) (e : DetectEnv) (fsAt : Bytes → Bytes → Option Bytes)
    (o : Spec.Options) (h : detectAllDataDirs e = []) : dumpAll rr π e fsAt o = .ok [] := by
  rw [dumpAll_eq, h]; rfl

/-! ### SummaryResult.MarshalJSON -/

/-- **What the `databases` object holds for one database** (a lemma about `summaryDatabasesMap` on a literal SummaryResult with ONE
database — what a client's Summary holds on the tree of a whole cluster, for any number of databases, is `C12_remote_summary` in
Props/C12Remote.lean).  For a summary with a single non-template database, the
object MarshalJSON builds has that database's name as its only key and, under it, the names of the tables of
`Tables(db)` that are ordinary (`relkind r`) and neither pg_* nor sql_*, in the order of `Tables` (filenode order) —
or no key at all when there is no such table. -/
theorem C12_summary_one_database (version : Bytes) (creds : List AuthInfo) (db : DatabaseInfo) (ts : List TableInfo)
    (hnt : xcIsTemplate db.name = false) :
    summaryDatabasesMap ⟨version, creds, [db], [(db.oid, ts)]⟩ =
      (if ts.filter summaryKeep = [] then [] else [(db.name, (ts.filter summaryKeep).map (·.name))]) := by
  have key : ∀ (l : List TableInfo) (acc : List Bytes), acc ≠ [] →
      l.foldl (fun m t => strMapAppend m db.name t.name) [(db.name, acc)] = [(db.name, acc ++ l.map (·.name))] := by
    intro l
    induction l with
    | nil => intro acc _; simp
    | cons t l ih =>
      intro acc hacc
      simp only [List.foldl_cons, strMapAppend, beq_self_eq_true, if_true, List.map_cons]
      rw [ih (acc ++ [t.name]) (by simp)]
      simp
  simp only [summaryDatabasesMap, List.foldl_cons, List.foldl_nil, hnt, mapGet, List.lookup_cons, beq_self_eq_true,
    Option.getD_some]
  cases hf : ts.filter summaryKeep with
  | nil => simp
  | cons t rest =>
    simp only [List.foldl_cons, strMapAppend, List.map_cons]
    rw [key rest [t.name] (by simp)]
    simp

/-- the hypotheses of `C12_dumpAll_pgdata` are satisfiable: one valid directory named by $PGDATA -/
example : detectAllDataDirs ⟨[64], linuxCandidates, id, fun d => d == [64]⟩ = [[64]] := by
  apply detectAll_pgdata_only
  · simp
  · rfl
  · intro p _
    by_cases h : p = [64]
    · exact Or.inr h
    · left; simp [h]

end PgVerif.Props.C12Extra
