/-
  C15 — search and secret scan on dumps that hold Go `[]byte` values (REVIEW.md C4).
  Property theorems only; helper lemmas are in Proofs/SearchBytes.lean.

  The dumps DumpDataDir makes hold no `[]byte` (Props/C15.lean covers them: values are `GoVal`s).  `SearchInDump` and
  `ScanDumpResult` are exported and accept any `*DumpResult`; `Spec.SearchB.SVal` adds the kind `[]byte`, at any depth.
  Specification (Spec/SearchBytes.lean): a `[]byte` is searched and scanned as the text it holds.  The search always did
  that; the secret scan did not (`%v` prints a `[]byte` as decimal numbers) — repaired by fix search/04, and the model
  here is the repaired code.  Parameters as in Props/C15.lean.
-/
import PgVerif.Proofs.SearchBytes
import PgVerif.Proofs.SearchOrig
namespace PgVerif.Props.C15Bytes
open PgVerif PgVerif.Spec.Search PgVerif.Spec.SearchB PgVerif.Model.Search PgVerif.Model.SearchB PgVerif.Proofs.Search
  PgVerif.Proofs.SearchB
open scoped List

/-- **Prefix / exactness with `[]byte` cells.**  For every dump whose values are of any kind a `DumpResult` can hold —
NULL, booleans, integers, floats, strings, `[]byte`, arrays and JSON objects of these to any depth —, every option set,
regex engine and scalar text: SearchInDump returns the error when the effective pattern does not compile, and otherwise
exactly the first MaxResults (all when MaxResults ≤ 0) matching cells in (database, table, row, column) order, where a
`[]byte` matches like the string of the same bytes; each hit carries the cell's own value (the `[]byte` itself) and,
iff IncludeRow, the row as it is in the dump. -/
theorem C15_bytes_prefix (R : Regex) (sh : GoVal → Bytes) (d : SDump) (o : Opts) : hitsS R sh d o = expectedS R sh d o :=
  searchS_eq_expectedS R sh d o

/-- **When does a value match.**  `matchValue` (all cases of its type switch, `[]byte` included) answers true exactly when
the pattern matches one of the value's texts: a string or `[]byte` itself; an object's keys and, recursively, the texts of
its values; recursively the texts of an array's elements; any other scalar's `%v` text; NULL has none. -/
theorem C15_bytes_matchValue (re : Bytes → Bool) (sh : GoVal → Bytes) (v : SVal) :
    matchValueS re sh v = true ↔ ∃ t ∈ searchTextsS sh v, re t = true := by
  rw [matchValueS_eq, cellMatches_texts, List.any_eq_true]; rfl

/-- **A `[]byte` is text**, for the search and (after fix search/04) for the secret scan alike: it matches iff the pattern
matches its bytes, and the text handed to the detectors is its bytes — at the top of a cell … -/
theorem C15_bytes_as_text (re : Bytes → Bool) (sh : GoVal → Bytes) (b : Bytes) :
    matchValueS re sh (.bytes b) = re b ∧ cellText sh (.bytes b) = b ∧
    matchValueS re sh (.bytes b) = matchValueS re sh (.str b) ∧ cellText sh (.bytes b) = cellText sh (.str b) :=
  ⟨rfl, rfl, rfl, rfl⟩

/-- … and at any depth: replacing every `[]byte` of a value by the string of the same bytes changes neither whether the
value matches nor the text the detectors see. -/
theorem C15_bytes_as_text_nested (re : Bytes → Bool) (sh : GoVal → Bytes) (v : SVal) :
    matchValueS re sh v = matchValueS re sh (ofGo (asText v)) ∧ cellText sh v = cellText sh (ofGo (asText v)) := by
  refine ⟨?_, ?_⟩
  · rw [matchValueS_eq, matchValueS_eq, asText_ofGo]
  · simp only [cellText, asText_ofGo]

/-- **Decoded values.**  On a value of a decoded kind (no `[]byte`) the extended model is the model of
Model/Search.lean / Model/Secrets.lean: same match, same cell text. -/
theorem C15_bytes_decoded (re : Bytes → Bool) (sh : GoVal → Bytes) (v : GoVal) :
    matchValueS re sh (ofGo v) = matchValue re sh v ∧ cellText sh (ofGo v) = fmtV sh v := by
  refine ⟨?_, ?_⟩
  · rw [matchValueS_eq, asText_ofGo, matchValue_eq]
  · simp only [cellText, asText_ofGo]

/-- **Exactly the matching cells, as multisets.**  On a well-formed dump every matching binding of every row is reported
exactly once by an unlimited search, and nothing else is. -/
theorem C15_bytes_exact (re : Bytes → Bool) (sh : GoVal → Bytes) (incl : Bool) (d : SDump) (hw : SDump.WF d) :
    allMatchesS re sh incl d ~ matchingCellsS re sh incl d := by
  simp only [allMatchesS, matchingCellsS]
  apply Proofs.SearchOrig.perm_flatMap_congr; intro D hD
  apply Proofs.SearchOrig.perm_flatMap_congr; intro t ht
  apply Proofs.SearchOrig.perm_flatMap_congr; intro ri hri
  have hrw : SRow.WF ri.1 := wfS_row_of_getElem? d hw D hD t ht ri.2 ri.1 (List.mem_zipIdx_iff_getElem?.1 hri)
  exact ((rowCellsS_perm t.columns ri.1 hrw).filter _).map _

/-- **Secret scan, exactly (code after fix search/04).**  ScanDumpResult returns, cell by cell in (database, table, row,
column) order, for each cell whose text — `%v` with every `[]byte` read as the text it holds — has at least 8 bytes,
the results of every detector that passes its keyword pre-filter on that text, with the cell's coordinates. -/
theorem C15_bytes_secret_exact (dets : List Detector) (sh : GoVal → Bytes) (d : SDump) :
    scanDumpResultS dets sh d = expectedFindingsS dets sh d :=
  scanS_eq_expectedS dets sh d

/-- **A token planted in a cell of any kind is reported** under the per-cell hypotheses of `Props.C15.C15_secret`: if a
detector of the scanner passes its pre-filter on the cell's text and reports `r` on it, the scan returns a finding with
the cell's coordinates — also when the token sits in a `[]byte` (the cell itself, an array element, an object value). -/
theorem C15_bytes_secret (dets : List Detector) (sh : GoVal → Bytes) (d : SDump) (hw : SDump.WF d) (db tbl : Bytes) (i : Nat)
    (col : Bytes) (v : SVal) (row : SRow) (hcell : IsCellS d db tbl i col v row) (hlen : 8 ≤ (cellTextS sh v).length)
    (det : Detector) (hdet : det ∈ dets) (hk : keywordPass det (cellTextS sh v) = true)
    (found : List DetResult) (hd : det.fromData (cellTextS sh v) = some found) (r : DetResult) (hr : r ∈ found) :
    ({ detector := r.detector, db := db, table := tbl, col := col, row := i, raw := r.raw } : Finding)
      ∈ scanDumpResultS dets sh d := by
  obtain ⟨D, hD, rfl, t, ht, rfl, hri, hcv⟩ := hcell
  have hrw := wfS_row_of_getElem? d hw D hD t ht i row hri
  rw [C15_bytes_secret_exact]
  simp only [expectedFindingsS, List.mem_flatMap]
  refine ⟨D, hD, t, ht, (row, i), List.mem_zipIdx_iff_getElem?.2 hri, (col, v), (mem_rowCellsS t.columns row hrw (col, v)).2 hcv, ?_⟩
  simp only [cellFindingsS]
  rw [if_neg (by omega)]
  exact List.mem_map.2 ⟨r, (Proofs.Secrets.mem_scanText dets _ r).2 ⟨det, hdet, hk, found, hd, hr⟩, rfl⟩

/-- **Finding search-04 (code before the fix).**  `%v` renders the `[]byte` cell holding `sk_live_` as
`[115 107 95 108 105 118 101 95]`; the token does not occur in that text, so no detector could report it, while the
search matched the same cell.  After the fix the text is the token. -/
theorem search04_witness :
    let tok : Bytes := [115, 107, 95, 108, 105, 118, 101, 95]
    fmtVOrig (fun _ => []) (.bytes tok) =
      [91, 49, 49, 53, 32, 49, 48, 55, 32, 57, 53, 32, 49, 48, 56, 32, 49, 48, 53, 32, 49, 49, 56, 32, 49, 48, 49, 32, 57, 53, 93] ∧
    occursIn tok (fmtVOrig (fun _ => []) (.bytes tok)) = false ∧
    cellText (fun _ => []) (.bytes tok) = tok ∧ matchValueS (fun s => occursIn tok s) (fun _ => []) (.bytes tok) = true := by
  decide

/-- the hypotheses of `C15_bytes_secret` are satisfiable with the token in a `[]byte` nested in an array -/
example :
    let tok : Bytes := [103, 108, 112, 97, 116, 45, 65, 66]
    let v : SVal := .arr [.int 7, .bytes tok]
    let det : Detector := { keywords := [[103, 108, 112, 97, 116, 45]],
                            fromData := fun s => some (if occursIn tok s then [⟨[71], tok⟩] else []) }
    let row : SRow := [([107], v)]
    let d : SDump := [{ name := [100], tables := [{ name := [116], columns := [[107]], rows := [row] }] }]
    SDump.WF d ∧ IsCellS d [100] [116] 0 [107] v row ∧ cellTextS (fun _ => [55]) v = [91, 55, 32] ++ tok ++ [93] ∧
      keywordPass det (cellTextS (fun _ => [55]) v) = true ∧ det.fromData (cellTextS (fun _ => [55]) v) = some [⟨[71], tok⟩] := by
  refine ⟨?_, ⟨_, List.mem_cons_self, rfl, _, List.mem_cons_self, rfl, rfl, List.mem_cons_self⟩, by decide, by decide, by decide⟩
  intro db hdb t ht r hr
  simp only [List.mem_cons, List.not_mem_nil, or_false] at hdb; subst hdb
  simp only [List.mem_cons, List.not_mem_nil, or_false] at ht; subst ht
  simp only [List.mem_cons, List.not_mem_nil, or_false] at hr; subst hr
  simp only [SRow.WF]; decide

end PgVerif.Props.C15Bytes
