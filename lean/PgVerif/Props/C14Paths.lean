/-
  C14 (the other two access paths of `observe_at`) — ExtractPasswords (data directory) and RemoteClient.Credentials
  (remote reader) on a tree whose global/1260 is a well-formed pg_authid heap: both return exactly the role versions
  of `C14_roles`.  Property theorems only.  (The models of the two wrappers are area `entry`'s, Model/ExtraCluster.lean.)
-/
import PgVerif.Props.C14
import PgVerif.Model.ExtraCluster
namespace PgVerif.Props.C14
open PgVerif PgVerif.Model PgVerif.Spec PgVerif.Proofs PgVerif.Proofs.Rows

/-- **ExtractPasswords(dataDir).**  On a data directory whose file global/1260 is a well-formed pg_authid heap storing
the role versions `vers` (any header fields, any t_infomask — live or dead), ExtractPasswords returns one entry per
version with the role's name, oid, superuser and login flags and exactly the stored verifier; when the file cannot be
read it returns the error. -/
theorem C14_extractPasswords (fs : Bytes → Option Bytes) (bs : List Block) (tail : Bytes) (vers : List (HdrFields × Role × Nat))
    (hb : ∀ b ∈ bs, b.WF) (ht : tail.length < 8192)
    (hvers : fileTuples bs = vers.map fun v => encRoleH v.1 v.2.1 v.2.2)
    (hwf : ∀ v ∈ vers, v.2.1.WF ∧ v.2.2 < 65536) :
    (fs (strBytes "global/1260") = some (encHeap bs tail) →
      Extra.extractPasswords fs = .ok (some (vers.map fun v => authView v.2.1))) ∧
    (fs (strBytes "global/1260") = none → Extra.extractPasswords fs = .ok none) := by
  constructor
  · intro hfile
    unfold Extra.extractPasswords
    rw [hfile]
    simp only [C14_roles bs tail vers hb ht hvers hwf, ok_bind, pure_eq_ok]
  · intro h
    unfold Extra.extractPasswords
    rw [h]
    rfl

/-- **RemoteClient.Credentials.**  The same through a remote reader; an unreadable global/1260 gives no credentials
(nil), never an invented one. -/
theorem C14_credentials (fs : RemoteReader) (bs : List Block) (tail : Bytes) (vers : List (HdrFields × Role × Nat))
    (hb : ∀ b ∈ bs, b.WF) (ht : tail.length < 8192)
    (hvers : fileTuples bs = vers.map fun v => encRoleH v.1 v.2.1 v.2.2)
    (hwf : ∀ v ∈ vers, v.2.1.WF ∧ v.2.2 < 65536) :
    (fs (strBytes "global/1260") = some (encHeap bs tail) →
      Extra.rcCredentials fs = .ok (vers.map fun v => authView v.2.1)) ∧
    (fs (strBytes "global/1260") = none → Extra.rcCredentials fs = .ok []) := by
  constructor
  · intro hfile
    unfold Extra.rcCredentials
    rw [hfile]
    exact C14_roles bs tail vers hb ht hvers hwf
  · intro h
    unfold Extra.rcCredentials
    rw [h]
    rfl

end PgVerif.Props.C14
