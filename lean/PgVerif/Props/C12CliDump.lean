/-
  C12, command-line program, dump modes — the `Lib` field instantiated (second review, point 11).

  `C12_cli_dump_output` (Props/C12Cli.lean) speaks about an ABSTRACT library record `L`: it says what main.go prints given
  what `L.dumpDataDir` returns.  Here the field is the model of the real `DumpDataDir` on a file system
  (`libOn`), so that the statements read

      stdout = render (dumpDataDir fs (optionsOf flags))                      `C12_cli_dump_is_dumpDataDir`
      … and on the tree of a cluster that dump is the Spec's expected dump     `C12_cli_dump_on_cluster`

  (the second through `C01_dump_real`, with its hypotheses — the open findings of C01 are carve-outs here too).
  Still not stated in Lean: the flag parser (`Flags` is the record Go's `flag` package fills: a stated parameter), `-v` /
  `-debug` output, and the text of floats (`L.floatFmt`, area export's parameter; a JSON dump holding a float is
  `.unrendered`, see `C12_cli_dump_json_rendered`).
-/
import PgVerif.Props.C12Cli
import PgVerif.Props.C01
namespace PgVerif.Props.C12CliDump
open PgVerif PgVerif.Model PgVerif.Model.CliRender PgVerif.Proofs PgVerif.Proofs.Cluster PgVerif.Proofs.CliDump List
open PgVerif.Spec (DumpResult Options Cluster)

/-- **stdout / stderr / exit code of the dump modes = the rendering of `DumpDataDir(dir, optionsOf flags)`.**  For every
flag record without a mode flag and with a data directory `dir` (the value of `-d`, else the detected directory), on every
file system, for every row reader and map order: the run of main.go is the model of the real `DumpDataDir` on the files
under `dir`, called once with `{DatabaseFilter: -db, TableFilter: -t, ListOnly: -list, SkipSystemTables: true}`
(`Model.dumpOptions`), followed by the output switch (`finish`: "Error: …" and exit 1 when the call returned an error,
else `renderDump` — `-sql`, else `-csv`, else JSON); a fault (Go panic) of the call is a fault of the program. -/
theorem C12_cli_dump_is_dumpDataDir (L0 : Lib) (rr : RowReader) (π : MapOrder TableInfo) (fs : Bytes → Option Bytes)
    (detected : Bytes) (f : Flags) (hm : C12.noModeFlag f)
    (dir : Bytes) (hdir : dir = if f.dataDir = [] then detected else f.dataDir) (hne : dir ≠ []) :
    cliRun (libOn L0 rr π fs) (cliAction detected f) =
      (Model.dumpDataDir rr π (under fs dir) (Model.dumpOptions f)).map (finish L0 (outFormat f)) := by
  have h := C12Cli.C12_cli_dump_output (libOn L0 rr π fs) detected f hm dir hdir hne
  simp only at h
  obtain ⟨hok, herr, hfault⟩ := h
  have hfield : (libOn L0 rr π fs).dumpDataDir dir
      { dbFilter := f.dbFilter, tableFilter := f.tableFilter, listOnly := f.listOnly, skipSystem := true, pgVersion := 0 } =
      Model.dumpDataDir rr π (under fs dir) (Model.dumpOptions f) := rfl
  rw [hfield] at hok herr hfault
  cases hd : Model.dumpDataDir rr π (under fs dir) (Model.dumpOptions f) with
  | error e => rw [hfault e hd]; rfl
  | ok x =>
    cases x with
    | none => rw [herr hd]; rfl
    | some r =>
      rw [hok r hd]
      show _ = Except.ok (renderDump L0 (outFormat f) r)
      unfold renderDump outFormat
      cases f.sqlOutput <;> cases f.csvOutput <;> simp only [Bool.false_eq_true, if_true, if_false, okOut, libOn]
      cases dumpJV r <;> rfl

/-- **On the tree of a cluster the program prints the Spec's dump.**  Let the files under `dir` be the tree of a
well-formed cluster `c` (`Spec.fsOf c`), the row reader the model of heap.go:ReadRows over the composed model of
types.go:DecodeType (`rowsDec X`), and let `c` and the options of the command line satisfy the hypotheses of `C01_dump`
(outside the open findings C01-TPL, C01-SEG / C01-TBLSPC, C01-MAPPED, C01-MISSINGVAL, A02; `DbDumpable`).  Then
`pgread -d dir [-db …] [-t …] [-list] [-sql | -csv]` exits 0 and prints the rendering (`renderDump`) of a dump `r` that is,
database by database, table by table, column by column and row by row, `Spec.expectedDump` at the options of the command
line (`normDb` blanks the type-name text of type oids the Spec has no name for). -/
theorem C12_cli_dump_on_cluster (X : PgVerif.Proofs.Entry.Render) (L0 : Lib) (π : MapOrder TableInfo) (hπ : ∀ l, π l ~ l)
    (fs : Bytes → Option Bytes) (c : Cluster) (hwf : c.WF)
    (detected : Bytes) (f : Flags) (hm : C12.noModeFlag f)
    (dir : Bytes) (hdir : dir = if f.dataDir = [] then detected else f.dataDir) (hne : dir ≠ [])
    (hfs : ∀ p, fs (dir ++ 47 :: p) = Spec.fsOf c p)
    (htpl : Spec.TemplatesByName c) (hplain : c.Plain) (hid : c.IdentityMapped) (hnm : c.NoFastDefaults)
    (hdump : ∀ db ∈ c.dbs.live, Spec.selectedDb (Model.dumpOptions f) db = true → ∀ d, c.content.lookup db.oid = some d →
      DbDumpable c.layout d (Model.dumpOptions f) ∧ Spec.A02Free d (Model.dumpOptions f)) :
    ∃ r : DumpResult,
      r.map Cluster.normDb = Spec.expectedDump (varlenaVal (C10.Entry.rowsDec X)) c (Model.dumpOptions f) ∧
      cliRun (libOn L0 (readRows (C10.Entry.rowsDec X)) π fs) (cliAction detected f) = .ok (renderDump L0 (outFormat f) r) := by
  obtain ⟨r, hr, hspec⟩ := C01.C01_dump_real X π hπ c hwf (Model.dumpOptions f) htpl hplain hid hnm hdump
  refine ⟨r, hspec, ?_⟩
  rw [C12_cli_dump_is_dumpDataDir L0 _ π fs detected f hm dir hdir hne]
  have hu : under fs dir = Spec.fsOf c := funext hfs
  rw [hu, hr]
  rfl

/-- non-vacuity: the flags `-d /data -t T -list` on the example cluster of Props/C01.lean mounted at `/data` -/
example : C12.noModeFlag { dataDir := Txt.asc "/data", tableFilter := Txt.asc "T", listOnly := true } ∧
    (∀ p, (fun q => if (Txt.asc "/data/").isPrefixOf q then Spec.fsOf C01.exCluster (q.drop 6) else none) (Txt.asc "/data" ++ 47 :: p) =
      Spec.fsOf C01.exCluster p) := by
  refine ⟨by simp [C12.noModeFlag], ?_⟩
  intro p
  have h1 : Txt.asc "/data" ++ 47 :: p = Txt.asc "/data/" ++ p := by
    have : Txt.asc "/data/" = Txt.asc "/data" ++ [47] := by decide
    rw [this]; simp
  rw [h1]
  have h2 : (Txt.asc "/data/").isPrefixOf (Txt.asc "/data/" ++ p) = true := by simp
  have h3 : (Txt.asc "/data/" ++ p).drop 6 = p := by
    have : (Txt.asc "/data/").length = 6 := by decide
    rw [← this]; simp
  simp only [h2, if_true, h3]

#print axioms C12_cli_dump_is_dumpDataDir
#print axioms C12_cli_dump_on_cluster

end PgVerif.Props.C12CliDump
