/-
  C05 — numeric values decode to the right number; NaN/infinity preserved.
  Property theorems only; helper lemmas are in Proofs/Numeric.lean.
-/
import PgVerif.Model.Numeric
import PgVerif.Spec.Numeric
namespace PgVerif.Props.C05
open PgVerif PgVerif.Model

/-- placeholder while the pipeline is brought up -/
theorem C05_zero_digits (w : Int) (neg : Bool) : computeNumeric [] w neg = .num false 0 0 := rfl

end PgVerif.Props.C05
