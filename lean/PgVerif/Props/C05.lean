/-
  C05 — numeric values decode to the right number; NaN/infinity preserved.
  Property theorems only; helper lemmas are in Proofs/Numeric.lean.

  What "the right number" means here: the model carries the exact value ±mant·10000^exp of the
  decimal text that the repaired `computeNumeric` hands to strconv.ParseFloat (documented to return
  the nearest float64).  The theorems say this exact value is the stored numeric's value.  The last
  step — rounding to float64 — is not expressible in Lean (Float is opaque to the kernel): it is
  checked on the implementation only, by the harness's math/big oracle (bit equality for ≤ 12
  significant digits and |exp| ≤ 5, ≤ 2 ulp otherwise; observed 0 ulp everywhere after fix 09).
-/
import PgVerif.Proofs.Numeric
namespace PgVerif.Props.C05
open PgVerif PgVerif.Model PgVerif.Proofs

/-- For every well-formed numeric — NaN, +Infinity, −Infinity, or a finite value with any sign, any
weight in int16, any display scale and any number of base-10000 digits (leading/trailing zero groups
included) — and for each header form that can hold it (short: −64 ≤ weight ≤ 63 and dscale ≤ 63; long:
always), decoding PostgreSQL's payload yields that value exactly: the three special values as such,
a finite value as sign · Σ dᵢ·10000^(k−1−i) · 10000^(weight−k+1), and a value without digits as 0. -/
theorem C05_value (n : Spec.Numeric) (h : n.WF) (form : Spec.HeaderForm) (hf : form.admits n) :
    (decodeNumeric (Spec.encNumeric form n)).map NumRes.toView = .ok (some n.view) :=
  decodeNumeric_enc n h form hf

/-- The same value is obtained when the numeric sits inside a JSONB document, i.e. behind its own
4-byte varlena header (how PostgreSQL stores every numeric in jsonb), through `decodeJNumeric`. -/
theorem C05_jsonb (n : Spec.Numeric) (h : n.WF) (form : Spec.HeaderForm) (hf : form.admits n)
    (hlen : (Spec.encNumeric form n).length + 4 < 2 ^ 30) :
    (decodeJNumeric (Spec.varlena4 (Spec.encNumeric form n))).map NumRes.toView = .ok (some n.view) := by
  rw [decodeJNumeric_varlena4 _ (encNumeric_pos form n) hlen]
  exact C05_value n h form hf

/-- … and behind a 1-byte ("short") varlena header, which the reader also accepts, provided the
payload has at least 3 bytes.  (A bare 2-byte header word — the value 0 without digits — behind a
1-byte varlena header is only 3 bytes long and `decodeJNumeric` requires 4; PostgreSQL never writes
this form inside jsonb.) -/
theorem C05_jsonb_short_varlena (n : Spec.Numeric) (h : n.WF) (form : Spec.HeaderForm) (hf : form.admits n)
    (h3 : 3 ≤ (Spec.encNumeric form n).length) (hlen : (Spec.encNumeric form n).length + 1 ≤ 127) :
    (decodeJNumeric (Spec.varlena1 (Spec.encNumeric form n))).map NumRes.toView = .ok (some n.view) := by
  rw [decodeJNumeric_varlena1 _ h3 hlen]
  exact C05_value n h form hf

/-- All 65 536 header words (no enumeration: quotient/remainder reasoning on the masks): whatever
follows the header word, `DecodeNumeric` takes the branch PostgreSQL's own macros select for that
word — special (and then NaN / +Infinity / −Infinity exactly as numeric_out prints it), short (with
the sign bit 0x2000 and the 7-bit two's complement weight), or long (with the sign 0x4000). -/
theorem C05_header (h : Nat) (hh : h < 65536) (body : Bytes) :
    match Spec.classifyHeader h with
    | .special v => decodeNumeric (le 2 h ++ body) = .ok (.special (specialOf h)) ∧
                    (NumRes.special (specialOf h)).toView = some v
    | .short neg w _ => decodeNumeric (le 2 h ++ body) = decodeNumericShort (le 2 h ++ body) h ∧
                        shortHeaderFields h = ⟨neg, w⟩
    | .long neg _ => decodeNumeric (le 2 h ++ body) = decodeNumericLong (le 2 h ++ body) ∧
                     ((h &&& 0xC000) == 0x4000) = neg := by
  obtain ⟨_, _, m3, m4⟩ := header_masks h
  rw [decodeNumeric_dispatch h body hh]
  unfold Spec.classifyHeader
  by_cases c3 : (h / 0x4000 % 4 == 3) = true
  · simp only [c3, if_true, true_and]
    unfold specialOf
    split
    · rfl
    · split <;> rfl
  · simp only [c3, Bool.false_eq_true, if_false]
    have c3' : ¬ h / 0x4000 % 4 = 3 := by simpa using c3
    by_cases c2 : (h / 0x4000 % 4 == 2) = true
    · have c2' : h / 0x4000 % 4 = 2 := by simpa using c2
      have e : (h / 0x8000 % 2 == 1) = true := by simp; omega
      simp only [c2, e, if_true, true_and]
      exact m4
    · have c2' : ¬ h / 0x4000 % 4 = 2 := by simpa using c2
      have e : (h / 0x8000 % 2 == 1) = false := by simp; omega
      simp only [c2, e, Bool.false_eq_true, if_false, true_and]
      exact m3

/-- non-vacuity of `C05_value`: 0.5 (short form, weight −1 — the class broken before fix 01), −12.34 in
the long form, and NaN satisfy the hypotheses -/
example : (Spec.Numeric.fin false (-1) 1 [5000]).WF ∧ Spec.HeaderForm.short.admits (.fin false (-1) 1 [5000]) ∧
    (Spec.Numeric.fin true 0 2 [12, 3400]).WF ∧ Spec.HeaderForm.long.admits (.fin true 0 2 [12, 3400]) ∧
    Spec.Numeric.nan.WF := by decide

/-- … and the decoder's answer on the first is the exact value 5000·10000⁻¹ -/
example : decodeNumeric (Spec.encNumeric .short (.fin false (-1) 1 [5000])) = .ok (.num false 5000 (-1)) := by
  rfl

end PgVerif.Props.C05
