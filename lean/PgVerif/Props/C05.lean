/-
  C05 — numeric values decode to the right number; NaN/infinity preserved.
  Property theorems only; helper lemmas are in Proofs/Numeric.lean and Proofs/NumericValue.lean.

  What the code does and what is proved about it:
   1. `DecodeNumeric` classifies the header word, reads sign, weight and the base-10000 digits, and builds the decimal
      TEXT `[-]dddd…e<4·(weight−k+1)>` (the model builds it byte for byte: `Model.numericText`).
      `C05_exact` / `C05_text`: read by the Spec's own reader of such texts (`Spec.readDecimal`, written without reference
      to the code), that text denotes EXACTLY the stored numeric's value ±Σ dᵢ·10000^(k−1−i)·10^(4·(w−k+1)); and
      `C05_positional` / `C05_rational`: that decimal is PostgreSQL's positional value Σ dᵢ·10000^(w−i) (over the
      naturals, scaled by a power of ten, and over ℚ).
   2. The text is handed to `strconv.ParseFloat`, whose result is returned.  ParseFloat is a PARAMETER `pf` of the model;
      its documented contract (`Spec.ParseFloatOK`: the result is the double nearest to the denoted decimal, ties to even,
      ±Inf beyond the finite range) is the one assumption.  `C05_value`: under that contract the Go value returned is
      bit for bit the float64 nearest to the numeric's exact value — for EVERY digit count, hence in particular
      "exactly the nearest double for values of up to 12 significant digits" — and NaN / +Infinity / −Infinity come out as
      NaN / +Inf / −Inf.  The contract is checked against the real strconv on every generated case: the driver instantiates
      `pf` with the executable reference `Spec.parseFloatRef` (`Txt.f64OfRat`, the project's correctly rounding soft-float)
      and the harness compares `math.Float64bits` of pgread's result with it exactly (no tolerance, ±0 distinguished).
  Number kinds: for a value stored without digits `DecodeNumeric` returns Go `int(0)`, otherwise `float64`; the property
  speaks of "the decoded number", so the theorems read an `int` result as the float64 of the same value
  (`Spec.numAsF64`); model and implementation are compared WITH kinds (families numeric_raw / jsonb_raw).
  Finite values beyond the double range (|value| ≥ ~1.8·10³⁰⁸; needs weight ≥ 77, outside the quantifier's −64..63)
  come out as ±Inf, as IEEE-754 rounding and ParseFloat prescribe: `C05_overflow_is_inf`.
-/
import PgVerif.Proofs.Numeric
import PgVerif.Proofs.NumericValue
import PgVerif.Proofs.JsonbGo
namespace PgVerif.Props.C05
open PgVerif PgVerif.Model PgVerif.Proofs

/-- **Exact level.**  For every well-formed numeric — NaN, +Infinity, −Infinity, or a finite value with any sign, any
weight in int16, any display scale and any number of base-10000 digits (leading/trailing zero groups included) — and
for each header form that can hold it (short: −64 ≤ weight ≤ 63 and dscale ≤ 63; long: always), decoding PostgreSQL's
payload yields that value exactly: the three special values as such; for a finite value the decimal text handed to
ParseFloat, read by `Spec.readDecimal`, denotes sign · Σ dᵢ·10000^(k−1−i) · 10^(4·(weight−k+1)); a value without
digits is 0. -/
theorem C05_exact (n : Spec.Numeric) (h : n.WF) (form : Spec.HeaderForm) (hf : form.admits n) :
    (decodeNumeric (Spec.encNumeric form n)).map NumRes.toView = .ok (some n.view) :=
  decodeNumeric_enc n h form hf

/-- **The text itself.**  For digits below 10000 (at least one), any sign and weight, the text `computeNumeric` builds
— `-` if negative, four characters per digit, `e`, the decimal exponent 4·(weight−k+1) — denotes exactly
(sign, Σ dᵢ·10000^(k−1−i), 4·(weight−k+1)) in the Spec's reading of decimal texts. -/
theorem C05_text (digits : List Nat) (w : Int) (neg : Bool) (hd : ∀ d ∈ digits, d < 10000) (hne : digits ≠ []) :
    computeNumeric digits w neg = .num (numericText digits w neg) ∧
    Spec.readDecimal (numericText digits w neg) = some (neg, Spec.mantOf digits 0, 4 * (w - digits.length + 1)) := by
  refine ⟨?_, NumericValue.readDecimal_numericText digits w neg hd hne⟩
  have hl : (digits.length == 0) = false := by cases digits <;> simp_all
  simp [computeNumeric, hl, any_ge_false digits hd]

/-- **The decimal is PostgreSQL's value.**  PostgreSQL defines the value of the digit string d₀…d_{k−1} with weight w as
Σ dᵢ·10000^(w−i).  Scaled by any power 10^S that makes all exponents non-negative (so that both sides are natural
numbers), that sum equals mant·10^exp10 for the Spec's decimal mant = Σ dᵢ·10000^(k−1−i), exp10 = 4·(w−k+1). -/
theorem C05_positional (S : Nat) (digits : List Nat) (w : Int) (h : 0 ≤ 4 * (w - digits.length + 1) + S) :
    Spec.posValue S w digits = Spec.mantOf digits 0 * 10 ^ (4 * (w - digits.length + 1) + S).toNat :=
  NumericValue.posValue_eq S digits w h

/-- **The decimal is the rational value.**  For every finite numeric (any sign, weight, digits; no hypothesis) the Spec's
decimal `view` — the quantity `C05_exact` shows the decoder's text to denote — is, as a rational number, PostgreSQL's value
sign · Σ dᵢ·10000^(weight−i) (ℚ from Lean's core library). -/
theorem C05_rational (neg : Bool) (w : Int) (ds : Nat) (digits : List Nat) :
    (Spec.Numeric.fin neg w ds digits).view.toRat = (Spec.Numeric.fin neg w ds digits).toRat := by
  show (if digits.isEmpty then Spec.NumView.exact false 0 0
        else Spec.NumView.exact neg (Spec.mantOf digits 0) (4 * (w - digits.length + 1))).toRat
      = some ((if neg then -1 else 1) * Spec.ratPositional w digits)
  rw [NumericValue.ratPositional_eq]
  cases hd : digits.isEmpty with
  | true =>
    have : digits = [] := by simpa using hd
    subst this
    simp [Spec.NumView.toRat, Spec.mantOf]
  | false => simp only [Bool.false_eq_true, if_false, Spec.NumView.toRat]

/-- what a `DecodeNumeric` result is as a number, when its exact reading is `v`: under the ParseFloat contract the Go
value (an `int` read as the float64 of the same value) is the float64 nearest to `v` -/
theorem C05_toGo_of_exact (pf : ParseFloat) (hpf : Spec.ParseFloatOK pf) (r : NumRes) (v : Spec.NumView)
    (h : r.toView = some v) : Spec.numAsF64 (r.toGo pf) = v.toGo :=
  JsonbGo.num_toGo pf hpf r v h

/-- **C05, value level.**  Let `pf` be a text-to-float64 conversion with ParseFloat's contract (correct rounding of the
denoted decimal).  For every well-formed numeric and each header form that can hold it, `DecodeNumeric` on PostgreSQL's
payload returns — as a number — the float64 NEAREST to the stored value (bit for bit, any digit count), `math.NaN()`
for NaN and ±Inf for ±Infinity. -/
theorem C05_value (pf : ParseFloat) (hpf : Spec.ParseFloatOK pf) (n : Spec.Numeric) (h : n.WF) (form : Spec.HeaderForm)
    (hf : form.admits n) :
    (decodeNumeric (Spec.encNumeric form n)).map (fun r => Spec.numAsF64 (r.toGo pf)) = .ok n.view.toGo := by
  have hv := C05_exact n h form hf
  cases hd : decodeNumeric (Spec.encNumeric form n) with
  | error e => rw [hd] at hv; simp [Except.map] at hv
  | ok r =>
    rw [hd] at hv
    simp only [Except.map, Except.ok.injEq] at hv ⊢
    exact C05_toGo_of_exact pf hpf r _ hv

/-- The same value is obtained when the numeric sits inside a JSONB document, i.e. behind its own 4-byte varlena header
(how PostgreSQL stores every numeric in jsonb), through `decodeJNumeric`. -/
theorem C05_jsonb (pf : ParseFloat) (hpf : Spec.ParseFloatOK pf) (n : Spec.Numeric) (h : n.WF) (form : Spec.HeaderForm)
    (hf : form.admits n) (hlen : (Spec.encNumeric form n).length + 4 < 2 ^ 30) :
    (decodeJNumeric (Spec.varlena4 (Spec.encNumeric form n))).map (fun r => Spec.numAsF64 (r.toGo pf)) = .ok n.view.toGo := by
  rw [decodeJNumeric_varlena4 _ (encNumeric_pos form n) hlen]
  exact C05_value pf hpf n h form hf

/-- … and behind a 1-byte ("short") varlena header, which the reader also accepts, provided the payload has at least
3 bytes.  (A bare 2-byte header word — the value 0 without digits — behind a 1-byte varlena header is only 3 bytes long
and `decodeJNumeric` requires 4; PostgreSQL never writes this form inside jsonb.) -/
theorem C05_jsonb_short_varlena (pf : ParseFloat) (hpf : Spec.ParseFloatOK pf) (n : Spec.Numeric) (h : n.WF)
    (form : Spec.HeaderForm) (hf : form.admits n)
    (h3 : 3 ≤ (Spec.encNumeric form n).length) (hlen : (Spec.encNumeric form n).length + 1 ≤ 127) :
    (decodeJNumeric (Spec.varlena1 (Spec.encNumeric form n))).map (fun r => Spec.numAsF64 (r.toGo pf)) = .ok n.view.toGo := by
  rw [decodeJNumeric_varlena1 _ h3 hlen]
  exact C05_value pf hpf n h form hf

/-- … and when it is stored in a column: `DecodeType(data, 1700)` is `DecodeNumeric(data)` behind the empty-input test
(a numeric payload is never empty). -/
theorem C05_column (pf : ParseFloat) (hpf : Spec.ParseFloatOK pf) (n : Spec.Numeric) (h : n.WF) (form : Spec.HeaderForm)
    (hf : form.admits n) :
    (decodeTypeNumeric (Spec.encNumeric form n)).map (fun r => Spec.numAsF64 (r.toGo pf)) = .ok n.view.toGo := by
  unfold decodeTypeNumeric
  have hpos := encNumeric_pos form n
  have : ((Spec.encNumeric form n).length == 0) = false := by rw [beq_eq_false_iff_ne]; omega
  rw [this]
  exact C05_value pf hpf n h form hf

/-- the ParseFloat contract is satisfiable: the executable reference conversion has it (it is the driver's instance of
`pf`, compared bit for bit with the real strconv.ParseFloat on every generated case) -/
theorem C05_contract_satisfiable : Spec.ParseFloatOK Spec.parseFloatRef := Spec.parseFloatRef_ok

/-- All 65 536 header words (no enumeration: quotient/remainder reasoning on the masks): whatever
follows the header word, `DecodeNumeric` takes the branch PostgreSQL's own macros select for that
word — special (and then NaN / +Infinity / −Infinity exactly as numeric_out prints it), short (with
the sign bit 0x2000 and the 7-bit two's complement weight), or long (with the sign 0x4000). -/
theorem C05_header (h : Nat) (hh : h < 65536) (body : Bytes) :
    match Spec.classifyHeader h with
    | .special v => decodeNumeric (le 2 h ++ body) = .ok (.special (specialOf h)) ∧
                    (NumRes.special (specialOf h)).toView = some v
    | .short neg w _ => decodeNumeric (le 2 h ++ body) = decodeNumericShort (le 2 h ++ body) h ∧
                        shortHeaderFields h = ⟨neg, w⟩
    | .long neg _ => decodeNumeric (le 2 h ++ body) = decodeNumericLong (le 2 h ++ body) ∧
                     ((h &&& 0xC000) == 0x4000) = neg := by
  obtain ⟨_, _, m3, m4⟩ := header_masks h
  rw [decodeNumeric_dispatch h body hh]
  unfold Spec.classifyHeader
  by_cases c3 : (h / 0x4000 % 4 == 3) = true
  · simp only [c3, if_true, true_and]
    unfold specialOf
    split
    · rfl
    · split <;> rfl
  · simp only [c3, Bool.false_eq_true, if_false]
    have c3' : ¬ h / 0x4000 % 4 = 3 := by simpa using c3
    by_cases c2 : (h / 0x4000 % 4 == 2) = true
    · have c2' : h / 0x4000 % 4 = 2 := by simpa using c2
      have e : (h / 0x8000 % 2 == 1) = true := by simp; omega
      simp only [c2, e, if_true, true_and]
      exact m4
    · have c2' : ¬ h / 0x4000 % 4 = 2 := by simpa using c2
      have e : (h / 0x8000 % 2 == 1) = false := by simp; omega
      simp only [c2, e, Bool.false_eq_true, if_false, true_and]
      exact m3

/-- non-vacuity of `C05_value`: 0.5 (short form, weight −1 — the class broken before fix 01), −12.34 in
the long form, and NaN satisfy the hypotheses -/
example : (Spec.Numeric.fin false (-1) 1 [5000]).WF ∧ Spec.HeaderForm.short.admits (.fin false (-1) 1 [5000]) ∧
    (Spec.Numeric.fin true 0 2 [12, 3400]).WF ∧ Spec.HeaderForm.long.admits (.fin true 0 2 [12, 3400]) ∧
    Spec.Numeric.nan.WF := by decide

/-- … and the decoder's answer on the first is the text `5000e-4`, which denotes 5000·10⁻⁴ = 0.5, whose nearest double
is 0x3FE0000000000000 -/
example : decodeNumeric (Spec.encNumeric .short (.fin false (-1) 1 [5000])) = .ok (.num (Txt.asc "5000e-4")) ∧
    Spec.readDecimal (Txt.asc "5000e-4") = some (false, 5000, -4) ∧
    Spec.parseFloatRef (Txt.asc "5000e-4") = 0x3FE0000000000000 := by
  exact ⟨rfl, by decide +kernel, by decide +kernel⟩

/-- the float64 JSON caveat made concrete: 9007199254740993 = 2⁵³ + 1 (digits 9007 1992 5474 0993, weight 3) is returned
as 9007199254740992: it IS the nearest double -/
example : (Spec.Numeric.fin false 3 0 [9007, 1992, 5474, 993]).view.bits = 0x4340000000000000 := by decide +kernel

/-- Finite values beyond the double range come out as +Inf (IEEE-754 overflow; ParseFloat's range error is discarded by
the code): the long-form numeric 10⁴⁰⁰ (weight 100, digit 1).  Indistinguishable from numeric 'Infinity' in the result;
outside the quantified weights (a double overflows from weight 77 on). -/
theorem C05_overflow_is_inf :
    (Spec.Numeric.fin false 100 0 [1]).WF ∧ (Spec.Numeric.fin false 100 0 [1]).view.bits = 0x7FF0000000000000 := by
  exact ⟨by decide, by decide +kernel⟩

end PgVerif.Props.C05
