/-
  C12 — every access path exposes the same databases, tables and rows (pgdump.go, remote.go, main.go;
  the tree after fixes/cluster/01..05).  All paths are model functions over the same abstract file system,
  so the property is a set of equations between them, for EVERY file system (no well-formedness) and every
  row reader.  Go's `flag` parsing, process exit codes and stdout plumbing are decided at run time (family `cli`).
-/
import PgVerif.Proofs.ClusterClass
import PgVerif.Proofs.RemoteQuery
import PgVerif.Model.Cli
namespace PgVerif.Props.C12
open PgVerif PgVerif.Model PgVerif.Proofs PgVerif.Proofs.Cluster List
open PgVerif.Spec (TableDump DatabaseDump DumpResult Options isPrefixB)

/-- **Directory dump = custom-reader dump, database by database.**  For a database that is not a template,
passes the database filter and has a non-empty pg_class file, DumpDataDir's entry is exactly
DumpDatabaseFromFiles on `base/<oid>/1259`, `base/<oid>/1249` and the reader `fn ↦ base/<oid>/<fn>`, with the
database's oid and name filled in. -/
theorem C12_files (rr : RowReader) (π : MapOrder TableInfo) (fs : Bytes → Option Bytes) (o : Options) (db : DatabaseInfo)
    (h1 : isPrefixB (strBytes "template") db.name = false) (h2 : o.dbFilter = [] ∨ db.name = o.dbFilter)
    (h3 : ((fs (basePath db.oid 1259)).getD []).length ≠ 0) :
    dumpDb rr π fs o db =
      (dumpDatabaseFromFiles rr π ((fs (basePath db.oid 1259)).getD []) ((fs (basePath db.oid 1249)).getD [])
        (some fun fn => fs (basePath db.oid fn)) o).map fun ts => some { oid := db.oid, name := db.name, tables := ts } := by
  unfold dumpDb
  have hf : (o.dbFilter != [] && db.name != o.dbFilter) = false := by
    rcases h2 with h | h
    · simp [h]
    · simp [h]
  simp only [h1, Bool.false_eq_true, if_false, hf, if_neg h3]
  cases dumpDatabaseFromFiles rr π ((fs (basePath db.oid 1259)).getD []) ((fs (basePath db.oid 1249)).getD [])
      (some fun fn => fs (basePath db.oid fn)) o <;> rfl

/-- **Databases.**  A fresh client's `Databases()` is `ParsePGDatabase` of `global/1262` — the list DumpDataDir
iterates over (a missing file gives no databases instead of an error). -/
theorem C12_remote_dbs (rr : RowReader) (fs : RemoteReader) :
    (rcDatabases rr fs Cache.empty).map (·.1) =
      (match fs pathGlobal1262 with | some d => parsePGDatabase rr d | none => pure []) := by
  unfold rcDatabases databasesCold
  simp only [Cache.empty, ne_eq, not_true_eq_false, if_false]
  cases fs pathGlobal1262 with
  | none => rfl
  | some d => simp only; cases parsePGDatabase rr d <;> rfl

/-- **Tables.**  The directory dump and the remote listing expose the same tables: for every pg_class content,
the (oid, name, filenode, kind) of the tables DumpDatabaseFromFiles returns are those of `RemoteClient.Tables`
that pass the dump's three filters (ordinary table, not a system table when skipping them, name filter), in the
same order — whatever iteration order Go's map has in either path. -/
theorem C12_remote_tables (rr : RowReader) (π π' : MapOrder TableInfo) (hπ : ∀ l, π l ~ l) (hπ' : ∀ l, π' l ~ l)
    (cd ad : Bytes) (reader : Option FileReader) (o : Options) (tables : List (Nat × TableInfo))
    (ht : parsePGClass rr cd = .ok tables) (ts : List TableDump)
    (h : dumpDatabaseFromFiles rr π cd ad reader o = .ok ts) :
    ts.map tableKey = ((tablesOf π' tables).filter (keepTable o)).map infoKey := by
  rw [dump_tables rr π hπ cd ad reader o tables ht ts h]
  have hk := parsePGClass_keysOK rr cd tables ht
  have : tablesOf π' tables = sortByFilenode (tables.map (·.2)) := by
    unfold tablesOf
    rw [sortByFilenode_eq, sortByFilenode_eq]
    apply sortBy_perm_invariant
    · exact (hπ' tables).map _
    · intro a ha b hb hab
      exact keysOK_inj tables hk a (((hπ' tables).map _).subset ha) b (((hπ' tables).map _).subset hb) hab
  rw [this]

/-- **Columns.**  The attributes a client reports for (database, relation) are the entry of the relation's oid in
`ParsePGAttribute(base/<db>/1249, version of PG_VERSION)` — the list `dumpTable` receives when the directory dump
runs with the same version hint; a missing pg_class or pg_attribute file gives no columns. -/
theorem C12_remote_cols (rr : RowReader) (fs : RemoteReader) (db tbl : Nat) (cd ad : Bytes)
    (hc : fs (basePath db 1259) = some cd) (ha : fs (basePath db 1249) = some ad) (t : List (Nat × TableInfo))
    (ht : parsePGClass rr cd = .ok t) :
    columnsCold rr fs db tbl = (parsePGAttribute rr ad (rcVersionInt fs)).map fun attrs => (mapGet attrs tbl).getD [] := by
  unfold columnsCold catalogCold
  simp only [hc, ha, ht, ok_bind]
  cases parsePGAttribute rr ad (rcVersionInt fs) <;> rfl

/-! The former `C12_query` / `C12_dumpTable_rows` (definitional copies of two lines of `Model.queryWith`, review finding A5) are
gone: what Query's projection and limit do, and that DumpTable / Query / DumpDatabase / DumpAll return the rows and tables of
the directory dump, is stated in Props/C12Remote.lean (`C12_query_projection`, `C12_query_limit`, `C12_remote_*`). -/

/-! ### names differing only in case -/

/-- **An exact match wins** (fix 03): if some entry carries exactly the requested name, the lookup returns the
first such entry, whatever other entries equal it up to case. -/
theorem C12_case_exact {α} (name : α → Bytes) (l : List α) (n : Bytes) (x : α)
    (h : l.find? (fun y => name y == n) = some x) : findByName name l n = some x := by
  unfold findByName; rw [h]

/-- **Otherwise the match is case-insensitive and deterministic**: without an exact match the lookup returns the
first entry (in the sorted listing) whose name equals the request under Go's `strings.EqualFold` (`GoCase.goEqualFold`: ASCII
case on ASCII names), and nothing if there is none. -/
theorem C12_case_fold {α} (name : α → Bytes) (l : List α) (n : Bytes)
    (h : l.find? (fun y => name y == n) = none) :
    findByName name l n = l.find? (fun y => equalFold (name y) n) := by
  unfold findByName; rw [h]

/-- whatever the lookup returns does match the request up to case (Go's `strings.EqualFold`) -/
theorem C12_case_sound {α} (name : α → Bytes) (l : List α) (n : Bytes) (x : α) (h : findByName name l n = some x) :
    x ∈ l ∧ equalFold (name x) n = true := by
  unfold findByName at h
  cases he : l.find? (fun y => name y == n) with
  | some y =>
    rw [he] at h; injection h with h; subst h
    have := List.find?_some he
    refine ⟨List.mem_of_find?_eq_some he, ?_⟩
    have hn : name y = n := by simpa using this
    rw [hn]; exact Proofs.Remote.equalFold_refl n
  | none =>
    rw [he] at h
    simp only at h
    exact ⟨List.mem_of_find?_eq_some h, List.find?_some (p := fun y => equalFold (name y) n) h⟩

/-- agreement with the specification of name lookup: wherever the spec determines the answer (an exact match,
a unique case-insensitive match, or no match at all) the client returns it — for requests and names on which Go's
`strings.EqualFold` is equality of the ASCII lower-casings (`GoCase.foldStable`: every ASCII request on ASCII names —
`C12_case_ascii` —, also `été`; beyond that EqualFold folds by Unicode tables, K = U+212A, ſ = s, and treats every invalid byte
as U+FFFD, and the Spec, which folds ASCII letters only, is silent: review finding C3).  `GoCase.goEqualFold` folds by Go's
own complete `unicode.SimpleFold` tables (Model/GoCaseTables.lean, re-checked against the real `strings.EqualFold` for every
code point by family `gocase`): for table `Āb` (U+0100) and request `āb` the hypothesis is FALSE and nothing is claimed —
Go finds the table, and so does the model (second review, point 3). -/
theorem C12_case (l : List TableInfo) (n : Bytes) (r : Option TableInfo) (hl : GoCase.foldStable (l.map (·.name)) n)
    (h : Spec.lookupName (·.name) l n = some r) : findByName (·.name) l n = r := by
  unfold Spec.lookupName at h
  unfold findByName
  cases he : l.find? (fun y => y.name == n) with
  | some y => rw [he] at h; simp only at h ⊢; injection h
  | none =>
    rw [he] at h
    simp only at h ⊢
    have hhead : l.find? (fun y => equalFold y.name n) = (l.filter fun y => Spec.lowerB y.name == Spec.lowerB n).head? := by
      rw [List.head?_filter]
      apply Proofs.Remote.find?_congr'
      intro y hy
      exact hl y.name (mem_map_of_mem hy)
    rw [hhead]
    cases hf : l.filter (fun y => Spec.lowerB y.name == Spec.lowerB n) with
    | nil => rw [hf] at h; simp at h; subst h; rfl
    | cons a rest =>
      rw [hf] at h
      cases rest with
      | nil => simp at h; subst h; rfl
      | cons b rest' => simp at h

/-- `C12_case` for ASCII requests and names -/
theorem C12_case_ascii (l : List TableInfo) (n : Bytes) (r : Option TableInfo) (hn : Spec.asciiB n = true)
    (hl : ∀ y ∈ l, Spec.asciiB y.name = true) (h : Spec.lookupName (·.name) l n = some r) : findByName (·.name) l n = r :=
  C12_case l n r (GoCase.foldStable_ascii _ n hn (fun y hy => by
    obtain ⟨t, ht, rfl⟩ := List.mem_map.mp hy
    exact hl t ht)) h

/-! ### the command line -/

/-- the flags main.go gives precedence over the dump -/
def noModeFlag (f : Flags) : Prop :=
  f.showVersion = false ∧ f.detectPaths = false ∧ f.singleFile = [] ∧ f.listDBs = false ∧ f.showControl = false ∧
  f.verifyChecksums = false ∧ f.showDropped = false ∧ f.showSequences = [] ∧ f.showRelmap = [] ∧ f.passwords = [] ∧
  f.secrets = [] ∧ f.searchPattern = [] ∧ f.showWAL = false

/-- **Filters, list and format flags select exactly the library options**: without a mode flag and with a data
directory given, the program runs `DumpDataDir(dir, {DatabaseFilter: -db, TableFilter: -t, ListOnly: -list,
SkipSystemTables: true, PostgresVersion: 0})` and renders it as SQL if -sql, else CSV if -csv, else JSON. -/
theorem C12_cli_dump (detected : Bytes) (f : Flags) (h : noModeFlag f) (hd : f.dataDir ≠ []) :
    cliAction detected f =
      .dump f.dataDir { dbFilter := f.dbFilter, tableFilter := f.tableFilter, listOnly := f.listOnly, skipSystem := true, pgVersion := 0 }
        (if f.sqlOutput then .sql else if f.csvOutput then .csv else .json) := by
  obtain ⟨h1, h2, h3, h4, h5, h6, h7, h8, h9, h10, h11, h12, h13⟩ := h
  simp [cliAction, h1, h2, h3, h4, h5, h6, h7, h8, h9, h10, h11, h12, h13, hd, dumpOptions, outFormat]

/-- without -d the detected directory is used, and none found means exit 1 -/
theorem C12_cli_detect (detected : Bytes) (f : Flags) (h : noModeFlag f) (hd : f.dataDir = []) :
    cliAction detected f = if detected = [] then .noDataDir else .dump detected (dumpOptions f) (outFormat f) := by
  obtain ⟨h1, h2, h3, h4, h5, h6, h7, h8, h9, h10, h11, h12, h13⟩ := h
  by_cases hdet : detected = []
  · simp [cliAction, h1, h2, h3, hd, hdet]
  · simp [cliAction, h1, h2, h3, h4, h5, h6, h7, h8, h9, h10, h11, h12, h13, hd, hdet]

/-- **Precedence of the modes**, as in main.go: -version, -detect, -f, then (with a data directory) -list-db,
-control, … each wins over everything after it. -/
theorem C12_cli_precedence (detected : Bytes) (f : Flags) :
    (f.showVersion = true → cliAction detected f = .version) ∧
    (f.showVersion = false → f.detectPaths = true → cliAction detected f = .detect) ∧
    (f.showVersion = false → f.detectPaths = false → f.singleFile ≠ [] → cliAction detected f = .file f.singleFile (fileMode f)) ∧
    (f.showVersion = false → f.detectPaths = false → f.singleFile = [] → f.dataDir ≠ [] → f.listDBs = true →
        cliAction detected f = .listDb f.dataDir) ∧
    (f.showVersion = false → f.detectPaths = false → f.singleFile = [] → f.dataDir ≠ [] → f.listDBs = false →
        f.showControl = true → cliAction detected f = .control f.dataDir) := by
  refine ⟨?_, ?_, ?_, ?_, ?_⟩
  · intro h; simp [cliAction, h]
  · intro h1 h2; simp [cliAction, h1, h2]
  · intro h1 h2 h3; simp [cliAction, h1, h2, h3]
  · intro h1 h2 h3 h4 h5; simp [cliAction, h1, h2, h3, h4, h5]
  · intro h1 h2 h3 h4 h5 h6; simp [cliAction, h1, h2, h3, h4, h5, h6]

/-- inside -f: -b wins over -index, over -toast-verbose, over -R, over the plain listing -/
theorem C12_cli_filemode (f : Flags) :
    (f.binaryDump = true → fileMode f = .binary f.blockRange) ∧
    (f.binaryDump = false → f.parseIndex = true → fileMode f = .index) ∧
    (f.binaryDump = false → f.parseIndex = false → f.toastVerbose = false → f.blockRange = [] → fileMode f = .plain) := by
  refine ⟨?_, ?_, ?_⟩
  · intro h; simp [fileMode, h]
  · intro h1 h2; simp [fileMode, h1, h2]
  · intro h1 h2 h3 h4; simp [fileMode, h1, h2, h3, h4]

/-- a flag record that satisfies the hypotheses of `C12_cli_dump` (they are not vacuous) -/
example : noModeFlag { dataDir := [47], dbFilter := [97], sqlOutput := true } := by simp [noModeFlag]

#print axioms C12_files
#print axioms C12_remote_dbs
#print axioms C12_remote_tables
#print axioms C12_remote_cols
#print axioms C12_case_exact
#print axioms C12_case_fold
#print axioms C12_case_sound
#print axioms C12_case
#print axioms C12_case_ascii
#print axioms C12_cli_dump
#print axioms C12_cli_detect
#print axioms C12_cli_precedence
#print axioms C12_cli_filemode

end PgVerif.Props.C12
