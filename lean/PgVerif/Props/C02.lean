/-
  C02 — heap page scan returns exactly the stored tuples, in order.
  Property theorems only; helper lemmas are in Proofs/.
-/
import PgVerif.Proofs.Heap
namespace PgVerif.Props.C02
open PgVerif PgVerif.Model PgVerif.Proofs

/-- Line pointer codec: for every offset/length below 2^15 and every state, the decoder recovers the
three fields from PostgreSQL's bit layout (lp_off:15, lp_flags:2, lp_len:15). -/
theorem C02_pointer (off flags len : Nat) (ho : off < 2 ^ 15) (hf : flags < 4) (hl : len < 2 ^ 15) :
    decItem (off + 2 ^ 15 * flags + 2 ^ 17 * len) = ⟨off, len, flags⟩ := by
  have h1 : ∀ x, x &&& 0x7FFF = x % 2 ^ 15 := fun x => land_mask x 15
  have h3 : ∀ x, x &&& 0x03 = x % 2 ^ 2 := fun x => land_mask x 2
  simp only [decItem, Nat.shiftRight_eq_div_pow, h1, h3]
  congr 1 <;> omega

end PgVerif.Props.C02
