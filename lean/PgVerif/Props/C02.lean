/-
  C02 — heap page scan returns exactly the stored tuples, in order.
  Property theorems only; helper lemmas are in Proofs/Heap*.lean.

  Spec side (Spec/Heap.lean): a heap file is a list of blocks — formatted pages (header fields, line
  pointers in any state, free space, tuples placed anywhere between pd_upper and the end of the page in
  any order with arbitrary junk between them, tail/special space) or all-zero blocks — followed by a
  trailing partial block.  `Spec.scanView` is the expected scan: page order, then line-pointer order,
  NORMAL pointers only, each entry with natts, t_hoff, infomask, the four flag bits, the null bitmap,
  the data bytes and the byte offset of its page.
-/
import PgVerif.Proofs.HeapFile
namespace PgVerif.Props.C02
open PgVerif PgVerif.Model PgVerif.Proofs

/-- Line pointer codec: for every offset/length below 2^15 and every state, the decoder recovers the
three fields from PostgreSQL's bit layout (lp_off:15, lp_flags:2, lp_len:15). -/
theorem C02_pointer (off flags len : Nat) (ho : off < 2 ^ 15) (hf : flags < 4) (hl : len < 2 ^ 15) :
    decItem (off + 2 ^ 15 * flags + 2 ^ 17 * len) = ⟨off, len, flags⟩ :=
  decItem_raw off flags len ho hf hl

/-- Tuple header: for every well-formed stored tuple (any natts 0..2047, any infomask, with or without
null bitmap, any t_hoff that leaves room for the bitmap, any data) the tuple parser returns its
attribute count, header length, infomask-derived flags, exactly the bitmap bytes and exactly the data bytes. -/
theorem C02_tuple (t : Spec.Tuple) (h : t.WF) (off : Nat) :
    (parseHeapTuple (Spec.encTuple t)).map (fun r => r.map fun m => viewOf ⟨m, off⟩) = .ok (some (Spec.tupleView off t)) := by
  rw [parseHeapTuple_enc t h]; rfl

/-- One page: for every well-formed page — any number of line pointers in any mix of states (unused,
redirect, dead with arbitrary offset/length garbage), tuples anywhere between pd_upper and the page end in any
order, any layout version 1..10, the NORMAL pointers naming pairwise distinct tuples (PostgreSQL never lets two
pointers share storage; `Page.WF`'s last conjunct) — ParsePage yields one entry per NORMAL pointer, none for the
others, in line-pointer order, each byte-identical to the stored tuple.  (ParsePage's overlap guard, fix heap/02,
never fires on such a page: `Proofs.items_no_overlap`.) -/
theorem C02_page (p : Spec.Page) (h : p.WF) :
    (parsePage (Spec.encPage p)).map (fun ts => ts.map fun m => viewOf ⟨m, 0⟩) = .ok (p.normalTuples.map (Spec.tupleView 0)) := by
  rw [parsePage_enc p h]
  simp [Except.map, viewOf_mtuple, Function.comp_def]

/-- Whole file: for every list of well-formed blocks (pages and never-initialised all-zero blocks) followed
by any trailing partial block, the scan returns exactly `Spec.scanView` — page order then line-pointer order,
each entry tagged with the byte offset of its page, nothing for zero blocks or the partial tail — and with
the visibility switch on, exactly the sub-list whose hint bits say "inserter committed, no deleter committed". -/
theorem C02_scan (bs : List Spec.Block) (tail : Bytes) (vis : Bool) (hb : ∀ b ∈ bs, b.WF) (ht : tail.length < 8192) :
    (readTuples (Spec.encHeap bs tail) vis).map (fun es => es.map viewOf)
      = .ok ((Spec.scanView bs).filter fun v => !vis || Spec.liveBits v.infomask) :=
  scan_enc bs tail vis hb ht

/-- Concatenation, for ARBITRARY bytes (no well-formedness): if `a` is a whole number of pages, scanning
`a ++ b` equals the scan of `a` followed by the scan of `b` with the second file's page offsets shifted by `|a|`.
(This is also the page-isolation half of C10 for heap files: what is reported for the pages of `a` does not depend on `b` and vice versa.) -/
theorem C02_concat (a b : Bytes) (vis : Bool) (h : a.length % 8192 = 0) :
    readTuples (a ++ b) vis =
      (do let ra ← readTuples a vis
          let rb ← readTuples b vis
          pure (ra ++ rb.map (shiftE a.length))) :=
  readTuples_append a b vis (a.length / 8192) (by omega)

/-- non-vacuity: a concrete page with a NORMAL, a DEAD and a second NORMAL pointer satisfies `Page.WF`,
and its expected scan has two entries -/
example :
    let t : Spec.Tuple := { xmin := 2, xmax := 0, cid := 0, ctid := zeros 6, infomask2 := 1, infomask := 0x0900, mid := [0], data := [7, 7] }
    let p : Spec.Page := { hdr0 := zeros 12, special := 8192, version := 4, prune := 0,
                           lps := [.normal 1, .other 0 3 0, .normal 0], free := zeros 100,
                           slots := [([], t), ([9], t)], tail := zeros (8192 - 36 - 100 - 26 - 27) }
    p.WF ∧ (Spec.scanView [.page p]).length = 2 := by
  decide +kernel

/-- the last conjunct of `Page.WF` at work: a page whose two NORMAL pointers name the SAME slot is not well formed
(PostgreSQL never produces it; C02 says nothing about it) — and ParsePage reports the shared tuple once, not twice -/
example :
    let t : Spec.Tuple := { xmin := 2, xmax := 0, cid := 0, ctid := zeros 6, infomask2 := 1, infomask := 0x0900, mid := [0], data := [7, 7] }
    let p : Spec.Page := { hdr0 := zeros 12, special := 8192, version := 4, prune := 0,
                           lps := [.normal 0, .normal 0], free := zeros 100,
                           slots := [([], t)], tail := zeros (8192 - 32 - 100 - 26) }
    ¬ p.WF ∧ (parsePage (Spec.encPage p)).toOption.map List.length = some 1 := by
  decide +kernel

end PgVerif.Props.C02
