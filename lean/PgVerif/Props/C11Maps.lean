/-
  C11 — results are a deterministic function of the input: the two functions of areas `control` (sequence.go) and
  `toast` (toast.go) that range over a Go map (REVIEW B1).

  FindSequences ranges over the map ParsePGClass returns, GetTOASTVerboseInfo over the map value id ↦ chunks; both
  appended to their result inside the `range`, so the order of `pgread -sequences` / `-toast-verbose` changed from run to
  run.  fixes/control/08 and fixes/toast/05 visit the keys in ascending order.  In the models the iteration order of the
  `range` is an explicit parameter (any rearrangement of the map's entries); the theorems say the result is the same for
  every such order — hence byte-identical JSON.  The `*_order_dependent` theorems show, on the models of the code before
  the fixes, that the order did leak.  Every other `range` in sequence.go, toast.go, control.go, relmap.go is over a slice
  (ParsePGDatabase, ReadTuples, the chunk and mapping lists), or over a map whose result is order-free (`uniqueValues`
  in AnalyzeTOAST: only its size; `ChunkDistribution`: a map, rendered by key; the maximum of the chunk counts).
  ScanAllSequences returns a map (rendered by key) whose values are FindSequences results.
  Run-time side: families `seqrepeat`, `toastrepeat` (20 repetitions, byte comparison of json.Marshal).
-/
import PgVerif.Proofs.MapOrderR1
import PgVerif.Proofs.ControlTotal
import PgVerif.Gen.Control
namespace PgVerif.Props.C11Maps
open PgVerif PgVerif.Model PgVerif.Proofs PgVerif.Proofs.MapOrderR1 List

attribute [local instance] exceptDecEq

/-- a legal iteration order of a Go map: some rearrangement of its entries -/
def IsOrder {α} (π : List α → List α) : Prop := ∀ l, π l ~ l

/-- a parser result that is a Go map keyed by relfilenode: each key once -/
def IsClassMap (parseClass : Bytes → List ClassInfo) : Prop :=
  ∀ data, KeySort.DistinctKeys (fun c : ClassInfo => c.filenode) (parseClass data)

/-- **FindSequences does not depend on map iteration order** (fixes/control/08): for every file system, every result of
the pg_database parser, every pg_class parser returning a map keyed by relfilenode, every data directory and database
name, any two iteration orders of the pg_class map give the same result — the same sequences in the same order. -/
theorem C11_findSequences_order_independent (env : SeqEnv) (π π' : List ClassInfo → List ClassInfo)
    (hπ : IsOrder π) (hπ' : IsOrder π') (hmap : IsClassMap env.parseClass) (dir : String) (db : Bytes) :
    findSequences (withOrder env π) dir db = findSequences (withOrder env π') dir db :=
  findSequences_order_independent env π π' hπ hπ' hmap dir db

/-- **ScanAllSequences does not depend on map iteration order**: the per-database lists are FindSequences results. -/
theorem C11_scanAllSequences_order_independent (env : SeqEnv) (π π' : List ClassInfo → List ClassInfo)
    (hπ : IsOrder π) (hπ' : IsOrder π') (hmap : IsClassMap env.parseClass) (dir : String) :
    scanAllSequences (withOrder env π) dir = scanAllSequences (withOrder env π') dir := by
  unfold scanAllSequences
  have := scanLoop_congr (withOrder env π) (withOrder env π') dir
    (fun db => findSequences_order_independent env π π' hπ hπ' hmap dir db)
  simp only [withOrder] at this ⊢
  cases env.fs (dir ++ "/global/1262") with
  | none => rfl
  | some dbData => simp only [this]

set_option maxRecDepth 100000 in
/-- **Before fixes/control/08 the order leaked**: a database with two sequences and two legal iteration orders of its
pg_class map that give different listings. -/
theorem C11_findSequences_unsorted_order_dependent :
    ∃ (env : SeqEnv) (π π' : List ClassInfo → List ClassInfo), IsOrder π ∧ IsOrder π' ∧ IsClassMap env.parseClass ∧
      findSequencesUnsorted (withOrder env π) "D" [100] ≠ findSequencesUnsorted (withOrder env π') "D" [100] := by
  refine ⟨{ fs := fun p => if p = "D/global/1262" then some [1] else if p = "D/base/5/1259" then some [2]
                    else if p = "D/base/5/77" ∨ p = "D/base/5/78" then some (Spec.encSeqPage (Gen.plainSeqPage 7 true))
                    else none,
            parseDatabase := fun _ => [⟨5, [100]⟩],
            parseClass := fun _ => [⟨77, 70, [97], [83]⟩, ⟨78, 71, [98], [83]⟩] },
    id, List.reverse, fun l => Perm.refl l, fun l => reverse_perm l, ?_, ?_⟩
  · intro _; unfold KeySort.DistinctKeys; simp
  · decide +kernel

open PgVerif.Model.Toast in
/-- **GetTOASTVerboseInfo does not depend on map iteration order** (fixes/toast/05): for every byte string taken as a
TOAST relation file, any two iteration orders of the value map give the same report — every field, `Values` in the same
order. -/
theorem C11_toastInfo_order_independent (π π' : GroupOrder) (hπ : IsOrder π) (hπ' : IsOrder π') (relid : Nat) (data : Bytes) :
    getTOASTVerboseInfoWith π relid data = getTOASTVerboseInfoWith π' relid data :=
  Toast.getTOASTVerboseInfoWith_order_independent π π' hπ hπ' relid data

open PgVerif.Model.Toast in
/-- in particular every order gives what the order-free name `getTOASTVerboseInfo` (used by C08_stats, C10) denotes -/
theorem C11_toastInfo_any_order (π : GroupOrder) (hπ : IsOrder π) (relid : Nat) (data : Bytes) :
    getTOASTVerboseInfoWith π relid data = getTOASTVerboseInfo relid data :=
  Toast.getTOASTVerboseInfoWith_order_independent π id hπ (fun l => Perm.refl l) relid data

open PgVerif.Model.Toast in
/-- **Before fixes/toast/05 the order leaked**: two one-chunk values and two legal iteration orders of the value map
that give different `Values` lists. -/
theorem C11_toastInfo_unsorted_order_dependent :
    ∃ (chunks : List Chunk) (π π' : GroupOrder), IsOrder π ∧ IsOrder π' ∧ valuesUnsorted π chunks ≠ valuesUnsorted π' chunks :=
  ⟨[⟨7, 0, [1]⟩, ⟨8, 0, [2, 3]⟩], id, List.reverse, fun l => Perm.refl l, fun l => reverse_perm l, by decide⟩

example : IsOrder (List.reverse : List ClassInfo → List ClassInfo) := fun l => reverse_perm l

end PgVerif.Props.C11Maps
