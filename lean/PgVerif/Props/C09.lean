/-
  C09 — live and deleted rows are classified by their own hint bits only.
  Property theorems only; helper lemmas are in Proofs/Heap.lean.
-/
import PgVerif.Proofs.Heap
namespace PgVerif.Props.C09
open PgVerif PgVerif.Model PgVerif.Proofs

/-- For every byte string: a tuple produced by the tuple parser is classified as live iff bit 8
(xmin committed) is set and not (bit 10 set and bit 11 clear); as deleted iff bit 10 set and bit 11
clear.  All 65 536 infomasks at once (`Nat.testBit` reasoning, no enumeration). -/
theorem C09_bits (d : Bytes) (t : HeapTuple) (h : parseHeapTuple d = .ok (some t)) :
    t.isVisible = Spec.liveBits t.header.infomask ∧ t.isDeleted = Spec.deletedBits t.header.infomask := by
  obtain ⟨h8, h10, h11, _⟩ := parseHeapTuple_consistent d t h
  simp only [HeapTuple.isVisible, HeapTuple.isDeleted, Spec.liveBits, Spec.deletedBits, h8, h10, h11]
  cases t.header.infomask.testBit 8 <;> cases t.header.infomask.testBit 10 <;>
    cases t.header.infomask.testBit 11 <;> simp

/-- The same for every entry of a whole-file scan, whatever the file contains. -/
theorem C09_scan_bits (data : Bytes) (vis : Bool) (es : List TupleEntry) (h : readTuples data vis = .ok es) :
    ∀ e ∈ es, e.tuple.isVisible = Spec.liveBits e.tuple.header.infomask ∧
              e.tuple.isDeleted = Spec.deletedBits e.tuple.header.infomask := by
  intro e he
  obtain ⟨h8, h10, h11, _⟩ := readTuplesFrom_consistent data vis _ 0 es h e he
  simp only [HeapTuple.isVisible, HeapTuple.isDeleted, Spec.liveBits, Spec.deletedBits, h8, h10, h11]
  cases e.tuple.header.infomask.testBit 8 <;> cases e.tuple.header.infomask.testBit 10 <;>
    cases e.tuple.header.infomask.testBit 11 <;> simp

/-- Locality: the visible-only view of any file is the all-tuples view filtered by each tuple's own
predicate — nothing else (position, neighbours, page) enters the decision, and the live view is a
sub-list of the all-tuples view. -/
theorem C09_local (data : Bytes) :
    readTuples data true = (readTuples data false).map (fun es => es.filter fun e => e.tuple.isVisible) :=
  readTuplesFrom_filter data _ 0

/-- Live and deleted are disjoint classes for every infomask. -/
theorem C09_disjoint (m : Nat) : ¬ (Spec.liveBits m = true ∧ Spec.deletedBits m = true) := by
  simp only [Spec.liveBits, Spec.deletedBits]
  cases m.testBit 8 <;> cases m.testBit 10 <;> cases m.testBit 11 <;> simp

/-- non-vacuity: a concrete tuple image parses, and is classified deleted -/
example : ∃ t, parseHeapTuple (zeros 18 ++ le 2 1 ++ le 2 0x0500 ++ [24, 0, 7]) = .ok (some t) ∧
    t.isDeleted = true ∧ t.isVisible = false := by
  refine ⟨_, rfl, ?_, ?_⟩ <;> decide

end PgVerif.Props.C09
