/-
  C09 (directory scan part) — ScanAllDeletedRows after fixes/rows/07 (REVIEW B13): the dump of a data directory whose
  rows are, table by table, the deleted rows of the table's heap file.
  Property theorems only; helper lemmas are in Proofs/DeletedScan.lean, Proofs/RowsDeleted.lean.

  What is proved: (1) the per-table row source of the scan, on a stored heap file, from the Spec side
  (`C09_scan_table_file`, `C09_scan_table_nocols`); (2) the dump chain ScanAllDeletedRows runs is DumpDataDir's chain
  with only the row source exchanged (`C09_scan_chain`: with the live row source the generalised chain IS the model of
  DumpDataDir, by `rfl`), so which databases / tables / columns are reported and which file and schema each table's rows
  come from is the logic C01 is about.
  What is NOT proved (`C09_scan_cluster` does not exist): the composition of (1) with C01's catalog theorems into
  "ScanAllDeletedRows (fsOf c) = Spec.expectedDeletedDump c" for a whole `Spec.Cluster`; C01's proofs are stated for the
  live row source only.  That statement is tied by family `scandeleted` (SPEC = `Spec.expectedDeletedDump`).
-/
import PgVerif.Proofs.DeletedScan
import PgVerif.Props.C09Rows
import PgVerif.Spec.DeletedScan
namespace PgVerif.Props.C09Scan
open PgVerif PgVerif.Model PgVerif.Spec PgVerif.Proofs PgVerif.Proofs.Rows PgVerif.Proofs.DeletedScan

/-- **The rows ScanAllDeletedRows reports for one table.**  For every well-formed heap file whose stored tuples are the
row versions `vers` (arbitrary header fields and t_infomask) of a schema `cols` with at least one column: the row source
of the scan returns exactly the rows of the versions whose own hint bits say "deleter committed" (HEAP_XMAX_COMMITTED
set, HEAP_XMAX_INVALID clear), in scan order, each decoded as C03 says — no live, aborted or in-progress version. -/
theorem C09_scan_table_file (dec : Dec) (cols : List Col) (mcols : List Column) (bs : List Block) (tail : Bytes)
    (vers : List RowVer) (hb : ∀ b ∈ bs, b.WF) (ht : tail.length < 8192)
    (hm : ColsMatch 0 mcols cols) (hne : mcols ≠ [])
    (hvers : fileTuples bs = vers.map (formVer cols)) (hwf : ∀ v ∈ vers, v.2.WF cols) :
    readDeletedTableRows dec (encHeap bs tail) mcols =
      collectM (fun v : RowVer => expRow dec cols v.2 >>= fun row => pure (some row))
        (vers.filter fun v => deletedBits v.2.infomask) := by
  obtain ⟨offs, hoffs⟩ := fileEntries_of_tuples bs vers (formVer cols) hvers
  unfold readDeletedTableRows
  rw [Props.C09Rows.C09_deleted_file dec cols mcols bs tail (vers.zip offs) hb ht hm hne hoffs.2
    (fun x hx => hwf x.1 (List.of_mem_zip hx).1)]
  exact deleted_rows_of_zip dec cols vers offs hoffs.1

/-- **A table without columns.**  Every deleted version is reported as the empty row. -/
theorem C09_scan_table_nocols (dec : Dec) (bs : List Block) (tail : Bytes) (hb : ∀ b ∈ bs, b.WF) (ht : tail.length < 8192) :
    readDeletedTableRows dec (encHeap bs tail) [] =
      .ok (((fileTuples bs).filter fun t => deletedBits t.infomask).map fun _ => []) := by
  unfold readDeletedTableRows readDeletedRows
  rw [scan_entries bs tail false hb ht]
  simp only [ok_bind, Bool.not_false, Bool.true_or, Rows.filter_true]
  rw [← fileEntries_fst bs]
  exact deleted_nocols dec (fileEntries bs)

/-- **The chain is DumpDataDir's.**  With the live row source the generalised dump chain is the model of DumpDataDir /
DumpDatabaseFromFiles (the refactoring of fixes/rows/07 changes nothing for them), and ScanAllDeletedRows is that same
chain with the row source `readDeletedTableRows`. -/
theorem C09_scan_chain (rr : RowReader) (dec : Dec) (π : MapOrder TableInfo) (fs : Bytes → Option Bytes) (o : Options)
    (classData attrData : Bytes) (reader : Option FileReader) :
    dumpDataDirRows rr (readTableRows rr) π fs o = dumpDataDir rr π fs o ∧
    dumpDatabaseFromFilesRows rr (readTableRows rr) π classData attrData reader o = dumpDatabaseFromFiles rr π classData attrData reader o ∧
    scanAllDeletedRows rr dec π fs o = dumpDataDirRows rr (readDeletedTableRows dec) π fs o :=
  ⟨rfl, rfl, rfl⟩

end PgVerif.Props.C09Scan
