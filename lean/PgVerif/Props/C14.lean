/-
  C14 — credential extraction returns every stored role and its exact verifier.
  Property theorems only; helper lemmas are in Proofs/RowsAuth.lean, Proofs/RowsFile.lean.
  (The CLI rendering `-passwords` belongs to area `cluster`.)
-/
import PgVerif.Proofs.RowsAuth
namespace PgVerif.Props.C14
open PgVerif PgVerif.Model PgVerif.Spec PgVerif.Proofs PgVerif.Proofs.Rows

/-- **The hand-computed offsets are PostgreSQL's.**  Tuple formation for the 12 columns of pg_authid puts oid at
0, rolname at 4, rolsuper at 68, rolcanlogin at 72, rolconnlimit at 76 (after one pad byte) and rolpassword at
80 — the offsets ParsePGAuthID hard-codes — for every role, whatever the two nullable columns hold. -/
theorem C14_layout (r : Role) (h : r.WF) (m : Nat) (hdr : TupleHeader) :
    (rowTuple hdr authidCols (roleRow r m)).data =
      le 4 r.oid ++ ((r.name ++ zeros (64 - r.name.length)) ++ ([bb r.super, bb r.inherit, bb r.createrole, bb r.createdb,
        bb r.canlogin, bb r.replication, bb r.bypassrls, 0] ++ (le 4 r.connlimit ++ authTail r))) :=
  role_data r m hdr (by have := h.2.2.1; omega)

/-- **One role version.**  For every well-formed role (name 1..63 NUL-free bytes, every combination of the seven
booleans, any connection limit, password NULL or any non-empty text — short or 4-byte header —, valid-until
NULL or set, hence with or without null bitmap) and any tuple header (live or dead version), the per-tuple
walk reports the role's oid, name, superuser and login flags and exactly the stored verifier, and the empty
string when the password is NULL. -/
theorem C14_role (r : Role) (h : r.WF) (m : Nat) (hdr : TupleHeader) :
    authOne (rowTuple hdr authidCols (roleRow r m)) = .ok (some (authView r)) :=
  authOne_role r h m hdr

/-- **Every stored role, live or dead, on any page.**  For every well-formed heap file (any number of pages,
zero pages, line pointers in any state and order, trailing partial block) whose stored tuples are the role
versions `vers` (role, infomask) in scan order: ParsePGAuthID returns exactly one entry per version, in that
order, each as in `C14_role` — whatever the versions' visibility bits are. -/
theorem C14_roles (bs : List Block) (tail : Bytes) (vers : List (Role × Nat))
    (hb : ∀ b ∈ bs, b.WF) (ht : tail.length < 8192)
    (hvers : fileTuples bs = vers.map fun v => encRole v.1 v.2)
    (hwf : ∀ v ∈ vers, v.1.WF ∧ v.2 < 65536) :
    parsePGAuthID (encHeap bs tail) = .ok (vers.map fun v => authView v.1) := by
  unfold parsePGAuthID
  rw [collect_scan authOne bs tail false hb ht, List.filter_eq_self.mpr (fun _ _ => by simp), hvers, List.map_map,
    ← collectM_map (mtuple ∘ fun v : Role × Nat => encRole v.1 v.2) authOne vers]
  apply collectM_all_some (fun v : Role × Nat => authOne ((mtuple ∘ fun v : Role × Nat => encRole v.1 v.2) v))
    (fun v : Role × Nat => authView v.1) vers
  intro v hv
  obtain ⟨hr, hm⟩ := hwf v hv
  simp only [Function.comp, encRole]
  have := mtuple_formTuple authidCols (roleRow v.1 v.2) (roleRow_WF v.1 hr v.2 hm)
  simp only [roleRow] at this
  rw [this]
  exact authOne_role v.1 hr v.2 _

/-- **No password reported exactly for NULL passwords.**  (Stored passwords are never empty: PostgreSQL turns
`PASSWORD ''` into NULL.) -/
theorem C14_null (r : Role) (h : r.WF) : (authView r).password = [] ↔ r.password = none := by
  obtain ⟨_, _, _, _, _, hpw, _⟩ := h
  unfold authView
  cases hp : r.password with
  | none => simp
  | some p =>
    have := (hpw p hp).1
    simp only [Option.getD_some, reduceCtorEq, iff_false]
    intro h0; rw [h0] at this; simp at this

/-- **The file plumbing adds nothing.**  ExtractPasswordsFromFiles asks its reader for exactly "global/1260",
passes a read error through, and otherwise returns ParsePGAuthID of the bytes. -/
theorem C14_paths (reader : Bytes → Option Bytes) :
    extractPasswordsFromFiles reader =
      match reader (strBytes "global/1260") with
      | none => .ok none
      | some data => (parsePGAuthID data).map some := by
  unfold extractPasswordsFromFiles
  cases reader (strBytes "global/1260") with
  | none => rfl
  | some data => cases parsePGAuthID data <;> rfl

/-! ### non-vacuity -/

/-- superuser "pg" (oid 10) with a 35-byte md5-style verifier and no expiry -/
def exRole : Role :=
  { oid := 10, name := [112, 103], super := true, inherit := true, createrole := true, createdb := true,
    canlogin := true, replication := true, bypassrls := true, connlimit := 2 ^ 32 - 1,
    password := some (List.replicate 35 97), validUntil := none }

example : exRole.WF :=
  ⟨by decide, by decide, by decide, by decide, by decide,
   fun p hp => by cases hp; decide, fun v hv => by cases hv⟩
example : authView exRole = ⟨10, [112, 103], List.replicate 35 97, true, true⟩ := rfl

end PgVerif.Props.C14
