/-
  C14 — credential extraction returns every stored role and its exact verifier.
  Property theorems only; helper lemmas are in Proofs/RowsAuth.lean, Proofs/RowsFile.lean.
  (ExtractPasswords / RemoteClient.Credentials: Props/C14Paths.lean.  The CLI rendering `-passwords` belongs to area
  `cluster`.  pg_authid is a mapped catalog: the tool reads the fixed path global/1260, which is its file until the first
  VACUUM FULL / CLUSTER of pg_authid rewrites it under a new filenode recorded in global/pg_filenode.map — outside the
  property's quantifier "for all pg_authid contents", not modelled.)
-/
import PgVerif.Proofs.RowsAuth
namespace PgVerif.Props.C14
open PgVerif PgVerif.Model PgVerif.Spec PgVerif.Proofs PgVerif.Proofs.Rows

/-- **The hand-computed offsets are PostgreSQL's.**  Tuple formation for the 12 columns of pg_authid puts oid at
0, rolname at 4, rolsuper at 68, rolcanlogin at 72, rolconnlimit at 76 (after one pad byte) and rolpassword at
80 — the offsets ParsePGAuthID hard-codes — for every role, whatever the two nullable columns hold. -/
theorem C14_layout (r : Role) (h : r.WF) (m : Nat) (hdr : TupleHeader) :
    (rowTuple hdr authidCols (roleRow r m)).data =
      le 4 r.oid ++ ((r.name ++ zeros (64 - r.name.length)) ++ ([bb r.super, bb r.inherit, bb r.createrole, bb r.createdb,
        bb r.canlogin, bb r.replication, bb r.bypassrls, 0] ++ (le 4 r.connlimit ++ authTail r))) :=
  role_data r m hdr (by have := h.2.2.1; omega)

/-- **One role version.**  For every well-formed role (name 1..63 NUL-free bytes, every combination of the seven
booleans, any connection limit, password NULL or any non-empty text stored the way PostgreSQL stores a catalog text:
with a 1-byte header when it is at most 126 bytes long, with a 4-byte header otherwise (`Spec.textDatum`) —, valid-until
NULL or set, hence with or without null bitmap) and any tuple header (live or dead version), the per-tuple
walk reports the role's oid, name, superuser and login flags and exactly the stored verifier, and the empty
string when the password is NULL.  (Outside `Spec.Role`: a 4-byte header on a short verifier, and an inline-compressed
or out-of-line rolpassword — PostgreSQL compresses / toasts only tuples above ~2 kB, a pg_authid tuple with a verifier of
up to 400 bytes stays below 600; on such crafted data the tool returns the compressed bytes / no password.) -/
theorem C14_role (r : Role) (h : r.WF) (m : Nat) (hdr : TupleHeader) :
    authOne (rowTuple hdr authidCols (roleRow r m)) = .ok (some (authView r)) :=
  authOne_role r h m hdr

/-- **Every stored role, live or dead, on any page.**  For every well-formed heap file (any number of pages,
zero pages, line pointers in any state and order, trailing partial block) whose stored tuples are the role
versions `vers` in scan order — each with ARBITRARY header fields `v.1` (xmin: 1 for bootstrap roles, ≥ 3 for created
ones; xmax, t_ctid → successor and HEAP_HOT_UPDATED | HEAP_KEYS_UPDATED for the dead version ALTER ROLE leaves behind;
HEAP_ONLY_TUPLE for its successor) and arbitrary t_infomask `v.2.2` —: ParsePGAuthID returns exactly one entry per
version, in that order, each as in `C14_role`. -/
theorem C14_roles (bs : List Block) (tail : Bytes) (vers : List (HdrFields × Role × Nat))
    (hb : ∀ b ∈ bs, b.WF) (ht : tail.length < 8192)
    (hvers : fileTuples bs = vers.map fun v => encRoleH v.1 v.2.1 v.2.2)
    (hwf : ∀ v ∈ vers, v.2.1.WF ∧ v.2.2 < 65536) :
    parsePGAuthID (encHeap bs tail) = .ok (vers.map fun v => authView v.2.1) := by
  unfold parsePGAuthID
  rw [collect_scan authOne bs tail false hb ht, List.filter_eq_self.mpr (fun _ _ => by simp), hvers, List.map_map,
    ← collectM_map (mtuple ∘ fun v : HdrFields × Role × Nat => encRoleH v.1 v.2.1 v.2.2) authOne vers]
  apply collectM_all_some (fun v : HdrFields × Role × Nat => authOne ((mtuple ∘ fun v : HdrFields × Role × Nat => encRoleH v.1 v.2.1 v.2.2) v))
    (fun v : HdrFields × Role × Nat => authView v.2.1) vers
  intro v hv
  obtain ⟨hr, hm⟩ := hwf v hv
  simp only [Function.comp, encRoleH]
  have := mtuple_formTupleH v.1 authidCols (roleRow v.2.1 v.2.2) (roleRow_WF v.2.1 hr v.2.2 hm)
  simp only [roleRow] at this
  rw [this]
  exact authOne_role v.2.1 hr v.2.2 _

/-- **No password reported exactly for NULL passwords.**  (Stored passwords are never empty: PostgreSQL turns
`PASSWORD ''` into NULL.) -/
theorem C14_null (r : Role) (h : r.WF) : (authView r).password = [] ↔ r.password = none := by
  obtain ⟨_, _, _, _, _, hpw, _⟩ := h
  unfold authView
  cases hp : r.password with
  | none => simp
  | some p =>
    have := (hpw p hp).1
    simp only [Option.getD_some, reduceCtorEq, iff_false]
    intro h0; rw [h0] at this; simp at this

/-- **Through the file plumbing.**  ExtractPasswordsFromFiles with a reader that serves, under the path "global/1260",
a well-formed pg_authid heap storing the role versions `vers` (as in `C14_roles`) returns exactly one entry per
version with its exact verifier; the reader is asked for no other path (the result is a function of the reader's
answer for that one path), and … -/
theorem C14_paths (reader : Bytes → Option Bytes) (bs : List Block) (tail : Bytes) (vers : List (HdrFields × Role × Nat))
    (hb : ∀ b ∈ bs, b.WF) (ht : tail.length < 8192)
    (hvers : fileTuples bs = vers.map fun v => encRoleH v.1 v.2.1 v.2.2)
    (hwf : ∀ v ∈ vers, v.2.1.WF ∧ v.2.2 < 65536)
    (hfile : reader (strBytes "global/1260") = some (encHeap bs tail)) :
    extractPasswordsFromFiles reader = .ok (some (vers.map fun v => authView v.2.1)) := by
  unfold extractPasswordsFromFiles
  rw [hfile]
  simp only [C14_roles bs tail vers hb ht hvers hwf, ok_bind, pure_eq_ok]

/-- … a read error of that path is passed through as the error (no entries are invented). -/
theorem C14_paths_error (reader : Bytes → Option Bytes) (h : reader (strBytes "global/1260") = none) :
    extractPasswordsFromFiles reader = .ok none := by
  unfold extractPasswordsFromFiles
  rw [h]
  rfl

/-! ### non-vacuity -/

/-- superuser "pg" (oid 10) with a 35-byte md5-style verifier and no expiry -/
def exRole : Role :=
  { oid := 10, name := [112, 103], super := true, inherit := true, createrole := true, createdb := true,
    canlogin := true, replication := true, bypassrls := true, connlimit := 2 ^ 32 - 1,
    password := some (List.replicate 35 97), validUntil := none }

example : exRole.WF :=
  ⟨by decide, by decide, by decide, by decide, by decide,
   fun p hp => by cases hp; decide, fun v hv => by cases hv⟩
example : authView exRole = ⟨10, [112, 103], List.replicate 35 97, true, true⟩ := rfl

/-- the dead version ALTER ROLE left of that role (the reviewer's "short-dead-realhdr"): xmin 700, xmax 701,
t_ctid → (0,2), t_infomask2 = 0x600C, t_infomask = 0x0502 (+ HASNULL) — and the bootstrap version with xmin 1 -/
def exDeadHdr : HdrFields := { xmin := 700, xmax := 701, ctid := [0, 0, 0, 0, 2, 0], flags2 := 12 }
example : exDeadHdr.WF := by decide
example : (encRoleH exDeadHdr exRole 0x0500).xmin = 700 ∧ (encRoleH exDeadHdr exRole 0x0500).xmax = 701 ∧
    (encRoleH exDeadHdr exRole 0x0500).infomask2 = 0x600C ∧ (encRoleH exDeadHdr exRole 0x0500).infomask = 0x0503 ∧
    (encRoleH { xmin := 1 } exRole 0x0900).xmin = 1 := by decide

end PgVerif.Props.C14
