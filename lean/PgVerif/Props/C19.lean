/-
  C19 — block addressing and checksum accounting are exact and complete.
  Property theorems only; helper lemmas are in Proofs/Block.lean, BlockRead.lean, BlockGrammar.lean,
  SegmentMulti.lean, ChecksumAcct.lean, PgChecksum.lean.  The models are those of the repaired code
  (/verif/fixes/block 01–11).  Files are the `fs` parameter (a file = its bytes, `none` = cannot be
  opened); `hex.Dump` and the checksum function are parameters.

  The accounting theorems hold for any checksum function `ck`; the last section shows that the tool's own function
  (since fix 11) is PostgreSQL's `pg_checksum_page`, so that the verdicts are PostgreSQL's (`C19_checksum_postgres`,
  `C19_verdict_postgres`; finding `C19-checksum-not-postgres` repaired).
-/
import PgVerif.Proofs.BlockRead
import PgVerif.Proofs.BlockGrammar
import PgVerif.Proofs.SegmentMulti
import PgVerif.Proofs.ChecksumAcct
import PgVerif.Proofs.SegmentPath
import PgVerif.Proofs.PgChecksum
import PgVerif.Proofs.ChecksumDirSpec
namespace PgVerif.Props.C19
open PgVerif PgVerif.Model PgVerif.Proofs.Block PgVerif.Proofs.BlockGrammar PgVerif.Proofs.SegmentMulti
  PgVerif.Proofs.ChecksumAcct PgVerif.Proofs.SegmentPath
open PgVerif.Spec.BlockAddr

/-! ## the range grammar -/

/-- For EVERY byte string: the empty string means "no range" (nil); a string of the grammar
`a | a:b | a: | :b` (decimal digits only, numbers below 2^63, a ≤ b) is accepted with exactly the numbers it
denotes (−1 = open side); every other string is rejected with an error — never a panic, never a range. -/
theorem C19_grammar (s : Bytes) :
    (s = [] → parseBlockRange s = .ok (.ok none)) ∧
    (∀ a b, rangeSyntax s = some (a, b) → parseBlockRange s = .ok (.ok (some ⟨a, b⟩))) ∧
    (s ≠ [] → rangeSyntax s = none → ∃ e, parseBlockRange s = .ok (.error e)) :=
  ⟨fun h => h ▸ parseBlockRange_empty, fun a b h => parseBlockRange_accepts s a b h,
   fun hs h => parseBlockRange_rejects s hs h⟩

/-- The grammar itself, declaratively: `rangeSyntax` accepts exactly `a`, `a:b` with a ≤ b, `a:` and `:b`
where a, b are non-empty strings of decimal digits (value < 2^63). -/
theorem C19_grammar_language (s : Bytes) (a b : Int) : rangeSyntax s = some (a, b) ↔
    (∃ n, number s = some n ∧ a = n ∧ b = n) ∨
    (∃ l r n m, s = l ++ 58 :: r ∧ number l = some n ∧ number r = some m ∧ n ≤ m ∧ a = n ∧ b = m) ∨
    (∃ l n, s = l ++ [58] ∧ number l = some n ∧ a = n ∧ b = -1) ∨
    (∃ r m, s = 58 :: r ∧ number r = some m ∧ a = -1 ∧ b = m) :=
  rangeSyntax_iff s a b

/-- non-vacuity: "12:34" is in the grammar, ":" and "+5" are not -/
example : rangeSyntax [49, 50, 58, 51, 52] = some (12, 34) ∧ rangeSyntax [58] = none ∧ rangeSyntax [43, 53] = none := by
  decide

/-! ## ReadBlockRange -/

/-- For EVERY file content (any byte string shorter than 2^62 — since fix 10 the read is repeated until the range is
complete, so the 1 GiB limit of a single `Read` no longer cuts the result) and every request: ReadBlockRange resolves
the request against `len / 8192` blocks as documented (start defaults to 0, stop to the last block and is
clamped to it; a start at or beyond the end → "beyond" error; start > stop → "invalid range" error) and
returns exactly the bytes [8192·a, 8192·(b+1)) — nothing of a partial tail, nothing else. -/
theorem C19_read_bytes (f : Bytes) (hlen : f.length < 2 ^ 62) (r : Option (Int × Int)) :
    readBlockRange (some f) (toRange r) = .ok (
      match resolve r (f.length / 8192) with
      | .error e => .error (rejectErr e)
      | .ok (a, b) => .ok ((f.drop (a * 8192)).take ((b - a + 1) * 8192))) := by
  rw [readBlockRange_bytes f hlen r]
  cases resolve r (f.length / 8192) with
  | error e => rfl
  | ok p => rfl

/-- On a relation file (blocks ++ partial tail): exactly the requested blocks, in order. -/
theorem C19_read (f : RelFile) (hwf : f.WF) (hn : f.blocks.length ≤ 2 ^ 32) (r : Option (Int × Int)) :
    readBlockRange (some (encFile f)) (toRange r) = .ok (
      match selectBlocks f r with
      | .error e => .error (rejectErr e)
      | .ok (_, bs) => .ok (bs.flatMap encBlock)) := by
  rw [readBlockRange_enc f hwf (encFile_small f hwf hn) r]
  cases selectBlocks f r with
  | error e => rfl
  | ok p => rfl

/-- a file that cannot be opened is an error, whatever the request -/
theorem C19_read_missing (r : Option BlockRange) : readBlockRange none r = .ok (.error .osOpen) := rfl

/-! ## DumpBlockRange, DumpBinaryRange, GetBlockRangeStats -/

/-- DumpBlockRange labels block `i` of the selection with `first + i` (its number in the file) and
reports the header fields as stored: LSN = xlogid·2^32 + xrecoff, checksum, flags, lower, upper, special,
page size and version (the two halves of pd_pagesize_version), item count (lower − 24)/4, free space
upper − lower; an all-zero block is reported as empty with every field zero. -/
theorem C19_info (f : RelFile) (hwf : f.WF) (hn : f.blocks.length ≤ 2 ^ 32) (r : Option (Int × Int)) :
    dumpBlockRange (some (encFile f)) (toRange r) = .ok (
      match selectBlocks f r with
      | .error e => .error (rejectErr e)
      | .ok (first, bs) => .ok ((infoViews first bs).map infoOfView)) :=
  dumpBlockRange_enc f hwf hn r

/-- DumpBinaryRange: number `first + i`, byte offset 8192·(first + i), size 8192, and `hex.Dump` applied to
exactly the block's bytes (for any function `hexDump`). -/
theorem C19_hex {α} (hexDump : Bytes → α) (f : RelFile) (hwf : f.WF) (hn : f.blocks.length ≤ 2 ^ 32)
    (r : Option (Int × Int)) :
    dumpBinaryRange hexDump (some (encFile f)) (toRange r) = .ok (
      match selectBlocks f r with
      | .error e => .error (rejectErr e)
      | .ok (first, bs) => .ok ((dumpViews first bs).map fun d => ⟨d.number, (d.offset : Int), hexDump d.bytes, 8192⟩)) :=
  dumpBinaryRange_enc hexDump f hwf hn r

/-- DumpBinaryBlock rejects a negative block number (fix 03) and otherwise is the one-block range. -/
theorem C19_hex_one {α} (hexDump : Bytes → α) (file : Option Bytes) (n : Int) :
    (n < 0 → dumpBinaryBlock hexDump file n = .ok (.error .negative)) ∧
    (0 ≤ n → dumpBinaryBlock hexDump file n =
      match readBlockRange file (some ⟨n, n⟩) with
      | .error f => .error f
      | .ok (.error e) => .ok (.error e)
      | .ok (.ok data) => .ok (.ok ⟨ofSigned 32 n, wrap64 (n * 8192), hexDump data, data.length⟩)) := by
  constructor
  · intro h; unfold dumpBinaryBlock; simp [h]
  · intro h
    unfold dumpBinaryBlock
    have : ¬ n < 0 := by omega
    simp only [this, if_false]
    cases readBlockRange file (some ⟨n, n⟩) with
    | error f => rfl
    | ok res => cases res <;> rfl

/-- GetBlockRangeStats is the tally over the summaries of C19_info: count, first and last number,
empty / used blocks, total items, total free space, and the fill ratio's numerator and denominator. -/
theorem C19_stats (f : RelFile) (hwf : f.WF) (hn : f.blocks.length ≤ 2 ^ 32) (r : Option (Int × Int)) :
    getBlockRangeStats (some (encFile f)) (toRange r) = .ok (
      match selectBlocks f r with
      | .error e => .error (rejectErr e)
      | .ok (first, bs) => .ok (statsOfView (statsView (infoViews first bs)))) := by
  unfold getBlockRangeStats
  rw [dumpBlockRange_enc f hwf hn r]
  cases selectBlocks f r with
  | error e => rfl
  | ok p =>
    obtain ⟨first, bs⟩ := p
    simp only [ok_bind, pure_eq_ok, blockStats_views]

/-- non-vacuity of the hypotheses of C19_read … C19_stats: a two-block file with a partial tail -/
example : (⟨[zeroBlock, ⟨⟨1, 2, 3, 0, 28, 8000, 8192, 8196, 0⟩, zeros 8168⟩], [1, 2, 3]⟩ : RelFile).WF := by
  refine ⟨?_, by decide⟩
  intro b hb
  simp only [List.mem_cons, List.mem_nil_iff, or_false] at hb
  rcases hb with rfl | rfl <;> exact ⟨by decide, by simp [zeroBlock]⟩

/-! ## segments -/

/-- Segment arithmetic: for every global block number and every segment size of at least one block,
GlobalBlockToSegment returns (g / bps, g % bps) with bps = segmentSize / 8192 blocks per segment. -/
theorem C19_seg (g sz : Nat) (h : 8192 ≤ sz) :
    globalBlockToSegment g sz = .ok (((segmentOf g (sz / 8192)).1 : Int), ((segmentOf g (sz / 8192)).2 : Int)) := by
  unfold globalBlockToSegment goDiv goMod segmentOf
  have h1 : ¬ ((sz : Int) < 8192) := by omega
  have h2 : Int.tdiv (sz : Int) 8192 = ((sz / 8192 : Nat) : Int) := (Int.ofNat_tdiv sz 8192).symm
  have h3 : ¬ (((sz / 8192 : Nat) : Int) = 0) := by omega
  simp only [h1, if_false, h2, h3, ok_bind, pure_eq_ok]
  rw [← Int.ofNat_tdiv, ← Int.ofNat_tmod]

/-- A non-positive segment size means the default (1 GiB = 131072 blocks per segment). -/
theorem C19_seg_default (g : Nat) (sz : Int) (h : sz ≤ 0) :
    globalBlockToSegment g sz = .ok (((g / 131072 : Nat) : Int), ((g % 131072 : Nat) : Int)) := by
  unfold globalBlockToSegment goDiv goMod
  have h1 : sz < 8192 := by omega
  simp only [h1, if_true, defaultSegmentSize]
  have h2 : Int.tdiv 1073741824 8192 = ((131072 : Nat) : Int) := by decide
  rw [h2]
  have h3 : ¬ (((131072 : Nat) : Int) = 0) := by omega
  simp only [h3, if_false, ok_bind, pure_eq_ok]
  rw [← Int.ofNat_tdiv, ← Int.ofNat_tmod]

/-- GetSegmentNumberFromPath: a file name `<stem>.<digits>` (in any directory) carries segment number
`<digits>`; a file name without '.' is segment 0. -/
theorem C19_seg_path (dir stem ds : Bytes) (hd : IsDirPrefix dir) (hs : (47 : UInt8) ∉ stem) :
    (ds ≠ [] → ds.all isDigit = true → digitsVal ds < 2 ^ 63 →
      getSegmentNumberFromPath (dir ++ stem ++ 46 :: ds) = (digitsVal ds : Int)) ∧
    ((46 : UInt8) ∉ stem → stem ≠ [] → getSegmentNumberFromPath (dir ++ stem) = 0) :=
  ⟨fun h1 h2 h3 => segmentNumber_suffix dir stem ds hd hs h1 h2 h3,
   fun h1 h2 => segmentNumber_plain dir stem hd hs h1 h2⟩

/-- ListSegments on a relation whose segment files base, base.1, …, base.(n−1) all exist (1 ≤ n ≤ 1000):
one entry per file, in order, entry i = segment number i, its size, its whole blocks, global offset i GiB;
and in general the listing of base.1, base.2, … stops at the first missing file. -/
theorem C19_list (files : List Bytes) (h0 : 0 < files.length) (h1 : files.length ≤ 1000) :
    listSegments (files.map some) = (List.range files.length).map fun i => segEntry i (files[i]?.getD []) :=
  listSegments_all files h0 h1

theorem C19_list_gap (fs : SegFS) (k : Nat) (h1 : 1 ≤ k) (hk : fs.file k = none)
    (hall : ∀ j, 1 ≤ j → j < k → fs.file j ≠ none) :
    (listMore fs 999 1).map (·.path) = List.range' 1 (min 999 (k - 1)) :=
  (listSegments_gap fs k h1 hk hall).1

/-- ReadSegmentBlock delivers block n of segment file i exactly when that file has such a block. -/
theorem C19_segblock (rel : Relation) (hwf : ∀ f ∈ rel, f.WF) (hsm : SmallFiles rel)
    (i : Nat) (hi : i < rel.length) (p : Int) (n : Nat) (opts : Option SegmentOptions) :
    readSegmentBlock (relFS rel) i p (n : Int) opts =
      if h : n < (rel[i]).blocks.length then .ok (encBlock (rel[i]).blocks[n]) else .error .segBeyond :=
  readSegmentBlock_spec rel hwf hsm i hi p n opts

/-- ReadMultiSegmentFile, any segment size of at least one block (explicit, default, or defaulted): the
concatenation of global blocks a, a+1, …, b — global block g being block g % bps of segment file g / bps —
up to the first one that is not there (missing segment, or beyond the end of a short segment). -/
theorem C19_multi (rel : Relation) (hwf : ∀ f ∈ rel, f.WF) (hsm : SmallFiles rel)
    (h0 : 0 < rel.length) (h1 : rel.length ≤ 1000) (a : Nat) (b : Int) (opts : Option SegmentOptions)
    (hsz : 8192 ≤ effSegSize opts) :
    readMultiSegmentFile (relFS rel) (a : Int) b opts =
      .ok (.ok (if b < (a : Int) then [] else multiView rel ((effSegSize opts).toNat / 8192) a b.toNat)) :=
  readMultiSegmentFile_eff rel hwf hsm h0 h1 a b opts hsz

/-- … and the documented rejections (fix 05): a segment size below one block, a negative start. -/
theorem C19_multi_reject (rel : Relation) (h0 : 0 < rel.length) (h1 : rel.length ≤ 1000) (a b : Int)
    (opts : Option SegmentOptions) :
    (effSegSize opts < 8192 → readMultiSegmentFile (relFS rel) a b opts = .ok (.error .smallSegment)) ∧
    (8192 ≤ effSegSize opts → a < 0 → readMultiSegmentFile (relFS rel) a b opts = .ok (.error .negative)) :=
  ⟨fun h => readMultiSegmentFile_small rel h0 h1 a b opts h,
   fun h ha => readMultiSegmentFile_negative rel h0 h1 a b opts h ha⟩

/-- non-vacuity of the hypotheses of C19_segblock / C19_multi / C19_multi_reject: a relation of two segment
files (one block each, the second with a partial tail), segment size = one block -/
example : (∀ f ∈ ([⟨[zeroBlock], []⟩, ⟨[zeroBlock], [1]⟩] : Relation), f.WF) ∧
    SmallFiles [⟨[zeroBlock], []⟩, ⟨[zeroBlock], [1]⟩] ∧
    8192 ≤ effSegSize (some ⟨0, 8192⟩) ∧ effSegSize (some ⟨0, 100⟩) < 8192 := by
  have hz : zeroBlock.WF := ⟨by decide, by simp [zeroBlock]⟩
  refine ⟨?_, ?_, by decide, by decide⟩
  · intro f hf
    simp only [List.mem_cons, List.mem_nil_iff, or_false] at hf
    rcases hf with rfl | rfl
    · exact ⟨fun b hb => by simp only [List.mem_cons, List.mem_nil_iff, or_false] at hb; exact hb ▸ hz, by decide⟩
    · exact ⟨fun b hb => by simp only [List.mem_cons, List.mem_nil_iff, or_false] at hb; exact hb ▸ hz, by decide⟩
  · intro f hf
    simp only [List.mem_cons, List.mem_nil_iff, or_false] at hf
    rcases hf with rfl | rfl <;> decide

/-! ## checksum accounting (any checksum function `ck`) -/

/-- For EVERY byte string, every checksum function and every segment number: VerifyFileChecksums returns
the closed form `fileResult`: TotalBlocks = len / 8192; the errors are exactly the blocks i that are not
all-zero and whose stored checksum (bytes 8..9) differs from `ck (block i) (number i)`, in order, each with
its number = segment·131072 + i (uint32), stored and computed value; InvalidBlocks = their count;
ValidBlocks = the rest (so every block is counted exactly once); ZeroBlocks = the all-zero blocks, all
counted valid.  The verdict for block i is `pageError ck (number i) (block i)`: a function of that
block's bytes and number only. -/
theorem C19_cksum_file (ck : Bytes → Nat → Nat) (data : Bytes) (seg : Nat) :
    verifyFileChecksums ck data seg = .ok (fileResult ck data seg) ∧
    (fileResult ck data seg).validBlocks + (fileResult ck data seg).invalidBlocks = data.length / 8192 ∧
    (fileResult ck data seg).zeroBlocks ≤ (fileResult ck data seg).validBlocks ∧
    (fileResult ck data seg).invalidBlocks = (fileResult ck data seg).errors.length :=
  ⟨verifyFileChecksums_eq ck data seg, fileResult_valid_add_invalid ck data seg,
   fileResult_zero_le_valid ck data seg, fileResult_invalid_eq_errors ck data seg⟩

/-- Isolation: two files of equal length that differ only inside block j have the same error entries
for every other block number. -/
theorem C19_cksum_isolated (ck : Bytes → Nat → Nat) (data data' : Bytes) (seg j : Nat)
    (hlen : data.length = data'.length) (hsame : ∀ i, i ≠ j → chunk data i = chunk data' i) :
    (fileResult ck data seg).errors.filter (fun e => e.blockNumber != blockNum seg j) =
      (fileResult ck data' seg).errors.filter (fun e => e.blockNumber != blockNum seg j) :=
  errors_isolated ck data data' seg j hlen hsame

/-- On a relation segment file whose block numbers fit PostgreSQL's 32-bit BlockNumber the result is the
spec's accounting: block i of segment `seg` is relation block seg·131072 + i; valid + invalid = total;
errors = exactly the non-zero blocks whose pd_checksum differs from `ck`. -/
theorem C19_cksum_file_spec (ck : Bytes → Nat → Nat) (f : RelFile) (seg : Nat) (hwf : f.WF)
    (hseg : seg * 131072 + f.blocks.length ≤ 2 ^ 32) :
    ∃ r, verifyFileChecksums ck (encFile f) seg = .ok r ∧
      r.totalBlocks = (ckFileView ck seg f.blocks).totalBlocks ∧
      r.validBlocks = (ckFileView ck seg f.blocks).validBlocks ∧
      r.invalidBlocks = (ckFileView ck seg f.blocks).invalidBlocks ∧
      r.zeroBlocks = (ckFileView ck seg f.blocks).zeroBlocks ∧
      r.errors.map toCkError = (ckFileView ck seg f.blocks).errors :=
  verifyFileChecksums_encFile ck f seg hwf hseg

/-- VerifyDataDirChecksums, for every directory content and ANY order in which the directory listings come:
the summary is computed over `scannedFiles`, and `scannedFiles` is a permutation (every file exactly as often) of
`listedFiles`: the visited files of `global/`, of every `base/<uint32>/` and of every
`pg_tblspc/<uint32>/PG_…/<uint32>/`, taken straight from the directory contents as given.  So TotalFiles and the
three block totals are those of `listedFiles`, and the listed files with errors are a permutation of those of
`listedFiles`.  (Which entry of such a directory is visited: `C19_cksum_visit`.) -/
theorem C19_cksum_dir (ck : Bytes → Nat → Nat) (fs : DataDirFS) (entries : List (Bytes × BaseEntry))
    (h : fs.base = some entries) :
    ∃ r, verifyDataDirChecksums ck fs = .ok (.ok r) ∧
      r.checksumsEnabled = fs.checksumsEnabled ∧
      r.totalFiles = (listedFiles ck fs entries).length ∧
      r.totalBlocks = ((listedFiles ck fs entries).map (·.result.totalBlocks)).sum ∧
      r.validBlocks = ((listedFiles ck fs entries).map (·.result.validBlocks)).sum ∧
      r.invalidBlocks = ((listedFiles ck fs entries).map (·.result.invalidBlocks)).sum ∧
      r.files.Perm ((listedFiles ck fs entries).filter fun f => !f.result.errors.isEmpty) := by
  have hp := scannedFiles_perm ck fs entries
  refine ⟨_, verifyDataDirChecksums_eq ck fs entries h, rfl, hp.length_eq, sum_map_perm _ hp, sum_map_perm _ hp,
    sum_map_perm _ hp, hp.filter _⟩

/-- Which entries of a scanned directory are visited, in PostgreSQL's terms: entry `(name, e)` of directory `db`
yields a verified file exactly when it is a plain file, the Spec's recogniser of relation segment file names
(`relSegNumber`: `<relfilenode>[_fsm|_vm|_init][.<segno>]`, 32-bit decimal numbers — EVERY fork, every segment
number) accepts `name` with segment number `seg`, and the file holds at least one block; the file is then verified
as segment `seg` (`fileResult`, see `C19_cksum_file`): block i is relation block seg·131072 + i, in every fork.
Sub-directories, `PG_VERSION`, `pg_filenode.map`, `pg_internal.init`, `pg_control`, temporary relations
(`t3_16384`) and malformed names are not visited. -/
theorem C19_cksum_visit (ck : Bytes → Nat → Nat) (db name : Bytes) (e : DbEntry) (sf : ScannedFile) :
    visitFile ck db (name, e) = some sf ↔
      ∃ data seg, e = .file data ∧ relSegNumber name = some seg ∧ 8192 ≤ data.length ∧
        sf = ⟨db, name, fileResult ck data seg⟩ := by
  unfold visitFile
  cases e with
  | dir =>
    constructor
    · intro h; cases h
    · rintro ⟨_, _, h, _⟩; cases h
  | file data =>
    simp only [relFileSegment_eq_relSegNumber]
    cases hs : relSegNumber name with
    | none =>
      constructor
      · intro h; cases h
      · rintro ⟨_, _, _, h, _⟩; cases h
    | some seg =>
      by_cases hl : data.length < 8192
      · simp only [hl, if_true]
        constructor
        · intro h; cases h
        · rintro ⟨d, _, hd, _, h8, _⟩
          cases hd
          omega
      · simp only [hl, if_false]
        constructor
        · intro h
          exact ⟨data, seg, rfl, rfl, by omega, (Option.some.inj h).symm⟩
        · rintro ⟨d, sg, hd, hsg, _, rfl⟩
          cases hd
          cases hsg
          rfl

/-- Which files are visited at all: `sf` is among the visited files exactly when it comes from an entry of
`global/`, or of a real directory `base/<name>` whose name is a uint32, or of a real directory
`pg_tblspc/<spc>/<ver>/<name>` where `<spc>` and `<name>` are uint32s, `<spc>` can be listed (a directory or a
symbolic link to one) and `<ver>` is a real directory whose name starts with `PG_`. -/
theorem C19_cksum_dirs (ck : Bytes → Nat → Nat) (fs : DataDirFS) (entries : List (Bytes × BaseEntry)) (sf : ScannedFile) :
    sf ∈ listedFiles ck fs entries ↔
      (∃ es x, fs.global = some es ∧ x ∈ es ∧ visitFile ck globalName x = some sf) ∨
      (∃ name es x, (name, BaseEntry.dir es) ∈ entries ∧ (parseUint32 name).isSome ∧ x ∈ es ∧
        visitFile ck (joinPath baseName name) x = some sf) ∨
      (∃ spc vers ver dbs name es x, (spc, SpcEntry.dir vers) ∈ fs.tblspc ∧ (parseUint32 spc).isSome ∧
        (ver, VerEntry.dir dbs) ∈ vers ∧ ver.take 3 = pgPrefix ∧
        (name, BaseEntry.dir es) ∈ dbs ∧ (parseUint32 name).isSome ∧ x ∈ es ∧
        visitFile ck (joinPath (joinPath (joinPath tblspcName spc) ver) name) x = some sf) := by
  have hdb : ∀ dir (l : List (Bytes × BaseEntry)), sf ∈ l.flatMap (visitDbU ck dir) ↔
      ∃ name es x, (name, BaseEntry.dir es) ∈ l ∧ (parseUint32 name).isSome ∧ x ∈ es ∧
        visitFile ck (joinPath dir name) x = some sf := by
    intro dir l
    simp only [List.mem_flatMap]
    constructor
    · rintro ⟨⟨name, e⟩, hx, hm⟩
      cases e with
      | file => simp [visitDbU] at hm
      | dir es =>
        unfold visitDbU at hm
        by_cases hn : (parseUint32 name).isNone = true
        · simp [hn] at hm
        · simp only [hn, if_false, Bool.false_eq_true, List.mem_filterMap] at hm
          obtain ⟨x, hxe, hv⟩ := hm
          refine ⟨name, es, x, hx, ?_, hxe, hv⟩
          cases hp : parseUint32 name with
          | none => simp [hp] at hn
          | some _ => rfl
    · rintro ⟨name, es, x, hx, hs, hxe, hv⟩
      refine ⟨(name, .dir es), hx, ?_⟩
      unfold visitDbU
      have hn : ¬ (parseUint32 name).isNone = true := by
        cases hp : parseUint32 name with
        | none => simp [hp] at hs
        | some _ => simp
      simp only [hn, if_false, Bool.false_eq_true, List.mem_filterMap]
      exact ⟨x, hxe, hv⟩
  unfold listedFiles
  simp only [List.mem_append, hdb]
  constructor
  · rintro ((hg | hb) | ht)
    · left
      cases hgl : fs.global with
      | none => simp [hgl] at hg
      | some es =>
        simp only [hgl, List.mem_filterMap] at hg
        obtain ⟨x, hx, hv⟩ := hg
        exact ⟨es, x, rfl, hx, hv⟩
    · exact Or.inr (Or.inl hb)
    · right; right
      simp only [List.mem_flatMap] at ht
      obtain ⟨⟨spc, e⟩, hspc, hm⟩ := ht
      unfold visitSpcU at hm
      by_cases hn : (parseUint32 spc).isNone = true
      · simp [hn] at hm
      · simp only [hn, if_false, Bool.false_eq_true] at hm
        cases e with
        | file => simp at hm
        | dir vers =>
          simp only [List.mem_flatMap] at hm
          obtain ⟨⟨ver, ve⟩, hver, hm2⟩ := hm
          cases ve with
          | file => simp [visitVerU] at hm2
          | dir dbs =>
            unfold visitVerU at hm2
            by_cases hpfx : (ver.take 3 != pgPrefix) = true
            · simp [hpfx] at hm2
            · simp only [hpfx, if_false, Bool.false_eq_true] at hm2
              obtain ⟨name, es, x, h1, h2, h3, h4⟩ := (hdb _ dbs).mp hm2
              refine ⟨spc, vers, ver, dbs, name, es, x, hspc, ?_, hver, ?_, h1, h2, h3, h4⟩
              · cases hp : parseUint32 spc with
                | none => simp [hp] at hn
                | some _ => rfl
              · simpa using hpfx
  · rintro (⟨es, x, hg, hx, hv⟩ | hb | ⟨spc, vers, ver, dbs, name, es, x, hspc, hs, hver, hpfx, h1, h2, h3, h4⟩)
    · left; left
      simp only [hg, List.mem_filterMap]
      exact ⟨x, hx, hv⟩
    · exact Or.inl (Or.inr hb)
    · right
      simp only [List.mem_flatMap]
      refine ⟨(spc, .dir vers), hspc, ?_⟩
      unfold visitSpcU
      have hn : ¬ (parseUint32 spc).isNone = true := by
        cases hp : parseUint32 spc with
        | none => simp [hp] at hs
        | some _ => simp
      simp only [hn, if_false, Bool.false_eq_true, List.mem_flatMap]
      refine ⟨(ver, .dir dbs), hver, ?_⟩
      unfold visitVerU
      have hq : ¬ (ver.take 3 != pgPrefix) = true := by simp [hpfx]
      simp only [hq, if_false, Bool.false_eq_true]
      exact (hdb _ dbs).mpr ⟨name, es, x, h1, h2, h3, h4⟩

/-- The file-name filter of the scan (fixes 07, 08) IS the Spec's recogniser of relation segment file names, for
every byte string: `<relfilenode>[_fsm|_vm|_init]` (segment 0) and `<relfilenode>[_fsm|_vm|_init].<segno>` (that
segment, any number of digits), both numbers decimal and below 2^32. -/
theorem C19_cksum_names (name : Bytes) : relFileSegment name = relSegNumber name :=
  relFileSegment_eq_relSegNumber name

/-- non-vacuity: "16384.11" is segment 11 of a relation, "16384_fsm" and "16384_vm.1" are segments 0 and 1 of its
forks; "16384.x", "16384_fsm_vm", "t3_16384" and "pg_filenode.map" are not relation files -/
example : relSegNumber [49, 54, 51, 56, 52, 46, 49, 49] = some 11 ∧
    relSegNumber [49, 54, 51, 56, 52, 95, 102, 115, 109] = some 0 ∧
    relSegNumber [49, 54, 51, 56, 52, 95, 118, 109, 46, 49] = some 1 ∧
    relSegNumber [49, 54, 51, 56, 52, 46, 120] = none ∧
    relSegNumber [49, 54, 51, 56, 52, 95, 102, 115, 109, 95, 118, 109] = none ∧
    relSegNumber [116, 51, 95, 49, 54, 51, 56, 52] = none ∧
    relSegNumber [112, 103, 95, 102, 105, 108, 101, 110, 111, 100, 101, 46, 109, 97, 112] = none := by decide

section DirSpec
open PgVerif.Proofs.ChecksumDirSpec

/-- The directory scan against the Spec.  For EVERY well-formed data directory in PostgreSQL's terms
(`Spec.BlockAddr.DataDir`: relation segment files of every fork — main, `_fsm`, `_vm`, `_init` — with segment
suffixes, next to non-relation files and sub-directories, in `global/`, in the database directories of `base/` and
in those of tablespaces `pg_tblspc/<oid>/PG_…/`; stray files and non-OID directories around them), whatever the
blocks' stored checksums and for any checksum function: VerifyDataDirChecksums on its file tree reports the Spec's
view `ckDirView` — TotalFiles = the relation segment files holding at least one block, the three block totals =
the sums of the Spec's per-file accounting (`ckFileView`: block i of segment `seg` of any fork is block
seg·131072 + i; every block counted once, valid or invalid), and the listed files are, up to order, exactly the Spec's
files with at least one invalid block, each with exactly its invalid blocks.  (`fsOf` lists a directory's entries in
one particular order; `C19_cksum_dir` shows the order does not matter.) -/
theorem C19_cksum_dir_spec (ck : Bytes → Nat → Nat) (enabled : Bool) (d : DataDir) (hwf : d.WF) :
    ∃ r, verifyDataDirChecksums ck (fsOf enabled d) = .ok (.ok r) ∧
      r.totalFiles = (ckDirView ck d).totalFiles ∧
      r.totalBlocks = (ckDirView ck d).totalBlocks ∧
      r.validBlocks = (ckDirView ck d).validBlocks ∧
      r.invalidBlocks = (ckDirView ck d).invalidBlocks ∧
      (r.files.map toCkDirFile).Perm (ckDirView ck d).files := by
  obtain ⟨r, hr, _, h1, h2, h3, h4, h5⟩ := C19_cksum_dir ck (fsOf enabled d) (baseEntriesOf d.base) rfl
  have hl := listedFiles_spec ck enabled d hwf
  have hm : ∀ (g : CkDirFile → Nat) (g' : ScannedFile → Nat), (∀ sf, g (toCkDirFile sf) = g' sf) →
      ((listedFiles ck (fsOf enabled d) (baseEntriesOf d.base)).map g').sum = ((ckDirFiles ck d).map g).sum := by
    intro g g' hgg
    rw [← hl, List.map_map]
    congr 1
    apply List.map_congr_left
    intro sf _
    exact (hgg sf).symm
  refine ⟨r, hr, ?_, ?_, ?_, ?_, ?_⟩
  · rw [h1]; show _ = (ckDirFiles ck d).length; rw [← hl, List.length_map]
  · rw [h2]; exact hm (·.view.totalBlocks) _ fun _ => rfl
  · rw [h3]; exact hm (·.view.validBlocks) _ fun _ => rfl
  · rw [h4]; exact hm (·.view.invalidBlocks) _ fun _ => rfl
  · have := h5.map toCkDirFile
    refine this.trans ?_
    have hv : (ckDirView ck d).files = (ckDirFiles ck d).filter fun f => !f.view.errors.isEmpty := rfl
    rw [hv, ← hl, List.filter_map]
    have e : ((fun f : CkDirFile => !f.view.errors.isEmpty) ∘ toCkDirFile) = fun f : ScannedFile => !f.result.errors.isEmpty := by
      funext sf
      simp only [Function.comp, toCkDirFile, toView, List.isEmpty_map]
    rw [e]

/-- non-vacuity: a data directory with a main-fork file, a visibility-map fork with a segment suffix, a shared catalog
in `global/` and a tablespace — next to `PG_VERSION`, `pg_filenode.map`, a temporary relation and a non-OID directory —
is well-formed, and the Spec's view counts its four relation segment files -/
example :
    let f : RelFile := ⟨[zeroBlock], []⟩
    let db : Database := { oid := 5, segs := [⟨16384, .main, 0, f⟩, ⟨16384, .vm, 1, f⟩],
                           others := [([80, 71, 95, 86, 69, 82, 83, 73, 79, 78], [1]), ([116, 51, 95, 49, 54, 51, 56, 52], [2])],
                           subdirs := [[120]] }
    let g : Database := { oid := 0, segs := [⟨1260, .main, 0, f⟩],
                          others := [([112, 103, 95, 102, 105, 108, 101, 110, 111, 100, 101, 46, 109, 97, 112], [3])], subdirs := [] }
    let t : Tablespace := ⟨16400, [80, 71, 95, 49, 53], ⟨[{ oid := 7, segs := [⟨16401, .fsm, 0, f⟩], others := [], subdirs := [] }], [], []⟩⟩
    let d : DataDir := ⟨some g, ⟨[db], [[50]], [([45, 49], [])]⟩, [t]⟩
    d.WF ∧ (ckDirView (fun _ _ => 0) d).totalFiles = 4 := by
  decide +kernel

end DirSpec

/-- a data directory without a readable `base` is an error -/
theorem C19_cksum_dir_nobase (ck : Bytes → Nat → Nat) (fs : DataDirFS) (h : fs.base = none) :
    verifyDataDirChecksums ck fs = .ok (.error .noBase) :=
  verifyDataDirChecksums_noBase ck fs h

/-! ## the tool's own checksum function -/

/-- computePageChecksum works on a copy: it is a pure function of the first 8192 bytes of the page and
the block number (the model has no way to write to its argument; the harness snapshots the input
buffer around every call). -/
theorem C19_copy (page : Bytes) (bn : Nat) :
    computePageChecksum page bn = computePageChecksum (page.take 8192) bn := by
  unfold computePageChecksum pageCopy
  have : (page.take 8192).take 8192 ++ zeros (8192 - (page.take 8192).length) = page.take 8192 ++ zeros (8192 - page.length) := by
    rw [List.take_take, Nat.min_self, List.length_take]
    congr 2
    omega
  rw [this]

/-- … and the stored checksum (bytes 8 and 9) does not enter it: the copy has them zeroed. -/
theorem C19_copy_field (page : Bytes) (bn : Nat) (x y : UInt8) (h : 10 ≤ page.length) :
    computePageChecksum (page.take 8 ++ [x, y] ++ page.drop 10) bn = computePageChecksum page bn := by
  have hc : pageCopy (page.take 8 ++ [x, y] ++ page.drop 10) = pageCopy page :=
    pageCopy_field page x y h
  unfold computePageChecksum
  rw [hc]

/-! ## the verdict against PostgreSQL's `pg_checksum_page` (finding `C19-checksum-not-postgres`, repaired by fix 11)

Everything above holds for ANY checksum function `ck`: it is accounting.  Whether a verdict is the one PostgreSQL
gives depends on `ck` being `pg_checksum_page` (`Spec/PgChecksum.lean`: 32 FNV-1a lanes seeded with
`checksumBaseOffsets`, `CHECKSUM_COMP`, two rounds of zeroes, xor of the lanes, `^ blkno`, `% 65535 + 1`, over the
page with `pd_checksum` taken as zero) — and since fix 11 the tool's `computePageChecksum` is that function. -/

section Postgres
open PgVerif.Spec.PgChecksum PgVerif.Proofs.PgChecksum

/-- For EVERY 8192-byte page and EVERY block number: the tool's `computePageChecksum` (the model of the Go code, with
the uint32 wrap-around of every product, `% 2^32`) returns exactly PostgreSQL's `pg_checksum_page(page, blkno)`. -/
theorem C19_checksum_postgres (page : Bytes) (bn : Nat) (hlen : page.length = 8192) :
    computePageChecksum page bn = pgChecksumPage page bn :=
  computePageChecksum_eq_pg page bn hlen

/-- The verdict of VerifyPageChecksum, for EVERY 8192-byte page and every block number: an all-zero page is reported
as such (valid, stored and computed value 0); for any other page the reported stored value is `pd_checksum`, the reported
computed value is `pg_checksum_page(page, blkno)`, and `Valid` holds exactly when the two are equal. -/
theorem C19_verdict_postgres (page : Bytes) (bn : Nat) (hlen : page.length = 8192) :
    ∃ r, verifyPageChecksum computePageChecksum page bn = .ok r ∧
      (Spec.PgChecksum.allZero page = true → r.valid = true ∧ r.stored = 0 ∧ r.computed = 0) ∧
      (Spec.PgChecksum.allZero page = false →
        r.stored = pdChecksum page ∧ r.computed = pgChecksumPage page bn ∧
        (r.valid = true ↔ pdChecksum page = pgChecksumPage page bn)) := by
  by_cases hz : Model.allZero page = true
  · refine ⟨⟨bn, 0, 0, true, 0, ""⟩, ?_, fun _ => ⟨rfl, rfl, rfl⟩, ?_⟩
    · unfold verifyPageChecksum
      have h1 : ¬ page.length < 8192 := by omega
      simp only [h1, hz, if_false, if_true, pure_eq_ok]
    · intro h
      have : Spec.PgChecksum.allZero page = true := hz
      rw [this] at h
      cases h
  · have hz' : Model.allZero page = false := by simpa using hz
    refine ⟨_, verifyPageChecksum_full computePageChecksum page bn hlen hz', ?_, ?_⟩
    · intro h
      have : Spec.PgChecksum.allZero page = false := hz'
      rw [this] at h
      cases h
    · intro _
      have hst : storedCk page = pdChecksum page := rfl
      refine ⟨hst, computePageChecksum_eq_pg page bn hlen, ?_⟩
      show (storedCk page == computePageChecksum page bn) = true ↔ _
      rw [hst, computePageChecksum_eq_pg page bn hlen]
      exact beq_iff_eq

/-- … in the Spec's terms (`pageVerdict`: bufpage.c `PageIsVerifiedExtended` / pg_checksums.c `scan_file`): on a full
block that is all-zero or not new (`pd_upper ≠ 0`) the tool's `Valid` is PostgreSQL's verdict. -/
theorem C19_verdict_pageVerdict (page : Bytes) (bn : Nat) (hlen : page.length = 8192)
    (hnew : Spec.PgChecksum.allZero page = true ∨ pdUpper page ≠ 0) :
    ∃ r, verifyPageChecksum computePageChecksum page bn = .ok r ∧ some r.valid = pageVerdict page bn := by
  obtain ⟨r, hr, h1, h2⟩ := C19_verdict_postgres page bn hlen
  refine ⟨r, hr, ?_⟩
  unfold pageVerdict
  cases hz : Spec.PgChecksum.allZero page with
  | true => simp only [if_true, (h1 hz).1]
  | false =>
    have hu : pdUpper page ≠ 0 := by
      rcases hnew with h | h
      · rw [hz] at h; cases h
      · exact h
    simp only [Bool.false_eq_true, if_false, hu]
    obtain ⟨_, _, hv⟩ := h2 hz
    cases hb : r.valid with
    | true =>
      have := hv.mp hb
      simp [this]
    | false =>
      have : ¬ pdChecksum page = pgChecksumPage page bn := fun h => by rw [hv.mpr h] at hb; cases hb
      simp [this]

/-- non-vacuity: the empty heap page of `PageInit` (8192 bytes, not all-zero, `pd_upper` = 8192) has
`pg_checksum_page` 0x6560 / 0x655F / 0x655D as block 0 / 1 / 7 (the values known from two independent computations) -/
example : emptyHeapPage.length = 8192 ∧ Spec.PgChecksum.allZero emptyHeapPage = false ∧ pdUpper emptyHeapPage ≠ 0 ∧
    pgChecksumPage emptyHeapPage 0 = 0x6560 ∧ pgChecksumPage emptyHeapPage 1 = 0x655F ∧
    pgChecksumPage emptyHeapPage 7 = 0x655D :=
  ⟨by decide +kernel, by decide +kernel, by decide +kernel, emptyHeapPage_checksums⟩

/-- The file-level result with PostgreSQL's function: VerifyFileChecksums (as the tool runs it, with
`computePageChecksum`) lists exactly the blocks that are not all-zero and whose stored `pd_checksum` differs from
`pg_checksum_page(block, segment·131072 + i)` — the closed form `fileResult` of `C19_cksum_file` taken at
PostgreSQL's function, for EVERY byte string and segment number. -/
theorem C19_cksum_file_postgres (data : Bytes) (seg : Nat) :
    verifyFileChecksums computePageChecksum data seg = .ok (fileResult pgChecksumPage data seg) := by
  rw [verifyFileChecksums_eq]
  congr 1
  exact fileResult_congr computePageChecksum pgChecksumPage data seg
    (fun page bn h => computePageChecksum_eq_pg page bn h)

/-- The regression record of the repaired finding: BEFORE fix 11 the tool's function (`Orig.computePageChecksum`, a
rotate/xor fold) reported the block `witnessPage` (an empty heap page with stored checksum 0, as block 0) VALID, while
PostgreSQL reports it INVALID (`pg_checksum_page` is never 0); the repaired function reports it invalid. -/
theorem C19_checksum_not_postgres_before_fix :
    ∃ page bn, page.length = 8192 ∧ pdUpper page ≠ 0 ∧
      (∃ r, verifyPageChecksum Orig.computePageChecksum page bn = .ok r ∧ r.valid = true) ∧
      pageVerdict page bn = some false ∧
      (∃ r, verifyPageChecksum computePageChecksum page bn = .ok r ∧ r.valid = false) := by
  refine ⟨witnessPage, 0, witnessPage_length, by rw [witnessPage_upper]; decide, ?_, ?_, ?_⟩
  · refine ⟨_, verifyPageChecksum_full Orig.computePageChecksum witnessPage 0 witnessPage_length witnessPage_not_zero, ?_⟩
    show (storedCk witnessPage == Orig.computePageChecksum witnessPage 0) = true
    rw [witnessPage_tool_orig]
    have : storedCk witnessPage = 0 := witnessPage_stored
    rw [this]
    rfl
  · exact pageVerdict_stored_zero witnessPage 0 witnessPage_not_zero' (by rw [witnessPage_upper]; decide) witnessPage_stored
  · refine ⟨_, verifyPageChecksum_full computePageChecksum witnessPage 0 witnessPage_length witnessPage_not_zero, ?_⟩
    show (storedCk witnessPage == computePageChecksum witnessPage 0) = false
    rw [computePageChecksum_eq_pg _ _ witnessPage_length]
    have : storedCk witnessPage = 0 := witnessPage_stored
    rw [this]
    have := (pgChecksumPage_range witnessPage 0).1
    cases hc : pgChecksumPage witnessPage 0 with
    | zero => omega
    | succ n => rfl

/-- `pg_checksum_page` never returns 0 and does not depend on the stored checksum field. -/
theorem C19_pg_checksum_page_facts (page : Bytes) (bn : Nat) :
    (1 ≤ pgChecksumPage page bn ∧ pgChecksumPage page bn ≤ 65535) ∧
    (∀ x y : UInt8, 10 ≤ page.length →
      pgChecksumPage (page.take 8 ++ [x, y] ++ page.drop 10) bn = pgChecksumPage page bn) :=
  ⟨pgChecksumPage_range page bn, fun x y h => pgChecksumPage_field page bn x y h⟩

end Postgres

end PgVerif.Props.C19
