/-
  C19 — block addressing and checksum accounting are exact and complete.
  Property theorems only; helper lemmas are in Proofs/Block.lean, BlockRead.lean, BlockGrammar.lean,
  SegmentMulti.lean, ChecksumAcct.lean.  The models are those of the repaired code
  (/verif/fixes/block 01–07).  Files are the `fs` parameter (a file = its bytes, `none` = cannot be
  opened); `hex.Dump` and the checksum function are parameters.
-/
import PgVerif.Proofs.BlockRead
import PgVerif.Proofs.BlockGrammar
import PgVerif.Proofs.SegmentMulti
import PgVerif.Proofs.ChecksumAcct
import PgVerif.Proofs.SegmentPath
namespace PgVerif.Props.C19
open PgVerif PgVerif.Model PgVerif.Proofs.Block PgVerif.Proofs.BlockGrammar PgVerif.Proofs.SegmentMulti
  PgVerif.Proofs.ChecksumAcct PgVerif.Proofs.SegmentPath
open PgVerif.Spec.BlockAddr

/-! ## the range grammar -/

/-- For EVERY byte string: the empty string means "no range" (nil); a string of the grammar
`a | a:b | a: | :b` (decimal digits only, numbers below 2^63, a ≤ b) is accepted with exactly the numbers it
denotes (−1 = open side); every other string is rejected with an error — never a panic, never a range. -/
theorem C19_grammar (s : Bytes) :
    (s = [] → parseBlockRange s = .ok (.ok none)) ∧
    (∀ a b, rangeSyntax s = some (a, b) → parseBlockRange s = .ok (.ok (some ⟨a, b⟩))) ∧
    (s ≠ [] → rangeSyntax s = none → ∃ e, parseBlockRange s = .ok (.error e)) :=
  ⟨fun h => h ▸ parseBlockRange_empty, fun a b h => parseBlockRange_accepts s a b h,
   fun hs h => parseBlockRange_rejects s hs h⟩

/-- The grammar itself, declaratively: `rangeSyntax` accepts exactly `a`, `a:b` with a ≤ b, `a:` and `:b`
where a, b are non-empty strings of decimal digits (value < 2^63). -/
theorem C19_grammar_language (s : Bytes) (a b : Int) : rangeSyntax s = some (a, b) ↔
    (∃ n, number s = some n ∧ a = n ∧ b = n) ∨
    (∃ l r n m, s = l ++ 58 :: r ∧ number l = some n ∧ number r = some m ∧ n ≤ m ∧ a = n ∧ b = m) ∨
    (∃ l n, s = l ++ [58] ∧ number l = some n ∧ a = n ∧ b = -1) ∨
    (∃ r m, s = 58 :: r ∧ number r = some m ∧ a = -1 ∧ b = m) :=
  rangeSyntax_iff s a b

/-- non-vacuity: "12:34" is in the grammar, ":" and "+5" are not -/
example : rangeSyntax [49, 50, 58, 51, 52] = some (12, 34) ∧ rangeSyntax [58] = none ∧ rangeSyntax [43, 53] = none := by
  decide

/-! ## ReadBlockRange -/

/-- For EVERY file content (any byte string shorter than 2^62) and every request: ReadBlockRange resolves
the request against `len / 8192` blocks as documented (start defaults to 0, stop to the last block and is
clamped to it; a start at or beyond the end → "beyond" error; start > stop → "invalid range" error) and
returns exactly the bytes [8192·a, 8192·(b+1)) — nothing of a partial tail, nothing else. -/
theorem C19_read_bytes (f : Bytes) (hlen : f.length < 2 ^ 62) (r : Option (Int × Int)) :
    readBlockRange (some f) (toRange r) = .ok (
      match resolve r (f.length / 8192) with
      | .error e => .error (rejectErr e)
      | .ok (a, b) => .ok ((f.drop (a * 8192)).take ((b - a + 1) * 8192))) := by
  rw [readBlockRange_bytes f hlen r]
  cases resolve r (f.length / 8192) with
  | error e => rfl
  | ok p => rfl

/-- On a relation file (blocks ++ partial tail): exactly the requested blocks, in order. -/
theorem C19_read (f : RelFile) (hwf : f.WF) (hn : f.blocks.length ≤ 2 ^ 32) (r : Option (Int × Int)) :
    readBlockRange (some (encFile f)) (toRange r) = .ok (
      match selectBlocks f r with
      | .error e => .error (rejectErr e)
      | .ok (_, bs) => .ok (bs.flatMap encBlock)) := by
  rw [readBlockRange_enc f hwf (encFile_small f hwf hn) r]
  cases selectBlocks f r with
  | error e => rfl
  | ok p => rfl

/-- a file that cannot be opened is an error, whatever the request -/
theorem C19_read_missing (r : Option BlockRange) : readBlockRange none r = .ok (.error .osOpen) := rfl

/-! ## DumpBlockRange, DumpBinaryRange, GetBlockRangeStats -/

/-- DumpBlockRange labels block `i` of the selection with `first + i` (its number in the file) and
reports the header fields as stored: LSN = xlogid·2^32 + xrecoff, checksum, flags, lower, upper, special,
page size and version (the two halves of pd_pagesize_version), item count (lower − 24)/4, free space
upper − lower; an all-zero block is reported as empty with every field zero. -/
theorem C19_info (f : RelFile) (hwf : f.WF) (hn : f.blocks.length ≤ 2 ^ 32) (r : Option (Int × Int)) :
    dumpBlockRange (some (encFile f)) (toRange r) = .ok (
      match selectBlocks f r with
      | .error e => .error (rejectErr e)
      | .ok (first, bs) => .ok ((infoViews first bs).map infoOfView)) :=
  dumpBlockRange_enc f hwf hn r

/-- DumpBinaryRange: number `first + i`, byte offset 8192·(first + i), size 8192, and `hex.Dump` applied to
exactly the block's bytes (for any function `hexDump`). -/
theorem C19_hex {α} (hexDump : Bytes → α) (f : RelFile) (hwf : f.WF) (hn : f.blocks.length ≤ 2 ^ 32)
    (r : Option (Int × Int)) :
    dumpBinaryRange hexDump (some (encFile f)) (toRange r) = .ok (
      match selectBlocks f r with
      | .error e => .error (rejectErr e)
      | .ok (first, bs) => .ok ((dumpViews first bs).map fun d => ⟨d.number, (d.offset : Int), hexDump d.bytes, 8192⟩)) :=
  dumpBinaryRange_enc hexDump f hwf hn r

/-- DumpBinaryBlock rejects a negative block number (fix 03) and otherwise is the one-block range. -/
theorem C19_hex_one {α} (hexDump : Bytes → α) (file : Option Bytes) (n : Int) :
    (n < 0 → dumpBinaryBlock hexDump file n = .ok (.error .negative)) ∧
    (0 ≤ n → dumpBinaryBlock hexDump file n =
      match readBlockRange file (some ⟨n, n⟩) with
      | .error f => .error f
      | .ok (.error e) => .ok (.error e)
      | .ok (.ok data) => .ok (.ok ⟨ofSigned 32 n, wrap64 (n * 8192), hexDump data, data.length⟩)) := by
  constructor
  · intro h; unfold dumpBinaryBlock; simp [h]
  · intro h
    unfold dumpBinaryBlock
    have : ¬ n < 0 := by omega
    simp only [this, if_false]
    cases readBlockRange file (some ⟨n, n⟩) with
    | error f => rfl
    | ok res => cases res <;> rfl

/-- GetBlockRangeStats is the tally over the summaries of C19_info: count, first and last number,
empty / used blocks, total items, total free space, and the fill ratio's numerator and denominator. -/
theorem C19_stats (f : RelFile) (hwf : f.WF) (hn : f.blocks.length ≤ 2 ^ 32) (r : Option (Int × Int)) :
    getBlockRangeStats (some (encFile f)) (toRange r) = .ok (
      match selectBlocks f r with
      | .error e => .error (rejectErr e)
      | .ok (first, bs) => .ok (statsOfView (statsView (infoViews first bs)))) := by
  unfold getBlockRangeStats
  rw [dumpBlockRange_enc f hwf hn r]
  cases selectBlocks f r with
  | error e => rfl
  | ok p =>
    obtain ⟨first, bs⟩ := p
    simp only [ok_bind, pure_eq_ok, blockStats_views]

/-- non-vacuity of the hypotheses of C19_read … C19_stats: a two-block file with a partial tail -/
example : (⟨[zeroBlock, ⟨⟨1, 2, 3, 0, 28, 8000, 8192, 8196, 0⟩, zeros 8168⟩], [1, 2, 3]⟩ : RelFile).WF := by
  refine ⟨?_, by decide⟩
  intro b hb
  simp only [List.mem_cons, List.mem_nil_iff, or_false] at hb
  rcases hb with rfl | rfl <;> exact ⟨by decide, by simp [zeroBlock]⟩

/-! ## segments -/

/-- Segment arithmetic: for every global block number and every segment size of at least one block,
GlobalBlockToSegment returns (g / bps, g % bps) with bps = segmentSize / 8192 blocks per segment. -/
theorem C19_seg (g sz : Nat) (h : 8192 ≤ sz) :
    globalBlockToSegment g sz = .ok (((segmentOf g (sz / 8192)).1 : Int), ((segmentOf g (sz / 8192)).2 : Int)) := by
  unfold globalBlockToSegment goDiv goMod segmentOf
  have h1 : ¬ ((sz : Int) < 8192) := by omega
  have h2 : Int.tdiv (sz : Int) 8192 = ((sz / 8192 : Nat) : Int) := (Int.ofNat_tdiv sz 8192).symm
  have h3 : ¬ (((sz / 8192 : Nat) : Int) = 0) := by omega
  simp only [h1, if_false, h2, h3, ok_bind, pure_eq_ok]
  rw [← Int.ofNat_tdiv, ← Int.ofNat_tmod]

/-- A non-positive segment size means the default (1 GiB = 131072 blocks per segment). -/
theorem C19_seg_default (g : Nat) (sz : Int) (h : sz ≤ 0) :
    globalBlockToSegment g sz = .ok (((g / 131072 : Nat) : Int), ((g % 131072 : Nat) : Int)) := by
  unfold globalBlockToSegment goDiv goMod
  have h1 : sz < 8192 := by omega
  simp only [h1, if_true, defaultSegmentSize]
  have h2 : Int.tdiv 1073741824 8192 = ((131072 : Nat) : Int) := by decide
  rw [h2]
  have h3 : ¬ (((131072 : Nat) : Int) = 0) := by omega
  simp only [h3, if_false, ok_bind, pure_eq_ok]
  rw [← Int.ofNat_tdiv, ← Int.ofNat_tmod]

/-- GetSegmentNumberFromPath: a file name `<stem>.<digits>` (in any directory) carries segment number
`<digits>`; a file name without '.' is segment 0. -/
theorem C19_seg_path (dir stem ds : Bytes) (hd : IsDirPrefix dir) (hs : (47 : UInt8) ∉ stem) :
    (ds ≠ [] → ds.all isDigit = true → digitsVal ds < 2 ^ 63 →
      getSegmentNumberFromPath (dir ++ stem ++ 46 :: ds) = (digitsVal ds : Int)) ∧
    ((46 : UInt8) ∉ stem → stem ≠ [] → getSegmentNumberFromPath (dir ++ stem) = 0) :=
  ⟨fun h1 h2 h3 => segmentNumber_suffix dir stem ds hd hs h1 h2 h3,
   fun h1 h2 => segmentNumber_plain dir stem hd hs h1 h2⟩

/-- ListSegments on a relation whose segment files base, base.1, …, base.(n−1) all exist (1 ≤ n ≤ 1000):
one entry per file, in order, entry i = segment number i, its size, its whole blocks, global offset i GiB;
and in general the listing of base.1, base.2, … stops at the first missing file. -/
theorem C19_list (files : List Bytes) (h0 : 0 < files.length) (h1 : files.length ≤ 1000) :
    listSegments (files.map some) = (List.range files.length).map fun i => segEntry i (files[i]?.getD []) :=
  listSegments_all files h0 h1

theorem C19_list_gap (fs : SegFS) (k : Nat) (h1 : 1 ≤ k) (hk : fs.file k = none)
    (hall : ∀ j, 1 ≤ j → j < k → fs.file j ≠ none) :
    (listMore fs 999 1).map (·.path) = List.range' 1 (min 999 (k - 1)) :=
  (listSegments_gap fs k h1 hk hall).1

/-- ReadSegmentBlock delivers block n of segment file i exactly when that file has such a block. -/
theorem C19_segblock (rel : Relation) (hwf : ∀ f ∈ rel, f.WF) (hsm : SmallFiles rel)
    (i : Nat) (hi : i < rel.length) (p : Int) (n : Nat) (opts : Option SegmentOptions) :
    readSegmentBlock (relFS rel) i p (n : Int) opts =
      if h : n < (rel[i]).blocks.length then .ok (encBlock (rel[i]).blocks[n]) else .error .segBeyond :=
  readSegmentBlock_spec rel hwf hsm i hi p n opts

/-- ReadMultiSegmentFile, any segment size of at least one block (explicit, default, or defaulted): the
concatenation of global blocks a, a+1, …, b — global block g being block g % bps of segment file g / bps —
up to the first one that is not there (missing segment, or beyond the end of a short segment). -/
theorem C19_multi (rel : Relation) (hwf : ∀ f ∈ rel, f.WF) (hsm : SmallFiles rel)
    (h0 : 0 < rel.length) (h1 : rel.length ≤ 1000) (a : Nat) (b : Int) (opts : Option SegmentOptions)
    (hsz : 8192 ≤ effSegSize opts) :
    readMultiSegmentFile (relFS rel) (a : Int) b opts =
      .ok (.ok (if b < (a : Int) then [] else multiView rel ((effSegSize opts).toNat / 8192) a b.toNat)) :=
  readMultiSegmentFile_eff rel hwf hsm h0 h1 a b opts hsz

/-- … and the documented rejections (fix 05): a segment size below one block, a negative start. -/
theorem C19_multi_reject (rel : Relation) (h0 : 0 < rel.length) (h1 : rel.length ≤ 1000) (a b : Int)
    (opts : Option SegmentOptions) :
    (effSegSize opts < 8192 → readMultiSegmentFile (relFS rel) a b opts = .ok (.error .smallSegment)) ∧
    (8192 ≤ effSegSize opts → a < 0 → readMultiSegmentFile (relFS rel) a b opts = .ok (.error .negative)) :=
  ⟨fun h => readMultiSegmentFile_small rel h0 h1 a b opts h,
   fun h ha => readMultiSegmentFile_negative rel h0 h1 a b opts h ha⟩

/-- non-vacuity of the hypotheses of C19_segblock / C19_multi / C19_multi_reject: a relation of two segment
files (one block each, the second with a partial tail), segment size = one block -/
example : (∀ f ∈ ([⟨[zeroBlock], []⟩, ⟨[zeroBlock], [1]⟩] : Relation), f.WF) ∧
    SmallFiles [⟨[zeroBlock], []⟩, ⟨[zeroBlock], [1]⟩] ∧
    8192 ≤ effSegSize (some ⟨0, 8192⟩) ∧ effSegSize (some ⟨0, 100⟩) < 8192 := by
  have hz : zeroBlock.WF := ⟨by decide, by simp [zeroBlock]⟩
  refine ⟨?_, ?_, by decide, by decide⟩
  · intro f hf
    simp only [List.mem_cons, List.mem_nil_iff, or_false] at hf
    rcases hf with rfl | rfl
    · exact ⟨fun b hb => by simp only [List.mem_cons, List.mem_nil_iff, or_false] at hb; exact hb ▸ hz, by decide⟩
    · exact ⟨fun b hb => by simp only [List.mem_cons, List.mem_nil_iff, or_false] at hb; exact hb ▸ hz, by decide⟩
  · intro f hf
    simp only [List.mem_cons, List.mem_nil_iff, or_false] at hf
    rcases hf with rfl | rfl <;> decide

/-! ## checksum accounting (any checksum function `ck`) -/

/-- For EVERY byte string, every checksum function and every segment number: VerifyFileChecksums returns
the closed form `fileResult`: TotalBlocks = len / 8192; the errors are exactly the blocks i that are not
all-zero and whose stored checksum (bytes 8..9) differs from `ck (block i) (number i)`, in order, each with
its number = segment·131072 + i (uint32), stored and computed value; InvalidBlocks = their count;
ValidBlocks = the rest (so every block is counted exactly once); ZeroBlocks = the all-zero blocks, all
counted valid.  The verdict for block i is `pageError ck (number i) (block i)`: a function of that
block's bytes and number only. -/
theorem C19_cksum_file (ck : Bytes → Nat → Nat) (data : Bytes) (seg : Nat) :
    verifyFileChecksums ck data seg = .ok (fileResult ck data seg) ∧
    (fileResult ck data seg).validBlocks + (fileResult ck data seg).invalidBlocks = data.length / 8192 ∧
    (fileResult ck data seg).zeroBlocks ≤ (fileResult ck data seg).validBlocks ∧
    (fileResult ck data seg).invalidBlocks = (fileResult ck data seg).errors.length :=
  ⟨verifyFileChecksums_eq ck data seg, fileResult_valid_add_invalid ck data seg,
   fileResult_zero_le_valid ck data seg, fileResult_invalid_eq_errors ck data seg⟩

/-- Isolation: two files of equal length that differ only inside block j have the same error entries
for every other block number. -/
theorem C19_cksum_isolated (ck : Bytes → Nat → Nat) (data data' : Bytes) (seg j : Nat)
    (hlen : data.length = data'.length) (hsame : ∀ i, i ≠ j → chunk data i = chunk data' i) :
    (fileResult ck data seg).errors.filter (fun e => e.blockNumber != blockNum seg j) =
      (fileResult ck data' seg).errors.filter (fun e => e.blockNumber != blockNum seg j) :=
  errors_isolated ck data data' seg j hlen hsame

/-- On a relation segment file whose block numbers fit PostgreSQL's 32-bit BlockNumber the result is the
spec's accounting: block i of segment `seg` is relation block seg·131072 + i; valid + invalid = total;
errors = exactly the non-zero blocks whose pd_checksum differs from `ck`. -/
theorem C19_cksum_file_spec (ck : Bytes → Nat → Nat) (f : RelFile) (seg : Nat) (hwf : f.WF)
    (hseg : seg * 131072 + f.blocks.length ≤ 2 ^ 32) :
    ∃ r, verifyFileChecksums ck (encFile f) seg = .ok r ∧
      r.totalBlocks = (ckFileView ck seg f.blocks).totalBlocks ∧
      r.validBlocks = (ckFileView ck seg f.blocks).validBlocks ∧
      r.invalidBlocks = (ckFileView ck seg f.blocks).invalidBlocks ∧
      r.zeroBlocks = (ckFileView ck seg f.blocks).zeroBlocks ∧
      r.errors.map toCkError = (ckFileView ck seg f.blocks).errors :=
  verifyFileChecksums_encFile ck f seg hwf hseg

/-- VerifyDataDirChecksums, for every directory content and any order of the directory listings:
the scanned files are — over the entries of `base` sorted by name (a permutation: each entry exactly once) —
for each DIRECTORY whose name is a uint32, over its entries sorted by name, each plain FILE whose name passes
the filter and that holds at least one block, verified with the segment number the filter extracted; the
totals are the sums over the scanned files and the listed files are those with at least one error. -/
theorem C19_cksum_dir (ck : Bytes → Nat → Nat) (fs : DataDirFS) (entries : List (Bytes × BaseEntry))
    (h : fs.base = some entries) :
    verifyDataDirChecksums ck fs =
      .ok (.ok (summarize fs.checksumsEnabled ((sortByName entries).flatMap (visitDb ck)))) ∧
    (sortByName entries).Perm entries ∧
    (∀ db (es : List (Bytes × DbEntry)), (sortByName es).Perm es ∧
      ∀ x, visitFile ck db x = match x.2 with
        | .dir => none
        | .file data => match relFileSegment x.1 with
          | none => none
          | some seg => if data.length < 8192 then none else some ⟨db, x.1, fileResult ck data seg⟩) :=
  ⟨verifyDataDirChecksums_eq ck fs entries h, sortByName_perm entries,
   fun _ es => ⟨sortByName_perm es, fun _ => rfl⟩⟩

/-- The file-name filter of the scan (fix 07): exactly `<digits>` (segment 0) and `<digits>.<digits>`
(that segment, any number of digits), both numbers below 2^32; fork files (`_fsm`, `_vm`), `pg_filenode.map`,
`PG_VERSION` … do not pass. -/
theorem C19_cksum_names (name : Bytes) (seg : Nat) : relFileSegment name = some seg ↔
    ((46 : UInt8) ∉ name ∧ (parseUint32 name).isSome ∧ seg = 0) ∨
    (∃ stem suffix, name = stem ++ 46 :: suffix ∧ (46 : UInt8) ∉ suffix ∧ (parseUint32 stem).isSome ∧
      parseUint32 suffix = some seg) :=
  relFileSegment_iff name seg

/-- non-vacuity: "16384.11" is segment 11 of a relation, "16384_fsm" and "16384.x" are skipped -/
example : relFileSegment [49, 54, 51, 56, 52, 46, 49, 49] = some 11 ∧
    relFileSegment [49, 54, 51, 56, 52, 95, 102, 115, 109] = none ∧
    relFileSegment [49, 54, 51, 56, 52, 46, 120] = none := by decide

/-- a data directory without a readable `base` is an error -/
theorem C19_cksum_dir_nobase (ck : Bytes → Nat → Nat) (fs : DataDirFS) (h : fs.base = none) :
    verifyDataDirChecksums ck fs = .ok (.error .noBase) :=
  verifyDataDirChecksums_noBase ck fs h

/-! ## the tool's own checksum function -/

/-- computePageChecksum works on a copy: it is a pure function of the first 8192 bytes of the page and
the block number (the model has no way to write to its argument; the harness snapshots the input
buffer around every call). -/
theorem C19_copy (page : Bytes) (bn : Nat) :
    computePageChecksum page bn = computePageChecksum (page.take 8192) bn := by
  unfold computePageChecksum pageCopy
  have : (page.take 8192).take 8192 ++ zeros (8192 - (page.take 8192).length) = page.take 8192 ++ zeros (8192 - page.length) := by
    rw [List.take_take, Nat.min_self, List.length_take]
    congr 2
    omega
  rw [this]

/-- … and the stored checksum (bytes 8 and 9) does not enter it: the copy has them zeroed. -/
theorem C19_copy_field (page : Bytes) (bn : Nat) (x y : UInt8) (h : 10 ≤ page.length) :
    computePageChecksum (page.take 8 ++ [x, y] ++ page.drop 10) bn = computePageChecksum page bn := by
  have hc : pageCopy (page.take 8 ++ [x, y] ++ page.drop 10) = pageCopy page :=
    pageCopy_field page x y h
  unfold computePageChecksum
  rw [hc]

end PgVerif.Props.C19
