/-
  C11 — results are a deterministic, side-effect-free function of the input (area `cluster`:
  pgdump.go, catalog.go, remote.go; the tree after fixes/cluster/01..05).

  Every `range` over a Go map is an explicit order parameter `π` in the model; "reproducible order" is
  `f π x = f π' x` for all rearrangements π, π'.  The model functions are pure: the only state is the
  RemoteClient cache, which is explicit (`Cache`), and `C11_no_hidden_state_*` show it never changes a result.
  Goroutine schedules and data races are decided at run time only (families `repeat`, `concurrent`,
  harness/cmd/cluster/racecheck under -race).
-/
import PgVerif.Proofs.ClusterMap
namespace PgVerif.Props.C11
open PgVerif PgVerif.Model PgVerif.Proofs.Cluster List

/-- a legal iteration order of a Go map: some rearrangement of its entries -/
def IsOrder {β} (π : MapOrder β) : Prop := ∀ l, π l ~ l

/-- **The dump of one database does not depend on map iteration order** (fix 01): for every row reader, all
catalog bytes, every file reader and all options, any two iteration orders of the table map give the same
list of tables in the same order — hence byte-identical JSON, SQL and CSV. -/
theorem C11_dump_order_independent (rr : RowReader) (π π' : MapOrder TableInfo) (hπ : IsOrder π) (hπ' : IsOrder π')
    (classData attrData : Bytes) (reader : Option FileReader) (o : Spec.Options) :
    dumpDatabaseFromFiles rr π classData attrData reader o = dumpDatabaseFromFiles rr π' classData attrData reader o := by
  unfold dumpDatabaseFromFiles
  congr 1; funext tables
  congr 1; funext attrs
  have : sortNat ((π tables).map (·.1)) = sortNat ((π' tables).map (·.1)) :=
    sortNat_perm_invariant _ _ (((hπ tables).map _).trans ((hπ' tables).map _).symm)
  simp only [this]

/-- **The whole-directory dump does not depend on map iteration order.** -/
theorem C11_dataDir_order_independent (rr : RowReader) (π π' : MapOrder TableInfo) (hπ : IsOrder π) (hπ' : IsOrder π')
    (fs : Bytes → Option Bytes) (o : Spec.Options) : dumpDataDir rr π fs o = dumpDataDir rr π' fs o := by
  unfold dumpDataDir
  have : dumpDb rr π fs o = dumpDb rr π' fs o := by
    funext db
    unfold dumpDb
    simp only [C11_dump_order_independent rr π π' hπ hπ']
  rw [this]

/-- **RemoteClient.Tables does not depend on map iteration order** (fix 01), for every table map ParsePGClass
can produce. -/
theorem C11_remote_tables_order_independent (rr : RowReader) (π π' : MapOrder TableInfo) (hπ : IsOrder π) (hπ' : IsOrder π')
    (data : Bytes) (t : List (Nat × TableInfo)) (ht : parsePGClass rr data = .ok t) :
    tablesOf π t = tablesOf π' t := by
  unfold tablesOf
  rw [sortByFilenode_eq, sortByFilenode_eq]
  have hk := parsePGClass_keysOK rr data t ht
  apply sortBy_perm_invariant
  · exact ((hπ t).map _).trans ((hπ' t).map _).symm
  · intro a ha b hb hab
    exact keysOK_inj t hk a (((hπ t).map _).subset ha) b (((hπ t).map _).subset hb) hab

/-- the same at the level of the client method (any file system, cache-free meaning of `Tables`) -/
theorem C11_tablesCold_order_independent (rr : RowReader) (π π' : MapOrder TableInfo) (hπ : IsOrder π) (hπ' : IsOrder π')
    (fs : RemoteReader) (db : Nat) : tablesCold rr π fs db = tablesCold rr π' fs db := by
  unfold tablesCold catalogCold
  cases h1 : fs (basePath db 1259) with
  | none => simp [tablesOf, sortByFilenode, (hπ []).eq_nil, (hπ' []).eq_nil]
  | some cd =>
    simp only
    cases h2 : parsePGClass rr cd with
    | error e => rfl
    | ok t =>
      have := C11_remote_tables_order_independent rr π π' hπ hπ' cd t h2
      simp only [ok_bind]
      cases fs (basePath db 1249) with
      | none => simp [this]
      | some ad =>
        simp only
        cases parsePGAttribute rr ad (rcVersionInt fs) with
        | error e => rfl
        | ok cols => simp [this]

/-- what RemoteClient.Tables did before fix 01: the values in map iteration order -/
def tablesUnsorted (π : MapOrder TableInfo) (t : List (Nat × TableInfo)) : List TableInfo := (π t).map (·.2)

/-- **Without the sort the order leaks** (finding A38, the code before fix 01): a two-table map and two legal
iteration orders that give different listings. -/
theorem C11_unsorted_order_dependent :
    ∃ (t : List (Nat × TableInfo)) (π π' : MapOrder TableInfo), KeysOK t ∧ IsOrder π ∧ IsOrder π' ∧
      tablesUnsorted π t ≠ tablesUnsorted π' t := by
  refine ⟨[(1, ⟨10, 1, [97], [114]⟩), (2, ⟨20, 2, [98], [114]⟩)], id, List.reverse, ?_, fun l => Perm.refl l,
    fun l => reverse_perm l, by decide⟩
  exact ⟨by decide, by decide⟩

/-- **Name lookup is a function of the sorted listing** (fix 03): `Table(db, name)` looks the name up in
`Tables(db)`, so it inherits order independence — names differing only in case resolve the same way on every run. -/
theorem C11_lookup_order_independent (rr : RowReader) (π π' : MapOrder TableInfo) (hπ : IsOrder π) (hπ' : IsOrder π')
    (data : Bytes) (t : List (Nat × TableInfo)) (ht : parsePGClass rr data = .ok t) (name : Bytes) :
    findByName (·.name) (tablesOf π t) name = findByName (·.name) (tablesOf π' t) name := by
  rw [C11_remote_tables_order_independent rr π π' hπ hπ' data t ht]

/-! ### the RemoteClient cache is invisible -/

/-- a cache that only holds what the loaders computed -/
def CacheOK (rr : RowReader) (fs : RemoteReader) (c : Cache) : Prop :=
  (c.databases ≠ [] → databasesCold rr fs = .ok c.databases) ∧
  (∀ db t, c.tables.lookup db = some t → catalogCold rr fs db = .ok (t, (c.columns.lookup db).getD []))

theorem C11_cache_empty_ok (rr : RowReader) (fs : RemoteReader) : CacheOK rr fs Cache.empty :=
  ⟨fun h => absurd rfl h, fun db t h => by simp [Cache.empty] at h⟩

/-- **Databases(): warm = cold.**  With any cache state reachable from an empty one, `Databases()` returns exactly
what it computes without a cache, and leaves the cache consistent. -/
theorem C11_no_hidden_state_databases (rr : RowReader) (fs : RemoteReader) (c : Cache) (hc : CacheOK rr fs c) :
    (rcDatabases rr fs c).map (·.1) = databasesCold rr fs ∧
    ∀ r c', rcDatabases rr fs c = .ok (r, c') → CacheOK rr fs c' := by
  unfold rcDatabases
  by_cases h : c.databases ≠ []
  · rw [if_pos h]
    refine ⟨by rw [hc.1 h]; rfl, ?_⟩
    intro r c' he
    simp only [pure_eq_ok] at he
    injection he with he; injection he with _ he; subst he; exact hc
  · rw [if_neg h]
    cases hd : databasesCold rr fs with
    | error e => exact ⟨rfl, fun r c' he => by simp at he⟩
    | ok dbs =>
      refine ⟨rfl, ?_⟩
      intro r c' he
      simp only [ok_bind, pure_eq_ok] at he
      injection he with he; injection he with _ he; subst he
      exact ⟨fun _ => hd, hc.2⟩

/-- **loadCatalog: warm = cold.**  The (tables, columns) a client sees for a database equal what loading them
afresh computes, and the cache stays consistent. -/
theorem C11_no_hidden_state_catalog (rr : RowReader) (fs : RemoteReader) (db : Nat) (c : Cache) (hc : CacheOK rr fs c) :
    (rcCatalog rr fs db c).map (·.1) = catalogCold rr fs db ∧
    ∀ r c', rcCatalog rr fs db c = .ok (r, c') → CacheOK rr fs c' := by
  unfold rcCatalog
  cases hl : c.tables.lookup db with
  | some t =>
    simp only
    refine ⟨by rw [hc.2 db t hl]; rfl, ?_⟩
    intro r c' he
    simp only [pure_eq_ok] at he
    injection he with he; injection he with _ he; subst he; exact hc
  | none =>
    simp only
    cases hd : catalogCold rr fs db with
    | error e => exact ⟨rfl, fun r c' he => by simp at he⟩
    | ok r0 =>
      refine ⟨rfl, ?_⟩
      intro r c' he
      simp only [ok_bind, pure_eq_ok] at he
      injection he with he; injection he with _ he; subst he
      refine ⟨hc.1, ?_⟩
      intro db' t' hl'
      simp only [List.lookup_cons] at hl' ⊢
      by_cases hdb : db' = db
      · subst hdb
        simp only [beq_self_eq_true] at hl' ⊢
        injection hl' with hl'
        subst hl'
        simpa using hd
      · have : (db' == db) = false := by simpa using hdb
        simp only [this] at hl' ⊢
        exact hc.2 db' t' hl'

/-- **Tables(): warm = cold.** -/
theorem C11_no_hidden_state_tables (rr : RowReader) (π : MapOrder TableInfo) (fs : RemoteReader) (db : Nat) (c : Cache)
    (hc : CacheOK rr fs c) : (rcTables rr π fs db c).map (·.1) = tablesCold rr π fs db := by
  have h := (C11_no_hidden_state_catalog rr fs db c hc).1
  unfold rcTables tablesCold
  rw [← h]
  cases rcCatalog rr fs db c with
  | error e => rfl
  | ok r => rfl

/-- **Columns(): warm = cold.** -/
theorem C11_no_hidden_state_columns (rr : RowReader) (fs : RemoteReader) (db tbl : Nat) (c : Cache)
    (hc : CacheOK rr fs c) : (rcColumns rr fs db tbl c).map (·.1) = columnsCold rr fs db tbl := by
  have h := (C11_no_hidden_state_catalog rr fs db c hc).1
  unfold rcColumns columnsCold
  rw [← h]
  cases rcCatalog rr fs db c with
  | error e => rfl
  | ok r => rfl

example : IsOrder (List.reverse : MapOrder TableInfo) := fun l => reverse_perm l

end PgVerif.Props.C11

#print axioms PgVerif.Props.C11.C11_dump_order_independent
#print axioms PgVerif.Props.C11.C11_dataDir_order_independent
#print axioms PgVerif.Props.C11.C11_remote_tables_order_independent
#print axioms PgVerif.Props.C11.C11_tablesCold_order_independent
#print axioms PgVerif.Props.C11.C11_unsorted_order_dependent
#print axioms PgVerif.Props.C11.C11_lookup_order_independent
#print axioms PgVerif.Props.C11.C11_no_hidden_state_databases
#print axioms PgVerif.Props.C11.C11_no_hidden_state_catalog
#print axioms PgVerif.Props.C11.C11_no_hidden_state_tables
#print axioms PgVerif.Props.C11.C11_no_hidden_state_columns
