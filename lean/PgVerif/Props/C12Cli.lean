/-
  C12 (command-line program), topic E5: what main.go PRINTS — in the dump modes (JSON / `-sql` / `-csv`) and in the
  other modes — preserves what the library reports, and the exit code says whether it did.

  The model is `Model/CliRender.lean` (`cliRun`: action ↦ stdout / stderr / exit code, over the library calls as
  parameters); family `clirender` ties it to the real binary.  The theorems here are about the model:

    * JSON modes (`-control`, `-sequences`, `-relmap`, `-wal`, `-checksum`, `-f … -R`): the printed text is valid JSON
      (RFC 8259, parsed by the neutral `Spec.Json.parse`) denoting exactly the library struct, and the struct → JSON
      maps lose nothing the properties C16 / C20 talk about;
    * text modes (`-passwords`, `-list-db`, `-f …/1262`): the lines determine the listed records (C14, C12) under
      explicit printability hypotheses — and outside them they do not (witnesses below);
    * dump modes (`pgread [-d DIR] [-db NAME] [-t SUBSTR] [-list] [-sql] [-csv]`): `C12_cli_dump_output` — stdout is
      exactly the JSON / SQL / CSV rendering of what `DumpDataDir` returned under the options the flags select;
      `C12_cli_dump_json_valid` / `C12_cli_dump_json_injective` — the JSON text is valid and determines the dump;
    * `C12_cli_exit`: the exit code is 0 exactly when every library call on the path succeeded and something could
      be printed; `C12_cli_streams`: what goes to stdout and what to stderr.

  Where nothing is claimed: `cliRun` returns `.unrendered` (no `Out`) for `-f … -index`, `-f … -toast-verbose`,
  `-dropped`, `-secrets`, `-search` and for the JSON dump of a result in which some cell holds a float32 / float64
  (`dumpFloatFree r = false`); every theorem below whose hypothesis is `cliRun L a = .ok (.out o)` says nothing about
  those runs.  `-v` and `-debug` are outside `cliRun` (see its doc comment).
-/
import PgVerif.Proofs.CliRender
import PgVerif.Proofs.CliDump
import PgVerif.Proofs.ClusterStr
import PgVerif.Props.C12
namespace PgVerif.Props.C12Cli
open PgVerif PgVerif.Export PgVerif.Model PgVerif.Model.CliRender PgVerif.Proofs.CliRender PgVerif.Proofs.CliDump

/-! ## JSON modes -/

/-- What `enc.Encode(v)` with two-space indentation writes is a complete, valid JSON text, and it denotes the value it
was rendered from: integers by their decimal text, strings byte for byte (all of Go's escapes — `\"`, `\\`, `\n`,
`<` …, ` ` — are read back), arrays and objects member-wise in order.  Hypothesis: the strings are valid
UTF-8 (Go replaces every invalid byte by U+FFFD, which loses it). -/
theorem C12_cli_json_valid (v : JV) (hc : clean v = true) : Spec.Json.parse (encodeJSON v) = some (jOf v) :=
  parse_encodeJSON v hc

/-- Two library results whose JSON values differ are printed differently (the indented text determines the value). -/
theorem C12_cli_json_injective (v w : JV) (hv : clean v = true) (hw : clean w = true) (h : encodeJSON v = encodeJSON w) :
    v = w :=
  encodeJSON_injective v w hv hw h

example : clean (.obj [(Txt.asc "a<b", .arr [.int (-7), .str [0xC3, 0xA9, 10], .null])]) = true := by decide

/-- Invalid UTF-8 is NOT preserved: the bytes FF and FE both print as `"�"`. -/
theorem C12_cli_json_invalid_utf8_lost : encodeJSON (.str [0xFF]) = encodeJSON (.str [0xFE]) := by decide

theorem jnat_inj (a b : Nat) (h : jnat a = jnat b) : a = b := by
  simp only [jnat, JV.int.injEq] at h; exact Int.ofNat_inj.mp h

theorem jstr_inj (a b : String) (h : jstr a = jstr b) : a = b := by
  simp only [jstr, JV.str.injEq] at h
  exact Proofs.Cluster.strBytes_inj a b h

/-! ### `-control` (C16) -/

/-- the text fields of the struct are valid UTF-8 (for every result of ParseControlFile they are ASCII: state names,
`%X/%X` locations, the 24 hex digits of the WAL file name, WAL level names) -/
def ControlClean (c : ControlFile) : Prop :=
  utf8Clean (strBytes c.stateString) = true ∧ utf8Clean (strBytes c.checkpointLSN) = true ∧ utf8Clean (strBytes c.redoLSN) = true ∧
  utf8Clean (strBytes c.redoWALFile) = true ∧ utf8Clean (strBytes c.walLevel) = true

theorem controlJV_clean (c : ControlFile) (h : ControlClean c) : clean (controlJV c) = true := by
  obtain ⟨h1, h2, h3, h4, h5⟩ := h
  have ht := rfc3339_clean c.checkpointTime
  have hk : ∀ s : String, jstr s = .str (strBytes s) := fun _ => rfl
  simp only [controlJV, hk, clean, cleanKvs, h1, h2, h3, h4, h5, ht, jnat, Bool.and_true, key]
  decide

/-- C16 through the CLI: for control files whose checkpoint time the JSON encoder can represent (years 0..9999) the
text printed by `pgread -control` determines EVERY field of the library's `ControlFile` — system identifier, version
numbers, state and its name, checkpoint / redo locations, WAL file name, timelines, all xid / oid / multixact counters,
WAL level, connection limits, sizes, checksum flag, stored CRC and the CRC verdict, inferred version — exactly; the
checkpoint time is determined as its RFC 3339 text (see `C16_cli_control_time` for the seconds). -/
theorem C16_cli_control (c₁ c₂ : ControlFile) (t₁ : timeInRange c₁.checkpointTime = true) (t₂ : timeInRange c₂.checkpointTime = true)
    (k₁ : ControlClean c₁) (k₂ : ControlClean c₂) (h : (renderControl c₁).stdout = (renderControl c₂).stdout) :
    { c₁ with checkpointTime := 0 } = { c₂ with checkpointTime := 0 } ∧ rfc3339 c₁.checkpointTime = rfc3339 c₂.checkpointTime := by
  simp only [renderControl, t₁, t₂, if_true, okOut] at h
  have hv := encodeJSON_injective _ _ (controlJV_clean c₁ k₁) (controlJV_clean c₂ k₂) h
  simp only [controlJV, JV.obj.injEq, List.cons.injEq, Prod.mk.injEq, true_and, and_true, JV.bool.injEq, JV.int.injEq,
    JV.str.injEq] at hv
  obtain ⟨h1, h2, h3, h4, h5, h6, h7, h8, h9, h10, h11, h12, h13, h14, h15, h16, h17, h18, h19, h20, h21, h22, h23, h24,
    h25, h26, h27, h28, h29, h30, h31, h32, h33, h34, h35, h36, h37, h38, h39, h40, h41, h42, h43, h44, h45, h46⟩ := hv
  have := jnat_inj _ _ h1; have := jnat_inj _ _ h2; have := jnat_inj _ _ h3; have := jstr_inj _ _ h5
  have := jstr_inj _ _ h6; have := jstr_inj _ _ h7; have := jstr_inj _ _ h8; have := jnat_inj _ _ h9
  have := jnat_inj _ _ h10; have := jnat_inj _ _ h12; have := jnat_inj _ _ h13; have := jnat_inj _ _ h14
  have := jnat_inj _ _ h15; have := jnat_inj _ _ h16; have := jnat_inj _ _ h17; have := jnat_inj _ _ h18
  have := jnat_inj _ _ h19; have := jnat_inj _ _ h20; have := jnat_inj _ _ h21; have := jnat_inj _ _ h22
  have := jnat_inj _ _ h23; have := jstr_inj _ _ h25; have := jnat_inj _ _ h33; have := jnat_inj _ _ h34
  have := jnat_inj _ _ h35; have := jnat_inj _ _ h36; have := jnat_inj _ _ h37; have := jnat_inj _ _ h38
  have := jnat_inj _ _ h39; have := jnat_inj _ _ h40; have := jnat_inj _ _ h41; have := jnat_inj _ _ h44
  have := jnat_inj _ _ h46
  refine ⟨?_, h24⟩
  cases c₁; cases c₂
  simp_all

/-- within the years 0..9999 the printed `checkpoint_time` determines the stored second (`time.Unix(t, 0).UTC()` in
RFC 3339: the civil-calendar conversion is injective) -/
theorem C16_cli_control_time (s t : Int) (hs : timeInRange s = true) (ht : timeInRange t = true) (h : rfc3339 s = rfc3339 t) : s = t :=
  rfc3339_inj s t hs ht h

/-- C16 through the CLI, all fields: two control files with representable checkpoint times that `pgread -control`
prints identically are equal in every field the library reports. -/
theorem C16_cli_control_all (c₁ c₂ : ControlFile) (t₁ : timeInRange c₁.checkpointTime = true) (t₂ : timeInRange c₂.checkpointTime = true)
    (k₁ : ControlClean c₁) (k₂ : ControlClean c₂) (h : (renderControl c₁).stdout = (renderControl c₂).stdout) : c₁ = c₂ := by
  obtain ⟨h1, h2⟩ := C16_cli_control c₁ c₂ t₁ t₂ k₁ k₂ h
  have ht := rfc3339_inj _ _ t₁ t₂ h2
  cases c₁; cases c₂
  simp only [ControlFile.mk.injEq] at h1 ht ⊢
  simp_all

def exampleControl : ControlFile :=
  let c : ControlFile := default
  let c := { c with stateString := "in production", checkpointLSN := "0/16B3D98", redoLSN := "0/16B3D60" }
  { c with redoWALFile := "000000010000000000000001", walLevel := "replica", checkpointTime := 1700000000 }

/-- the hypotheses are satisfiable -/
example : timeInRange exampleControl.checkpointTime = true ∧ ControlClean exampleControl := by
  refine ⟨by decide, ?_, ?_, ?_, ?_, ?_⟩ <;> (rw [Proofs.Cluster.strBytes_eq]; decide)

/-- `-control` on a checkpoint time outside the years 0..9999 prints NOTHING on stdout: the JSON encoder refuses the
time.  With fix cluster/07 the run fails loudly (stderr, exit 1); before it main.go dropped the error and exited 0
(family `clirender`, fixed case 0: time 253402300800 = 10000-01-01T00:00:00Z). -/
theorem C16_cli_control_unrepresentable (c : ControlFile) (h : timeInRange c.checkpointTime = false) :
    (renderControl c).stdout = [] ∧ (renderControl c).exit = 1 := by
  simp [renderControl, h, errOut]

/-! ### `-sequences` (C20) -/

theorem seq_keys_ne : key "name" ≠ key "oid" ∧ key "name" ≠ key "filenode" ∧ key "name" ≠ key "last_value" ∧
    key "oid" ≠ key "filenode" ∧ key "oid" ≠ key "last_value" ∧ key "filenode" ≠ key "last_value" := by decide

/-- the JSON object of a sequence determines every field of `SequenceData` (an omitted `name` / `oid` / `filenode` is the
empty / zero value) -/
theorem seqJV_inj (a b : SequenceData) (h : seqJV a = seqJV b) : a = b := by
  obtain ⟨k1, k2, k3, k4, k5, k6⟩ := seq_keys_ne
  unfold seqJV at h
  cases a; cases b
  rename_i an ao af a1 a2 a3 a4 a5 a6 a7 a8 bn bo bf b1 b2 b3 b4 b5 b6 b7 b8
  simp only at h
  by_cases n1 : an = [] <;> by_cases n2 : bn = [] <;> by_cases o1 : ao = 0 <;> by_cases o2 : bo = 0 <;>
    by_cases f1 : af = 0 <;> by_cases f2 : bf = 0 <;>
    simp [n1, n2, o1, o2, f1, f2, jnat, k1, k2, k3, k4, k5, k6, Ne.symm k1, Ne.symm k2, Ne.symm k3, Ne.symm k4, Ne.symm k5,
      Ne.symm k6] at h ⊢ <;> first | omega | exact_mod_cast h

theorem seq_keys_clean : utf8Clean (key "name") = true ∧ utf8Clean (key "oid") = true ∧ utf8Clean (key "filenode") = true ∧
    utf8Clean (key "last_value") = true ∧ utf8Clean (key "start_value") = true ∧ utf8Clean (key "increment_by") = true ∧
    utf8Clean (key "max_value") = true ∧ utf8Clean (key "min_value") = true ∧ utf8Clean (key "cache_value") = true ∧
    utf8Clean (key "is_cycled") = true ∧ utf8Clean (key "is_called") = true := by decide

theorem seqListJV_inj (l₁ l₂ : List SequenceData) (h : seqListJV l₁ = seqListJV l₂) : l₁ = l₂ := by
  unfold seqListJV at h
  cases l₁ <;> cases l₂ <;> simp at h ⊢
  rename_i a t b u
  have := map_inj_of_inj seqJV seqJV_inj (a :: t) (b :: u) (by simpa using h)
  simpa using this

theorem seqList_clean (l : List SequenceData) (h : ∀ s ∈ l, utf8Clean s.name = true) : clean (seqListJV l) = true := by
  unfold seqListJV
  cases hl : l.isEmpty
  · simp only [Bool.false_eq_true, if_false, clean]
    clear hl
    induction l with
    | nil => rfl
    | cons s t ih =>
      simp only [List.map_cons, cleanList, Bool.and_eq_true]
      refine ⟨?_, ih (fun x hx => h x (by simp [hx]))⟩
      have hn := h s (by simp)
      obtain ⟨c1, c2, c3, c4, c5, c6, c7, c8, c9, c10, c11⟩ := seq_keys_clean
      unfold seqJV
      by_cases n : s.name = [] <;> by_cases o : s.oid = 0 <;> by_cases f : s.filenode = 0 <;>
        simp [n, o, f, clean, cleanKvs, hn, jnat, c1, c2, c3, c4, c5, c6, c7, c8, c9, c10, c11]
  · simp [clean]

/-- C20 through the CLI (`-sequences <db>`): the printed text determines the listed sequences — each with its name,
oid, filenode, last_value, is_called and the remaining state — exactly and in order (names valid UTF-8). -/
theorem C20_cli_sequences (l₁ l₂ : List SequenceData) (h₁ : ∀ s ∈ l₁, utf8Clean s.name = true) (h₂ : ∀ s ∈ l₂, utf8Clean s.name = true)
    (h : encodeJSON (seqListJV l₁) = encodeJSON (seqListJV l₂)) : l₁ = l₂ :=
  seqListJV_inj l₁ l₂ (encodeJSON_injective _ _ (seqList_clean l₁ h₁) (seqList_clean l₂ h₂) h)

example : utf8Clean (Txt.asc "users_id_seq") = true := by decide

/-- in particular last_value (over the whole int64 range, negative values included) and is_called are printed exactly -/
theorem C20_cli_sequence_state (a b : SequenceData) (ha : utf8Clean a.name = true) (hb : utf8Clean b.name = true)
    (h : encodeJSON (seqListJV [a]) = encodeJSON (seqListJV [b])) : a.lastValue = b.lastValue ∧ a.isCalled = b.isCalled := by
  have := C20_cli_sequences [a] [b] (by simpa using ha) (by simpa using hb) h
  simp only [List.cons.injEq, and_true] at this
  rw [this]; exact ⟨rfl, rfl⟩

/-! ### `-relmap` (C20) -/

theorem mappingJV_inj (a b : RelMapping) (h : mappingJV a = mappingJV b) : a = b := by
  cases a; cases b
  simp only [mappingJV, jnat, JV.obj.injEq, List.cons.injEq, Prod.mk.injEq, true_and, and_true, JV.int.injEq, Int.ofNat_inj] at h
  simp [h.1, h.2]

theorem mappingsJV_inj (l₁ l₂ : List RelMapping)
    (h : (if l₁.isEmpty then JV.null else JV.arr (l₁.map mappingJV)) = (if l₂.isEmpty then JV.null else JV.arr (l₂.map mappingJV))) :
    l₁ = l₂ := by
  cases l₁ <;> cases l₂ <;> simp at h ⊢
  rename_i a t b u
  have := map_inj_of_inj mappingJV mappingJV_inj (a :: t) (b :: u) (by simpa using h)
  simpa using this

theorem relmap_keys_ne : key "crc" ≠ key "is_global" ∧ key "path" ≠ key "is_global" := by decide

/-- C20 through the CLI (`-relmap global` / `<oid>`): the JSON object determines the reported magic, mapping count, the
mappings in stored order, the stored CRC (an omitted `crc` is 0), the global flag and the path. -/
theorem relmapJV_inj (a b : RelMapFile) (h : relmapJV a = relmapJV b) : a = b := by
  obtain ⟨k1, k2⟩ := relmap_keys_ne
  unfold relmapJV at h
  cases a; cases b
  rename_i am an al ac ag ap bm bn bl bc bg bp
  simp only at h
  have hp : ∀ s : String, jstr s = .str (strBytes s) := fun _ => rfl
  have sb : ∀ x y : String, strBytes x = strBytes y ↔ x = y := fun x y => ⟨Proofs.Cluster.strBytes_inj x y, fun e => by rw [e]⟩
  have mj : ∀ l₁ l₂ : List RelMapping,
      ((if l₁.isEmpty then JV.null else JV.arr (l₁.map mappingJV)) = (if l₂.isEmpty then JV.null else JV.arr (l₂.map mappingJV))) ↔ l₁ = l₂ :=
    fun l₁ l₂ => ⟨mappingsJV_inj l₁ l₂, fun e => by rw [e]⟩
  by_cases c1 : ac = 0 <;> by_cases c2 : bc = 0 <;> by_cases p1 : ap = "" <;> by_cases p2 : bp = "" <;>
    simp only [c1, c2, p1, p2, ne_eq, not_true_eq_false, not_false_eq_true, if_true, if_false, List.cons_append, List.nil_append,
      List.append_nil, JV.obj.injEq, List.cons.injEq, Prod.mk.injEq, true_and, and_true, jnat, JV.int.injEq, JV.bool.injEq,
      Int.ofNat_inj, k1, k2, Ne.symm k1, Ne.symm k2, and_false, reduceCtorEq, hp, JV.str.injEq, sb, mj] at h <;>
    simp_all

theorem relmap_keys_clean : utf8Clean (key "oid") = true ∧ utf8Clean (key "filenode") = true ∧ utf8Clean (key "magic") = true ∧
    utf8Clean (key "num_mappings") = true ∧ utf8Clean (key "mappings") = true ∧ utf8Clean (key "crc") = true ∧
    utf8Clean (key "is_global") = true ∧ utf8Clean (key "path") = true := by decide

theorem mappings_clean (l : List RelMapping) : cleanList (l.map mappingJV) = true := by
  obtain ⟨c1, c2, _⟩ := relmap_keys_clean
  induction l with
  | nil => rfl
  | cons m t ih => simp [cleanList, mappingJV, clean, cleanKvs, jnat, c1, c2, ih]

theorem relmap_clean (r : RelMapFile) (h : utf8Clean (strBytes r.path) = true) : clean (relmapJV r) = true := by
  obtain ⟨_, _, c3, c4, c5, c6, c7, c8⟩ := relmap_keys_clean
  have hm := mappings_clean r.mappings
  have hp : ∀ s : String, jstr s = .str (strBytes s) := fun _ => rfl
  unfold relmapJV
  by_cases e : r.mappings.isEmpty = true <;> by_cases c : r.crc = 0 <;> by_cases p : r.path = "" <;>
    simp [e, c, p, clean, cleanKvs, jnat, hp, h, hm, c3, c4, c5, c6, c7, c8]

/-- C20 through the CLI (`-relmap global`, `-relmap <oid>`): the printed text determines the relation map the library
reports: magic, mapping count, every (oid, filenode) pair in stored order (duplicates included), the stored CRC. -/
theorem C20_cli_relmap (a b : RelMapFile) (ha : utf8Clean (strBytes a.path) = true) (hb : utf8Clean (strBytes b.path) = true)
    (h : encodeJSON (relmapJV a) = encodeJSON (relmapJV b)) : a = b :=
  relmapJV_inj a b (encodeJSON_injective _ _ (relmap_clean a ha) (relmap_clean b hb) h)

example : utf8Clean (strBytes "/var/lib/postgresql/data/global/pg_filenode.map") = true := by
  rw [Proofs.Cluster.strBytes_eq]; decide

/-! ## text modes -/

/-! ### `-passwords` (C14) -/

theorem map_rel {α β γ} (f : α → β) (g : α → γ) : ∀ (l₁ l₂ : List α), (∀ a ∈ l₁, ∀ b ∈ l₂, f a = f b → g a = g b) →
    l₁.map f = l₂.map f → l₁.map g = l₂.map g
  | [], [], _, _ => rfl
  | [], _ :: _, _, h => by simp at h
  | _ :: _, [], _, h => by simp at h
  | a :: t, b :: u, hr, h => by
    simp only [List.map_cons, List.cons.injEq] at h ⊢
    exact ⟨hr a (by simp) b (by simp) h.1, map_rel f g t u (fun x hx y hy => hr x (by simp [hx]) y (by simp [hy])) h.2⟩

theorem passwords_all (l : List AuthInfo) : renderPasswords (Txt.asc "all") l =
    if l.isEmpty then Txt.asc "No password hashes found\n" else passwordsHeader ++ l.flatMap authLine := by
  have hf : ∀ l : List AuthInfo, l.filter (fun _ => true) = l := by
    intro l; induction l with
    | nil => rfl
    | cons a t ih => simp [List.filter, ih]
  simp [renderPasswords, hf]

theorem header_heads : passwordsHeader.head? = some 80 ∧ (Txt.asc "No password hashes found\n").head? = some 78 := by decide

/-- C14 through the CLI: what `pgread -passwords all` prints determines, for every role in order (live or dead — the
library lists both), its name, its exact verifier text — or that it has none — and its SUPERUSER / LOGIN marks.
Hypotheses (`AuthPrintable`): no `:` or newline in a role name, no blank or newline in a verifier — true of every MD5
and SCRAM verifier; without them the rendering is ambiguous (`C14_cli_passwords_ambiguous`).  The role OID is not
printed at all (`C14_cli_passwords_no_oid`). -/
theorem C14_cli_passwords (l₁ l₂ : List AuthInfo) (h₁ : ∀ a ∈ l₁, AuthPrintable a) (h₂ : ∀ a ∈ l₂, AuthPrintable a)
    (h : renderPasswords (Txt.asc "all") l₁ = renderPasswords (Txt.asc "all") l₂) : l₁.map authView = l₂.map authView := by
  rw [passwords_all, passwords_all] at h
  obtain ⟨hh1, hh2⟩ := header_heads
  cases l₁ with
  | nil =>
    cases l₂ with
    | nil => rfl
    | cons b u =>
      simp only [List.isEmpty_nil, List.isEmpty_cons, if_true, Bool.false_eq_true, if_false] at h
      have := congrArg List.head? h
      rw [hh2] at this
      cases hp : passwordsHeader with
      | nil => rw [hp] at hh1; simp at hh1
      | cons c t => rw [hp] at hh1 this; simp at hh1 this; rw [hh1] at this; exact absurd this (by decide)
  | cons a t =>
    cases l₂ with
    | nil =>
      simp only [List.isEmpty_nil, List.isEmpty_cons, if_true, Bool.false_eq_true, if_false] at h
      have := congrArg List.head? h
      rw [hh2] at this
      cases hp : passwordsHeader with
      | nil => rw [hp] at hh1; simp at hh1
      | cons c t => rw [hp] at hh1 this; simp at hh1 this; rw [hh1] at this; exact absurd this (by decide)
    | cons b u =>
      simp only [List.isEmpty_cons, Bool.false_eq_true, if_false] at h
      have h' := List.append_cancel_left h
      have e : authLine = fun x => (x.roleName ++ 58 :: joinSp (authTokens x)) ++ [10] := funext authLine_eq
      rw [e] at h'
      have hm := lines_inj (fun x => x.roleName ++ 58 :: joinSp (authTokens x)) (a :: t) (b :: u)
        (fun x hx => authBody_nonl x (h₁ x hx)) (fun x hx => authBody_nonl x (h₂ x hx)) h'
      exact map_rel _ authView _ _ (fun x hx y hy hxy => authLine_inj x y (h₁ x hx) (h₂ y hy) hxy) hm

example : AuthPrintable ⟨10, Txt.asc "postgres", Txt.asc "SCRAM-SHA-256$4096:c2FsdA==$c3RvcmVk:c2VydmVy", true, true⟩ := by
  unfold AuthPrintable; decide

/-- outside the hypotheses the text is ambiguous: a role with LOGIN and verifier `x`, and a role without LOGIN whose
verifier is `x [LOGIN]`, print the same line -/
theorem C14_cli_passwords_ambiguous :
    renderPasswords (Txt.asc "all") [⟨10, Txt.asc "a", Txt.asc "x", false, true⟩] =
    renderPasswords (Txt.asc "all") [⟨10, Txt.asc "a", Txt.asc "x [LOGIN]", false, false⟩] := by decide

/-- a role whose stored verifier is the text `(no password)` prints like a role with a NULL password -/
theorem C14_cli_passwords_ambiguous_null :
    renderPasswords (Txt.asc "all") [⟨10, Txt.asc "a", Txt.asc "(no password)", false, false⟩] =
    renderPasswords (Txt.asc "all") [⟨10, Txt.asc "a", [], false, false⟩] := by decide

/-- the role OID, which C14 lists among the reported fields, is not in the CLI's text -/
theorem C14_cli_passwords_no_oid (sel : Bytes) (a : AuthInfo) (oid : Nat) :
    renderPasswords sel [a] = renderPasswords sel [{ a with oid := oid }] := by
  unfold renderPasswords
  by_cases hs : (sel == Txt.asc "all" || a.roleName == sel) = true <;> simp [hs, authLine, authFlags]

/-! ### `-list-db`, `-f …/1262` (C12) -/

/-- C12 through the CLI: `pgread -list-db` output (stdout and exit code) determines the databases ListDatabases
returned — name and OID of each, in order — whatever the names contain except a newline. -/
theorem C12_cli_listdb (l₁ l₂ : List DatabaseInfo) (h₁ : ∀ d ∈ l₁, (10 : UInt8) ∉ d.name) (h₂ : ∀ d ∈ l₂, (10 : UInt8) ∉ d.name)
    (h : renderListDb l₁ = renderListDb l₂) : l₁ = l₂ := by
  unfold renderListDb at h
  cases l₁ with
  | nil =>
    cases l₂ with
    | nil => rfl
    | cons b u => simp [okOut] at h
  | cons a t =>
    cases l₂ with
    | nil => simp [okOut] at h
    | cons b u =>
      simp only [List.isEmpty_cons, Bool.false_eq_true, if_false, okOut, Out.mk.injEq, and_true] at h
      exact listDbLines_inj _ _ h₁ h₂ h

example : (10 : UInt8) ∉ (⟨16384, Txt.asc "my db (OID 7)"⟩ : DatabaseInfo).name := by decide

/-- the same for `pgread -f <dir>/global/1262` -/
theorem C12_cli_file1262 (l₁ l₂ : List DatabaseInfo) (h₁ : ∀ d ∈ l₁, (10 : UInt8) ∉ d.name) (h₂ : ∀ d ∈ l₂, (10 : UInt8) ∉ d.name)
    (h : renderFile1262 l₁ = renderFile1262 l₂) : l₁ = l₂ := by
  unfold renderFile1262 at h
  have h' := List.append_cancel_left h
  have e : file1262Line = fun d => (Txt.asc "  " ++ dbBody d) ++ [10] := by
    funext d; simp [file1262Line, listDbLine_eq]
  rw [e] at h'
  have hm := lines_inj (fun d => Txt.asc "  " ++ dbBody d) l₁ l₂
    (fun d hd => by
      intro hmem
      simp only [List.mem_append] at hmem
      rcases hmem with hmem | hmem
      · exact absurd hmem (by decide)
      · exact dbBody_nonl d (h₁ d hd) hmem)
    (fun d hd => by
      intro hmem
      simp only [List.mem_append] at hmem
      rcases hmem with hmem | hmem
      · exact absurd hmem (by decide)
      · exact dbBody_nonl d (h₂ d hd) hmem) h'
  exact map_inj_of_inj _ (fun a b hab => dbBody_inj a b (List.append_cancel_left hab)) l₁ l₂ hm

/-! ### `-f …/1259` (C12: the relations of a database) -/

def classBody (t : TableInfo) : Bytes :=
  t.name ++ oidOpen ++ dec t.oid ++ Txt.asc ", filenode " ++ dec t.filenode ++ Txt.asc ", kind " ++ t.kind ++ [41]

theorem classLine_eq (t : TableInfo) : classLine t = (Txt.asc "  " ++ classBody t) ++ [10] := by
  simp [classLine, classBody, oidOpen, show Txt.asc ")\n" = [41, 10] by decide]

theorem sep_revs : (Txt.asc ", kind ").reverse = 32 :: [100, 110, 105, 107, 32, 44] ∧
    (Txt.asc ", filenode ").reverse = 32 :: [101, 100, 111, 110, 101, 108, 105, 102, 32, 44] := by decide

/-- a `pg_class` line read from the right (relkind without a blank — it is one letter): kind, filenode, oid, and
whatever is left is the name -/
theorem classBody_inj (a b : TableInfo) (ka : (32 : UInt8) ∉ a.kind) (kb : (32 : UInt8) ∉ b.kind) (h : classBody a = classBody b) : a = b := by
  have hr := congrArg List.reverse h
  simp only [classBody, List.reverse_append, List.reverse_cons, List.reverse_nil, List.nil_append, List.append_assoc,
    List.cons_append, List.cons.injEq, true_and, oidOpen_rev, sep_revs.1, sep_revs.2] at hr
  have d32 : ∀ n, (32 : UInt8) ∉ (dec n).reverse := fun n => by simpa using dec_no n 32 (Or.inl rfl)
  have s1 := append_sep_inj 32 _ _ _ _ (by simpa using ka) (by simpa using kb) hr
  have hk : a.kind = b.kind := List.reverse_inj.mp s1.1
  have h2 := s1.2
  simp only [List.cons.injEq, true_and] at h2
  have s2 := append_sep_inj 32 _ _ _ _ (d32 a.filenode) (d32 b.filenode) h2
  have hfn : a.filenode = b.filenode := dec_injective _ _ (List.reverse_inj.mp s2.1)
  have h3 := s2.2
  simp only [List.cons.injEq, true_and] at h3
  have s3 := append_sep_inj 32 _ _ _ _ (d32 a.oid) (d32 b.oid) h3
  have hoid : a.oid = b.oid := dec_injective _ _ (List.reverse_inj.mp s3.1)
  have h4 := s3.2
  simp only [List.cons.injEq, true_and] at h4
  have hname : a.name = b.name := List.reverse_inj.mp h4
  cases a; cases b; simp_all

/-- C12 through the CLI: the lines `pgread -f <db>/1259` prints determine the listed relations — name, oid, filenode,
relkind — for names and kinds without a newline and kinds without a blank. -/
theorem C12_cli_file1259_lines (l₁ l₂ : List TableInfo)
    (h₁ : ∀ t ∈ l₁, (10 : UInt8) ∉ t.name ∧ (10 : UInt8) ∉ t.kind ∧ (32 : UInt8) ∉ t.kind)
    (h₂ : ∀ t ∈ l₂, (10 : UInt8) ∉ t.name ∧ (10 : UInt8) ∉ t.kind ∧ (32 : UInt8) ∉ t.kind)
    (h : l₁.flatMap classLine = l₂.flatMap classLine) : l₁ = l₂ := by
  have e : classLine = fun t => (Txt.asc "  " ++ classBody t) ++ [10] := funext classLine_eq
  rw [e] at h
  have nonl : ∀ t : TableInfo, (10 : UInt8) ∉ t.name → (10 : UInt8) ∉ t.kind → (10 : UInt8) ∉ Txt.asc "  " ++ classBody t := by
    intro t hn hk hm
    simp only [classBody, List.mem_append, List.mem_singleton] at hm
    rcases hm with hm | ((((((hm | hm) | hm) | hm) | hm) | hm) | hm) | hm
    · exact absurd hm (by decide)
    · exact hn hm
    · exact absurd hm (by decide)
    · exact dec_no _ 10 (Or.inr rfl) hm
    · exact absurd hm (by decide)
    · exact dec_no _ 10 (Or.inr rfl) hm
    · exact absurd hm (by decide)
    · exact hk hm
    · exact absurd hm (by decide)
  have hm := lines_inj (fun t => Txt.asc "  " ++ classBody t) l₁ l₂ (fun t ht => nonl t (h₁ t ht).1 (h₁ t ht).2.1)
    (fun t ht => nonl t (h₂ t ht).1 (h₂ t ht).2.1) h
  -- pointwise: equal bodies, equal records
  have hrel : ∀ a ∈ l₁, ∀ b ∈ l₂, Txt.asc "  " ++ classBody a = Txt.asc "  " ++ classBody b → id a = id b :=
    fun a ha b hb hab => classBody_inj a b (h₁ a ha).2.2 (h₂ b hb).2.2 (List.append_cancel_left hab)
  simpa using map_rel _ id l₁ l₂ hrel hm

example : (10 : UInt8) ∉ (⟨16384, 16390, Txt.asc "users", [114]⟩ : TableInfo).name ∧ (32 : UInt8) ∉ (⟨16384, 16390, Txt.asc "users", [114]⟩ : TableInfo).kind := by decide

/-- `-f <heap file>`: the printed tuple count is the number ParseFile returned -/
theorem C12_cli_heapcount (a b : Nat) (h : renderHeapCount a = renderHeapCount b) : a = b := by
  unfold renderHeapCount at h
  have h1 := List.append_cancel_right h
  have h2 := List.append_cancel_left h1
  exact dec_injective a b h2

/-! ### `-sequences all`, `-relmap all`, `-f … -R` -/

/-- `-sequences all` prints a JSON object keyed by database name (keys sorted by the encoder): it determines, for
every database in name order, its list of sequences -/
theorem C20_cli_sequences_all (m₁ m₂ : List (Bytes × List SequenceData)) (h : seqMapJV m₁ = seqMapJV m₂) :
    sortBy (fun a b => bytesLeB a.1 b.1) m₁ = sortBy (fun a b => bytesLeB a.1 b.1) m₂ := by
  simp only [seqMapJV, JV.obj.injEq] at h
  exact map_inj_of_inj (fun (x : Bytes × List SequenceData) => (x.1, seqListJV x.2))
    (fun a b hab => by
      obtain ⟨a1, a2⟩ := a; obtain ⟨b1, b2⟩ := b
      simp only [Prod.mk.injEq] at hab
      rw [hab.1, seqListJV_inj _ _ hab.2]) _ _ h

/-- `-relmap all`: the global map and the per-database maps (an omitted `databases` is the empty list) -/
theorem C20_cli_relmap_all (a b : RelMapInfo) (h : relmapInfoJV a = relmapInfoJV b) : a = b := by
  have hk : key "global" ≠ key "databases" := by decide
  cases a; cases b
  rename_i ag ad bg bd
  unfold relmapInfoJV at h
  simp only at h
  cases ad <;> cases bd <;>
    simp only [List.isEmpty_nil, List.isEmpty_cons, if_true, Bool.false_eq_true, if_false, List.append_nil, List.cons_append,
      List.nil_append, JV.obj.injEq, List.cons.injEq, Prod.mk.injEq, true_and, and_true, reduceCtorEq, and_false,
      JV.arr.injEq] at h
  · rw [relmapJV_inj _ _ h]
  · obtain ⟨h1, h2⟩ := h
    rename_i x xs y ys
    have := map_inj_of_inj relmapJV relmapJV_inj (x :: xs) (y :: ys) (by simpa using h2)
    rw [relmapJV_inj _ _ h1, this]

theorem blockInfoJV_inj (a b : BlockInfo) (h : blockInfoJV a = blockInfoJV b) : a = b := by
  have sb : ∀ x y : String, jstr x = jstr y ↔ x = y := fun x y => ⟨jstr_inj x y, fun e => by rw [e]⟩
  cases a; cases b
  rename_i a1 a2 a3 a4 a5 a6 a7 a8 a9 a10 a11 a12 b1 b2 b3 b4 b5 b6 b7 b8 b9 b10 b11 b12
  unfold blockInfoJV at h
  simp only at h
  cases a12 <;> cases b12 <;>
    simp only [Bool.false_eq_true, if_true, if_false, List.append_nil, List.cons_append, List.nil_append, JV.obj.injEq,
      List.cons.injEq, Prod.mk.injEq, true_and, and_true, jnat, JV.int.injEq, Int.ofNat_inj, sb, reduceCtorEq, and_false] at h <;>
    simp_all

/-- `-f <file> -R <range>`: the JSON array determines every reported page header (block number, LSN text, checksum,
flags, lower / upper / special, page size, version, item count, free space, emptiness) -/
theorem C12_cli_blockrange (l₁ l₂ : List BlockInfo) (h : blockListJV l₁ = blockListJV l₂) : l₁ = l₂ := by
  unfold blockListJV at h
  cases l₁ <;> cases l₂ <;> simp at h ⊢
  rename_i a t b u
  have := map_inj_of_inj blockInfoJV blockInfoJV_inj (a :: t) (b :: u) (by simpa using h)
  simpa using this

/-! ### `-f <file> -b` -/

/-- the hex dump printed for a block (`encoding/hex.Dump`) determines the block's bytes: nothing of the page is lost in
the text form -/
theorem C12_cli_binary_block (n : Nat) (off : Int) (sa sb : Nat) (a b : Bytes)
    (h : binaryBlock ⟨n, off, hexDump a, sa⟩ = binaryBlock ⟨n, off, hexDump b, sb⟩) : a = b := by
  simp only [binaryBlock, List.append_assoc] at h
  have h1 := List.append_cancel_left (List.append_cancel_left (List.append_cancel_left (List.append_cancel_left (List.append_cancel_left h))))
  exact hexDump_inj a b (List.append_cancel_right h1)

example : hexDump [0x50, 0x47, 0, 0xFF] = Txt.asc "00000000  50 47 00 ff                                       |PG..|\n" := by decide

/-! ## exit code -/

/-- every library call main.go makes on the path of the action returns without error, and there is something to print:
a data directory was detected (`-detect`), a database was found (`-list-db`), the JSON encoder accepts the checkpoint
time (`-control`), no page has an invalid checksum (`-checksum`), DumpDataDir returned a result (the dump modes).
(`True` for the actions `cliRun` does not render: nothing is claimed about them.) -/
def CliSuccess (L : Lib) : Action → Prop
  | .version => True
  | .detect => L.detectAll ≠ []
  | .noDataDir => False
  | .relmapInvalid _ => False
  | .listDb dir => ∃ dbs, L.listDatabases dir = .ok dbs ∧ dbs ≠ []
  | .control dir => ∃ c, L.readControlFile dir = .ok (some c) ∧ timeInRange c.checkpointTime = true
  | .checksum dir => ∃ r, L.verifyChecksums dir = .ok (some r) ∧ r.invalidBlocks = 0
  | .sequencesAll dir => ∃ m, L.scanAllSequences dir = .ok (some m)
  | .sequencesDb dir db => ∃ l, L.findSequences dir db = .ok (some l)
  | .relmapGlobal dir => ∃ r, L.readGlobalRelMap dir = .ok (some r)
  | .relmapAll dir => ∃ r, L.readAllRelMaps dir = .ok (some r)
  | .relmapDb dir oid => ∃ r, L.readDatabaseRelMap dir oid = .ok (some r)
  | .passwords dir _ => ∃ l, L.extractPasswords dir = .ok (some l)
  | .wal dir => ∃ s, L.scanWAL dir = .ok (some s)
  | .file path .plain => (L.readFile path).isSome = true
  | .file path (.binary r) =>
    ∃ br, (if r = [] then (pure (some none) : M (Option (Option BlockRange))) else L.parseBlockRange r) = .ok (some br) ∧
      ∃ d, L.dumpBinaryRange path br = .ok (some d)
  | .file path (.range r seg) =>
    ∃ br, L.parseBlockRange r = .ok (some br) ∧ (∀ s, seg = some s → (L.segmentInfo path s).isSome = true) ∧
      ∃ bs, L.dumpBlockRange path br = .ok (some bs)
  | .dump dir opts _ => ∃ r, L.dumpDataDir dir opts = .ok (some r)
  | _ => True

theorem jsonOr_exit {α} (pre : String) (r : Option α) (f : α → Bytes) (o : Out) (h : jsonOr pre r f = .out o) :
    (o.exit = 0 ↔ ∃ x, r = some x) ∧ o.exit ≤ 1 := by
  cases r with
  | none => simp only [jsonOr, Run.out.injEq] at h; subst h; simp [errOut]
  | some x => simp only [jsonOr, Run.out.injEq] at h; subst h; simp [okOut]

/-- a library-call result `m` (no panic) followed by `jsonOr` -/
theorem bind_jsonOr_exit {α} (pre : String) (m : M (Option α)) (f : α → Bytes) (o : Out)
    (h : (m >>= fun r => pure (jsonOr pre r f)) = .ok (.out o)) : (o.exit = 0 ↔ ∃ x, m = .ok (some x)) ∧ o.exit ≤ 1 := by
  cases m with
  | error e => simp at h
  | ok r =>
    simp only [ok_bind, pure_eq_ok, Except.ok.injEq] at h
    have := jsonOr_exit pre r f o h
    simpa using this

/-- C12 (command-line program), exit code: whenever the program terminates without a panic in one of the rendered
modes — the dump modes (JSON of a dump without float cells, `-sql`, `-csv`) included; NOT `-f … -index`,
`-f … -toast-verbose`, `-dropped`, `-secrets`, `-search`, nor the JSON dump of a result holding a float, for which
`cliRun` returns `.unrendered` and the hypothesis is false — the exit code is 0 or 1, and it is 0 exactly when
`CliSuccess` holds — every library call on the path returned without error and there was something to print.
(The dump modes: 0 exactly when DumpDataDir returned a result — see `C12_cli_dump_output` for what is printed.)  (`-version` always succeeds; a missing data directory and a bad
`-relmap` argument always fail; `-checksum` fails when a page checksum is wrong even though the report is printed;
`-control` fails when the JSON encoder refuses the checkpoint time — fix cluster/07; before it this case exited 0 with
empty stdout.) -/
theorem C12_cli_exit (L : Lib) (a : Action) (o : Out) (h : cliRun L a = .ok (.out o)) :
    (o.exit = 0 ↔ CliSuccess L a) ∧ o.exit ≤ 1 := by
  cases a with
  | version => simp only [cliRun, pure_eq_ok, Except.ok.injEq, Run.out.injEq] at h; subst h; simp [okOut, CliSuccess]
  | detect =>
    simp only [cliRun] at h
    by_cases he : L.detectAll.isEmpty = true
    · simp only [he, if_true, pure_eq_ok, Except.ok.injEq, Run.out.injEq] at h
      subst h; simp [CliSuccess, List.isEmpty_iff.mp he]
    · simp only [he, Bool.false_eq_true, if_false] at h
      cases hm : (L.detectAll.mapM fun p => do return (p, ← L.listDatabases p) : M _) with
      | error e => rw [hm] at h; simp at h
      | ok found =>
        rw [hm] at h
        simp only [ok_bind, pure_eq_ok, Except.ok.injEq, Run.out.injEq] at h
        subst h
        simp only [okOut, CliSuccess, true_iff, Nat.zero_le, and_true]
        intro hn; exact he (by simp [hn])
  | noDataDir => simp only [cliRun, pure_eq_ok, Except.ok.injEq, Run.out.injEq] at h; subst h; simp [failOut, CliSuccess]
  | relmapInvalid arg => simp only [cliRun, pure_eq_ok, Except.ok.injEq, Run.out.injEq] at h; subst h; simp [failOut, CliSuccess]
  | listDb dir =>
    simp only [cliRun] at h
    cases hm : L.listDatabases dir with
    | error e => rw [hm] at h; simp at h
    | ok dbs =>
      rw [hm] at h
      simp only [ok_bind, pure_eq_ok, Except.ok.injEq, Run.out.injEq] at h
      subst h
      cases dbs with
      | nil => simp [renderListDb, CliSuccess, hm]
      | cons d t => simp [renderListDb, okOut, CliSuccess, hm]
  | control dir =>
    simp only [cliRun] at h
    cases hm : L.readControlFile dir with
    | error e => rw [hm] at h; simp at h
    | ok r =>
      rw [hm] at h
      cases r with
      | none =>
        simp only [ok_bind, pure_eq_ok, Except.ok.injEq, Run.out.injEq] at h
        subst h; simp [errOut, CliSuccess, hm]
      | some c =>
        simp only [ok_bind, pure_eq_ok, Except.ok.injEq, Run.out.injEq] at h
        subst h
        cases ht : timeInRange c.checkpointTime <;> simp [renderControl, ht, okOut, errOut, CliSuccess, hm]
  | checksum dir =>
    simp only [cliRun] at h
    cases hm : L.verifyChecksums dir with
    | error e => rw [hm] at h; simp at h
    | ok r =>
      rw [hm] at h
      cases r with
      | none =>
        simp only [ok_bind, pure_eq_ok, Except.ok.injEq, Run.out.injEq] at h
        subst h; simp [errOut, CliSuccess, hm]
      | some c =>
        simp only [ok_bind, pure_eq_ok, Except.ok.injEq, Run.out.injEq] at h
        subst h
        by_cases hi : c.invalidBlocks > 0
        · simp [hi, CliSuccess, hm]; omega
        · simp [hi, CliSuccess, hm]; omega
  | sequencesAll dir => simpa [CliSuccess] using bind_jsonOr_exit _ _ _ o h
  | sequencesDb dir db => simpa [CliSuccess] using bind_jsonOr_exit _ _ _ o h
  | relmapGlobal dir => simpa [CliSuccess] using bind_jsonOr_exit _ _ _ o h
  | relmapAll dir => simpa [CliSuccess] using bind_jsonOr_exit _ _ _ o h
  | relmapDb dir oid => simpa [CliSuccess] using bind_jsonOr_exit _ _ _ o h
  | passwords dir sel => simpa [CliSuccess] using bind_jsonOr_exit _ _ _ o h
  | wal dir => simpa [CliSuccess] using bind_jsonOr_exit _ _ _ o h
  | droppedDb _ _ => simp [cliRun] at h
  | droppedAll _ => simp [cliRun] at h
  | secrets _ _ => simp [cliRun] at h
  | search _ _ => simp [cliRun] at h
  | dump dir opts fmt =>
    cases hm : L.dumpDataDir dir opts with
    | error e => rw [cliRun_dump_fault L dir opts fmt e hm] at h; simp at h
    | ok r =>
      cases r with
      | none =>
        rw [cliRun_dump_err L dir opts fmt hm] at h
        simp only [Except.ok.injEq, Run.out.injEq] at h
        subst h; simp [errOut, CliSuccess, hm]
      | some r =>
        rw [cliRun_dump_ok L dir opts fmt r hm] at h
        simp only [Except.ok.injEq] at h
        have := renderDump_out L fmt r o h
        simp [this.1, CliSuccess, hm]
  | file path mode =>
    cases mode with
    | index => simp [cliRun] at h
    | toastVerbose => simp [cliRun] at h
    | plain =>
      simp only [cliRun, runPlain] at h
      cases hf : L.readFile path with
      | none =>
        rw [hf] at h
        simp only [pure_eq_ok, Except.ok.injEq, Run.out.injEq] at h
        subst h; simp [errOut, CliSuccess, hf]
      | some data =>
        rw [hf] at h
        simp only at h
        have key : ∀ {α} (m : M α) (f : α → Bytes), (m >>= fun x => pure (Run.out (okOut (f x)))) = .ok (.out o) → o.exit = 0 := by
          intro α m f hh
          cases m with
          | error e => simp at hh
          | ok x => simp only [ok_bind, pure_eq_ok, Except.ok.injEq, Run.out.injEq] at hh; subst hh; rfl
        have he : o.exit = 0 := by
          split at h
          · exact key _ _ h
          · split at h
            · exact key _ _ h
            · split at h
              · exact key _ _ h
              · exact key _ _ h
        simp [he, CliSuccess, hf]
    | binary r =>
      simp only [cliRun, runBinary] at h
      cases hb : (if r = [] then (pure (some none) : M (Option (Option BlockRange))) else L.parseBlockRange r) with
      | error e => rw [hb] at h; simp at h
      | ok br =>
        rw [hb] at h
        simp only [pure_eq_ok] at hb
        cases br with
        | none =>
          simp only [ok_bind, pure_eq_ok, Except.ok.injEq, Run.out.injEq] at h
          subst h
          simp only [errOut, CliSuccess, pure_eq_ok, Nat.le_refl, and_true]
          refine ⟨fun h1 => by simp at h1, fun ⟨x, hx, _⟩ => ?_⟩
          rw [hb] at hx; simp at hx
        | some br =>
          simp only [ok_bind] at h
          cases hd : L.dumpBinaryRange path br with
          | error e => rw [hd] at h; simp at h
          | ok d =>
            rw [hd] at h
            cases d with
            | none =>
              simp only [ok_bind, pure_eq_ok, Except.ok.injEq, Run.out.injEq] at h
              subst h
              simp only [errOut, CliSuccess, pure_eq_ok, Nat.le_refl, and_true]
              refine ⟨fun h1 => by simp at h1, fun ⟨x, hx, y, hy⟩ => ?_⟩
              rw [hb] at hx
              simp only [Except.ok.injEq, Option.some.injEq] at hx
              subst hx
              rw [hd] at hy; simp at hy
            | some dumps =>
              simp only [ok_bind, pure_eq_ok, Except.ok.injEq, Run.out.injEq] at h
              subst h
              simp only [okOut, CliSuccess, pure_eq_ok, true_iff, Nat.zero_le, and_true]
              exact ⟨br, hb, dumps, hd⟩
    | range r seg =>
      simp only [cliRun, runRange] at h
      cases hb : L.parseBlockRange r with
      | error e => rw [hb] at h; simp at h
      | ok br =>
        rw [hb] at h
        cases br with
        | none =>
          simp only [ok_bind, pure_eq_ok, Except.ok.injEq, Run.out.injEq] at h
          subst h; simp [errOut, CliSuccess, hb]
        | some br =>
          simp only [ok_bind] at h
          cases seg with
          | none =>
            simp only at h
            cases hd : L.dumpBlockRange path br with
            | error e => rw [hd] at h; simp at h
            | ok d =>
              rw [hd] at h
              cases d with
              | none =>
                simp only [ok_bind, pure_eq_ok, Except.ok.injEq, Run.out.injEq] at h
                subst h; simp [errOut, CliSuccess, hb, hd]
              | some bs =>
                simp only [ok_bind, pure_eq_ok, Except.ok.injEq, Run.out.injEq] at h
                subst h; simp [okOut, CliSuccess, hb, hd]
          | some s =>
            simp only at h
            cases hs : L.segmentInfo path s with
            | none =>
              rw [hs] at h
              simp only [pure_eq_ok, Except.ok.injEq, Run.out.injEq] at h
              subst h; simp [errOut, CliSuccess, hb, hs]
            | some si =>
              rw [hs] at h
              simp only at h
              cases hd : L.dumpBlockRange path br with
              | error e => rw [hd] at h; simp at h
              | ok d =>
                rw [hd] at h
                cases d with
                | none =>
                  simp only [ok_bind, pure_eq_ok, Except.ok.injEq, Run.out.injEq] at h
                  subst h; simp [CliSuccess, hb, hd]
                | some bs =>
                  simp only [ok_bind, pure_eq_ok, Except.ok.injEq, Run.out.injEq] at h
                  subst h; simp [CliSuccess, hb, hd, hs]

/-! ## where the text goes -/

/-- the run wrote an error message to stderr -/
def SaysError (o : Out) : Prop := o.stderrMore = true ∨ o.stderr ≠ []

theorem errOut_says (pre : String) : SaysError (errOut pre) ∧ (errOut pre).stdout = [] ∧ (errOut pre).exit = 1 := by
  simp [SaysError, errOut]

theorem bind_jsonOr_streams {α} (pre : String) (m : M (Option α)) (f : α → Bytes) (o : Out)
    (h : (m >>= fun r => pure (jsonOr pre r f)) = .ok (.out o)) :
    (o.exit = 0 → o.stderr = [] ∧ o.stderrMore = false) ∧ (o.exit = 1 → o.stdout = [] ∧ SaysError o) := by
  cases m with
  | error e => simp at h
  | ok r =>
    simp only [ok_bind, pure_eq_ok, Except.ok.injEq] at h
    cases r with
    | none => simp only [jsonOr, Run.out.injEq] at h; subst h; simp [errOut, SaysError]
    | some x => simp only [jsonOr, Run.out.injEq] at h; subst h; simp [okOut]

/-- C12 (command-line program), stdout vs stderr for the directory modes (every mode without `-f`; the dump modes
included; as in `C12_cli_exit` nothing is claimed for the runs `cliRun` leaves `.unrendered`: `-dropped`, `-secrets`,
`-search`, the JSON dump of a result holding a float): a successful run writes nothing to stderr; a
failed run writes an error message to stderr and nothing to stdout — except the three reports that go to STDOUT with
exit code 1: "No PostgreSQL data directories found" (`-detect`), "No databases found" (`-list-db`) and the checksum
report with invalid blocks (`-checksum`). -/
theorem C12_cli_streams (L : Lib) (a : Action) (o : Out) (h : cliRun L a = .ok (.out o)) (hf : ∀ p m, a ≠ .file p m) :
    (o.exit = 0 → o.stderr = [] ∧ o.stderrMore = false) ∧
    (o.exit = 1 → (o.stdout = [] ∧ SaysError o) ∨ a = .detect ∨ (∃ d, a = .listDb d) ∨ (∃ d, a = .checksum d)) := by
  have lift : ∀ {P : Prop}, ((o.exit = 0 → o.stderr = [] ∧ o.stderrMore = false) ∧ (o.exit = 1 → o.stdout = [] ∧ SaysError o)) →
      (o.exit = 0 → o.stderr = [] ∧ o.stderrMore = false) ∧ (o.exit = 1 → (o.stdout = [] ∧ SaysError o) ∨ P) :=
    fun hh => ⟨hh.1, fun e => Or.inl (hh.2 e)⟩
  cases a with
  | version => simp only [cliRun, pure_eq_ok, Except.ok.injEq, Run.out.injEq] at h; subst h; simp [okOut]
  | detect => exact ⟨by
      simp only [cliRun] at h
      by_cases he : L.detectAll.isEmpty = true
      · simp only [he, if_true, pure_eq_ok, Except.ok.injEq, Run.out.injEq] at h; subst h; simp
      · simp only [he, Bool.false_eq_true, if_false] at h
        cases hm : (L.detectAll.mapM fun p => do return (p, ← L.listDatabases p) : M _) with
        | error e => rw [hm] at h; simp at h
        | ok found =>
          rw [hm] at h
          simp only [ok_bind, pure_eq_ok, Except.ok.injEq, Run.out.injEq] at h
          subst h; simp [okOut], fun _ => Or.inr (Or.inl rfl)⟩
  | noDataDir =>
    simp only [cliRun, pure_eq_ok, Except.ok.injEq, Run.out.injEq] at h; subst h
    refine ⟨by simp [failOut], fun _ => Or.inl ⟨rfl, Or.inr ?_⟩⟩
    simp [failOut, noDataDirText, Txt.asc]
  | relmapInvalid arg =>
    simp only [cliRun, pure_eq_ok, Except.ok.injEq, Run.out.injEq] at h; subst h
    refine ⟨by simp [failOut], fun _ => Or.inl ⟨rfl, Or.inr ?_⟩⟩
    intro hh
    have := congrArg List.length hh
    simp [failOut, Txt.asc] at this
  | listDb dir => exact ⟨by
      simp only [cliRun] at h
      cases hm : L.listDatabases dir with
      | error e => rw [hm] at h; simp at h
      | ok dbs =>
        rw [hm] at h
        simp only [ok_bind, pure_eq_ok, Except.ok.injEq, Run.out.injEq] at h
        subst h
        cases dbs <;> simp [renderListDb, okOut], fun _ => Or.inr (Or.inr (Or.inl ⟨dir, rfl⟩))⟩
  | control dir =>
    apply lift
    simp only [cliRun] at h
    cases hm : L.readControlFile dir with
    | error e => rw [hm] at h; simp at h
    | ok r =>
      rw [hm] at h
      cases r with
      | none =>
        simp only [ok_bind, pure_eq_ok, Except.ok.injEq, Run.out.injEq] at h
        subst h; simp [errOut, SaysError]
      | some c =>
        simp only [ok_bind, pure_eq_ok, Except.ok.injEq, Run.out.injEq] at h
        subst h
        cases ht : timeInRange c.checkpointTime <;> simp [renderControl, ht, okOut, errOut, SaysError]
  | checksum dir => exact ⟨by
      simp only [cliRun] at h
      cases hm : L.verifyChecksums dir with
      | error e => rw [hm] at h; simp at h
      | ok r =>
        rw [hm] at h
        cases r with
        | none =>
          simp only [ok_bind, pure_eq_ok, Except.ok.injEq, Run.out.injEq] at h
          subst h; simp [errOut]
        | some c =>
          simp only [ok_bind, pure_eq_ok, Except.ok.injEq, Run.out.injEq] at h
          subst h; simp, fun _ => Or.inr (Or.inr (Or.inr ⟨dir, rfl⟩))⟩
  | sequencesAll dir => exact lift (bind_jsonOr_streams _ _ _ o h)
  | sequencesDb dir db => exact lift (bind_jsonOr_streams _ _ _ o h)
  | relmapGlobal dir => exact lift (bind_jsonOr_streams _ _ _ o h)
  | relmapAll dir => exact lift (bind_jsonOr_streams _ _ _ o h)
  | relmapDb dir oid => exact lift (bind_jsonOr_streams _ _ _ o h)
  | passwords dir sel => exact lift (bind_jsonOr_streams _ _ _ o h)
  | wal dir => exact lift (bind_jsonOr_streams _ _ _ o h)
  | droppedDb _ _ => simp [cliRun] at h
  | droppedAll _ => simp [cliRun] at h
  | secrets _ _ => simp [cliRun] at h
  | search _ _ => simp [cliRun] at h
  | dump dir opts fmt =>
    apply lift
    cases hm : L.dumpDataDir dir opts with
    | error e => rw [cliRun_dump_fault L dir opts fmt e hm] at h; simp at h
    | ok r =>
      cases r with
      | none =>
        rw [cliRun_dump_err L dir opts fmt hm] at h
        simp only [Except.ok.injEq, Run.out.injEq] at h
        subst h; simp [errOut, SaysError]
      | some r =>
        rw [cliRun_dump_ok L dir opts fmt r hm] at h
        simp only [Except.ok.injEq] at h
        have := renderDump_out L fmt r o h
        simp [this.1, this.2.1, this.2.2]
  | file path mode => exact absurd rfl (hf path mode)

/-- a library in which every call fails (and nothing is detected) -/
def failingLib : Lib :=
  { version := Txt.asc "dev", detectAll := [], listDatabases := fun _ => pure [], readControlFile := fun _ => pure none,
    verifyChecksums := fun _ => pure none, scanAllSequences := fun _ => pure none, findSequences := fun _ _ => pure none,
    readGlobalRelMap := fun _ => pure none, readAllRelMaps := fun _ => pure none, readDatabaseRelMap := fun _ _ => pure none,
    extractPasswords := fun _ => pure none, scanWAL := fun _ => pure none, readFile := fun _ => none,
    parsePGDatabase := fun _ => pure [], parsePGClass := fun _ => pure [], parsePGAttribute := fun _ => pure [],
    countTuples := fun _ => pure 0, parseBlockRange := fun _ => pure none, dumpBinaryRange := fun _ _ => pure none,
    segmentInfo := fun _ _ => none, dumpBlockRange := fun _ _ => pure none,
    dumpDataDir := fun _ _ => pure none, now := Txt.asc "2026-01-01T00:00:00Z",
    floatFmt := { v64 := fun _ => [], v32 := fun _ => [], j64 := fun _ => none, j32 := fun _ => none } }

/-- the hypothesis of `C12_cli_exit` is satisfiable, on both sides of the verdict -/
example : ∃ o, cliRun failingLib .version = .ok (.out o) ∧ o.exit = 0 := ⟨_, rfl, rfl⟩
example : ∃ o, cliRun failingLib (.control (Txt.asc "/data")) = .ok (.out o) ∧ o.exit = 1 ∧ o.stdout = [] := ⟨_, rfl, rfl, rfl⟩

/-! ## the dump modes -/

/-- a library whose DumpDataDir returns one database with one table of two rows -/
def exampleDump : Spec.DumpResult :=
  [{ oid := 5, name := Txt.asc "postgres",
     tables := [{ oid := 16384, name := Txt.asc "t", filenode := 16390, kind := [114],
                  columns := [⟨Txt.asc "id", Txt.asc "int4", 23⟩, ⟨Txt.asc "name", Txt.asc "text", 25⟩],
                  rows := [[(Txt.asc "id", .int 7), (Txt.asc "name", .str (Txt.asc "a<b"))],
                           [(Txt.asc "name", .nil), (Txt.asc "id", .int (-8))]],
                  rowCount := 2 }] }]

def dumpLib : Lib := { failingLib with dumpDataDir := fun _ _ => pure (some exampleDump) }

/-- **C12 (command-line program), the dump modes: filters, `-list` and the format flags select exactly what the
corresponding library options select, and stdout is exactly the rendering of what the library returned.**
For every flag record without a mode flag (`noModeFlag`: no -version, -detect, -f, -list-db, -control, -checksum,
-dropped, -sequences, -relmap, -passwords, -secrets, -search, -wal) and with a data directory `dir` — the value of `-d`,
or the detected directory when `-d` is not given —, main.go calls
`DumpDataDir(dir, {DatabaseFilter: -db, TableFilter: -t, ListOnly: -list, SkipSystemTables: true, PostgresVersion: 0})`
once, and
  * when the call returns a result `r`: the exit code is 0, stderr is empty and stdout is, byte for byte,
    `r.ToSQL` (area export's `toSQL`, with the clock reading `L.now` in its `-- Generated at:` line) if `-sql` is set,
    else `r.ToCSV` (`toCSV`) if `-csv` is set, else the two-space indented JSON text of `r` (`encodeJSON` of `dumpJV r`:
    databases, tables, columns and rows in the order of `r`, the keys of a row sorted) — unless, in the JSON case, some
    cell of `r` holds a float: then `cliRun` says `.unrendered .dump` and nothing is claimed;
  * when the call returns an error: exit code 1, nothing on stdout, "Error: " followed by the error text on stderr;
  * when the call panics, so does the program.
(Without `-v`, `-debug`; writes to stdout are assumed not to fail — see `renderDump`.)
`L` is ANY library record here; Props/C12CliDump.lean instantiates `L.dumpDataDir` with the model of the real DumpDataDir on a
file system (`C12_cli_dump_is_dumpDataDir`: the run = render (dumpDataDir fs (dumpOptions flags))) and, on the tree of a
cluster, ties stdout to `Spec.expectedDump` (`C12_cli_dump_on_cluster`). -/
theorem C12_cli_dump_output (L : Lib) (detected : Bytes) (f : Flags) (hm : C12.noModeFlag f)
    (dir : Bytes) (hdir : dir = if f.dataDir = [] then detected else f.dataDir) (hne : dir ≠ []) :
    let opts : Spec.Options :=
      { dbFilter := f.dbFilter, tableFilter := f.tableFilter, listOnly := f.listOnly, skipSystem := true, pgVersion := 0 }
    (∀ r, L.dumpDataDir dir opts = .ok (some r) →
      cliRun L (cliAction detected f) = .ok (
        if f.sqlOutput then .out { stdout := Model.Export.toSQL L.floatFmt L.now (exportDump r), stderr := [], stderrMore := false, exit := 0 }
        else if f.csvOutput then .out { stdout := Model.Export.toCSV L.floatFmt (exportDump r), stderr := [], stderrMore := false, exit := 0 }
        else match dumpJV r with
          | some v => .out { stdout := encodeJSON v, stderr := [], stderrMore := false, exit := 0 }
          | none => .unrendered .dump)) ∧
    (L.dumpDataDir dir opts = .ok none →
      cliRun L (cliAction detected f) = .ok (.out { stdout := [], stderr := Txt.asc "Error: ", stderrMore := true, exit := 1 })) ∧
    (∀ e, L.dumpDataDir dir opts = .error e → cliRun L (cliAction detected f) = .error e) := by
  intro opts
  have ha : cliAction detected f = .dump dir opts (outFormat f) := by
    by_cases hd : f.dataDir = []
    · rw [if_pos hd] at hdir
      rw [C12.C12_cli_detect detected f hm hd, if_neg (by rw [← hdir]; exact hne), ← hdir]; rfl
    · rw [if_neg hd] at hdir
      rw [C12.C12_cli_dump detected f hm hd, ← hdir]; rfl
  rw [ha]
  refine ⟨?_, ?_, ?_⟩
  · intro r hr
    rw [cliRun_dump_ok L dir opts _ r hr]
    unfold renderDump outFormat
    cases f.sqlOutput <;> cases f.csvOutput <;> simp only [Bool.false_eq_true, if_true, if_false, okOut]
    cases dumpJV r <;> rfl
  · intro hr
    rw [cliRun_dump_err L dir opts _ hr]; rfl
  · intro e hr
    exact cliRun_dump_fault L dir opts _ e hr

/-- the hypotheses of `C12_cli_dump_output` are satisfiable (`-d /data -db postgres -t T -list`), and on the example
library the run prints the JSON text of the example dump -/
example : C12.noModeFlag { dataDir := Txt.asc "/data", dbFilter := Txt.asc "postgres", tableFilter := Txt.asc "T", listOnly := true } := by
  simp [C12.noModeFlag]

/-- on the example library `pgread -d /data` exits 0 with empty stderr and prints the JSON text of the example dump -/
example : ∃ o v, cliRun dumpLib (cliAction [] { dataDir := Txt.asc "/data" }) = .ok (.out o) ∧ dumpJV exampleDump = some v ∧
    o = { stdout := encodeJSON v, stderr := [], stderrMore := false, exit := 0 } := ⟨_, _, rfl, rfl, rfl⟩

/-- the `rows` member of that text: the keys of a row sorted (the second row lists `name` first), `<` escaped as
encoding/json does, NULL as `null`, negative integers in decimal -/
example : (rowsJV [[(Txt.asc "id", .int 7), (Txt.asc "name", .str (Txt.asc "a<b"))], [(Txt.asc "name", .nil), (Txt.asc "id", .int (-8))]]).map
      (fun l => encodeJSON (.arr l)) =
    some (Txt.asc "[\n  {\n    \"id\": 7,\n    \"name\": \"a\\u003cb\"\n  },\n  {\n    \"id\": -8,\n    \"name\": null\n  }\n]\n") := by
  decide

/-- `-csv` on the same dump -/
example : ∃ o, cliRun dumpLib (cliAction [] { dataDir := Txt.asc "/data", csvOutput := true }) = .ok (.out o) ∧
    o = { stdout := Txt.asc "# Database: postgres, Table: t\nid,name\n7,a<b\n-8,\n\n", stderr := [], stderrMore := false, exit := 0 } :=
  ⟨_, rfl, by decide⟩

/-- a failing library call: exit 1, empty stdout, "Error: …" on stderr -/
example : ∃ o, cliRun failingLib (cliAction (Txt.asc "/detected") {}) = .ok (.out o) ∧
    o = { stdout := [], stderr := Txt.asc "Error: ", stderrMore := true, exit := 1 } := ⟨_, rfl, by decide⟩

/-- The JSON dump is rendered exactly for the dumps in which no cell holds a float32 / float64 (`dumpFloatFree`): for
those — in particular for every dump of the column types bool, "char", int2, int4, int8, oid, name, text, varchar,
bpchar and of dropped columns — `C12_cli_dump_output`, `C12_cli_exit` and `C12_cli_streams` speak about the JSON mode. -/
theorem C12_cli_dump_json_rendered (r : Spec.DumpResult) : (∃ v, dumpJV r = some v) ↔ dumpFloatFree r = true := by
  rw [← dumpJV_isSome]
  cases dumpJV r <;> simp

example : dumpFloatFree exampleDump = true := by decide

/-- one database, one table without declared columns, one row holding the cell `c` -/
def oneCell (v : GoVal) : Spec.DumpResult :=
  [{ oid := 5, name := [],
     tables := [{ oid := 1, name := [], filenode := 1, kind := [114], columns := [], rows := [[(Txt.asc "c", v)]], rowCount := 1 }] }]

/-- a dump with a float cell is NOT rendered in the JSON mode (and is in the `-sql` / `-csv` modes) -/
example : dumpJV (oneCell (.f64 0)) = none := by decide

/-- **The JSON text of a dump is valid JSON and denotes the dump.**  What `pgread -d DIR` prints for a dump `r` without
float cells whose strings (database, table, column and type names, relkinds, row keys, text cells) are valid UTF-8 is a
complete RFC 8259 text (neutral parser `Spec.Json.parse`) denoting the JSON value `dumpJV r`: the object
`{"databases": …}` with every database, table, column and row of `r` in order. -/
theorem C12_cli_dump_json_valid (r : Spec.DumpResult) (v : JV) (h : dumpJV r = some v) (hc : clean v = true) :
    ∃ j, Spec.Json.parse (encodeJSON v) = some j ∧ (dumpJV r).map jOf = some j :=
  ⟨jOf v, parse_encodeJSON v hc, by rw [h]; rfl⟩

/-- **The JSON text determines the dump.**  Two dumps (no float cells, strings valid UTF-8) for which `pgread -d DIR`
prints the same text have the same databases in the same order, each with the same oid, name and tables in the same
order, each table with the same oid, name, filenode, relkind, columns (name, type name, type oid, in order), row count
and rows in the same order, each row with the same cells — everything but the order in which a row's association list
names its keys (`normDump`: a Go map has none).  So no database, table, column, row or cell value the library reports
is dropped, merged or reordered by the JSON rendering. -/
theorem C12_cli_dump_json_injective (r₁ r₂ : Spec.DumpResult) (v₁ v₂ : JV) (h₁ : dumpJV r₁ = some v₁) (h₂ : dumpJV r₂ = some v₂)
    (c₁ : clean v₁ = true) (c₂ : clean v₂ = true) (h : encodeJSON v₁ = encodeJSON v₂) : normDump r₁ = normDump r₂ := by
  have e := encodeJSON_injective v₁ v₂ c₁ c₂ h
  subst e
  exact dumpJV_rel r₁ r₂ v₁ h₁ h₂

/-- the hypotheses are satisfiable: the example dump has a JSON value all of whose strings are valid UTF-8 -/
example : ∃ v, dumpJV exampleDump = some v ∧ clean v = true := ⟨_, rfl, by decide⟩

set_option maxRecDepth 20000 in
/-- outside the UTF-8 hypothesis the text does NOT determine the dump: a `name` / `"char"` cell (returned by DecodeType
as stored) holding the byte FF and one holding FE are both printed as `"\ufffd"` -/
theorem C12_cli_dump_json_invalid_utf8_lost :
    (dumpJV (oneCell (.str [0xFF]))).map encodeJSON = (dumpJV (oneCell (.str [0xFE]))).map encodeJSON := by decide

#print axioms C12_cli_exit
#print axioms C12_cli_streams
#print axioms C12_cli_dump_output
#print axioms C12_cli_dump_json_rendered
#print axioms C12_cli_dump_json_valid
#print axioms C12_cli_dump_json_injective
#print axioms C12_cli_dump_json_invalid_utf8_lost

end PgVerif.Props.C12Cli
