/-
  Generators of area `dropped`: clusters (Gen.genCluster) in which more columns have been dropped the way
  PostgreSQL drops them — the live pg_attribute row of the column is turned into the `attisdropped` row
  (atttypid 0, placeholder name, NOT NULL cleared; attlen / attalign / attbyval kept), the heap is left as it is
  (rows written before the drop keep their values).  Driver path, core only.
-/
import PgVerif.Gen.Cluster
import PgVerif.Spec.Dropped
namespace PgVerif.Gen
open PgVerif PgVerif.Spec

/-- ALTER TABLE … DROP COLUMN on one attribute row -/
def dropAttr (a : AttrRow) : AttrRow :=
  { a with name := pgDroppedName a.num, typid := 0, dropped := true, notnull := false, stattarget := 0 }

/-- drop each live user column of a user relation with probability num/den -/
def dropMoreDb (num den : Nat) (d : DbContent) : Gen DbContent := do
  let att ← d.att.mapM fun pg => pg.mapM fun (s : Stored AttrRow) => do
    if liveBits s.infomask && s.val.num > 0 && !s.val.dropped && s.val.relid ≥ 16384 then
      if ← Gen.prob num den then return { s with val := dropAttr s.val } else return s
    else return s
  return { d with att }

/-- two relations of one name (PostgreSQL: names are unique per schema only): rename the second live relation with
storage to the name of the first, in every version of its pg_class row -/
def sameNameDb (d : DbContent) : DbContent :=
  match d.cls.live.filter (fun r => r.filenode != 0 && r.oid ≥ 16384) with
  | a :: b :: _ =>
    { d with cls := d.cls.map fun pg => pg.map fun (s : Stored ClassRow) =>
        if s.val.oid == b.oid then { s with val := { s.val with name := a.name, nsp := 16000 } } else s }
  | _ => d

def genDroppedCluster (size : Nat) : Gen Cluster := do
  let c ← genCluster size
  let (num, den) ← Gen.oneOf [(0, 1), (1, 6), (1, 3), (1, 2), (1, 1)]
  let content ← c.content.mapM fun (p : Nat × DbContent) => do
    let d ← dropMoreDb num den p.2
    let d ← if ← Gen.prob 1 5 then pure (sameNameDb d) else pure d
    return (p.1, d)
  return { c with content }

end PgVerif.Gen
