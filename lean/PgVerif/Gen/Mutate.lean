/-
  Corruption operators for the malformed-input stream (C10): bit flip, byte set, truncate, extend,
  splice (overwrite a span with a copy from elsewhere, INSERT a span, DELETE a span — the last two shift
  every byte behind them), and "set a length/count/offset field to a boundary value".
  `mutate` applies a chain of operators: usually 1..maxSteps of them (short chains keep most of the valid
  structure alive), and in one case out of four a chain of 1..8 whatever `maxSteps` says, so that every
  mutation family covers the property's "sequences of 1..8 corruption operators" at every tier.
  Driver path, core only.
-/
import PgVerif.Basic.Canon
namespace PgVerif.Gen
open PgVerif

def setAt (bs : Bytes) (pos : Nat) (patch : Bytes) : Bytes :=
  if pos ≥ bs.length then bs else bs.take pos ++ (patch.take (bs.length - pos)) ++ bs.drop (pos + patch.length)

/-- boundary values for a `width`-byte field given a reference length `len` -/
def boundaryVals (width : Nat) (len : Nat) : List Nat :=
  let m := 256 ^ width
  [0, 1, 2, m - 1, m - 2, m / 2, m / 2 - 1, m / 2 + 1, len % m, (len + 1) % m, (len - 1) % m,
   8192 % m, 8191 % m, 8193 % m, 24, 23, 25, 32767 % m, 32768 % m, 16384 % m,
   -- lengths as varlena words store them (4-byte header: len<<2, 1-byte header: len<<1|1), 28- and 30-bit masks
   -- (JSONB counts / offsets, TOAST extsize), and the smallest value with the 30-bit flag set
   (4 * len) % m, (2 * len + 1) % m, 0x0FFFFFFF % m, 0x3FFFFFFF % m, 0x40000000 % m]

/-- one corruption step; `fields` = (offset, width) of length/count/offset fields worth attacking -/
def mutateOnce (fields : List (Nat × Nat)) (bs : Bytes) : Gen Bytes := do
  let n := bs.length
  match ← Gen.below 10 with
  | 0 => -- bit flip
    if n = 0 then return bs
    let p ← Gen.below n
    let b := bs.getD p 0
    return setAt bs p [b ^^^ (1 <<< (UInt8.ofNat (← Gen.below 8)))]
  | 1 => -- byte set
    if n = 0 then return bs
    let p ← Gen.below n
    return setAt bs p [← Gen.oneOf [0, 1, 2, 0x7f, 0x80, 0xfe, 0xff, 0x12, 0x40]]
  | 2 => -- truncate
    let k ← Gen.edgy 0 n
    return bs.take k
  | 3 => -- extend
    let k ← Gen.oneOf [1, 2, 7, 8, 100, 8192]
    return bs ++ (← Gen.bytes k)
  | 4 => -- splice: overwrite a span with a chunk from elsewhere (length-preserving)
    if n < 2 then return bs
    let a ← Gen.below n; let b ← Gen.below n; let l ← Gen.range 1 64
    return setAt bs b ((bs.drop a).take l)
  | 5 => -- splice: insert a span (a copy from elsewhere, or fresh bytes); everything behind it shifts
    let b ← Gen.below (n + 1)
    let l ← Gen.oneOf [1, 2, 3, 4, 7, 8, 23, 24, 64]
    let chunk ← (do if n ≥ 2 && (← Gen.bool) then (do return (bs.drop (← Gen.below n)).take l) else Gen.bytes l)
    return bs.take b ++ chunk ++ bs.drop b
  | 6 => -- splice: delete a span; everything behind it shifts
    if n = 0 then return bs
    let b ← Gen.below n
    let l ← Gen.oneOf [1, 2, 3, 4, 7, 8, 23, 24, 64]
    return bs.take b ++ bs.drop (b + l)
  | _ => -- field := boundary value (most of the weight)
    if fields.isEmpty || n = 0 then
      let p ← Gen.below (max n 1)
      return setAt bs p (← Gen.bytes 4)
    let (off, w) ← Gen.oneOf fields
    let v ← Gen.oneOf (boundaryVals w n)
    return setAt bs off (le w v)

/-- a chain of corruption steps and its length: 1..maxSteps steps in three cases out of four, 1..8 in the fourth -/
def mutateK (fields : List (Nat × Nat)) (maxSteps : Nat) (bs : Bytes) : Gen (Nat × Bytes) := do
  let k ← (do if ← Gen.prob 1 4 then Gen.range 1 8 else Gen.range 1 (max maxSteps 1))
  let mut cur := bs
  for _ in [0:k] do cur ← mutateOnce fields cur
  return (k, cur)

/-- a chain of corruption steps (see `mutateK`) -/
def mutate (fields : List (Nat × Nat)) (maxSteps : Nat) (bs : Bytes) : Gen Bytes := do
  return (← mutateK fields maxSteps bs).2

end PgVerif.Gen
