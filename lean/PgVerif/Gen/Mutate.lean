/-
  Corruption operators for the malformed-input stream (C10): bit flip, byte set, truncate, extend,
  splice, and "set a length/count/offset field to a boundary value".  Driver path, core only.
-/
import PgVerif.Basic.Canon
namespace PgVerif.Gen
open PgVerif

def setAt (bs : Bytes) (pos : Nat) (patch : Bytes) : Bytes :=
  if pos ≥ bs.length then bs else bs.take pos ++ (patch.take (bs.length - pos)) ++ bs.drop (pos + patch.length)

/-- boundary values for a `width`-byte field given a reference length `len` -/
def boundaryVals (width : Nat) (len : Nat) : List Nat :=
  let m := 256 ^ width
  [0, 1, 2, m - 1, m - 2, m / 2, m / 2 - 1, m / 2 + 1, len % m, (len + 1) % m, (len - 1) % m,
   8192 % m, 8191 % m, 8193 % m, 24, 23, 25, 32767 % m, 32768 % m, 16384 % m]

/-- one corruption step; `fields` = (offset, width) of length/count/offset fields worth attacking -/
def mutateOnce (fields : List (Nat × Nat)) (bs : Bytes) : Gen Bytes := do
  let n := bs.length
  match ← Gen.below 8 with
  | 0 => -- bit flip
    if n = 0 then return bs
    let p ← Gen.below n
    let b := bs.getD p 0
    return setAt bs p [b ^^^ (1 <<< (UInt8.ofNat (← Gen.below 8)))]
  | 1 => -- byte set
    if n = 0 then return bs
    let p ← Gen.below n
    return setAt bs p [← Gen.oneOf [0, 1, 2, 0x7f, 0x80, 0xfe, 0xff, 0x12, 0x40]]
  | 2 => -- truncate
    let k ← Gen.edgy 0 n
    return bs.take k
  | 3 => -- extend
    let k ← Gen.oneOf [1, 2, 7, 8, 100, 8192]
    return bs ++ (← Gen.bytes k)
  | 4 => -- splice a chunk from elsewhere
    if n < 2 then return bs
    let a ← Gen.below n; let b ← Gen.below n; let l ← Gen.range 1 64
    return setAt bs b ((bs.drop a).take l)
  | _ => -- field := boundary value (most of the weight)
    if fields.isEmpty || n = 0 then
      let p ← Gen.below (max n 1)
      return setAt bs p (← Gen.bytes 4)
    let (off, w) ← Gen.oneOf fields
    let v ← Gen.oneOf (boundaryVals w n)
    return setAt bs off (le w v)

/-- a chain of 1..maxSteps corruption steps -/
def mutate (fields : List (Nat × Nat)) (maxSteps : Nat) (bs : Bytes) : Gen Bytes := do
  let k ← Gen.range 1 (max maxSteps 1)
  let mut cur := bs
  for _ in [0:k] do cur ← mutateOnce fields cur
  return cur

end PgVerif.Gen
