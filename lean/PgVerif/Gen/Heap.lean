/-
  Generators of well-formed heap pages / files from the Spec types (driver path, core only).
-/
import PgVerif.Basic.Canon
import PgVerif.Spec.Heap
namespace PgVerif.Gen
open PgVerif PgVerif.Spec

/-- infomask with interesting visibility bits; `hasNull` decided by the caller -/
def genInfomask (hasNull : Bool) : Gen Nat := do
  let base ← match ← Gen.below 8 with
    | 0 => pure 0x0100            -- live (xmin committed)
    | 1 => pure 0x0900            -- live, xmax invalid
    | 2 => pure 0x0500            -- deleted (xmax committed)
    | 3 => pure 0x0300            -- frozen
    | 4 => pure 0x0200            -- aborted insert
    | 5 => pure 0x0000            -- in progress
    | 6 => pure 0x2500            -- updated + deleted
    | _ => Gen.below 65536
  let noise ← if ← Gen.prob 1 3 then Gen.below 65536 else pure 0
  let m := (base ^^^ (noise &&& 0xF0FE)) % 65536
  return if hasNull then m ||| 1 else m &&& 0xFFFE

/-- a tuple whose encoding has at most `maxLen` bytes (`maxLen ≥ 24`) -/
def genTuple (maxLen : Nat) : Gen Tuple := do
  let hasNull ← Gen.prob 1 3
  -- attribute count: the whole range 0..1600 of PostgreSQL and the rest of the 11-bit field (Tuple.WF allows 0..2047)
  let natts ← match ← Gen.below 8 with
    | 0 => pure 0
    | 1 => Gen.range 1 8
    | 2 => Gen.range 9 40
    | 3 => Gen.oneOf [1600, 255, 256, 257, 8, 16, 17, 1599, 1601, 2047, 1024]
    | 4 => Gen.range 41 254
    | 5 => Gen.oneOf [← Gen.range 258 1599, ← Gen.range 1601 2047, ← Gen.range 258 1599]
    | _ => Gen.range 1 20
  let hi ← Gen.below 32
  let infomask2 := natts + 2048 * hi
  -- a bitmap needs room in the tuple and t_hoff = MAXALIGN(23 + bitmap) must fit the one-byte field (natts ≤ 1800)
  let hasNull := hasNull && decide (23 + ((23 + (natts + 7) / 8 + 7) / 8 * 8 - 23) ≤ maxLen) &&
    decide ((23 + (natts + 7) / 8 + 7) / 8 * 8 - 23 ≤ 232)
  let bl := if hasNull then (natts + 7) / 8 else 0
  -- t_hoff = MAXALIGN(23 + bitmap); beside it every other header length Tuple.WF admits: a bare 23/24, not MAXALIGNed
  -- ones, and extra slack behind the bitmap up to t_hoff = 255
  let want := (23 + bl + 7) / 8 * 8 - 23
  let midLen ← if hasNull then
      (do match ← Gen.below 6 with
          | 0 => pure bl                                        -- no padding at all (t_hoff = 23 + bitmap)
          | 1 => Gen.range bl (max bl 232)                      -- anything up to t_hoff = 255
          | 2 => pure (want + 8 * (← Gen.below 4))
          | _ => pure want)
    else Gen.oneOf [1, 1, 1, 0, 9, 17, 25, 33, 2, 5, 193, 232, 231, ← Gen.range 0 232]
  let midLen := min midLen 232
  let midLen := if 23 + midLen > maxLen then (if hasNull then want else 0) else midLen
  let mid ← Gen.bytes midLen
  let room := maxLen - (23 + midLen)
  let dl ← match ← Gen.below 8 with
    | 0 => pure 0
    | 1 => pure room
    | _ => Gen.range 0 (min room 64)
  let dl := min dl room
  let data ← Gen.bytes dl
  let infomask ← genInfomask hasNull
  return { xmin := ← Gen.below (2^32), xmax := ← Gen.below (2^32), cid := ← Gen.below (2^32),
           ctid := ← Gen.bytes 6, infomask2, infomask, mid, data }

/-- minimal tuple (24-byte header, `data`) with a given infomask -/
def plainTuple (infomask : Nat) (natts : Nat) (data : Bytes) : Tuple :=
  { xmin := 2, xmax := 0, cid := 0, ctid := zeros 6, infomask2 := natts, infomask, mid := [0], data }

def tupleLen (t : Tuple) : Nat := 23 + t.mid.length + t.data.length

/-- lay out tuples (with junk before each) into a page with the given extra non-normal pointers -/
def mkPage (slots : List (Bytes × Tuple)) (lps : List LP) (freeLen : Nat) (version : Nat := 4) : Page :=
  let lower := 24 + 4 * lps.length
  let used := (slots.map fun s => s.1.length + tupleLen s.2).sum
  let tailLen := 8192 - lower - freeLen - used
  { hdr0 := zeros 12, special := 8192 - tailLen, version, prune := 0, lps,
    free := zeros freeLen, slots, tail := zeros tailLen }

/-- a page that has every invariant of `Page.WF` -/
def pageWF (p : Page) : Bool := decide p.WF

/-- two NORMAL pointers name the same slot (tuple storage shared: outside `Page.WF`, PostgreSQL never does that) -/
def pageHasDup (p : Page) : Bool := !decide p.normalSlots.Nodup

def blockWF : Block → Bool
  | .page p => pageWF p
  | .zero => true

def blockHasDup : Block → Bool
  | .page p => pageHasDup p
  | .zero => false

/-- `allowDup`: one case in eight gets a second NORMAL pointer to an already pointed-at slot — such a page is outside
`Page.WF` (the spec is silent about it; ParsePage reports the shared tuple once: fix heap/02).  Generators of
well-formed pages (the default) never do that. -/
def genPage (size : Nat) (allowDup : Bool := false) : Gen Page := do
  let nSlots ← match ← Gen.below 12 with
    | 0 => pure 0
    | 1 | 2 => pure 1
    | 3 | 4 => Gen.range 2 (4 + size)
    | 5 | 6 => Gen.range 1 (20 + 4 * size)
    | _ => Gen.range 1 (6 + size)
  let nOther ← match ← Gen.below 3 with
    | 0 => pure 0
    | _ => Gen.range 0 (3 + size)
  let mut budget := 8192 - 24 - 4 * (nSlots + nOther + 2)
  let mut slots : Array (Bytes × Tuple) := #[]
  for _ in [0:nSlots] do
    if budget ≥ 32 then
      let junkLen ← if ← Gen.prob 1 4 then Gen.range 1 7 else pure 0
      let junk ← Gen.bytes junkLen
      let cap ← match ← Gen.below 10 with
        | 0 => pure (budget - junkLen)
        | _ => pure (min (budget - junkLen) (24 + 80))
      let cap := min cap 32000
      let t ← genTuple cap
      budget := budget - junkLen - tupleLen t
      slots := slots.push (junk, t)
  let k := slots.size
  -- pointers: one NORMAL per slot (sometimes a duplicate), plus other states, shuffled
  let mut lps : Array LP := #[]
  for i in [0:k] do lps := lps.push (.normal i)
  if k > 0 then
    if ← Gen.prob 1 8 then
      let d ← Gen.below k
      if allowDup then
        lps := lps.push (.normal d)
        -- sometimes a whole run of aliases of the same slot
        if ← Gen.prob 1 4 then
          let extra := min (← Gen.range 1 (8 + 8 * size)) (budget / 4)    -- `budget` = bytes still free in the page
          for _ in [0:extra] do lps := lps.push (.normal d)
  for _ in [0:nOther] do
    let fl ← Gen.oneOf [0, 2, 3]
    let off ← if ← Gen.prob 1 2 then pure 0 else Gen.below 32768
    let len ← if ← Gen.prob 1 2 then pure 0 else Gen.below 32768
    lps := lps.push (.other off fl len)
  let lpl ← Gen.shuffle lps.toList
  let lower := 24 + 4 * lpl.length
  let used := (slots.toList.map fun s => s.1.length + tupleLen s.2).sum
  let slack := 8192 - lower - used
  -- split the slack between free space and tail; boundaries are frequent
  let freeLen ← match ← Gen.below 4 with
    | 0 => pure 0
    | 1 => pure slack
    | _ => Gen.range 0 slack
  let version ← if ← Gen.prob 1 6 then Gen.range 1 10 else pure 4
  let p := mkPage slots.toList lpl freeLen version
  let hdr0 ← Gen.bytes 12
  let garbageFree ← Gen.prob 1 4
  let free ← if garbageFree then Gen.bytes freeLen else pure (zeros freeLen)
  let tail ← if ← Gen.prob 1 3 then Gen.bytes p.tail.length else pure p.tail
  return { p with hdr0, free, tail, prune := ← Gen.below (2^32) }

/-- one line pointer and the largest tuple that fits a page: 8192 − 24 − 4 = 8164 bytes, ending exactly at 8192 -/
def genMaxTuplePage : Gen Page := do
  let hasNull ← Gen.bool
  let natts ← Gen.oneOf [1, 8, 40, 1600]
  let bl := if hasNull then (natts + 7) / 8 else 0
  let midLen := (23 + bl + 7) / 8 * 8 - 23
  let t : Tuple := { xmin := ← Gen.below (2^32), xmax := ← Gen.below (2^32), cid := ← Gen.below (2^32), ctid := ← Gen.bytes 6,
                     infomask2 := natts, infomask := ← genInfomask hasNull, mid := ← Gen.bytes midLen,
                     data := ← Gen.bytes (8164 - 23 - midLen) }
  return mkPage [([], t)] [.normal 0] 0

/-- MaxHeapTuplesPerPage = 291 line pointers, each to its own minimal (24-byte) tuple: (8192 − 24) / (24 + 4) = 291 -/
def genFullPointerPage : Gen Page := do
  let n ← Gen.oneOf [291, 291, 290, 256, ← Gen.range 200 291]
  let mut slots : Array (Bytes × Tuple) := #[]
  for _ in [0:n] do
    slots := slots.push ([], { xmin := 3, xmax := 0, cid := 0, ctid := zeros 6, infomask2 := 0, infomask := ← genInfomask false, mid := [0], data := [] })
  let lps ← Gen.shuffle ((List.range n).map LP.normal)
  let slack := 8192 - 24 - 4 * n - 24 * n
  return mkPage slots.toList lps (← Gen.oneOf [0, slack])

def genBlock (size : Nat) (allowDup : Bool := false) : Gen Block := do
  match ← Gen.below 28 with
  | 0 | 1 | 2 | 3 => return .zero
  | 4 => return .page (← genMaxTuplePage)
  | 5 => if size ≥ 3 then return .page (← genFullPointerPage) else return .page (← genPage size allowDup)
  | _ => return .page (← genPage size allowDup)

def genHeap (size : Nat) (allowDup : Bool := false) : Gen (List Block × Bytes) := do
  let n ← match ← Gen.below 12 with
    | 0 => pure 0
    | 1 | 2 => pure 1
    | 3 => Gen.range 1 (min 12 (2 + 2 * size))
    | _ => Gen.range 1 (2 + size)
  let bs ← Gen.listOf n (genBlock size allowDup)
  let tl ← match ← Gen.below 4 with
    | 0 => Gen.range 1 8191
    | 1 => Gen.oneOf [8191, 1, 24, 4096]
    | _ => pure 0
  let tail ← Gen.bytes tl
  return (bs, tail)

end PgVerif.Gen
