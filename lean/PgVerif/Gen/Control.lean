/-
  Generators of pg_control data, sequence pages and relation maps from the Spec types
  (driver path, core only).  Boundary-heavy; every field from its full range.
-/
import PgVerif.Basic.Canon
import PgVerif.Spec.Control
import PgVerif.Spec.Sequence
import PgVerif.Spec.Relmap
import PgVerif.Spec.Crc
namespace PgVerif.Gen
open PgVerif PgVerif.Spec

/-- an unsigned `bits`-bit value, biased to the boundaries -/
def genU (bits : Nat) : Gen Nat := do
  match ← Gen.below 10 with
  | 0 => pure 0
  | 1 => pure 1
  | 2 => pure (2 ^ bits - 1)
  | 3 => pure (2 ^ (bits - 1))
  | 4 => pure (2 ^ (bits - 1) - 1)
  | 5 => Gen.below 1000
  | 6 => do let k ← Gen.below bits; pure (2 ^ k)
  | _ => do
    let hi ← Gen.below (2 ^ 32)
    let lo ← Gen.below (2 ^ 32)
    pure ((hi * 2 ^ 32 + lo) % 2 ^ bits)

/-- a signed 64-bit value, biased to the boundaries -/
def genI64 : Gen Int := do
  match ← Gen.below 8 with
  | 0 => pure 0
  | 1 => pure (-1)
  | 2 => pure (2 ^ 63 - 1)
  | 3 => pure (-(2 ^ 63))
  | 4 => do return (← Gen.below 100000 : Nat)
  | 5 => do return -((← Gen.below 100000 : Nat) : Int)
  | _ => do return toSigned 64 (← genU 64)

def genTime : Gen Int := do
  match ← Gen.below 12 with
  | 0 => pure 0
  | 1 => pure (-1)
  | 2 => pure 253402300799         -- 9999-12-31T23:59:59Z
  | 3 => pure 253402300800
  | 4 => pure (-62135596800)       -- 0001-01-01T00:00:00Z
  | 5 => pure (-62135596801)
  | 6 => genI64
  | 7 => pure 951782400            -- 2000-02-29
  | 8 => pure 4107542399           -- 2100-02-28T23:59:59Z
  | _ => do return (1500000000 + (← Gen.below 400000000) : Nat)

def genState : Gen Int := do
  match ← Gen.below 10 with
  | 0 => Gen.oneOf [7, -1, 99, 2 ^ 31 - 1, -(2 ^ 31), 256, 8]
  | _ => do return (← Gen.below 7 : Nat)

def genLimit (lo typical : Nat) : Gen Nat := do
  match ← Gen.below 8 with
  | 0 => pure lo
  | 1 => pure typical
  | 2 => pure (2 ^ 31 - 1)
  | 3 => Gen.oneOf [1000, 1001, 10000, 10001, 262143, 0, 1]
  | 4 => Gen.range lo 262143
  | _ => Gen.range lo (typical * 4 + 4)

def typicalControl : ControlData :=
  { systemIdentifier := 7123456789012345678, pgControlVersion := 1300, catalogVersionNo := 202307071,
    state := 6, time := 1700000000, checkPoint := 0x16B3D98, redo := 0x16B3D60, thisTLI := 1, prevTLI := 1,
    fullPageWrites := true, nextXid := 745, nextXidEpoch := 0, nextOid := 24576, nextMulti := 1,
    nextMultiOffset := 0, oldestXid := 722, oldestXidDB := 1, oldestMulti := 1, oldestMultiDB := 1,
    cpTime := 1700000000, oldestCommitTsXid := 0, newestCommitTsXid := 0, oldestActiveXid := 745,
    unloggedLSN := 1000, minRecoveryPoint := 0, minRecoveryPointTLI := 0, backupStartPoint := 0,
    backupEndPoint := 0, backupEndRequired := false, walLevel := 1, walLogHints := false,
    maxConnections := 100, maxWorkerProcesses := 8, maxWalSenders := 10, maxPreparedXacts := 0,
    maxLocksPerXact := 64, trackCommitTimestamp := false, maxAlign := 8, floatFormat := floatFormatBits,
    blcksz := 8192, relsegSize := 131072, xlogBlcksz := 8192, xlogSegSize := 16777216, nameDataLen := 64,
    indexMaxKeys := 32, toastMaxChunkSize := 1996, loblksize := 2048, byVal0 := true, byVal1 := false,
    dataChecksumVersion := 0, nonce := 0x0102030405060708090a0b0c0d0e0f101112131415161718191a1b1c1d1e1f20 }

def genControl : Gen ControlData := do
  let typicalSettings ← Gen.prob 1 3
  let nonceBytes ← Gen.bytes 32
  let c : ControlData :=
  { systemIdentifier := ← genU 64
    pgControlVersion := ← (do if ← Gen.prob 2 3 then Gen.oneOf [1201, 1300] else genU 32)
    catalogVersionNo := ← (do if ← Gen.prob 2 3 then Gen.oneOf [201909212, 202007201, 202107181, 202209061, 202307071] else genU 32)
    state := ← genState
    time := ← genTime
    checkPoint := ← genU 64
    redo := ← genU 64
    thisTLI := ← (do if ← Gen.prob 1 2 then Gen.range 1 3 else genU 32)
    prevTLI := ← (do if ← Gen.prob 1 2 then Gen.range 1 3 else genU 32)
    fullPageWrites := ← Gen.bool
    nextXid := ← genU 32
    nextXidEpoch := ← (do if ← Gen.prob 1 2 then pure 0 else genU 32)
    nextOid := ← genU 32
    nextMulti := ← genU 32
    nextMultiOffset := ← genU 32
    oldestXid := ← genU 32
    oldestXidDB := ← genU 32
    oldestMulti := ← genU 32
    oldestMultiDB := ← genU 32
    cpTime := ← genTime
    oldestCommitTsXid := ← genU 32
    newestCommitTsXid := ← genU 32
    oldestActiveXid := ← genU 32
    unloggedLSN := ← genU 64
    minRecoveryPoint := ← genU 64
    minRecoveryPointTLI := ← genU 32
    backupStartPoint := ← genU 64
    backupEndPoint := ← genU 64
    backupEndRequired := ← Gen.bool
    walLevel := ← Gen.below 3
    walLogHints := ← Gen.bool
    maxConnections := ← (do if typicalSettings then pure 100 else genLimit 1 100)
    maxWorkerProcesses := ← (do if typicalSettings then pure 8 else genLimit 0 8)
    maxWalSenders := ← (do if typicalSettings then pure 10 else genLimit 0 10)
    maxPreparedXacts := ← genLimit 0 0
    maxLocksPerXact := ← genLimit 10 64
    trackCommitTimestamp := ← Gen.bool
    maxAlign := ← (do if ← Gen.prob 3 4 then pure 8 else genU 32)
    floatFormat := ← (do match ← Gen.below 6 with
      | 0 => genU 64
      | 1 => Gen.oneOf [floatFormatBits + 1, floatFormatBits - 1, 0, 0x4132D687, 0x8700000000000000 + 0x4132D6]
      | _ => pure floatFormatBits)
    blcksz := ← Gen.oneOf legalBlockSizes
    relsegSize := ← (do match ← Gen.below 4 with
      | 0 => Gen.oneOf [1, 8, 8192, 2 ^ 32 - 1, 32768, 1048576]
      | 1 => Gen.range 1 (2 ^ 32 - 1)
      | _ => pure 131072)
    xlogBlcksz := ← Gen.oneOf legalXlogBlockSizes
    xlogSegSize := ← Gen.oneOf legalSegSizes
    nameDataLen := ← (do if ← Gen.prob 3 4 then pure 64 else genU 32)
    indexMaxKeys := ← (do if ← Gen.prob 3 4 then pure 32 else genU 32)
    toastMaxChunkSize := ← (do if ← Gen.prob 3 4 then pure 1996 else genU 32)
    loblksize := ← (do if ← Gen.prob 3 4 then pure 2048 else genU 32)
    byVal0 := ← Gen.bool
    byVal1 := ← Gen.bool
    dataChecksumVersion := ← (do match ← Gen.below 8 with
      | 0 => Gen.oneOf [256, 2 ^ 32 - 1, 2, 65536, 2 ^ 31]
      | 1 | 2 | 3 => pure 1
      | _ => pure 0)
    nonce := rd 32 nonceBytes }
  return c

/-- deterministic boundary cases: every state, every legal size combination, wal levels, extremes -/
def boundaryControls : List ControlData :=
  let t := typicalControl
  [t] ++
  ([0, 1, 2, 3, 4, 5, 6, 7, -1, 99, 2 ^ 31 - 1, -(2 ^ 31)].map fun s => { t with state := s }) ++
  ([0, 1, 2].map fun w => { t with walLevel := w }) ++
  (legalBlockSizes.map fun b => { t with blcksz := b, loblksize := b / 4 }) ++
  (legalXlogBlockSizes.map fun b => { t with xlogBlcksz := b }) ++
  (legalSegSizes.flatMap fun s =>
    [{ t with xlogSegSize := s, redo := 0x6_9300F358, thisTLI := 3 },
     { t with xlogSegSize := s, redo := 2 ^ 64 - 1, thisTLI := 2 ^ 32 - 1 },
     { t with xlogSegSize := s, redo := 2 ^ 32, thisTLI := 1 }]) ++
  [{ t with dataChecksumVersion := 1 }, { t with maxWorkerProcesses := 0 }, { t with maxConnections := 10001 },
   { t with maxConnections := 262143, maxWalSenders := 0 }, { t with maxLocksPerXact := 2 ^ 31 - 1 },
   { t with relsegSize := 8 }, { t with oldestActiveXid := 111, oldestCommitTsXid := 222, newestCommitTsXid := 333 },
   { t with cpTime := 2 ^ 63 - 1, time := -(2 ^ 63) }, { t with checkPoint := 2 ^ 64 - 1, redo := 2 ^ 63 },
   { t with systemIdentifier := 2 ^ 64 - 1, nextXidEpoch := 2 ^ 32 - 1, nextXid := 2 ^ 32 - 1 },
   { t with floatFormat := 0 }, { t with fullPageWrites := false, walLogHints := true, trackCommitTimestamp := true }]

/-! ### sequences -/

/-- last_value: the whole int64 range, with the values whose low 32 bits are 20, 21 or 23 over-represented -/
def genLastValue : Gen Int := do
  match ← Gen.below 6 with
  | 0 => do
    let lo ← Gen.oneOf [20, 21, 23]
    let hi ← (do match ← Gen.below 4 with
      | 0 => pure 0
      | 1 => Gen.oneOf [1, 2 ^ 31 - 1, 2 ^ 31, 2 ^ 32 - 1]
      | _ => Gen.below (2 ^ 32))
    pure (toSigned 64 (hi * 2 ^ 32 + lo))
  | 1 => Gen.oneOf [1, 0, -1, 2 ^ 63 - 1, -(2 ^ 63), 2 ^ 63 - 2, -(2 ^ 63) + 1, 19, 22, 24, 2 ^ 31 - 1, 2 ^ 31, 2 ^ 32, 32767, 100]
  | 2 => do return (← Gen.below 1000 : Nat)
  | _ => genI64

def genSeqPage : Gen SeqPage := do
  let midLen ← (do match ← Gen.below 5 with
    | 0 => Gen.oneOf [0, 9, 17, 25, 232]
    | 1 => Gen.range 0 25
    | _ => pure 1)
  return { st := { lastValue := ← genLastValue
                   logCnt := ← (do if ← Gen.prob 3 4 then (do let k ← Gen.range 0 32; pure (k : Int)) else genI64)
                   isCalled := ← Gen.bool }
           hdr0 := ← Gen.bytes 12, prune := ← (do if ← Gen.prob 3 4 then pure 0 else genU 32)
           xmin := ← genU 32, xmax := ← genU 32, cid := ← genU 32, ctid := ← Gen.bytes 6
           infomask2 := 3 + 2048 * (← Gen.below 32), infomask := ← Gen.below 65536
           mid := ← Gen.bytes midLen }

def plainSeqPage (lastValue : Int) (isCalled : Bool) (midLen : Nat := 1) : SeqPage :=
  { st := ⟨lastValue, 0, isCalled⟩, hdr0 := zeros 12, prune := 0, xmin := 2, xmax := 0, cid := 0,
    ctid := [0, 0, 0, 0, 1, 0], infomask2 := 3, infomask := 0x0900, mid := zeros midLen }

/-- exhaustive prefix: low word 20/21/23 × several high words, ±2^63 boundaries, both flags -/
def boundarySeqPages : List SeqPage :=
  ([20, 21, 23].flatMap fun lo => [0, 1, 2, 2 ^ 31 - 1, 2 ^ 31, 2 ^ 32 - 1, 0x12345678].flatMap fun hi =>
    [plainSeqPage (toSigned 64 (hi * 2 ^ 32 + lo)) true, plainSeqPage (toSigned 64 (hi * 2 ^ 32 + lo)) false]) ++
  ([2 ^ 63 - 1, -(2 ^ 63), 2 ^ 63 - 2, -(2 ^ 63) + 1, 0, 1, -1, 19, 22, 24, 2 ^ 32 + 19].flatMap fun v =>
    [plainSeqPage v true, plainSeqPage v false]) ++
  ([0, 1, 9, 17, 25, 33, 232].map fun m => plainSeqPage 42 true m)

/-! ### relation maps -/

def knownOids : List Nat := [1213, 1247, 1249, 1255, 1259, 1260, 1261, 1262, 2396, 2847, 2964, 3592, 3602, 6000, 6100]

/-- a map with `n` mappings in a layout with `mx` slots and `padLen` padding bytes -/
def genRelMapIn (mx padLen n : Nat) : Gen RelMap := do
  let pool ← Gen.listOf 4 (genU 32)
  let ms ← Gen.listOf n (do
    let oid ← (do match ← Gen.below 4 with
      | 0 => Gen.oneOf knownOids
      | 1 => Gen.oneOf pool
      | 2 => Gen.range 1 20000
      | _ => genU 32)
    let fn ← (do match ← Gen.below 4 with
      | 0 => pure oid
      | 1 => Gen.oneOf pool
      | _ => genU 32)
    pure (oid, fn))
  let unused ← (do if ← Gen.prob 2 3 then pure (zeros (8 * (mx - n))) else Gen.bytes (8 * (mx - n)))
  return { mappings := ms, unused, crc := ← genU 32, pad := ← (do if ← Gen.prob 2 3 then pure (zeros padLen) else Gen.bytes padLen) }

/-- PostgreSQL 12–15 layout (62 slots, 4 bytes of padding) -/
def genRelMapN (n : Nat) : Gen RelMap := genRelMapIn 62 4 n

/-- PostgreSQL 16 layout (64 slots, no padding) -/
def genRelMap16N (n : Nat) : Gen RelMap := genRelMapIn 64 0 n

def genRelMap : Gen RelMap := do
  let n ← (do match ← Gen.below 5 with
    | 0 => Gen.oneOf [0, 1, 61, 62]
    | 1 => Gen.range 15 50
    | _ => Gen.range 0 62)
  genRelMapN n

def genRelMap16 : Gen RelMap := do
  let n ← (do match ← Gen.below 5 with
    | 0 => Gen.oneOf [0, 1, 62, 63, 64]
    | 1 => Gen.range 15 50
    | _ => Gen.range 0 64)
  genRelMap16N n

/-- the same map with the crc PostgreSQL would store: the CRC-32C of the bytes before it -/
def withTrueCrc (m : RelMap) : RelMap :=
  { m with crc := crc32c ((encRelMap m).take (8 + (m.mappings.flatMap encMapping).length + m.unused.length)) }

end PgVerif.Gen
