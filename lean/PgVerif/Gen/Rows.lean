/-
  Generators of schemas, rows (every physical datum form), heap files of row versions and pg_authid
  contents from the Spec types (driver path, core only).
-/
import PgVerif.Basic.Canon
import PgVerif.Spec.Rows
import PgVerif.Model.Rows
import PgVerif.Gen.Heap
import PgVerif.Gen.Mutate
import PgVerif.Gen.Toast
namespace PgVerif.Gen
open PgVerif PgVerif.Spec

/-- every (attlen, attalign) pair PostgreSQL's built-in types have, plus the rarer varlena alignments -/
def layoutClasses : List (Int × Nat) :=
  [(1, 1), (2, 2), (4, 4), (8, 8), (6, 2), (6, 4), (8, 4), (12, 8), (12, 4), (16, 8), (16, 1), (24, 8), (32, 8), (64, 1),
   (-1, 4), (-1, 8), (-1, 4), (-1, 1), (-1, 2), (-2, 1)]

/-- type oids outside every table of the tool (decodeScalar's default branch) -/
def unknownOids : List Int := [0, 0, 99999, 16385, 5001, 70000]

/-- type oids the local decoder models, by attlen -/
def typidsFor (len : Int) : List Int :=
  if len = 1 then [16, 18, 0]
  else if len = 2 then [21, 0]
  else if len = 4 then [23, 26, 0]
  else if len = 8 then [20, 0, 99999]
  else if len = 64 then [19, 0]
  else if len = -1 then [25, 1043, 1042, 0, 99999, 142, 17, 2970, 5038]
  else unknownOids

def colName (i : Nat) : Bytes := strBytes s!"c{i}"

def genCol (i : Nat) : Gen Col := do
  let (len, al) ← Gen.oneOf layoutClasses
  let typid ← Gen.oneOf (typidsFor len)
  return ⟨colName i, typid, len, al⟩

def genPayload (n : Nat) : Gen Bytes := do
  match ← Gen.below 4 with
  | 0 => Gen.bytes n                                             -- arbitrary bytes (invalid UTF-8 included)
  | 1 => Gen.listOf n (do return UInt8.ofNat (← Gen.range 32 126))
  | 2 => Gen.listOf n (Gen.oneOf [0, 1, 0x12, 0xff, 0x80, 0x41])  -- bytes that look like headers / padding
  | _ => Gen.listOf n (do return UInt8.ofNat (← Gen.range 1 255))

/-- a compressed stream: pglz with every tag form (2- and 3-byte tags, lengths 3..273, offsets 1..4095, overlapping
copies) or an LZ4 block (token nibbles 15 with extension bytes, 2-byte offsets) — the toast area's stream generators -/
def genComp : Gen Comp := do
  let n ← match ← Gen.below 4 with
    | 0 => Gen.oneOf [4, 5, 18, 19, 33, 100]
    | 1 => Gen.range 32 260
    | _ => Gen.range 4 60
  if ← Gen.prob 2 5 then return .lz4 (← Toast.genLz4Block n)
  else return .pglz (← Toast.genPglzToks n)

/-- an inline-compressed datum, or (stream too long for a row, or fewer than 4 stream bytes) the value stored plain -/
def genCompDatum (c : Col) : Gen Datum := do
  let z ← genComp
  if decide ((Datum.compressed z).WF c) ∧ z.stored.length ≤ 140 then return .compressed z
  else return .long (z.original.take 100)

def genDatum (c : Col) : Gen Datum := do
  if c.len > 0 then
    if c.typid = 19 then
      let n ← Gen.edgy 0 63
      let p ← Gen.listOf n (do return UInt8.ofNat (← Gen.range 1 255))
      return .fixed (p ++ zeros (c.len.toNat - n))
    return .fixed (← genPayload c.len.toNat)
  else if c.len = -1 then
    match ← Gen.below 10 with
    | 0 => return .external (← Gen.bytes 16)
    | 1 => genCompDatum c
    | 2 | 3 | 4 =>
      let n ← match ← Gen.below 4 with
        | 0 => Gen.oneOf [0, 1, 4, 12, 60, 124, 252, 127, 126]   -- total length 64k (first header byte 0), '' …
        | _ => Gen.range 0 140
      return .long (← genPayload n)
    | _ =>
      let n ← match ← Gen.below 4 with
        | 0 => Gen.oneOf [0, 1, 126, 125, 2]
        | _ => Gen.range 0 40
      return .short (← genPayload n)
  else
    let n ← Gen.edgy 0 20
    return .cstr (← Gen.listOf n (do return UInt8.ofNat (← Gen.range 1 255)))

def genRow (cols : List Col) : Gen RowV := do
  let nullRate ← Gen.oneOf [0, 0, 1, 2, 4, 7]
  let mut vals : Array (Option Datum) := #[]
  for c in cols do
    if (← Gen.below 8) < nullRate then vals := vals.push none
    else vals := vals.push (some (← genDatum c))
  let natts ← match ← Gen.below 6 with
    | 0 => Gen.range 0 cols.length
    | 1 => pure (cols.length - 1)
    | _ => pure cols.length
  return { vals := vals.toList, natts, infomask := ← genInfomask false }

def genSchema (size : Nat) : Gen (List Col) := do
  let n ← match ← Gen.below 6 with
    | 0 => pure 1
    | 1 => Gen.range 1 3
    | 2 => Gen.range 30 40
    | _ => Gen.range 1 (6 + 3 * size)
  let n := min n 40
  let mut cols : Array Col := #[]
  for i in [0:n] do cols := cols.push (← genCol i)
  return cols.toList

def alignChar (a : Nat) : Nat := if a = 1 then 99 else if a = 2 then 115 else if a = 4 then 105 else 100

/-- the catalog entry handed to the tool: Num explicit or 0, Align as the catalog char or — when the tool's
fallback table gives the same alignment — sometimes 0 -/
def toModelCols (cols : List Col) : Gen (List Model.Column) := do
  let mut out : Array Model.Column := #[]
  let mut i := 0
  for c in cols do
    let num : Int := if ← Gen.prob 1 4 then 0 else (i : Int) + 1
    -- "their type's alignment": a type PostgreSQL defines may be left to the tool's table iff the column really has
    -- that type's alignment; for oids nobody knows, only when the tool's guess by length happens to be right
    let fallbackOk := match (if c.typid < 0 then none else Spec.pgTypAlign.lookup c.typid.toNat) with
      | some a => a == c.align
      | none => Model.typeAlign c.typid c.len == c.align
    let al := if fallbackOk && (← Gen.prob 1 3) then 0 else alignChar c.align
    out := out.push ⟨c.name, c.typid, c.len, num, al⟩
    i := i + 1
  return out.toList

/-- every column left to the tool's fallback table -/
def align0ModelCols (cols : List Col) : List Model.Column :=
  cols.zipIdx.map fun (c, i) => ⟨c.name, c.typid, c.len, (i : Int) + 1, 0⟩

def plainModelCols (cols : List Col) : List Model.Column :=
  cols.zipIdx.map fun (c, i) => ⟨c.name, c.typid, c.len, (i : Int) + 1, alignChar c.align⟩

/-! ### exhaustive small schemas: 10 layout classes, every state of every column -/

/-- (attlen, attalign, typid) of the 10 layout classes of the exhaustive family -/
def exhClasses : List (Int × Nat × Int) :=
  [(1, 1, 16), (2, 2, 21), (4, 4, 23), (8, 8, 20), (6, 2, 0), (16, 1, 0), (12, 8, 0), (-1, 4, 25), (-1, 8, 0), (-2, 1, 0)]

/-- number of states of a column of class `k`: fixed/cstr: NULL, value; varlena: NULL, short, long, external,
empty short, compressed -/
def exhStates (k : Nat) : Nat := if k = 7 ∨ k = 8 then 6 else 2

/-- all (class, state) options of one column -/
def exhOptions : List (Nat × Nat) :=
  (List.range 10).flatMap fun k => (List.range (exhStates k)).map fun s => (k, s)

def exhDatum (k s i : Nat) : Option Datum :=
  let (len, _, _) := exhClasses.getD k default
  let b : UInt8 := UInt8.ofNat (0x41 + i)
  if s = 0 then none
  else if len > 0 then some (.fixed (List.replicate len.toNat b))
  else if len = -2 then some (.cstr [b, b])
  else match s with
    | 1 => some (.short [b, b])
    | 2 => some (.long [b, b, b, b, b])
    | 3 => some (.external (List.replicate 16 b))
    | 4 => some (.short [])
    | _ => some (.compressed (.pglz [.lit b, .mat 1 8]))   -- 9 × b: control byte 02, b, tag 05 01

/-- row `code` of the exhaustive enumeration for `n` columns: per column a digit in base |options|, then a
variant digit: 0..7 = leading spacer of that many bytes with all attributes stored, 8.. = natts 0..n−1 -/
def exhRow (n code : Nat) : List Col × RowV :=
  let nopt := exhOptions.length
  let digits := (List.range n).map fun i => (code / nopt ^ i) % nopt
  let variant := (code / nopt ^ n) % (8 + n)
  let cols := digits.zipIdx.map fun (d, i) =>
    let (k, _) := exhOptions.getD d default
    let (len, al, typid) := exhClasses.getD k default
    (⟨colName i, typid, len, al⟩ : Col)
  let vals := digits.zipIdx.map fun (d, i) =>
    let (k, s) := exhOptions.getD d default
    exhDatum k s i
  let spacer := if variant < 8 then variant else 0
  let natts := if variant < 8 then n else variant - 8
  if spacer = 0 then (cols, { vals, natts, infomask := 0x0900 })
  else
    let sp : Col := ⟨strBytes "sp", 0, -2, 1⟩
    (sp :: cols, { vals := some (.cstr (List.replicate (spacer - 1) 0x7a)) :: vals, natts := natts + 1, infomask := 0x0900 })

def exhCount (n : Nat) : Nat := exhOptions.length ^ n * (8 + n)

/-! ### heap files of row versions -/

/-- pages of row versions: slot k of a page holds version k; pointers shuffled with other states mixed in.
Returns the blocks and, per block, the versions in pointer order. -/
def genRowPage (cols : List Col) (size : Nat) : Gen (Page × List RowV) := do
  let nSlots ← match ← Gen.below 5 with
    | 0 => pure 0
    | 1 => pure 1
    | _ => Gen.range 1 (4 + 2 * size)
  let mut budget := 8192 - 24 - 4 * (nSlots + 4)
  let mut slots : Array (Bytes × Tuple) := #[]
  let mut vers : Array RowV := #[]
  for _ in [0:nSlots] do
    let r ← genRow cols
    let t := formTuple cols r
    let junkLen := (8 - tupleLen t % 8) % 8
    if tupleLen t + junkLen ≤ budget then
      budget := budget - tupleLen t - junkLen
      slots := slots.push (zeros junkLen, t)
      vers := vers.push r
  let mut lps : Array LP := #[]
  for i in [0:slots.size] do lps := lps.push (.normal i)
  let nOther ← Gen.below 3
  for _ in [0:nOther] do
    lps := lps.push (.other (← Gen.below 8192) (← Gen.oneOf [0, 2, 3]) (← Gen.below 100))
  let lpl ← Gen.shuffle lps.toList
  let lower := 24 + 4 * lpl.length
  let used := (slots.toList.map fun s => s.1.length + tupleLen s.2).sum
  let slack := 8192 - lower - used
  let freeLen ← Gen.oneOf [0, slack, slack / 2]
  let p := mkPage slots.toList lpl freeLen
  let order := lpl.filterMap fun | .normal k => vers[k]? | .other .. => none
  return (p, order)

def genRowHeap (cols : List Col) (size : Nat) : Gen (List Block × List (Nat × RowV)) := do
  let n ← match ← Gen.below 4 with
    | 0 => pure 1
    | _ => Gen.range 1 (1 + size)
  let mut blocks : Array Block := #[]
  let mut vers : Array (Nat × RowV) := #[]
  for i in [0:n] do
    if ← Gen.prob 1 8 then blocks := blocks.push .zero
    else
      let (p, order) ← genRowPage cols size
      blocks := blocks.push (.page p)
      for r in order do vers := vers.push (8192 * i, r)
  return (blocks.toList, vers.toList)

/-! ### pg_authid -/

def md5Like : Gen Bytes := do
  return strBytes "md5" ++ (← Gen.listOf 32 (do return (strBytes "0123456789abcdef").getD (← Gen.below 16) 0x30))

def scramLike : Gen Bytes := do
  let b64 := strBytes "ABCDEFGHIJKLMNOPQRSTUVWXYZabcdefghijklmnopqrstuvwxyz0123456789+/"
  let r (n : Nat) : Gen Bytes := Gen.listOf n (do return b64.getD (← Gen.below 64) 0x41)
  return strBytes "SCRAM-SHA-256$4096:" ++ (← r 22) ++ strBytes "==$" ++ (← r 43) ++ strBytes "=:" ++ (← r 43) ++ strBytes "="

def genRole (k : Nat) : Gen Role := do
  let nl ← match ← Gen.below 4 with
    | 0 => Gen.oneOf [1, 63, 62, 2]
    | _ => Gen.range 1 20
  let name ← Gen.listOf nl (do return UInt8.ofNat (← Gen.oneOf [← Gen.range 97 122, ← Gen.range 1 255, ← Gen.range 97 122]))
  let password : Option Bytes ← (do
    match ← Gen.below 6 with
    | 0 => pure none
    | 1 => pure (some (← md5Like))
    | 2 => pure (some (← scramLike))
    | 3 => pure (some (← genPayload (← Gen.oneOf [1, 126, 127, 128, 400, 2, 125])))
    | 4 => pure (some (← genPayload (← Gen.range 1 400)))
    | _ => pure (some (← md5Like)))
  let validUntil : Option Nat ← (do if ← Gen.prob 1 3 then pure (some (← Gen.below (2^64))) else pure none)
  -- the seven booleans: every combination in turn (k mod 128), so all 128 occur in any 128 consecutive roles
  let b (i : Nat) : Bool := (k / 2 ^ i) % 2 == 1
  return { oid := ← Gen.oneOf [10, ← Gen.below (2^32), ← Gen.range 16384 99999], name,
           super := b 0, inherit := b 1, createrole := b 2, createdb := b 3, canlogin := b 4, replication := b 5,
           bypassrls := b 6, connlimit := ← Gen.oneOf [2^32 - 1, 0, 5, ← Gen.below (2^32)], password, validUntil }

/-- role versions (role, infomask) laid out over pages -/
def genAuthFile (nRoles : Nat) : Gen (List Block × List (Role × Nat)) := do
  let mut blocks : Array Block := #[]
  let mut out : Array (Role × Nat) := #[]
  let mut slots : Array (Bytes × Tuple) := #[]
  let mut cur : Array (Role × Nat) := #[]
  let mut budget := 8192 - 24
  let flush (slots : Array (Bytes × Tuple)) : Block :=
    .page (mkPage slots.toList ((List.range slots.size).map .normal) 0)
  for k in [0:nRoles] do
    let r ← genRole k
    -- versions: usually one live; sometimes a dead older version (ALTER ROLE) precedes it
    let olds : List (Role × Nat) ← (do
      if ← Gen.prob 1 4 then
        let pw : Option Bytes ← (do if ← Gen.bool then pure none else pure (some (← md5Like)))
        pure [({ r with password := pw }, 0x0500)]
      else pure [])
    let mask ← Gen.oneOf [0x0900, 0x0900, 0x0100, 0x0500, 0x0A00, 0x0000, 0x2900]
    for (rv, m) in olds ++ [(r, mask)] do
      let t := encRole rv m
      let junkLen := (8 - tupleLen t % 8) % 8
      let need := tupleLen t + junkLen + 4
      if need > budget then
        blocks := blocks.push (flush slots)
        out := out ++ cur
        slots := #[]; cur := #[]; budget := 8192 - 24
      slots := slots.push (zeros junkLen, t)
      cur := cur.push (rv, m)
      budget := budget - need
  if slots.size > 0 || blocks.size == 0 then
    blocks := blocks.push (flush slots)
    out := out ++ cur
  return (blocks.toList, out.toList)

/-! ### row versions with real header fields (xmin / xmax / cid / t_ctid / t_infomask2 flag bits) -/

/-- t_ctid: block number as two uint16 halves (hi, lo), then the offset number -/
def ctidBytes (blk off : Nat) : Bytes := le 2 (blk / 65536) ++ le 2 (blk % 65536) ++ le 2 off

/-- header fields of a stored version: never updated (bootstrap xmin 1, frozen 2, ordinary xids), the dead version
an UPDATE / ALTER leaves behind (xmax, t_ctid → successor, KEYS_UPDATED / HOT_UPDATED), its successor (ONLY_TUPLE, maybe
updated again), or arbitrary values -/
def genHdr : Gen HdrFields := do
  let xmin ← Gen.oneOf [1, 2, 3, 700, 2 ^ 32 - 1, ← Gen.below (2 ^ 32), ← Gen.range 3 100000]
  match ← Gen.below 5 with
  | 0 | 1 => return { xmin, ctid := ctidBytes (← Gen.below 4) (← Gen.range 1 200) }
  | 2 => return { xmin, xmax := ← Gen.oneOf [xmin + 1, ← Gen.below (2 ^ 32)], cid := ← Gen.below 8,
                  ctid := ctidBytes (← Gen.oneOf [0, 1, 70000, 2 ^ 32 - 2]) (← Gen.range 1 291), flags2 := ← Gen.oneOf [4, 8, 12] }
  | 3 => return { xmin, cid := ← Gen.below 8, ctid := ctidBytes (← Gen.below 4) (← Gen.range 1 200),
                  flags2 := ← Gen.oneOf [16, 20, 24, 28] }
  | _ => return { xmin, xmax := ← Gen.below (2 ^ 32), cid := ← Gen.below (2 ^ 32), ctid := ← Gen.bytes 6, flags2 := ← Gen.below 32 }

/-- `genRowPage` with header fields per version; returns the versions in pointer order -/
def genRowPageH (cols : List Col) (size : Nat) : Gen (Page × List RowVer) := do
  let nSlots ← match ← Gen.below 5 with
    | 0 => pure 0
    | 1 => pure 1
    | _ => Gen.range 1 (4 + 2 * size)
  let mut budget := 8192 - 24 - 4 * (nSlots + 4)
  let mut slots : Array (Bytes × Tuple) := #[]
  let mut vers : Array RowVer := #[]
  for _ in [0:nSlots] do
    let r ← genRow cols
    let h ← genHdr
    let t := formTupleH h cols r
    let junkLen := (8 - tupleLen t % 8) % 8
    if tupleLen t + junkLen ≤ budget then
      budget := budget - tupleLen t - junkLen
      slots := slots.push (zeros junkLen, t)
      vers := vers.push (h, r)
  let mut lps : Array LP := #[]
  for i in [0:slots.size] do lps := lps.push (.normal i)
  let nOther ← Gen.below 3
  for _ in [0:nOther] do
    lps := lps.push (.other (← Gen.below 8192) (← Gen.oneOf [0, 2, 3]) (← Gen.below 100))
  let lpl ← Gen.shuffle lps.toList
  let lower := 24 + 4 * lpl.length
  let used := (slots.toList.map fun s => s.1.length + tupleLen s.2).sum
  let slack := 8192 - lower - used
  let freeLen ← Gen.oneOf [0, slack, slack / 2]
  let p := mkPage slots.toList lpl freeLen
  let order := lpl.filterMap fun | .normal k => vers[k]? | .other .. => none
  return (p, order)

/-- a heap file of row versions: blocks (pages and all-zero blocks), a trailing partial block, and the stored
versions in scan order, each with the byte offset of its page -/
def genRowHeapH (cols : List Col) (size : Nat) : Gen (List Block × Bytes × List (RowVer × Nat)) := do
  let n ← match ← Gen.below 4 with
    | 0 => pure 1
    | _ => Gen.range 1 (1 + size)
  let mut blocks : Array Block := #[]
  let mut vers : Array (RowVer × Nat) := #[]
  for i in [0:n] do
    if ← Gen.prob 1 8 then blocks := blocks.push .zero
    else
      let (p, order) ← genRowPageH cols size
      blocks := blocks.push (.page p)
      for v in order do vers := vers.push (v, 8192 * i)
  let tail ← match ← Gen.below 5 with
    | 0 => Gen.bytes (← Gen.oneOf [1, 24, 4096, 8191])
    | _ => pure []
  return (blocks.toList, tail, vers.toList)

/-- pg_authid with real header fields: role versions (header fields, role, infomask) over pages whose line pointers
are shuffled and mixed with unused / redirect / dead ones, with free space between pointers and tuples, all-zero
blocks between pages and a trailing partial block.  A dead older version (ALTER ROLE) carries xmax, t_ctid → successor
and HOT_UPDATED | KEYS_UPDATED; its successor ONLY_TUPLE. -/
def genAuthFileH (nRoles : Nat) : Gen (List Block × Bytes × List (HdrFields × Role × Nat)) := do
  let mut blocks : Array Block := #[]
  let mut out : Array (HdrFields × Role × Nat) := #[]
  let mut slots : Array (Bytes × Tuple) := #[]
  let mut cur : Array (HdrFields × Role × Nat) := #[]
  let mut budget := 8192 - 24 - 16
  let flush (slots : Array (Bytes × Tuple)) (cur : Array (HdrFields × Role × Nat)) :
      Gen (Block × List (HdrFields × Role × Nat)) := do
    let mut lps : Array LP := #[]
    for i in [0:slots.size] do lps := lps.push (.normal i)
    for _ in [0:← Gen.below 4] do
      lps := lps.push (.other (← Gen.below 8192) (← Gen.oneOf [0, 2, 3]) (← Gen.below 100))
    let lpl ← if ← Gen.prob 1 2 then Gen.shuffle lps.toList else pure lps.toList
    let lower := 24 + 4 * lpl.length
    let used := (slots.toList.map fun s => s.1.length + tupleLen s.2).sum
    let slack := 8192 - lower - used
    let freeLen ← Gen.oneOf [slack, slack, 0, slack / 2]
    let order := lpl.filterMap fun | .normal k => cur[k]? | .other .. => none
    return (.page (mkPage slots.toList lpl freeLen), order)
  for k in [0:nRoles] do
    let r ← genRole k
    let xid ← Gen.oneOf [1, 3, 700, ← Gen.range 3 (2 ^ 32 - 2)]
    -- versions: usually one live; sometimes a dead older version (ALTER ROLE) precedes it
    let old : Bool ← Gen.prob 1 4
    let olds : List (HdrFields × Role × Nat) ← (do
      if old then
        let pw : Option Bytes ← (do if ← Gen.bool then pure none else pure (some (← md5Like)))
        let h : HdrFields := { xmin := xid, xmax := xid + 1, ctid := ctidBytes blocks.size (slots.size + 2), flags2 := ← Gen.oneOf [12, 12, 4, 8] }
        pure [(h, { r with password := pw }, ← Gen.oneOf [0x0500, 0x0500, 0x0100, 0x0000])]
      else pure [])
    let mask ← Gen.oneOf [0x0900, 0x0900, 0x0100, 0x0500, 0x0A00, 0x0000, 0x2900]
    let h : HdrFields ← (do
      if old then pure { xmin := xid + 1, ctid := ctidBytes blocks.size (slots.size + 2), flags2 := 16 }
      else if ← Gen.prob 1 6 then genHdr
      else pure { xmin := xid, ctid := ctidBytes blocks.size (slots.size + 1) })
    for (hv, rv, m) in olds ++ [(h, r, mask)] do
      let t := encRoleH hv rv m
      let junkLen := (8 - tupleLen t % 8) % 8
      let need := tupleLen t + junkLen + 4
      if need > budget then
        let (b, order) ← flush slots cur
        blocks := blocks.push b
        out := out ++ order
        if ← Gen.prob 1 6 then blocks := blocks.push .zero
        slots := #[]; cur := #[]; budget := 8192 - 24 - 16
      slots := slots.push (zeros junkLen, t)
      cur := cur.push (hv, rv, m)
      budget := budget - need
  if slots.size > 0 || blocks.size == 0 then
    let (b, order) ← flush slots cur
    blocks := blocks.push b
    out := out ++ order
  let tail ← match ← Gen.below 4 with
    | 0 => Gen.bytes (← Gen.oneOf [1, 24, 4096, 8191])
    | _ => pure []
  return (blocks.toList, tail, out.toList)

/-! ### hostile schemas (C10) -/

/-- type oids whose decodeScalar branch is total on every non-empty input (bool, "char", name, the
safeString types and unknown oids); the fixed-width integer types only appear with their own width -/
def totalOids : List Int := [16, 17, 18, 19, 25, 1042, 1043, 142, 0, 99999, -7, 1099511627776, 3614]

def genHostileCol (i : Nat) : Gen Model.Column := do
  let name ← match ← Gen.below 5 with
    | 0 => pure []
    | 1 => pure (strBytes "dup")
    | _ => pure (colName i)
  let (typid, len) ← match ← Gen.below 8 with
    | 0 => pure ((21 : Int), (2 : Int))
    | 1 => pure (23, 4)
    | 2 => pure (20, 8)
    | 3 => pure (26, 4)
    | _ => do
      let t ← Gen.oneOf totalOids
      let l ← Gen.oneOf [0, -1, -1, -1, -2, -2, -3, 1, 1, 2, 3, 4, 8, 64, 65, 1000, 8192, 2147483647, -2147483648,
                        4611686018427387904, -9223372036854775808, 9223372036854775807, 7, 16]
      pure (t, l)
  let num ← Gen.oneOf [0, 0, (i : Int) + 1, (i : Int) + 1, 1, -1, 9, 100, 2147483648, -5, 2048, 9223372036854775807]
  let al ← Gen.oneOf [0, 0, 99, 115, 105, 100, 120, 255, 1]
  return ⟨name, typid, len, num, al⟩

def genHostileSchema (size : Nat) : Gen (List Model.Column) := do
  let n ← match ← Gen.below 5 with
    | 0 => pure 0
    | 1 => pure 1
    | _ => Gen.range 1 (4 + 2 * size)
  let mut cols : Array Model.Column := #[]
  for i in [0:n] do cols := cols.push (← genHostileCol i)
  return cols.toList

end PgVerif.Gen
