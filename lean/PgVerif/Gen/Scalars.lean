/-
  Generators of abstract scalar values (Spec.Scalars.Val), boundary-heavy (driver path, core only).
-/
import PgVerif.Basic.Canon
import PgVerif.Spec.Scalars
import PgVerif.Gen.Numjson
namespace PgVerif.Gen.Scalars
open PgVerif PgVerif.Spec.Scalars

/-- an integer of `bits` bits, two's complement range, biased to the boundaries -/
def genSigned (bits : Nat) : Gen Int := do
  let half : Nat := 2 ^ (bits - 1)
  match ← Gen.below 8 with
  | 0 => return (Int.ofNat (← Gen.below 3)) - 1
  | 1 => return (half : Int) - 1 - (← Gen.below 2)
  | 2 => return -(half : Int) + (← Gen.below 2)
  | 3 => return (Int.ofNat (← Gen.below 1000)) - 500
  | 4 =>
    -- around a power of two
    let k ← Gen.below (bits - 1)
    let v : Int := (2 ^ k : Nat)
    let v := v + (Int.ofNat (← Gen.below 3)) - 1
    return if ← Gen.bool then v else -v
  | _ => return (Int.ofNat (← Gen.below (2 * half))) - half

def genUnsigned (bits : Nat) : Gen Nat := do
  let m : Nat := 2 ^ bits
  match ← Gen.below 8 with
  | 0 => Gen.below 3
  | 1 => return m - 1 - (← Gen.below 2)
  | 2 => return m / 2 - 1 + (← Gen.below 3)
  | 3 => Gen.below 1000
  | 4 => return 3000000000 % m
  | _ => Gen.below m

def genInts : Gen Val := do
  match ← Gen.below 12 with
  | 0 => return .bool (← Gen.bool)
  | 1 => return .char (← Gen.byte)
  | 2 =>
    let n ← Gen.edgy 0 63
    let s ← Gen.listOf n (do return UInt8.ofNat (1 + (← Gen.below 255)))
    return .name s
  | 3 => return .int2 (← genSigned 16)
  | 4 | 5 => return .int4 (← genSigned 32)
  | 6 | 7 => return .int8 (← genSigned 64)
  | 8 => return .oid (← genUnsigned 32)
  | 9 | 10 => return .xid (← genUnsigned 32)
  | _ => return .cid (← genUnsigned 32)

/-- binary64 bit patterns: special exponents × mantissa edges, or uniform -/
def genF64 : Gen Nat := do
  match ← Gen.below 6 with
  | 0 =>
    let e ← Gen.oneOf [0, 1, 2, 1022, 1023, 1024, 1075, 1076, 2045, 2046, 2047]
    let m ← Gen.oneOf [0, 1, 2, 2 ^ 51, 2 ^ 52 - 1, 2 ^ 51 + 1]
    let s ← Gen.below 2
    return s * 2 ^ 63 + e * 2 ^ 52 + m
  | 1 =>
    -- small integers and simple fractions
    let k ← Gen.below 2000
    return Txt.f64OfRat (← Gen.bool) k (← Gen.oneOf [1, 2, 4, 10, 100, 3])
  | 2 => return Txt.f64OfRat (← Gen.bool) (← Gen.below (10 ^ 17)) (10 ^ (← Gen.below 30))
  | _ => return (← Gen.u64).toNat

def genF32 : Gen Nat := do
  match ← Gen.below 4 with
  | 0 =>
    let e ← Gen.oneOf [0, 1, 126, 127, 128, 150, 151, 253, 254, 255]
    let m ← Gen.oneOf [0, 1, 2, 2 ^ 22, 2 ^ 23 - 1]
    let s ← Gen.below 2
    return s * 2 ^ 31 + e * 2 ^ 23 + m
  | _ => Gen.below (2 ^ 32)

def genFloats : Gen Val := do
  if ← Gen.bool then return .float4 (← genF32) else return .float8 (← genF64)

/-- one well-formed UTF-8 sequence, biased to the boundaries of each length class -/
def genRune : Gen Bytes := do
  let enc (c : Nat) : Bytes :=
    if c < 0x80 then [UInt8.ofNat c]
    else if c < 0x800 then [UInt8.ofNat (0xC0 + c / 64), UInt8.ofNat (0x80 + c % 64)]
    else if c < 0x10000 then [UInt8.ofNat (0xE0 + c / 4096), UInt8.ofNat (0x80 + c / 64 % 64), UInt8.ofNat (0x80 + c % 64)]
    else [UInt8.ofNat (0xF0 + c / 262144), UInt8.ofNat (0x80 + c / 4096 % 64), UInt8.ofNat (0x80 + c / 64 % 64), UInt8.ofNat (0x80 + c % 64)]
  match ← Gen.below 8 with
  | 0 => return enc (← Gen.oneOf [0x01, 0x7F, 0x80, 0x7FF, 0x800, 0xD7FF, 0xE000, 0xFFFD, 0xFFFF, 0x10000, 0x10FFFF, 0x22, 0x5C, 0x0A, 0x27])
  | 1 => return enc (0x80 + (← Gen.below (0x800 - 0x80)))
  | 2 => return enc (0x800 + (← Gen.below (0xD800 - 0x800)))
  | 3 => return enc (0x10000 + (← Gen.below (0x110000 - 0x10000)))
  | _ => return enc (0x20 + (← Gen.below 0x5F))

def genUtf8 (maxRunes : Nat) : Gen Bytes := do
  let n ← Gen.edgy 1 maxRunes
  let rs ← Gen.listOf n genRune
  return rs.flatten

/-- a JSON document of bounded depth -/
partial def genJV (depth : Nat) : Gen JV := do
  let k ← Gen.below (if depth == 0 then 6 else 9)
  match k with
  | 0 => return .null
  | 1 => return .bool (← Gen.bool)
  | 2 => return .num (← Gen.bool) (← Gen.below 100000) 0
  | 3 =>
    let m ← match ← Gen.below 4 with
      | 0 => Gen.oneOf [0, 1, 9007199254740992, 9007199254740993, 99999999999999999999]
      | 1 => Gen.below (10 ^ 20)
      | _ => Gen.below (10 ^ 6)
    let e : Int := (Int.ofNat (← Gen.below 61)) - 30
    return .num (← Gen.bool) m e
  | 4 | 5 => return .str (← do
      let n ← Gen.below 6
      let rs ← Gen.listOf n genRune
      pure rs.flatten)
  | 6 =>
    let n ← Gen.below 4
    return .arr (← Gen.listOf n (genJV (depth - 1)))
  | _ =>
    let n ← Gen.below 4
    let mut kvs : List (Bytes × JV) := []
    for i in [0:n] do
      let k := Txt.decNat i ++ (← genRune)
      kvs := kvs ++ [(k, ← genJV (depth - 1))]
    return .obj kvs

def genTextLike (size : Nat) : Gen Val := do
  match ← Gen.below 8 with
  | 0 | 1 => return .text .text (← genUtf8 (8 + 8 * size))
  | 2 => return .text .varchar (← genUtf8 (8 + 4 * size))
  | 3 =>
    -- bpchar: blank-padded
    let s ← genUtf8 6
    return .text .bpchar (s ++ List.replicate (← Gen.below 5) 32)
  | 4 => return .text .xml (Txt.asc "<a b=\"1\">" ++ (← genUtf8 5) ++ Txt.asc "</a>")
  | 5 =>
    let n ← Gen.edgy 1 (16 + 8 * size)
    return .bytea (← Gen.bytes n)
  | _ => return .json (← genJV 3) (← Gen.below 3)

/-- a valid civil date in years 1..9999, biased to month/year/century boundaries -/
def genYMD : Gen (Nat × Nat × Nat) := do
  let y ← match ← Gen.below 6 with
    | 0 => Gen.oneOf [1, 2, 4, 100, 400, 1582, 1600, 1700, 1707, 1708, 1900, 1969, 1970, 1999, 2000, 2001, 2038, 2100, 2262, 2263, 2292, 2293, 2400, 9999, 9998]
    | _ => Gen.range 1 9999
  let m ← Gen.edgy 1 12
  let dim := daysInMonth y m
  let d ← match ← Gen.below 3 with
    | 0 => pure 1
    | 1 => pure dim
    | _ => Gen.range 1 dim
  return (y, m, d)

def genDateV : Gen DateV := do
  match ← Gen.below 12 with
  | 0 => return .posInf
  | 1 => return .negInf
  | _ => let (y, m, d) ← genYMD; return .fin y m d

def genTsV : Gen TsV := do
  match ← Gen.below 12 with
  | 0 => return .posInf
  | 1 => return .negInf
  | _ =>
    let (y, m, d) ← genYMD
    let (hh, mi, ss) ← match ← Gen.below 4 with
      | 0 => pure (0, 0, 0)
      | 1 => pure (23, 59, 59)
      | _ => do pure (← Gen.below 24, ← Gen.below 60, ← Gen.below 60)
    let usec ← match ← Gen.below 3 with
      | 0 => pure 0
      | 1 => pure 999999
      | _ => Gen.below 1000000
    return .fin y m d hh mi ss usec

def genTimeUs : Gen Nat := do
  match ← Gen.below 5 with
  | 0 => Gen.oneOf [0, 1, 999999, 1000000, 59999999, 60000000, 3599999999, 3600000000, 86399999999, 86400000000, 43200000000]
  | _ => Gen.below 86400000001

def genInterval : Gen Val := do
  let sgn (g : Gen Nat) : Gen Int := do
    let v ← g
    match ← Gen.below 3 with
    | 0 => return -(v : Int)
    | 1 => return 0
    | _ => return (v : Int)
  let months ← sgn (do match ← Gen.below 3 with
    | 0 => Gen.oneOf [1, 11, 12, 13, 24, 2147483647]
    | _ => Gen.below 2000)
  let days ← sgn (do match ← Gen.below 3 with
    | 0 => Gen.oneOf [1, 30, 31, 365, 2147483647]
    | _ => Gen.below 100000)
  let us ← sgn (do match ← Gen.below 3 with
    | 0 => Gen.oneOf [1, 10, 100000, 500000, 999999, 1000000, 1000001, 1500000, 59000000, 59999999, 60000000, 3599000000,
        3600000000, 3600000001, 86400000000, 9223372036854775807]
    | _ => Gen.below (10 ^ 13))
  return .interval months days us

def genTimes : Gen Val := do
  match ← Gen.below 10 with
  | 0 | 1 => return .date (← genDateV)
  | 2 => return .time (← genTimeUs)
  | 3 | 4 =>
    let z : Int := (Int.ofNat (← Gen.below 115199)) - 57599
    let z ← if ← Gen.prob 1 3 then pure ((Int.tdiv z 3600) * 3600) else if ← Gen.prob 1 3 then pure ((Int.tdiv z 900) * 900) else pure z
    return .timetz (← genTimeUs) z
  | 5 | 6 => return .timestamp false (← genTsV)
  | 7 => return .timestamp true (← genTsV)
  | _ => genInterval

def genInet : Gen Val := do
  let cidr ← Gen.bool
  if ← Gen.bool then
    return .inet cidr false (← Gen.bytes 4) (← Gen.edgy 0 32)
  else
    let addr ← if ← Gen.prob 1 4 then pure (zeros 15 ++ [1]) else Gen.bytes 16
    return .inet cidr true addr (← Gen.edgy 0 128)

def genIds : Gen Val := do
  match ← Gen.below 10 with
  | 0 | 1 => return .uuid (← Gen.bytes 16)
  | 2 =>
    -- pg_lsn: equal halves are the only values the tool prints right (A10)
    if ← Gen.prob 1 4 then
      let h ← genUnsigned 32
      return .pglsn (h * 2 ^ 32 + h)
    return .pglsn (← genUnsigned 64)
  | 3 =>
    if ← Gen.prob 1 4 then
      let h ← genUnsigned 16
      return .tid (h * 65536 + h) (← genUnsigned 16)
    return .tid (← genUnsigned 32) (← genUnsigned 16)
  | 4 | 5 =>
    -- money: the whole int64 range (fix 11).  Boundary values: around 10^15 and 2^46·100 (where the former float
    -- formatting first went wrong), 2^53 (float64 integer precision), the ends of int64
    let c ← match ← Gen.below 6 with
      | 0 => do
        let v ← Gen.oneOf [0, 1, 5, 99, 100, 101, 1234, 999999999999999, 450359962737049, 900719925474099,
          1000000000000000, 1000000000000001, 7036874417766399, 7036874417766400, 7036874417766401, 7036874417766402,
          9007199254740991, 9007199254740992, 9007199254740993, 9223372036854775807, 9223372036854775806,
          9223372036854775800, 9223372036854775799, 4611686018427387904, 99999999999999999, 100000000000000049, 100000000000000050]
        pure (v : Int)
      | 1 => do pure ((Int.ofNat (← Gen.below (2 * 10 ^ 15 - 1))) - (10 ^ 15 - 1 : Nat))
      | 2 => genSigned 64
      | 3 => do
        -- just above a power of two times 100, ± a few cents
        let k ← Gen.range 44 62
        pure ((2 ^ k : Nat) + (Int.ofNat (← Gen.below 200)) - 100)
      | _ => do pure ((Int.ofNat (← Gen.below (2 ^ 64))) - (2 ^ 63 : Nat))
    let c ← if ← Gen.prob 1 3 then pure (-c) else pure c
    let c := if c < -9223372036854775808 then -9223372036854775808 else if c > 9223372036854775807 then 9223372036854775807 else c
    return .money c
  | 6 => return .macaddr (← Gen.bytes 6)
  | 7 => return .macaddr8 (← Gen.bytes 8)
  | _ => genInet

def genBits (size : Nat) : Gen Val := do
  let n ← match ← Gen.below 5 with
    | 0 => Gen.oneOf [0, 1, 7, 8, 9, 15, 16, 17, 31, 32, 33, 63, 64, 65]
    | 1 => Gen.range 0 (64 * (size + 1))
    | _ => Gen.range 0 40
  let bits ← Gen.listOf n Gen.bool
  return .bit (← Gen.bool) bits

def genPt : Gen Pt := do return (← genF64, ← genF64)

def genGeo (size : Nat) : Gen Val := do
  match ← Gen.below 8 with
  | 0 => return .point (← genPt)
  | 1 => return .lseg (← genPt) (← genPt)
  | 2 => return .box (← genPt) (← genPt)
  | 3 => return .line (← genF64) (← genF64) (← genF64)
  | 4 => return .circle (← genPt) (← genF64)
  | 5 | 6 =>
    let n ← Gen.edgy 1 (3 + size)
    return .path (← Gen.bool) (← Gen.listOf n genPt)
  | _ =>
    let n ← Gen.edgy 1 (3 + size)
    return .polygon (← Gen.bytes 32) (← Gen.listOf n genPt)

/-- a numeric range bound: small integers, the numerics of area numjson's generator (NaN, ±Infinity, any sign / weight /
display scale, 0–8 digits), and long digit strings around the 1-byte / 4-byte varlena header switch (payload 126 / 127
bytes: 62 / 63 digits in the short numeric form, 61 / 62 in the long one) and around a 4-byte header whose first byte is
zero (total length 192 = 93 short-form / 92 long-form digits); either numeric header form when the value admits it -/
def genNumBound : Gen Bound := do
  let n : Spec.Numeric ← (do
    match ← Gen.below 8 with
    | 0 | 1 =>
      let k ← Gen.oneOf [60, 61, 62, 63, 64, 65, 91, 92, 93, 94, 100, 150]
      let ds ← Gen.listOf k PgVerif.Gen.genDigit
      return .fin (← Gen.bool) (((← Gen.range 0 20) : Int) - 10) (← Gen.edgy 0 40) ds
    | 2 => return .fin (← Gen.bool) 0 0 [← Gen.range 1 9999]
    | 3 => return .fin false 0 (← Gen.edgy 0 3) []
    | _ => PgVerif.Gen.genNumeric)
  let form ← Gen.oneOf [Spec.HeaderForm.short, .long]
  return .num n (if decide (Spec.HeaderForm.short.admits n) then form else .long)

def genBound (ty : RangeTy) : Gen Bound := do
  match ty with
  | .int4 => return .int (← genSigned 32)
  | .int8 => return .int (← genSigned 64)
  | .date => return .date (← genDateV)
  | .ts | .tstz => return .ts (← genTsV)
  | .num => genNumBound

def allRangeTys : List RangeTy := [.int4, .int8, .date, .ts, .tstz, .num]

def genRange : Gen Val := do
  let ty ← Gen.oneOf allRangeTys
  let flags ← match ← Gen.below 4 with
    | 0 => Gen.below 32
    | _ => Gen.oneOf [2, 0, 6, 4, 8, 16, 24, 1, 10, 18, 12, 20]   -- combinations PostgreSQL itself writes
  return .range ty flags (← genBound ty) (← genBound ty)

end PgVerif.Gen.Scalars
