/-
  Generators of whole clusters (Spec.Cluster): databases incl. templates and names equal up to case,
  relations of every relkind, relfilenode ≠ oid / = 0, system and dropped attributes, live and dead catalog
  row versions over several pages, user heaps with live/dead rows.  Driver path, core only.
-/
import PgVerif.Basic.Canon
import PgVerif.Spec.Cluster
import PgVerif.Model.Rows
import PgVerif.Gen.Rows
import PgVerif.Gen.Toast
namespace PgVerif.Gen
open PgVerif PgVerif.Spec

/-- (typid, attlen, attalign) of the user column types of generated tables: those the local scalar decoder
models and for which the tool's typeAlign fallback equals the true alignment -/
def userTypes : List (Nat × Int × Nat) :=
  [(16, 1, 1), (18, 1, 1), (21, 2, 2), (23, 4, 4), (20, 8, 8), (26, 4, 4), (19, 64, 1), (25, -1, 4), (1043, -1, 4),
   (1042, -1, 4), (23, 4, 4), (25, -1, 4)]

/-- layouts of dropped columns (typid 0 keeps attlen/attalign of the old type); (64,1) name and (16,1) uuid
are the ones the tool's length fallback gets wrong (A03) -/
def droppedLayouts : List (Int × Nat) := [(4, 4), (-1, 4), (8, 8), (1, 1), (2, 2), (64, 1), (16, 1), (4, 4), (-1, 4), (4, 4), (-1, 4), (8, 8), (1, 1), (2, 2), (4, 4), (-1, 4)]

def relNames : List String :=
  ["users", "Users", "USERS", "orders", "order_items", "sql_features", "sql_parts", "pg_my", "pg_stat_custom",
   "secret_passwords", "Passwords", "t1", "t", "a b", "we\"ird", "semi;colon", "été", "日本", "x_users_x",
   "abcdefghijklmnopqrstuvwxyzabcdefghijklmnopqrstuvwxyzabcdefghijk", "Orders", "accounts", "sqlite", "pgx"]

def colNames : List String :=
  ["id", "name", "email", "password", "Name", "created", "flag", "n", "a b", "we\"ird", "secret", "v", "k", "été", "x1",
   "x2", "x3", "x4", "x5", "x6"]

def dbNames : List String := ["shop", "Shop", "SHOP", "templates_x", "template_foo", "app_db", "appdb", "x", "été", "d b"]

/-- database names of the clusters of area `cluster` (r6): no `template*` names among the ordinary ones — the two cases of the
open finding C01-TPL are added separately, at a low rate -/
def dbNamesR6 : List String := ["shop", "Shop", "SHOP", "app_db", "appdb", "x", "été", "d b", "orders_db", "tmpl"]

/-- relation names with upper-case non-ASCII letters, U+212A KELVIN SIGN, and a LATIN1 byte that is not UTF-8 (review
finding C3): `ÉTÉ`, `Été`, `Kelvin` written with U+212A, `caf\xe9`, `ΣΊΣΥΦΟΣ`-like Greek `ΑΒΓ`, Cyrillic `ЖУК` -/
def unicodeRelNames : List Bytes :=
  [[0xC3, 0x89, 0x54, 0xC3, 0x89], [0xC3, 0x89, 0x74, 0xC3, 0xA9], [0xE2, 0x84, 0xAA, 0x65, 0x6C, 0x76, 0x69, 0x6E],
   [0x63, 0x61, 0x66, 0xE9], [0xCE, 0x91, 0xCE, 0x92, 0xCE, 0x93], [0xD0, 0x96, 0xD0, 0xA3, 0xD0, 0x9A]]

/-- relkinds: r i S t v m c f p I -/
def relkinds : List Nat := [114, 114, 114, 114, 114, 105, 83, 116, 118, 109, 99, 102, 112, 73]

def hasStorage (k : Nat) : Bool := k == 114 || k == 105 || k == 83 || k == 116 || k == 109

def deadMask : Gen Nat := Gen.oneOf [0x0500, 0x0200, 0x0000, 0x2500, 0x0A00, 0x0400, 0x0600]
def liveMask : Gen Nat := Gen.oneOf [0x0900, 0x0900, 0x0100, 0x0300, 0x0B00, 0x2900, 0x0D00]

/-- an inline-compressed (read since fixes/rows/09) or an out-of-line value as PostgreSQL stores it (open finding A02): the datum, the original bytes,
and for an out-of-line value the entry of the TOAST relation.  LZ4 only from PostgreSQL 14 on. -/
def genToastDatum (ver toastRel valueId : Nat) : Gen (Datum × Bytes × Option Spec.Toast.ToastValue) := do
  let genC (n : Nat) : Gen Spec.Toast.Content := do
    if ver ≥ 14 ∧ (← Gen.bool) then return .lz4 (Toast.makeCompressingLz4 (← Toast.genLz4Block n))
    else return .pglz (Toast.makeCompressingPglz (← Toast.genPglzToks n))
  match ← Gen.below 2 with
  | 0 =>
    let c ← genC (← Gen.range 40 300)
    let z : Option Comp := match c with | .pglz ts => some (.pglz ts) | .lz4 b => some (.lz4 b) | .plain _ => none
    match z with
    | some z =>
      if decide c.WF ∧ decide z.WF ∧ c.stored.length < 1500 then return (.compressed z, c.original, none)
      else return (.long c.original, c.original, none)
    | none => return (.long c.original, c.original, none)
  | _ =>
    let content ← (do if ← Gen.bool then genC (← Gen.range 100 3000) else return .plain (← Toast.genBytes (← Gen.range 1 5000)))
    let cuts ← Toast.genCuts content.stored.length
    let v : Spec.Toast.ToastValue := { id := valueId, relid := toastRel, content, cuts }
    if decide v.WF then return (.external ((Spec.Toast.encExtPtr (Spec.Toast.ptrOf v)).drop 2), content.original, some v)
    else return (.long (content.original.take 200), content.original.take 200, none)

/-- replace out-of-line datums (C08's business, finding A02) by inline ones; inline-compressed values stay (fixes/rows/09) -/
def inlineOf : Option Datum → Gen (Option Datum)
  | some (.external _) => do return some (.short (← genPayload (← Gen.range 0 20)))
  | d => pure d

def genInlineRow (cols : List Col) (liveBias : Bool) : Gen RowV := do
  let r ← genRow cols
  let mut vals : Array (Option Datum) := #[]
  for v in r.vals do vals := vals.push (← inlineOf v)
  let infomask ← if liveBias then (do if ← Gen.prob 2 3 then liveMask else deadMask) else pure r.infomask
  return { r with vals := vals.toList, infomask }

/-- a row of a table whose long values PostgreSQL compressed / moved out of line: the compressed and external datums of
`genRow` become real ones (with recorded originals and TOAST entries) -/
def genToastyRow (cols : List Col) (ver toastRel firstId : Nat) : Gen (RowV × List (Datum × Bytes) × List Spec.Toast.ToastValue) := do
  let r ← genRow cols
  let mut vals : Array (Option Datum) := #[]
  let mut dt : Array (Datum × Bytes) := #[]
  let mut tvs : Array Spec.Toast.ToastValue := #[]
  for v in r.vals do
    match v with
    | some (.external _) | some (.compressed _) =>
      let (d, orig, tv) ← genToastDatum ver toastRel (firstId + tvs.size)
      vals := vals.push (some d)
      match d with
      | .long _ => pure ()
      | _ => dt := dt.push (d, orig)
      match tv with | some t => tvs := tvs.push t | none => pure ()
    | _ => vals := vals.push v
  let infomask ← (do if ← Gen.prob 2 3 then liveMask else deadMask)
  return ({ r with vals := vals.toList, infomask }, dt.toList, tvs.toList)

/-- split a list of tuples-to-be into pages: random page fill, never above the page capacity -/
def paginate {α} (len : α → Nat) (xs : List α) (sparse : Bool) : Gen (List (List α)) := do
  let mut pages : Array (List α) := #[]
  let mut cur : Array α := #[]
  let mut used := 24
  let mut cap ← if sparse then Gen.range 600 8192 else pure 8192
  for x in xs do
    let need := 4 + len x + pad8 (len x)
    if used + need > cap ∧ cur.size > 0 then
      pages := pages.push cur.toList
      cur := #[]; used := 24
      cap ← if sparse then Gen.range 600 8192 else pure 8192
    cur := cur.push x
    used := used + need
  if cur.size > 0 then pages := pages.push cur.toList
  -- an empty page in between now and then (after VACUUM)
  if pages.size > 0 then
    if ← Gen.prob 1 6 then pages := pages.insertIdx! (← Gen.below pages.size) []
  return pages.toList

def genAttrsFor (relid : Nat) (nUser : Nat) (withSystem : Bool) : Gen (List (Stored AttrRow)) := do
  let mut out : Array (Stored AttrRow) := #[]
  let names ← Gen.shuffle colNames
  for i in [0:nUser] do
    let nm := strBytes (names.getD i s!"c{i}")
    let dropped ← Gen.prob 1 9
    let a : AttrRow ← (do
      if dropped then
        let (len, al) ← Gen.oneOf droppedLayouts
        pure { relid, name := strBytes s!"........pg.dropped.{i+1}........", typid := 0, len, num := (i : Int) + 1, align := al,
               dropped := true, byval := decide (len > 0 ∧ len ≤ 8), stattarget := 0 }
      else
        let (t, len, al) ← Gen.oneOf userTypes
        let typmod : Int ← (do if t = 1043 ∨ t = 1042 then (do return ((← Gen.oneOf [5, 36, 259, 104]) : Nat)) else pure (-1 : Int))
        pure { relid, name := nm, typid := t, len, num := (i : Int) + 1, align := al, typmod,
               byval := decide (len > 0 ∧ len ≤ 8), storage := if len = -1 then 120 else 112,
               notnull := ← Gen.prob 1 4, stattarget := ← Gen.oneOf [(-1 : Int), -1, -1, 0, 100, 10000] })
    -- a dead older version of the column (renamed / retyped) now and then
    if ← Gen.prob 1 8 then
      let (t, len, al) ← Gen.oneOf userTypes
      out := out.push ⟨{ a with name := strBytes s!"old_{i}", typid := t, len, align := al, dropped := false }, ← deadMask⟩
    out := out.push ⟨a, ← liveMask⟩
  if withSystem then
    let sys : List (String × Int × Nat × Int × Nat) :=
      [("ctid", -1, 27, 6, 2), ("xmin", -2, 28, 4, 4), ("cmin", -3, 29, 4, 4), ("xmax", -4, 28, 4, 4), ("cmax", -5, 29, 4, 4),
       ("tableoid", -6, 26, 4, 4)]
    for (n, num, t, len, al) in sys do
      out := out.push ⟨{ relid, name := strBytes n, typid := t, len, num, align := al, byval := decide (len ≤ 4), notnull := true, stattarget := 0 },
                       ← liveMask⟩
    if ← Gen.prob 1 5 then
      out := out.push ⟨{ relid, name := strBytes "zero", typid := 23, len := 4, num := 0, align := 4 }, ← liveMask⟩
  let l := out.toList
  if ← Gen.prob 1 3 then Gen.shuffle l else pure l

/-- the first rows of a real pg_attribute: a bootstrap catalog's columns 1..n in order (what auto-detection looks at) -/
def bootstrapAttrs : List (Stored AttrRow) :=
  let cols : List (String × Nat × Int × Nat) :=
    [("oid", 26, 4, 4), ("proname", 19, 64, 1), ("pronamespace", 26, 4, 4), ("proowner", 26, 4, 4), ("prolang", 26, 4, 4),
     ("procost", 700, 4, 4), ("prorows", 700, 4, 4)]
  cols.zipIdx.map fun ((n, t, len, al), i) =>
    ⟨{ relid := 1255, name := strBytes n, typid := t, len, num := (i : Int) + 1, align := al, notnull := true }, 0x0B00⟩

structure GenRel where
  cls : List (Stored ClassRow)          -- versions of the pg_class row (last = current), and the row of its TOAST relation
  att : List (Stored AttrRow)
  heap : Option (Nat × List (List RowV))
  raw : Option (Nat × Bytes)
  /-- the file of the TOAST relation of a table with out-of-line values -/
  toastFile : Option (Nat × Bytes) := none
  detoast : List (Datum × Bytes) := []

def classLen (r : Stored ClassRow) : Nat := (formRow pgClassCols (classVals r.val) r.infomask).len
def attrLen (l : Layout) (a : Stored AttrRow) : Nat := (formRow (pgAttributeCols l) (attrVals l a.val) a.infomask).len

def liveAttrCols (att : List (Stored AttrRow)) (relid : Nat) : List Col :=
  (userAttrs [att] relid).map attrCol

def rawFiles : Gen Bytes := do
  match ← Gen.below 5 with
  | 0 => pure []
  | 1 => pure (zeros 8192)
  | 2 => Gen.bytes 8192
  | 3 => -- looks like a heap page with one live tuple (a sequence page)
    let t := formRow [⟨strBytes "last_value", 20, 8, 8⟩, ⟨strBytes "log_cnt", 20, 8, 8⟩, ⟨strBytes "is_called", 16, 1, 1⟩]
      [some (.fixed (le 8 42)), some (.fixed (le 8 0)), some (.fixed [1])] 0x0900
    pure (encPage (pageOfTuples [t]))
  | _ => Gen.bytes 100

def genRel (ver : Nat) (tsp toasty : Bool) (oid : Nat) (name : Bytes) (kind : Nat) (size : Nat) (usedFn : Nat → Bool) : Gen GenRel := do
  let storage := hasStorage kind
  let filenode ← if !storage then pure 0
    else match ← Gen.below 4 with
      | 0 => (do let f ← Gen.range 100000 199999; pure (if usedFn f then oid else f))
      | _ => pure oid
  let nUser ← if kind == 105 || kind == 73 then Gen.range 0 2 else match ← Gen.below 16 with
    | 0 => pure 0
    | 1 | 2 => pure 1
    | _ => Gen.range 1 (3 + size)
  let att ← genAttrsFor oid nUser (← Gen.prob 1 2)
  let cur : ClassRow := { oid, name, kind, filenode, natts := nUser, pages := ← Gen.below 10,
                          hasIndex := ← Gen.bool, toast := ← Gen.oneOf [0, 0, oid + 3],
                          tblspc := ← (do if tsp ∧ storage ∧ (← Gen.prob 1 3) then Gen.range 16500 16550 else pure 0),
                          nsp := if isPrefixB (strBytes "sql_") name then 13000 else if isPrefixB (strBytes "pg_") name then 11 else 2200 }
  -- dead older versions of the pg_class row: before a rename, before a rewrite (old filenode), same row re-written
  let mut cls : Array (Stored ClassRow) := #[]
  if ← Gen.prob 1 4 then
    let old : ClassRow ← match ← Gen.below 3 with
      | 0 => pure { cur with name := name ++ strBytes "_old" |>.take 63 }
      | 1 => pure { cur with pages := 0, hasIndex := false }
      | _ => pure { cur with kind := 114 }
    cls := cls.push ⟨old, ← deadMask⟩
  cls := cls.push ⟨cur, ← liveMask⟩
  let cols := liveAttrCols att oid
  let heapKind := kind == 114 || kind == 109 || kind == 116 || kind == 83
  if filenode == 0 then return ⟨cls.toList, att, none, none, none, []⟩
  if heapKind then
    match ← Gen.below 8 with
    | 0 => return ⟨cls.toList, att, none, none, none, []⟩                       -- file missing
    | 1 => return ⟨cls.toList, att, some (filenode, []), none, none, []⟩        -- empty file
    | _ =>
      let nRows ← if kind == 83 then pure 1 else if cols.isEmpty ∧ (← Gen.prob 3 4) then pure 0 else match ← Gen.below 4 with
        | 0 => Gen.range 0 2
        | _ => Gen.range 1 (4 + 4 * size)
      -- now and then a table whose long values are compressed in line or moved to its TOAST relation (open finding A02)
      if toasty ∧ kind == 114 ∧ cols.any (·.len == -1) ∧ (← Gen.prob 1 8) then
        let toastRel := oid + 3
        let mut rows : Array RowV := #[]
        let mut dt : Array (Datum × Bytes) := #[]
        let mut tvs : Array Spec.Toast.ToastValue := #[]
        for _ in [0:min nRows 6] do
          let (r, d, t) ← genToastyRow cols ver toastRel (70000 + tvs.size)
          if (formTuple cols r).len ≤ 2000 then
            rows := rows.push r; dt := dt ++ d.toArray; tvs := tvs ++ t.toArray
        let pages ← paginate (fun r => (formTuple cols r).len) rows.toList (← Gen.prob 1 3)
        let lay ← Toast.genLayout tvs.toList
        let cls' := cls.toList.map fun (s : Stored ClassRow) => if s.val.oid == oid then { s with val := { s.val with toast := toastRel } } else s
        let toastRow : Stored ClassRow :=
          ⟨{ oid := toastRel, name := strBytes s!"pg_toast_{oid}", kind := 116, filenode := toastRel, nsp := 99, natts := 3 }, 0x0B00⟩
        return ⟨cls' ++ [toastRow], att, some (filenode, pages), none, some (toastRel, Spec.Toast.encToastRel lay), dt.toList⟩
      let rows ← Gen.listOf nRows (genInlineRow cols true)
      let rows := rows.filter fun r => (formTuple cols r).len ≤ 2000
      let pages ← paginate (fun r => (formTuple cols r).len) rows (← Gen.prob 1 3)
      return ⟨cls.toList, att, some (filenode, pages), none, none, []⟩
  else
    return ⟨cls.toList, att, none, some (filenode, ← rawFiles), none, []⟩

def genDbContent (ver : Nat) (l : Layout) (size : Nat) (bootstrapFirst : Bool) (uni tsp toasty : Bool := false) : Gen DbContent := do
  let nRel ← match ← Gen.below 6 with
    | 0 => pure 0
    | 1 => pure 1
    | _ => Gen.range 1 (3 + 2 * size)
  let names ← Gen.shuffle relNames
  -- now and then relation names beyond ASCII case (review finding C3)
  let names : List Bytes ← (do
    if uni ∧ (← Gen.bool) then return (← Gen.shuffle unicodeRelNames).take 2 ++ names.map strBytes else return names.map strBytes)
  let mut rels : Array GenRel := #[]
  let mut fns : Array Nat := #[1249, 1259]
  let mut oid := 16384 + (← Gen.below 50)
  for i in [0:nRel] do
    let kind ← Gen.oneOf relkinds
    let name := names.getD i (strBytes s!"rel{i}")
    let used := fns
    let r ← genRel ver tsp toasty oid name kind size (fun f => used.contains f)
    for c in r.cls do fns := fns.push c.val.filenode
    rels := rels.push r
    oid := oid + 4 + (← Gen.below 90)
  -- system catalogs: mapped pg_class (filenode 0), pg_proc with storage but no file in the tree
  let sysCls : List (Stored ClassRow) :=
    [⟨{ oid := 1259, name := strBytes "pg_class", kind := 114, filenode := 0, nsp := 11, natts := 33 }, 0x0B00⟩,
     ⟨{ oid := 1255, name := strBytes "pg_proc", kind := 114, filenode := 1255, nsp := 11, natts := 30 }, 0x0B00⟩,
     ⟨{ oid := 2619, name := strBytes "pg_statistic", kind := 114, filenode := 2619, nsp := 11, natts := 31, toast := 2840 }, 0x0B00⟩,
     ⟨{ oid := 2840, name := strBytes "pg_toast_2619", kind := 116, filenode := 2840, nsp := 99 }, 0x0B00⟩]
  let withSys ← Gen.prob 3 4
  -- an aborted CREATE TABLE: row never became visible
  let aborted : List (Stored ClassRow) ← (do
    if ← Gen.prob 1 4 then pure [⟨{ oid := oid + 1000, name := strBytes "aborted_tbl", kind := 114, filenode := oid + 1000 }, 0x0200⟩]
    else pure [])
  let clsRows := (if withSys then sysCls else sysCls.take 1) ++ (rels.toList.map (·.cls)).flatten ++ aborted
  let clsRows ← if ← Gen.prob 1 3 then Gen.shuffle clsRows else pure clsRows
  let relAtts := (rels.toList.map (·.att))
  let relAtts ← if ← Gen.prob 1 3 then Gen.shuffle relAtts else pure relAtts
  let attRows := (if bootstrapFirst then bootstrapAttrs else []) ++ relAtts.flatten
  let cls ← paginate classLen clsRows (← Gen.prob 1 2)
  let att ← paginate (attrLen l) attRows (← Gen.prob 1 2)
  return { cls, att, heaps := rels.toList.filterMap (·.heap),
           raws := rels.toList.filterMap (·.raw) ++ rels.toList.filterMap (·.toastFile),
           detoast := (rels.toList.map (·.detoast)).flatten }

/-- a fast default (open finding C01-MISSINGVAL) for the last user column of one ordinary table that has rows and at least two
columns: rows written "before the ALTER TABLE" (those `genRow` made with fewer stored attributes) lack the column and
PostgreSQL returns the default.  `[]` when the database has no such table or the enlarged pg_attribute rows do not fit -/
def genMissing (l : Layout) (d : DbContent) : Gen (List ((Nat × Int) × Bytes)) := do
  let cands : List AttrRow := d.heaps.filterMap fun (fn, pages) =>
    match relOfFilenode d.cls fn with
    | some r =>
      let attrs := userAttrs d.att r.oid
      if r.kind == 114 ∧ attrs.length ≥ 2 ∧ !pages.flatten.isEmpty then
        match attrs.getLast? with
        | some a => if a.dropped ∨ a.typid == 0 then none else some a
        | none => none
      else none
    | none => none
  match cands with
  | [] => return []
  | a0 :: _ =>
    let a ← Gen.oneOf cands
    let a := if cands.isEmpty then a0 else a
    let payload : Bytes :=
      if a.len = -1 then strBytes "dflt"
      else if a.len = 64 then strBytes "dflt" ++ zeros 60
      else if a.len = 1 then (if a.typid == 16 then [1] else [120])
      else le a.len.toNat 42
    let m := [((a.relid, a.num), payload)]
    if fitB' (d.att.map fun pg => pg.map fun s => formRow (pgAttributeCols l) (attrValsM l m s.val) s.infomask) then return m else return []
where fitB' (pages : List (List Tuple)) : Bool := pages.all fun ts => pageNeed ts ≤ 8192

/-- `r6 := true` (the families of area `cluster`): also the clusters of the open findings C01-TPL / A02 / C01-SEG / C01-TBLSPC and
relation names beyond ASCII case; with `false` (other areas' generators building on this one) every heap is one file under
`base/<db>/`, every value is stored in line, and the name prefix `template` decides as before -/
def genCluster (size : Nat) (r6 : Bool := false) (r11 : Bool := false) : Gen Cluster := do
  let pgVersion ← Gen.oneOf [12, 13, 14, 15, 16, 16, 16]
  let l : Layout := if pgVersion ≥ 16 then .v16 else if pgVersion ≥ 14 then .v14 else .v12
  let nUserDb ← Gen.oneOf [0, 1, 1, 2, 2, 3]
  let names ← Gen.shuffle (if r6 then dbNamesR6 else dbNames)
  let mut dbs : Array (Stored DbRow) := #[⟨{ oid := 1, name := strBytes "template1", isTemplate := true }, 0x0B00⟩,
    ⟨{ oid := 4, name := strBytes "template0", isTemplate := true, allowConn := false }, 0x0B00⟩]
  let pgOid ← Gen.oneOf [5, 13395, 12345]
  dbs := dbs.push ⟨{ oid := pgOid, name := strBytes "postgres" }, ← liveMask⟩
  let mut oid := 16384
  for i in [0:nUserDb] do
    let nm := strBytes (names.getD i "db")
    if ← Gen.prob 1 6 then dbs := dbs.push ⟨{ oid, name := nm ++ strBytes "_before_rename" }, ← deadMask⟩
    dbs := dbs.push ⟨{ oid, name := nm }, ← liveMask⟩
    oid := oid + 1 + (← Gen.below 1000)
  -- now and then the two cases of open finding C01-TPL: a user database whose name starts with `template`, a template
  -- database (datistemplate) with another name
  if r6 ∧ (← Gen.prob 1 30) then
    dbs := dbs.push ⟨{ oid, name := strBytes "template_foo" }, ← liveMask⟩
    oid := oid + 1 + (← Gen.below 1000)
  if r6 ∧ (← Gen.prob 1 30) then
    dbs := dbs.push ⟨{ oid, name := strBytes "golden", isTemplate := true }, ← liveMask⟩
    oid := oid + 1 + (← Gen.below 1000)
  -- a dropped database: dead row, directory possibly still there
  if ← Gen.prob 1 4 then dbs := dbs.push ⟨{ oid := oid + 7, name := strBytes "dropped_db" }, ← deadMask⟩
  let dbl ← if ← Gen.prob 1 3 then Gen.shuffle dbs.toList else pure dbs.toList
  -- now and then a cluster with relation names beyond ASCII case (finding C3) / with relations in other tablespaces (C01-TBLSPC)
  let uni ← (do if r6 then Gen.prob 1 14 else pure false)
  let tsp ← (do if r6 then Gen.prob 1 16 else pure false)
  let mut content : Array (Nat × DbContent) := #[]
  for s in dbl do
    if content.any (·.1 == s.val.oid) then continue
    let isTpl := isTemplateName s.val.name
    -- templates and postgres are usually small; sometimes a database has no directory at all
    if ← Gen.prob 1 10 then continue
    let sz := if isTpl || s.val.name == strBytes "postgres" then 0 else size
    if isTpl ∧ (← Gen.prob 1 2) then continue
    let boot ← Gen.prob 7 8
    content := content.push (s.val.oid, ← genDbContent pgVersion l sz boot uni tsp r6)
  -- R11 (second review, point 5), `r11 := true` = the families of area `cluster` only (no draw otherwise: the generators of
  -- the other areas that build on this one — dropped, delscan, entry — keep their streams and their classes): now and then a database whose default tablespace is not pg_default (C01-TBLSPC), relocated mapped catalogs
  -- (C01-MAPPED: VACUUM FULL / CLUSTER of pg_database, pg_class, pg_attribute), a column with a fast default (C01-MISSINGVAL)
  let mut dbl := dbl
  let mut globalMap : List (Nat × Nat) := []
  let mut contentL := content.toList
  if r11 then
    if ← Gen.prob 1 24 then
      let spc ← Gen.range 16600 16650
      let victims := dbl.filter fun s => s.val.oid ≥ 16384 ∧ liveBits s.infomask
      match victims with
      | v :: _ => dbl := dbl.map fun s => if s.val.oid == v.val.oid then { s with val := { s.val with tblspc := spc } } else s
      | [] => pure ()
    if ← Gen.prob 1 80 then
      globalMap := [(1262, ← Gen.range 300000 300999)] ++ (if ← Gen.bool then [(1260, 301500)] else [])
    let mut out : Array (Nat × DbContent) := #[]
    for (o, d) in contentL do
      let mut d := d
      if ← Gen.prob 1 50 then
        let which ← Gen.below 3
        let n1 ← Gen.range 310000 310999
        let n2 ← Gen.range 311000 311999
        d := { d with relmap := (if which != 1 then [(1259, n1)] else []) ++ (if which != 0 then [(1249, n2)] else []) }
      if ← Gen.prob 1 20 then
        let m ← genMissing l d
        d := { d with missing := m }
      out := out.push (o, d)
    contentL := out.toList
  let pages ← paginate (fun (s : Stored DbRow) => (formRow (pgDatabaseCols pgVersion) (dbVals pgVersion s.val) s.infomask).len) dbl (← Gen.prob 1 3)
  -- now and then a build with a tiny segment size: heaps of more pages are split into <filenode>, <filenode>.1 … (open
  -- finding C01-SEG)
  let segPages ← (do if r6 ∧ (← Gen.prob 1 16) then Gen.oneOf [1, 1, 2] else pure 0)
  return { pgVersion, dbs := pages, content := contentL, segPages, globalMap }

/-! ### Boolean well-formedness (mirrors Spec.Cluster.WF; used for tags and to reject bad draws) -/

def nodupB [BEq α] : List α → Bool
  | [] => true
  | x :: xs => !xs.contains x && nodupB xs

def nameOKB (n : Bytes) : Bool := 1 ≤ n.length && n.length ≤ 63 && !n.contains 0

def fitB (pages : List (List Tuple)) : Bool := pages.all fun ts => pageNeed ts ≤ 8192

def dbWFB (l : Layout) (d : DbContent) : Bool :=
  !d.cls.isEmpty &&
  nodupB (d.cls.live.map (·.oid)) &&
  nodupB ((d.cls.live.filter (·.filenode != 0)).map (·.filenode)) &&
  d.cls.versions.all (fun s => nameOKB s.val.name && s.val.oid < 2 ^ 32 && 0 < s.val.oid && s.val.filenode < 2 ^ 32 && s.val.kind < 256 && s.infomask < 65536 &&
    s.val.tblspc < 2 ^ 32) &&
  nodupB (d.att.live.map fun a => (a.relid, a.num)) &&
  d.att.versions.all (fun s => nameOKB s.val.name && 0 < s.val.relid && s.val.relid < 2 ^ 32 && s.val.typid < 2 ^ 32 &&
    -32768 ≤ s.val.num && s.val.num < 32768 && -32768 ≤ s.val.len && s.val.len < 32768 && s.infomask < 65536 &&
    (s.val.align == 1 || s.val.align == 2 || s.val.align == 4 || s.val.align == 8)) &&
  fitB (d.cls.map fun pg => pg.map fun s => formRow pgClassCols (classVals s.val) s.infomask) &&
  fitB (d.att.map fun pg => pg.map fun s => formRow (pgAttributeCols l) (attrVals l s.val) s.infomask) &&
  nodupB (d.heaps.map (·.1) ++ d.raws.map (·.1)) &&
  d.heaps.all (fun h =>
    d.cls.live.any (fun r => r.filenode == h.1) &&
    let cols := colsOfFilenode d h.1
    nodupB (cols.map (·.name)) &&
    h.2.all (fun pg => pg.all fun r => decide (r.WF cols) && r.vals.all (detoastKnown d.detoast)) &&
    fitB (h.2.map fun pg => pg.map (formTuple cols)))

def clusterWFB (c : Cluster) : Bool :=
  12 ≤ c.pgVersion && c.pgVersion ≤ 16 &&
  nodupB (c.dbs.live.map (·.oid)) &&
  c.dbs.versions.all (fun s => nameOKB s.val.name && 0 < s.val.oid && s.val.oid < 2 ^ 32 && s.infomask < 65536) &&
  fitB (c.dbs.map fun pg => pg.map fun s => formRow (pgDatabaseCols c.pgVersion) (dbVals c.pgVersion s.val) s.infomask) &&
  nodupB (c.content.map (·.1)) &&
  c.content.all fun p => dbWFB c.layout p.2

end PgVerif.Gen
