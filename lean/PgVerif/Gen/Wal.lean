/-
  Generators of well-formed WAL records / segments / pg_wal directories from the Spec types
  (driver path, core only).  Boundary heavy: records ending exactly at a page end, records leaving
  8 or 16 bytes on a page (next header straddles), records spanning three pages, block references with
  every flag combination, short and long main-data headers.
-/
import PgVerif.Basic.Canon
import PgVerif.Spec.Wal
namespace PgVerif.Gen.Wal
open PgVerif PgVerif.Spec.Wal

/-- bimg_info values on which PG 14 and PG 15/16 agree about the compress header, with that answer -/
def bimgChoices : List (Nat × Bool) :=
  [(0x00, false), (0x02, false), (0x04, false), (0x06, false), (0x01, false), (0x21, false),
   (0x07, true), (0x0B, true), (0x0F, true), (0x13, true), (0x1F, true)]

def genRel : Gen RelFileNode := do
  let spc ← Gen.oneOf [1663, 1664, 0, 2 ^ 32 - 1]
  let db ← Gen.oneOf [0, 1, 5, 16384, 16385, 2 ^ 32 - 1]
  let rel ← match ← Gen.below 8 with
    | 0 => pure 0
    | 1 => pure (2 ^ 32 - 1)
    | _ => Gen.range 16384 16390
  return ⟨spc, db, rel⟩

def genImage (maxData : Nat) : Gen Image := do
  let (bimg, comp) ← Gen.oneOf bimgChoices
  let n ← match ← Gen.below 4 with
    | 0 => pure 0
    | 1 => pure (min maxData 300)
    | _ => Gen.range 0 (min maxData 40)
  let hl ← Gen.oneOf [0, 8000, 65535]
  return { data := ← Gen.bytes n, holeOffset := ← Gen.oneOf [0, 24, 100, 65535], bimgInfo := bimg,
           holeLength := if comp then some hl else none }

/-- `k` block references with ascending ids; the first one always carries a relation -/
def genBlocks (k : Nat) (maxData : Nat) : Gen (List BlockRef) := do
  let mut out : Array BlockRef := #[]
  let mut id ← Gen.oneOf [0, 0, 0, 1, 5, 28]
  for i in [0:k] do
    let hasRel ← if i == 0 then pure true else Gen.prob 1 2
    let rel ← if hasRel then some <$> genRel else pure none
    let image ← if ← Gen.prob 1 3 then some <$> genImage maxData else pure none
    let data ← if ← Gen.prob 1 2 then some <$> Gen.bytes (← Gen.range 1 (max 1 (min maxData 30))) else pure none
    let blkno ← Gen.oneOf [0, 1, 7, 131071, 2 ^ 32 - 1]
    out := out.push { id := min id 32, fork := ← Gen.oneOf [0, 0, 1, 2, 3, 15], willInit := ← Gen.prob 1 4,
                      image, data, rel, blkno }
    id := id + 1 + (← Gen.below 2)
  return out.toList

/-- (rmid, info): mostly the resource managers PostgreSQL has, sometimes anything -/
def genRmInfo : Gen (Nat × Nat) := do
  match ← Gen.below 8 with
  | 0 => return (← Gen.below 256, ← Gen.below 256)
  | 1 | 2 => return (1, (← Gen.oneOf [0x00, 0x20, 0x30, 0x40, 0x10, 0x50, 0x60]) + (← Gen.oneOf [0, 0x80, 1]))
  | 3 => return (4, ← Gen.oneOf [0x00, 0x10, 0x20, 0x30])
  | _ => return (← Gen.below 22, 16 * (← Gen.below 16) + (← Gen.oneOf [0, 0, 0, 1, 2, 15]))

/-- main-data length that makes headers + data fill at most `room` bytes -/
def fitMain (room : Nat) : Nat :=
  if room ≤ 2 then 0 else if room ≤ 257 then room - 2 else if room ≤ 260 then 255 else room - 5

/-- a record of total length ≤ `target` (and as close to it as the format allows; `target ≥ 24`);
`noDbase`: stay outside the known-finding class C17-dbase-ops (no Database record) -/
def genRecord (target : Nat) (noDbase : Bool := false) : Gen WalRecord := do
  let (rmid, info) ← genRmInfo
  let rmid := if noDbase && rmid == 4 then 5 else rmid
  let xid ← match ← Gen.below 6 with
    | 0 => pure 0
    | 1 => Gen.below (2 ^ 32)
    | _ => Gen.range 700 704
  let room := target - 24
  let k ← if room < 40 then pure 0 else match ← Gen.below 4 with
    | 0 => pure 0
    | _ => Gen.range 1 4
  let blocks ← genBlocks k (room / (2 * max k 1) )
  let origin ← if room > 200 && (← Gen.prob 1 6) then some <$> Gen.oneOf [1, 65535] else pure none
  let topXid ← if room > 200 && (← Gen.prob 1 6) then some <$> Gen.below (2 ^ 32) else pure none
  let r0 : WalRecord := { xid, prev := ← Gen.below (2 ^ 64), info, rmid, crc := ← Gen.below (2 ^ 32),
                          blocks, origin, topXid, mainData := [] }
  let used := r0.totLen
  let r0 := if used > target then { r0 with blocks := [], origin := none, topXid := none } else r0
  let room := target - r0.totLen
  let ml := fitMain room
  -- sometimes a shorter main data than would fit (when the target is not a boundary request this is harmless)
  return { r0 with mainData := ← Gen.bytes ml }

/-- in-page free bytes from stream position `o` to the end of its page -/
def roomOnPage (o : Nat) : Nat := 8192 - (locate o).2

structure SegParams where
  maxPages : Nat
  allowKf : Bool

/-- records filling about `pages` pages; the total length of each is chosen from the page geometry
(records whose header straddles a page end and cross-page records with block references included: repaired by
fixes/wal/04, 05).  `allowKf` = Database records (known finding C17-dbase-ops) may occur. -/
def genRecords (pre : Nat) (pages : Nat) (allowKf : Bool) : Gen (List WalRecord) := do
  -- a third of the segments are dense: small records only (plus the page-geometry choices)
  let dense ← Gen.prob 1 3
  let mut o := align8 pre
  let limit := pageStart pages          -- stream capacity of `pages` pages
  let mut out : Array WalRecord := #[]
  let mut stop := false
  for _ in [0:4000] do
    if !stop then
      let left := limit - o
      if left < 24 then stop := true
      else
        let room := roomOnPage o
        let pick ← Gen.below 16
        -- dense segments keep the page-geometry choices for the last few hundred bytes of a page
        let pick := if dense && room > 400 && pick < 6 then 11 else pick
        let want ← match pick with
          | 0 | 1 => pure room                       -- end exactly at the page end
          | 2 => pure (room + capN)                  -- end exactly at the end of the next page
          | 3 => pure (room - 8)                     -- leave 8 bytes: next header straddles
          | 4 => pure (room - 16)
          | 5 => pure (room - 24)                    -- leave exactly one header's worth
          | 6 => if dense then Gen.range 24 120 else Gen.range 8200 16000   -- spans two or three pages
          | 7 => if dense then Gen.oneOf [24, 27, 32, 40] else Gen.oneOf [16000, 15999, 24, 27, 281, 282, 285, 8168, 8152]
          | 8 | 9 => if dense then Gen.range 24 120 else Gen.range 200 3000
          | 10 => pure 24
          | _ => Gen.range 24 200
        let want := min (min (max want 24) 16000) left
        let r ← genRecord want (!allowKf)
        let r := if !allowKf && r.rmid == 4 then { r with rmid := 6 } else r
        out := out.push r
        o := o + align8 r.totLen
        if ← Gen.prob 1 (if dense then 400 else 40) then stop := true
  return out.toList

def genSegment (maxPages : Nat) (allowKf : Bool) : Gen WalSegment := do
  let pages ← match ← Gen.below 5 with
    | 0 => pure 1
    | 1 => pure maxPages
    | _ => Gen.range 1 maxPages
  let preLen ← match ← Gen.below 6 with
    | 0 => Gen.range 1 300
    | 1 => Gen.oneOf [8152, 8151, 8153, 8152 + 8168, 9000]    -- the continuation fills page 0 (and page 1)
    | _ => pure 0
  let preLen := if pageStart pages ≤ align8 preLen then 0 else preLen
  let pre ← Gen.bytes preLen
  let records ← genRecords preLen pages allowKf
  let segSize ← Gen.oneOf [16777216, 16777216, 1048576, 1073741824]
  let segno ← match ← Gen.below 4 with
    | 0 => pure 0
    | 1 => pure 1
    | 2 => Gen.below 1000
    | _ => pure ((2 ^ 64 - 2 ^ 31) / segSize - 1)
  let tailPages ← match ← Gen.below 4 with
    | 0 => Gen.range 1 2
    | _ => pure 0
  return { magic := ← Gen.oneOf [0xD110, 0xD113], tli := ← Gen.oneOf [1, 1, 2, 7, 2 ^ 32 - 1],
           startAddr := segno * segSize, sysid := ← Gen.below (2 ^ 64), segSize, removable := ← Gen.prob 1 5,
           pre, records, tailPages }

/-- XLogFileName -/
def upHex (width n : Nat) : String :=
  String.ofList ((List.range width).reverse.map fun i =>
    let d := (n / 16 ^ i) % 16
    if d < 10 then Char.ofNat (48 + d) else Char.ofNat (55 + d))

def segFileName (tli startAddr segSize : Nat) : String :=
  let segno := startAddr / segSize
  let perId := 2 ^ 32 / segSize
  upHex 8 tli ++ upHex 8 (segno / perId) ++ upHex 8 (segno % perId)

/-- file names of pg_wal that are not segments -/
def junkNames : List String :=
  ["00000002.history", "000000010000000000000003.partial", "000000010000000000000002.00000028.backup",
   "x", "0000000100000000000000", "00000001000000000000000001", "archive_status.tmp"]

end PgVerif.Gen.Wal
