/-
  Generators of well-formed WAL records / segments / pg_wal directories from the Spec types
  (driver path, core only).  Boundary heavy: records ending exactly at a page end, records leaving
  8 or 16 bytes on a page (next header straddles), records spanning three and more pages — among them records
  longer than 16384 bytes (fixes/wal/11: the tool used to give up there; the format allows up to XLogRecordMaxSize) —,
  block references with every flag combination, short and long main-data headers, every (rmid, info) combination
  incl. the INIT_PAGE bit 0x80 of Heap / Heap2 / BRIN (fixes/wal/12).
-/
import PgVerif.Basic.Canon
import PgVerif.Spec.Wal
namespace PgVerif.Gen.Wal
open PgVerif PgVerif.Spec.Wal

/-- bimg_info values worth trying: the ordinary full-page image with a hole (0x05 on ≤ 14, 0x03 on ≥ 15), each
compression bit of either assignment with and without HAS_HOLE, values on which the two assignments disagree
(0x03, 0x05, 0x09, 0x11) and agree (0x07, 0x0B …) -/
def bimgChoices : List Nat :=
  [0x00, 0x01, 0x02, 0x03, 0x03, 0x04, 0x05, 0x05, 0x06, 0x07, 0x09, 0x0B, 0x0D, 0x0F, 0x11, 0x13, 0x15, 0x1F, 0x21, 0xFF]

def genRel : Gen RelFileNode := do
  let spc ← Gen.oneOf [1663, 1664, 0, 2 ^ 32 - 1]
  let db ← Gen.oneOf [0, 1, 5, 16384, 16385, 2 ^ 32 - 1]
  let rel ← match ← Gen.below 8 with
    | 0 => pure 0
    | 1 => pure (2 ^ 32 - 1)
    | _ => Gen.range 16384 16390
  return ⟨spc, db, rel⟩

/-- an image as PostgreSQL ≤ 14 (`pre15`) / ≥ 15 writes it: hole_length present exactly when that version's rule says so -/
def genImage (pre15 : Bool) (maxData : Nat) : Gen Image := do
  let bimg ← if ← Gen.prob 1 6 then Gen.below 256 else Gen.oneOf bimgChoices
  let comp := compressHdr pre15 bimg
  let n ← match ← Gen.below 4 with
    | 0 => pure 0
    | 1 => pure (min maxData 300)
    | _ => Gen.range 0 (min maxData 40)
  let hl ← Gen.oneOf [0, 8000, 65535]
  return { data := ← Gen.bytes n, holeOffset := ← Gen.oneOf [0, 24, 100, 65535], bimgInfo := bimg,
           holeLength := if comp then some hl else none }

/-- `k` block references with ascending ids; the first one always carries a relation -/
def genBlocks (pre15 : Bool) (k : Nat) (maxData : Nat) : Gen (List BlockRef) := do
  let mut out : Array BlockRef := #[]
  let mut id ← Gen.oneOf [0, 0, 0, 1, 5, 28]
  for i in [0:k] do
    let hasRel ← if i == 0 then pure true else Gen.prob 1 2
    let rel ← if hasRel then some <$> genRel else pure none
    let image ← if ← Gen.prob 1 3 then some <$> genImage pre15 maxData else pure none
    let data ← if ← Gen.prob 1 2 then some <$> Gen.bytes (← Gen.range 1 (max 1 (min maxData 30))) else pure none
    let blkno ← Gen.oneOf [0, 1, 7, 131071, 2 ^ 32 - 1]
    out := out.push { id := min id 32, fork := ← Gen.oneOf [0, 0, 1, 2, 3, 15], willInit := ← Gen.prob 1 4,
                      image, data, rel, blkno }
    id := id + 1 + (← Gen.below 2)
  return out.toList

/-- (rmid, info): mostly the resource managers PostgreSQL has, sometimes anything -/
def genRmInfo : Gen (Nat × Nat) := do
  match ← Gen.below 8 with
  | 0 => return (← Gen.below 256, ← Gen.below 256)
  | 1 | 2 => return (1, (← Gen.oneOf [0x00, 0x20, 0x30, 0x40, 0x10, 0x50, 0x60]) + (← Gen.oneOf [0, 0x80, 1]))
  | 3 => return (4, ← Gen.oneOf [0x00, 0x10, 0x20, 0x30])
  -- the INIT_PAGE combinations PostgreSQL names and those it does not (fixes/wal/12), HEAP_CONFIRM / INVALIDATION (13)
  | 4 => return (← Gen.oneOf [(10, 0x80), (10, 0xA0), (10, 0xC0), (10, 0x90), (10, 0xD0), (10, 0x50), (9, 0xD0), (9, 0x90),
                              (9, 0x80), (17, 0x90), (17, 0xA0), (17, 0x80), (17, 0xB0), (1, 0x60), (1, 0xE0)])
  | _ => return (← Gen.below 22, 16 * (← Gen.below 16) + (← Gen.oneOf [0, 0, 0, 1, 2, 15]))

/-- main-data length that makes headers + data fill at most `room` bytes -/
def fitMain (room : Nat) : Nat :=
  if room ≤ 2 then 0 else if room ≤ 257 then room - 2 else if room ≤ 260 then 255 else room - 5

/-- the main data of a commit / abort record (`XactEnd`).  Outside the known-finding class (`kf = false`) the record
decides exactly the transaction of its header: no subtransactions, and a COMMIT/ABORT_PREPARED names the header's xid
(none when that is 0).  With `kf`: a prepared transaction 700..704 ended from a backend without xid (header xid 0, as
PostgreSQL writes it), or subtransactions 700..704 -/
def genXactEnd (kf : Bool) (op xid : Nat) : Gen (Nat × XactEnd) := do
  let time ← Gen.below (2 ^ 64)
  let prepared := op == 0x30 || op == 0x40
  if kf then
    if prepared then
      let t ← Gen.range 700 704
      return (← Gen.oneOf [0, 0, 0, xid], ⟨time, ← Gen.listOf (← Gen.below 2) (Gen.range 700 704), some t⟩)
    else
      return (xid, ⟨time, ← Gen.listOf (← Gen.below 3) (Gen.range 700 704), none⟩)
  else
    return (xid, ⟨time, [], if prepared && xid != 0 then some xid else none⟩)

/-- a record of total length ≤ `target` (and as close to it as the format allows; `target ≥ 24`);
`noKf`: stay outside the known-finding classes (no Btree record: C17-btree-rmname; commit/abort records decide
their header's transaction only: C17-prepared-xid).  A transaction-manager record with a verdict opcode always gets a
well-formed xl_xact_commit / xl_xact_abort body (its length is then not fitted to `target`). -/
def genRecord (pre15 : Bool) (target : Nat) (noKf : Bool := false) : Gen WalRecord := do
  let (rmid, info) ← genRmInfo
  let rmid := if noKf && rmid == 11 then 12 else rmid
  let xid ← match ← Gen.below 6 with
    | 0 => pure 0
    | 1 => Gen.below (2 ^ 32)
    | _ => Gen.range 700 704
  let room := target - 24
  let k ← if room < 40 then pure 0 else match ← Gen.below 4 with
    | 0 => pure 0
    | _ => Gen.range 1 4
  let blocks ← genBlocks pre15 k (room / (2 * max k 1) )
  let origin ← if room > 200 && (← Gen.prob 1 6) then some <$> Gen.oneOf [1, 65535] else pure none
  let topXid ← if room > 200 && (← Gen.prob 1 6) then some <$> Gen.below (2 ^ 32) else pure none
  let r0 : WalRecord := { xid, prev := ← Gen.below (2 ^ 64), info, rmid, crc := ← Gen.below (2 ^ 32),
                          blocks, origin, topXid, mainData := [] }
  let used := r0.totLen
  let r0 := if used > target then { r0 with blocks := [], origin := none, topXid := none } else r0
  if rmid == 1 && (xactStatus 1 info).isSome then
    let (hx, x) ← genXactEnd (!noKf) (info &&& 0x70) xid
    return { r0 with xid := hx, info := (info &&& 0x7F) + (if x.xinfo == 0 then 0 else 0x80), mainData := encXactEnd x }
  let room := target - r0.totLen
  let ml := fitMain room
  -- sometimes a shorter main data than would fit (when the target is not a boundary request this is harmless)
  return { r0 with mainData := ← Gen.bytes ml }

/-- in-page free bytes from stream position `o` to the end of its page -/
def roomOnPage (o : Nat) : Nat := 8192 - (locate o).2

structure SegParams where
  maxPages : Nat
  allowKf : Bool

/-- records filling about `pages` pages; the total length of each is chosen from the page geometry
(records whose header straddles a page end and cross-page records with block references included: repaired by
fixes/wal/04, 05).  `allowKf` = records in the classes of the open findings may occur (see `genRecord`). -/
def genRecords (pre15 : Bool) (pre : Nat) (pages : Nat) (allowKf : Bool) : Gen (List WalRecord) := do
  -- a third of the segments are dense: small records only (plus the page-geometry choices)
  let dense ← Gen.prob 1 3
  let mut o := align8 pre
  let limit := pageStart pages          -- stream capacity of `pages` pages
  let mut out : Array WalRecord := #[]
  let mut stop := false
  for _ in [0:4000] do
    if !stop then
      let left := limit - o
      if left < 24 then stop := true
      else
        let room := roomOnPage o
        let pick ← Gen.below 16
        -- dense segments keep the page-geometry choices for the last few hundred bytes of a page
        let pick := if dense && room > 400 && pick < 6 then 11 else pick
        let want ← match pick with
          | 0 | 1 => pure room                       -- end exactly at the page end
          | 2 => pure (room + capN)                  -- end exactly at the end of the next page
          | 3 => pure (room - 8)                     -- leave 8 bytes: next header straddles
          | 4 => pure (room - 16)
          | 5 => pure (room - 24)                    -- leave exactly one header's worth
          | 6 => if dense then Gen.range 24 120 else Gen.range 8200 34000   -- spans two to six pages
          | 7 => if dense then Gen.oneOf [24, 27, 32, 40] else
                   Gen.oneOf [16000, 15999, 16384, 16385, 16392, 24504, 40000, 70000, 24, 27, 281, 282, 285, 8168, 8152]
          | 8 | 9 => if dense then Gen.range 24 120 else Gen.range 200 3000
          | 10 => pure 24
          | _ => Gen.range 24 200
        let want := min (max want 24) left
        let r ← genRecord pre15 want (!allowKf)
        out := out.push r
        o := o + align8 r.totLen
        if ← Gen.prob 1 (if dense then 400 else 40) then stop := true
  return out.toList

/-- a segment of PostgreSQL version `magic` -/
def genSegmentM (magic : Nat) (maxPages : Nat) (allowKf : Bool) : Gen WalSegment := do
  let pages ← match ← Gen.below 5 with
    | 0 => pure 1
    | 1 => pure maxPages
    | _ => Gen.range 1 maxPages
  let preLen ← match ← Gen.below 6 with
    | 0 => Gen.range 1 300
    | 1 => Gen.oneOf [8152, 8151, 8153, 8152 + 8168, 9000]    -- the continuation fills page 0 (and page 1)
    | _ => pure 0
  let preLen := if pageStart pages ≤ align8 preLen then 0 else preLen
  let pre ← Gen.bytes preLen
  let records ← genRecords (pre15 magic) preLen pages allowKf
  let segSize ← Gen.oneOf [16777216, 16777216, 1048576, 1073741824]
  let segno ← match ← Gen.below 4 with
    | 0 => pure 0
    | 1 => pure 1
    | 2 => Gen.below 1000
    | _ => pure ((2 ^ 64 - 2 ^ 31) / segSize - 1)
  let tailPages ← match ← Gen.below 4 with
    | 0 => Gen.range 1 2
    | _ => pure 0
  return { magic, tli := ← Gen.oneOf [1, 1, 2, 7, 2 ^ 32 - 1],
           startAddr := segno * segSize, sysid := ← Gen.below (2 ^ 64), segSize, removable := ← Gen.prob 1 5,
           pre, records, tailPages }

/-- a segment with the page magic of any supported version: XLOG_PAGE_MAGIC of PostgreSQL 12, 13, 14, 15, 16 -/
def genSegment (maxPages : Nat) (allowKf : Bool) : Gen WalSegment := do
  genSegmentM (← Gen.oneOf pageMagics) maxPages allowKf

/-- XLogFileName -/
def upHex (width n : Nat) : String :=
  String.ofList ((List.range width).reverse.map fun i =>
    let d := (n / 16 ^ i) % 16
    if d < 10 then Char.ofNat (48 + d) else Char.ofNat (55 + d))

def segFileName (tli startAddr segSize : Nat) : String :=
  let segno := startAddr / segSize
  let perId := 2 ^ 32 / segSize
  upHex 8 tli ++ upHex 8 (segno / perId) ++ upHex 8 (segno % perId)

/-- file names of pg_wal that are not segments: history / partial / backup-label files, wrong lengths, and 24-character
names that are not 24 upper-case hexadecimal digits (a copy, a 24-character `.history` name, lower-case hex, `G`) -/
def junkNames : List String :=
  ["00000002.history", "000000010000000000000003.partial", "000000010000000000000002.00000028.backup",
   "x", "0000000100000000000000", "00000001000000000000000001", "archive_status.tmp",
   "backup_of_segment_000001", "0000000200000000.history", "00000001000000000000000a", "00000001000000000000000G"]

end PgVerif.Gen.Wal
