/-
  Generators of small clusters for the sequence listing (FindSequences / ScanAllSequences): databases with
  0..30 sequences among other relations, and the catalog heap files (pg_database, pg_class) that describe them.
  The catalog files are built with the heap encoder of Spec/Heap.lean (fixed-width columns only).
-/
import PgVerif.Gen.Control
import PgVerif.Gen.Heap
import PgVerif.Spec.SequenceCluster
namespace PgVerif.Gen
open PgVerif PgVerif.Spec

def nameField (n : Bytes) : Bytes := (n ++ zeros 64).take 64

/-- a pg_database row: oid, datname, then the remaining columns as filler -/
def dbRow (oid : Nat) (name : Bytes) : Bytes := le 4 oid ++ nameField name ++ le 4 10 ++ le 4 6 ++ [99, 0, 0, 0]

/-- a pg_class row up to relkind (the 17 columns of schemaPGClass), then filler for the remaining columns -/
def classRow (r : Rel) : Bytes :=
  le 4 r.oid ++ nameField r.name ++ le 4 2200 ++ le 4 (r.oid + 2) ++ le 4 0 ++ le 4 10 ++ le 4 2 ++ le 4 r.filenode ++
    le 4 0 ++ le 4 1 ++ le 4 0x3F800000 ++ le 4 0 ++ le 4 0 ++ [0, 0, 112, r.kind] ++ le 2 3 ++ le 2 0 ++ zeros 8

/-- lay rows out as a heap file, `perPage` live tuples per page; `dead` rows are stored as deleted tuples -/
def heapFileOf (rows : List Bytes) (dead : List Bytes) (natts perPage : Nat) : Bytes :=
  let tuples := rows.map (fun d => plainTuple 0x0900 natts d) ++ dead.map (fun d => plainTuple 0x0500 natts d)
  let rec chunks (fuel : Nat) (ts : List Tuple) : List (List Tuple) :=
    match fuel with
    | 0 => []
    | fuel+1 => if ts.isEmpty then [] else ts.take perPage :: chunks fuel (ts.drop perPage)
  let pages := chunks (tuples.length + 1) tuples
  if pages.isEmpty then encPage (mkPage [] [] 0)
  else pages.flatMap fun ts => encPage (mkPage (ts.map fun t => ([], t)) ((List.range ts.length).map .normal) 16)

def asciiName (pfx : String) (k : Nat) : Bytes := (pfx ++ toString k).toUTF8.toList

def genDb (oid : Nat) (name : Bytes) (maxSeqs : Nat) : Gen Db := do
  let nSeq ← (do match ← Gen.below 5 with
    | 0 => pure 0
    | 1 => pure maxSeqs
    | 2 => Gen.range 1 3
    | _ => Gen.range 0 maxSeqs)
  let nOther ← Gen.range 0 12
  let mut rels : Array Rel := #[]
  for i in [0:nSeq] do
    -- relname is unique only per schema: now and then a sequence repeats the name of an earlier one (public.id_seq, audit.id_seq)
    let nm ← (do if i > 0 && (← Gen.prob 1 4) then pure (asciiName "seq_" (← Gen.below i)) else pure (asciiName "seq_" i))
    rels := rels.push { oid := 16400 + 3 * i, name := nm, filenode := 16400 + 3 * i + (← Gen.below 2) * 5000,
                        kind := 83, seq := some (← genSeqPage) }
  for i in [0:nOther] do
    let kind ← Gen.oneOf [114, 105, 116, 118, 109, 99, 112, 115]   -- r i t v m c p s(lower-case!)
    -- views and composite types have relfilenode 0; catalogs mapped through pg_filenode.map too
    let fn := if kind == 118 || kind == 99 then 0 else 20000 + 7 * i
    rels := rels.push { oid := 20000 + 7 * i, name := asciiName "rel_" i, filenode := fn, kind }
  let shuffled ← Gen.shuffle rels.toList
  return { oid, name, rels := shuffled }

def genSeqCluster (size : Nat) : Gen (List Db) := do
  let nDb ← Gen.range 1 3
  let mut dbs : Array Db := #[]
  for i in [0:nDb] do
    let name ← (do match ← Gen.below 6 with
      | 0 => pure (asciiName "template" i)
      | _ => pure (asciiName "db" i))
    dbs := dbs.push (← genDb (16384 + i) name (min 30 (2 + 7 * size)))
  return dbs.toList

end PgVerif.Gen
