/-
  Generators of dumps for area `export` (C13): names and string values from an adversarial alphabet, every value kind,
  one-column tables with empty/NULL cells, and the coding of a dump as one GoVal (the case argument).
  Driver path only (core Lean).
-/
import PgVerif.Types.ExportDump
import PgVerif.Spec.SqlExport
import PgVerif.Generated.Export
namespace PgVerif.Gen.Export
open PgVerif PgVerif.Export

def s (x : String) : Bytes := strBytes x

/-- key words that need no quotes as names, and words that interact with string prefixes -/
def otherWords : List String := [
  "between", "bigint", "bit", "boolean", "char", "character", "coalesce", "dec", "decimal", "exists", "extract", "float",
  "greatest", "inout", "int", "integer", "interval", "least", "national", "nchar", "none", "nullif", "numeric", "out",
  "overlay", "position", "precision", "real", "row", "setof", "smallint", "substring", "time", "timestamp", "treat",
  "trim", "values", "varchar", "xmlattributes", "abort", "name", "over", "e", "b", "x", "n", "u", "insert", "drop",
  "text", "value", "id", "_", "a1", "a_b", "nan", "inf", "infinity"]

/-- deterministic hostile names / strings -/
def hostile : List Bytes := [
  s "Users", s "1abc", s "a-b", s "a;DROP TABLE x;--", s "a;DROP/**/TABLE/**/x;--", s "a$b", s "a.b", s "übung", s "ÜBUNG",
  s "a b", s "a\tb", s "a\nb", s "a\rb", s "a\r\nb", s "\n", s "\r", s "x\nDROP TABLE y;", s "x\rDROP TABLE y;",
  s "a\"b", s "\"", s "\"\"", s "a'b", s "'", s "''", s "a\\b", s "\\", s "\\n", s "\\\n", s "a\\", s "'\\",
  s "'\\$str", s "'\\$str$", s "'\\$str$ $str0$", s "'\\$str0", s "$str$", s "$str0$", s "$str", s "str$", s "$", s "$$", s "$s", s "r$",
  s "'\\$", s "'\\$s", s "'\\$st", s "'\\tr$", s "$1", s "a$", s "$a$b$a$",
  s "--", s "-- x", s "/*", s "*/", s "/* x */", s "/*/*", s "a/*b", s ";", s "a;", s "); DROP TABLE x; --", s "',''); DROP TABLE x; --",
  s "E'x'", s "e", s "U&\"x\"", s "x'", s "N'", s "B'1'",
  s " ", s " a", s "a ", s "\t", s "\x0b", s "\x0c", s "\x01", s "\x1f", s "\x7f", s "a\x08b",
  s "NULL", s "null", s "TRUE", s "Select", s "SELECT", s "Join", s "0", s "00", s "-1", s "1e5", s "1.5", s ".5", s "+Inf", s "NaN",
  s "é", s "日本語", s "😀", s "a b", s " x", s "\u0085", s "\u00a0x", s "\u2000", s "\u3000", s "\u2028",
  s ",", s "a,b", s "a,\"b\"", s "\\.", s "#", s "# Database: x, Table: y", s "a, Table: b", s "x (OID: 1)", s " (3 rows)",
  s "a\n\n# Database: d, Table: t\nc", s "{\"a\":1}", s "[1,2]", s "<>&"
]

/-- the alphabet random strings are drawn from (NUL-free) -/
def alphabet : List Bytes := [
  [39], [34], [92], [36], [59], [45], [47], [42], [10], [13], [9], [32], [44], [40], [41], [91], [93], [46], [58], [35],
  [1], [8], [11], [12], [27], [31], [127], s "é", s "Ж", s "日", s "😀", s " ", s " ",
  [65], [90], [97], [98], [101], [110], [115], [116], [114], [122], [95], [48], [49], [57], s "str", s "$str$", s "$str", s "--", s "/*", s "*/", s "''",
  s "\\n", s "null"]

def genAlphaString (maxLen : Nat) : Gen Bytes := do
  let n ← Gen.range 0 maxLen
  let parts ← Gen.listOf n (Gen.oneOf alphabet)
  return parts.flatten

def genPlain : Gen Bytes := do
  let n ← Gen.range 1 8
  let first ← Gen.oneOf (s "abcxyz_").toArray.toList
  let rest ← Gen.listOf (n - 1) (Gen.oneOf (s "abcdeknrtuxz_019").toArray.toList)
  return first :: rest

def mixCase (w : Bytes) : Gen Bytes := do
  let mut out : Array UInt8 := #[]
  for c in w do
    let up ← Gen.bool
    out := out.push (if up && 97 ≤ c && c ≤ 122 then c - 32 else c)
  return out.toList

def allKeywords : List Bytes := Spec.SqlExport.mustQuote ++ otherWords.map s

/-- a name: never empty, NUL-free -/
def genName : Gen Bytes := do
  let k ← Gen.below 10
  let n ←
    if k < 3 then Gen.oneOf hostile
    else if k < 5 then genAlphaString 6
    else if k < 7 then genPlain
    else if k < 8 then Gen.oneOf allKeywords
    else if k < 9 then (do mixCase (← Gen.oneOf allKeywords))
    else (do return (← genPlain) ++ (← genAlphaString 2))
  return if n.isEmpty then s "n" else n

/-- strings holding a NUL byte (values only — names are read with cstring() and never hold one): the "char" value 0, a NUL
before / after quotes and backslashes, before an injection payload -/
def nulStrings : List Bytes := [[0], [0, 0], [97, 0], [0, 97], [97, 0, 98], [39, 0, 39], [97, 0, 92], [92, 0, 39], [0, 92, 39],
  s "x" ++ [0] ++ s "'); DROP TABLE x; --", [0] ++ s "'); DROP TABLE x; --", s "a'b\\c" ++ [0] ++ s "d", [10, 0, 10], s "é" ++ [0]]

def genString : Gen Bytes := do
  let k ← Gen.below 20
  if k < 8 then Gen.oneOf hostile
  else if k < 15 then genAlphaString 8
  else if k < 16 then Gen.oneOf nulStrings
  else if k < 17 then (do return (← genAlphaString 3) ++ [0] ++ (← genAlphaString 3))
  else if k < 18 then return []
  else genPlain

def edgeInts : List Int := [0, 1, -1, 9, 10, -10, 99, 100, 32767, -32768, 2147483647, -2147483648, 4294967295, 2147483648,
  9223372036854775807, -9223372036854775808, 1000000, -999999, 42, 7]

def genInt : Gen Int := do
  if ← Gen.prob 2 3 then Gen.oneOf edgeInts
  else do
    let m ← Gen.range 0 100000
    return (if ← Gen.bool then -(m : Int) else m)

def genFloat : Gen GoVal := do
  if ← Gen.prob 3 4 then return .f64 (← Gen.oneOf (Generated.Export.float64Texts.map (·.1)))
  else return .f32 (← Gen.oneOf (Generated.Export.float32Texts.map (·.1)))

/-- make the keys of every object distinct and sorted (a Go map) -/
partial def normalize : GoVal → GoVal
  | .arr xs => .arr (xs.map normalize)
  | .obj kvs =>
    let m := kvs.foldl (fun acc (k, v) => mapInsert acc k (normalize v)) []
    .obj (m.mergeSort fun a b => bytesLe a.1 b.1)
  | v => v

partial def genVal (depth : Nat) : Gen GoVal := do
  let k ← Gen.below (if depth = 0 then 8 else 12)
  match k with
  | 0 => return .nil
  | 1 => return .bool (← Gen.bool)
  | 2 | 3 => return .int (← genInt)
  | 4 => genFloat
  | 5 | 6 | 7 => return .str (← genString)
  | 8 | 9 => do
    let n ← Gen.range 0 3
    return .arr (← Gen.listOf n (genVal (depth - 1)))
  | _ => do
    let n ← Gen.range 0 3
    let kvs ← Gen.listOf n (do return ((← genString), (← genVal (depth - 1))))
    return normalize (.obj kvs)

def typeOids : List Int :=
  (Generated.Export.typeNames.map (·.1)) ++ [0, 1, 99999, -1, 2, 3]

def typeNameOf (oid : Int) : Bytes :=
  match Generated.Export.typeNames.find? (·.1 == oid) with
  | some (_, n) => s n
  | none => s "oid:" ++ decInt oid

def dedupNames (cols : List ColumnInfo) : List ColumnInfo :=
  cols.foldl (fun acc c => if acc.any (·.name == c.name) then acc else acc ++ [c]) []

/-- the array types pgread decodes (keys of arrayElemTypes) -/
def arrayOids : List Int := Generated.Export.arrayElemTypes.map (·.1)

def genColumn : Gen ColumnInfo := do
  -- json / jsonb columns (whose cells must be JSON text whatever their kind) one time in five; array-typed columns
  -- (ARRAY[…]::type, elements typed) one time in five, jsonb[] / float8[] / float4[] / numeric[] often
  let k ← Gen.below 10
  let oid ← (do if k < 2 then Gen.oneOf [(114 : Int), 3802]
                else if k < 3 then Gen.oneOf [(3807 : Int), 1022, 1021, 1231, 1007, 1009]
                else if k < 4 then Gen.oneOf arrayOids
                else Gen.oneOf typeOids)
  return { name := ← genName, type := typeNameOf oid, typID := oid }

/-- a cell value for a column: in an array-typed column mostly arrays (of every kind of element, nested ones included) -/
def genCellVal (c : ColumnInfo) (depth : Nat) : Gen GoVal := do
  if arrayOids.contains c.typID && (← Gen.prob 3 4) then
    let n ← Gen.edgy 0 4
    return .arr (← Gen.listOf n (genVal (depth - 1)))
  else genVal depth

def genRow (cols : List ColumnInfo) (depth : Nat) : Gen Row := do
  let mut kvs : List (Bytes × GoVal) := []
  for c in cols do
    if ← Gen.prob 9 10 then kvs := mapInsert kvs c.name (← genCellVal c depth)
  if ← Gen.prob 1 10 then kvs := mapInsert kvs (← genName) (← genVal depth)
  return kvs.mergeSort fun a b => bytesLe a.1 b.1

/-- one-column table whose cells are mostly empty strings / NULL / missing (A47) -/
def genSparseTable : Gen TableDump := do
  let c ← genColumn
  let n ← Gen.range 1 4
  let rows ← Gen.listOf n (do
    match ← Gen.below 4 with
    | 0 => return [(c.name, GoVal.str [])]
    | 1 => return [(c.name, GoVal.nil)]
    | 2 => return []
    | _ => return [(c.name, GoVal.str (← genString))])
  return { name := ← genName, columns := [c], rows, rowCount := rows.length }

/-- row counts where an exporter that batches, pages or buffers has its boundaries: powers of two and multiples of 100 / 1000, ± 1 -/
def rowBoundaries : List Nat := [255, 256, 257, 511, 512, 513, 999, 1000, 1001, 1023, 1024, 1025, 1999, 2000, 2001, 2047, 2048, 2049,
  2999, 3000, 3001, 99, 100, 101, 199, 200, 201, 499, 500, 501, 1000, 1000, 2000]

/-- a table with MANY cheap rows (one or two int / text columns): the row count is a boundary, or a boundary times 1..3 ± 1 -/
def genBigTable : Gen TableDump := do
  let base ← Gen.oneOf rowBoundaries
  let n ← (do match ← Gen.below 4 with
              | 0 => return (← Gen.oneOf [100, 1000, 1024]) * (← Gen.range 1 3)
              | 1 => Gen.range 900 1100
              | _ => return base)
  let c1 : ColumnInfo := { name := ← genName, type := typeNameOf 23, typID := 23 }
  let c2 : ColumnInfo := { name := ← genName, type := typeNameOf 25, typID := 25 }
  let two ← Gen.bool
  let cols := if two && c2.name != c1.name then [c1, c2] else [c1]
  let v ← genString
  let rows := (List.range n).map fun i =>
    ((cols.map fun c => (c.name, if c.typID == 23 then GoVal.int (i : Nat) else (if i % 50 == 0 then GoVal.str v else GoVal.str (s s!"r{i}")))).mergeSort fun a b => bytesLe a.1 b.1 : Row)
  return { name := ← genName, columns := cols, rows, rowCount := n }

def genTable (size : Nat) : Gen TableDump := do
  if size ≥ 3 && (← Gen.prob 1 80) then genBigTable
  else if ← Gen.prob 1 6 then genSparseTable
  else
    let nc ← Gen.edgy 0 (2 + size)
    let cols := dedupNames (← Gen.listOf nc genColumn)
    let nr ← Gen.edgy 0 (1 + size)
    let rows ← Gen.listOf nr (genRow cols (min size 3))
    let rc : Int ← (do if ← Gen.prob 4 5 then return (rows.length : Int) else genInt)
    return { name := ← genName, columns := cols, rows, rowCount := rc }

def genDb (size : Nat) : Gen DatabaseDump := do
  let nt ← (do if ← Gen.prob 1 8 then pure 0 else Gen.range 1 (1 + size / 2))
  return { oid := ← Gen.oneOf [0, 1, 5, 16384, 4294967295], name := ← genName, tables := ← Gen.listOf nt (genTable size) }

def genDump (size : Nat) : Gen DumpResult := do
  let nd ← Gen.oneOf [1, 1, 1, 1, 1, 2, 2, 0]
  Gen.listOf nd (genDb size)

/-! ### a dump as one GoVal: [[oid, name, [[name, rowCount, [[name, type, typID]…], [row…]]…]]…] -/

def encColumn (c : ColumnInfo) : GoVal := .arr [.str c.name, .str c.type, .int c.typID]
def encTable (t : TableDump) : GoVal :=
  .arr [.str t.name, .int t.rowCount, .arr (t.columns.map encColumn), .arr (t.rows.map .obj)]
def encDb (d : DatabaseDump) : GoVal := .arr [.int d.oid, .str d.name, .arr (d.tables.map encTable)]
def encDump (d : DumpResult) : GoVal := .arr (d.map encDb)

def decColumn : GoVal → ColumnInfo
  | .arr [.str n, .str t, .int i] => { name := n, type := t, typID := i }
  | _ => default
def decRow : GoVal → Row
  | .obj kvs => kvs
  | _ => []
def decTable : GoVal → TableDump
  | .arr [.str n, .int rc, .arr cols, .arr rows] => { name := n, rowCount := rc, columns := cols.map decColumn, rows := rows.map decRow }
  | _ => default
def decDb : GoVal → DatabaseDump
  | .arr [.int o, .str n, .arr ts] => { oid := o.toNat, name := n, tables := ts.map decTable }
  | _ => default
def decDump : GoVal → DumpResult
  | .arr ds => ds.map decDb
  | _ => []

/-! ### reading the canonical text of a GoVal back (for `eval`) -/

partial def parseCanon (cs : List Char) : GoVal × List Char :=
  let hexRun (cs : List Char) : Bytes × List Char :=
    let h := cs.takeWhile fun c => (hexVal c).isSome
    (unhex (String.ofList h), cs.drop h.length)
  match cs with
  | '~' :: r => (.nil, r)
  | 'T' :: r => (.bool true, r)
  | 'F' :: r => (.bool false, r)
  | 'i' :: r =>
    let d := r.takeWhile fun c => c == '-' || c.isDigit
    ((.int (String.ofList d).toInt!), r.drop d.length)
  | 'd' :: r => let h := r.take 16; (.f64 ((unhex (String.ofList h)).foldl (fun a b => a * 256 + b.toNat) 0), r.drop 16)
  | 'e' :: r => let h := r.take 8; (.f32 ((unhex (String.ofList h)).foldl (fun a b => a * 256 + b.toNat) 0), r.drop 8)
  | 's' :: r => let (b, r') := hexRun r; (.str b, r')
  | '[' :: r =>
    let rec elems (cs : List Char) (acc : Array GoVal) : Array GoVal × List Char :=
      match cs with
      | ']' :: r => (acc, r)
      | ',' :: r => elems r acc
      | [] => (acc, [])
      | _ => let (v, r) := parseCanon cs; elems r (acc.push v)
    let (xs, r') := elems r #[]
    (.arr xs.toList, r')
  | '{' :: r =>
    let rec members (cs : List Char) (acc : Array (Bytes × GoVal)) : Array (Bytes × GoVal) × List Char :=
      match cs with
      | '}' :: r => (acc, r)
      | ',' :: r => members r acc
      | [] => (acc, [])
      | _ =>
        let (k, r) := hexRun cs
        let (v, r) := parseCanon (r.drop 1)
        members r (acc.push (k, v))
    let (kvs, r') := members r #[]
    (.obj kvs.toList, r')
  | _ => (.nil, [])

def parseCanonStr (x : String) : GoVal := (parseCanon x.toList).1

end PgVerif.Gen.Export
