/-
  Generators for area toast: pointer fields, pglz token lists, LZ4 blocks, toasted values, TOAST relations.
  Driver path, core only.
-/
import PgVerif.Basic.Canon
import PgVerif.Spec.Toast
namespace PgVerif.Gen.Toast
open PgVerif PgVerif.Spec PgVerif.Spec.Toast

/-! ### content bytes -/

/-- random / repetitive / text-like / run-heavy bytes -/
def genBytes (n : Nat) : Gen Bytes := do
  match ← Gen.below 5 with
  | 0 => Gen.bytes n
  | 1 => do                                   -- short period repeated
    let p ← Gen.range 1 7
    let pat ← Gen.bytes p
    return (List.range n).map fun i => pat.getD (i % p) 0
  | 2 => do                                   -- text-like
    let arr ← Gen.listOf n (Gen.range 97 122)
    return arr.map UInt8.ofNat
  | 3 => return List.replicate n (← Gen.byte)   -- one run
  | _ => do                                   -- runs of random lengths
    let mut out : Array UInt8 := #[]
    while out.size < n do
      let b ← Gen.byte
      let l ← Gen.range 1 40
      for _ in [0:l] do out := out.push b
    return (out.toList.take n)

/-! ### pglz token lists -/

def forcedLens : List Nat := [3, 17, 18, 19, 273, 4, 16, 20, 272]
def forcedOffs : List Nat := [1, 2, 255, 256, 4095, 3, 15, 16, 257, 4094]

/-- a token list producing about `target` bytes; `cur` tracks the output produced so far so that every
offset is valid; tag forms are forced with high probability -/
def genPglzToks (target : Nat) : Gen (List Pglz.Tok) := do
  let mut ts : Array Pglz.Tok := #[.lit (← Gen.byte)]
  let mut cur := 1
  let litNum ← Gen.oneOf [1, 2, 4]       -- literal probability litNum/8
  while cur < target do
    if (← Gen.below 8) < litNum then
      ts := ts.push (.lit (← Gen.byte)); cur := cur + 1
    else
      let len ← match ← Gen.below 3 with
        | 0 => Gen.oneOf forcedLens
        | 1 => Gen.range 3 273
        | _ => Gen.range 3 30
      let offWant ← match ← Gen.below 4 with
        | 0 => Gen.oneOf forcedOffs
        | 1 => Gen.range 1 4095
        | 2 => Gen.range 1 (max len 1)          -- overlapping copy: offset ≤ length
        | _ => Gen.range 1 64
      let lim := min cur 4095
      let pick ← Gen.bool
      let off := if offWant ≤ lim then offWant else if pick then lim else 1 + offWant % lim
      ts := ts.push (.mat off len); cur := cur + len
  return ts.toList

def pglzProduced (ts : List Pglz.Tok) : Nat := (ts.map Pglz.Tok.produces).sum

/-- make the stream smaller than what it stands for (PostgreSQL stores a compressed form only then):
append maximal run matches until `4 + |stream| < |original|` -/
def makeCompressingPglz (ts : List Pglz.Tok) : List Pglz.Tok := Id.run do
  let mut ts := if ts.isEmpty then [Pglz.Tok.lit 0x61] else ts
  for _ in [0:64] do
    if 4 + (Pglz.renderPglz ts).length < pglzProduced ts then break
    ts := ts ++ [.mat 1 273, .mat 1 273]
  return ts

/-! ### LZ4 blocks -/

def genLz4Block (target : Nat) : Gen Lz4.Block := do
  let mut ss : Array Lz4.Seq := #[]
  let mut cur := 0
  while cur < target do
    let nl ← match ← Gen.below 6 with
      | 0 => pure 0
      | 1 => Gen.oneOf [14, 15, 16, 269, 270, 271, 525]
      | _ => Gen.range 1 12
    let nl := if cur = 0 && nl = 0 then 1 else nl
    let lits ← genBytes nl
    let len ← match ← Gen.below 3 with
      | 0 => Gen.oneOf [4, 5, 18, 19, 20, 273, 274, 275, 529]
      | 1 => Gen.range 4 300
      | _ => Gen.range 4 24
    let avail := cur + nl
    let offWant ← match ← Gen.below 4 with
      | 0 => Gen.oneOf [1, 2, 255, 256, 257, 4095, 4096, 65535]
      | 1 => Gen.range 1 65535
      | 2 => Gen.range 1 (max len 1)
      | _ => Gen.range 1 64
    let lim := min avail 65535
    let pick ← Gen.bool
    let off := if offWant ≤ lim then offWant else if pick then lim else 1 + offWant % lim
    ss := ss.push ⟨lits, off, len⟩; cur := avail + len
  let nlast ← match ← Gen.below 4 with
    | 0 => pure 0
    | 1 => Gen.oneOf [5, 15, 270]
    | _ => Gen.range 1 12
  return ⟨ss.toList, ← genBytes nlast⟩

def lz4Produced (b : Lz4.Block) : Nat := (b.seqs.map Lz4.Seq.produces).sum + b.last.length

def makeCompressingLz4 (b : Lz4.Block) : Lz4.Block := Id.run do
  let mut b := if b.seqs.isEmpty then { b with seqs := [⟨[0x61], 1, 4⟩] } else b
  for _ in [0:64] do
    if 4 + (Lz4.render b).length < lz4Produced b then break
    b := { b with seqs := b.seqs ++ [⟨[], 1, 600⟩] }
  return b

/-! ### toasted values -/

/-- upper bound of a plain value's length for a generator size -/
def maxPlain (size : Nat) : Nat :=
  match size with
  | 0 => 64 | 1 => 2048 | 2 => 8192 | 3 => 65536 | 4 => 262144 | _ => 1048576

/-- upper bound of a compressed value's original length -/
def maxCompressed (size : Nat) : Nat :=
  match size with
  | 0 => 64 | 1 => 1024 | 2 => 4096 | 3 => 65536 | 4 => 262144 | _ => 1048576

/-- boundary-heavy length in [1, hi] -/
def genLen (hi : Nat) : Gen Nat := do
  match ← Gen.below 10 with
  | 0 => pure 1
  | 1 => Gen.oneOf [2, 1995, 1996, 1997, 2000, 3992, 3993]
  | 2 => pure hi
  | 3 => Gen.range 1 hi
  | 4 => Gen.range (hi / 2) hi
  | _ => Gen.range 1 (min hi 6000)

def genContent (size : Nat) : Gen Content := do
  match ← Gen.below 4 with
  | 0 => do
    let n ← genLen (maxCompressed size)
    return .pglz (makeCompressingPglz (← genPglzToks n))
  | 1 => do
    let n ← genLen (maxCompressed size)
    return .lz4 (makeCompressingLz4 (← genLz4Block n))
  | _ => do
    let n ← genLen (maxPlain size)
    return .plain (← genBytes (min n (maxPlain size)))

/-- chunk sizes summing to `total`: PostgreSQL's 1996, another fixed size 1..2000, or random sizes;
`maxRows` bounds the number of chunks -/
def genCuts (total : Nat) (maxRows : Nat := 300) : Gen (List Nat) := do
  let fixedCuts (c : Nat) : List Nat :=
    let c := max c ((total + maxRows - 1) / maxRows)
    let c := max c 1
    (List.replicate (total / c) c) ++ (if total % c = 0 then [] else [total % c])
  match ← Gen.below 6 with
  | 0 | 1 => return fixedCuts 1996
  | 2 => return fixedCuts (← Gen.oneOf [1, 2, 3, 1995, 1997, 2000, 500])
  | 3 => return fixedCuts (← Gen.range 1 2000)
  | _ => do
    let lo := max 1 ((total + maxRows - 1) / maxRows)
    let mut out : Array Nat := #[]
    let mut left := total
    while left > 0 do
      let c ← Gen.range lo (max lo 2000)
      let c := min c left
      out := out.push c; left := left - c
    return out.toList

def genValue (id relid size : Nat) : Gen ToastValue := do
  let content ← genContent size
  let cuts ← genCuts content.stored.length
  return { id, relid, content, cuts }

/-! ### relations -/

/-- header states (infomask) PostgreSQL's TOAST snapshot SEES whatever t_xmin ≠ 0 is (`Spec.Toast.toastVisible`): hinted
committed (0x0902, 0x0102, 0x2902), frozen (0x0B02, 0x0302), nothing hinted yet (0x0802, 0x0002 — every chunk until the
first VACUUM), and chunks of deleted values (xmax committed: 0x0502, 0x0402; locked / multixact xmax: 0x1882) -/
def liveMasks : List Nat := [0x0902, 0x0102, 0x0B02, 0x0302, 0x2902, 0x0802, 0x0002, 0x0502, 0x0402, 0x0C02, 0x1882]
/-- header states the TOAST snapshot does NOT see — the dead chunk versions: (infomask, t_xmin is zero).  Aborted insertions
(HEAP_XMIN_INVALID without HEAP_XMIN_COMMITTED, any XMAX bits) and cancelled speculative insertions (t_xmin 0, no XMIN hint) -/
def deadStates : List (Nat × Bool) :=
  [(0x0A02, false), (0x0202, false), (0x0602, false), (0x0E02, false), (0x0A02, true), (0x0802, true), (0x0002, true), (0x0402, true)]

/-- greedily pack entries into pages, now and then closing a page early -/
def packPages (es : List Entry) : Gen Layout := do
  let mut pages : Array (List Entry) := #[]
  let mut cur : Array Entry := #[]
  let mut used := 24
  for e in es do
    let need := 4 + e.len
    let early ← Gen.prob 1 40
    if used + need > 8192 || (early && cur.size > 0) then
      pages := pages.push cur.toList
      cur := #[]; used := 24
    cur := cur.push e; used := used + need
  if cur.size > 0 then pages := pages.push cur.toList
  return pages.toList

/-- all rows of all values plus dead / aborted versions, in a generated physical order -/
def genLayoutWith {α} (pack : List Entry → Gen α) (vals : List ToastValue) : Gen α := do
  let mut es : Array Entry := #[]
  for v in vals do
    for r in chunkRows v do
      let short := r.data.length ≤ 126 && (← Gen.prob 1 10)
      let mask ← if ← Gen.prob 1 3 then Gen.oneOf liveMasks else pure 0x0902
      let xmax ← if mask.testBit 11 then pure 0 else Gen.range 3 100000
      es := es.push { row := { r with short }, infomask := mask, xmin := ← Gen.range 1 100000, xmax }
      -- a dead version of the same chunk (aborted / cancelled insertion), with different bytes
      if ← Gen.prob 1 8 then
        let junk ← genBytes (← Gen.oneOf [r.data.length, 1, r.data.length + 1, 7])
        let (dmask, zeroXmin) ← Gen.oneOf deadStates
        let dxmin ← Gen.range 3 100000
        es := es.push { row := { r with data := if junk.isEmpty then [0] else junk }, infomask := dmask,
                        xmin := if zeroXmin then 0 else dxmin, xmax := ← Gen.range 0 100000 }
  let order ← match ← Gen.below 5 with
    | 0 => pure es.toList
    | 1 => pure es.toList.reverse
    | _ => Gen.shuffle es.toList
  pack order

/-! ### line pointers that are not LP_NORMAL (`Spec.Toast.Hole`) -/

/-- a dead item still stored on the page: a stale version of entry `e`'s chunk (same id and sequence number, other bytes) -/
def genDeadStored (e : Entry) : Gen Hole := do
  let junk ← genBytes (← Gen.oneOf [1, 2, 7, min e.row.data.length 40])
  let (dmask, zeroXmin) ← Gen.oneOf deadStates
  let mask ← if ← Gen.bool then pure dmask else Gen.oneOf liveMasks
  return Hole.deadStored { row := { e.row with data := if junk.isEmpty then [0] else junk, short := false },
                           infomask := mask, xmin := if zeroXmin then 0 else 650, xmax := 0 }

/-- a group of 1–3 consecutive holes in front of entry `e`; LP_UNUSED most often -/
def genHoleGroup (e : Entry) : Gen (List Hole) := do
  let k ← Gen.oneOf [1, 1, 1, 2, 2, 3]
  let mut out : Array Hole := #[]
  for _ in [0:k] do
    let h ← match ← Gen.below 8 with
      | 0 | 1 | 2 | 3 => pure Hole.unused
      | 4 | 5 => pure Hole.dead
      | 6 => genDeadStored e
      | _ => pure (Hole.redirect (← Gen.range 1 40))
    out := out.push h
  return out.toList

def groupCost (g : List Hole) : Nat := 4 * g.length + (g.flatMap (·.storage)).length

/-- `packPages` with holes.  Every page draws a placement mode, boundary-heavy: 0 none, 1 in front of the first pointer
only, 2 behind the last only, 3 both ends, 4 right behind the first pointer (slot 1), 5 everywhere (1 gap in 3),
6 in front of EVERY pointer and behind the last. -/
def packPagesH (es : List Entry) : Gen (Layout × List Holes) := do
  let mut pages : Array (List Entry) := #[]
  let mut holes : Array Holes := #[]
  let mut cur : Array Entry := #[]
  let mut curH : Array (List Hole) := #[]
  let mut used := 24
  let mut mode ← Gen.below 7
  let last : Entry := es.getLastD default
  for e in es do
    let need := 4 + e.len
    let early ← Gen.prob 1 40
    -- room kept for a trailing group (at most 3 pointers + one stored dead item of ≤ 40 + 32 bytes)
    if used + need + 90 > 8192 || (early && cur.size > 0) then
      let g ← if mode == 2 || mode == 3 || mode == 6 || (mode == 5 && (← Gen.prob 1 3)) then genHoleGroup e else pure []
      let g := if used + groupCost g ≤ 8192 then g else []
      pages := pages.push cur.toList
      holes := holes.push (curH.toList ++ [g])
      cur := #[]; curH := #[]; used := 24
      mode ← Gen.below 7
    let want := match mode with
      | 1 | 3 => cur.size == 0
      | 4 => cur.size == 1
      | 6 => true
      | _ => false
    let want ← if mode == 5 then Gen.prob 1 3 else pure want
    let g ← if want then genHoleGroup e else pure []
    let g := if used + need + groupCost g + 90 ≤ 8192 then g else []
    cur := cur.push e; curH := curH.push g; used := used + need + groupCost g
  if cur.size > 0 then
    let g ← if mode == 2 || mode == 3 || mode == 6 || (mode == 5 && (← Gen.prob 1 3)) then genHoleGroup last else pure []
    let g := if used + groupCost g ≤ 8192 then g else []
    pages := pages.push cur.toList
    holes := holes.push (curH.toList ++ [g])
  return (pages.toList, holes.toList)

def genLayout (vals : List ToastValue) : Gen Layout := genLayoutWith packPages vals

/-- a layout with non-NORMAL line pointers before, between and behind the chunks' pointers -/
def genLayoutH (vals : List ToastValue) : Gen (Layout × List Holes) := genLayoutWith packPagesH vals

structure Rel where
  vals : List ToastValue
  lay : Layout
  /-- non-NORMAL line pointers, one `Holes` per page of `lay` (missing = none) -/
  holes : List Holes := []
deriving Inhabited

/-- the relation's heap file -/
def Rel.file (r : Rel) : Bytes := encToastRelH r.lay r.holes

def Rel.hasHoles (r : Rel) : Bool := r.holes.any fun hs => hs.any fun g => !g.isEmpty

/-- an LP_UNUSED pointer with a NORMAL pointer somewhere behind it on the same page -/
def Rel.midUnused (r : Rel) : Bool :=
  (r.lay.zip r.holes).any fun (pg, hs) =>
    (List.range pg.length).any fun i => (holesAt hs i).any fun h => h.flags == 0

def genRelWith (layout : List ToastValue → Gen (Layout × List Holes)) (size : Nat) : Gen Rel := do
  let relid ← Gen.oneOf [16385, 2619, 4294967295, 1]
  let nv ← match ← Gen.below 8 with
    | 0 => pure 1
    | 1 => Gen.range 2 5
    | 2 => Gen.range 6 (if size ≥ 3 then 50 else 12)
    | 3 => pure (if size ≥ 3 then 50 else 12)
    | _ => Gen.range 1 4
  let base ← Gen.oneOf [1, 16384, 4294967295 - nv, 100000]
  let mut vals : Array ToastValue := #[]
  for i in [0:nv] do
    -- many values per relation: keep them small so that the whole relation stays moderate
    let sz := if nv > 5 then min size 1 else size
    vals := vals.push (← genValue (base + i) relid sz)
  let (lay, holes) ← layout vals.toList
  return { vals := vals.toList, lay, holes }

/-- dense pointer arrays (freshly loaded relation) -/
def genRel (size : Nat) : Gen Rel := genRelWith (fun vs => do return (← genLayout vs, [])) size

/-- pointer arrays as deletes + VACUUM leave them: with LP_UNUSED / LP_DEAD / LP_REDIRECT entries -/
def genRelH (size : Nat) : Gen Rel := genRelWith genLayoutH size

/-- all permutations of a list -/
def perms : List α → List (List α)
  | [] => [[]]
  | x :: xs => (perms xs).flatMap fun p => (List.range (p.length + 1)).map fun i => p.take i ++ [x] ++ p.drop i

end PgVerif.Gen.Toast
