/-
  Generators of well-formed index files from the Spec types (driver path, core only).
-/
import PgVerif.Basic.Canon
import PgVerif.Spec.Index
import PgVerif.Gen.Mutate
namespace PgVerif.Gen.Index
open PgVerif PgVerif.Spec.Index

/-- link / level / block-number classes: P_NONE, small, around 2^31, InvalidBlockNumber, anything -/
def genU32 : Gen Nat := do
  match ← Gen.below 10 with
  | 0 => pure 0
  | 1 => pure 1
  | 2 => Gen.range 2 300
  | 3 => pure 0xFFFFFFFF
  | 4 => pure 0xFFFFFFFE
  | 5 => Gen.oneOf [0x7FFFFFFF, 0x80000000, 0x80000001, 0x0000FFFF, 0x00010000, 0x00FFFFFF, 0x01000000]
  | _ => Gen.below (2 ^ 32)

def u32Class (v : Nat) : String :=
  if v == 0 then "0" else if v < 65536 then "small" else if v == 0xFFFFFFFF then "invalid" else if v ≥ 2 ^ 31 then "hi" else "mid"

def genU16 : Gen Nat := do
  match ← Gen.below 6 with
  | 0 => pure 0
  | 1 => pure 0xFFFF
  | 2 => Gen.oneOf [1, 0x7FFF, 0x8000, 0xFF, 0x100, 0xFFFE]
  | _ => Gen.below (2 ^ 16)

def genU64 : Gen Nat := do
  match ← Gen.below 6 with
  | 0 => pure 0
  | 1 => pure (2 ^ 64 - 1)
  | 2 => Gen.oneOf [1, 2 ^ 32 - 1, 2 ^ 32, 2 ^ 63 - 1, 2 ^ 63, 2 ^ 32 + 1]
  | _ => do return (← Gen.below (2 ^ 32)) * 2 ^ 32 + (← Gen.below (2 ^ 32))

def genI63 : Gen Nat := do return (← genU64) % 2 ^ 63

/-- flag word: a typical combination of the defined bits, or anything in the word's range -/
def genFlags (am : AM) : Gen Nat := do
  let defined := (pgFlagNames am).length
  match ← Gen.below 4 with
  | 0 => pure (2 ^ (← Gen.below defined))
  | 1 => Gen.below (2 ^ defined)
  | 2 => pure 0
  | _ => if am == .gin then Gen.below 256 else Gen.below 65536

/-- B-tree cycle id: 0 (the usual), the boundaries of the valid range, anything valid -/
def genCycle : Gen Nat := do
  match ← Gen.below 5 with
  | 0 => pure 0
  | 1 => Gen.oneOf [1, 0xFF00, 0xFF01, 0xFF7E, 0xFF7F, 0xFEFF, 0x8000, 0x7FFF, 0xF091, 0xF092, 0xF093]
  | _ => Gen.range 0 0xFF7F

/-- an opaque struct of method `am` with the given flag word -/
def genOpaque (am : AM) (flags : Nat) : Gen Opaque := do
  match am with
  | .btree => return .btree (← genU32) (← genU32) (← genU32) flags (← genCycle)
  | .hash => return .hash (← genU32) (← genU32) (← genU32) flags
  | .gist => return .gist (← genU64) (← genU32) flags
  | .gin => return .gin (← genU32) (← genU16) flags
  | .spgist => return .spgist flags (← genU16) (← genU16)
  | .brin => return .brin (← genU16) (← genU16) flags (← Gen.oneOf [0xF091, 0xF092, 0xF093])

/-- `n` bytes, mostly zero, with a few random bytes sprinkled in (the page body is opaque to the tool) -/
def sparse (n : Nat) : Gen Bytes := do
  let k ← Gen.below 4
  let mut bs := zeros n
  for _ in [0:k] do
    let p ← Gen.below (max n 1)
    bs := Gen.setAt bs p (← Gen.bytes (← Gen.range 1 6))
  return bs

def setBit (v k : Nat) (b : Bool) : Nat := if b then v ||| 2 ^ k else v &&& (2 ^ 16 - 1 - 2 ^ k)

/-- header fields: item count 0..400 (boundary-heavy), pd_lower possibly not a multiple of 4 (metapages),
pd_upper anywhere between pd_lower and pd_special -/
def genPageWith (op : Opaque) (body : Bytes) : Gen Page := do
  let special := 8192 - op.size
  let items ← match ← Gen.below 6 with
    | 0 => pure 0
    | 1 => pure 400
    | 2 => Gen.oneOf [1, 2, 399, 407, 100]
    | _ => Gen.range 0 400
  let slack ← if ← Gen.prob 1 5 then Gen.range 1 3 else pure 0
  let lower := 24 + 4 * items + slack
  let upper ← Gen.edgy lower special
  let (hi, lo) ← match ← Gen.below 5 with
    | 0 => pure (0, 0)
    | 1 => do pure (0, ← genU32)
    | 2 => do pure (← Gen.range 1 64, ← genU32)
    | _ => do pure (← genU32, ← genU32)
  return { xlogid := hi, xrecoff := lo, checksum := ← genU16, pdflags := ← Gen.below 8, lower, upper,
           psv := 8192 + 4, prune := ← genU32, body, op }

def genPage (am : AM) (flags : Nat) : Gen Page := do
  let op ← genOpaque am flags
  genPageWith op (← sparse (8192 - op.size - 24))

def genMeta (am : AM) : Gen (Option Meta) := do
  match am with
  | .btree => return some (.btree { version := ← Gen.oneOf [2, 3, 4, 0, 0xFFFFFFFF], root := ← genU32, level := ← genU32,
                                     fastroot := ← genU32, fastlevel := ← genU32 })
  | .hash => return some (.hash { magic := ← Gen.oneOf [0x6440640, 0, 0xFFFFFFFF], version := ← Gen.oneOf [4, 2, 3, 0xFFFFFFFF],
                                   ntuples := ← genU64, ffactor := ← genU16, bsize := ← genU16, bmsize := ← genU16,
                                   bmshift := ← genU16, maxbucket := ← genU32, highmask := ← genU32, lowmask := ← genU32 })
  | .gin => return some (.gin { head := ← genU32, tail := ← genU32, tailFree := ← genU32, nPendingPages := ← genU32,
                                 nPendingHeapTuples := ← genI63, nTotalPages := ← genU32, nEntryPages := ← genU32,
                                 nDataPages := ← genU32, pad := ← Gen.oneOf [0, 0xFFFFFFFF, 0x01020304], nEntries := ← genI63,
                                 version := ← Gen.oneOf [2, 1, 0, 0x7FFFFFFF] })
  | _ => return none

/-- block 0: with probability 3/4 what PostgreSQL puts there (the metapage for btree/hash/gin — with its contents —,
spgist, brin; the root for gist), otherwise an arbitrary page of the method (a later segment file) -/
def genFirst (am : AM) : Gen (Page × Option Meta) := do
  let usual ← Gen.prob 3 4
  let flags ← genFlags am
  match am.metaBit with
  | some b =>
    if usual then
      let m ← genMeta am
      let mb := match m with | some m => encMeta m | none => []
      let op ← genOpaque am (setBit flags b true)
      let zeroCycle ← Gen.prob 3 4
      let op := match op with | .btree p n l f _ => if zeroCycle then .btree p n l f 0 else op | o => o
      let rest ← sparse (8192 - op.size - 24 - mb.length)
      let p ← genPageWith op (mb ++ rest)
      return (p, m)
    else
      return (← genPage am (setBit flags b false), none)
  | none =>
    let p ← genPage am flags
    if usual then
      match p.op with
      | .spgist f a b => return ({ p with op := .spgist (setBit f 0 true) a b }, none)
      | .brin a b f _ => return ({ p with op := .brin a b f 0xF091 }, none)
      | _ => return (p, none)
    else return (p, none)

/-- a whole file: block 0 as above, then `n - 1` further pages -/
def genFile (am : AM) (n : Nat) : Gen File := do
  let (p0, m) ← genFirst am
  let rest ← Gen.listOf (n - 1) (do genPage am (← genFlags am))
  let tail ← if ← Gen.prob 1 6 then sparse (← Gen.edgy 1 8191) else pure []
  return { am, pages := p0 :: rest, metaPage := m, tail }

/-- a deterministic plain page of a method with the given flag word (used by the exhaustive families) -/
def plainPage (am : AM) (flags : Nat) (k : Nat) : Page :=
  let op : Opaque := match am with
    | .btree => .btree k (k + 1) (k % 3) flags 0
    | .hash => .hash k (k + 1) (k + 7) flags
    | .gist => .gist (k * 65537) (k + 1) flags
    | .gin => .gin (k + 1) (k % 500) flags
    | .spgist => .spgist flags (k % 7) (k % 5)
    | .brin => .brin 0 0 flags (0xF092 + k % 2)
  { xlogid := k % 3, xrecoff := 0x1000 + 8 * k, checksum := 0, pdflags := 0, lower := 24 + 4 * (k % 401), upper := 8192 - op.size,
    psv := 8192 + 4, prune := 0, body := zeros (8192 - op.size - 24), op }

/-- block 0 as PostgreSQL writes it for a fresh index of the method (metapage where the method has one) -/
def usualFirst (am : AM) : Page × Option Meta :=
  let withMeta (m : Meta) (op : Opaque) : Page × Option Meta :=
    let mb := encMeta m
    ({ (plainPage am 0 0) with op, lower := 24 + mb.length, body := mb ++ zeros (8192 - op.size - 24 - mb.length) }, some m)
  match am with
  | .btree => withMeta (.btree { version := 4, root := 1, level := 0, fastroot := 1, fastlevel := 0 }) (.btree 0 0 0 8 0)
  | .hash => withMeta (.hash { magic := 0x6440640, version := 4, ntuples := 0x4059000000000000, ffactor := 307, bsize := 8152,
                                bmsize := 4096, bmshift := 15, maxbucket := 1, highmask := 3, lowmask := 1 })
                      (.hash 0xFFFFFFFF 0xFFFFFFFF 0xFFFFFFFF 8)
  | .gin => withMeta (.gin { head := 0xFFFFFFFF, tail := 0xFFFFFFFF, tailFree := 0, nPendingPages := 0, nPendingHeapTuples := 0,
                              nTotalPages := 2, nEntryPages := 1, nDataPages := 0, pad := 0, nEntries := 0, version := 2 })
                     (.gin 0xFFFFFFFF 0 8)
  | .gist => (plainPage .gist 1 0, none)
  | .spgist => ({ (plainPage .spgist 1 0) with op := .spgist 1 0 0 }, none)
  | .brin => ({ (plainPage .brin 0 0) with op := .brin 0 0 0 0xF091 }, none)

end PgVerif.Gen.Index
