/-
  Generators for C15: dumps (several databases and tables, every value kind, nesting up to depth 5, strings
  inside JSON objects and arrays, object keys), patterns of the grammar of Model/SearchRe.lean built from fragments
  of the words that occur in the dump (so that matches are frequent), invalid patterns, credential-shaped tokens.
  Driver path: core Lean only.
-/
import PgVerif.Spec.Search
import PgVerif.Model.SearchRe
import PgVerif.Generated.Search
namespace PgVerif.Gen.Search
open PgVerif PgVerif.Spec.Search PgVerif.Model.SearchRe

def words : List String :=
  ["alice", "Bob", "API_KEY", "sk_live", "token", "Secret", "pass", "x", "user42", "2024-01-15", "a@b.com", "id",
   "NULL", "true", "12", "admin", "Zed", "key", "value", "007", "ab", "AB", "hello world", "false", "nil", "1.5", "-1",
   -- what pgread's decoder makes of a bytea value: the text `\\x<hex>` (a string, not a Go []byte)
   "\\xdeadbeef", "\\x736b5f6c697665"]

def seps : List String := [" ", "-", "_", ":", "/", "", ",", "="]

def flipCase (c : UInt8) : UInt8 :=
  if 97 ≤ c ∧ c ≤ 122 then c - 32 else if 65 ≤ c ∧ c ≤ 90 then c + 32 else c

/-- a text: 0–3 words joined by separators, some letters with flipped case, rarely a line feed -/
def genText : Gen Bytes := do
  let n ← Gen.oneOf [0, 1, 1, 1, 2, 2, 3]
  let mut out : Bytes := []
  for i in [0:n] do
    if i > 0 then out := out ++ strBytes (← Gen.oneOf seps)
    let w := strBytes (← Gen.oneOf words)
    let w ← if ← Gen.prob 1 5 then w.mapM (fun c => do return if ← Gen.prob 1 3 then flipCase c else c) else pure w
    out := out ++ w
  if ← Gen.prob 1 25 then out := out ++ [10] ++ strBytes (← Gen.oneOf words)
  return out

def genKey : Gen Bytes := do
  if ← Gen.prob 1 12 then return [] else return strBytes (← Gen.oneOf words)

def genInt : Gen Int := do
  match ← Gen.below 8 with
  | 0 => return 0
  | 1 => return -1
  | 2 => return 12
  | 3 => return 42
  | 4 => return 2147483647
  | 5 => return -9223372036854775808
  | 6 => return Int.ofNat (← Gen.below 100000)
  | _ => return -(Int.ofNat (← Gen.below 1000))

/-- distinct keys (Go map) -/
def dedupKeys (kvs : List (Bytes × GoVal)) : List (Bytes × GoVal) :=
  kvs.foldl (fun acc kv => if acc.any (·.1 == kv.1) then acc else acc ++ [kv]) []

/-- a value of any kind; containers only while `depth > 0` -/
def genVal : Nat → Gen GoVal
  | 0 => do
    match ← Gen.below 12 with
    | 0 => return .nil
    | 1 => return .bool (← Gen.bool)
    | 2 | 3 => return .int (← genInt)
    | 4 => return .f64 ((← Gen.oneOf Generated.Search.f64Text).1)
    | 5 => return .f32 ((← Gen.oneOf Generated.Search.f32Text).1)
    | _ => return .str (← genText)
  | d+1 => do
    match ← Gen.below 10 with
    | 0 | 1 | 2 => do
      let n ← Gen.oneOf [0, 1, 2, 2, 3]
      return .arr (← Gen.listOf n (genVal d))
    | 3 | 4 | 5 => do
      let n ← Gen.oneOf [0, 1, 2, 2, 3]
      let kvs ← Gen.listOf n (do let k ← genKey; let v ← genVal d; return (k, v))
      return .obj (dedupKeys kvs)
    | _ => genVal 0

def colNames : List String := ["id", "name", "email", "data", "note", "KEY", "value", "x", "created", ""]

def genTable (size : Nat) : Gen Table := do
  let name := strBytes (← Gen.oneOf ["users", "t1", "secrets", "orders", "Users", ""])
  let nc ← Gen.range 1 4
  let cols := ((← Gen.shuffle colNames).take nc).map strBytes
  let nr ← Gen.edgy 0 (2 + size)
  let rows ← Gen.listOf nr (do
    let mut row : Row := []
    for c in cols do
      -- rarely a row lacks a declared column
      if ← Gen.prob 29 30 then
        let depth ← Gen.oneOf [0, 0, 0, 1, 2, 3, 5]
        row := row ++ [(c, ← genVal depth)]
    -- rarely a key that is not a declared column
    if ← Gen.prob 1 15 then
      let k := strBytes (← Gen.oneOf ["extra", "Z", "aaa"])
      row := row ++ [(k, ← genVal 1)]
    -- a Go map has no order: present the row in an arbitrary one
    Gen.shuffle row)
  -- table metadata variants: no declared columns (hand-built dumps), a column declared twice, a declared column no row has
  let declared ← match ← Gen.below 12 with
    | 0 => pure []
    | 1 => pure (cols ++ cols.take 1)
    | 2 => pure (cols ++ [strBytes "ghost"])
    | 3 => pure cols.reverse
    | _ => pure cols
  return { name := name, columns := declared, rows := rows }

def genDump (size : Nat) : Gen Dump := do
  let nd ← Gen.oneOf [0, 1, 1, 2, 2, 3]
  Gen.listOf nd (do
    let name := strBytes (← Gen.oneOf ["postgres", "app", "db2", "app"])
    let nt ← Gen.oneOf [0, 1, 1, 2, 3]
    return { name := name, tables := ← Gen.listOf nt (genTable size) })

/-- nesting depth of a value (scalars 0) -/
partial def depthOf : GoVal → Nat
  | .arr xs => 1 + (xs.map depthOf).foldl max 0
  | .obj kvs => 1 + (kvs.map fun kv => depthOf kv.2).foldl max 0
  | _ => 0

def dumpDepth (d : Dump) : Nat :=
  (d.flatMap fun db => db.tables.flatMap fun t => t.rows.flatMap fun r => r.map fun kv => depthOf kv.2).foldl max 0

/-! ### patterns -/

/-- every string that occurs in a value (strings, keys, scalar texts are added by the caller) -/
partial def stringsOf : GoVal → List Bytes
  | .str s => [s]
  | .arr xs => xs.flatMap stringsOf
  | .obj kvs => kvs.flatMap fun (k, v) => k :: stringsOf v
  | _ => []

def dumpStrings (d : Dump) : List Bytes :=
  d.flatMap fun db => db.tables.flatMap fun t => t.rows.flatMap fun r => r.flatMap fun (_, v) => stringsOf v

def atomFor (c : UInt8) : Gen Atom := do
  if !isSafe c then return .any
  match ← Gen.below 12 with
  | 0 => return .any
  | 1 => if 48 ≤ c ∧ c ≤ 57 then return .digit else return .lit c
  | 2 =>
    if isAlnum c then
      -- a class around the byte, clipped to its alphanumeric run
      let lo := if 48 ≤ c ∧ c ≤ 57 then 48 else if 65 ≤ c ∧ c ≤ 90 then 65 else 97
      let hi := if 48 ≤ c ∧ c ≤ 57 then 57 else if 65 ≤ c ∧ c ≤ 90 then 90 else 122
      let a ← Gen.range lo c.toNat
      let b ← Gen.range c.toNat hi
      return .range (UInt8.ofNat a) (UInt8.ofNat b)
    else return .lit c
  | 3 => return .lit (flipCase c)
  | _ => return .lit c

def genAlt (pool : List Bytes) : Gen Alt := do
  let src ← if pool.isEmpty || (← Gen.prob 1 6) then pure (strBytes (← Gen.oneOf words)) else Gen.oneOf pool
  -- a fragment of the source text: whole, prefix, suffix or inner part
  let n := src.length
  let (lo, hi) ← match ← Gen.below 6 with
    | 0 | 1 => pure (0, n)
    | 2 => do let h ← Gen.range 0 n; pure (0, h)
    | 3 => do let l ← Gen.range 0 n; pure (l, n)
    | 4 => do let l ← Gen.range 0 n; let h ← Gen.range l n; pure (l, h)
    | _ => pure (0, 0)
  let frag := ((src.take hi).drop lo).take 12
  let atoms ← frag.mapM atomFor
  let l ← Gen.prob 1 4
  let r ← Gen.prob 1 4
  return { anchorL := l, atoms := atoms, anchorR := r }

/-- a pattern of the grammar: (flags, text) -/
def genPattern (pool : List Bytes) : Gen Bytes := do
  let na ← Gen.oneOf [1, 1, 1, 2, 2, 3]
  let alts ← Gen.listOf na (genAlt pool)
  let flags ← Gen.oneOf ["", "", "", "", "(?i)", "(?-i)", "(?i)(?-i)"]
  return strBytes flags ++ renderAlts alts

/-! ### full RE2 syntax (evaluated only by Go's regexp, on both sides of the comparison: family `searchre`) -/

def reAtoms : List String :=
  ["a", "b", "e", "1", "_", "x", ".", "\\d", "\\w", "\\s", "\\D", "\\W", "[a-z]", "[^0-9]", "[A-Za-z_]", "[[:alpha:]]", "[[:^digit:]]",
   "\\pL", "\\p{Greek}", "\\PN", "^", "$", "\\b", "\\B", "\\A", "\\z", "\\.", "\\(", "\\Qa.b\\E", "\\x41", "\\x{3b1}", "é", "日", "", "[", "(", "\\", "\\C"]

def reQuants : List String := ["*", "+", "?", "{2}", "{1,3}", "{0,}", "*?", "+?", "??", "{2,1}", "{1001}", "**"]

partial def genRe : Nat → Gen String
  | 0 => do
    if ← Gen.prob 1 2 then
      let w ← Gen.oneOf words
      let n := w.length
      let lo ← Gen.range 0 n
      let hi ← Gen.range lo n
      return String.ofList ((w.toList.take hi).drop lo |>.filter fun c => c.isAlphanum || c == '_' || c == ' ')
    else Gen.oneOf reAtoms
  | d+1 => do
    match ← Gen.below 10 with
    | 0 | 1 => do return (← genRe d) ++ (← genRe d)
    | 2 => do return (← genRe d) ++ "|" ++ (← genRe d)
    | 3 => do return "(" ++ (← genRe d) ++ ")"
    | 4 => do return "(?:" ++ (← genRe d) ++ ")" ++ (← Gen.oneOf reQuants)
    | 5 => do return (← genRe 0) ++ (← Gen.oneOf reQuants)
    | 6 => do return (← Gen.oneOf ["(?i)", "(?s)", "(?m)", "(?U)", "(?-i)", "(?i:", "(?P<n>", "(?<m>", "(?is-m:"]) ++ (← genRe d) ++
                     (if ← Gen.prob 4 5 then ")" else "")
    | _ => genRe d

def uniWords : List String := ["Ünïcode", "日本語", "αβγ", "K", "ſ", "straße", "é"]

/-- patterns that are not valid RE2 syntax -/
def invalidPatterns : List String :=
  ["(", ")", "[a", "*a", "a{2,1}", "a**", "\\", "(?z)", "a{1001}", "[b-a]", "\\8", "(?P<n", "+", "?", "a|*", "[]",
   "[[:foo:]]", "\\pX", "(?i", ")(", "a(b", "x{2}{3}"]

/-! ### credential-shaped tokens (formats the bundled detectors accept without network verification) -/

def hexChars (n : Nat) : Gen Bytes := do
  let ds ← Gen.listOf n (Gen.below 16)
  return ds.map fun d => (hexDigit d).toNat.toUInt8

def digits (n : Nat) : Gen Bytes := do
  let ds ← Gen.listOf n (Gen.below 10)
  return ds.map fun d => UInt8.ofNat (48 + d)

def tokenKinds : List String := ["stripe", "slack", "gitlab", "digitalocean", "doppler", "sendgrid"]

def genToken (kind : String) : Gen Bytes := do
  match kind with
  | "stripe" => return strBytes "sk_live_51" ++ (← hexChars 40)
  | "slack" => return strBytes "xoxb-4152139" ++ (← digits 4) ++ strBytes "-817492837" ++ (← digits 4) ++ strBytes "-" ++ (← hexChars 24)
  | "gitlab" => return strBytes "glpat-" ++ (← hexChars 20)
  | "digitalocean" => return strBytes "dop_v1_" ++ (← hexChars 64)
  | "doppler" => return strBytes "dp.pt." ++ (← hexChars 40)
  | _ => return strBytes "SG." ++ (← hexChars 22) ++ strBytes "." ++ (← hexChars 43)

/-- keyword-context credentials: the OLDER format of detectors that exist in several versions under one detector type
(Heroku v1, npm v1, CircleCI v1, Buildkite v1, Typeform v1) and two current ones (GitHub, npm v2).  The
planted text is `keyword … secret`; the detector reports the secret alone, so the generator also returns how many
leading bytes of the planted text are context (0 for the self-describing formats above). -/
def contextKinds : List String := ["heroku1", "npm1", "circle1", "buildkite1", "typeform1", "github2", "npm2"]

def allTokenKinds : List String := tokenKinds ++ contextKinds

def uuidChars : Gen Bytes := do
  return (← hexChars 8) ++ strBytes "-" ++ (← hexChars 4) ++ strBytes "-4" ++ (← hexChars 3) ++ strBytes "-a" ++ (← hexChars 3) ++
    strBytes "-" ++ (← hexChars 12)

def alnumChars (n : Nat) : Gen Bytes := do
  let cs := "abcdefghijkmnpqrstuvwxyzABCDEFGHJKLMNPQRSTUVWXYZ23456789".toList
  let ds ← Gen.listOf n (Gen.below cs.length)
  return ds.map fun d => (cs.getD d 'a').toNat.toUInt8

/-- (planted text, number of leading context bytes) -/
def genTokenCtx (kind : String) : Gen (Bytes × Nat) := do
  let ctx (pre : String) (sec : Bytes) : Bytes × Nat := (strBytes pre ++ sec, pre.length)
  match kind with
  | "heroku1" => return ctx "HEROKU_API_KEY=" (← uuidChars)
  | "npm1" => return ctx "npm token " (← uuidChars)
  | "circle1" => return ctx "circle token " (← hexChars 40)
  | "buildkite1" => return ctx "buildkite " (← hexChars 40)
  | "typeform1" => return ctx "typeform " (← hexChars 44)
  | "gitlab1" => return ctx "gitlab token " (← alnumChars 20)
  | "github2" => return (strBytes "ghp_" ++ (← alnumChars 36), 0)
  | "npm2" => return (strBytes "npm_" ++ (← alnumChars 36), 0)
  | _ => return ((← genToken kind), 0)

/-! ### what is planted, and what the real detectors make of it (REVIEW.md D6)

`variant` 0 = the credential as is (with its keyword context for the keyword-context kinds); 1 = glued to a word
character on the left (`x` in front); 2 = glued on the right (`Zq9` behind); 3 = the bare secret without its keyword
context (only different from 0 for the keyword-context kinds).  What trufflehog's detector of that kind reports on a text
holding the planted text was observed on the real scanner (boundary-anchored regexes reject a glued token, greedy
classes swallow the suffix, `PrefixRegex` kinds need their keyword within reach) and is re-checked by the Go handler on
every cell text of every case. -/

structure Planted where
  /-- the text put into the cell -/
  needle : Bytes
  /-- the `Raw` the detector reports on a text that holds the needle; `none` = it reports nothing -/
  raw : Option Bytes
  /-- the detector's pre-filter keyword -/
  keyword : Bytes
  /-- the bare secret (what a context-aware scan would report) -/
  secret : Bytes
  /-- the case lies in the class of finding C15-secret-keyword-outside-cell -/
  kf : Bool
deriving Inhabited

def keywordOf (kind : String) : String :=
  match kind with
  | "stripe" => "k_live" | "slack" => "xoxb-" | "gitlab" => "glpat-" | "digitalocean" => "dop_v1_" | "doppler" => "dp.pt."
  | "sendgrid" => "SG." | "heroku1" => "heroku" | "npm1" => "npm" | "circle1" => "circle" | "buildkite1" => "buildkite"
  | "typeform1" => "typeform" | "github2" => "ghp_" | "npm2" => "npm_" | _ => ""

/-- glued on the left: does the detector still report the secret? -/
def gluedLeftFound (kind : String) : Bool :=
  ["stripe", "slack", "heroku1", "npm1", "circle1", "buildkite1", "typeform1", "npm2"].contains kind

/-- glued on the right (`Zq9`): 0 = nothing reported, 1 = the secret, 2 = the secret grown by the suffix -/
def gluedRightResult (kind : String) : Nat :=
  if ["circle1", "npm2"].contains kind then 1
  else if ["stripe", "slack", "doppler", "sendgrid", "github2"].contains kind then 2
  else 0

def gluedSuffix : Bytes := strBytes "Zq9"

def genPlanted (kind : String) (variant : Nat) : Gen Planted := do
  let (text, ctx) ← genTokenCtx kind
  let sec := text.drop ctx
  let kw := strBytes (keywordOf kind)
  match variant % 4 with
  | 1 => return { needle := 120 :: text, raw := if gluedLeftFound kind then some sec else none, keyword := kw, secret := sec, kf := false }
  | 2 =>
    let r := match gluedRightResult kind with | 0 => none | 1 => some sec | _ => some (sec ++ gluedSuffix)
    return { needle := text ++ gluedSuffix, raw := r, keyword := kw, secret := sec, kf := false }
  | 3 =>
    if ctx > 0 then return { needle := sec, raw := some sec, keyword := kw, secret := sec, kf := true }
    else return { needle := text, raw := some sec, keyword := kw, secret := sec, kf := false }
  | _ => return { needle := text, raw := some sec, keyword := kw, secret := sec, kf := false }

end PgVerif.Gen.Search
