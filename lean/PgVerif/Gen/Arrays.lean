/-
  Generators of abstract arrays (Spec.Arrays.PgArray): every array type of the table, 0..6 dimensions, up to 2000
  elements, every lower-bound class, null bitmaps from empty to all-NULL, short and long element headers.
  Driver path, core only.

  Element payloads are random bytes, except for the element types whose *scalar* decoder in pgread is known to
  panic or run away on arbitrary bytes (path/polygon: negative point count; bit/varbit: unbounded bit count) or is
  structured (numeric, jsonb): those get small valid values, so that a case exercises the array layout and not the
  robustness of the scalar decoders (which belongs to C04/C05/C06/C10 of area `scalars`/`numjson`).
-/
import PgVerif.Spec.Arrays
namespace PgVerif.Gen.Arrays
open PgVerif PgVerif.Spec.Arrays

def f64Small (n : Nat) : Bytes :=
  -- the IEEE double of a small non-negative integer < 2^20, computed without floats: exponent/mantissa by hand
  if n = 0 then zeros 8
  else
    let e := Nat.log2 n
    let mant := (n - 2 ^ e) * 2 ^ (52 - e)
    le 8 ((1023 + e) * 2 ^ 52 + mant)

def genPoint : Gen Bytes := do
  let x ← Gen.below 1000; let y ← Gen.below 1000
  return f64Small x ++ f64Small y

/-- a benign payload for a varlena element of type `typOid` -/
def genPayload (typOid : Nat) (maxLen : Nat) : Gen Bytes := do
  if typOid == 602 then          -- path: npts i32, closed i32, dummy i32, points
    let n ← Gen.below 4
    let closed ← Gen.below 2
    let pts ← Gen.listOf n genPoint
    return le 4 n ++ le 4 closed ++ le 4 0 ++ pts.flatten
  else if typOid == 604 then     -- polygon: npts i32, bounding box, points
    let n ← Gen.below 4
    let pts ← Gen.listOf n genPoint
    let bb ← Gen.listOf 2 genPoint
    return le 4 n ++ bb.flatten ++ pts.flatten
  else if typOid == 1560 || typOid == 1562 then   -- bit / varbit: bit count i32, bits
    let nbits ← Gen.edgy 0 (min 200 (maxLen * 8))
    let bs ← Gen.bytes ((nbits + 7) / 8)
    return le 4 nbits ++ bs
  else if typOid == 1700 then    -- numeric, short format: header, base-10000 digits
    let nd ← Gen.below 6
    let weight ← Gen.below 8
    let dscale ← Gen.below 8
    let neg ← Gen.bool
    let ds ← Gen.listOf nd (Gen.below 10000)
    return le 2 (0x8000 + (if neg then 0x2000 else 0) + dscale * 128 + weight) ++ ds.flatMap (le 2)
  else if typOid == 3802 then    -- jsonb: an array of short strings
    let n ← Gen.below 5
    let strs ← Gen.listOf n (do let l ← Gen.below 6; Gen.listOf l (do return UInt8.ofNat (97 + (← Gen.below 26))))
    -- JEntry: string type, length in the low bits; entry 0 carries an end offset (HAS_OFF), equal to its length
    let ents := (List.range n).flatMap fun i => le 4 ((strs.getD i []).length + (if i == 0 then 0x80000000 else 0))
    return le 4 (0x40000000 + n) ++ ents ++ strs.flatten
  else
    let l ← Gen.edgy 0 maxLen
    Gen.bytes l

/-- header policy for varlena elements: 0 short whenever possible, 1 always long, 2 mixed -/
def genDatum (t : ElemType) (hdr : Nat) (big : Bool) : Gen Datum := do
  if t.typlen > 0 then
    -- boundary-heavy fixed elements: all zero, all ones, random
    match ← Gen.below 8 with
    | 0 => return .fixed (zeros t.typlen.toNat)
    | 1 => return .fixed (List.replicate t.typlen.toNat 0xFF)
    | _ => return .fixed (← Gen.bytes t.typlen.toNat)
  else
    let maxLen ← if big then Gen.oneOf [126, 127, 128, 300, 1000] else Gen.oneOf [0, 1, 2, 3, 4, 5, 7, 8, 9, 16, 40, 126]
    let p ← genPayload t.typOid maxLen
    let long ← match hdr with
      | 0 => pure false
      | 1 => pure true
      | _ => Gen.bool
    if long || p.length > 126 then return .long p else return .short p

def lboundClasses (d : Nat) : List Int :=
  [1, 0, -1, -5, 7, 2147483647 - (d : Int) + 1, -2147483648, 1000000]

/-- dims with `k` dimensions whose product stays ≤ `budget` -/
def genDims (k budget : Nat) : Gen (List Nat) := do
  let mut out : Array Nat := #[]
  let mut b := budget
  for j in [0:k] do
    let left := k - j
    -- leave room for the remaining dimensions; bias towards small sizes, sometimes spend the whole budget
    let hi := if left == 1 then b else max 1 (min b (Nat.sqrt b + 1))
    let d ← match ← Gen.below 4 with
      | 0 => pure 1
      | 1 => Gen.range 1 (min hi 3)
      | _ => Gen.edgy 1 hi
    let d := max 1 (min d b)
    out := out.push d
    b := b / d
  return out.toList

/-- null pattern: 0 none, 1 all NULL, 2 one NULL (first, last or middle), 3 p = 1/2, 4 sparse values, 5 sparse NULLs -/
def genNullMask (n pattern : Nat) : Gen (List Bool) := do
  match pattern with
  | 0 => return List.replicate n false
  | 1 => return List.replicate n true
  | 2 =>
    let pos ← Gen.oneOf [0, n - 1, n / 2, 7 % (max n 1), 8 % (max n 1)]
    return (List.range n).map (· == pos)
  | 3 => Gen.listOf n Gen.bool
  | 4 => Gen.listOf n (Gen.prob 9 10)
  | _ => Gen.listOf n (Gen.prob 1 10)

def mkArray (t : ElemType) (dims : List Nat) (nullMask : List Bool) (hdr : Nat) (big : Bool) (lbClass : Nat) : Gen PgArray := do
  let n := if dims.isEmpty then 0 else prod dims
  let mut es : Array (Option Datum) := #[]
  for i in [0:n] do
    if nullMask.getD i false then es := es.push none
    else es := es.push (some (← genDatum t hdr big))
  let lbs := dims.map fun d => (lboundClasses d).getD (lbClass % 8) 1
  -- sometimes an all-present bitmap is stored (an array that once had NULLs)
  let bitmap ← if n > 0 then Gen.prob 1 5 else pure false
  return { et := t, dims, lbounds := lbs, elems := es.toList, bitmap }

/-- dimension shapes of the deterministic prefix: 0, 1, 2, 3 and 6 dimensions -/
def prefixDims : List (List Nat) := [[], [3], [2, 3], [2, 1, 3], [1, 2, 1, 2, 1, 2]]

/-- number of cases of the deterministic prefix: every array type × {no NULLs, NULLs} × {0,1,2,3,6 dims} -/
def prefixCount : Nat := pgArrayTypes.length * 2 * prefixDims.length

/-- case `idx` of the deterministic prefix (element bytes still come from the PRNG of the case) -/
def prefixArray (idx : Nat) : Gen PgArray := do
  let t := pgArrayTypes.getD (idx / 10) default
  let withNulls := (idx / 5) % 2 == 1
  let dims := prefixDims.getD (idx % 5) []
  let n := if dims.isEmpty then 0 else prod dims
  -- NULL in the middle and at the end, so that elements follow a NULL and precede one
  let mask := (List.range n).map fun i => withNulls && (i % 3 == 1 || i + 1 == n)
  mkArray t dims mask (idx % 3) false (idx % 8)

def genArray (size : Nat) : Gen PgArray := do
  let t ← Gen.oneOf pgArrayTypes
  let k ← Gen.oneOf [0, 1, 1, 1, 2, 2, 3, 4, 5, 6]
  let budget ← match ← Gen.below 8 with
    | 0 | 1 | 2 | 3 => pure 16
    | 4 | 5 => pure 100
    | 6 => pure 500
    | _ => pure (if size ≥ 2 then 2000 else 300)
  let dims ← genDims k budget
  let n := if dims.isEmpty then 0 else prod dims
  let pattern ← Gen.oneOf [0, 0, 0, 1, 2, 3, 3, 4, 5]
  let mask ← genNullMask n pattern
  let hdr ← Gen.below 3
  -- large elements only in small arrays (keeps the case lines short)
  let big ← if n ≤ 20 then Gen.prob 1 4 else pure false
  mkArray t dims mask hdr big (← Gen.below 8)

end PgVerif.Gen.Arrays
