/-
  Generators of the Spec values of area block (driver path, core only): page headers, raw blocks,
  relation files, relations cut in segments, database directories.
-/
import PgVerif.Basic.Canon
import PgVerif.Spec.Block
namespace PgVerif.Gen.Block
open PgVerif PgVerif.Spec.BlockAddr

/-- a 16-bit field, boundary-heavy -/
def gen16 : Gen Nat := do
  match ← Gen.below 8 with
  | 0 => pure 0
  | 1 => pure 65535
  | 2 => Gen.oneOf [1, 23, 24, 25, 27, 28, 8191, 8192, 8193, 32768, 65534]
  | _ => Gen.below 65536

def gen32 : Gen Nat := do
  match ← Gen.below 6 with
  | 0 => pure 0
  | 1 => pure (2 ^ 32 - 1)
  | 2 => Gen.oneOf [1, 255, 256, 65535, 65536, 2 ^ 31, 2 ^ 31 - 1]
  | _ => Gen.below (2 ^ 32)

/-- mostly plausible heap-page headers, sometimes arbitrary fields -/
def genHdr : Gen PageHdr := do
  if ← Gen.prob 1 4 then
    return ⟨← gen32, ← gen32, ← gen16, ← gen16, ← gen16, ← gen16, ← gen16, ← gen16, ← gen32⟩
  let nitems ← Gen.edgy 0 291
  let lower := 24 + 4 * nitems
  let special ← Gen.oneOf [8192, 8192, 8176, 8184]
  let upper ← Gen.edgy lower special
  let ver ← Gen.oneOf [4, 4, 4, 1, 3, 5, 0, 255]
  let psz ← Gen.oneOf [8192, 8192, 8192, 8192, 0, 256, 16384, 32768, 65280]
  return ⟨← gen32, ← gen32, ← gen16, ← Gen.below 8, lower, upper, special, psz + ver, ← gen32⟩

/-- 8168 body bytes: zeros with a few random patches (keeps the case lines short) -/
def genBody : Gen Bytes := do
  let k ← Gen.oneOf [0, 1, 1, 2, 3, 8]
  let mut a : Array UInt8 := Array.replicate 8168 0
  for _ in [0:k] do
    let pos ← Gen.edgy 0 8167
    let len ← Gen.range 1 6
    for j in [0:len] do
      if pos + j < 8168 then a := a.set! (pos + j) (← Gen.byte)
  return a.toList

def genBlock : Gen RawBlock := do
  match ← Gen.below 8 with
  | 0 => return zeroBlock
  | 1 => return ⟨zeroHdr, ← genBody⟩                     -- zero header, body maybe not
  | 2 => return ⟨← genHdr, zeros 8168⟩
  | _ => return ⟨← genHdr, ← genBody⟩

def genTail : Gen Bytes := do
  match ← Gen.below 5 with
  | 0 => Gen.bytes (← Gen.oneOf [1, 24, 100, 8191])
  | 1 => return zeros (← Gen.range 1 8191)
  | _ => return []

def genRelFile (maxBlocks : Nat) : Gen RelFile := do
  let n ← Gen.edgy 0 maxBlocks
  return ⟨← Gen.listOf n genBlock, ← genTail⟩

/-- the deterministic block `i` of the exhaustive grid file with `n` blocks -/
def gridBlock (n i : Nat) : RawBlock :=
  if i % 5 == 3 then zeroBlock
  else
    let lower := if i % 13 == 7 then 20 else 24 + 4 * (i % 50)
    let upper := if i % 17 == 9 then 16 else 8192 - 96 * (i % 7)
    let psv := if i % 11 == 5 then 4 else if i % 11 == 6 then 16384 + 4 else 8192 + 4
    ⟨⟨i + 1, 4096 * i + n, (i * 37 + n) % 65536, i % 8, lower, upper, 8192, psv, 0⟩,
     [UInt8.ofNat (i + 1)] ++ zeros 8166 ++ [UInt8.ofNat (n + 1)]⟩

def gridFile (n : Nat) (withTail : Bool) : RelFile :=
  ⟨(List.range n).map (gridBlock n), if withTail then List.replicate (1 + n * 127 % 8191) 0xEE else []⟩

/-- a small marker block for segment tests: recognisable by (segment, index) -/
def markBlock (seg i : Nat) : RawBlock :=
  ⟨⟨seg + 1, i + 1, 0, 0, 28, 8000, 8192, 8196, 0⟩, [UInt8.ofNat (seg * 16 + i)] ++ zeros 8167⟩

end PgVerif.Gen.Block
