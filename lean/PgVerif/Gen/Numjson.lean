/-
  Generators of abstract numerics and JSON documents (area numjson).  Driver path, core only.
  Mostly valid, boundary-heavy: container sizes around the 32-entry offset stride, every padding
  amount, empty containers at every depth, every scalar kind at the root.
-/
import PgVerif.Basic.Canon
import PgVerif.Spec.Jsonb
namespace PgVerif.Gen
open PgVerif PgVerif.Spec

/-! ### numerics -/

def genDigit : Gen Nat := do
  match ← Gen.below 8 with
  | 0 => return 0
  | 1 => return 1
  | 2 => return 9999
  | 3 => return 5000
  | 4 => return (← Gen.below 10) * 1000
  | _ => Gen.below 10000

/-- 0–8 base-10000 digits with leading / trailing zero groups now and then -/
def genDigits : Gen (List Nat) := do
  let n ← Gen.edgy 0 8
  let ds ← Gen.listOf n genDigit
  let ds := if (← Gen.prob 1 6) && n > 0 then 0 :: ds.drop 1 else ds
  let ds := if (← Gen.prob 1 6) && n > 1 then ds.take (n - 1) ++ [0] else ds
  return ds

def genWeight : Gen Int := do
  match ← Gen.below 8 with
  | 0 => return ((← Gen.edgy 0 127) : Int) - 64        -- the whole 7-bit range, edges first
  | 1 => return (← Gen.oneOf [(-1 : Int), 0, 1, -2])
  | _ => return ((← Gen.range 0 32) : Int) - 16

def genNumeric : Gen Numeric := do
  match ← Gen.below 24 with
  | 0 => return .nan
  | 1 => return .pinf
  | 2 => return .ninf
  | _ =>
    let ds ← genDigits
    let w ← genWeight
    let dscale ← (do if ← Gen.prob 1 10 then Gen.range 64 100 else Gen.edgy 0 40)
    return .fin (← Gen.bool) w dscale ds

/-- numerics whose double is exactly determined: ≤ 3 digits, small exponent -/
def genSmallNumeric : Gen Numeric := do
  let n ← Gen.range 0 3
  let ds ← Gen.listOf n genDigit
  let w : Int := ((← Gen.range 0 4) : Int) - 2
  return .fin (← Gen.bool) w (← Gen.range 0 12) ds

/-! ### JSON documents -/

/-- UTF-8 units: ASCII letters and punctuation, 2-, 3- and 4-byte sequences (no decimal digits: key
uniqueness relies on a digit suffix) -/
def utf8Units : List Bytes :=
  [[0x61], [0x62], [0x7a], [0x41], [0x20], [0x5f], [0x22], [0x5c], [0x2f], [0x7b],
   [0xc3, 0xa9], [0xe2, 0x82, 0xac], [0xf0, 0x9f, 0x98, 0x80], [0xd0, 0x96]]

def genText (maxUnits : Nat) : Gen Bytes := do
  let n ← Gen.edgy 0 maxUnits
  let us ← Gen.listOf n (Gen.oneOf utf8Units)
  return us.flatten

/-- strings of 0..300 bytes, short ones most of the time -/
def genString : Gen Bytes := do
  match ← Gen.below 10 with
  | 0 => return []
  | 1 => return (← genText 100).take 300
  | 2 => do
    let n ← Gen.oneOf [1, 2, 3, 4, 5, 7, 8, 299, 300]
    return List.replicate n 0x78
  | _ => genText 6

def decimalBytes (i : Nat) : Bytes := (toString i).toUTF8.toList

/-- `n` distinct keys in PostgreSQL's order (length, then bytes); the empty key now and then -/
def genKeys (n : Nat) : Gen (List Bytes) := do
  let mut ks : Array Bytes := #[]
  let withEmpty ← Gen.prob 1 4
  for i in [0:n] do
    if i == 0 && withEmpty then ks := ks.push []
    else
      let pre ← (do if ← Gen.prob 1 40 then genText 90 else genText 3)
      -- at most 300 bytes, and the uniqueness suffix is never cut off (review C06: a long prefix used to push it out)
      ks := ks.push (pre.take (300 - (decimalBytes i).length) ++ decimalBytes i)
  return ks.toList.mergeSort fun a b => keyLt a b || a == b

def strideSizes : List Nat := [0, 1, 2, 15, 16, 17, 31, 32, 33, 63, 64, 65, 200]

def genScalar : Gen Json := do
  match ← Gen.below 8 with
  | 0 => return .null
  | 1 => return .bool true
  | 2 => return .bool false
  | 3 | 4 =>
    -- PostgreSQL's jsonb never holds NaN / ±Infinity (they are not JSON numbers); the Spec admits them, so they are
    -- generated, but rarely (1 in 40 numbers instead of 1 in 8)
    let n ← genNumeric
    let n ← match n with
      | .fin .. => pure n
      | _ => if ← Gen.prob 1 5 then pure n else pure (Numeric.fin (← Gen.bool) 0 2 [← Gen.range 1 9999, ← Gen.below 10000])
    return .num n (← Gen.prob 1 4)
  | _ => return .str (← genString)

/-- a document; `depth` = container levels still allowed, `size` scales container sizes -/
partial def genJson (depth size : Nat) : Gen Json := do
  if depth == 0 then return ← genScalar
  match ← Gen.below 10 with
  | 0 | 1 => genScalar
  | k =>
    let n ← (do
      if size == 0 then Gen.range 0 3
      else if ← Gen.prob 1 (if depth ≥ 3 then 3 else 12) then Gen.oneOf (strideSizes.filter (· ≤ 70 * size))
      else Gen.edgy 0 (2 + 2 * size))
    -- children of big containers are mostly scalars, so that documents stay small
    let child : Gen Json := do
      if n > 8 then
        if ← Gen.prob 1 24 then genJson (min (depth - 1) 1) 0 else genScalar
      else genJson (depth - 1) (size / 2)
    let xs ← Gen.listOf n child
    if k % 2 == 0 then return .arr xs
    else
      let ks ← genKeys n
      return .obj (ks.zip xs)

/-- a chain of `d` nested containers around `leaf` (alternating array / object) -/
def nest : Nat → Json → Json
  | 0, leaf => leaf
  | d+1, leaf => if d % 2 == 0 then .arr [nest d leaf] else .obj [([0x6b], nest d leaf)]

def keyOf (i : Nat) : Bytes := [0x6b] ++ decimalBytes i
def sortKeys (ks : List Bytes) : List Bytes := ks.mergeSort fun a b => keyLt a b || a == b

/-- an object with `n` pairs k0..k(n-1) → value i as a small numeric / string alternately -/
def flatObj (n : Nat) : Json :=
  let ks := sortKeys ((List.range n).map keyOf)
  .obj (ks.map fun k => (k, if k.length % 2 == 0 then Json.str k else .num (.fin false 0 0 [k.length, 1]) false))

def flatArr (n : Nat) : Json :=
  .arr ((List.range n).map fun i =>
    if i % 3 == 0 then Json.str (decimalBytes i) else if i % 3 == 1 then .num (.fin (i % 2 == 0) 0 0 [i]) false else .bool (i % 2 == 0))

/-- a big array: mostly null / booleans (cheap for the list-based model), a string, a number and a
nested container every few thousand elements, also among the last ones -/
def bigArr (n : Nat) : Json :=
  .arr ((List.range n).map fun i =>
    if i % 5000 == 1 || i + 2 == n then Json.str (decimalBytes i)
    else if i % 5000 == 2 || i + 1 == n then .num (.fin (i % 2 == 0) 0 0 [i % 9999 + 1]) false
    else if i % 7000 == 3 then .arr [.null, .str [0x78]]
    else if i % 3 == 0 then .null else .bool (i % 2 == 0))

/-- a big object: `n` pairs k0..k(n-1) in PostgreSQL's key order, values null / booleans, a number every 1000th -/
def bigObj (n : Nat) : Json :=
  let ks := sortKeys ((List.range n).map keyOf)
  .obj (ks.map fun k => (k, if k.length % 3 == 0 then Json.null else if (k.getLastD 0).toNat % 10 == 7 && k.length == 5
    then .num (.fin false 0 0 [k.length, 1]) false else .bool (k.length % 2 == 0)))

/-- deterministic boundary documents (first indices of family `jsonb`) -/
def boundaryDocs : List Json :=
  let one : Json := .num (.fin false 0 0 [1]) false
  [ .obj [], .arr [], .null, .bool true, .bool false, .str [], .str [0x68, 0x69], one,
    .num (.fin true (-1) 1 [5000]) false, .num .nan false, .num .pinf false, .num .ninf false,
    .arr [.null], .arr [.obj [], .arr []], .obj [([], .obj []), ([0x61], .arr [])],
    .arr [.arr [.arr [.arr [.arr [.arr []]]]]], nest 6 (.obj []), nest 6 one, nest 5 .null,
    -- every padding amount in front of a numeric and of a container
    .arr [.str [], one], .arr [.str [1], one], .arr [.str [1, 2], one], .arr [.str [1, 2, 3], one],
    .arr [.str [], .arr [one]], .arr [.str [1], .arr [one]], .arr [.str [1, 2], .obj [([0x61], one)]],
    .arr [.str [1, 2, 3], .obj [([0x61, 0x62], one)]],
    .obj [([0x61], one), ([0x62, 0x62], .str [0x78]), ([0x63, 0x63, 0x63], one)] ] ++
  strideSizes.map flatObj ++ strideSizes.map flatArr ++
  [ .arr [flatObj 17, flatObj 33, flatArr 33], .obj [([0x61], flatObj 32), ([0x62], flatArr 64)],
    .arr [.num (.fin false 0 0 [1]) true, .num (.fin true 1 70 [1, 2]) false],
    -- around and far beyond the former cap of 10 000 elements / pairs (finding J10K, repaired by fix 10),
    -- across 2^16 entries; an object (20 002 JEntries in one array) and a big container nested in a small one
    .arr (List.replicate 10000 .null), .arr (List.replicate 10001 .null),
    bigArr 20000, bigArr 70000, bigObj 10001, .obj [([0x61], bigArr 10001), ([0x62, 0x62], .str [0x78])] ]

/-- which stride crossings a document exercises: (key half, value half, array, has empty container, depth) -/
structure DocStats where
  xk : Bool := false
  xv : Bool := false
  xa : Bool := false
  empty : Bool := false
  nums : Nat := 0
  depth : Nat := 0
  big : Bool := false          -- some container has more than 10 000 elements / pairs
deriving Inhabited

partial def docStats : Json → DocStats
  | .arr xs =>
    let cs := xs.map docStats
    { xk := cs.any (·.xk), xv := cs.any (·.xv), xa := xs.length ≥ 33 || cs.any (·.xa),
      empty := xs.isEmpty || cs.any (·.empty), nums := (cs.map (·.nums)).sum,
      depth := 1 + (cs.map (·.depth)).foldl max 0, big := xs.length > 10000 || cs.any (·.big) }
  | .obj kvs =>
    let cs := kvs.map fun kv => docStats kv.2
    let n := kvs.length
    { xk := n ≥ 33 || cs.any (·.xk),
      -- some value entry has a combined index that is a positive multiple of 32
      xv := (n ≥ 1 && (2 * n - 1) / 32 > (n - 1) / 32) || cs.any (·.xv),
      xa := cs.any (·.xa), empty := kvs.isEmpty || cs.any (·.empty), nums := (cs.map (·.nums)).sum,
      depth := 1 + (cs.map (·.depth)).foldl max 0, big := n > 10000 || cs.any (·.big) }
  | .num _ _ => { nums := 1 }
  | _ => {}

end PgVerif.Gen
