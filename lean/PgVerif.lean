-- This module serves as the root of the `PgVerif` library.
-- Import modules here that should be built as part of the library.
import PgVerif.Basic
