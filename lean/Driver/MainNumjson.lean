import Driver.Run
import Driver.Fam.Numjson
open Driver
/-- families of area "numjson" (numeric + JSONB) -/
def main (args : List String) : IO UInt32 :=
  run [Fam.numhdr, Fam.numeric, Fam.numround, Fam.jsonb, Fam.numericMalformed, Fam.jsonbMalformed, Fam.jsonbAlias, Fam.numericRaw, Fam.jsonbRaw] args
