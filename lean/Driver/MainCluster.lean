import Driver.Run
import Driver.Fam.Cluster
import Driver.Fam.CliRender
import Driver.Fam.Remote2
import Driver.Fam.GoCase
open Driver
/-- families of area "cluster" -/
def main (args : List String) : IO UInt32 := run [Fam.cluster_dump, Fam.cluster_files, Fam.remote, Fam.cli,
       Fam.repeat_, Fam.order, Fam.concurrent, Fam.repeat_cli, Fam.catmut, Fam.clirender, Fam.exec, Fam.remote_refresh, Fam.GoCaseFam.gocase] args
