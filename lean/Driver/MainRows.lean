import Driver.Run
import Driver.Fam.Rows
open Driver
/-- families of area "rows" -/
def main (args : List String) : IO UInt32 :=
  run [Fam.rowdec, Fam.rowexh, Fam.varlena, Fam.rowfile, Fam.rowviews, Fam.authid, Fam.rowmut, Fam.rowfilemut, Fam.rowraw, Fam.varlenaraw, Fam.rowmasks, Fam.rowexh4] args
