import Driver.Run
import Driver.Fam.Toast
open Driver
/-- families of area "toast" -/
def main (args : List String) : IO UInt32 :=
  run [Fam.Toast.toastptr, Fam.Toast.toastrel, Fam.Toast.toastrel2, Fam.Toast.pglz, Fam.Toast.lz4, Fam.Toast.lz4go, Fam.Toast.pglzgo,
       Fam.Toast.toaststats, Fam.Toast.toastrepeat, Fam.Toast.toastties, Fam.Toast.toastunhinted, Fam.Toast.toastmut] args
