import Driver.Run
import Driver.Fam.Dropped
open Driver
/-- families of area "dropped" -/
def main (args : List String) : IO UInt32 := run [Fam.Dropped.dropped_wf, Fam.Dropped.dropped_any, Fam.Dropped.dropped_repeat, Fam.Dropped.droppedmut, Fam.Dropped.dropped_mutcorr] args
