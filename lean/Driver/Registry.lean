import Driver.Family
import Driver.Fam.Heap
namespace Driver
/-- every correspondence family the driver knows; one line per family -/
def families : List Family := [
  Fam.heapscan,
  Fam.infomask
]
end Driver
