/-
  Driver-side plumbing: what a correspondence family is.
  A family turns (seed, index, size) into one case: the arguments handed to the real code,
  the model's canonical output on them, the spec's expected output (or "-" when the spec is
  silent, e.g. on malformed input), and tags (coverage histogram labels, `kf:<id>` for the
  class of a known finding, `nt` for a non-trivial case).
-/
import PgVerif.Basic.Canon
namespace Driver
open PgVerif

structure Case where
  tags : List String := []
  model : String
  spec : String := "-"
  args : List String
deriving Inhabited

structure Family where
  name : String
  /-- generate case `idx` of the family from `seed`, `size` scales the input -/
  gen : (seed idx size : Nat) → Case
  /-- model output for explicit arguments (malformed stream, replays) -/
  eval : List String → String
  /-- number of cases of the exhaustive/deterministic prefix (indices below this are not random) -/
  fixed : Nat := 0

def Case.line (fam : String) (idx : Nat) (c : Case) : String :=
  String.intercalate "\t"
    (["C", fam, toString idx, (if c.tags.isEmpty then "-" else String.intercalate "," c.tags), c.model, c.spec] ++ c.args)

def b2s (b : Bool) : String := if b then "1" else "0"

end Driver
