import Driver.Run
import Driver.Fam.DeletedScan
open Driver
/-- families of area "delscan" (ScanAllDeletedRows over whole clusters) -/
def main (args : List String) : IO UInt32 := run [Fam.scandeleted] args
