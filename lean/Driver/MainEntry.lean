import Driver.Run
import Driver.Fam.Entry
import Driver.Fam.Extra
import Driver.Fam.Big
import Driver.Fam.EntryFS
open Driver
/-- families of area "entry" (C10 coverage audit: uncovered entry points, path-taking wrappers) -/
def main (args : List String) : IO UInt32 :=
  run [Fam.Entry.entrymut, Fam.Entry.filewrap, Fam.Extra.extra, Fam.Big.bigmut, Fam.Big.resource, Fam.EntryFS.fskind] args
