import Driver.Run
import Driver.Fam.Index
open Driver
/-- families of area "index" -/
def main (args : List String) : IO UInt32 :=
  run [Fam.Idx.idxfile, Fam.Idx.idxflags, Fam.Idx.idxflagorder, Fam.Idx.idxcycle, Fam.Idx.idxmeta, Fam.Idx.idxmut, Fam.Idx.idxmal] args
