import Driver.Run
import Driver.Fam.Scalars
import Driver.Fam.ScalarsClosed
open Driver
/-- families of area "scalars" -/
def main (args : List String) : IO UInt32 := run (Fam.Scalars.all ++ [Fam.ScalarsClosed.closedFam]) args
