/-
  pgmodel-<area> — the compiled model/spec drivers (one executable per area, all with this interface).
    pgmodel gen <family> <seed> <start> <count> <size>   one case line per index
    pgmodel eval                                          stdin: "<family>\t<args…>" → model output per line
    pgmodel list                                          family names and sizes of their fixed prefixes
-/
import Driver.Family
namespace Driver

def findFam (families : List Family) (n : String) : Option Family := families.find? (·.name == n)

partial def evalLoop (families : List Family) (h : IO.FS.Stream) (out : IO.FS.Stream) : IO Unit := do
  let line ← h.getLine
  if line.isEmpty then return ()
  let l := (line.dropEndWhile (fun c => c == '\n' || c == '\r')).toString
  match l.splitOn "\t" with
  | fam :: args =>
    match findFam families fam with
    | some f => out.putStrLn (f.eval args)
    | none => out.putStrLn "bad-family"
  | _ => out.putStrLn "bad-line"
  out.flush
  evalLoop families h out

/-- entry point shared by every area driver -/
def run (families : List Family) (args : List String) : IO UInt32 := do
  let out ← IO.getStdout
  match args with
  | ["list"] =>
    for f in families do out.putStrLn s!"{f.name}\t{f.fixed}"
    return 0
  | ["gen", fam, seed, start, count, size] =>
    match findFam families fam with
    | none => IO.eprintln s!"unknown family {fam}"; return 2
    | some f =>
      let seed := seed.toNat!; let start := start.toNat!; let count := count.toNat!; let size := size.toNat!
      for i in [start:start+count] do
        out.putStrLn ((f.gen seed i size).line fam i)
      return 0
  | ["eval"] =>
    evalLoop families (← IO.getStdin) out
    return 0
  | _ =>
    IO.eprintln "usage: pgmodel gen <family> <seed> <start> <count> <size> | eval | list"
    return 2

end Driver
