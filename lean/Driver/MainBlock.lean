import Driver.Run
import Driver.Fam.Block
import Driver.Fam.Segment
import Driver.Fam.Checksum
import Driver.Fam.BlockMal
open Driver
/-- families of area "block" -/
def main (args : List String) : IO UInt32 :=
  run [Fam.Block.rangegrammar, Fam.Block.blockrange, Fam.Block.blockinfo, Fam.Block.rangetuples,
       Fam.Segment.segments, Fam.Segment.seggaps, Fam.Segment.segpath, Fam.Checksum.cksumfile, Fam.Checksum.cksumdir, Fam.Checksum.toolcksum, Fam.Checksum.pgcksum,
       Fam.BlockMal.blockmal] args
