import Driver.Run
import Driver.Fam.Arrays
open Driver
/-- families of area "arrays" -/
def main (args : List String) : IO UInt32 := run [Fam.arrays, Fam.arrayvals, Fam.arraycorr, Fam.arraymut] args
