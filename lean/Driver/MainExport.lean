import Driver.Run
import Driver.Fam.Export
open Driver
/-- families of area "export" -/
def main (args : List String) : IO UInt32 :=
  run [Fam.sqltext, Fam.sqlsafe, Fam.csvtext, Fam.csvsafe, Fam.sqlrows, Fam.exportmut, Fam.lexcross, Fam.csvcross, Fam.jsoncross] args
