import Driver.Run
import Driver.Fam.Control
import Driver.Fam.Sequence
import Driver.Fam.Relmap
import Driver.Fam.SequenceCluster
open Driver
/-- families of area "control" (pg_control, sequences, relation maps) -/
def main (args : List String) : IO UInt32 :=
  run [Fam.control, Fam.controlOrig, Fam.controlBits, Fam.controlVer, Fam.controlRead, Fam.controlTotal, Fam.controlAny, Fam.controlPg10,
       Fam.sequence, Fam.sequenceOrig, Fam.isseq, Fam.isseqOrig, Fam.seqAny, Fam.seqAnyOrig, Fam.seqTotal,
       Fam.relmap, Fam.relmapTotal, Fam.seqfind, Fam.seqscan, Fam.seqrepeat, Fam.relmapRead] args
