import Driver.Run
import Driver.Fam.Heap
open Driver
/-- families of area "heap" -/
def main (args : List String) : IO UInt32 := run [Fam.heapscan, Fam.infomask, Fam.heapmut, Fam.pagedirect, Fam.tupledirect, Fam.heapconcat, Fam.heapraw] args
