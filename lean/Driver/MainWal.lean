import Driver.Run
import Driver.Fam.Wal
open Driver
/-- families of area "wal" -/
def main (args : List String) : IO UInt32 :=
  run [Fam.Wal.walseg, Fam.Wal.walnames, Fam.Wal.waldir, Fam.Wal.walraw, Fam.Wal.walmut] args
