import Driver.Run
import Driver.Fam.Search
import Driver.Fam.SearchBytes
import Driver.Fam.SearchFloat
open Driver
/-- families of area "search" -/
def main (args : List String) : IO UInt32 := run [Fam.search, Fam.secretscan, Fam.cellfmt, Fam.searchre, Fam.searchmut, Fam.secretbig,
  Fam.searchbytes, Fam.secretbytes, Fam.cellfmtbytes, Fam.searchuni, Fam.secretedge, Fam.floattext] args
