import Driver.Run
import Driver.Fam.Search
open Driver
/-- families of area "search" -/
def main (args : List String) : IO UInt32 := run [Fam.search, Fam.secretscan, Fam.searchmut] args
