/-
  pgmodel — the compiled model/spec driver.
    pgmodel gen <family> <seed> <start> <count> <size>   one case line per index
    pgmodel eval                                          stdin: "<family>\t<args…>" → model output per line
    pgmodel list                                          family names and sizes of their fixed prefixes
-/
import Driver.Registry
open Driver

def findFam (n : String) : Option Family := families.find? (·.name == n)

partial def evalLoop (h : IO.FS.Stream) (out : IO.FS.Stream) : IO Unit := do
  let line ← h.getLine
  if line.isEmpty then return ()
  let l := (line.dropEndWhile (fun c => c == '\n' || c == '\r')).toString
  match l.splitOn "\t" with
  | fam :: args =>
    match findFam fam with
    | some f => out.putStrLn (f.eval args)
    | none => out.putStrLn "bad-family"
  | _ => out.putStrLn "bad-line"
  out.flush
  evalLoop h out

def main (args : List String) : IO UInt32 := do
  let out ← IO.getStdout
  match args with
  | ["list"] =>
    for f in families do out.putStrLn s!"{f.name}\t{f.fixed}"
    return 0
  | ["gen", fam, seed, start, count, size] =>
    match findFam fam with
    | none => IO.eprintln s!"unknown family {fam}"; return 2
    | some f =>
      let seed := seed.toNat!; let start := start.toNat!; let count := count.toNat!; let size := size.toNat!
      for i in [start:start+count] do
        out.putStrLn ((f.gen seed i size).line fam i)
      return 0
  | ["eval"] =>
    evalLoop (← IO.getStdin) out
    return 0
  | _ =>
    IO.eprintln "usage: pgmodel gen <family> <seed> <start> <count> <size> | eval | list"
    return 2
